"""apply one named mutation to the worktree given as argv[1]"""
import sys
wt, name = sys.argv[1], sys.argv[2]
def sub(rel, old, new, count=1):
    p = f"{wt}/{rel}"; s = open(p).read()
    assert s.count(old) >= 1, (name, "pattern not found", old[:60])
    open(p, "w").write(s.replace(old, new, count))
EV = "src/celpy/evaluation.py"; INIT = "src/celpy/__init__.py"; CP = "src/celpy/celparser.py"
if name == "m_nc_clone_shares_refs":      # NameContainer.clone copies the dict but not the Referents
    sub(EV, "            new[k] = v.clone()\n", "            new[k] = v\n")
elif name == "m_no_clone_when_few":       # per-call clone skipped for "small" activations (optimisation gone wrong)
    sub(EV, "        if context:\n            self.activation = self.base_activation.clone()\n            self.activation.identifiers.load_values(context)\n        else:\n            self.activation = self.base_activation\n        self.logger.debug(\"Activation: %r\", self.activation)\n\n        # Global",
            "        if context:\n            self.activation = self.base_activation.clone() if len(context) > 1 else self.base_activation\n            self.activation.identifiers.load_values(context)\n        else:\n            self.activation = self.base_activation\n        self.logger.debug(\"Activation: %r\", self.activation)\n\n        # Global")
elif name == "m_parser_singleton":         # revert of D2: parse through the process-wide singleton
    sub(CP, "            return self.parser.parse(self.text)", "            return CELParser.CEL_PARSER.parse(self.text)")
elif name == "m_bindings_normalised":      # load_values 'normalises' the caller's mapping in place
    sub(EV, "        for name, refers_to in values.items():\n            # self.logger.debug(\"load_values", "        if isinstance(values, dict) and \".x\" in values:\n            values[\"x\"] = values.pop(\".x\")\n        for name, refers_to in values.items():\n            # self.logger.debug(\"load_values")
elif name == "m_resolve_cache":            # a dotted name that cannot be resolved falls back to the value it had in the previous evaluation
    sub(EV, "            context.setdefault(final, Referent())  # No annotation previously present.\n            context[final].value = refers_to\n", "            context.setdefault(final, Referent())  # No annotation previously present.\n            context[final].value = refers_to\n            if path:\n                _LAST_SEEN[tuple(path) + (final,)] = context[final]\n")
    sub(EV, "            raise NameContainer.NotFound(path)\n        if not tail:", "            if tuple(path) in _LAST_SEEN and len(path) > 1:\n                return _LAST_SEEN[tuple(path)]\n            raise NameContainer.NotFound(path)\n        if not tail:")
    sub(EV, "class Referent:\n", "_LAST_SEEN: Dict[Any, Any] = {}\n\n\nclass Referent:\n")
elif name == "m_shared_namespace":         # revert of D4
    sub(EV, "        evaluation_globals = dict(celpy.evaluation.result.__globals__)\n", "        evaluation_globals = celpy.evaluation.result.__globals__\n")
elif name == "m_result_global_activation":  # result() stashes the activation in the module global `the_activation`
    sub(EV, "    value: Result\n    try:\n        value = cel_expr(activation)\n", "    value: Result\n    global the_activation\n    the_activation = activation\n    try:\n        value = cel_expr(the_activation)\n")
elif name == "m_activation_cache":         # per-call activations memoised by the names bound
    sub(EV, "        if context:\n            self.activation = self.base_activation.clone()\n            self.activation.identifiers.load_values(context)\n        else:\n            self.activation = self.base_activation\n        self.logger.debug(\"Activation: %r\", self.activation)\n\n        # Global",
            "        if context:\n            _k = (id(self.executable_code.co_code) * 0, tuple(sorted(context)))\n            if _k not in _ACT_CACHE:\n                act = self.base_activation.clone()\n                act.identifiers.load_values(context)\n                _ACT_CACHE[_k] = act\n            self.activation = _ACT_CACHE[_k]\n        else:\n            self.activation = self.base_activation\n        self.logger.debug(\"Activation: %r\", self.activation)\n\n        # Global")
    sub(EV, "class Referent:\n", "_ACT_CACHE: Dict[Any, Any] = {}\n\n\nclass Referent:\n")
elif name == "m_per_program_namespace":    # harmless for the contract: one namespace per program (not per call)
    sub(EV, "        evaluation_globals = dict(celpy.evaluation.result.__globals__)\n", "        if not hasattr(self, \"_ns\"):\n            self._ns = dict(celpy.evaluation.result.__globals__)\n        evaluation_globals = self._ns\n")
elif name == "h_rename_local":             # harmless: rename locals
    sub(EV, "        evaluation_globals = dict(celpy.evaluation.result.__globals__)\n        evaluation_globals[\"base_activation\"] = self.activation\n        try:\n            exec(self.executable_code, evaluation_globals)\n            value = cast(celpy.celtypes.Value, evaluation_globals[\"CEL\"])",
            "        namespace = dict(celpy.evaluation.result.__globals__)\n        namespace[\"base_activation\"] = self.activation\n        try:\n            exec(self.executable_code, namespace)\n            value = cast(celpy.celtypes.Value, namespace[\"CEL\"])")
    sub(EV, "        new = Referent(self.annotation)\n        # A nested", "        copy_ = Referent(self.annotation)\n        # A nested")
    sub(EV, "        new.container = self.container.clone() if self.container is not None else None\n        new._value = self._value\n        new._value_set = self._value_set\n        return new", "        copy_.container = self.container.clone() if self.container is not None else None\n        copy_._value = self._value\n        copy_._value_set = self._value_set\n        return copy_")
elif name == "h_reorder":                  # harmless: reorder independent statements
    sub(EV, "        new._value = self._value\n        new._value_set = self._value_set\n        return new", "        new._value_set = self._value_set\n        new._value = self._value\n        return new")
    sub(EV, "        clone.identifiers = self.identifiers.clone()\n        clone.functions = self.functions.copy()\n        clone.package = self.package\n", "        clone.package = self.package\n        clone.functions = self.functions.copy()\n        clone.identifiers = self.identifiers.clone()\n")
else:
    raise SystemExit("unknown mutation " + name)
print("applied", name)
