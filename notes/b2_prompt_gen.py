import json,glob
r=json.load(open('/verif/seeded/round2_results.json'))
props={json.loads(l)['id']:json.loads(l) for l in open('/verif/properties.jsonl')}
extra={
 'C04': """D. GENUINE DEFECT reported by a seeding agent, reproduced by the lead on the unchanged tree: the interpreter lets a KeyError escape
   evaluate() for  "%(a)s" % {}  (StringType % MapType is Python %-formatting; `Evaluator.multiplication` has no KeyError clause; the compiled
   runner returns an evaluation error). Your measured table missed it because no pool string is a format string ("behaviour depends only on
   the operand kind" is false for str % x). Widen the pool (format strings such as "%(a)s", "%s", "%d", "%c", "%*d", "%", b"%s", b"%(a)s"), let
   the table/bridge expose it, then land a minimal `fix:` through land_fix.sh per CONVENTIONS (a patch a maintainer would accept) and record it
   in known_findings.txt as `fixed:`. Check bytes % x too, and whether other primitives hide similar value-dependent exception classes
   (str.format is not reachable, but think about `*` with huge repeat counts, `%c`, `matches` patterns).""",
}
for pid in sorted(props):
    seeds=[(k,v) for k,v in sorted(r.items()) if k.startswith(pid+'-m')]
    harm=[]
    for k,v in sorted(r.items()):
        if k.startswith('harmless'):
            m=json.load(open(f'/verif/seeded/{k}/meta.json'))
            if pid in m['property']: harm.append((k,v,m))
    A=''
    for k,v in seeds:
        m=json.load(open(f'/verif/seeded/{k}/meta.json'))
        tag={'missed':'MISSED (check exits 0)','nfi':'only no-failing-input-found','caught':'caught with a failing input'}[v['verdict']]
        A+=f"   - seeded/{k}: {tag}. {m['summary'][:500]}\n       needs: {m['needs'][:400]}\n"
    B=''
    for k,v,m in harm:
        tag={'no-alarm':'no alarm (good)','alarm-nfi':'ALARMS (VIOLATION … no-failing-input-found)'}[v['verdict']]
        B+=f"   - seeded/{k}: {tag}. {m['summary'][:400]}\n"
    txt=f"""You are a builder (round 2) in a verification project. Work autonomously and carefully for up to ~3 hours; do not ask questions.

PROJECT. /repo is cloud-custodian/cel-python (pure-Python CEL interpreter + Cloud Custodian translator). /verif holds machinery that DECIDES a
fixed list of semantic properties (/verif/properties.jsonl, C01..C20) by machine-checked proof in Lean 4 tied to the current source: (a) an
executable Lean model + theorems stating the property for ALL inputs/histories; (b) a tie to /repo's working tree re-checked on every run —
definitions regenerated from the source by a translator + bridge theorems, and a correspondence run of the model's executable definitions
(Lean driver) against the real implementation, plus an independent oracle and a failing-input search. A broken proof/bridge/correspondence is
not by itself a violation: the check then searches for a concrete failing input on the real code and prints
`VIOLATION property=<id> replay=<path>` (ending in `no-failing-input-found` when none is found). On the unchanged tree every check must exit 0;
it must detect realistic code changes that break the property while passing the repo's 436 tests; it should not alarm on code where the
property holds. All twenty checks exist and pass. Your job is to make the check of ONE property, {pid}, stronger.

READ FIRST: /verif/CONVENTIONS.md (binding: file layout, how to run, the rules about /repo and about shared files), /verif/DESIGN.md §0–§4, the
Appendix-A section of DESIGN.md for {pid} (same text: /verif/notes/{pid}.md), the record of {pid} in /verif/properties.jsonl, then your files:
py/verif/props/{pid.lower()}*.py, py/verif/translate/gen_*{pid.lower()}*.py (grep GENERATORS to find which generators feed `gen_names` of your Prop),
lean/Cel/{{Model,Lemmas,Props,Bridge,Drv,Gen}} files named in notes/{pid}.md, and py/verif/core.py.

PROPERTY {pid} — {props[pid]['title']}
{props[pid]['statement']}

YOUR ASSIGNMENT (priorities A > B > C)

A. Independent seeded property-breaking changes (each passes the 436 tests; written by agents that never saw /verif). Verdicts of
   `seeded/run_seeded.sh seeded/<id>` (quick tier, seed 0) on first contact:
{A or '   (none)'}
   Every change marked MISSED or only-no-failing-input-found must end up reported as `VIOLATION property={pid} replay=…` WITH a concrete failing
   input, in the QUICK tier, for seed 0 and at least two other seeds (VERIF_SEED=1,2 seeded/run_seeded.sh …). Do NOT special-case the
   mutant's exact input: work out which CLASS of change the miss stands for (a cache or memo → sequences of related inputs in one process;
   identity vs. equality; a boundary value; a rarely combined pair of types; state shared between threads/environments; a fast path for a
   sub-domain; value-dependent behaviour of a primitive) and extend the generator / oracle / model so that the whole class is covered, then
   confirm on the seeded change. Independent oracle first (property's own predicate on the real code); a model extension where the behaviour
   is model-able. All earlier seeds of {pid} (seeded/{pid}-m1 … m7) must still be caught afterwards and the unchanged tree must still exit 0 for
   seeds 0,1,2,3 with the quick tier staying under ~90 s wall on an idle machine (the machine is busy now: other builders run in parallel).

B. Harmless refactorings (behaviour-preserving; 436 tests pass) and what the check says today:
{B or '   (none for this property)'}
   Goal: a behaviour-preserving rewrite should exit 0. The brief tolerates `no-failing-input-found` when a rewrite leaves the translator's
   subset, but every such alarm is a false alarm on code where the property holds, so reduce them where you can do it SOUNDLY: widen the
   translator's subset / normalise before emitting Lean (early returns vs. else chains, conditional expression vs. if/else, split/merged chained
   comparisons, renamed locals, reordered independent statements, hoisted sub-expressions bound to locals, helper functions that are
   extracted or inlined (inline one level of module-level/private helper calls when translating), loops vs. comprehensions, members of an
   `except (A, B)` tuple in any order, reordered table entries), and make the bridge proofs robust (`simp`/`decide`/`cases … <;> rfl`/`ac_rfl`
   over the semantic content rather than `rfl` on syntax; compare sets as sets). NEVER by dropping a bridge obligation or by making the
   extractor ignore code: after your change a behaviour-CHANGING edit of the same function must still break the bridge or the correspondence
   (re-run all seeded/{pid}-m* to confirm nothing regressed, and try one or two mutants of your own on the code the harmless patch touched).
   Where a rewrite genuinely cannot be followed (say so in notes/{pid}.md, with the reason), leave the alarm.

C. With the time left: extend what is PROVED. Pick behaviour of {pid} that notes/{pid}.md lists as "only corresponded"/"trusted"/"_partial" and bring it
   into the Lean model with universally quantified theorems in lean/Cel/Props/{pid}.lean (induction/invariants, no bounds, no `decide` on samples,
   `example`s for non-vacuity), tied to the code by the driver correspondence (and a generator+bridge where the code is table-like). Keep
   Model files Mathlib-free. No sorry/admit/axiom/native_decide/bv_decide.
{extra.get(pid,'')}
HOW TO WORK
* Never edit /repo directly; scratch worktrees under /tmp/b2-{pid}-*/ (git -C /repo worktree add --detach <dir> HEAD; remove when done:
  git -C /repo worktree remove --force <dir>). Remember PYTHONPATH=<worktree>/src when running repo tests in a worktree.
* Run checks with `./check {pid}` (VERIF_SEED=n, --tier thorough), against a changed tree with `seeded/run_seeded.sh seeded/<id> {pid}` (it copies
  /verif to a scratch dir, applies the patch to a scratch worktree, prints the verdict and cleans up) or `VERIF_REPO=<worktree> ./check {pid}`
  (CAUTION: that form regenerates lean/Cel/Gen/* inside /verif from the changed tree — afterwards run `./check {pid}` on /repo again so the
  committed Gen files are those of the unchanged tree; prefer run_seeded.sh). Build Lean only via `./lk <targets>`; wrap scratch lean runs in
  `timeout 120`.
* Other builders work in /verif at the same time, each on its own property. Touch only {pid}'s files. Shared files (py/verif/core.py,
  celrun.py, celvals.py, translate/common.py, translate/py2lean.py, lean/Cel/Model/Basic.lean, lean/Cel/Drv/Util.lean, Val.lean): minimal, additive,
  backwards-compatible edits only, re-read right before editing; if you improve py2lean.py, re-run `./check` for C01 and C02 (its first users) too.
  Do not run git add/commit in /verif (the lead commits), do not touch MANIFEST.json by hand (PYTHONPATH=py:/repo/src /venv/bin/python
  py/verif/mkmanifest.py regenerates it if your manifest text changes), properties.jsonl, other properties' files.
* A violation your strengthened check reports on the UNCHANGED tree is either a genuine defect of cel-python (reproduce with a 3-line script;
  then CONVENTIONS "Defects": small safe `fix:` via land_fix.sh, or a `known:` finding with a precise predicate) or a false alarm of your
  check (then fix the check). Never loosen a check that is right.
* Update notes/{pid}.md (what changed in round 2: new generator dimensions / oracle clauses / theorems, which seeded change is caught by what,
  which harmless rewrite passes/why not) and add minimised new failing inputs to corpus/{pid}/.

FINAL MESSAGE to the lead (short): per seeded change the verdict now + what catches it; per harmless patch the verdict now; new theorems (names);
defects found (witness, disposition); shared files touched; anything left undone.
"""
    open(f'/tmp/b2/{pid}.txt','w').write(txt)
print('ok')
