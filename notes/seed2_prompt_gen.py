import json,glob,os
props={}
for l in open('/verif/properties.jsonl'):
    p=json.loads(l); props[p['id']]=p
for pid,p in props.items():
    prev=[]
    for d in sorted(glob.glob(f'/verif/seeded/{pid}-m*')):
        m=json.load(open(d+'/meta.json'))
        prev.append('- '+m.get('summary','')[:400])
    anchors=p.get('anchors',{})
    files=anchors.get('files',[])
    mech='\n'.join(f"  - {m['name']} ({m['where']})" for m in anchors.get('mechanism',[]))
    txt=f"""You are helping to test a verification harness for the Python project cloud-custodian/cel-python (a pure-Python
interpreter for Google's Common Expression Language plus a Cloud Custodian policy-to-CEL translator). You will play the role of a
developer who introduces a SUBTLE REGRESSION. Work autonomously; do not ask questions.

HARD RULES
* Work ONLY in your own scratch git worktree: create it with
    git -C /repo worktree add --detach /tmp/mut2-{pid} HEAD
  Never edit anything in /repo itself. Do NOT read, list or touch /verif (anything under it) — your work must be independent of it.
* Python is /venv/bin/python. IMPORTANT: celpy is installed "editable" from /repo/src, so to make Python import YOUR worktree's code you
  must always prefix commands with PYTHONPATH=/tmp/mut2-{pid}/src  (otherwise you silently test the unmodified code).
* The existing test suite is run like this (from inside the worktree) and must report `436 passed` with each of your changes applied alone:
    cd /tmp/mut2-{pid} && PYTHONPATH=/tmp/mut2-{pid}/src /venv/bin/python -m pytest -q -p no:cacheprovider --timeout=900 --continue-on-collection-errors 2>&1 | tail -3
* No network. Keep all scratch files under /tmp/mut2-{pid} or /tmp/mutout2-{pid}.

THE PROPERTY (id {pid}) — "{p['title']}"
{p['statement']}

Where the mechanism lives (files: {', '.join(files)}):
{mech}

YOUR TASK
Produce THREE different source changes (call them m5, m6, m7), each of which BREAKS this property on the real code while
(a) the package still imports/compiles, and (b) all 436 existing tests still pass. Each change must look like something a real
developer could plausibly commit (a "simplification", a refactoring, a performance tweak, an off-by-one at a boundary, a dropped or reordered
handler, a changed table entry, a cache, state that leaks, a wrong default ...), NOT an obviously malicious or silly edit, and NOT a
change that ordinary use would expose at once. Each must need SOMETHING SPECIFIC to manifest — e.g. an unusual input (a boundary value,
a rare type combination, a particular nesting), a multi-step sequence of operations, a particular interleaving, an error at a particular
point, or two cooperating edits at different sites that each look fine alone. Make the three changes different in kind and in the code
they touch (if the property spans several files/mechanisms, spread out). The change must break what the property STATES (read it
carefully; stay inside its stated domain — e.g. "well-typed inputs", "within int64", "separate environments") rather than something adjacent.

Changes already tried by an earlier round (do NOT repeat these or close variants; find other places/ways):
{chr(10).join(prev)}

For each change write a directory /tmp/mutout2-{pid}/m5 (resp. m6, m7) containing exactly:
* patch.diff — `git diff` of the worktree against HEAD with ONLY that change applied (it must apply to a clean checkout with `git apply`);
* demo.py — a small self-contained program using only the public behaviour of the package (no pytest needed) that exits 0 on the unmodified
  code and exits 1 (printing what went wrong) with the change applied; it is run as  PYTHONPATH=<tree>/src /venv/bin/python demo.py ;
* meta.json — {{"property": "{pid}", "summary": "<what was changed and why it looks innocent>", "needs": "<exactly what is needed for the
  breakage to manifest, and what does NOT expose it>", "files": [...], "tests": "436 passed"}}.

PROCEDURE for each change: start from a clean worktree (`git -C /tmp/mut2-{pid} checkout -- .`), make the edit, run demo.py with and without it
(use `git stash` or a second clean worktree for "without"; a convenient "without" is PYTHONPATH=/repo/src), run the full test suite with it
(must be `436 passed`, no failures/errors), save `git diff > patch.diff`, then reset the worktree. If a candidate change makes any existing
test fail, discard or refine it — do not edit the tests. Verify at the end that each patch.diff applies cleanly to a clean worktree and that
the demo verdicts (0 without / 1 with) are as required.

When finished: remove the worktree (`git -C /repo worktree remove --force /tmp/mut2-{pid}`), leave /tmp/mutout2-{pid}/ in place, and reply
with a short list: for each of m5, m6, m7 one paragraph (what, where, what it needs to manifest, test result, demo result).
"""
    open(f'/tmp/seedprompts/{pid}.txt','w').write(txt)
print('ok')
