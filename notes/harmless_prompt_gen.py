import json
props={}
for l in open('/verif/properties.jsonl'):
    p=json.loads(l); props[p['id']]=p
groups={'G1':['C01','C02','C08','C13'],'G2':['C03','C04','C14','C09'],'G3':['C05','C16','C12','C06'],'G4':['C07','C10','C11','C15'],'G5':['C17','C18','C19','C20']}
for g,pids in groups.items():
    body=''
    for pid in pids:
        p=props[pid]; a=p['anchors']
        mech='\n'.join(f"    - {m['name']} ({m['where']})" for m in a.get('mechanism',[]))
        body+=f"\n[{pid}] {p['title']}\n  {p['statement']}\n  mechanism (line numbers approximate):\n{mech}\n"
    txt=f"""You are helping to test a verification harness for the Python project cloud-custodian/cel-python. You play a developer doing
BEHAVIOUR-PRESERVING maintenance. Work autonomously; do not ask questions.

HARD RULES
* Work ONLY in your own scratch git worktree: git -C /repo worktree add --detach /tmp/harm-{g} HEAD . Never edit /repo itself. Do NOT read,
  list or touch /verif.
* Python is /venv/bin/python; celpy is installed editable from /repo/src, so always prefix commands with PYTHONPATH=/tmp/harm-{g}/src to test
  YOUR tree. Test suite (must stay `436 passed`):
    cd /tmp/harm-{g} && PYTHONPATH=/tmp/harm-{g}/src /venv/bin/python -m pytest -q -p no:cacheprovider --timeout=900 --continue-on-collection-errors 2>&1 | tail -3

TASK. Below are four semantic properties of the code base with the code they are anchored in. For EACH property produce TWO different
harmless refactorings (so eight in total, named h1..h8) of the anchored code (the functions named in the mechanism lists): changes a
maintainer would really make that keep the observable behaviour EXACTLY the same for every input (same values, same CEL types, same
exception classes, same error/no-error outcome, same state effects) — for example: rename local variables; reorder independent
statements; replace a conditional expression by if/else or the reverse; early return instead of else; split or merge a chained comparison;
extract a small private helper function or inline one; replace a loop by a comprehension or the reverse; `isinstance(x,(A,B))` vs two tests;
reorder the members of an `except (A, B)` tuple; dict literal vs dict(...) ; f-string vs .format in messages; add type annotations,
comments, docstrings, logging/debug lines; reorder dictionary table entries where order is irrelevant; change `a <= x and x <= b` to
`a <= x <= b`. Vary the kind of refactoring across the eight. Each must be SMALL to medium (3-40 changed lines) and touch the anchored
code itself, not unrelated code. Be careful that it is truly equivalent (think about exception classes, evaluation order of
side-effecting/raising sub-expressions, types of results) — spot-check with a few quick experiments comparing the old and new behaviour.

For each, write /tmp/harmout-{g}/hN/patch.diff (git diff against HEAD with only that change; must apply with `git apply` to a clean
checkout) and /tmp/harmout-{g}/hN/meta.json = {{"property": "<Cnn>", "kind": "harmless-refactoring", "summary": "<what changed>",
"why_equivalent": "<argument>", "files": [...], "tests": "436 passed"}}. Run the full test suite with each change applied alone.
Reset the worktree between changes (git -C /tmp/harm-{g} checkout -- .). When finished remove the worktree
(git -C /repo worktree remove --force /tmp/harm-{g}) and reply with a one-line description per change.

THE PROPERTIES
{body}
"""
    open(f'/tmp/seedprompts/H-{g}.txt','w').write(txt)
