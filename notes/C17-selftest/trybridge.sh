#!/bin/sh
# trybridge.sh <tree> : generate Gen/C7n from <tree>, compile Gen + Bridge text as one scratch file
T=$1
OUT=/tmp/b2-C17/tb-$$.lean
cd /verif && VERIF_REPO=$T PYTHONPATH=py:$T/src /venv/bin/python - > $OUT.gen 2>/tmp/b2-C17/tb-$$.err <<PY
from verif.translate import gen_c17
try:
    print(gen_c17.gen_c7n())
except Exception as ex:
    import sys
    print("TRANSLATION-ERROR", type(ex).__name__, ex, file=sys.stderr); sys.exit(3)
PY
if [ $? -ne 0 ]; then grep TRANSLATION /tmp/b2-C17/tb-$$.err; rm -f $OUT.gen /tmp/b2-C17/tb-$$.err; exit 3; fi
( cat $OUT.gen; grep -v "^import Cel.Gen.C7n" /verif/lean/Cel/Bridge/C7n.lean ) > $OUT
cd /verif/lean && timeout 300 lake env lean $OUT 2>&1 | grep -v "WARNING conda" | grep -E "error|sorry" -A6 | head -30
R=$?
echo "bridge-check done ($T)"
rm -f $OUT $OUT.gen /tmp/b2-C17/tb-$$.err
