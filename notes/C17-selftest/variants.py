import subprocess, sys, re
SRC = open('/repo/src/celpy/c7nlib.py').read()
def sub(old, new, s=SRC):
    assert s.count(old) == 1, (old, s.count(old))
    return s.replace(old, new)
KEY_OLD = SRC[SRC.index('    key = celtypes.StringType("Key")'):SRC.index('def glob(')]
SIZE_OLD = SRC[SRC.index('    cidr = parse_cidr(value)\n    if cidr and isinstance'):SRC.index('class ComparableVersion')]
V = {}
V['H-isdisjoint'] = sub('celtypes.BoolType(bool(set(left) & set(right)))', 'celtypes.BoolType(not set(left).isdisjoint(right))')
V['H-len>0'] = sub('    return celtypes.BoolType(bool(set(left) & set(right)))', '    common = set(left).intersection(right)\n    return celtypes.BoolType(len(common) > 0)')
V['H-len!=0'] = sub('    return celtypes.BoolType(bool(set(left) & set(right)))', '    common = set(left) & set(right)\n    return celtypes.BoolType(len(common) != 0)')
V['H-len>=1'] = sub('    return celtypes.BoolType(bool(set(left) - set(right)))', '    return celtypes.BoolType(len(set(left).difference(set(right))) >= 1)')
V['H-notsubset'] = sub('celtypes.BoolType(bool(set(left) - set(right)))', 'celtypes.BoolType(not set(left) <= set(right))')
V['H-ifreturn'] = sub('    return celtypes.BoolType(bool(set(left) - set(right)))', '    if set(left) - set(right):\n        return celtypes.BoolType(True)\n    return celtypes.BoolType(False)')
V['H-condexpr'] = sub('    return celtypes.BoolType(bool(set(left) - set(right)))', '    return celtypes.BoolType(True if set(left) - set(right) else False)')
V['H-striplower'] = sub('string.lower().strip()', 'string.strip().lower()')
V['H-uniq-local'] = sub('    return celtypes.IntType(len(set(collection)))', '    distinct = set(collection)\n    return celtypes.IntType(len(distinct))')
V['H-size-condexpr'] = sub(SIZE_OLD, '    cidr = parse_cidr(value)\n    return celtypes.IntType(cidr.prefixlen) if isinstance(cidr, IPv4Network) else None\n\n\n')
V['H-size-guards'] = sub(SIZE_OLD, '    cidr = parse_cidr(value)\n    if cidr is None:\n        return None\n    if isinstance(cidr, IPv4Network):\n        return celtypes.IntType(cidr.prefixlen)\n    return None\n\n\n')
V['H-runner-hoist'] = sub('        with C7NContext(filter=filter):\n            value = e.evaluate(context)', '        ctx = C7NContext(filter=filter)\n        with ctx:\n            value = e.evaluate(context)')
V['H-key-subscript'] = sub(KEY_OLD, '''    for tag in source:
        if tag["Key"] == target:
            return tag["Value"]
    return None


''')
V['H-key-gen-renamed'] = sub(KEY_OLD, '''    k = celtypes.StringType("Key")
    v = celtypes.StringType("Value")
    found = (t for t in source if target == cast(celtypes.MapType, t).get(k))
    try:
        first = next(found)
        return first.get(v)
    except StopIteration:
        return None


''')
# mutants
V['M-key-returns-key'] = sub('next(matches)).get(value)', 'next(matches)).get(key)')
V['M-key-eager'] = sub(KEY_OLD, '''    for tag in source:
        k = tag.get("Key")
        v = tag.get("Value")
        if k == target:
            return v
    return None


''')
V['M-key-last'] = sub(KEY_OLD, '''    found = None
    for tag in source:
        if tag.get("Key") == target:
            found = tag.get("Value")
    return found


''')
V['M-key-list'] = sub(KEY_OLD, '''    matches = [t for t in source if t.get("Key") == target]
    return matches[0].get("Value") if matches else None


''')
V['M-key-default'] = sub(KEY_OLD, '''    for tag in source:
        if tag.get("Key") == target:
            return tag.get("Value")
    return celtypes.StringType("")


''')
V['M-isect-or'] = sub('bool(set(left) & set(right))', 'bool(set(left) | set(right))')
V['M-diff-swapped'] = sub('bool(set(left) - set(right))', 'bool(set(right) - set(left))')
V['M-uniq-len'] = sub('celtypes.IntType(len(set(collection)))', 'celtypes.IntType(len(collection))')
V['M-isect-subset'] = sub('celtypes.BoolType(bool(set(left) & set(right)))', 'celtypes.BoolType(set(left) <= set(right))')
V['M-size-not'] = sub('if cidr and isinstance(cidr, IPv4Network):', 'if cidr and not isinstance(cidr, IPv4Network):')
V['M-size-or'] = sub('if cidr and isinstance(cidr, IPv4Network):', 'if cidr or isinstance(cidr, IPv4Network):')
V['M-norm-nostrip'] = sub('string.lower().strip()', 'string.lower()')
V['M-runner-hoist-attr'] = sub('        with C7NContext(filter=filter):\n            value = e.evaluate(context)', '        self.ctx = C7NContext(filter=filter)\n        with self.ctx:\n            value = e.evaluate(context)')
names = sys.argv[1:] or list(V)
for n in names:
    open('/tmp/b2-C17-v/src/celpy/c7nlib.py', 'w').write(V[n])
    r = subprocess.run(['/tmp/b2-C17/trybridge.sh', '/tmp/b2-C17-v'], capture_output=True, text=True)
    out = [l for l in r.stdout.splitlines() if 'WARNING conda' not in l and 'pyenv' not in l]
    ok = len(out) == 1 and out[0].startswith('bridge-check done')
    print(f"{n:24s} {'BRIDGES' if ok else 'BREAKS '}  {'' if ok else ' | '.join(out[:2])[:200]}", flush=True)
