#!/bin/sh
# ./run_all.sh [tier] [seed] [jobs] — run every claimed check, print one line per property
cd "$(dirname "$0")" || exit 2
TIER=${1:-quick}; SEED=${2:-0}; JOBS=${3:-4}
mkdir -p /tmp/verif-runall
PIDS=$(/venv/bin/python -c "import json;print(' '.join(c['property_id'] for c in json.load(open('MANIFEST.json'))['checks']))")
echo $PIDS | tr ' ' '\n' | xargs -P $JOBS -I{} sh -c 'S=$(date +%s); VERIF_SEED='$SEED' ./check {} --tier '$TIER' > /tmp/verif-runall/{}.log 2>&1; R=$?; E=$(date +%s); echo "{} exit=$R $((E-S))s $(grep -c "^KNOWN-FINDING" /tmp/verif-runall/{}.log) known | $(tail -1 /tmp/verif-runall/{}.log | cut -c1-160)"' | sort
