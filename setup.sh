#!/bin/sh
# MANIFEST.setup_cmd — offline build of the Lean library from files on disk (no network, no Mathlib `require`).
cd "$(dirname "$0")" || exit 2
export PYTHONPATH="$(pwd)/py:/repo/src"
/venv/bin/python -m verif.translate.regen >/dev/null || exit 1
cd lean && lake build Cel 2>&1 | tail -3
