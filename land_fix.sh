#!/bin/sh
# ./land_fix.sh <patch.diff> <commit-message-file>
# Serialised landing of ONE "fix:" commit in /repo: apply the patch atomically, run the pinned
# baseline (436 tests must pass), commit; on any failure /repo is left untouched.
set -u
PATCH="$(readlink -f "$1")"; MSG="$(readlink -f "$2")"
head -1 "$MSG" | grep -q '^fix:' || { echo "commit message must start with 'fix:'"; exit 2; }
exec 9>/tmp/.repo-land.lock
flock 9
cd /repo || exit 2
if [ -n "$(git status --porcelain --untracked-files=no)" ]; then echo "/repo has uncommitted changes; refusing"; git status --short; exit 2; fi
git apply --index "$PATCH" || { echo "patch does not apply to /repo HEAD ($(git rev-parse --short HEAD)); rebase it"; git checkout -q -- . ; exit 1; }
OUT=$(/venv/bin/python -m pytest -q -p no:cacheprovider --timeout=900 --continue-on-collection-errors 2>&1 | tail -1)
echo "$OUT"
case "$OUT" in
  *"436 passed"*) case "$OUT" in *failed*) OK=0;; *) OK=1;; esac;;
  *) OK=0;;
esac
if [ "$OK" = 1 ]; then
  git commit -q -F "$MSG" && echo "landed $(git rev-parse --short HEAD)"
else
  echo "baseline not green; reverting"; git reset -q --hard HEAD; exit 1
fi
