/- Line-protocol driver: `lake env lean --run Driver.lean < ops.txt`.
   Each input line is `<property-id> <tokens…>`; one output line per input line. -/
import Cel.Drv.C01
import Cel.Drv.C02
open Cel.Drv

def dispatch (pid : String) : Option Handler :=
  match pid with
  | "C01" => some C01.handle
  | "C02" => some C02.handle
  | _ => none

partial def loop (h : IO.FS.Stream) (out : IO.FS.Stream) : IO Unit := do
  let line ← h.getLine
  if line.isEmpty then return ()
  let toks := (line.trimAscii.toString.splitOn " ").filter (· ≠ "")
  let res := match toks with
    | pid :: rest => match dispatch pid with
        | some f => f rest
        | none => "bad-op"
    | [] => "bad-op"
  out.putStrLn res
  loop h out

def main : IO Unit := do
  let out ← IO.getStdout
  loop (← IO.getStdin) out
  out.flush
