import Cel.Drv.Util
import Cel.Model.Runtime
import Cel.Model.RuntimeLimit
/-!
  Line protocol for C05: one line = one whole API history, the answer = the observations of every
  operation joined by `|`.

    <cfg> op ; op ; …          cfg = letters: clone d|s, parser c|s, namespace p|s, resolve_name skips TypeError t|r (default t)
    E I|C <pkg> <n> name ann …  Environment(...)     pkg: `-` = None, `@text` = the string
    R                           CELParser.CEL_PARSER = None
    P <env> <expr>|!            compile   (`!` = text that does not parse)
    G <env> <ast>               program
    V <prog> <n> name val …     evaluate  names are `@text`; values `i:5 s:abc b:1 m:k=1,j=2`
    expr (prefix):  lit n | id x | did x | dot <e> k | add <e> <e>

    LIM <pol> <initial> k …     the recursion limit after every operation: pol = `n` never | `a<n>` always n | `I<n>`/`C<n>` only that
                                runner class; one token per operation: `I`/`C` = Environment of that class, `o` = any other operation
-/
namespace Cel.Drv.C05
open Cel Cel.Drv Cel.Runtime

def unAt (s : String) : Option String :=
  match s.toList with
  | '@' :: r => some (String.ofList r)
  | _ => none

def parseVal (s : String) : Option Val :=
  match s.toList with
  | 'i' :: ':' :: r => (String.ofList r).toInt?.map .int
  | 's' :: ':' :: r => some (.str (String.ofList r))
  | 'b' :: ':' :: r => some (.bool (r == ['1']))
  | 'm' :: ':' :: r =>
    let body := String.ofList r
    if body.isEmpty then some (.map []) else
    (body.splitOn ",").foldr (fun kv acc => do
        let acc ← acc
        match kv.splitOn "=" with
        | [k, n] => do let n ← n.toInt?; pure ((k, n) :: acc)
        | _ => none) (some []) |>.map .map
  | _ => none

partial def parseExpr : List String → Option (Expr × List String)
  | "lit" :: n :: rest => n.toInt?.map fun n => (.lit n, rest)
  | "id" :: x :: rest => some (.ident x, rest)
  | "did" :: x :: rest => some (.dotIdent x, rest)
  | "dot" :: rest => do
      let (e, r1) ← parseExpr rest
      match r1 with
      | k :: r2 => pure (.dot e k, r2)
      | [] => none
  | "add" :: rest => do
      let (a, r1) ← parseExpr rest
      let (b, r2) ← parseExpr r1
      pure (.add a b, r2)
  | _ => none

def parsePairs {α} (f : String → Option α) : Nat → List String → Option (List (String × α))
  | 0, [] => some []
  | n + 1, k :: v :: rest => do
      let k ← unAt k
      let v ← f v
      let r ← parsePairs f n rest
      pure ((k, v) :: r)
  | _, _ => none

def parseOp : List String → Option Op
  | "E" :: k :: pkg :: n :: rest => do
      let k ← (match k with | "I" => some Kind.I | "C" => some Kind.C | _ => none)
      let pkg ← (if pkg == "-" then some none else (unAt pkg).map some)
      let n ← n.toNat?
      let decls ← parsePairs (fun s => some s) n rest
      pure (.mkEnv k decls pkg)
  | ["R"] => some .resetParser
  | ["P", env, "!"] => env.toNat?.map fun e => .compile e none
  | "P" :: env :: rest => do
      let e ← env.toNat?
      match parseExpr rest with
      | some (x, []) => pure (.compile e (some x))
      | _ => none
  | ["G", env, ast] => do pure (.program (← env.toNat?) (← ast.toNat?))
  | "V" :: p :: n :: rest => do
      let p ← p.toNat?
      let n ← n.toNat?
      let b ← parsePairs parseVal n rest
      pure (.evaluate p b)
  | _ => none

def splitOps : List String → List String → List (List String)
  | [], acc => [acc.reverse]
  | ";" :: rest, acc => acc.reverse :: splitOps rest []
  | t :: rest, acc => splitOps rest (t :: acc)

def parseCfg (s : String) : Option Config :=
  match s.toList with
  | c :: p :: n :: rest => do
      let c ← (match c with | 'd' => some ClonePolicy.deep | 's' => some .shallow | _ => none)
      let p ← (match p with | 'c' => some ParserPolicy.perClass | 's' => some .singleton | _ => none)
      let n ← (match n with | 'p' => some NamespacePolicy.perCall | 's' => some .shared | _ => none)
      let t ← (match rest with | [] => some true | ['t'] => some true | ['r'] => some false | _ => none)
      pure ⟨c, p, n, t⟩
  | _ => none

def showObs : Obs → String
  | .done => "done"
  | .parseError => "parse-error"
  | .noSuch => "nosuch"
  | .exc e => "EXC " ++ e.name
  | .err => "err"
  | .value s => "value " ++ s

def parseLimitPolicy (s : String) : Option LimitPolicy :=
  match s.toList with
  | ['n'] => some .never
  | 'a' :: r => (String.ofList r).toNat?.map .always
  | 'I' :: r => (String.ofList r).toNat?.map (.onlyKind .I)
  | 'C' :: r => (String.ofList r).toNat?.map (.onlyKind .C)
  | _ => none

def limitOp : String → Option Op
  | "I" => some (.mkEnv .I [] none)
  | "C" => some (.mkEnv .C [] none)
  | "o" => some .resetParser
  | _ => none

def handle : Handler
  | "LIM" :: pol :: l0 :: rest =>
    match parseLimitPolicy pol, l0.toNat?, rest.mapM limitOp with
    | some pol, some l0, some ops => String.intercalate "|" ((limitTrace pol l0 ops).map toString)
    | _, _, _ => "bad-op"
  | cfg :: rest =>
    match parseCfg cfg, (splitOps rest []).mapM parseOp with
    | some cfg, some ops => String.intercalate "|" ((trace cfg World.init ops).map showObs)
    | _, _ => "bad-op"
  | _ => "bad-op"

end Cel.Drv.C05
