/-
  Line-protocol driver for C04.

  `site <Rule> <cls>*`                         which of the classes are NOT caught at the site (regenerated
                                               handlers + class hierarchy):  `covered` | `escape <cls>*`
  `d1 <top> <out> <truth> <iterN> <iterable> <branch> <expr…>`
        runs `runI` of the interpreter skeleton on the expression (prefix notation, below) with primitives
        that return a plain value everywhere except at site <top>, where the outcome is <out>
        (`ok` | `okerr` | `raise:<cls>`);  <truth> = `t` | `f` | `raise:<cls>` (truth test at <top>).
        Answer: `ok` | `err` | `EXC <cls>`.
  `runC <out>`                                 Transpiler.evaluate on a program with that outcome
  `parse <out>`                                CELParser.parse on a lark outcome
-/
import Cel.Drv.Util
import Cel.Model.Total
import Cel.Gen.Handlers
import Cel.Gen.Measured
namespace Cel.Drv.C04
open Cel Cel.Drv Cel.Total
open Cel.Gen.Handlers (mro handlers runCCaught parseCaught)

def parseOut (s : String) : Option (M Nat) :=
  if s == "ok" then some (.ok 1)
  else if s == "okerr" then some (.ok 0)
  else if s.startsWith "raise:" then (s.drop 6).toNat?.map (fun c => .error c)
  else none

def parseTruth (s : String) : Option (M Bool) :=
  if s == "t" then some (.ok true)
  else if s == "f" then some (.ok false)
  else if s.startsWith "raise:" then (s.drop 6).toNat?.map (fun c => .error c)
  else none

def parseBranch : String → Option DotBranch
  | "nc" => some .nameContainer | "msg" => some .message | "map" => some .mapping | "other" => some .other
  | _ => none

/-- values: 0 = error value, anything else a plain value -/
def drvP (top : Rule) (out : M Nat) (truth : M Bool) (iterN : Nat) (iterable : Bool) (br : DotBranch) : Prims Nat Unit where
  err := 0
  isErr := fun v => v == 0
  boolV := fun b => if b then 2 else 3
  emptyList := 4
  emptyMap := 5
  prim := fun r _ lbl _ =>
    if r == top then out
    else if (r == .ident || r == .dotIdent) && lbl.startsWith "e" then .ok 0     -- a leaf that is an error value
    else .ok 1
  truth := fun r _ => if r == top then truth else .ok true
  iter := fun _ _ => .ok (List.replicate iterN 1)
  iterable := fun _ => iterable
  dotBranch := fun _ _ => br
  bind := fun _ _ _ => ()

/-- prefix notation:
    `v` plain leaf (identifier bound to a value) | `e` error-valued leaf | `mv` the macro variable
    `lit` | `dotid` | `dotcall n E*` | `paren E` | `cond E E E` | `or E E` | `and E E` | `rel op E E` | `add op E E`
    `mul op E E` | `un op E` | `dot E f` | `index E E` | `call f n E*` | `mcall f n E E*` | `macro m E E`
    `reduce E E E` | `min E` | `bad` | `list n E*` | `map n E*` | `obj n E E*` -/
partial def parse : List String → Option (Expr × List String)
  | "v" :: r => some (.ident "v", r)
  | "e" :: r => some (.ident "e", r)
  | "mv" :: r => some (.ident "x", r)
  | "lit" :: r => some (.lit "k" "t", r)
  | "dotid" :: r => some (.dotIdent "v", r)
  | "dotcall" :: n :: r => do let n ← n.toNat?; let (xs, r') ← parseN n r; pure (.dotCall "v" xs, r')
  | "paren" :: r => do let (a, r1) ← parse r; pure (.paren a, r1)
  | "cond" :: r => do let (c, r1) ← parse r; let (a, r2) ← parse r1; let (b, r3) ← parse r2; pure (.cond c a b, r3)
  | "or" :: r => do let (a, r1) ← parse r; let (b, r2) ← parse r1; pure (.lor a b, r2)
  | "and" :: r => do let (a, r1) ← parse r; let (b, r2) ← parse r1; pure (.land a b, r2)
  | "rel" :: op :: r => do let (a, r1) ← parse r; let (b, r2) ← parse r1; pure (.rel op a b, r2)
  | "add" :: op :: r => do let (a, r1) ← parse r; let (b, r2) ← parse r1; pure (.add op a b, r2)
  | "mul" :: op :: r => do let (a, r1) ← parse r; let (b, r2) ← parse r1; pure (.mul op a b, r2)
  | "un" :: op :: r => do let (a, r1) ← parse r; pure (.un op a, r1)
  | "dot" :: r => do let (a, r1) ← parse r; match r1 with | f :: r2 => pure (.dot a f, r2) | [] => none
  | "index" :: r => do let (a, r1) ← parse r; let (b, r2) ← parse r1; pure (.index a b, r2)
  | "call" :: f :: n :: r => do let n ← n.toNat?; let (xs, r') ← parseN n r; pure (.call f xs, r')
  | "mcall" :: f :: n :: r => do
      let n ← n.toNat?; let (a, r1) ← parse r; let (xs, r') ← parseN n r1; pure (.mcall a f xs, r')
  | "macro" :: m :: r => do let (a, r1) ← parse r; let (b, r2) ← parse r1; pure (.macro1 a m "x" b, r2)
  | "reduce" :: r => do
      let (a, r1) ← parse r; let (i, r2) ← parse r1; let (b, r3) ← parse r2; pure (.reduce a "r" "i" i b, r3)
  | "min" :: r => do let (a, r1) ← parse r; pure (.macroMin a [], r1)
  | "bad" :: r => some (.macroBad (.ident "v") "map" [], r)
  | "list" :: n :: r => do let n ← n.toNat?; let (xs, r') ← parseN n r; pure (.list xs, r')
  | "map" :: n :: r => do let n ← n.toNat?; let (xs, r') ← parseN n r; pure (.map xs, r')
  | "obj" :: n :: r => do
      let n ← n.toNat?; let (a, r1) ← parse r; let (xs, r') ← parseN n r1
      pure (.obj a (List.replicate n "f") xs, r')
  | _ => none
where
  parseN : Nat → List String → Option (List Expr × List String)
    | 0, rest => some ([], rest)
    | n+1, rest => do let (x, r1) ← parse rest; let (xs, r2) ← parseN n r1; pure (x :: xs, r2)

def showM (r : M Nat) : String :=
  match r with
  | .ok _ => "ok"
  | .error c => if c == celEval then "err" else if c == celParse then "parse-error" else s!"EXC {c}"

def handle : Handler
  | "site" :: r :: cs =>
      match Rule.ofName? r with
      | none => "bad-rule"
      | some r =>
        let ids := cs.filterMap String.toNat?
        let esc := ids.filter (fun c => !caught mro (handlers r) c)
        if esc.isEmpty then "covered" else "escape " ++ " ".intercalate (esc.map toString)
  | "d1" :: top :: out :: truth :: iterN :: iterable :: br :: rest =>
      match Rule.ofName? top, parseOut out, parseTruth truth, iterN.toNat?, parseBranch br, parse rest with
      | some top, some out, some truth, some n, some br, some (e, []) =>
          showM (runI mro handlers (drvP top out truth n (iterable == "1") br) () e)
      | _, _, _, _, _, _ => "bad-op"
  | ["runC", out] =>
      match parseOut out with
      | some o => showM (runC mro (drvP .literal (.ok 1) (.ok true) 0 false .other) runCCaught o)
      | none => "bad-op"
  | ["parse", out] =>
      match parseOut out with
      | some o => showM (parseM mro parseCaught o)
      | none => "bad-op"
  | _ => "bad-op"

end Cel.Drv.C04
