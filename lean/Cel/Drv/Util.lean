/- Shared helpers for the line-protocol driver (core Lean only). -/
import Cel.Model.Basic
namespace Cel.Drv

def showInt (r : PyM Int) : String := PyM.show toString r

def parseInt? (s : String) : Option Int := s.toInt?

/-- A handler takes the whitespace-separated tokens after the property id. -/
abbrev Handler := List String → String

end Cel.Drv
