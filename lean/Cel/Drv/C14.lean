import Cel.Drv.Util
import Cel.Model.Funcs
/-!
  Line protocol for C14 (host functions).

    H <k> <program>…k            evaluate the programs one after the other against one World
                                 -> outcome of each, joined by " ## "
    <program> := <I|C> <N|L|D> <nf> <fnspec>…nf <expr>
    <fnspec>  := <key> <pyname|-> <kind> <beh>
       key     dict key (ignored for list style, where the key is the pyname)
       kind    ev | mod | main | nested | lambda | obj | bound | partial | wraps | wrapsev | eqobj | qualfn
       beh     const <val> | sum <k> | pos | errv | raise <Exc> | errneg <k> | raiseneg <k> | lst | size | contains
    <val>     := i<int> | bT | bF | L <n> <val>…n
    <expr>    := <val-literal as `lit <val>`> | v<i> | call <f> <n> e…n | meth <f> <n> recv e…n
                 | or a b | and a b | not a | cond c x y | add a b | lt a b | all s b | exists s b | map s b

  outcome: `<value> | f(a,b);g()`   value = canonical rendering (`int:1`, `bool:true`, `list:[…]`, `err`,
  `EXC <Class>` for an exception that escapes `evaluate`, `CTOR <Class>` when building the activation fails)
-/
namespace Cel.Drv.C14
open Cel Cel.Drv Cel.Funcs

partial def parseVal : List String → Option (Val × List String)
  | "bT" :: rest => some (.bool true, rest)
  | "bF" :: rest => some (.bool false, rest)
  | "L" :: n :: rest => do
      let n ← n.toNat?
      let (vs, r) ← parseVals n rest
      pure (.list vs, r)
  | t :: rest => if t.startsWith "i" then (t.drop 1).toString.toInt?.map fun i => (.int i, rest) else none
  | [] => none
where
  parseVals : Nat → List String → Option (List Val × List String)
    | 0, rest => some ([], rest)
    | n+1, rest => do let (v, r1) ← parseVal rest; let (vs, r2) ← parseVals n r1; pure (v :: vs, r2)

partial def parseExpr : List String → Option (Expr × List String)
  | "lit" :: rest => do let (v, r) ← parseVal rest; pure (.lit v, r)
  | "call" :: f :: n :: rest => do
      let n ← n.toNat?
      let (es, r) ← parseExprs n rest
      pure (.call f es, r)
  | "meth" :: f :: n :: rest => do
      let n ← n.toNat?
      let (recv, r1) ← parseExpr rest
      let (es, r2) ← parseExprs n r1
      pure (.method recv f es, r2)
  | "or" :: rest => do let (a, r1) ← parseExpr rest; let (b, r2) ← parseExpr r1; pure (.or a b, r2)
  | "and" :: rest => do let (a, r1) ← parseExpr rest; let (b, r2) ← parseExpr r1; pure (.and a b, r2)
  | "not" :: rest => do let (a, r1) ← parseExpr rest; pure (.not a, r1)
  | "cond" :: rest => do
      let (c, r1) ← parseExpr rest; let (x, r2) ← parseExpr r1; let (y, r3) ← parseExpr r2; pure (.cond c x y, r3)
  | "add" :: rest => do let (a, r1) ← parseExpr rest; let (b, r2) ← parseExpr r1; pure (.add a b, r2)
  | "lt" :: rest => do let (a, r1) ← parseExpr rest; let (b, r2) ← parseExpr r1; pure (.lt a b, r2)
  | "all" :: rest => do let (a, r1) ← parseExpr rest; let (b, r2) ← parseExpr r1; pure (.all a b, r2)
  | "exists" :: rest => do let (a, r1) ← parseExpr rest; let (b, r2) ← parseExpr r1; pure (.exists_ a b, r2)
  | "map" :: rest => do let (a, r1) ← parseExpr rest; let (b, r2) ← parseExpr r1; pure (.map a b, r2)
  | t :: rest => if t.startsWith "v" then (t.drop 1).toString.toNat?.map fun i => (.var i, rest) else none
  | [] => none
where
  parseExprs : Nat → List String → Option (List Expr × List String)
    | 0, rest => some ([], rest)
    | n+1, rest => do let (e, r1) ← parseExpr rest; let (es, r2) ← parseExprs n r1; pure (e :: es, r2)

/-- weight of an argument, used by the arithmetic behaviours -/
def weight : Val → Int
  | .int n => n | .bool b => if b then 1 else 0 | .list xs => xs.length | .err => 0

def excOfName? : String → Option Exc
  | "ValueError" => some .valueError | "UnicodeError" => some .valueError | "TypeError" => some .typeError | "KeyError" => some .keyError
  | "AttributeError" => some .attributeError | "IndexError" => some .indexError
  | "ZeroDivisionError" => some .zeroDiv | "RuntimeError" => some .other
  | _ => none

def firstW (vs : List Val) : Int := match vs with | [] => 1 | v :: _ => weight v

def parseBeh : List String → Option (HostFn × List String)
  | "const" :: rest => do let (v, r) ← parseVal rest; pure ((fun _ => .ret v), r)
  | "sum" :: k :: rest => do
      let k ← k.toInt?
      pure ((fun vs => .ret (.int (k + (vs.map weight).foldl (· + ·) 0))), rest)
  | "pos" :: rest => some ((fun vs => .ret (.bool (decide (firstW vs > 0)))), rest)
  | "errv" :: rest => some ((fun _ => .ret .err), rest)
  | "raise" :: e :: rest => do let e ← excOfName? e; pure ((fun _ => .raise e), rest)
  | "errneg" :: k :: rest => do
      let k ← k.toInt?
      pure ((fun vs => if firstW vs < 0 then .ret .err else .ret (.int (k + firstW vs))), rest)
  | "raiseneg" :: k :: rest => do
      let k ← k.toInt?
      pure ((fun vs => if firstW vs < 0 then .raise .valueError else .ret (.int (k + firstW vs))), rest)
  | "lst" :: rest => some ((fun vs => .ret (.list vs)), rest)
  | "size" :: rest => some (sizeFn, rest)
  | "contains" :: rest => some (containsFn, rest)
  | _ => none

def kindOfName? : String → Option CKind
  | "ev" => some .evalVisible | "mod" => some .moduleDef | "main" => some .mainDef | "nested" => some .nestedDef
  | "lambda" => some .lambda | "obj" => some .callableObj | "bound" => some .boundMethod | "partial" => some .partialObj
  | "wraps" => some .wrapsBuiltin | "wrapsev" => some .wrapsVisible | "eqobj" => some .equalToAll | "qualfn" => some .renamedDef
  | _ => none

def parseFnSpecs : Nat → List String → Option (List (String × Callable) × List String)
  | 0, rest => some ([], rest)
  | n+1, key :: pyn :: kind :: rest => do
      let kind ← kindOfName? kind
      let (fn, r1) ← parseBeh rest
      let (more, r2) ← parseFnSpecs n r1
      pure ((key, { pyName := if pyn == "-" then none else some pyn, kind := kind, fn := fn }) :: more, r2)
  | _, _ => none

/-- Python's dict literal / comprehension: a later duplicate key replaces the earlier value -/
def dictOf (ps : List (String × Callable)) : FMap := ps.foldl (fun m p => m.set p.1 p.2) []

def parseProgram : List String → Option (Program × List String)
  | r :: style :: nf :: rest => do
      let compiled ← (match r with | "I" => some false | "C" => some true | _ => none)
      let nf ← nf.toNat?
      let (specs, r1) ← parseFnSpecs nf rest
      let supplied ← (match style with
        | "N" => some Supplied.none
        | "L" => some (Supplied.list (specs.map (·.2)))
        | "D" => some (Supplied.dict (dictOf specs))
        | _ => none)
      let (e, r2) ← parseExpr r1
      pure (⟨compiled, supplied, e⟩, r2)
  | _ => none

def parsePrograms : Nat → List String → Option (List Program × List String)
  | 0, rest => some ([], rest)
  | n+1, rest => do let (p, r1) ← parseProgram rest; let (ps, r2) ← parsePrograms n r1; pure (p :: ps, r2)

partial def showVal : Val → String
  | .int n => s!"int:{n}"
  | .bool b => if b then "bool:true" else "bool:false"
  | .list xs => "list:[" ++ ",".intercalate (xs.map showVal) ++ "]"
  | .err => "errvalue"

def showCall (c : Call) : String := c.1 ++ "(" ++ ",".intercalate (c.2.map showVal) ++ ")"

def showOut (o : Out Val) : String :=
  let v := match o.1 with
    | .ok .err => "err"
    | .ok v => showVal v
    | .error e => "EXC " ++ e.name
  v ++ " | " ++ ";".intercalate (o.2.map showCall)

def showRes : PyM (Out Val) → String
  | .ok o => showOut o
  | .error e => "CTOR " ++ e.name

def handle : Handler
  | "H" :: k :: rest =>
      match k.toNat? with
      | none => "bad-op"
      | some k => match parsePrograms k rest with
        | some (ps, []) =>
            let w : World := ⟨baseFns⟩
            " ## ".intercalate ((w.run ps).2.map showRes)
        | _ => "bad-op"
  | _ => "bad-op"

end Cel.Drv.C14
