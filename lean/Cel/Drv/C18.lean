/- Line-protocol handler for C18: a filter tree in prefix notation (clauses are expressions in the
   C06 prefix notation) followed by truth assignments; answers with the emitted tokens and the value
   of the emitted expression under each assignment. Core Lean only. -/
import Cel.Drv.C06
import Cel.Model.Xlate
namespace Cel.Drv.C18
open Cel Cel.Grammar Cel.Xlate Cel.Drv

mutual
partial def rdF : List String → Option (Filter × List String)
  | "prim" :: r => do let (e, r) ← C06.rdE r; some (.prim e, r)
  | "and" :: n :: r => do let n ← n.toNat?; let (fs, r) ← rdFs n r; some (.and fs, r)
  | "or" :: n :: r => do let n ← n.toNat?; let (fs, r) ← rdFs n r; some (.or fs, r)
  | "not" :: n :: r => do let n ← n.toNat?; let (fs, r) ← rdFs n r; some (.not fs, r)
  | "list" :: n :: r => do let n ← n.toNat?; let (fs, r) ← rdFs n r; some (.list fs, r)
  | _ => none
partial def rdFs : Nat → List String → Option (Filters × List String)
  | 0, r => some (.nil, r)
  | n + 1, r => do let (f, r) ← rdF r; let (fs, r) ← rdFs n r; some (.cons f fs, r)
end

/-- an assignment: comma-separated identifiers that are true (`-` for none) -/
def rho (s : String) : String → Bool :=
  let names := if s == "-" then [] else s.splitOn ","
  fun x => names.contains x

def bits (bs : List Bool) : String := String.ofList (bs.map fun b => if b then '1' else '0')

def handle : Handler
  | "F" :: rest =>
      match rdF rest with
      | some (f, "R" :: asg) =>
          let ts := emit f
          let e? := exprOf 0 f
          let p? := parse ts
          let agree := match e?, p? with
            | some e, some p => C06.b01 ((toTree e).show == (toTree p).show)
            | none, none => "1"
            | _, _ => "0"
          let vals := match e? with
            | some e => bits (asg.map fun a => evalBool (rho a) e)
            | none => "none"
          let den := bits (asg.map fun a => c7nDenote (evalBool (rho a)) f)
          " | ".intercalate [
            "ok=" ++ C06.b01 (nonEmpty f && clausesWF f),
            "toks=" ++ C06.showToks ts,
            "agree=" ++ agree,
            "strip=" ++ (match e? with | some e => (strip (toTree e)).show | none => "none"),
            "values=" ++ vals,
            "denote=" ++ den,
            "old=" ++ C06.showToks (logicalConnectorOld 0 f)]
      | _ => "bad-op"
  | "S" :: rest =>
      -- the scanner on a token string: `S TOK…`
      match rest.mapM C06.readTok with
      | some ts => C06.b01 (topLevelLogic ts)
      | none => "bad-op"
  | _ => "bad-op"

end Cel.Drv.C18
