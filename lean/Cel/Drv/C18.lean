/- Line-protocol handler for C18: a filter tree in prefix notation (clauses are expressions in the
   C06 prefix notation) followed by truth assignments; answers with the emitted tokens and the value
   of the emitted expression under each assignment. Core Lean only. -/
import Cel.Drv.C06
import Cel.Model.Xlate
import Cel.Model.XlateText
namespace Cel.Drv.C18
open Cel Cel.Grammar Cel.Xlate Cel.Drv

mutual
partial def rdF : List String → Option (Filter × List String)
  | "prim" :: r => do let (e, r) ← C06.rdE r; some (.prim e, r)
  | "and" :: n :: r => do let n ← n.toNat?; let (fs, r) ← rdFs n r; some (.and fs, r)
  | "or" :: n :: r => do let n ← n.toNat?; let (fs, r) ← rdFs n r; some (.or fs, r)
  | "not" :: n :: r => do let n ← n.toNat?; let (fs, r) ← rdFs n r; some (.not fs, r)
  | "list" :: n :: r => do let n ← n.toNat?; let (fs, r) ← rdFs n r; some (.list fs, r)
  | _ => none
partial def rdFs : Nat → List String → Option (Filters × List String)
  | 0, r => some (.nil, r)
  | n + 1, r => do let (f, r) ← rdF r; let (fs, r) ← rdFs n r; some (.cons f fs, r)
end

/-- an assignment: comma-separated identifiers that are true (`-` for none) -/
def rho (s : String) : String → Bool :=
  let names := if s == "-" then [] else s.splitOn ","
  fun x => names.contains x

def bits (bs : List Bool) : String := String.ofList (bs.map fun b => if b then '1' else '0')

mutual
/-- the clause expressions of a filter, in leaf order -/
def clausesOf : Filter → List PExpr
  | .prim c => [c]
  | .and fs => clausesOfAll fs
  | .or fs => clausesOfAll fs
  | .not fs => clausesOfAll fs
  | .list fs => clausesOfAll fs
def clausesOfAll : Filters → List PExpr
  | .nil => []
  | .cons f r => clausesOf f ++ clausesOfAll r
end

def handle : Handler
  | "F" :: rest =>
      match rdF rest with
      | some (f, "R" :: asgx) =>
          -- `R assignments… [X text…]`: the texts (hex) are scanned by the character-level scanner
          let (asg, xs) := asgx.span (· != "X")
          let texts := (xs.drop 1).map fun h => (C06.unhex h).map (·.toList)
          let scan := String.ofList (texts.map fun t => match t with
            | some cs => if topLevelLogicText cs then '1' else '0'
            | none => '?')
          let cls := clausesOf f
          let lexok := cls.all fun c => (render c).all lexOK
          -- the theorem `scanner_text_eq_tokens`, observed: character scanner on the spelled-out tokens vs. token scanner
          let thm := cls.all fun c => topLevelLogicText (textOf (render c)) == topLevelLogic (render c)
          let ts := emit f
          let e? := exprOf 0 f
          let p? := parse ts
          let agree := match e?, p? with
            | some e, some p => C06.b01 ((toTree e).show == (toTree p).show)
            | none, none => "1"
            | _, _ => "0"
          let vals := match e? with
            | some e => bits (asg.map fun a => evalBool (rho a) e)
            | none => "none"
          let den := bits (asg.map fun a => c7nDenote (evalBool (rho a)) f)
          " | ".intercalate [
            "ok=" ++ C06.b01 (nonEmpty f && clausesWF f),
            "toks=" ++ C06.showToks ts,
            "agree=" ++ agree,
            "strip=" ++ (match e? with | some e => (strip (toTree e)).show | none => "none"),
            "values=" ++ vals,
            "denote=" ++ den,
            "scan=" ++ scan,
            "lexok=" ++ C06.b01 lexok,
            "thm=" ++ C06.b01 (thm || !lexok),
            "old=" ++ C06.showToks (logicalConnectorOld 0 f)]
      | _ => "bad-op"
  | "T" :: rest =>
      -- the character scanner on texts: `T x<hex>…`
      String.ofList (rest.map fun h => match (C06.unhex h).map (·.toList) with
        | some cs => if topLevelLogicText cs then '1' else '0'
        | none => '?')
  | "S" :: rest =>
      -- the scanner on a token string: `S TOK…`
      match rest.mapM C06.readTok with
      | some ts => C06.b01 (topLevelLogic ts)
      | none => "bad-op"
  | _ => "bad-op"

end Cel.Drv.C18
