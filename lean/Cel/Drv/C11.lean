import Cel.Drv.Util
import Cel.Model.Time
namespace Cel.Drv.C11
open Cel Cel.Drv Cel.Time

/-- text operands travel as comma-separated code points, `-` for the empty text -/
def parseText (s : String) : Option (List Nat) :=
  if s == "-" then some [] else (s.splitOn ",").mapM String.toNat?

def showTs (r : PyM Ts) : String := PyM.show (fun t => s!"{t.loc} {t.off}") r

def accOfName : String → Option Acc
  | "getDate" => some .getDate | "getDayOfMonth" => some .getDayOfMonth
  | "getDayOfWeek" => some .getDayOfWeek | "getDayOfYear" => some .getDayOfYear
  | "getFullYear" => some .getFullYear | "getMonth" => some .getMonth
  | "getHours" => some .getHours | "getMinutes" => some .getMinutes
  | "getSeconds" => some .getSeconds | "getMilliseconds" => some .getMilliseconds
  | _ => none

def ints (xs : List String) : Option (List Int) := xs.mapM String.toInt?

def handle : Handler
  | "add" :: r => match ints r with
      | some [l, o, d] => showTs (tsAdd ⟨l, o⟩ d) | _ => "bad-op"
  | "subd" :: r => match ints r with
      | some [l, o, d] => showTs (tsSubDur ⟨l, o⟩ d) | _ => "bad-op"
  | "subt" :: r => match ints r with
      | some [l1, o1, l2, o2] => showInt (tsSubTs ⟨l1, o1⟩ ⟨l2, o2⟩) | _ => "bad-op"
  | "addsubd" :: r => match ints r with
      | some [l, o, d] => showTs (tsAdd ⟨l, o⟩ d >>= fun t => tsSubDur t d) | _ => "bad-op"
  | "addsubt" :: r => match ints r with
      | some [l, o, d] => showInt (tsAdd ⟨l, o⟩ d >>= fun t => tsSubTs t ⟨l, o⟩) | _ => "bad-op"
  | "dadd" :: r => match ints r with
      | some [a, b] => showInt (durAdd a b) | _ => "bad-op"
  | "dsub" :: r => match ints r with
      | some [a, b] => showInt (durSub a b) | _ => "bad-op"
  | ["acc", name, l, o, n] => match accOfName name, ints [l, o, n] with
      | some a, some [l, o, n] => showInt (tsAccessor a ⟨l, o⟩ n) | _, _ => "bad-op"
  | ["accfix", name, l, o, tz] => match accOfName name, ints [l, o], parseText tz with
      | some a, some [l, o], some tz => showInt (tsAccessorFixed a ⟨l, o⟩ tz) | _, _, _ => "bad-op"
  | ["accsumfix", name, l, o, d, tz] => match accOfName name, ints [l, o, d], parseText tz with
      | some a, some [l, o, d], some tz => showInt (tsAdd ⟨l, o⟩ d >>= fun t => tsAccessorFixed a t tz) | _, _, _ => "bad-op"
  | ["tzoff", tz] => match parseText tz with
      | some tz => showInt (tzOffsetParse tz) | _ => "bad-op"
  | ["durparse", t] => match parseText t with
      | some t => showInt (durParse t) | _ => "bad-op"
  | ["durget", name, us] => match accOfName name, us.toInt? with
      | some a, some us => showInt (durAccessor a us) | _, _ => "bad-op"
  | ["durrange", us] => match us.toInt? with
      | some us => showInt (durWrap us) | _ => "bad-op"
  | ["civil", n] => match n.toNat? with
      | some n => let c := civilOfDays n; s!"{c.1} {c.2.1} {c.2.2} {isoweekday n}" | _ => "bad-op"
  | ["days", y, m, d] => match y.toNat?, m.toNat?, d.toNat? with
      | some y, some m, some d => toString (daysOfCivil y m d) | _, _, _ => "bad-op"
  | ["fields", l] => match l.toInt? with
      | some l => let c := civilOfLoc l
                  s!"{c.year} {c.month} {c.day} {c.hour} {c.minute} {c.second} {c.micro}"
      | _ => "bad-op"
  | ["tstimestamp", l, o] => match ints [l, o] with
      | some [l, o] => toString (tsTimestamp ⟨l, o⟩).trunc | _ => "bad-op"
  | _ => "bad-op"

end Cel.Drv.C11
