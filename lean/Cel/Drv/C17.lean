import Cel.Drv.Util
import Cel.Model.C7n
namespace Cel.Drv.C17
open Cel Cel.Drv Cel.C7n

/-! line protocol (tokens separated by blanks; see py/verif/props/c17.py):
    strings    code points joined by `.`; the empty string is `-`
    lists      elements `i<int>` / `s<string>` joined by `,`; the empty list is `-`
    cidr       `n:<addr>:<len>` (network text, strict) | `a:<ip>` | `v6` | `x` (unparsable)
    versions   release numbers joined by `.`
    tags       `<key>|<value>` joined by `;` (`~` = entry missing); the empty list is `-` -/

def allSome {α} : List (Option α) → Option (List α)
  | [] => some []
  | none :: _ => none
  | some a :: r => (allSome r).map (a :: ·)

def parseStr (t : String) : Option Str :=
  if t == "-" then some [] else allSome ((t.splitOn ".").map String.toNat?)

def showStr (s : Str) : String :=
  if s.isEmpty then "-" else ".".intercalate (s.map toString)

def parseElem (t : String) : Option Elem :=
  if t.startsWith "i" then (t.drop 1).toString.toInt?.map Elem.int
  else if t.startsWith "s" then (parseStr (t.drop 1).toString).map Elem.str
  else none

def parseElems (t : String) : Option (List Elem) :=
  if t == "-" then some [] else allSome ((t.splitOn ",").map parseElem)

def parseCidr (t : String) : Option Cidr :=
  match t.splitOn ":" with
  | ["n", a, l] => match a.toNat?, l.toNat? with
      | some a, some l => some (match mkNet a l with | some n => .net n | none => .none)
      | _, _ => none
  | ["a", ip] => ip.toNat?.map fun ip => if ip < 2 ^ 32 then .addr4 ip else .none
  | ["v6"] => some .addr6
  | ["x"] => some .none
  | _ => none

def parseVer (t : String) : Option (List Nat) := allSome ((t.splitOn ".").map String.toNat?)

def parseOpt (t : String) : Option (Option Str) :=
  if t == "~" then some none else (parseStr t).map some

def parseTag (t : String) : Option (Tag Str) :=
  match t.splitOn "|" with
  | [k, v] => match parseOpt k, parseOpt v with
      | some k, some v => some ⟨k, v⟩
      | _, _ => none
  | _ => none

def parseTags (t : String) : Option (List (Tag Str)) :=
  if t == "-" then some [] else allSome ((t.splitOn ";").map parseTag)

def showB (b : Bool) : String := if b then "true" else "false"

/-- prefix notation: `obs | fail | ctx f n e1..en | try n e1..en` -/
partial def parseEv : List String → Option (Ev × List String)
  | "obs" :: rest => some (.obs, rest)
  | "fail" :: rest => some (.fail, rest)
  | "ctx" :: f :: n :: rest => do
      let f ← f.toNat?; let n ← n.toNat?; let (b, r) ← parseEvN n rest; pure (.ctx f b, r)
  | "try" :: n :: rest => do
      let n ← n.toNat?; let (b, r) ← parseEvN n rest; pure (.try_ b, r)
  | _ => none
where
  parseEvN : Nat → List String → Option (List Ev × List String)
    | 0, rest => some ([], rest)
    | n+1, rest => do let (x, r1) ← parseEv rest; let (xs, r2) ← parseEvN n r1; pure (x :: xs, r2)

def showC7n : Option Nat → String
  | none => "N"
  | some f => toString f

/-- one tag lookup (`key` / `marked_key`) -/
def lookup (op tags k : String) : String :=
  match parseTags tags, parseStr k with
  | some tags, some k =>
      if op == "key" then
        PyM.show (fun | none => "null" | some v => "val " ++ showStr v) (key tags k)
      else if op == "mkey" then
        PyM.show (fun | none => "null"
                      | some (m, a, d) => "map " ++ showStr m ++ " " ++ showStr a ++ " " ++ showStr d)
          (markedKey tags k)
      else "bad-op"
  | _, _ => "bad-op"

/-- a stream of lookups `op tags k op tags k …` on tag lists that come and go: the helpers are functions of their
    arguments, so the answers are those of the single lookups, whatever was looked up before -/
def lookupSeq : List String → Option (List String)
  | [] => some []
  | op :: tags :: k :: rest => do let outs ← lookupSeq rest; pure (lookup op tags k :: outs)
  | _ => none

def handle : Handler
  | ["isect", l, r] => match parseElems l, parseElems r with
      | some l, some r => PyM.show showB (intersectE l r) | _, _ => "bad-op"
  | ["diff", l, r] => match parseElems l, parseElems r with
      | some l, some r => PyM.show showB (differenceE l r) | _, _ => "bad-op"
  | ["usize", l] => match parseElems l with
      | some l => PyM.show toString (uniqueSizeE l) | _ => "bad-op"
  | ["norm", s] => match parseStr s with
      | some s => showStr (normalize s) | _ => "bad-op"
  | ["glob", t, p] => match parseStr t, parseStr p with
      | some t, some p => (if globInFragment p then "" else "out-of-fragment ") ++ showB (glob t p)
      | _, _ => "bad-op"
  | ["cidr", n, x] => match parseCidr n, parseCidr x with
      | some n, some x => PyM.show showB (cidrContains n x) | _, _ => "bad-op"
  | ["size", c] => match parseCidr c with
      | some c => (match sizeParseCidr c with | some n => toString n | none => "null") | _ => "bad-op"
  | ["vcmp", op, a, b] => match parseVer a, parseVer b with
      | some a, some b => (match op with
          | "lt" => showB (vlt a b) | "le" => showB (vle a b) | "gt" => showB (vgt a b)
          | "ge" => showB (vge a b) | "eq" => showB (veq a b) | "ne" => showB (vne a b)
          | _ => "bad-op")
      | _, _ => "bad-op"
  | ["key", tags, k] => lookup "key" tags k
  | ["mkey", tags, k] => lookup "mkey" tags k
  | "kseq" :: rest => match lookupSeq rest with
      | some outs => " ; ".intercalate outs
      | none => "bad-op"
  | ["arn", a, f] => match parseStr a, parseStr f with
      | some a, some f => PyM.show showStr (arnSplit a f) | _, _ => "bad-op"
  | "hist" :: n :: rest => match n.toNat? with
      | some n => (match parseEv.parseEvN n rest with
          | some (evs, []) =>
              let (raised, s) := runEvs evs ⟨none, []⟩
              (if raised then "raised " else "done ") ++ showC7n s.c7n ++ " " ++
                (if s.log.isEmpty then "-" else ",".intercalate (s.log.map showC7n))
          | _ => "bad-op")
      | none => "bad-op"
  | _ => "bad-op"

end Cel.Drv.C17
