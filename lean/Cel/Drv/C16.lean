import Cel.Drv.Util
import Cel.Model.RuntimeThreads
/-!
  Line protocol for C16: one line = one concurrent scenario.

    <pol> <query> <thread> | <thread> | …        pol: p (per-call) | s (shared)
    query:  E <b>   every segmented schedule with at most b preemption segments → the set of outcomes of every thread
            G       thread 0 runs to its first host-function call, the others run to their end (in order), thread 0 resumes
            H <r>   hold schedule: every thread in turn runs to its call of `gate` (or to its end); then the threads are released in
                    the order r (comma-separated thread numbers, `-` for none), each running to its end; then the rest
    thread: C|I <n> name val … <stmt> , <stmt> , …          values i:5 b:1
    stmt:   def n <exp> | celn n | cell <exp>
    exp (prefix): lit v | var x | bin op A B | not A | and A B | or A B | cond C A B | res n | call n | catch A | host f A

  answer: `0=v1,v2 1=v1 …` (sorted, distinct outcomes per thread)
-/
namespace Cel.Drv.C16
open Cel Cel.Drv Cel.Runtime

def parseCV (s : String) : Option CV :=
  match s.toList with
  | 'i' :: ':' :: r => (String.ofList r).toInt?.map .int
  | 'b' :: ':' :: r => some (.bool (r == ['1']))
  | _ => none

partial def parseExp : List String → Option (CExp × List String)
  | "lit" :: v :: rest => (parseCV v).map fun v => (.lit v, rest)
  | "var" :: x :: rest => some (.var x, rest)
  | "bin" :: op :: rest => do
      let (a, r1) ← parseExp rest
      let (b, r2) ← parseExp r1
      pure (.bin op a b, r2)
  | "not" :: rest => do let (a, r1) ← parseExp rest; pure (.lnot a, r1)
  | "and" :: rest => do
      let (a, r1) ← parseExp rest
      let (b, r2) ← parseExp r1
      pure (.land a b, r2)
  | "or" :: rest => do
      let (a, r1) ← parseExp rest
      let (b, r2) ← parseExp r1
      pure (.lor a b, r2)
  | "cond" :: rest => do
      let (c, r1) ← parseExp rest
      let (a, r2) ← parseExp r1
      let (b, r3) ← parseExp r2
      pure (.cond c a b, r3)
  | "res" :: n :: rest => some (.resultN n, rest)
  | "call" :: n :: rest => some (.callN n, rest)
  | "catch" :: rest => do let (a, r1) ← parseExp rest; pure (.catch a, r1)
  | "host" :: f :: rest => do let (a, r1) ← parseExp rest; pure (.host f a, r1)
  | _ => none

def splitOn (sep : String) : List String → List String → List (List String)
  | [], acc => [acc.reverse]
  | t :: rest, acc => if t == sep then acc.reverse :: splitOn sep rest [] else splitOn sep rest (t :: acc)

def parseStmt : List String → Option Stmt
  | "def" :: n :: rest => match parseExp rest with
      | some (e, []) => some (.defn n e)
      | _ => none
  | ["celn", n] => some (.celN n)
  | "cell" :: rest => match parseExp rest with
      | some (e, []) => some (.celL e)
      | _ => none
  | _ => none

def parseBinds : Nat → List String → Option (Act × List String)
  | 0, rest => some ([], rest)
  | n + 1, k :: v :: rest => do
      let v ← parseCV v
      let (b, r) ← parseBinds n rest
      pure ((k, v) :: b, r)
  | _, _ => none

def parseThread : List String → Option (Kind × TState)
  | k :: n :: rest => do
      let k ← (match k with | "C" => some Kind.C | "I" => some Kind.I | _ => none)
      let n ← n.toNat?
      let (b, r) ← parseBinds n rest
      let stmts ← (splitOn "," r []).mapM parseStmt
      pure (k, { todo := stmts, mine := b })
  | _ => none

def showCV : Option CV → String
  | none => "unfinished"
  | some (.int n) => s!"int:{n}"
  | some (.bool b) => "bool:" ++ (if b then "true" else "false")
  | some (.err t) => "err:" ++ t

def mkState (ths : List (Kind × TState)) : MState :=
  { threads := fun i => match ths[i]? with
      | some x => x.2
      | none => { todo := [], mine := [], out := some (.err "nothread") },
    kinds := fun i => match ths[i]? with | some x => x.1 | none => .I }

def fuel : Nat := 40000

/-- number of visible steps of a thread's evaluation alone -/
def visibleCount (ts : TState) : Nat := Id.run do
  let mut s := ts
  let mut c := 0
  for _ in [0:fuel] do
    if s.out.isSome then break
    if s.visible then c := c + 1
    s := privStep s
  return c

/-- all segment lists of length ≤ b (adjacent segments on different threads), k ranging over the visible steps -/
def segLists (n : Nat) (vis : List Nat) : Nat → Option Nat → List (List (Tid × Nat))
  | 0, _ => [[]]
  | b + 1, last =>
    [] :: (List.range n).flatMap fun t =>
      if some t == last then [] else
      (List.range ((vis[t]?.getD 0) + 1)).flatMap fun k =>
        (segLists n vis b (some t)).map fun rest => (t, k) :: rest

def insertSorted (x : String) : List String → List String
  | [] => [x]
  | y :: ys => if x == y then y :: ys else if x < y then x :: y :: ys else y :: insertSorted x ys

def outcomes (pol : NamespacePolicy) (ths : List (Kind × TState)) (scheds : List (List (Tid × Nat))) : String :=
  let n := ths.length
  let m0 := mkState ths
  let sets : List (List String) := scheds.foldl (fun acc sg =>
      let m := runSegments pol fuel n m0 sg
      (List.range n).map fun t => insertSorted (showCV (m.threads t).out) (acc[t]?.getD [])) (List.replicate n [])
  String.intercalate " " ((List.range n).map fun t => s!"{t}=" ++ String.intercalate "," (sets[t]?.getD []))

/-- run thread `t` until it is about to call a host function (or is finished) -/
def runToHost (pol : NamespacePolicy) (t : Tid) : Nat → MState → MState
  | 0, m => m
  | f + 1, m =>
    let ts := m.threads t
    if ts.out.isSome then m else
    match ts.ctl with
    | .hostCall _ _ => m
    | _ => runToHost pol t f (stepThread pol t m)

def gateRun (pol : NamespacePolicy) (ths : List (Kind × TState)) : String :=
  let n := ths.length
  let m1 := runToHost pol 0 fuel (mkState ths)
  let m2 := (List.range n).foldl (fun m t => if t == 0 then m else runToEnd pol t fuel m) m1
  let m3 := runToEnd pol 0 fuel m2
  String.intercalate " " ((List.range n).map fun t => s!"{t}=" ++ showCV (m3.threads t).out)

def holdRun (pol : NamespacePolicy) (ths : List (Kind × TState)) (release : List Nat) : String :=
  let n := ths.length
  let m := runHold pol fuel n (mkState ths) release
  String.intercalate " " ((List.range n).map fun t => s!"{t}=" ++ showCV (m.threads t).out)

def parseRelease (s : String) : Option (List Nat) :=
  if s == "-" then some [] else (s.splitOn ",").mapM String.toNat?

def handle : Handler
  | pol :: q :: rest =>
    let pol? := match pol with | "p" => some NamespacePolicy.perCall | "s" => some .shared | _ => none
    let (b?, rel?, body) := match q, rest with
      | "E", b :: r => (b.toNat?, some [], r)
      | "H", rl :: r => (some 0, parseRelease rl, r)
      | _, r => (some 0, some [], r)
    match pol?, b?, rel?, (splitOn "|" body []).mapM parseThread with
    | some pol, some b, some rel, some ths =>
      if q == "G" then gateRun pol ths
      else if q == "H" then holdRun pol ths rel
      else if q == "E" then
        let vis := ths.map fun x => visibleCount x.2
        outcomes pol ths (segLists ths.length vis b none)
      else "bad-op"
    | _, _, _, _ => "bad-op"
  | _ => "bad-op"

end Cel.Drv.C16
