import Cel.Drv.Util
import Cel.Model.Coll
/-!
  Line protocol for C09.

    I <expr> | C <expr>        run the expression on the interpreter / transpiled-program model
    re <str> <regex>           `searchM` directly  ->  T | F
    known <expr>               classify for the known-finding predicates (see Props/C09.lean)

  <expr> prefix notation:
    i<int> u<nat> bT bF s<cp>.<cp>…  (s alone = empty string)      literals
    nul   d<bits> dnan                                             null, double (IEEE bits as a decimal), NaN
    v<n>                                                           macro variable / variable of the context
    I|C env <n> (<id> <literal expr>)×n <expr>                     evaluation with context bindings
    L <n> e…        M <n> k v …       idx a i      sel <str> a      has <str> a
    size a   neg a   not a   && a b   || a b   ?: c a b
    + - * / % == != < <= > >= in   a b
    contains a b   startsWith a b   endsWith a b   matches <regex> a
    map|filter|all|exists|exists_one <n> c body
  <regex> prefix notation:
    bad | eps | c<cp> | any | cls <0|1> <n> lo hi … | cat r r | alt r r | star r | plus r | opt r | bol | eol
-/
namespace Cel.Drv.C09
open Cel Cel.Drv Cel.Coll

def parseStr (t : String) : Option (List Nat) :=
  if !t.startsWith "s" then none
  else
    let body := (t.drop 1).toString
    if body.isEmpty then some []
    else (body.splitOn ".").mapM (fun x => x.toNat?)

partial def parseRanges : Nat → List String → Option (List (Nat × Nat) × List String)
  | 0, rest => some ([], rest)
  | n+1, lo :: hi :: rest => do
      let lo ← lo.toNat?; let hi ← hi.toNat?
      let (rs, r) ← parseRanges n rest
      pure ((lo, hi) :: rs, r)
  | _, _ => none

partial def parseRe : List String → Option (Re × List String)
  | "eps" :: rest => some (.eps, rest)
  | "any" :: rest => some (.any, rest)
  | "bol" :: rest => some (.bol, rest)
  | "eol" :: rest => some (.eol, rest)
  | "cls" :: neg :: n :: rest => do
      let n ← n.toNat?
      let (rs, r) ← parseRanges n rest
      pure (.cls (neg == "1") rs, r)
  | "cat" :: rest => do let (a, r1) ← parseRe rest; let (b, r2) ← parseRe r1; pure (.cat a b, r2)
  | "alt" :: rest => do let (a, r1) ← parseRe rest; let (b, r2) ← parseRe r1; pure (.alt a b, r2)
  | "star" :: rest => do let (a, r1) ← parseRe rest; pure (.star a, r1)
  | "plus" :: rest => do let (a, r1) ← parseRe rest; pure (.plus a, r1)
  | "opt" :: rest => do let (a, r1) ← parseRe rest; pure (.opt a, r1)
  | t :: rest =>
      if t.startsWith "c" then (t.drop 1).toString.toNat?.map fun c => (.chr c, rest) else none
  | [] => none

def parsePat : List String → Option (Pat × List String)
  | "bad" :: rest => some (.bad, rest)
  | toks => (parseRe toks).map fun (r, rest) => (.ok r, rest)

def bop? : String → Option BOp
  | "+" => some .add | "-" => some .sub | "*" => some .mul | "/" => some .div | "%" => some .mod
  | "==" => some .eq | "!=" => some .ne | "<" => some .lt | "<=" => some .le | ">" => some .gt
  | ">=" => some .ge | "in" => some .in_ | _ => none

def mk? : String → Option MK
  | "map" => some .map | "filter" => some .filter | "all" => some .all | "exists" => some .exists_
  | "exists_one" => some .existsOne | _ => none

def sfn? : String → Option SFn
  | "contains" => some .contains | "startsWith" => some .startsWith | "endsWith" => some .endsWith
  | _ => none

mutual
partial def parse : List String → Option (E × List String)
  | "bT" :: rest => some (.lit (.bool true), rest)
  | "bF" :: rest => some (.lit (.bool false), rest)
  | "L" :: n :: rest => do let n ← n.toNat?; let (es, r) ← parseN n rest; pure (.listLit es, r)
  | "M" :: n :: rest => do let n ← n.toNat?; let (es, r) ← parseN (2 * n) rest; pure (.mapLit es, r)
  | "idx" :: rest => do let (a, r1) ← parse rest; let (b, r2) ← parse r1; pure (.index a b, r2)
  | "sel" :: f :: rest => do let f ← parseStr f; let (a, r1) ← parse rest; pure (.sel a f, r1)
  | "has" :: f :: rest => do let f ← parseStr f; let (a, r1) ← parse rest; pure (.has a f, r1)
  | "size" :: rest => do let (a, r1) ← parse rest; pure (.size a, r1)
  | "neg" :: rest => do let (a, r1) ← parse rest; pure (.neg a, r1)
  | "not" :: rest => do let (a, r1) ← parse rest; pure (.not a, r1)
  | "&&" :: rest => do let (a, r1) ← parse rest; let (b, r2) ← parse r1; pure (.and a b, r2)
  | "||" :: rest => do let (a, r1) ← parse rest; let (b, r2) ← parse r1; pure (.or a b, r2)
  | "?:" :: rest => do
      let (c, r1) ← parse rest; let (a, r2) ← parse r1; let (b, r3) ← parse r2; pure (.cond c a b, r3)
  | "matches" :: rest => do let (p, r1) ← parsePat rest; let (a, r2) ← parse r1; pure (.matches a p, r2)
  | t :: rest =>
      match bop? t with
      | some op => do let (a, r1) ← parse rest; let (b, r2) ← parse r1; pure (.bin op a b, r2)
      | none =>
      match sfn? t with
      | some f => do let (a, r1) ← parse rest; let (b, r2) ← parse r1; pure (.meth f a b, r2)
      | none =>
      match mk? t with
      | some k =>
          match rest with
          | x :: rest' => do
              let x ← x.toNat?
              let (c, r1) ← parse rest'; let (b, r2) ← parse r1; pure (.macro k c x b, r2)
          | [] => none
      | none =>
        if t.startsWith "i" then (t.drop 1).toString.toInt?.map fun i => (.lit (.int i), rest)
        else if t.startsWith "u" then (t.drop 1).toString.toNat?.map fun n => (.lit (.uint n), rest)
        else if t.startsWith "v" then (t.drop 1).toString.toNat?.map fun n => (.var n, rest)
        else if t == "nul" then some (.lit .null, rest)
        else if t == "dnan" then some (.lit (.dbl (0.0 / 0.0)), rest)
        else if t.startsWith "d" then
          (t.drop 1).toString.toNat?.map fun n => (.lit (.dbl (Float.ofBits n.toUInt64)), rest)
        else if t.startsWith "s" then (parseStr t).map fun cs => (.lit (.str cs), rest)
        else none
  | [] => none
partial def parseN : Nat → List String → Option (List E × List String)
  | 0, rest => some ([], rest)
  | n+1, rest => do let (x, r1) ← parse rest; let (xs, r2) ← parseN n r1; pure (x :: xs, r2)
end

partial def parseBinds : Nat → List String → Option (List (Nat × E) × List String)
  | 0, rest => some ([], rest)
  | n+1, x :: rest => do
      let x ← x.toNat?
      let (b, r1) ← parse rest
      let (bs, r2) ← parseBinds n r1
      pure ((x, b) :: bs, r2)
  | _, _ => none

def runner? : String → Option Runner
  | "I" => some .I | "C" => some .C | _ => none

def handle : Handler
  | r :: "env" :: n :: rest =>
      match runner? r, n.toNat? with
      | some r, some n =>
          match parseBinds n rest with
          | some (bs, rest') =>
              match parse rest' with
              | some (e, []) => runWith r bs e
              | _ => "bad-op"
          | none => "bad-op"
      | _, _ => "bad-op"
  | "I" :: rest => match parse rest with
      | some (e, []) => run .I e | _ => "bad-op"
  | "C" :: rest => match parse rest with
      | some (e, []) => run .C e | _ => "bad-op"
  | "re" :: s :: rest => match parseStr s, parseRe rest with
      | some cs, some (r, []) => if searchM r cs then "T" else "F"
      | _, _ => "bad-op"
  | _ => "bad-op"

end Cel.Drv.C09
