import Cel.Drv.Util
import Cel.Model.Cli
namespace Cel.Drv.C20
open Cel Cel.Drv Cel.Cli

/-! line: `main <argsOk 0|1> <compiles 0|1> <mode n|s|j> <b 0|1> <tok>*`
  outcome tokens  T | F | V<i> (a non-boolean value; its JSON text is the placeholder `V<i>`) | E (CELEvalError)
                  | R:<Exc> (another exception escapes)
  line tokens     M (malformed JSON) | X:<Exc> (the JSON decoder raises something else) | an outcome token (a document
                  on which the expression has that outcome)
  mode n: one outcome token; mode s: one line token; mode j: any number of line tokens
  answer: `<status | raise Exc> | <stdout lines>`
  line: `split <code point>*` — answer: the lengths of the documents the NDJSON loop cuts the text into -/

def excOf (s : String) : Exc :=
  match s with
  | "TypeError" => .typeError | "ValueError" => .valueError | "KeyError" => .keyError
  | "IndexError" => .indexError | "AttributeError" => .attributeError | "RecursionError" => .recursion
  | "OverflowError" => .overflow | "ZeroDivisionError" => .zeroDiv
  | _ => .other

def outcomeOf (tok : String) : Option Outcome :=
  if tok == "T" then some (.bool true)
  else if tok == "F" then some (.bool false)
  else if tok == "E" then some .evalError
  else if tok.startsWith "V" then some (.value tok)
  else if tok.startsWith "R:" then some (.escape (excOf (tok.drop 2).toString))
  else none

/-- documents are line numbers; the program looks the bound document up in the table of outcomes -/
def mkLines (toks : List String) : Option (List (Line Nat) × List (Nat × Outcome)) :=
  let rec go : List String → Nat → Option (List (Line Nat) × List (Nat × Outcome))
    | [], _ => some ([], [])
    | t :: ts, i => do
        let (ls, tab) ← go ts (i + 1)
        if t == "M" then some (.malformed :: ls, tab)
        else if t.startsWith "X:" then some (.escape (excOf (t.drop 2).toString) :: ls, tab)
        else do let o ← outcomeOf t; some (.json i :: ls, (i, o) :: tab)
  go toks 0

def progOf (var : String) (tab : List (Nat × Outcome)) : Prog Nat := fun act =>
  match act.find? (fun kv => kv.1 == var) with
  | some (_, d) => (match tab.find? (fun p => p.1 == d) with | some (_, o) => o | none => .escape .other)
  | none => .escape .nameError

def showRes (r : Res) : String :=
  (match r.status with | .ok n => toString n | .error e => "raise " ++ e.name) ++ " | " ++ " ".intercalate r.out

def handle : Handler
  | "main" :: a :: c :: m :: b :: toks =>
      let argsOk := a == "1"; let compiles := c == "1"; let bo := b == "1"
      let act : Activation Nat := [("arg0", 1000000), ("arg1", 1000001)]
      if m == "n" then
        match toks with
        | [t] => match outcomeOf t with
            | some o => showRes (main (δ := Nat) ⟨argsOk, compiles, .nullInput, bo, "jq", act, fun _ => o, .malformed, []⟩)
            | none => "bad-op"
        | _ => "bad-op"
      else match mkLines toks with
        | none => "bad-op"
        | some (ls, tab) =>
            if m == "s" then
              match ls with
              | [l] => showRes (main ⟨argsOk, compiles, .slurp, bo, "jq", act, progOf "jq" tab, l, []⟩)
              | _ => "bad-op"
            else if m == "j" then
              showRes (main ⟨argsOk, compiles, .ndjson, bo, "jq", act, progOf "jq" tab, .malformed, ls⟩)
            else "bad-op"
  | "split" :: cps =>
      -- the input text as decimal code points; answer: the length of every line of `for document in sys.stdin`
      let cs := cps.filterMap (fun t => t.toNat?.map Char.ofNat)
      " ".intercalate ((splitLines cs).map (fun l => toString l.length))
  | ["var", p, d] =>
      let opt (s : String) : Option String := if s == "-" then none else some s
      varName (opt p) (opt d)
  | ["argtype", t] => if argAccepted ⟨some t, false⟩ then "known" else "unknown"
  | _ => "bad-op"

end Cel.Drv.C20
