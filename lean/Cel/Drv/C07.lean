import Cel.Drv.Util
import Cel.Model.Str
import Cel.Model.Lex
namespace Cel.Drv.C07
open Cel Cel.Drv Cel.Str

/-- text argument: code points in decimal separated by commas; `-` is the empty text -/
def parseText (s : String) : Option Text :=
  if s == "-" then some [] else (s.splitOn ",").mapM (·.toNat?)

def showText (t : Text) : String := if t.isEmpty then "-" else ",".intercalate (t.map toString)

def showOpt : Option Text → String
  | some t => "some " ++ showText t
  | none => "none"

/-- `<fn> <text>`:
  str / bytes      celstr / celbytes on a token text
  int / uint       interpreter: IntType(text) / UintType(text without suffix)
  cint / cuint     compiled runner: pasted text evaluated as Python source
  spelled / spelledb   the CEL reference decoder on a body
  utf8 / unutf8    UTF-8 encode / strict decode
  `lex <TERMINAL> <text>`   length of the match of the terminal's regex at the start of the text (`re.match`) -/
def handle : Handler
  | ["lex", term, a] =>
    match parseText a, Cel.Lex.terminals.lookup term with
    | some t, some r =>
      (match Cel.Lex.lexLen r t with
       | some n => s!"some {n}"
       | none => "none")
    | _, _ => "bad-arg"
  | [fn, a] =>
    match parseText a with
    | none => "bad-arg"
    | some t =>
      match fn with
      | "str" => PyM.show showText (celstr t)
      | "bytes" => PyM.show showText (celbytes t)
      | "str0" => PyM.show showText (celstrWith false t)
      | "int" => showInt (intOfLit t)
      | "uint" => showInt (uintOfLit t)
      | "cint" => showInt (transpiledInt t)
      | "cuint" => showInt (transpiledUint t)
      | "spelled" => showOpt (spelled t)
      | "spelledb" => showOpt (spelledBytes t)
      | "utf8" => PyM.show showText (utf8Encode t)
      | "unutf8" => PyM.show showText (utf8Decode t)
      | _ => "bad-op"
  | _ => "bad-op"

end Cel.Drv.C07
