import Cel.Drv.Util
import Cel.Model.Conv
namespace Cel.Drv.C10
open Cel Cel.Drv Cel.Conv Cel.Time

/-- text / bytes operands travel as comma-separated numbers, `-` for empty -/
def parseList (s : String) : Option (List Nat) :=
  if s == "-" then some [] else (s.splitOn ",").mapM String.toNat?
def showList (xs : List Nat) : String :=
  if xs.isEmpty then "-" else ",".intercalate (xs.map toString)
def showText (r : PyM (List Nat)) : String := PyM.show showList r
def showTs (r : PyM Ts) : String := PyM.show (fun t => s!"{t.loc} {t.off}") r
def showBits (v : Dy) : String := match bitsOfDy v with | some b => s!"ok {b}" | none => "none"
def showOptTs : Option (PyM Ts) → String
  | none => "none"
  | some r => showTs r

def bind' {α β} (r : PyM α) (f : α → PyM β) : PyM β := r >>= f

def handle : Handler
  | ["int", "i", n] => match n.toInt? with | some n => showInt (intOfInt n) | _ => "bad-op"
  | ["int", "u", n] => match n.toInt? with | some n => showInt (intOfUint n) | _ => "bad-op"
  | ["int", "d", b] => match b.toNat? with | some b => showInt (intOfDouble (Dbl.ofBits b)) | _ => "bad-op"
  | ["int", "s", t] => match parseList t with | some t => showInt (intOfText t) | _ => "bad-op"
  | ["int", "t", l, o] => match l.toInt?, o.toInt? with
      | some l, some o => showInt (intOfTs ⟨l, o⟩) | _, _ => "bad-op"
  | ["uint", "i", n] => match n.toInt? with | some n => showInt (uintOfInt n) | _ => "bad-op"
  | ["uint", "u", n] => match n.toInt? with | some n => showInt (uintOfUint n) | _ => "bad-op"
  | ["uint", "d", b] => match b.toNat? with | some b => showInt (uintOfDouble (Dbl.ofBits b)) | _ => "bad-op"
  | ["uint", "s", t] => match parseList t with | some t => showInt (uintOfText t) | _ => "bad-op"
  | ["uint", "t", l, o] => match l.toInt?, o.toInt? with
      | some l, some o => showInt (uintOfTs ⟨l, o⟩) | _, _ => "bad-op"
  | ["double", _, n] => match n.toInt? with | some n => showBits (doubleOfInt n) | _ => "bad-op"
  | ["string", "i", n] => match n.toInt? with | some n => "ok " ++ showList (stringOfInt n) | _ => "bad-op"
  | ["string", "u", n] => match n.toInt? with | some n => "ok " ++ showList (stringOfUint n) | _ => "bad-op"
  | ["string", "b", n] => "ok " ++ showList (stringOfBool (n == "1"))
  | ["string", "y", b] => match parseList b with | some b => showText (stringOfBytes b) | _ => "bad-op"
  | ["string", "t", l, o] => match l.toInt?, o.toInt? with
      | some l, some o => "ok " ++ showList (stringOfTs ⟨l, o⟩) | _, _ => "bad-op"
  | ["string", "dur", us] => match us.toInt? with | some us => "ok " ++ showList (stringOfDur us) | _ => "bad-op"
  | ["bytes", "s", t] => match parseList t with | some t => showText (bytesOfString t) | _ => "bad-op"
  | ["bool", "s", t] => match parseList t with
      | some t => PyM.show (fun b => if b then "1" else "0") (boolOfText t) | _ => "bad-op"
  | ["ts", "s", t] => match parseList t with | some t => showOptTs (tsOfText t) | _ => "bad-op"
  | ["dur", "s", t] => match parseList t with | some t => showInt (durOfText t) | _ => "bad-op"
  | ["dur", "i", n] => match n.toInt? with | some n => showInt (durOfInt n) | _ => "bad-op"
  -- compositions
  | ["rt_is", n] => match n.toInt? with | some n => showInt (intOfText (stringOfInt n)) | _ => "bad-op"
  | ["rt_us", n] => match n.toInt? with | some n => showInt (uintOfText (stringOfUint n)) | _ => "bad-op"
  | ["rt_si", t] => match parseList t with
      | some t => showText (bind' (intOfText t) fun i => pure (stringOfInt i)) | _ => "bad-op"
  | ["rt_su", t] => match parseList t with
      | some t => showText (bind' (uintOfText t) fun i => pure (stringOfUint i)) | _ => "bad-op"
  | ["rt_sb", t] => match parseList t with
      | some t => showText (bind' (bytesOfString t) stringOfBytes) | _ => "bad-op"
  | ["rt_bs", b] => match parseList b with
      | some b => showText (bind' (stringOfBytes b) bytesOfString) | _ => "bad-op"
  | ["rt_ts", l, o] => match l.toInt?, o.toInt? with
      | some l, some o => showOptTs (tsOfText (stringOfTs ⟨l, o⟩)) | _, _ => "bad-op"
  | ["rt_dur", us] => match us.toInt? with | some us => showInt (durOfText (stringOfDur us)) | _ => "bad-op"
  | ["rt_iu", n] => match n.toInt? with | some n => showInt (bind' (uintOfInt n) intOfUint) | _ => "bad-op"
  | ["rt_ui", n] => match n.toInt? with | some n => showInt (bind' (intOfUint n) uintOfInt) | _ => "bad-op"
  | ["rt_id", n] => match n.toInt? with
      | some n => showInt (intOfDouble (.fin (doubleOfInt n))) | _ => "bad-op"
  | ["rt_ud", n] => match n.toInt? with
      | some n => showInt (uintOfDouble (.fin (doubleOfInt n))) | _ => "bad-op"
  | _ => "bad-op"

end Cel.Drv.C10
