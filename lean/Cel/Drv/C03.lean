import Cel.Drv.Util
import Cel.Model.PrimD
namespace Cel.Drv.C03
open Cel Cel.Drv

/-- alternating list `k₁ v₁ k₂ v₂ …` → keys, values -/
def unzipAlt : List Val → List Val × List Val
  | k :: v :: rest => let (ks, vs) := unzipAlt rest; (k :: ks, v :: vs)
  | _ => ([], [])

/-- values: `i <int>` | `b <0|1>` | `s <alnum, _ = empty>` | `n` | `e` | `l <n> v*` | `m <n> (k v)*` (a `MapType`) |
`o <tag>` (a value of a kind outside the concrete fragment: uint, double, bytes, timestamp, duration) -/
partial def parseVal : List String → Option (Val × List String)
  | "i" :: n :: rest => n.toInt?.map fun i => (.int i, rest)
  | "b" :: b :: rest => some (.bool (b == "1"), rest)
  | "s" :: s :: rest => some (.str (if s == "_" then "" else s), rest)
  | "n" :: rest => some (.null, rest)
  | "e" :: rest => some (.err, rest)
  | "l" :: n :: rest => do
      let n ← n.toNat?
      let (xs, r) ← parseVals n rest
      pure (.list xs, r)
  | "m" :: n :: rest => do
      let n ← n.toNat?
      let (xs, r) ← parseVals (2 * n) rest
      let (ks, vs) := unzipAlt xs
      pure (.map ks vs, r)
  | "o" :: t :: rest => t.toNat?.map fun t => (.other t, rest)
  | _ => none
where
  parseVals : Nat → List String → Option (List Val × List String)
    | 0, rest => some ([], rest)
    | n+1, rest => do
        let (x, r1) ← parseVal rest
        let (xs, r2) ← parseVals n r1
        pure (x :: xs, r2)

def binOf : String → Option BinOp
  | "add" => some .add | "sub" => some .sub | "mul" => some .mul | "div" => some .div | "mod" => some .mod
  | "lt" => some .lt | "le" => some .le | "gt" => some .gt | "ge" => some .ge | "eq" => some .eq | "ne" => some .ne
  | "in" => some .in_ | _ => none

def macroOf : String → Option MacroK
  | "all" => some .all | "exists" => some .exists_ | "exists_one" => some .existsOne
  | "map" => some .map | "filter" => some .filter | _ => none

partial def parseE : List String → Option (Expr × List String)
  | "lit" :: rest => do let (v, r) ← parseVal rest; pure (.lit v, r)
  | "badlit" :: rest => some (.badlit, rest)
  | "id" :: x :: rest => some (.ident x, rest)
  | "un" :: "not" :: rest => do let (a, r) ← parseE rest; pure (.un .not a, r)
  | "un" :: "neg" :: rest => do let (a, r) ← parseE rest; pure (.un .neg a, r)
  | "bin" :: op :: rest => do
      let op ← binOf op
      let (a, r1) ← parseE rest; let (b, r2) ← parseE r1; pure (.bin op a b, r2)
  | "idx" :: rest => do let (a, r1) ← parseE rest; let (b, r2) ← parseE r1; pure (.idx a b, r2)
  | "sel" :: rest => do
      let (a, r1) ← parseE rest
      match r1 with
      | f :: r2 => pure (.sel a f, r2)
      | _ => none
  | "or" :: rest => do let (a, r1) ← parseE rest; let (b, r2) ← parseE r1; pure (.or a b, r2)
  | "and" :: rest => do let (a, r1) ← parseE rest; let (b, r2) ← parseE r1; pure (.and a b, r2)
  | "cond" :: rest => do
      let (c, r1) ← parseE rest; let (x, r2) ← parseE r1; let (y, r3) ← parseE r2; pure (.cond c x y, r3)
  | "list" :: n :: rest => do let n ← n.toNat?; let (xs, r) ← parseEs n rest; pure (.list xs, r)
  | "map" :: n :: rest => do let n ← n.toNat?; let (xs, r) ← parseEs n rest; pure (.map xs, r)
  | "call" :: f :: n :: rest => do let n ← n.toNat?; let (xs, r) ← parseEs n rest; pure (.call f xs, r)
  | "mcall" :: rest => do
      let (a, r1) ← parseE rest
      match r1 with
      | f :: n :: r2 => do let n ← n.toNat?; let (xs, r) ← parseEs n r2; pure (.mcall a f xs, r)
      | _ => none
  | "macro" :: k :: rest => do
      let k ← macroOf k
      let (a, r1) ← parseE rest
      match r1 with
      | x :: r2 => do let (b, r3) ← parseE r2; pure (.macro k a x b, r3)
      | _ => none
  | "has" :: rest => do let (a, r) ← parseE rest; pure (.has a, r)
  | "dyn" :: rest => do let (a, r) ← parseE rest; pure (.dyn a, r)
  | _ => none
where
  parseEs : Nat → List String → Option (List Expr × List String)
    | 0, rest => some ([], rest)
    | n+1, rest => do
        let (x, r1) ← parseE rest
        let (xs, r2) ← parseEs n r1
        pure (x :: xs, r2)

def parseEnv : Nat → List String → Option (Env × List String)
  | 0, rest => some ([], rest)
  | n+1, x :: rest => do
      let (v, r1) ← parseVal rest
      let (env, r2) ← parseEnv n r1
      pure ((x, v) :: env, r2)
  | _, _ => none

/-- `celrun.canon` for the fragment -/
partial def canon : Val → String
  | .int i => s!"int:{i}"
  | .bool b => "bool:" ++ (if b then "true" else "false")
  | .pybool b => "pybool:" ++ (if b then "true" else "false")
  | .str s => "string:\"" ++ s ++ "\""
  | .list xs => "list:[" ++ ",".intercalate (xs.map canon) ++ "]"
  | .null => "null"
  | .err => "errvalue"
  | .map _ _ => "map:?"
  | .fnobj _ => "py:builtins.function"
  | .other _ => "?other"

/-- outcome at the API: value | `err` | `skip` (a primitive outside the modelled fragment was reached) -/
def showRun (r : PyM Val) : String :=
  match r with
  | .ok .err => "err"
  | .ok v => canon v
  | .error .other => "skip"
  | .error _ => "err"

def showPrim (r : PyM Val) : String :=
  match r with
  | .ok v => "ok " ++ canon v
  | .error .other => "skip"
  | .error c => "raise " ++ c.name

def primOf : String → Option PrimOp
  | "neg" => some (.un .neg) | "not" => some (.un .not) | "index" => some .index | "size" => some (.fn "size")
  | s => (binOf s).map .bin

def handle : Handler
  | "X" :: n :: rest =>
      match n.toNat? with
      | none => "bad-op"
      | some n =>
        match parseEnv n rest with
        | some (env, r1) =>
          match parseE r1 with
          | some (e, []) =>
              -- interpreter: `Evaluator.evaluate`; compiled: top-level `result()` + `Transpiler.evaluate`
              let i := evalI PrimD.sem e env
              let c := resultC (evalC PrimD.sem e env)
              "I=" ++ showRun i ++ " C=" ++ showRun c
          | _ => "bad-op"
        | none => "bad-op"
  | "S" :: rest =>
      match parseE rest with
      | some (e, []) => if e.safe PrimD.sem then "safe" else "unsafe"
      | _ => "bad-op"
  | "P" :: op :: n :: rest =>
      match n.toNat? with
      | none => "bad-op"
      | some n =>
        match parseVal.parseVals n rest with
        | some (args, []) =>
            match op, args with
            | "lor", [x, y] => showPrim (vor x y)
            | "land", [x, y] => showPrim (vand x y)
            | _, _ => match primOf op with
              | some p => showPrim (PrimD.prim p args)
              | none => "bad-op"
        | _ => "bad-op"
  | _ => "bad-op"

end Cel.Drv.C03
