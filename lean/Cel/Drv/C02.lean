import Cel.Drv.Util
import Cel.Model.Logic
namespace Cel.Drv.C02
open Cel Cel.Drv

/-- prefix notation: `lit o | and A B | or A B | not A | cond C X Y | all n E1..En | exists n E1..En` -/
partial def parse : List String → Option (LExpr × List String)
  | "lit" :: o :: rest => (O.ofName? o).map fun o => (.lit o, rest)
  | "and" :: rest => do let (a, r1) ← parse rest; let (b, r2) ← parse r1; pure (.and a b, r2)
  | "or" :: rest => do let (a, r1) ← parse rest; let (b, r2) ← parse r1; pure (.or a b, r2)
  | "not" :: rest => do let (a, r1) ← parse rest; pure (.not a, r1)
  | "cond" :: rest => do
      let (c, r1) ← parse rest; let (x, r2) ← parse r1; let (y, r3) ← parse r2; pure (.cond c x y, r3)
  | "all" :: n :: rest => do let n ← n.toNat?; let (xs, r) ← parseN n rest; pure (.all xs, r)
  | "exists" :: n :: rest => do let n ← n.toNat?; let (xs, r) ← parseN n rest; pure (.exists_ xs, r)
  | _ => none
where
  parseN : Nat → List String → Option (List LExpr × List String)
    | 0, rest => some ([], rest)
    | n+1, rest => do let (x, r1) ← parse rest; let (xs, r2) ← parseN n r1; pure (x :: xs, r2)

def showO (r : PyM O) : String := PyM.show O.name r

def handle : Handler
  | ["fn", "and", x, y] => match O.ofName? x, O.ofName? y with
      | some x, some y => showO (land x y) | _, _ => "bad-op"
  | ["fn", "or", x, y] => match O.ofName? x, O.ofName? y with
      | some x, some y => showO (lor x y) | _, _ => "bad-op"
  | ["fn", "not", x] => match O.ofName? x with
      | some x => showO (lnot x) | _ => "bad-op"
  | ["fn", "cond", c, x, y] => match O.ofName? c, O.ofName? x, O.ofName? y with
      | some c, some x, some y => showO (lcond c x y) | _, _, _ => "bad-op"
  | "I" :: rest => match parse rest with
      | some (e, []) => showO (runI e) | _ => "bad-op"
  | "C" :: rest => match parse rest with
      | some (e, []) => showO (runC e) | _ => "bad-op"
  | "S" :: rest => match parse rest with
      | some (e, []) => (match spec e with | some o => "spec " ++ o.name | none => "spec none") | _ => "bad-op"
  | _ => "bad-op"

end Cel.Drv.C02
