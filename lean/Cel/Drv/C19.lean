import Cel.Drv.Util
import Cel.Model.XlateValue
import Cel.Model.XlateCel
import Cel.Gen.XlateTables
/-!
Line protocol for C19 (tokens separated by single blanks).  Strings travel as `x` followed by the
hex code points separated by `.` (`x61.5c.62`; the empty string is `x`).

  q dq|sq <str>                       -> <str>                      C7N_Rewriter.q
  qv dq|sq <str>                      -> <str> <str>|none           q text, and what it evaluates to
  lit <str>                           -> tok <str> rest <str> val <str>|none      lexString + celstr
  key <ctx> <key>                     -> ok <str> | raise KeyError  key_to_cel
  secs <n> | age <n>                  -> <str> ok <n>|error|unmodelled            text and durOf of it
  dur <str>                           -> ok <n>|error|unmodelled    DurationType(text)
  emit <key> <op> <vt|-> <value>      -> ok <str> | raise ValueError | raise KeyError     value_to_cel
  dec <op> <vt|-> <now> <r> <v>       -> true|false|none            decision the emitted clause denotes
  rel <op> <vt|-> <now> <r> <v>       -> true|false|none            Spec.rel on Spec.operands
  cel <str>                           -> cel|notcel|nolex           XlateCel.lexCel + Cel.Grammar.parse

values (emit): S<str> | I<int> | B0 | B1 | LS <n> <str>… | LI <n> <int>… | LU <k> <hex>… <n> <str>…
values (dec/rel): S<str> | I<int> | B0 | B1 | N | L <n> <atom>…
The tables are the regenerated ones (Cel.Gen.XlateTables).
-/
namespace Cel.Drv.C19
open Cel Cel.Drv Cel.XlateValue Cel.Gen

def hexOfNat (n : Nat) : String := String.ofList (Nat.toDigits 16 n)

def encStr (s : Str) : String :=
  "x" ++ ".".intercalate (s.map (fun c => hexOfNat c.toNat))

def hexNat? (s : String) : Option Nat :=
  if s.isEmpty then none else
  s.toList.foldl (fun acc c => acc.bind fun a => if isHex c then some (16 * a + hexVal c) else none) (some 0)

def decStr (t : String) : Option Str :=
  match t.toList with
  | 'x' :: rest =>
    if rest.isEmpty then some []
    else (String.ofList rest |>.splitOn ".").mapM (fun h => (hexNat? h).bind fun n =>
      if n.isValidChar then some (Char.ofNat n) else none)
  | _ => none

def showDur : DurRes → String
  | .ok n => s!"ok {n}" | .error => "error" | .unmodelled => "unmodelled"

def showOptB : Option Bool → String
  | some true => "true" | some false => "false" | none => "none"

/-- `(\w+)\((\w+)\)` matched at the start of the key (ASCII word characters) -/
def fnKey (k : Str) : Option (Str × Str) :=
  let fn := k.takeWhile isWordAscii
  match k.dropWhile isWordAscii with
  | '(' :: r =>
    let arg := r.takeWhile isWordAscii
    match r.dropWhile isWordAscii with
    | ')' :: _ => if fn.isEmpty || arg.isEmpty then none else some (fn, arg)
    | _ => none
  | _ => none

def keyToCel (ctx k : Str) : Except String Str :=
  match fnKey k with
  | some (fn, arg) =>
    match lookup XlateTables.functionMap (String.ofList fn) with
    | some cel => .ok (keyToCelFn ctx cel.toList arg)
    | none => .error "KeyError"
  | none => .ok (keyToCelPlain ctx k)

def parsePV : List String → Option PV
  | [t] =>
    match t.toList with
    | 'S' :: r => (decStr (String.ofList r)).map .str
    | 'I' :: r => (String.ofList r).toInt?.map .int
    | ['B', '0'] => some (.bool false)
    | ['B', '1'] => some (.bool true)
    | _ => none
  | "LS" :: n :: rest => do
    let n ← n.toNat?
    if rest.length ≠ n then none
    let xs ← rest.mapM decStr
    pure (.strs xs)
  | "LU" :: k :: rest => do
    -- LU <k> <k code points (hex) of non-printable characters> <n> <n strings>
    let k ← k.toNat?
    if rest.length < k + 1 then none
    let np ← (rest.take k).mapM (fun h => (hexNat? h).bind fun n => if n.isValidChar then some (Char.ofNat n) else none)
    let n ← (rest.drop k).head?.bind (·.toNat?)
    let items := rest.drop (k + 1)
    if items.length ≠ n then none
    let xs ← items.mapM decStr
    pure (.strsU np xs)
  | "LI" :: n :: rest => do
    let n ← n.toNat?
    if rest.length ≠ n then none
    let xs ← rest.mapM (·.toInt?)
    pure (.ints xs)
  | _ => none

def parseAtom (t : String) : Option Atom :=
  match t.toList with
  | 'S' :: r => (decStr (String.ofList r)).map .str
  | 'I' :: r => (String.ofList r).toInt?.map .int
  | ['B', '0'] => some (.bool false)
  | ['B', '1'] => some (.bool true)
  | ['N'] => some .null
  | _ => none

/-- one value at the head of the token list -/
def parseVal : List String → Option (Val × List String)
  | "L" :: n :: rest => do
    let n ← n.toNat?
    if rest.length < n then none
    let xs ← (rest.take n).mapM parseAtom
    pure (.list xs, rest.drop n)
  | t :: rest => (parseAtom t).map (fun a => (.atom a, rest))
  | [] => none

/-! concrete primitives (what celpy/c7nlib compute; compared with the real ones by correspondence) -/

def isSpace (c : Char) : Bool := c = ' ' || c = '\t' || c = '\n' || c = '\r' || c.toNat = 11 || c.toNat = 12

def strip (s : Str) : Str := ((s.dropWhile isSpace).reverse.dropWhile isSpace).reverse

def lowerAscii (c : Char) : Char := if 'A' ≤ c && c ≤ 'Z' then Char.ofNat (c.toNat + 32) else c

def dedup : List Atom → List Atom
  | [] => []
  | a :: as => a :: (dedup as).filter (· != a)

def prims : Prims where
  size := fun v => match v with
    | .list xs => some (.atom (.int xs.length))
    | .atom (.str s) => some (.atom (.int s.length))
    | _ => none
  uniqueSize := fun v => match v with
    | .list xs => some (.atom (.int (dedup xs).length))
    | _ => none
  toInt := fun v => match v with
    | .atom (.int i) => some (.atom (.int i))
    | .atom (.str s) =>
      let t := strip s
      let (neg, ds) := match t with
        | '-' :: r => (true, r)
        | '+' :: r => (false, r)
        | _ => (false, t)
      if ds.isEmpty || !ds.all isDigit then none
      else some (.atom (.int (if neg then -(parseNat ds : Int) else parseNat ds)))
    | _ => none
  normalize := fun v => match v with
    | .atom (.str s) => if s.all (fun c => c.toNat < 128) then some (.atom (.str (strip (s.map lowerAscii)))) else none
    | _ => none
  timestamp := fun v => match v with
    | .atom (.int t) => some t
    | _ => none

def optVt (t : String) : Option String := if t = "-" then none else some t

def decide_ (op : String) (vt : Option String) (now : Int) (r v : Val) : Option Bool :=
  match lookup XlateTables.atomicOpMap op with
  | none => none
  | some tmpl =>
    match vt with
    | none => denoteTemplate tmpl.toList r v
    | some n =>
      match lookup XlateTables.typeValueMap n with
      | none => none
      | some e => (denoteOperands prims now e r v).bind (fun a => denoteTemplate tmpl.toList a.1 a.2)

def specRel (op : String) (vt : Option String) (now : Int) (r v : Val) : Option Bool :=
  match Op.ofName op with
  | none => none
  | some o =>
    match vt with
    | none => Spec.rel o r v
    | some n => (Spec.operands prims now n r v).bind (fun a => Spec.rel o a.1 a.2)

def showEmit : Emit → String
  | .ok t => "ok " ++ encStr t
  | .valueError => "raise ValueError"
  | .keyError => "raise KeyError"

def handle : Handler
  | ["q", "dq", s] => match decStr s with | some s => encStr (q '"' s) | none => "bad-op"
  | ["q", "sq", s] => match decStr s with | some s => encStr (q '\'' s) | none => "bad-op"
  | ["qv", qt, s] => match decStr s with
    | some s =>
      let qc := if qt = "sq" then '\'' else '"'
      let t := q qc s
      -- the value: through the modelled lexer for `"`; for `'` the body is decoded directly
      let v := if qc = '"' then evalLiteral t else decodeBody (qBody qc s)
      encStr t ++ " " ++ (match v with | some v => encStr v | none => "none")
    | none => "bad-op"
  | ["lit", s] => match decStr s with
    | some t => match lexString t with
      | some (tok, rest) =>
        "tok " ++ encStr tok ++ " rest " ++ encStr rest ++ " val " ++ (match celstr tok with | some v => encStr v | none => "none")
      | none => "nolex"
    | none => "bad-op"
  | ["key", c, k] => match decStr c, decStr k with
    | some c, some k => (match keyToCel c k with | .ok t => "ok " ++ encStr t | .error e => "raise " ++ e)
    | _, _ => "bad-op"
  | ["secs", n] => match n.toNat? with
    | some n => encStr (secondsToDuration n) ++ " " ++ showDur (durOf (secondsText n))
    | none => "bad-op"
  | ["age", n] => match n.toNat? with
    | some n => encStr (ageToDuration n) ++ " " ++ showDur (durOf (secondsText (n * XlateTables.secondsPerDay)))
    | none => "bad-op"
  | ["dur", s] => match decStr s with | some t => showDur (durOf t) | none => "bad-op"
  | "emit" :: k :: op :: vt :: value => match decStr k, parsePV value with
    | some k, some v => showEmit (valueToCel XlateTables.atomicOpMap XlateTables.typeValueMap k op v (optVt vt))
    | _, _ => "bad-op"
  | "dec" :: op :: vt :: now :: rest => match now.toInt?, parseVal rest with
    | some now, some (r, rest') => (match parseVal rest' with
      | some (v, []) => showOptB (decide_ op (optVt vt) now r v)
      | _ => "bad-op")
    | _, _ => "bad-op"
  | "rel" :: op :: vt :: now :: rest => match now.toInt?, parseVal rest with
    | some now, some (r, rest') => (match parseVal rest' with
      | some (v, []) => showOptB (specRel op (optVt vt) now r v)
      | _ => "bad-op")
    | _, _ => "bad-op"
  | ["cel", s] => match decStr s with
    | some t => (match XlateCel.lexCel t with
      | none => "nolex"
      | some ts => if (Cel.Grammar.parse ts).isSome then "cel" else "notcel")
    | none => "bad-op"
  | _ => "bad-op"

end Cel.Drv.C19
