import Cel.Drv.Util
import Cel.Model.Names
/-!
  Line protocol for C12.

    <I|C> <pkg|-> D <n> (<path> <ann>)… B <n> (<path> <val>)… E <expr>     run on a runner model
    spec  <pkg|-> B <n> (<path> <val>)… R <path>                           the Lean `denote`

  <path>  a.b.c            <val>  n (null) | i<int> | M <n> (<key> <val>)… | L <n> <val>…
  <expr>  ref <path> | lit <val> | list <n> <expr>… | map <x> <expr> <expr>
-/
namespace Cel.Drv.C12
open Cel Cel.Drv Cel.Names

def parsePath (t : String) : List String := (t.splitOn ".").filter (· ≠ "")

mutual
partial def parseVal : List String → Option (Val × List String)
  | "n" :: rest => some (.null, rest)
  | "M" :: n :: rest => do
      let n ← n.toNat?
      let (kvs, r) ← parsePairs n rest
      pure (.map kvs, r)
  | "L" :: n :: rest => do
      let n ← n.toNat?
      let (vs, r) ← parseVals n rest
      pure (.list vs, r)
  | t :: rest => if t.startsWith "i" then (t.drop 1).toString.toInt?.map fun i => (.int i, rest) else none
  | [] => none
partial def parsePairs : Nat → List String → Option (List (String × Val) × List String)
  | 0, rest => some ([], rest)
  | n+1, k :: rest => do
      let (v, r1) ← parseVal rest
      let (kvs, r2) ← parsePairs n r1
      pure ((k, v) :: kvs, r2)
  | _, [] => none
partial def parseVals : Nat → List String → Option (List Val × List String)
  | 0, rest => some ([], rest)
  | n+1, rest => do
      let (v, r1) ← parseVal rest
      let (vs, r2) ← parseVals n r1
      pure (v :: vs, r2)
end

mutual
partial def parseE : List String → Option (NE × List String)
  | "ref" :: p :: rest => match parsePath p with
      | h :: t => some (.ref h t, rest)
      | [] => none
  | "lit" :: rest => do let (v, r) ← parseVal rest; pure (.lit v, r)
  | "list" :: n :: rest => do let n ← n.toNat?; let (es, r) ← parseEs n rest; pure (.list es, r)
  | "map" :: x :: rest => do let (c, r1) ← parseE rest; let (b, r2) ← parseE r1; pure (.map c x b, r2)
  | _ => none
partial def parseEs : Nat → List String → Option (List NE × List String)
  | 0, rest => some ([], rest)
  | n+1, rest => do let (e, r1) ← parseE rest; let (es, r2) ← parseEs n r1; pure (e :: es, r2)
end

partial def parseDecls : Nat → List String → Option (List (List String × Nat) × List String)
  | 0, rest => some ([], rest)
  | n+1, p :: a :: rest => do
      let a ← a.toNat?
      let (ds, r) ← parseDecls n rest
      pure ((parsePath p, a) :: ds, r)
  | _, _ => none

partial def parseBinds : Nat → List String → Option (List (List String × Val) × List String)
  | 0, rest => some ([], rest)
  | n+1, p :: rest => do
      let (v, r1) ← parseVal rest
      let (bs, r2) ← parseBinds n r1
      pure ((parsePath p, v) :: bs, r2)
  | _, [] => none

def parsePkg (t : String) : List String := if t = "-" then [] else parsePath t

def runLine (r : Runner) : List String → String
  | pkg :: "D" :: nd :: rest =>
      match nd.toNat? with
      | none => "bad-op"
      | some nd =>
      match parseDecls nd rest with
      | some (ds, "B" :: nb :: rest2) =>
          match nb.toNat? with
          | none => "bad-op"
          | some nb =>
          match parseBinds nb rest2 with
          | some (bs, "E" :: rest3) =>
              match parseE rest3 with
              | some (e, []) => run r ds bs (parsePkg pkg) e
              | _ => "bad-op"
          | _ => "bad-op"
      | _ => "bad-op"
  | _ => "bad-op"

def handle : Handler
  | "I" :: rest => runLine .I rest
  | "C" :: rest => runLine .C rest
  | "spec" :: pkg :: "B" :: nb :: rest =>
      match nb.toNat? with
      | none => "bad-op"
      | some nb =>
      match parseBinds nb rest with
      | some (bs, ["R", p]) =>
          match parsePath p with
          | h :: t => match denote bs (parsePkg pkg) h t with
              | some v => v.show
              | none => "err"
          | [] => "bad-op"
      | _ => "bad-op"
  | _ => "bad-op"

end Cel.Drv.C12
