import Cel.Drv.Util
import Cel.Model.Json
namespace Cel.Drv.C15
open Cel Cel.Drv Cel.JsonM

/-! token formats (no spaces inside a token)
  strings   hex code points joined by '.'            `48.69.1F431`   (empty string: empty)
  Json      n | T | F | i:<int> | d:<bits> | s:<str> | a:<n> item… | o:<n> (s:<key> item)…
  PV        N | pb:0/1 | pi:<int> | pf:<bits> | ps:<str> | pl:<n> … | pd:<n> (k v)…
            cb:0/1 | ci:<int> | cu:<nat> | cd:<bits> | cs:<str> | cy:<hex octets> | cl:<n> … | cm:<n> (k v)…
            ct:<y>.<mo>.<d>.<h>.<mi>.<s>.<us>.<offmin> | cD:<us>
  steps     f:<str> | k:<str> | x:<nat>
-/

def hexVal (c : Char) : Option Nat :=
  if c.isDigit then some (c.toNat - 48)
  else if 'A' ≤ c ∧ c ≤ 'F' then some (c.toNat - 55)
  else if 'a' ≤ c ∧ c ≤ 'f' then some (c.toNat - 87)
  else none

def hexNat? (s : String) : Option Nat :=
  if s.isEmpty then none else s.toList.foldlM (fun a c => (hexVal c).map (a * 16 + ·)) 0

def hexOf (n : Nat) : String := String.ofList (Nat.toDigits 16 n) |>.toUpper

def decStr (s : String) : Option String :=
  if s.isEmpty then some "" else
  (s.splitOn ".").foldlM (fun acc h => (hexNat? h).map fun n => acc.push (Char.ofNat n)) ""

def encStr (s : String) : String := ".".intercalate (s.toList.map fun c => hexOf c.toNat)

def decBytes (s : String) : Option (List UInt8) :=
  let rec go : List Char → Option (List UInt8)
    | [] => some []
    | a :: b :: rest => do
        let x ← hexVal a; let y ← hexVal b; let tl ← go rest
        some (UInt8.ofNat (x * 16 + y) :: tl)
    | _ => none
  go s.toList

def encBytes (bs : List UInt8) : String :=
  String.ofList (bs.flatMap fun b => [(Nat.toDigits 16 (b.toNat / 16)).headD '0', (Nat.toDigits 16 (b.toNat % 16)).headD '0'])

def arg (tok pre : String) : Option String :=
  if tok.startsWith pre then some ((tok.drop pre.length).toString) else none

partial def parseJson : List String → Option (Json × List String)
  | [] => none
  | tok :: rest =>
      if tok == "n" then some (.null, rest)
      else if tok == "T" then some (.bool true, rest)
      else if tok == "F" then some (.bool false, rest)
      else if let some a := arg tok "i:" then a.toInt?.map fun z => (.int z, rest)
      else if let some a := arg tok "d:" then a.toNat?.map fun n => (.float (UInt64.ofNat n), rest)
      else if let some a := arg tok "s:" then (decStr a).map fun s => (.str s, rest)
      else if let some a := arg tok "a:" then do
        let n ← a.toNat?
        let (xs, r) ← items n rest
        some (.arr xs, r)
      else if let some a := arg tok "o:" then do
        let n ← a.toNat?
        let (kvs, r) ← members n rest
        some (.obj kvs, r)
      else none
where
  items : Nat → List String → Option (List Json × List String)
    | 0, rest => some ([], rest)
    | n+1, rest => do let (x, r1) ← parseJson rest; let (xs, r2) ← items n r1; some (x :: xs, r2)
  members : Nat → List String → Option (List (String × Json) × List String)
    | 0, rest => some ([], rest)
    | n+1, rest => do
        let (k, r0) ← parseJson rest
        match k with
        | .str ks => do let (x, r1) ← parseJson r0; let (ms, r2) ← members n r1; some ((ks, x) :: ms, r2)
        | _ => none

partial def showJson : Json → String
  | .null => "n"
  | .bool true => "T"
  | .bool false => "F"
  | .int z => s!"i:{z}"
  | .float f => s!"d:{f.toNat}"
  | .str s => "s:" ++ encStr s
  | .arr xs => " ".intercalate (s!"a:{xs.length}" :: xs.map showJson)
  | .obj kvs => " ".intercalate (s!"o:{kvs.length}" :: kvs.map fun kv => "s:" ++ encStr kv.1 ++ " " ++ showJson kv.2)

def parseTS (a : String) : Option TS :=
  match a.splitOn "." with
  | [y, mo, d, h, mi, s, us, off] => do
      some ⟨← y.toNat?, ← mo.toNat?, ← d.toNat?, ← h.toNat?, ← mi.toNat?, ← s.toNat?, ← us.toNat?, ← off.toInt?⟩
  | _ => none

partial def parsePV : List String → Option (PV × List String)
  | [] => none
  | tok :: rest =>
      if tok == "N" then some (.none, rest)
      else if let some a := arg tok "pb:" then some (.pbool (a == "1"), rest)
      else if let some a := arg tok "pi:" then a.toInt?.map fun z => (.pint z, rest)
      else if let some a := arg tok "pf:" then a.toNat?.map fun n => (.pfloat (UInt64.ofNat n), rest)
      else if let some a := arg tok "ps:" then (decStr a).map fun s => (.pstr s, rest)
      else if let some a := arg tok "cb:" then some (.cbool (a == "1"), rest)
      else if let some a := arg tok "ci:" then a.toInt?.map fun z => (.cint z, rest)
      else if let some a := arg tok "cu:" then a.toNat?.map fun n => (.cuint n, rest)
      else if let some a := arg tok "cd:" then a.toNat?.map fun n => (.cdbl (UInt64.ofNat n), rest)
      else if let some a := arg tok "cs:" then (decStr a).map fun s => (.cstr s, rest)
      else if let some a := arg tok "cy:" then (decBytes a).map fun b => (.cbytes b, rest)
      else if let some a := arg tok "ct:" then (parseTS a).map fun t => (.cts t, rest)
      else if let some a := arg tok "cD:" then a.toInt?.map fun z => (.cdur z, rest)
      else if let some a := arg tok "cl:" then do
        let (xs, r) ← items (← a.toNat?) rest; some (.clist xs, r)
      else if let some a := arg tok "pl:" then do
        let (xs, r) ← items (← a.toNat?) rest; some (.plist xs, r)
      else if let some a := arg tok "cm:" then do
        let (kvs, r) ← members (← a.toNat?) rest; some (.cmap kvs, r)
      else if let some a := arg tok "pd:" then do
        let (kvs, r) ← members (← a.toNat?) rest; some (.pdict kvs, r)
      else none
where
  items : Nat → List String → Option (List PV × List String)
    | 0, rest => some ([], rest)
    | n+1, rest => do let (x, r1) ← parsePV rest; let (xs, r2) ← items n r1; some (x :: xs, r2)
  members : Nat → List String → Option (List (PV × PV) × List String)
    | 0, rest => some ([], rest)
    | n+1, rest => do
        let (k, r0) ← parsePV rest; let (x, r1) ← parsePV r0; let (ms, r2) ← members n r1
        some ((k, x) :: ms, r2)

partial def showPV : PV → String
  | .none => "N"
  | .pbool b => if b then "pb:1" else "pb:0"
  | .pint z => s!"pi:{z}"
  | .pfloat f => s!"pf:{f.toNat}"
  | .pstr s => "ps:" ++ encStr s
  | .plist xs => " ".intercalate (s!"pl:{xs.length}" :: xs.map showPV)
  | .pdict kvs => " ".intercalate (s!"pd:{kvs.length}" :: kvs.map fun kv => showPV kv.1 ++ " " ++ showPV kv.2)
  | .cbool b => if b then "cb:1" else "cb:0"
  | .cint z => s!"ci:{z}"
  | .cuint n => s!"cu:{n}"
  | .cdbl f => s!"cd:{f.toNat}"
  | .cstr s => "cs:" ++ encStr s
  | .cbytes bs => "cy:" ++ encBytes bs
  | .clist xs => " ".intercalate (s!"cl:{xs.length}" :: xs.map showPV)
  | .cmap kvs => " ".intercalate (s!"cm:{kvs.length}" :: kvs.map fun kv => showPV kv.1 ++ " " ++ showPV kv.2)
  | .cts t => s!"ct:{t.year}.{t.month}.{t.day}.{t.hour}.{t.minute}.{t.second}.{t.micro}.{t.offMin}"
  | .cdur us => s!"cD:{us}"

def parseSteps : List String → Option (List Step)
  | [] => some []
  | tok :: rest => do
      let s ← (if let some a := arg tok "f:" then (decStr a).map Step.field
               else if let some a := arg tok "k:" then (decStr a).map Step.key
               else if let some a := arg tok "x:" then a.toNat?.map Step.idx
               else none)
      let ss ← parseSteps rest
      some (s :: ss)

def handle : Handler
  | "rt" :: rest => match parseJson rest with
      | some (j, []) => PyM.show showJson (jsonToCel j >>= encode)
      | _ => "bad-op"
  | "conv" :: rest => match parseJson rest with
      | some (j, []) => PyM.show showPV (jsonToCel j)
      | _ => "bad-op"
  | "enc" :: rest => match parsePV rest with
      | some (v, []) => PyM.show showJson (encode v)
      | _ => "bad-op"
  | "topy" :: rest => match parsePV rest with
      | some (v, []) => "ok " ++ showPV (toPython v)
      | _ => "bad-op"
  | "nav" :: rest => match parseJson rest with
      | some (j, steps) => match parseSteps steps with
          | some p => PyM.show showPV (jsonToCel j >>= fun v => navCel v p)
          | none => "bad-op"
      | none => "bad-op"
  | ["b64", hex] => match decBytes (if hex == "-" then "" else hex) with
      | some bs => "ok " ++ String.ofList (b64encode bs)
      | none => "bad-op"
  | ["b64d", text] => match b64decode (if text == "-" then [] else text.toList) with
      | some bs => "ok " ++ encBytes bs
      | none => "none"
  | ["ladder", cls] => match PCls.ofName? cls with
      | some c => match dispatch jsonLadder c with
          | some k => "ok " ++ (match k with
              | .boolType => "BoolType" | .doubleType => "DoubleType" | .intType => "IntType"
              | .stringType => "StringType" | .none => "NoneType" | .listType => "ListType" | .mapType => "MapType"
              | .timestampType => "TimestampType" | .durationType => "DurationType")
          | none => "raise ValueError"
      | none => "bad-op"
  | _ => "bad-op"

end Cel.Drv.C15
