import Cel.Drv.Util
import Cel.Model.Num
import Cel.Model.Num2
namespace Cel.Drv.C01
open Cel Cel.Drv

def intOp (op : String) (a b : Int) : Option (PyM Int) :=
  match op with
  | "add" => some (IntOps.add a b) | "sub" => some (IntOps.sub a b) | "mul" => some (IntOps.mul a b)
  | "div" => some (IntOps.truediv a b) | "mod" => some (IntOps.mod a b) | "neg" => some (IntOps.neg a)
  -- reflected: a is the LEFT (native) operand, b is `self`
  | "radd" => some (IntOps.radd b a) | "rsub" => some (IntOps.rsub b a) | "rmul" => some (IntOps.rmul b a)
  | "rdiv" => some (IntOps.rtruediv b a) | "rmod" => some (IntOps.rmod b a)
  | _ => none
def uintOp (op : String) (a b : Int) : Option (PyM Int) :=
  match op with
  | "add" => some (UintOps.add a b) | "sub" => some (UintOps.sub a b) | "mul" => some (UintOps.mul a b)
  | "div" => some (UintOps.truediv a b) | "mod" => some (UintOps.mod a b) | "neg" => some (UintOps.neg a)
  | "radd" => some (UintOps.radd b a) | "rsub" => some (UintOps.rsub b a) | "rmul" => some (UintOps.rmul b a)
  | "rdiv" => some (UintOps.rtruediv b a) | "rmod" => some (UintOps.rmod b a)
  | _ => none

def clsOfFloat (x : Float) : DCls :=
  if x.isNaN then .nan
  else
    let s : Sign := if (x.toBits >>> 63) = 1 then .neg else .pos
    if x.isInf then .inf s else if x == 0.0 then .zero s else .fin s

def showBits (x : Float) : String := if x.isNaN then "nan" else toString x.toBits

def showCls : DCls → String
  | .nan => "nan" | .inf .pos => "+inf" | .inf .neg => "-inf"
  | .zero .pos => "+0" | .zero .neg => "-0" | .fin .pos => "+fin" | .fin .neg => "-fin"

/-- double op on bit patterns: the class-level model decides the zero-divisor branch,
everything else is the host's (Lean runtime = C double) IEEE arithmetic. -/
def dblOp (op : String) (a b : Float) : Option String :=
  match op with
  | "add" => some (showBits (a + b)) | "sub" => some (showBits (a - b)) | "mul" => some (showBits (a * b))
  | "neg" => some (showBits (-a))
  | "div" | "rdiv" =>
    let r := if op == "div" then dblTrueDiv (clsOfFloat a) (clsOfFloat b) else dblRTrueDiv (clsOfFloat b) (clsOfFloat a)
    match r with
    | .cls c => some ("cls " ++ showCls c)
    | .host => some (showBits (a / b))
  | _ => none

/-- the host float of the Lean runtime (C double), with the zero-divisor branch decided by the class-level
model `pyDivideByZero` (celtypes._ieee_divide_by_zero) -/
def floatOfCls : DCls → Float
  | .nan => 0.0 / 0.0
  | .inf .pos => 1.0 / 0.0 | .inf .neg => -1.0 / 0.0
  | .zero .pos => 0.0 | .zero .neg => -0.0
  | .fin .pos => 1.0 | .fin .neg => -1.0        -- never produced by pyDivideByZero
def signOfFloat (x : Float) : Sign := if (x.toBits >>> 63) = 1 then .neg else .pos
def hostLean : HostFloat Float where
  neg := fun x => -x
  add := (· + ·)
  sub := (· - ·)
  mul := (· * ·)
  div := (· / ·)
  isZero := fun x => x == 0.0
  divZero := fun x z => floatOfCls (pyDivideByZero (clsOfFloat x) (signOfFloat z))

/-- the DoubleType dunders of the model on bit patterns (a: left operand, b: right operand) -/
def dblOp2 (op : String) (a b : Float) : Option String :=
  match op with
  | "add" => some (showBits (DoubleOps.add hostLean a b)) | "sub" => some (showBits (DoubleOps.sub hostLean a b))
  | "mul" => some (showBits (DoubleOps.mul hostLean a b)) | "div" => some (showBits (DoubleOps.truediv hostLean a b))
  | "neg" => some (showBits (DoubleOps.neg hostLean a))
  -- reflected: a is the LEFT (native) operand, b is `self`
  | "radd" => some (showBits (DoubleOps.radd hostLean b a)) | "rsub" => some (showBits (DoubleOps.rsub hostLean b a))
  | "rmul" => some (showBits (DoubleOps.rmul hostLean b a)) | "rdiv" => some (showBits (DoubleOps.rtruediv hostLean b a))
  | _ => none

/-- prefix notation for double trees: `lit <bits> | neg A | add A B | sub A B | mul A B | div A B` -/
partial def parseD : List String → Option (DExpr Float × List String)
  | "lit" :: z :: rest => z.toNat?.map fun n => (.lit (Float.ofBits n.toUInt64), rest)
  | "neg" :: rest => do let (a, r) ← parseD rest; pure (.neg a, r)
  | op :: rest => do
      let o ← (match op with
        | "add" => some DOp.add | "sub" => some .sub | "mul" => some .mul | "div" => some .div | _ => none)
      let (a, r1) ← parseD rest; let (b, r2) ← parseD r1; pure (.bin o a b, r2)
  | [] => none

/-- prefix notation: `lit z | neg A | add A B | sub A B | mul A B | div A B | mod A B` -/
partial def parseA : List String → Option (AExpr × List String)
  | "lit" :: z :: rest => (parseInt? z).map fun z => (.lit z, rest)
  | "neg" :: rest => do let (a, r) ← parseA rest; pure (.neg a, r)
  | op :: rest => do
      let o ← (match op with
        | "add" => some AOp.add | "sub" => some .sub | "mul" => some .mul | "div" => some .div | "mod" => some .mod
        | _ => none)
      let (a, r1) ← parseA rest; let (b, r2) ← parseA r1; pure (.bin o a b, r2)
  | [] => none

def handle : Handler
  | "x" :: rest => match parseA rest with
      | some (e, []) => showInt (evalA e) | _ => "bad-op"
  | "ux" :: rest => match parseA rest with
      | some (e, []) => showInt (evalU e) | _ => "bad-op"
  | "dx" :: rest => match parseD rest with
      | some (e, []) => showBits (evalD hostLean e) | _ => "bad-op"
  | ["d2", op, a, b] => match a.toNat?, b.toNat? with
      | some a, some b => (dblOp2 op (Float.ofBits a.toUInt64) (Float.ofBits b.toUInt64)).getD "bad-op"
      | _, _ => "bad-op"
  | ["i", op, a, b] => match parseInt? a, parseInt? b with
      | some a, some b => (intOp op a b).map showInt |>.getD "bad-op"
      | _, _ => "bad-op"
  | ["u", op, a, b] => match parseInt? a, parseInt? b with
      | some a, some b => (uintOp op a b).map showInt |>.getD "bad-op"
      | _, _ => "bad-op"
  | ["d", op, a, b] => match a.toNat?, b.toNat? with
      | some a, some b => (dblOp op (Float.ofBits a.toUInt64) (Float.ofBits b.toUInt64)).getD "bad-op"
      | _, _ => "bad-op"
  | _ => "bad-op"

end Cel.Drv.C01
