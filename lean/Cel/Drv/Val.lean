/- Token syntax for `Cel.Val` shared by the C08 / C13 drivers (core Lean only).
   i <int> | u <int> | d nan | d <bits> | b 0|1 | s <n> cp… | y <n> octet… | l <n> val… | m <n> (key val)… |
   z | t <µs> <offset-min> | r <µs> | T <cls> | nf <bits|nan> | ns <n> cp… | ny <n> octet… | nl <n> val… | nr <µs> | nb 0|1 | ni <int> -/
import Cel.Drv.Util
import Cel.Model.Value
namespace Cel.Drv
open Cel

def dblOfBits (bits : Nat) : Dbl :=
  let sign : Nat := bits / 2^63 % 2
  let mag : Nat := bits % 2^63
  if mag > 0x7FF0000000000000 then .nan
  else .num (if sign = 1 then -(mag : Int) else (mag : Int)) (sign == 1 && mag == 0)

def parseDbl? (s : String) : Option Dbl :=
  if s == "nan" then some .nan else s.toNat?.map dblOfBits

def clsOfName? : String → Option Cls
  | "int" => some .int | "uint" => some .uint | "double" => some .dbl | "bool" => some .bool
  | "string" => some .str | "bytes" => some .bytes | "list" => some .list | "map" => some .map
  | "null_type" => some .null | "timestamp" => some .ts | "duration" => some .dur | "type" => some .type
  | "pyfloat" => some .pyfloat | "pystr" => some .pystr | "pybytes" => some .pybytes | "pylist" => some .pylist
  | "pytimedelta" => some .pytimedelta | "pybool" => some .pybool | "pyint" => some .pyint | "pydatetime" => some .pydatetime
  | _ => none

def Cls.name : Cls → String
  | .int => "int" | .uint => "uint" | .dbl => "double" | .bool => "bool" | .str => "string" | .bytes => "bytes"
  | .list => "list" | .map => "map" | .null => "null_type" | .ts => "timestamp" | .dur => "duration" | .type => "type"
  | .pyfloat => "pyfloat" | .pystr => "pystr" | .pybytes => "pybytes" | .pylist => "pylist"
  | .pytimedelta => "pytimedelta" | .pybool => "pybool" | .pyint => "pyint" | .pydatetime => "pydatetime"

def takeNats : Nat → List String → Option (List Nat × List String)
  | 0, rest => some ([], rest)
  | n+1, x :: rest => do let v ← x.toNat?; let (vs, r) ← takeNats n rest; pure (v :: vs, r)
  | _, [] => none

def keyOfVal? : Val → Option Key
  | .int i => some (.int i) | .uint n => some (.uint n) | .bool b => some (.bool b) | .str s => some (.str s)
  | _ => none

partial def parseVal : List String → Option (Val × List String)
  | "i" :: x :: rest => x.toInt?.map fun v => (.int v, rest)
  | "u" :: x :: rest => x.toInt?.map fun v => (.uint v, rest)
  | "d" :: x :: rest => (parseDbl? x).map fun v => (.dbl v, rest)
  | "b" :: x :: rest => some (.bool (x == "1"), rest)
  | "s" :: n :: rest => do let n ← n.toNat?; let (cs, r) ← takeNats n rest; pure (.str cs, r)
  | "y" :: n :: rest => do let n ← n.toNat?; let (cs, r) ← takeNats n rest; pure (.bytes cs, r)
  | "l" :: n :: rest => do let n ← n.toNat?; let (vs, r) ← parseN n rest; pure (.list vs, r)
  | "m" :: n :: rest => do let n ← n.toNat?; let (kvs, r) ← parseKV n rest; pure (.map kvs, r)
  | "z" :: rest => some (.null, rest)
  | "t" :: us :: off :: rest => do let us ← us.toInt?; let off ← off.toInt?; pure (.ts us off, rest)
  | "r" :: us :: rest => us.toInt?.map fun v => (.dur v, rest)
  | "T" :: c :: rest => (clsOfName? c).map fun c => (.type c, rest)
  | "nf" :: x :: rest => (parseDbl? x).map fun v => (.nfloat v, rest)
  | "ns" :: n :: rest => do let n ← n.toNat?; let (cs, r) ← takeNats n rest; pure (.nstr cs, r)
  | "ny" :: n :: rest => do let n ← n.toNat?; let (cs, r) ← takeNats n rest; pure (.nbytes cs, r)
  | "nl" :: n :: rest => do let n ← n.toNat?; let (vs, r) ← parseN n rest; pure (.nlist vs, r)
  | "nr" :: us :: rest => us.toInt?.map fun v => (.ntimedelta v, rest)
  | "nb" :: x :: rest => some (.nbool (x == "1"), rest)
  | "ni" :: x :: rest => x.toInt?.map fun v => (.nint v, rest)
  | _ => none
where
  parseN : Nat → List String → Option (List Val × List String)
    | 0, rest => some ([], rest)
    | n+1, rest => do let (x, r1) ← parseVal rest; let (xs, r2) ← parseN n r1; pure (x :: xs, r2)
  parseKV : Nat → List String → Option (List (Key × Val) × List String)
    | 0, rest => some ([], rest)
    | n+1, rest => do
        let (k, r1) ← parseVal rest; let k ← keyOfVal? k
        let (v, r2) ← parseVal r1; let (kvs, r3) ← parseKV n r2; pure ((k, v) :: kvs, r3)

def parseVals : Nat → List String → Option (List Val × List String)
  | 0, rest => some ([], rest)
  | n+1, rest => do let (x, r1) ← parseVal rest; let (xs, r2) ← parseVals n r1; pure (x :: xs, r2)

def relOpOfName? : String → Option RelOp
  | "eq" => some .eq | "ne" => some .ne | "lt" => some .lt | "le" => some .le | "gt" => some .gt | "ge" => some .ge
  | _ => none

end Cel.Drv
