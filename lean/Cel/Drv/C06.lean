/- Line-protocol handler for C06 (and the grammar part of C18/C19): expressions arrive in prefix
   notation, the answer carries the model's tokens, trees and dump. Core Lean only. -/
import Cel.Drv.Util
import Cel.Model.Grammar
namespace Cel.Drv.C06
open Cel Cel.Grammar Cel.Drv

def allTK : List TK := [.IDENT, .UINT_LIT, .FLOAT_LIT, .INT_LIT, .MLSTRING_LIT, .STRING_LIT, .BYTES_LIT, .BOOL_LIT, .NULL_LIT,
  .QMARK, .COLON, .OROR, .ANDAND, .LT, .LE, .GT, .GE, .EQ, .NE, .IN, .PLUS, .MINUS, .STAR, .SLASH, .PERCENT, .BANG, .DOT,
  .LPAR, .RPAR, .LSQB, .RSQB, .LBRACE, .RBRACE, .COMMA]

/-- mnemonic (constructor) name -/
def mn (k : TK) : String := if k.named then k.src else
  match k with
  | .QMARK => "QMARK" | .COLON => "COLON" | .OROR => "OROR" | .ANDAND => "ANDAND" | .LT => "LT" | .LE => "LE"
  | .GT => "GT" | .GE => "GE" | .EQ => "EQ" | .NE => "NE" | .IN => "IN" | .PLUS => "PLUS" | .MINUS => "MINUS"
  | .STAR => "STAR" | .SLASH => "SLASH" | .PERCENT => "PERCENT" | .BANG => "BANG" | .DOT => "DOT"
  | .LPAR => "LPAR" | .RPAR => "RPAR" | .LSQB => "LSQB" | .RSQB => "RSQB" | .LBRACE => "LBRACE"
  | .RBRACE => "RBRACE" | .COMMA => "COMMA" | _ => "?"

def ofMn? (s : String) : Option TK := allTK.find? (fun k => mn k = s)

/-- `x<hex>` -/
def unhex (s : String) : Option String :=
  match s.toList with
  | 'x' :: r => stringOfHex (String.ofList r)
  | _ => none

def showTok (t : Tok) : String := if t.k.named then mn t.k ++ ":x" ++ hexOfString t.s else mn t.k
def showToks (ts : List Tok) : String := " ".intercalate (ts.map showTok)

def readTok (s : String) : Option Tok :=
  match s.splitOn ":" with
  | [k] => (ofMn? k).map Tok.a
  | [k, h] => do let k ← ofMn? k; let v ← unhex h; some ⟨k, v⟩
  | _ => none

def litK? : String → Option LitK
  | "uint" => some .uint | "float" => some .float | "int" => some .int | "mlstring" => some .mlstring
  | "string" => some .string | "bytes" => some .bytes | "bool" => some .bool | "null" => some .null | _ => none
def relOp? : String → Option RelOp
  | "lt" => some .lt | "le" => some .le | "gt" => some .gt | "ge" => some .ge | "eq" => some .eq
  | "ne" => some .ne | "in" => some .in_ | _ => none
def addOp? : String → Option AddOp
  | "add" => some .add | "sub" => some .sub | _ => none
def mulOp? : String → Option MulOp
  | "mul" => some .mul | "div" => some .div | "mod" => some .mod | _ => none

mutual
partial def rdE : List String → Option (PExpr × List String)
  | "lit" :: k :: h :: r => do let k ← litK? k; let s ← unhex h; some (.lit k s, r)
  | "ident" :: h :: r => do let s ← unhex h; some (.ident s, r)
  | "dotident" :: h :: r => do let s ← unhex h; some (.dotIdent s, r)
  | "identarg" :: h :: n :: r => do
      let s ← unhex h; let n ← n.toNat?; let (as, r) ← rdArgs n r; some (.identArg s as, r)
  | "dotidentarg" :: h :: n :: r => do
      let s ← unhex h; let n ← n.toNat?; let (as, r) ← rdArgs n r; some (.dotIdentArg s as, r)
  | "paren" :: r => do let (e, r) ← rdE r; some (.paren e, r)
  | "list" :: n :: r => do let n ← n.toNat?; let (as, r) ← rdArgs n r; some (.list as, r)
  | "map" :: n :: r => do let n ← n.toNat?; let (kvs, r) ← rdInits n r; some (.map kvs, r)
  | "dot" :: r => do
      let (e, r) ← rdE r
      match r with
      | h :: r => do let s ← unhex h; some (.dot e s, r)
      | _ => none
  | "dotarg" :: r => do
      let (e, r) ← rdE r
      match r with
      | h :: n :: r => do let s ← unhex h; let n ← n.toNat?; let (as, r) ← rdArgs n r; some (.dotArg e s as, r)
      | _ => none
  | "index" :: r => do let (e, r) ← rdE r; let (i, r) ← rdE r; some (.index e i, r)
  | "obj" :: r => do
      let (e, r) ← rdE r
      match r with
      | n :: r => do let n ← n.toNat?; let (fs, r) ← rdFields n r; some (.obj e fs, r)
      | _ => none
  | "not" :: r => do let (e, r) ← rdE r; some (.not e, r)
  | "neg" :: r => do let (e, r) ← rdE r; some (.neg e, r)
  | "mul" :: o :: r => do let o ← mulOp? o; let (a, r) ← rdE r; let (b, r) ← rdE r; some (.mul o a b, r)
  | "add" :: o :: r => do let o ← addOp? o; let (a, r) ← rdE r; let (b, r) ← rdE r; some (.add o a b, r)
  | "rel" :: o :: r => do let o ← relOp? o; let (a, r) ← rdE r; let (b, r) ← rdE r; some (.rel o a b, r)
  | "and" :: r => do let (a, r) ← rdE r; let (b, r) ← rdE r; some (.and a b, r)
  | "or" :: r => do let (a, r) ← rdE r; let (b, r) ← rdE r; some (.or a b, r)
  | "cond" :: r => do let (c, r) ← rdE r; let (a, r) ← rdE r; let (b, r) ← rdE r; some (.cond c a b, r)
  | _ => none
partial def rdArgs : Nat → List String → Option (PArgs × List String)
  | 0, r => some (.nil, r)
  | n + 1, r => do let (e, r) ← rdE r; let (as, r) ← rdArgs n r; some (.cons e as, r)
partial def rdInits : Nat → List String → Option (PInits × List String)
  | 0, r => some (.nil, r)
  | n + 1, r => do let (k, r) ← rdE r; let (v, r) ← rdE r; let (kvs, r) ← rdInits n r; some (.cons k v kvs, r)
partial def rdFields : Nat → List String → Option (PFields × List String)
  | 0, r => some (.nil, r)
  | n + 1, r =>
      match r with
      | h :: r => do let s ← unhex h; let (v, r) ← rdE r; let (fs, r) ← rdFields n r; some (.cons s v fs, r)
      | _ => none
end

def b01 (b : Bool) : String := if b then "1" else "0"

def showDump (r : PyM Chunk) : String :=
  match r with
  | .ok c => "x" ++ hexOfString c.text
  | .error e => "ERR:" ++ e.name

/-- split a token list at the separator `;` -/
def splitSteps : List String → List (List String)
  | [] => [[]]
  | ";" :: r => [] :: splitSteps r
  | t :: r => match splitSteps r with
    | p :: ps => (t :: p) :: ps
    | [] => [[t]]

def handleE (rest : List String) : String :=
      match rdE rest with
      | some (e, []) =>
          let isWf := wf e
          -- the expression whose tree the token string has: `e` itself when well-formed (theorem
          -- render_derives), otherwise whatever the checked parser finds for the tokens
          let target := if isWf then some e else parse (render e)
          let reparse := match parse (render e), target with
            | some e', some t => b01 ((toTree e').show == (toTree t).show)
            | none, none => "1"
            | _, _ => "0"
          " | ".intercalate [
            "wf=" ++ b01 isWf,
            "el=" ++ (match target with | some t => b01 (hasEmptyList t) | none => "0"),
            "toks=" ++ showToks (render e),
            "fptoks=" ++ showToks (render (fullParen e)),
            "tree=" ++ (match target with | some t => (toTree t).show | none => "none"),
            "strip=" ++ (match target with | some t => (strip (toTree t)).show | none => "none"),
            "fpstrip=" ++ (strip (toTree (fullParen e))).show,
            "dump=" ++ (match target with | some t => showDump (dump (toTree t)) | none => "none"),
            "reparse=" ++ reparse]
      | _ => "bad-op"

def handle : Handler
  | "E" :: rest => handleE rest
  -- a sequence of expressions parsed one after the other: the model is a function of the token string
  -- alone (no state between calls), so the answer is the list of the single answers
  | "S" :: rest => " ;; ".intercalate ((splitSteps rest).map handleE)
  | "P" :: rest =>
      match rest.mapM readTok with
      | some ts => (match parse ts with | some e => "tree=" ++ (toTree e).show | none => "none")
      | none => "bad-op"
  | ["W", pos, h] =>
      -- how a word is typed in an expression position / after `.` / as a field name, and whether the
      -- parser accepts that terminal there
      let acc? : Option (List TK) := match pos with
        | "primary" => identAcceptSets.find? (fun a => a.contains .LPAR && !a.contains .RPAR && !a.contains .RSQB && !a.contains .RBRACE)
        | "dot" => identAcceptSets.find? (fun a => a == [.IDENT])
        | "field" => identAcceptSets.find? (fun a => a == [.RBRACE, .IDENT])
        | _ => none
      match acc?, unhex h with
      | some acc, some w =>
          (match lexWord acc w with
           | some k => if acc.contains k then "type=" ++ mn k else "parse-error"
           | none => "parse-error")
      | _, _ => "bad-op"
  | _ => "bad-op"

end Cel.Drv.C06
