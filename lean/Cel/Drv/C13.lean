import Cel.Drv.Val
import Cel.Model.Typing
namespace Cel.Drv.C13
open Cel Cel.Drv

/-! concrete payload functions for the driver: IEEE arithmetic through the runtime's `Float`; conversions are
exact where cheap and otherwise succeed with a placeholder payload (only the class is compared) -/

def bitsOfDbl : Dbl → UInt64
  | .nan => 0x7FF8000000000000
  | .num k nz =>
      if nz then 0x8000000000000000
      else if k ≥ 0 then k.toNat.toUInt64 else (2^63 + (-k).toNat).toUInt64
def toF (d : Dbl) : Float := Float.ofBits (bitsOfDbl d)
def ofF (x : Float) : Dbl := if x.isNaN then .nan else dblOfBits x.toBits.toNat

def truncF? (x : Float) : Option Int :=
  if x.isNaN || x.isInf then none
  else
    let t := if x ≥ 0 then x.floor else x.ceil
    if t ≥ 9.3e18 || t ≤ -9.3e18 then
      -- beyond int64 either way; keep the sign and a magnitude outside both ranges
      some (if t > 0 then (2:Int)^70 else -(2:Int)^70)
    else some t.toInt64.toInt

def digitsToNat? (cs : List Nat) : Option Nat :=
  if cs.isEmpty then none
  else cs.foldlM (fun acc c => if 48 ≤ c ∧ c ≤ 57 then some (acc * 10 + (c - 48)) else none) 0
def parseDec? (cs : List Nat) : Option Int :=
  match cs with
  | 45 :: rest => (digitsToNat? rest).map fun n => -(n : Int)
  | _ => (digitsToNat? cs).map fun n => (n : Int)

def natDigits (n : Nat) : List Nat := (toString n).toList.map (·.toNat)
def intDigits (i : Int) : List Nat := (toString i).toList.map (·.toNat)

def prims : Prims where
  dAdd x y := ofF (toF x + toF y)
  dSub x y := ofF (toF x - toF y)
  dMul x y := ofF (toF x * toF y)
  dDiv x y := ofF (toF x / toF y)
  dNeg x := ofF (-(toF x))
  toInt v := match v with
    | .int i => .ok i
    | .uint n => int64 n
    | .dbl d => match truncF? (toF d) with | some t => int64 t | none => .error .valueError
    | .str s => match parseDec? s with | some i => int64 i | none => .ok 0
    | .ts us _ => int64 (us.tdiv 1000000)
    | _ => .ok 0
  toUint v := match v with
    | .uint n => .ok n
    | .int i => uint64 i
    | .dbl d => match truncF? (toF d) with | some t => uint64 t | none => .error .valueError
    | .str s => match parseDec? s with | some i => uint64 i | none => .ok 0
    | _ => .ok 0
  toDbl v := match v with
    | .dbl d => .ok d
    | .int i => .ok (ofF (Float.ofInt i))
    | .uint n => .ok (ofF (Float.ofInt n))
    | _ => .ok (.num 0 false)
  toStr v := match v with
    | .str s => .ok s
    | .int i => .ok (intDigits i)
    | .uint n => .ok (intDigits n)
    | .bytes b => .ok b
    | _ => .ok [48]
  toBytes v := match v with
    | .bytes b => .ok b
    | .str s => .ok s
    | _ => .ok []
  toBool v := match v with
    | .bool b => .ok b
    | .str s => .ok (s == "true".toList.map (·.toNat) || s == "True".toList.map (·.toNat) || s == "TRUE".toList.map (·.toNat) || s == [116])
    | _ => .ok false
  toDur v := match v with
    | .dur us => .ok us
    | _ => .ok 0
  toTs v := match v with
    | .ts us off => .ok (us, off)
    | _ => .ok (0, 0)
  getter _ _ _ := .ok 1   -- placeholder (never 0: a divisor)
  strPred p s t := .ok (match p with
    | 0 => t.isPrefixOf s
    | 1 => t.reverse.isPrefixOf s.reverse
    | _ => t.isEmpty || (List.range (s.length + 1)).any (fun i => t.isPrefixOf (s.drop i)))

def arOpOfName? : String → Option ArOp
  | "add" => some .add | "sub" => some .sub | "mul" => some .mul | "div" => some .div | "mod" => some .mod
  | _ => none

partial def parseE : List String → Option (TExpr × List String)
  | "lit" :: rest => do let (v, r) ← parseVal rest; pure (.lit v, r)
  | "neg" :: rest => do let (a, r) ← parseE rest; pure (.neg a, r)
  | "bin" :: op :: rest => do
      let op ← arOpOfName? op; let (a, r1) ← parseE rest; let (b, r2) ← parseE r1; pure (.bin op a b, r2)
  | "rel" :: op :: rest => do
      let op ← relOpOfName? op; let (a, r1) ← parseE rest; let (b, r2) ← parseE r1; pure (.rel op a b, r2)
  | "in" :: rest => do let (a, r1) ← parseE rest; let (b, r2) ← parseE r1; pure (.isIn a b, r2)
  | "not" :: rest => do let (a, r) ← parseE rest; pure (.not a, r)
  | "and" :: rest => do let (a, r1) ← parseE rest; let (b, r2) ← parseE r1; pure (.and a b, r2)
  | "or" :: rest => do let (a, r1) ← parseE rest; let (b, r2) ← parseE r1; pure (.or a b, r2)
  | "cond" :: rest => do
      let (g, r1) ← parseE rest; let (a, r2) ← parseE r1; let (b, r3) ← parseE r2; pure (.cond g a b, r3)
  | "conv" :: c :: rest => do let c ← clsOfName? c; let (a, r) ← parseE rest; pure (.conv c a, r)
  | "type" :: rest => do let (a, r) ← parseE rest; pure (.typeOf a, r)
  | "size" :: rest => do let (a, r) ← parseE rest; pure (.size a, r)
  | "pred" :: k :: rest => do
      let k ← k.toNat?; let (a, r1) ← parseE rest; let (b, r2) ← parseE r1; pure (.strPred k a b, r2)
  | "get" :: k :: tz :: rest => do
      let k ← k.toNat?; let tz ← tz.toNat?
      let (e, r1) ← parseE rest
      if tz == 0 then pure (.getter k e none, r1)
      else match r1 with
        | n :: r2 => do let n ← n.toNat?; let (cs, r3) ← takeNats n r2; pure (.getter k e (some cs), r3)
        | [] => none
  | "has" :: rest => do
      let (m, r1) ← parseE rest
      match r1 with
      | n :: r2 => do let n ← n.toNat?; let (cs, r3) ← takeNats n r2; pure (.has m cs, r3)
      | [] => none
  | "mac" :: k :: n :: rest => do
      let k ← k.toNat?; let n ← n.toNat?; let (es, r) ← parseEs n rest; pure (.macroBool k es, r)
  | "list" :: n :: rest => do let n ← n.toNat?; let (es, r) ← parseEs n rest; pure (.listLit es, r)
  | "lmac" :: f :: n :: rest => do
      let n ← n.toNat?; let (vs, r1) ← parseVals n rest; let (es, r2) ← parseEs n r1
      pure (.macroList (f == "1") vs es, r2)
  | _ => none
where
  parseEs : Nat → List String → Option (List TExpr × List String)
    | 0, rest => some ([], rest)
    | n+1, rest => do let (x, r1) ← parseE rest; let (xs, r2) ← parseEs n r1; pure (x :: xs, r2)

def nameOrder : List Cls := [.int, .uint, .dbl, .bool, .str, .bytes, .list, .map, .null, .ts, .dur, .type]

/-- `type(v) == T` for the twelve names, as the relation rule reports it -/
def typeVector (v : Val) : String :=
  String.join (nameOrder.map fun c =>
    match pyRel cmpSpecs .eq (typeFn v) (.type c) with
    | .ok true => "T" | .ok false => "F" | .error _ => "E")

def handle : Handler
  | "ev" :: runner :: rest =>
      match parseE rest with
      | some (e, []) =>
          let r : Runner := if runner == "C" then .C else .I
          let ty := match typeOfE e with | some t => Cls.name t | none => "untyped"
          match evalT ⟨prims, resTable, cmpSpecs, wrapSpec, r⟩ e with
          | .ok v =>
              let b := match v with | .bool true => "1" | .bool false => "0" | _ => "-"
              s!"ok {Cls.name (clsOf v)} {typeVector v} ty={ty} has={if usesHas e then 1 else 0} b={b}"
          | .error _ => s!"err ty={ty} has={if usesHas e then 1 else 0}"
      | _ => "bad-op"
  | _ => "bad-op"

end Cel.Drv.C13
