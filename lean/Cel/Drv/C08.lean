import Cel.Drv.Val
namespace Cel.Drv.C08
open Cel Cel.Drv

def allOps : List RelOp := [.eq, .ne, .lt, .le, .gt, .ge]

/-- one character per evaluation: T/F value (class bool), t/f value of a degraded class, E error, X escape, N model has no say -/
def showOut (r : PyM Bool) (o : RelOut) : String :=
  match r with
  | .error .other => "N"
  | _ => match o with
    | .val true .bool => "T" | .val false .bool => "F"
    | .val true _ => "t" | .val false _ => "f"
    | .err => "E" | .escapes _ => "X"

def evalRel (runner : String) (op : RelOp) (a b : Val) : String :=
  let r := pyRel cmpSpecs (relRoute op) a b
  let o := if runner == "C" then relC cmpSpecs relRoute booleanSpec op a b
           else relI cmpSpecs relRoute booleanSpec handlersRelation op a b
  showOut r o

/-- all ordered pairs (i, j) of the values × the six relations -/
def matrix (runner : String) (vs : List Val) : String :=
  let idx := List.range vs.length
  let cells := idx.flatMap fun i => idx.map fun j =>
    let a := vs.getD i .null; let b := vs.getD j .null
    s!"{i}{j}:" ++ String.join (allOps.map fun op => evalRel runner op a b)
  " ".intercalate cells

def showB (b : Bool) : String := if b then "1" else "0"

def handle : Handler
  | "rel" :: runner :: op :: rest =>
      match relOpOfName? op, parseVals 2 rest with
      | some op, some ([a, b], []) => evalRel runner op a b
      | _, _ => "bad-op"
  | "laws" :: runner :: n :: rest =>
      match n.toNat? with
      | some n => match parseVals n rest with
        | some (vs, []) => matrix runner vs
        | _ => "bad-op"
      | none => "bad-op"
  -- classification used by the harness: wf / plain / sameType of a pair
  | "class" :: rest =>
      match parseVals 2 rest with
      | some ([a, b], []) => s!"wf={showB a.wf}{showB b.wf} plain={showB a.plain}{showB b.plain} same={showB (sameType a b && sameType b a)}"
      | _ => "bad-op"
  | _ => "bad-op"

end Cel.Drv.C08
