/-
  Cel.Lemmas.Grammar — helper lemmas about the CEL grammar model (Cel.Model.Grammar):
  derivation building blocks, the level-generalised rendering lemma (`render_core`),
  `strip`/`abs`, `fullParen`.
-/
import Cel.Model.Grammar
namespace Cel.Grammar

theorem Derives.anon (k : TK) (h : k.named = false) : Derives (.t k) [Tok.a k] [] := .tokDrop k h
theorem Derives.kept (k : TK) (s : String) (h : k.named = true) : Derives (.t k) [⟨k, s⟩] [.leaf k s] := .tokKeep k s h

theorem DerivesSeq.cons' {x xs ts1 ts2 cs1 cs2 ts cs} (h1 : Derives x ts1 cs1) (h2 : DerivesSeq xs ts2 cs2)
    (e1 : ts = ts1 ++ ts2) (e2 : cs = cs1 ++ cs2) : DerivesSeq (x :: xs) ts cs := by
  subst e1 e2; exact .cons _ _ _ _ _ _ h1 h2

theorem DerivesSeq.one {x ts cs} (h : Derives x ts cs) : DerivesSeq [x] ts cs :=
  .cons' h .nil (by simp) (by simp)

theorem unit_prod (m : Nat) (h : m < 8) : (ntOf m, [Sym.n (ntOf (m + 1))]) ∈ productions := by
  have : m = 0 ∨ m = 1 ∨ m = 2 ∨ m = 3 ∨ m = 4 ∨ m = 5 ∨ m = 6 ∨ m = 7 := by omega
  rcases this with rfl | rfl | rfl | rfl | rfl | rfl | rfl | rfl <;> decide

theorem ntOf_inline (m : Nat) : (ntOf m).inline = false := by
  unfold ntOf; split <;> rfl

theorem wrap_derives (n : Nat) : ∀ (m : Nat) (ts : List Tok) (t : Tree), m + n ≤ 8 →
    Derives (.n (ntOf (m + n))) ts [t] → Derives (.n (ntOf m)) ts [wrapUp n m t] := by
  induction n with
  | zero => intro m ts t _ h; simpa [wrapUp] using h
  | succ n ih =>
    intro m ts t hle h
    have h' : Derives (.n (ntOf (m + 1))) ts [wrapUp n (m + 1) t] :=
      ih (m + 1) ts t (by omega) (by simpa [Nat.add_assoc, Nat.add_comm 1 n] using h)
    exact .rule _ _ _ _ (unit_prod m (by omega)) (.one h') (ntOf_inline m)

theorem level_le (e : PExpr) : level e ≤ 8 := by
  cases e <;> simp [level]

theorem at_of_core (e : PExpr) (m : Nat) (hm : m ≤ level e)
    (h : Derives (.n (ntOf (level e))) (render e) [core e]) :
    Derives (.n (ntOf m)) (render e) [wrapUp (level e - m) m (core e)] := by
  have hl := level_le e
  apply wrap_derives (level e - m) m _ _ (by omega)
  have : m + (level e - m) = level e := by omega
  rw [this]; exact h

/-- `primary → X` then the tree `primary [t]` -/
theorem prim_of {x : NT} {ts t} (hp : (NT.primary, [Sym.n x]) ∈ productions)
    (h : Derives (.n x) ts [t]) : Derives (.n .primary) ts [.node .primary [t]] :=
  .rule _ _ _ _ hp (.one h) rfl
theorem memb_of {x : NT} {ts t} (hp : (NT.member, [Sym.n x]) ∈ productions)
    (h : Derives (.n x) ts [t]) : Derives (.n .member) ts [.node .member [t]] :=
  .rule _ _ _ _ hp (.one h) rfl

theorem relop_prod (op : RelOp) : (op.nt, [Sym.n .relation, .t op.tk]) ∈ productions ∧
    (NT.relation, [Sym.n op.nt, .n .addition]) ∈ productions ∧ op.nt.inline = false ∧ op.tk.named = false := by
  cases op <;> decide
theorem addop_prod (op : AddOp) : (op.nt, [Sym.n .addition, .t op.tk]) ∈ productions ∧
    (NT.addition, [Sym.n op.nt, .n .multiplication]) ∈ productions ∧ op.nt.inline = false ∧ op.tk.named = false := by
  cases op <;> decide
theorem mulop_prod (op : MulOp) : (op.nt, [Sym.n .multiplication, .t op.tk]) ∈ productions ∧
    (NT.multiplication, [Sym.n op.nt, .n .unary]) ∈ productions ∧ op.nt.inline = false ∧ op.tk.named = false := by
  cases op <;> decide
theorem lit_prod (k : LitK) : (NT.literal, [Sym.t k.tk]) ∈ productions ∧ k.tk.named = true := by
  cases k <;> decide


theorem star_base_args {ts t} (E : Derives (.n .expr) ts [t]) :
    Derives (.n .exprlist_star) (.a .COMMA :: ts) [t] :=
  .ruleInline .exprlist_star [.t .COMMA, .n .expr] _ _ (by decide)
    (.cons' (.anon .COMMA rfl) (.one E) rfl rfl) rfl

theorem star_step_args {ts0 cs0 ts t} (h : Derives (.n .exprlist_star) ts0 cs0) (E : Derives (.n .expr) ts [t]) :
    Derives (.n .exprlist_star) (ts0 ++ (.a .COMMA :: ts)) (cs0 ++ [t]) :=
  .ruleInline .exprlist_star [.n .exprlist_star, .t .COMMA, .n .expr] _ _ (by decide)
    (.cons' h (.cons' (.anon .COMMA rfl) (.one E) rfl rfl) (by simp) (by simp)) rfl

theorem star_base_inits {tk tv k v} (K : Derives (.n .expr) tk [k]) (V : Derives (.n .expr) tv [v]) :
    Derives (.n .mapinits_star) (.a .COMMA :: (tk ++ (.a .COLON :: tv))) [k, v] :=
  .ruleInline .mapinits_star [.t .COMMA, .n .expr, .t .COLON, .n .expr] _ _ (by decide)
    (.cons' (.anon .COMMA rfl) (.cons' K (.cons' (.anon .COLON rfl) (.one V) rfl rfl) rfl rfl) (by simp) (by simp)) rfl

theorem star_step_inits {ts0 cs0 tk tv k v} (h : Derives (.n .mapinits_star) ts0 cs0)
    (K : Derives (.n .expr) tk [k]) (V : Derives (.n .expr) tv [v]) :
    Derives (.n .mapinits_star) (ts0 ++ (.a .COMMA :: (tk ++ (.a .COLON :: tv)))) (cs0 ++ [k, v]) :=
  .ruleInline .mapinits_star [.n .mapinits_star, .t .COMMA, .n .expr, .t .COLON, .n .expr] _ _ (by decide)
    (.cons' h (.cons' (.anon .COMMA rfl) (.cons' K (.cons' (.anon .COLON rfl) (.one V) rfl rfl) rfl rfl) rfl rfl)
      (by simp) (by simp)) rfl

theorem star_base_fields {n tv v} (V : Derives (.n .expr) tv [v]) :
    Derives (.n .fieldinits_star) (.a .COMMA :: ⟨.IDENT, n⟩ :: .a .COLON :: tv) [.leaf .IDENT n, v] :=
  .ruleInline .fieldinits_star [.t .COMMA, .t .IDENT, .t .COLON, .n .expr] _ _ (by decide)
    (.cons' (.anon .COMMA rfl) (.cons' (.kept .IDENT n rfl) (.cons' (.anon .COLON rfl) (.one V) rfl rfl) rfl rfl)
      (by simp) (by simp)) rfl

theorem star_step_fields {ts0 cs0 n tv v} (h : Derives (.n .fieldinits_star) ts0 cs0) (V : Derives (.n .expr) tv [v]) :
    Derives (.n .fieldinits_star) (ts0 ++ (.a .COMMA :: ⟨.IDENT, n⟩ :: .a .COLON :: tv)) (cs0 ++ [.leaf .IDENT n, v]) :=
  .ruleInline .fieldinits_star [.n .fieldinits_star, .t .COMMA, .t .IDENT, .t .COLON, .n .expr] _ _ (by decide)
    (.cons' h (.cons' (.anon .COMMA rfl) (.cons' (.kept .IDENT n rfl) (.cons' (.anon .COLON rfl) (.one V) rfl rfl) rfl rfl) rfl rfl)
      (by simp) (by simp)) rfl

mutual
theorem render_core : (e : PExpr) → wf e = true → Derives (.n (ntOf (level e))) (render e) [core e]
  | .lit k s, _ => by
      exact prim_of (by decide) (.rule _ _ _ _ (lit_prod k).1 (.one (.kept _ _ (lit_prod k).2)) rfl)
  | .ident s, _ => by
      exact prim_of (by decide) (.rule .ident _ _ _ (by decide) (.one (.kept .IDENT s rfl)) rfl)
  | .dotIdent s, _ => by
      exact prim_of (by decide) (.rule .dot_ident [.t .DOT, .t .IDENT] _ _ (by decide)
        (.cons' (.anon .DOT rfl) (.one (.kept .IDENT s rfl)) rfl rfl) rfl)
  | .identArg s .nil, _ => by
      exact prim_of (by decide) (.rule .ident_arg [.t .IDENT, .t .LPAR, .t .RPAR] _ _ (by decide)
        (.cons' (.kept .IDENT s rfl) (.cons' (.anon .LPAR rfl) (.one (.anon .RPAR rfl)) rfl rfl) rfl rfl) rfl)
  | .identArg s (.cons e r), h => by
      have A := exprlist_derives (.cons e r) (by simpa [wf] using h) (by simp)
      exact prim_of (by decide) (.rule .ident_arg [.t .IDENT, .t .LPAR, .n .exprlist, .t .RPAR] _ _ (by decide)
        (.cons' (.kept .IDENT s rfl) (.cons' (.anon .LPAR rfl) (.cons' A (.one (.anon .RPAR rfl)) rfl rfl) rfl rfl)
          (by simp [render]) (by simp [exprlistOpt])) rfl)
  | .dotIdentArg s .nil, _ => by
      exact prim_of (by decide) (.rule .dot_ident_arg [.t .DOT, .t .IDENT, .t .LPAR, .t .RPAR] _ _ (by decide)
        (.cons' (.anon .DOT rfl) (.cons' (.kept .IDENT s rfl) (.cons' (.anon .LPAR rfl) (.one (.anon .RPAR rfl)) rfl rfl) rfl rfl) rfl rfl) rfl)
  | .dotIdentArg s (.cons e r), h => by
      have A := exprlist_derives (.cons e r) (by simpa [wf] using h) (by simp)
      exact prim_of (by decide) (.rule .dot_ident_arg [.t .DOT, .t .IDENT, .t .LPAR, .n .exprlist, .t .RPAR] _ _ (by decide)
        (.cons' (.anon .DOT rfl) (.cons' (.kept .IDENT s rfl) (.cons' (.anon .LPAR rfl) (.cons' A (.one (.anon .RPAR rfl)) rfl rfl) rfl rfl) rfl rfl)
          (by simp [render]) (by simp [exprlistOpt])) rfl)
  | .paren e, h => by
      have E := at_of_core e 0 (Nat.zero_le _) (render_core e (by simpa [wf] using h))
      exact prim_of (by decide) (.rule .paren_expr [.t .LPAR, .n .expr, .t .RPAR] _ _ (by decide)
        (.cons' (.anon .LPAR rfl) (.cons' E (.one (.anon .RPAR rfl)) rfl rfl) (by simp [render]) (by simp)) rfl)
  | .list .nil, _ => by
      exact prim_of (by decide) (.rule .list_lit [.t .LSQB, .t .RSQB] _ _ (by decide)
        (.cons' (.anon .LSQB rfl) (.one (.anon .RSQB rfl)) rfl rfl) rfl)
  | .list (.cons e r), h => by
      have A := exprlist_derives (.cons e r) (by simpa [wf] using h) (by simp)
      exact prim_of (by decide) (.rule .list_lit [.t .LSQB, .n .exprlist, .t .RSQB] _ _ (by decide)
        (.cons' (.anon .LSQB rfl) (.cons' A (.one (.anon .RSQB rfl)) rfl rfl) (by simp [render]) (by simp [exprlistOpt])) rfl)
  | .map .nil, _ => by
      exact prim_of (by decide) (.rule .map_lit [.t .LBRACE, .t .RBRACE] _ _ (by decide)
        (.cons' (.anon .LBRACE rfl) (.one (.anon .RBRACE rfl)) rfl rfl) rfl)
  | .map (.cons k v r), h => by
      have A := mapinits_derives (.cons k v r) (by simpa [wf] using h) (by simp)
      exact prim_of (by decide) (.rule .map_lit [.t .LBRACE, .n .mapinits, .t .RBRACE] _ _ (by decide)
        (.cons' (.anon .LBRACE rfl) (.cons' A (.one (.anon .RBRACE rfl)) rfl rfl) (by simp [render]) (by simp [mapinitsOpt])) rfl)
  | .dot e n, h => by
      simp [wf] at h
      have E := at_of_core e 7 h.2 (render_core e h.1)
      exact memb_of (by decide) (.rule .member_dot [.n .member, .t .DOT, .t .IDENT] _ _ (by decide)
        (.cons' E (.cons' (.anon .DOT rfl) (.one (.kept .IDENT n rfl)) rfl rfl) (by simp [render]) (by simp)) rfl)
  | .dotArg e n .nil, h => by
      simp [wf, wfArgs] at h
      have E := at_of_core e 7 h.2 (render_core e h.1)
      exact memb_of (by decide) (.rule .member_dot_arg [.n .member, .t .DOT, .t .IDENT, .t .LPAR, .t .RPAR] _ _ (by decide)
        (.cons' E (.cons' (.anon .DOT rfl) (.cons' (.kept .IDENT n rfl) (.cons' (.anon .LPAR rfl) (.one (.anon .RPAR rfl)) rfl rfl) rfl rfl) rfl rfl)
          (by simp [render, renderArgs]) (by simp [exprlistOpt])) rfl)
  | .dotArg e n (.cons e1 r), h => by
      simp [wf] at h
      have E := at_of_core e 7 h.1.2 (render_core e h.1.1)
      have A := exprlist_derives (.cons e1 r) h.2 (by simp)
      exact memb_of (by decide) (.rule .member_dot_arg [.n .member, .t .DOT, .t .IDENT, .t .LPAR, .n .exprlist, .t .RPAR] _ _ (by decide)
        (.cons' E (.cons' (.anon .DOT rfl) (.cons' (.kept .IDENT n rfl) (.cons' (.anon .LPAR rfl) (.cons' A (.one (.anon .RPAR rfl)) rfl rfl) rfl rfl) rfl rfl) rfl rfl)
          (by simp [render]) (by simp [exprlistOpt])) rfl)
  | .index e i, h => by
      simp [wf] at h
      have E := at_of_core e 7 h.1.2 (render_core e h.1.1)
      have I := at_of_core i 0 (Nat.zero_le _) (render_core i h.2)
      exact memb_of (by decide) (.rule .member_index [.n .member, .t .LSQB, .n .expr, .t .RSQB] _ _ (by decide)
        (.cons' E (.cons' (.anon .LSQB rfl) (.cons' I (.one (.anon .RSQB rfl)) rfl rfl) rfl rfl)
          (by simp [render]) (by simp)) rfl)
  | .obj e .nil, h => by
      simp [wf, wfFields] at h
      have E := at_of_core e 7 h.2 (render_core e h.1)
      exact memb_of (by decide) (.rule .member_object [.n .member, .t .LBRACE, .t .RBRACE] _ _ (by decide)
        (.cons' E (.cons' (.anon .LBRACE rfl) (.one (.anon .RBRACE rfl)) rfl rfl)
          (by simp [render, renderFields]) (by simp [fieldinitsOpt])) rfl)
  | .obj e (.cons n v r), h => by
      simp [wf] at h
      have E := at_of_core e 7 h.1.2 (render_core e h.1.1)
      have A := fieldinits_derives (.cons n v r) h.2 (by simp)
      exact memb_of (by decide) (.rule .member_object [.n .member, .t .LBRACE, .n .fieldinits, .t .RBRACE] _ _ (by decide)
        (.cons' E (.cons' (.anon .LBRACE rfl) (.cons' A (.one (.anon .RBRACE rfl)) rfl rfl) rfl rfl)
          (by simp [render]) (by simp [fieldinitsOpt])) rfl)
  | .not e, h => by
      simp [wf] at h
      have E := at_of_core e 6 h.2 (render_core e h.1)
      have N : Derives (.n .unary_not) [.a .BANG] [.node .unary_not []] :=
        .rule .unary_not [.t .BANG] _ _ (by decide) (.one (.anon .BANG rfl)) rfl
      exact .rule .unary [.n .unary_not, .n .unary] _ _ (by decide)
        (.cons' N (.one E) (by simp [render]) (by simp)) rfl
  | .neg e, h => by
      simp [wf] at h
      have E := at_of_core e 6 h.2 (render_core e h.1)
      have N : Derives (.n .unary_neg) [.a .MINUS] [.node .unary_neg []] :=
        .rule .unary_neg [.t .MINUS] _ _ (by decide) (.one (.anon .MINUS rfl)) rfl
      exact .rule .unary [.n .unary_neg, .n .unary] _ _ (by decide)
        (.cons' N (.one E) (by simp [render]) (by simp)) rfl
  | .mul op a b, h => by
      simp [wf] at h
      have A := at_of_core a 5 h.1.1.2 (render_core a h.1.1.1)
      have B := at_of_core b 6 h.2 (render_core b h.1.2)
      obtain ⟨p1, p2, p3, p4⟩ := mulop_prod op
      have L : Derives (.n op.nt) (render a ++ [.a op.tk]) [.node op.nt [wrapUp (level a - 5) 5 (core a)]] :=
        .rule _ _ _ _ p1 (.cons' A (.one (.anon _ p4)) rfl (by simp)) p3
      exact .rule .multiplication _ _ _ p2 (.cons' L (.one B) (by simp [render]) (by simp)) rfl
  | .add op a b, h => by
      simp [wf] at h
      have A := at_of_core a 4 h.1.1.2 (render_core a h.1.1.1)
      have B := at_of_core b 5 h.2 (render_core b h.1.2)
      obtain ⟨p1, p2, p3, p4⟩ := addop_prod op
      have L : Derives (.n op.nt) (render a ++ [.a op.tk]) [.node op.nt [wrapUp (level a - 4) 4 (core a)]] :=
        .rule _ _ _ _ p1 (.cons' A (.one (.anon _ p4)) rfl (by simp)) p3
      exact .rule .addition _ _ _ p2 (.cons' L (.one B) (by simp [render]) (by simp)) rfl
  | .rel op a b, h => by
      simp [wf] at h
      have A := at_of_core a 3 h.1.1.2 (render_core a h.1.1.1)
      have B := at_of_core b 4 h.2 (render_core b h.1.2)
      obtain ⟨p1, p2, p3, p4⟩ := relop_prod op
      have L : Derives (.n op.nt) (render a ++ [.a op.tk]) [.node op.nt [wrapUp (level a - 3) 3 (core a)]] :=
        .rule _ _ _ _ p1 (.cons' A (.one (.anon _ p4)) rfl (by simp)) p3
      exact .rule .relation _ _ _ p2 (.cons' L (.one B) (by simp [render]) (by simp)) rfl
  | .and a b, h => by
      simp [wf] at h
      have A := at_of_core a 2 h.1.1.2 (render_core a h.1.1.1)
      have B := at_of_core b 3 h.2 (render_core b h.1.2)
      exact .rule .conditionaland [.n .conditionaland, .t .ANDAND, .n .relation] _ _ (by decide)
        (.cons' A (.cons' (.anon .ANDAND rfl) (.one B) rfl rfl) (by simp [render]) (by simp)) rfl
  | .or a b, h => by
      simp [wf] at h
      have A := at_of_core a 1 h.1.1.2 (render_core a h.1.1.1)
      have B := at_of_core b 2 h.2 (render_core b h.1.2)
      exact .rule .conditionalor [.n .conditionalor, .t .OROR, .n .conditionaland] _ _ (by decide)
        (.cons' A (.cons' (.anon .OROR rfl) (.one B) rfl rfl) (by simp [render]) (by simp)) rfl
  | .cond c a b, h => by
      simp [wf] at h
      have C := at_of_core c 1 h.1.1.1.2 (render_core c h.1.1.1.1)
      have A := at_of_core a 1 h.1.2 (render_core a h.1.1.2)
      have B := at_of_core b 0 (Nat.zero_le _) (render_core b h.2)
      exact .rule .expr [.n .conditionalor, .t .QMARK, .n .conditionalor, .t .COLON, .n .expr] _ _ (by decide)
        (.cons' C (.cons' (.anon .QMARK rfl) (.cons' A (.cons' (.anon .COLON rfl) (.one B) rfl rfl) rfl rfl) rfl rfl)
          (by simp [render]) (by simp)) rfl
theorem exprlist_derives : (as : PArgs) → wfArgs as = true → as ≠ .nil →
    Derives (.n .exprlist) (renderArgs as) (exprlistOpt as)
  | .nil, _, hne => absurd rfl hne
  | .cons e r, h, _ => by
      simp [wfArgs] at h
      have E := at_of_core e 0 (Nat.zero_le _) (render_core e h.1)
      cases r with
      | nil =>
        exact .rule .exprlist [.n .expr] _ _ (by decide)
          (.cons' E .nil (by simp [renderArgs, renderArgsTail]) (by simp [argTrees])) rfl
      | cons e2 r2 =>
        simp [wfArgs] at h
        have E2 := at_of_core e2 0 (Nat.zero_le _) (render_core e2 h.2.1)
        have S := args_star r2 h.2.2 _ _ (star_base_args E2)
        exact .rule .exprlist [.n .expr, .n .exprlist_star] _ _ (by decide)
          (.cons' E (.one S) (by simp [renderArgs, renderArgsTail]) (by simp [argTrees])) rfl
theorem args_star : (r : PArgs) → wfArgs r = true → ∀ ts cs, Derives (.n .exprlist_star) ts cs →
    Derives (.n .exprlist_star) (ts ++ renderArgsTail r) (cs ++ argTrees r)
  | .nil, _, ts, cs, h => by simpa [renderArgsTail, argTrees] using h
  | .cons e r, hw, ts, cs, h => by
      simp [wfArgs] at hw
      have E := at_of_core e 0 (Nat.zero_le _) (render_core e hw.1)
      have := args_star r hw.2 _ _ (star_step_args h E)
      simpa [renderArgsTail, argTrees, List.append_assoc] using this
theorem mapinits_derives : (kvs : PInits) → wfInits kvs = true → kvs ≠ .nil →
    Derives (.n .mapinits) (renderInits kvs) (mapinitsOpt kvs)
  | .nil, _, hne => absurd rfl hne
  | .cons k v r, h, _ => by
      simp [wfInits] at h
      have K := at_of_core k 0 (Nat.zero_le _) (render_core k h.1.1)
      have V := at_of_core v 0 (Nat.zero_le _) (render_core v h.1.2)
      cases r with
      | nil =>
        exact .rule .mapinits [.n .expr, .t .COLON, .n .expr] _ _ (by decide)
          (.cons' K (.cons' (.anon .COLON rfl) (.one V) rfl rfl) (by simp [renderInits, renderInitsTail]) (by simp [initTrees])) rfl
      | cons k2 v2 r2 =>
        simp [wfInits] at h
        have K2 := at_of_core k2 0 (Nat.zero_le _) (render_core k2 h.2.1.1)
        have V2 := at_of_core v2 0 (Nat.zero_le _) (render_core v2 h.2.1.2)
        have S := inits_star r2 h.2.2 _ _ (star_base_inits K2 V2)
        exact .rule .mapinits [.n .expr, .t .COLON, .n .expr, .n .mapinits_star] _ _ (by decide)
          (.cons' K (.cons' (.anon .COLON rfl) (.cons' V (.one S) rfl rfl) rfl rfl)
            (by simp [renderInits, renderInitsTail]) (by simp [initTrees])) rfl
theorem inits_star : (r : PInits) → wfInits r = true → ∀ ts cs, Derives (.n .mapinits_star) ts cs →
    Derives (.n .mapinits_star) (ts ++ renderInitsTail r) (cs ++ initTrees r)
  | .nil, _, ts, cs, h => by simpa [renderInitsTail, initTrees] using h
  | .cons k v r, hw, ts, cs, h => by
      simp [wfInits] at hw
      have K := at_of_core k 0 (Nat.zero_le _) (render_core k hw.1.1)
      have V := at_of_core v 0 (Nat.zero_le _) (render_core v hw.1.2)
      have := inits_star r hw.2 _ _ (star_step_inits h K V)
      simpa [renderInitsTail, initTrees, List.append_assoc] using this
theorem fieldinits_derives : (fs : PFields) → wfFields fs = true → fs ≠ .nil →
    Derives (.n .fieldinits) (renderFields fs) (fieldinitsOpt fs)
  | .nil, _, hne => absurd rfl hne
  | .cons n v r, h, _ => by
      simp [wfFields] at h
      have V := at_of_core v 0 (Nat.zero_le _) (render_core v h.1)
      cases r with
      | nil =>
        exact .rule .fieldinits [.t .IDENT, .t .COLON, .n .expr] _ _ (by decide)
          (.cons' (.kept .IDENT n rfl) (.cons' (.anon .COLON rfl) (.one V) rfl rfl)
            (by simp [renderFields, renderFieldsTail]) (by simp [fieldTrees])) rfl
      | cons n2 v2 r2 =>
        simp [wfFields] at h
        have V2 := at_of_core v2 0 (Nat.zero_le _) (render_core v2 h.2.1)
        have S := fields_star r2 h.2.2 _ _ (star_base_fields (n := n2) V2)
        exact .rule .fieldinits [.t .IDENT, .t .COLON, .n .expr, .n .fieldinits_star] _ _ (by decide)
          (.cons' (.kept .IDENT n rfl) (.cons' (.anon .COLON rfl) (.cons' V (.one S) rfl rfl) rfl rfl)
            (by simp [renderFields, renderFieldsTail]) (by simp [fieldTrees])) rfl
theorem fields_star : (r : PFields) → wfFields r = true → ∀ ts cs, Derives (.n .fieldinits_star) ts cs →
    Derives (.n .fieldinits_star) (ts ++ renderFieldsTail r) (cs ++ fieldTrees r)
  | .nil, _, ts, cs, h => by simpa [renderFieldsTail, fieldTrees] using h
  | .cons n v r, hw, ts, cs, h => by
      simp [wfFields] at hw
      have V := at_of_core v 0 (Nat.zero_le _) (render_core v hw.1)
      have := fields_star r hw.2 _ _ (star_step_fields (n := n) h V)
      simpa [renderFieldsTail, fieldTrees, List.append_assoc] using this
end

/-! ### trees modulo parentheses -/

theorem ntOf_isChain (m : Nat) : (ntOf m).isChain = true := by
  unfold ntOf; split <;> rfl

theorem strip_single (r : NT) (h : r.isChain = true) (c : Tree) : strip (.node r [c]) = strip c := by
  simp [strip, stripList, h]

theorem strip_wrapUp (n : Nat) : ∀ (m : Nat) (t : Tree), strip (wrapUp n m t) = strip t := by
  induction n with
  | zero => intro m t; rfl
  | succ n ih => intro m t; simp [wrapUp, strip_single _ (ntOf_isChain m), ih]

mutual
theorem strip_core : (e : PExpr) → strip (core e) = abs e
  | .lit k s => by simp [core, abs, strip, stripList, NT.isChain]
  | .ident s => by simp [core, abs, strip, stripList, NT.isChain]
  | .dotIdent s => by simp [core, abs, strip, stripList, NT.isChain]
  | .identArg s as => by
      have := strip_exprlistOpt as
      simp [core, abs, strip, stripList, NT.isChain, this]
  | .dotIdentArg s as => by
      have := strip_exprlistOpt as
      simp [core, abs, strip, stripList, NT.isChain, this]
  | .paren e => by
      have := strip_core e
      simp [core, abs, strip, stripList, NT.isChain, strip_wrapUp, this]
  | .list es => by
      have := strip_exprlistOpt es
      simp [core, abs, strip, stripList, NT.isChain, this]
  | .map kvs => by
      have := strip_mapinitsOpt kvs
      simp [core, abs, strip, stripList, NT.isChain, this]
  | .dot e n => by
      have := strip_core e
      simp [core, abs, strip, stripList, NT.isChain, strip_wrapUp, this]
  | .dotArg e n as => by
      have := strip_core e
      have := strip_exprlistOpt as
      simp [core, abs, strip, stripList, NT.isChain, strip_wrapUp, *]
  | .index e i => by
      have := strip_core e
      have := strip_core i
      simp [core, abs, strip, stripList, NT.isChain, strip_wrapUp, *]
  | .obj e fs => by
      have := strip_core e
      have := strip_fieldinitsOpt fs
      simp [core, abs, strip, stripList, NT.isChain, strip_wrapUp, *]
  | .not e => by
      have := strip_core e
      simp [core, abs, strip, stripList, NT.isChain, strip_wrapUp, this]
  | .neg e => by
      have := strip_core e
      simp [core, abs, strip, stripList, NT.isChain, strip_wrapUp, this]
  | .mul op a b => by
      have := strip_core a
      have := strip_core b
      cases op <;> simp [core, abs, strip, stripList, NT.isChain, strip_wrapUp, MulOp.nt, *]
  | .add op a b => by
      have := strip_core a
      have := strip_core b
      cases op <;> simp [core, abs, strip, stripList, NT.isChain, strip_wrapUp, AddOp.nt, *]
  | .rel op a b => by
      have := strip_core a
      have := strip_core b
      cases op <;> simp [core, abs, strip, stripList, NT.isChain, strip_wrapUp, RelOp.nt, *]
  | .and a b => by
      have := strip_core a
      have := strip_core b
      simp [core, abs, strip, stripList, NT.isChain, strip_wrapUp, *]
  | .or a b => by
      have := strip_core a
      have := strip_core b
      simp [core, abs, strip, stripList, NT.isChain, strip_wrapUp, *]
  | .cond c a b => by
      have := strip_core c
      have := strip_core a
      have := strip_core b
      simp [core, abs, strip, stripList, NT.isChain, strip_wrapUp, *]
theorem strip_exprlistOpt : (as : PArgs) → stripList (exprlistOpt as) = absExprlistOpt as
  | .nil => by simp [exprlistOpt, absExprlistOpt, stripList]
  | .cons e r => by
      have := strip_core e
      have := strip_argTrees r
      simp [exprlistOpt, absExprlistOpt, strip, stripList, NT.isChain, strip_wrapUp, *]
theorem strip_argTrees : (as : PArgs) → stripList (argTrees as) = absArgs as
  | .nil => by simp [argTrees, absArgs, stripList]
  | .cons e r => by
      have := strip_core e
      have := strip_argTrees r
      simp [argTrees, absArgs, stripList, strip_wrapUp, *]
theorem strip_mapinitsOpt : (kvs : PInits) → stripList (mapinitsOpt kvs) = absMapinitsOpt kvs
  | .nil => by simp [mapinitsOpt, absMapinitsOpt, stripList]
  | .cons k v r => by
      have := strip_core k
      have := strip_core v
      have := strip_initTrees r
      simp [mapinitsOpt, absMapinitsOpt, strip, stripList, NT.isChain, strip_wrapUp, *]
theorem strip_initTrees : (kvs : PInits) → stripList (initTrees kvs) = absInits kvs
  | .nil => by simp [initTrees, absInits, stripList]
  | .cons k v r => by
      have := strip_core k
      have := strip_core v
      have := strip_initTrees r
      simp [initTrees, absInits, stripList, strip_wrapUp, *]
theorem strip_fieldinitsOpt : (fs : PFields) → stripList (fieldinitsOpt fs) = absFieldinitsOpt fs
  | .nil => by simp [fieldinitsOpt, absFieldinitsOpt, stripList]
  | .cons n v r => by
      have := strip_core v
      have := strip_fieldTrees r
      simp [fieldinitsOpt, absFieldinitsOpt, strip, stripList, NT.isChain, strip_wrapUp, *]
theorem strip_fieldTrees : (fs : PFields) → stripList (fieldTrees fs) = absFields fs
  | .nil => by simp [fieldTrees, absFields, stripList]
  | .cons n v r => by
      have := strip_core v
      have := strip_fieldTrees r
      simp [fieldTrees, absFields, strip, stripList, strip_wrapUp, *]
end

theorem strip_toTreeAt (m : Nat) (e : PExpr) : strip (toTreeAt m e) = abs e := by
  simp [toTreeAt, strip_wrapUp, strip_core]

mutual
theorem abs_fullParen : (e : PExpr) → abs (fullParen e) = abs e
  | .lit _ _ => rfl
  | .ident _ => rfl
  | .dotIdent _ => rfl
  | .identArg s as => by simp [fullParen, abs, abs_fpExprlistOpt as]
  | .dotIdentArg s as => by simp [fullParen, abs, abs_fpExprlistOpt as]
  | .paren e => by simp [fullParen, abs, abs_fullParen e]
  | .list es => by simp [fullParen, abs, abs_fpExprlistOpt es]
  | .map kvs => by simp [fullParen, abs, abs_fpMapinitsOpt kvs]
  | .dot e n => by simp [fullParen, abs, abs_fullParen e]
  | .dotArg e n as => by simp [fullParen, abs, abs_fullParen e, abs_fpExprlistOpt as]
  | .index e i => by simp [fullParen, abs, abs_fullParen e, abs_fullParen i]
  | .obj e fs => by simp [fullParen, abs, abs_fullParen e, abs_fpFieldinitsOpt fs]
  | .not e => by simp [fullParen, abs, abs_fullParen e]
  | .neg e => by simp [fullParen, abs, abs_fullParen e]
  | .mul op a b => by simp [fullParen, abs, abs_fullParen a, abs_fullParen b]
  | .add op a b => by simp [fullParen, abs, abs_fullParen a, abs_fullParen b]
  | .rel op a b => by simp [fullParen, abs, abs_fullParen a, abs_fullParen b]
  | .and a b => by simp [fullParen, abs, abs_fullParen a, abs_fullParen b]
  | .or a b => by simp [fullParen, abs, abs_fullParen a, abs_fullParen b]
  | .cond c a b => by simp [fullParen, abs, abs_fullParen c, abs_fullParen a, abs_fullParen b]
theorem abs_fpExprlistOpt : (as : PArgs) → absExprlistOpt (fullParenArgs as) = absExprlistOpt as
  | .nil => rfl
  | .cons e r => by simp [fullParenArgs, absExprlistOpt, abs_fullParen e, abs_fpArgs r]
theorem abs_fpArgs : (as : PArgs) → absArgs (fullParenArgs as) = absArgs as
  | .nil => rfl
  | .cons e r => by simp [fullParenArgs, absArgs, abs_fullParen e, abs_fpArgs r]
theorem abs_fpMapinitsOpt : (kvs : PInits) → absMapinitsOpt (fullParenInits kvs) = absMapinitsOpt kvs
  | .nil => rfl
  | .cons k v r => by simp [fullParenInits, absMapinitsOpt, abs_fullParen k, abs_fullParen v, abs_fpInits r]
theorem abs_fpInits : (kvs : PInits) → absInits (fullParenInits kvs) = absInits kvs
  | .nil => rfl
  | .cons k v r => by simp [fullParenInits, absInits, abs_fullParen k, abs_fullParen v, abs_fpInits r]
theorem abs_fpFieldinitsOpt : (fs : PFields) → absFieldinitsOpt (fullParenFields fs) = absFieldinitsOpt fs
  | .nil => rfl
  | .cons n v r => by simp [fullParenFields, absFieldinitsOpt, abs_fullParen v, abs_fpFields r]
theorem abs_fpFields : (fs : PFields) → absFields (fullParenFields fs) = absFields fs
  | .nil => rfl
  | .cons n v r => by simp [fullParenFields, absFields, abs_fullParen v, abs_fpFields r]
end

theorem level_fullParen_ge (e : PExpr) : 8 ≤ level (fullParen e) := by
  cases e <;> simp [fullParen, level]

mutual
theorem wf_fullParen : (e : PExpr) → wf (fullParen e) = true
  | .lit _ _ => rfl
  | .ident _ => rfl
  | .dotIdent _ => rfl
  | .identArg s as => by simp [fullParen, wf, wf_fpArgs as]
  | .dotIdentArg s as => by simp [fullParen, wf, wf_fpArgs as]
  | .paren e => by simp [fullParen, wf, wf_fullParen e]
  | .list es => by simp [fullParen, wf, wf_fpArgs es]
  | .map kvs => by simp [fullParen, wf, wf_fpInits kvs]
  | .dot e n => by
      have := level_fullParen_ge e
      simp [fullParen, wf, wf_fullParen e]; omega
  | .dotArg e n as => by
      have := level_fullParen_ge e
      simp [fullParen, wf, wf_fullParen e, wf_fpArgs as]; omega
  | .index e i => by
      have := level_fullParen_ge e
      simp [fullParen, wf, wf_fullParen e, wf_fullParen i]; omega
  | .obj e fs => by
      have := level_fullParen_ge e
      simp [fullParen, wf, wf_fullParen e, wf_fpFields fs]; omega
  | .not e => by
      have := level_fullParen_ge e
      simp [fullParen, wf, wf_fullParen e]; omega
  | .neg e => by
      have := level_fullParen_ge e
      simp [fullParen, wf, wf_fullParen e]; omega
  | .mul op a b => by
      have := level_fullParen_ge a; have := level_fullParen_ge b
      simp [fullParen, wf, wf_fullParen a, wf_fullParen b]; omega
  | .add op a b => by
      have := level_fullParen_ge a; have := level_fullParen_ge b
      simp [fullParen, wf, wf_fullParen a, wf_fullParen b]; omega
  | .rel op a b => by
      have := level_fullParen_ge a; have := level_fullParen_ge b
      simp [fullParen, wf, wf_fullParen a, wf_fullParen b]; omega
  | .and a b => by
      have := level_fullParen_ge a; have := level_fullParen_ge b
      simp [fullParen, wf, wf_fullParen a, wf_fullParen b]; omega
  | .or a b => by
      have := level_fullParen_ge a; have := level_fullParen_ge b
      simp [fullParen, wf, wf_fullParen a, wf_fullParen b]; omega
  | .cond c a b => by
      have := level_fullParen_ge c; have := level_fullParen_ge a
      simp [fullParen, wf, wf_fullParen c, wf_fullParen a, wf_fullParen b]; omega
theorem wf_fpArgs : (as : PArgs) → wfArgs (fullParenArgs as) = true
  | .nil => rfl
  | .cons e r => by simp [fullParenArgs, wfArgs, wf_fullParen e, wf_fpArgs r]
theorem wf_fpInits : (kvs : PInits) → wfInits (fullParenInits kvs) = true
  | .nil => rfl
  | .cons k v r => by simp [fullParenInits, wfInits, wf_fullParen k, wf_fullParen v, wf_fpInits r]
theorem wf_fpFields : (fs : PFields) → wfFields (fullParenFields fs) = true
  | .nil => rfl
  | .cons n v r => by simp [fullParenFields, wfFields, wf_fullParen v, wf_fpFields r]
end

end Cel.Grammar
