/-
  Cel.Lemmas.Xlate — lemmas for C18: the token scanner `top_level_logic` sees exactly the logical
  operators outside brackets (`scan_render`), joins of grouped operands are well-formed and
  mean the conjunction / disjunction, and the induction over filter trees (`good`, `goodAll`).
-/
import Cel.Model.Xlate
import Cel.Lemmas.Grammar
namespace Cel.Xlate
open Cel.Grammar

theorem scan_plain (d : Int) (t : Tok) (ts : List Tok) (h1 : opener t.k = false) (h2 : closer t.k = false)
    (h3 : isLogic t.k = false) : scanTop d (t :: ts) = scanTop d ts := by
  simp [scanTop, h1, h2, h3]

theorem scan_open (d : Int) (k : TK) (s : String) (ts : List Tok) (h : opener k = true) :
    scanTop d (⟨k, s⟩ :: ts) = scanTop (d + 1) ts := by
  simp [scanTop, h]

theorem scan_close (d : Int) (k : TK) (s : String) (ts : List Tok) (h1 : opener k = false) (h : closer k = true) :
    scanTop d (⟨k, s⟩ :: ts) = scanTop (d - 1) ts := by
  simp [scanTop, h, h1]

theorem scan_logic (d : Int) (k : TK) (s : String) (ts : List Tok) (h : isLogic k = true) :
    scanTop d (⟨k, s⟩ :: ts) = ((d == 0) || scanTop d ts) := by
  have h1 : opener k = false := by cases k <;> simp_all [opener, isLogic]
  have h2 : closer k = false := by cases k <;> simp_all [closer, isLogic]
  simp [scanTop, h, h1, h2]
  cases hd : (d == 0) <;> simp_all


@[simp] theorem opener_a_lpar : opener TK.LPAR = true := rfl
theorem tok_a_k (k : TK) : (Tok.a k).k = k := rfl

/-- scanning a token that is neither a bracket nor a logical operator -/
theorem scan_skip (d : Int) (t : Tok) (ts : List Tok)
    (h : (opener t.k || closer t.k || isLogic t.k) = false) : scanTop d (t :: ts) = scanTop d ts := by
  simp at h
  exact scan_plain d t ts h.1.1 h.1.2 h.2

theorem relop_skip (op : RelOp) : (opener op.tk || closer op.tk || isLogic op.tk) = false := by cases op <;> rfl
theorem addop_skip (op : AddOp) : (opener op.tk || closer op.tk || isLogic op.tk) = false := by cases op <;> rfl
theorem mulop_skip (op : MulOp) : (opener op.tk || closer op.tk || isLogic op.tk) = false := by cases op <;> rfl
theorem lit_skip (k : LitK) : (opener k.tk || closer k.tk || isLogic k.tk) = false := by cases k <;> rfl

set_option linter.unusedSimpArgs false in
mutual
theorem scan_render : (e : PExpr) → ∀ (d : Int) (rest : List Tok), 0 ≤ d →
    scanTop d (render e ++ rest) = ((d == 0 && tops e) || scanTop d rest)
  | .lit k s, d, rest, _ => by
      simp [render, tops, scan_skip d ⟨k.tk, s⟩ rest (lit_skip k)]
  | .ident s, d, rest, _ => by
      simp [render, tops, scan_skip d ⟨.IDENT, s⟩ rest rfl]
  | .dotIdent s, d, rest, _ => by
      simp [render, tops, scan_skip d (.a .DOT) _ rfl, scan_skip d ⟨.IDENT, s⟩ rest rfl]
  | .identArg s as, d, rest, hd => by
      have h1 : (1 : Int) ≤ d + 1 := by omega
      have := scan_argsIn as (d + 1) (.a .RPAR :: rest) h1
      simp [render, tops, scan_skip d ⟨.IDENT, s⟩ _ rfl, Tok.a, scan_open d .LPAR _ _ rfl, List.append_assoc] at this ⊢
      rw [this, scan_close _ .RPAR _ _ rfl rfl]; simp
  | .paren e, d, rest, hd => by
      have h1 : (0 : Int) ≤ d + 1 := by omega
      have := scan_render e (d + 1) (.a .RPAR :: rest) h1
      have hne : ((d + 1 == 0) = false) := by simp; omega
      simp [render, tops, Tok.a, scan_open d .LPAR _ _ rfl, List.append_assoc, hne] at this ⊢
      rw [this, scan_close _ .RPAR _ _ rfl rfl]; simp
  | .or a b, d, rest, hd => by
      have ha := scan_render a d (.a .OROR :: (render b ++ rest)) hd
      have hb := scan_render b d rest hd
      simp [render, tops, List.append_assoc, Tok.a] at ha ⊢
      rw [ha, scan_logic d .OROR _ _ rfl, hb]
      cases (d == 0) <;> cases tops a <;> cases tops b <;> simp
  | .rel op a b, d, rest, hd => by
      have ha := scan_render a d (.a op.tk :: (render b ++ rest)) hd
      have hb := scan_render b d rest hd
      simp [render, tops, List.append_assoc] at ha ⊢
      rw [ha, scan_skip d (.a op.tk) _ (relop_skip op), hb]
      cases (d == 0) <;> cases tops a <;> cases tops b <;> simp
  | .dotIdentArg s as, d, rest, hd => by
      have h1 : (1 : Int) ≤ d + 1 := by omega
      have := scan_argsIn as (d + 1) (.a .RPAR :: rest) h1
      simp [render, tops, scan_skip d (.a .DOT) _ rfl, scan_skip d ⟨.IDENT, s⟩ _ rfl, Tok.a, scan_open d .LPAR _ _ rfl, List.append_assoc] at this ⊢
      rw [scan_skip d ⟨.DOT, _⟩ _ rfl, scan_skip d ⟨.IDENT, s⟩ _ rfl, scan_open d .LPAR _ _ rfl, this, scan_close _ .RPAR _ _ rfl rfl]; simp
  | .list es, d, rest, hd => by
      have h1 : (1 : Int) ≤ d + 1 := by omega
      have := scan_argsIn es (d + 1) (.a .RSQB :: rest) h1
      simp [render, tops, Tok.a, scan_open d .LSQB _ _ rfl, List.append_assoc] at this ⊢
      rw [this, scan_close _ .RSQB _ _ rfl rfl]; simp
  | .map kvs, d, rest, hd => by
      have h1 : (1 : Int) ≤ d + 1 := by omega
      have := scan_initsIn kvs (d + 1) (.a .RBRACE :: rest) h1
      simp [render, tops, Tok.a, scan_open d .LBRACE _ _ rfl, List.append_assoc] at this ⊢
      rw [this, scan_close _ .RBRACE _ _ rfl rfl]; simp
  | .dot e n, d, rest, hd => by
      have he := scan_render e d (.a .DOT :: ⟨.IDENT, n⟩ :: rest) hd
      simp [render, tops, List.append_assoc] at he ⊢
      rw [he, scan_skip d (.a .DOT) _ rfl, scan_skip d ⟨.IDENT, n⟩ _ rfl]
  | .dotArg e n as, d, rest, hd => by
      have h1 : (1 : Int) ≤ d + 1 := by omega
      have he := scan_render e d (.a .DOT :: ⟨.IDENT, n⟩ :: .a .LPAR :: (renderArgs as ++ (.a .RPAR :: rest))) hd
      have ha := scan_argsIn as (d + 1) (.a .RPAR :: rest) h1
      simp [render, tops, List.append_assoc] at he ⊢
      rw [he, scan_skip d (.a .DOT) _ rfl, scan_skip d ⟨.IDENT, n⟩ _ rfl, Tok.a, scan_open d .LPAR _ _ rfl, ha,
        Tok.a, scan_close _ .RPAR _ _ rfl rfl]; simp
  | .index e i, d, rest, hd => by
      have h1 : (0 : Int) ≤ d + 1 := by omega
      have he := scan_render e d (.a .LSQB :: (render i ++ (.a .RSQB :: rest))) hd
      have hi := scan_render i (d + 1) (.a .RSQB :: rest) h1
      have hne : ((d + 1 == 0) = false) := by simp; omega
      simp [render, tops, List.append_assoc, hne] at he hi ⊢
      rw [he, Tok.a, scan_open d .LSQB _ _ rfl, hi, Tok.a, scan_close _ .RSQB _ _ rfl rfl]; simp
  | .obj e fs, d, rest, hd => by
      have h1 : (1 : Int) ≤ d + 1 := by omega
      have he := scan_render e d (.a .LBRACE :: (renderFields fs ++ (.a .RBRACE :: rest))) hd
      have hf := scan_fieldsIn fs (d + 1) (.a .RBRACE :: rest) h1
      simp [render, tops, List.append_assoc] at he ⊢
      rw [he, Tok.a, scan_open d .LBRACE _ _ rfl, hf, Tok.a, scan_close _ .RBRACE _ _ rfl rfl]; simp
  | .not e, d, rest, hd => by
      have he := scan_render e d rest hd
      simp [render, tops] at he ⊢
      rw [scan_skip d (.a .BANG) _ rfl, he]
  | .neg e, d, rest, hd => by
      have he := scan_render e d rest hd
      simp [render, tops] at he ⊢
      rw [scan_skip d (.a .MINUS) _ rfl, he]
  | .mul op a b, d, rest, hd => by
      have ha := scan_render a d (.a op.tk :: (render b ++ rest)) hd
      have hb := scan_render b d rest hd
      simp [render, tops, List.append_assoc] at ha ⊢
      rw [ha, scan_skip d (.a op.tk) _ (mulop_skip op), hb]
      cases (d == 0) <;> cases tops a <;> cases tops b <;> simp
  | .add op a b, d, rest, hd => by
      have ha := scan_render a d (.a op.tk :: (render b ++ rest)) hd
      have hb := scan_render b d rest hd
      simp [render, tops, List.append_assoc] at ha ⊢
      rw [ha, scan_skip d (.a op.tk) _ (addop_skip op), hb]
      cases (d == 0) <;> cases tops a <;> cases tops b <;> simp
  | .and a b, d, rest, hd => by
      have ha := scan_render a d (.a .ANDAND :: (render b ++ rest)) hd
      have hb := scan_render b d rest hd
      simp [render, tops, List.append_assoc, Tok.a] at ha ⊢
      rw [ha, scan_logic d .ANDAND _ _ rfl, hb]
      cases (d == 0) <;> cases tops a <;> cases tops b <;> simp
  | .cond c a b, d, rest, hd => by
      have hc := scan_render c d (.a .QMARK :: (render a ++ (.a .COLON :: (render b ++ rest)))) hd
      have ha := scan_render a d (.a .COLON :: (render b ++ rest)) hd
      have hb := scan_render b d rest hd
      simp [render, tops, List.append_assoc, Tok.a] at hc ha ⊢
      rw [hc, scan_logic d .QMARK _ _ rfl, ha, scan_skip d ⟨.COLON, _⟩ _ rfl, hb]
      cases (d == 0) <;> cases tops c <;> cases tops a <;> cases tops b <;> simp
theorem scan_argsIn : (as : PArgs) → ∀ (d : Int) (rest : List Tok), 1 ≤ d →
    scanTop d (renderArgs as ++ rest) = scanTop d rest
  | .nil, d, rest, _ => by simp [renderArgs]
  | .cons e r, d, rest, hd => by
      have he := scan_render e d (renderArgsTail r ++ rest) (by omega)
      have hr := scan_argsTailIn r d rest hd
      have hne : ((d == 0) = false) := by simp; omega
      simp [renderArgs, List.append_assoc, hne] at he ⊢
      rw [he, hr]
theorem scan_argsTailIn : (as : PArgs) → ∀ (d : Int) (rest : List Tok), 1 ≤ d →
    scanTop d (renderArgsTail as ++ rest) = scanTop d rest
  | .nil, d, rest, _ => by simp [renderArgsTail]
  | .cons e r, d, rest, hd => by
      have he := scan_render e d (renderArgsTail r ++ rest) (by omega)
      have hr := scan_argsTailIn r d rest hd
      have hne : ((d == 0) = false) := by simp; omega
      simp [renderArgsTail, List.append_assoc, hne] at he ⊢
      rw [scan_skip d (.a .COMMA) _ rfl, he, hr]
theorem scan_initsIn : (kvs : PInits) → ∀ (d : Int) (rest : List Tok), 1 ≤ d →
    scanTop d (renderInits kvs ++ rest) = scanTop d rest
  | .nil, d, rest, _ => by simp [renderInits]
  | .cons k v r, d, rest, hd => by
      have hk := scan_render k d (.a .COLON :: (render v ++ (renderInitsTail r ++ rest))) (by omega)
      have hv := scan_render v d (renderInitsTail r ++ rest) (by omega)
      have hr := scan_initsTailIn r d rest hd
      have hne : ((d == 0) = false) := by simp; omega
      simp [renderInits, List.append_assoc, hne] at hk hv ⊢
      rw [hk, scan_skip d (.a .COLON) _ rfl, hv, hr]
theorem scan_initsTailIn : (kvs : PInits) → ∀ (d : Int) (rest : List Tok), 1 ≤ d →
    scanTop d (renderInitsTail kvs ++ rest) = scanTop d rest
  | .nil, d, rest, _ => by simp [renderInitsTail]
  | .cons k v r, d, rest, hd => by
      have hk := scan_render k d (.a .COLON :: (render v ++ (renderInitsTail r ++ rest))) (by omega)
      have hv := scan_render v d (renderInitsTail r ++ rest) (by omega)
      have hr := scan_initsTailIn r d rest hd
      have hne : ((d == 0) = false) := by simp; omega
      simp [renderInitsTail, List.append_assoc, hne] at hk hv ⊢
      rw [scan_skip d (.a .COMMA) _ rfl, hk, scan_skip d (.a .COLON) _ rfl, hv, hr]
theorem scan_fieldsIn : (fs : PFields) → ∀ (d : Int) (rest : List Tok), 1 ≤ d →
    scanTop d (renderFields fs ++ rest) = scanTop d rest
  | .nil, d, rest, _ => by simp [renderFields]
  | .cons n v r, d, rest, hd => by
      have hv := scan_render v d (renderFieldsTail r ++ rest) (by omega)
      have hr := scan_fieldsTailIn r d rest hd
      have hne : ((d == 0) = false) := by simp; omega
      simp [renderFields, List.append_assoc, hne] at hv ⊢
      rw [scan_skip d ⟨.IDENT, n⟩ _ rfl, scan_skip d (.a .COLON) _ rfl, hv, hr]
theorem scan_fieldsTailIn : (fs : PFields) → ∀ (d : Int) (rest : List Tok), 1 ≤ d →
    scanTop d (renderFieldsTail fs ++ rest) = scanTop d rest
  | .nil, d, rest, _ => by simp [renderFieldsTail]
  | .cons n v r, d, rest, hd => by
      have hv := scan_render v d (renderFieldsTail r ++ rest) (by omega)
      have hr := scan_fieldsTailIn r d rest hd
      have hne : ((d == 0) = false) := by simp; omega
      simp [renderFieldsTail, List.append_assoc, hne] at hv ⊢
      rw [scan_skip d (.a .COMMA) _ rfl, scan_skip d ⟨.IDENT, n⟩ _ rfl, scan_skip d (.a .COLON) _ rfl, hv, hr]
end


theorem topLevelLogic_render (e : PExpr) : topLevelLogic (render e) = tops e := by
  have := scan_render e 0 [] (by omega)
  simpa [topLevelLogic, scanTop] using this

theorem tops_false_level (e : PExpr) (h : tops e = false) : 3 ≤ level e := by
  cases e <;> simp_all [tops, level]

theorem render_paren (e : PExpr) : render (.paren e) = parenToks (render e) := by
  simp [render, parenToks]

theorem render_groupE (e : PExpr) :
    render (groupE e) = (if topLevelLogic (render e) then parenToks (render e) else render e) := by
  unfold groupE
  rw [topLevelLogic_render]
  split <;> simp [render_paren]

theorem operands_render (es : List PExpr) : operands (es.map render) = (operandsE es).map render := by
  unfold operands operandsE
  simp only [List.length_map]
  split
  · rfl
  · simp [List.map_map, Function.comp_def, render_groupE]

theorem wf_groupE (e : PExpr) (h : wf e = true) : wf (groupE e) = true ∧ 3 ≤ level (groupE e) := by
  unfold groupE
  cases ht : tops e
  · simp [h, tops_false_level e ht]
  · simp [wf, h, level]

/-- an evaluation function that respects `&& || !` and parentheses -/
structure BoolHom (ev : PExpr → Bool) : Prop where
  and_ : ∀ a b, ev (.and a b) = (ev a && ev b)
  or_ : ∀ a b, ev (.or a b) = (ev a || ev b)
  not_ : ∀ a, ev (.not a) = !ev a
  paren_ : ∀ a, ev (.paren a) = ev a

theorem evalBool_hom (ρ : String → Bool) : BoolHom (evalBool ρ) :=
  ⟨fun _ _ => rfl, fun _ _ => rfl, fun _ => rfl, fun _ => rfl⟩

theorem ev_groupE {ev} (H : BoolHom ev) (e : PExpr) : ev (groupE e) = ev e := by
  unfold groupE; split <;> simp [H.paren_]

theorem all_operandsE {ev} (H : BoolHom ev) (es : List PExpr) : (operandsE es).all ev = es.all ev := by
  unfold operandsE; split
  · rfl
  · simp [List.all_map, Function.comp_def, ev_groupE H]

theorem any_operandsE {ev} (H : BoolHom ev) (es : List PExpr) : (operandsE es).any ev = es.any ev := by
  unfold operandsE; split
  · rfl
  · simp [List.any_map, Function.comp_def, ev_groupE H]

/-- `op x1 op x2 …` -/
def tailToks (op : TK) : List (List Tok) → List Tok
  | [] => []
  | x :: r => .a op :: (x ++ tailToks op r)

theorem joinWith_cons (op : TK) (x : List Tok) (r : List (List Tok)) :
    joinWith op (x :: r) = x ++ tailToks op r := by
  induction r generalizing x with
  | nil => simp [joinWith, tailToks]
  | cons y r ih => simp [joinWith, tailToks, ih]

theorem render_foldl_and (r : List PExpr) (e : PExpr) :
    render (r.foldl .and e) = render e ++ tailToks .ANDAND (r.map render) := by
  induction r generalizing e with
  | nil => simp [tailToks]
  | cons x r ih => simp [ih, render, tailToks, List.append_assoc]

theorem render_foldl_or (r : List PExpr) (e : PExpr) :
    render (r.foldl .or e) = render e ++ tailToks .OROR (r.map render) := by
  induction r generalizing e with
  | nil => simp [tailToks]
  | cons x r ih => simp [ih, render, tailToks, List.append_assoc]

theorem wf_foldl_and (r : List PExpr) (e : PExpr) (he : wf e = true) (hl : 2 ≤ level e)
    (hr : ∀ x ∈ r, wf x = true ∧ 3 ≤ level x) : wf (r.foldl .and e) = true := by
  induction r generalizing e with
  | nil => simpa using he
  | cons x r ih =>
    have hx := hr x (by simp)
    apply ih (.and e x)
    · simp [wf, he, hx.1, hl, hx.2]
    · simp [level]
    · intro y hy; exact hr y (by simp [hy])

theorem wf_foldl_or (r : List PExpr) (e : PExpr) (he : wf e = true) (hl : 1 ≤ level e)
    (hr : ∀ x ∈ r, wf x = true ∧ 2 ≤ level x) : wf (r.foldl .or e) = true := by
  induction r generalizing e with
  | nil => simpa using he
  | cons x r ih =>
    have hx := hr x (by simp)
    apply ih (.or e x)
    · simp [wf, he, hx.1, hl, hx.2]
    · simp [level]
    · intro y hy; exact hr y (by simp [hy])

theorem ev_foldl_and {ev} (H : BoolHom ev) (r : List PExpr) (e : PExpr) :
    ev (r.foldl .and e) = (ev e && r.all ev) := by
  induction r generalizing e with
  | nil => simp
  | cons x r ih => simp [ih, H.and_, Bool.and_assoc]

theorem ev_foldl_or {ev} (H : BoolHom ev) (r : List PExpr) (e : PExpr) :
    ev (r.foldl .or e) = (ev e || r.any ev) := by
  induction r generalizing e with
  | nil => simp
  | cons x r ih => simp [ih, H.or_, Bool.or_assoc]

/-- joining one or more well-formed clauses with `&&`: the emitted tokens are the rendering of a
well-formed expression whose value is the conjunction -/
theorem join_and_good (es : List PExpr) (hne : es ≠ []) (hwf : ∀ x ∈ es, wf x = true) :
    ∃ j, joinE .and (operandsE es) = some j ∧ render j = joinWith .ANDAND (operands (es.map render)) ∧
      wf j = true ∧ ∀ ev, BoolHom ev → ev j = es.all ev := by
  rw [operands_render]
  match es, hne, hwf with
  | [e], _, hwf =>
    exact ⟨e, by simp [operandsE, joinE], by simp [operandsE, joinWith], hwf e (by simp), fun ev _ => by simp⟩
  | e :: e2 :: r, _, hwf =>
    have hops : operandsE (e :: e2 :: r) = groupE e :: (e2 :: r).map groupE := by
      simp [operandsE]; omega
    refine ⟨((e2 :: r).map groupE).foldl .and (groupE e), by simp [hops, joinE], ?_, ?_, ?_⟩
    · rw [hops, render_foldl_and]; simp only [List.map_cons]; rw [joinWith_cons]
    · apply wf_foldl_and
      · exact (wf_groupE e (hwf e (by simp))).1
      · have := (wf_groupE e (hwf e (by simp))).2; omega
      · intro x hx
        simp only [List.mem_map] at hx
        obtain ⟨y, hy, rfl⟩ := hx
        exact wf_groupE y (hwf y (by simp [List.mem_cons] at hy ⊢; rcases hy with h | h <;> simp [h]))
    · intro ev H
      rw [ev_foldl_and H]
      simp [List.all_map, Function.comp_def, ev_groupE H]

theorem join_or_good (es : List PExpr) (hne : es ≠ []) (hwf : ∀ x ∈ es, wf x = true) :
    ∃ j, joinE .or (operandsE es) = some j ∧ render j = joinWith .OROR (operands (es.map render)) ∧
      wf j = true ∧ ∀ ev, BoolHom ev → ev j = es.any ev := by
  rw [operands_render]
  match es, hne, hwf with
  | [e], _, hwf =>
    exact ⟨e, by simp [operandsE, joinE], by simp [operandsE, joinWith], hwf e (by simp), fun ev _ => by simp⟩
  | e :: e2 :: r, _, hwf =>
    have hops : operandsE (e :: e2 :: r) = groupE e :: (e2 :: r).map groupE := by
      simp [operandsE]; omega
    refine ⟨((e2 :: r).map groupE).foldl .or (groupE e), by simp [hops, joinE], ?_, ?_, ?_⟩
    · rw [hops, render_foldl_or]; simp only [List.map_cons]; rw [joinWith_cons]
    · apply wf_foldl_or
      · exact (wf_groupE e (hwf e (by simp))).1
      · have := (wf_groupE e (hwf e (by simp))).2; omega
      · intro x hx
        simp only [List.mem_map] at hx
        obtain ⟨y, hy, rfl⟩ := hx
        have := wf_groupE y (hwf y (by simp [List.mem_cons] at hy ⊢; rcases hy with h | h <;> simp [h]))
        exact ⟨this.1, by omega⟩
    · intro ev H
      rw [ev_foldl_or H]
      simp [List.any_map, Function.comp_def, ev_groupE H]


theorem render_parenIfDeepE (lvl : Nat) (j : PExpr) :
    render (parenIfDeepE lvl j) = parenIfDeep lvl (render j) := by
  unfold parenIfDeepE parenIfDeep; split <;> simp [render_paren]

theorem wf_parenIfDeepE (lvl : Nat) (j : PExpr) (h : wf j = true) : wf (parenIfDeepE lvl j) = true := by
  unfold parenIfDeepE; split <;> simp [wf, h]

theorem ev_parenIfDeepE {ev} (H : BoolHom ev) (lvl : Nat) (j : PExpr) : ev (parenIfDeepE lvl j) = ev j := by
  unfold parenIfDeepE; split <;> simp [H.paren_]

/-- what the translation of `f` at nesting level `lvl` has to satisfy -/
def Good (lvl : Nat) (f : Filter) : Prop :=
  ∃ e, exprOf lvl f = some e ∧ render e = logicalConnector lvl f ∧ wf e = true ∧
    ∀ ev, BoolHom ev → ev e = c7nDenote ev f

def GoodAll (lvl : Nat) (fs : Filters) : Prop :=
  ∃ es, exprsOf lvl fs = some es ∧ es.map render = connectAll lvl fs ∧ es.length = fs.length ∧
    (∀ x ∈ es, wf x = true) ∧
    ∀ ev, BoolHom ev → (es.all ev = c7nAll ev fs ∧ es.any ev = c7nAny ev fs)

theorem good_of_and_join (lvl : Nat) (fs : Filters) (hlen : fs.length ≠ 0) (h : GoodAll (lvl + 1) fs) :
    ∃ es j, exprsOf (lvl + 1) fs = some es ∧ joinE .and (operandsE es) = some j ∧
      render j = joinWith .ANDAND (operands (connectAll (lvl + 1) fs)) ∧ wf j = true ∧
      ∀ ev, BoolHom ev → ev j = c7nAll ev fs := by
  obtain ⟨es, h1, h2, h3, h4, h5⟩ := h
  have hne : es ≠ [] := by intro h0; subst h0; simp at h3; exact hlen h3.symm
  obtain ⟨j, j1, j2, j3, j4⟩ := join_and_good es hne h4
  exact ⟨es, j, h1, j1, by rw [j2, h2], j3, fun ev H => by rw [j4 ev H, (h5 ev H).1]⟩

theorem good_of_or_join (lvl : Nat) (fs : Filters) (hlen : fs.length ≠ 0) (h : GoodAll (lvl + 1) fs) :
    ∃ es j, exprsOf (lvl + 1) fs = some es ∧ joinE .or (operandsE es) = some j ∧
      render j = joinWith .OROR (operands (connectAll (lvl + 1) fs)) ∧ wf j = true ∧
      ∀ ev, BoolHom ev → ev j = c7nAny ev fs := by
  obtain ⟨es, h1, h2, h3, h4, h5⟩ := h
  have hne : es ≠ [] := by intro h0; subst h0; simp at h3; exact hlen h3.symm
  obtain ⟨j, j1, j2, j3, j4⟩ := join_or_good es hne h4
  exact ⟨es, j, h1, j1, by rw [j2, h2], j3, fun ev H => by rw [j4 ev H, (h5 ev H).2]⟩

mutual
theorem good : (f : Filter) → nonEmpty f = true → clausesWF f = true → ∀ lvl, Good lvl f
  | .prim c, _, hw, lvl => ⟨c, rfl, rfl, by simpa [clausesWF] using hw, fun _ _ => rfl⟩
  | .not .nil, hn, _, _ => by simp [nonEmpty, Filters.length] at hn
  | .not (.cons f .nil), hn, hw, lvl => by
      simp [nonEmpty, nonEmptyAll, Filters.length] at hn
      simp [clausesWF, clausesWFAll] at hw
      obtain ⟨e, h1, h2, h3, h4⟩ := good f hn hw (lvl + 1)
      refine ⟨.not (.paren e), by simp [exprOf, h1], by simp [logicalConnector, render, parenToks, h2], by simp [wf, h3, level], ?_⟩
      intro ev H
      simp [H.not_, H.paren_, h4 ev H, c7nDenote, c7nAll]
  | .not (.cons f (.cons g r)), hn, hw, lvl => by
      simp only [nonEmpty, Bool.and_eq_true] at hn
      simp only [clausesWF] at hw
      have hG := goodAll (.cons f (.cons g r)) hn.2 hw (lvl + 1)
      obtain ⟨es, j, e1, j1, j2, j3, j4⟩ := good_of_and_join lvl _ (by simp [Filters.length]) hG
      refine ⟨.not (.paren j), ?_, ?_, by simp [wf, j3, level], ?_⟩
      · simp [exprOf, e1, j1]
      · simp [logicalConnector, render, parenToks, j2]
      · intro ev H; simp [H.not_, H.paren_, j4 ev H, c7nDenote]
  | .or fs, hn, hw, lvl => by
      simp only [nonEmpty, Bool.and_eq_true, bne_iff_ne, ne_eq] at hn
      simp only [clausesWF] at hw
      have hG := goodAll fs hn.2 hw (lvl + 1)
      obtain ⟨es, j, e1, j1, j2, j3, j4⟩ := good_of_or_join lvl _ hn.1 hG
      refine ⟨parenIfDeepE lvl j, ?_, ?_, wf_parenIfDeepE lvl j j3, ?_⟩
      · simp [exprOf, e1, j1]
      · simp [logicalConnector, render_parenIfDeepE, j2]
      · intro ev H; simp [ev_parenIfDeepE H, j4 ev H, c7nDenote]
  | .and fs, hn, hw, lvl => by
      simp only [nonEmpty, Bool.and_eq_true, bne_iff_ne, ne_eq] at hn
      simp only [clausesWF] at hw
      have hG := goodAll fs hn.2 hw (lvl + 1)
      obtain ⟨es, j, e1, j1, j2, j3, j4⟩ := good_of_and_join lvl _ hn.1 hG
      refine ⟨parenIfDeepE lvl j, ?_, ?_, wf_parenIfDeepE lvl j j3, ?_⟩
      · simp [exprOf, e1, j1]
      · simp [logicalConnector, render_parenIfDeepE, j2]
      · intro ev H; simp [ev_parenIfDeepE H, j4 ev H, c7nDenote]
  | .list fs, hn, hw, lvl => by
      simp only [nonEmpty, Bool.and_eq_true, bne_iff_ne, ne_eq] at hn
      simp only [clausesWF] at hw
      have hG := goodAll fs hn.2 hw (lvl + 1)
      obtain ⟨es, j, e1, j1, j2, j3, j4⟩ := good_of_and_join lvl _ hn.1 hG
      refine ⟨parenIfDeepE lvl j, ?_, ?_, wf_parenIfDeepE lvl j j3, ?_⟩
      · simp [exprOf, e1, j1]
      · simp [logicalConnector, render_parenIfDeepE, j2]
      · intro ev H; simp [ev_parenIfDeepE H, j4 ev H, c7nDenote]
theorem goodAll : (fs : Filters) → nonEmptyAll fs = true → clausesWFAll fs = true → ∀ lvl, GoodAll lvl fs
  | .nil, _, _, lvl => ⟨[], rfl, rfl, rfl, by simp, fun ev _ => by simp [c7nAll, c7nAny]⟩
  | .cons f r, hn, hw, lvl => by
      simp only [nonEmptyAll, Bool.and_eq_true] at hn
      simp only [clausesWFAll, Bool.and_eq_true] at hw
      obtain ⟨e, h1, h2, h3, h4⟩ := good f hn.1 hw.1 lvl
      obtain ⟨es, g1, g2, g3, g4, g5⟩ := goodAll r hn.2 hw.2 lvl
      refine ⟨e :: es, by simp [exprsOf, h1, g1], by simp [connectAll, h2, g2], by simp [Filters.length, g3], ?_, ?_⟩
      · intro x hx
        simp only [List.mem_cons] at hx
        rcases hx with rfl | hx
        · exact h3
        · exact g4 x hx
      · intro ev H
        simp [c7nAll, c7nAny, h4 ev H, (g5 ev H).1, (g5 ev H).2]
end

end Cel.Xlate
