/-
  Lemmas for C05 over Cel.Model.Runtime: the heap operations (`load_annotations`, `load_values`,
  `clone`) are *equivariant* under renaming of root numbers and *local* (they write only cells of the
  root they work on), and an evaluation observes the heap only through `viewAt`, which is invariant
  under such renamings.  Core Lean only.
-/
import Cel.Model.Runtime
namespace Cel.Runtime
open Cel

/-! ## dictionaries -/

theorem NC.find_mem : ∀ {nc : NC} {k : String} {r : Ref}, nc.find k = some r → (k, r) ∈ nc
  | [], _, _, h => by simp [NC.find] at h
  | (k', r') :: rest, k, r, h => by
    simp only [NC.find] at h
    by_cases hk : k' = k
    · simp [hk] at h; subst h; subst hk; simp
    · simp [hk] at h; exact List.mem_cons_of_mem _ (NC.find_mem h)

theorem NC.find_append (a b : NC) (k : String) :
    NC.find (a ++ b) k = match NC.find a k with | some r => some r | none => NC.find b k := by
  induction a with
  | nil => simp [NC.find]
  | cons x rest ih =>
    obtain ⟨k', r'⟩ := x
    simp only [List.cons_append, NC.find]
    by_cases hk : k' = k <;> simp [hk, ih]

theorem NC.mem_modify {nc : NC} {k : String} {f : Ref → Ref} {kr : String × Ref} (h : kr ∈ nc.modify k f) :
    kr ∈ nc ∨ ∃ r, (k, r) ∈ nc ∧ kr = (k, f r) := by
  induction nc with
  | nil => simp [NC.modify] at h
  | cons x rest ih =>
    obtain ⟨k', r'⟩ := x
    simp only [NC.modify] at h
    by_cases hk : k' = k
    · simp [hk] at h
      rcases h with h | h
      · right; exact ⟨r', by simp [hk], h⟩
      · left; exact List.mem_cons_of_mem _ h
    · simp [hk] at h
      rcases h with h | h
      · left; simp [h]
      · rcases ih h with h' | ⟨r, hr, he⟩
        · left; exact List.mem_cons_of_mem _ h'
        · right; exact ⟨r, List.mem_cons_of_mem _ hr, he⟩

theorem NC.mem_setdefault {nc : NC} {k : String} {r : Ref} {kr : String × Ref} (h : kr ∈ nc.setdefault k r) :
    kr ∈ nc ∨ kr = (k, r) := by
  unfold NC.setdefault at h
  cases hf : nc.find k with
  | some _ => simp [hf] at h; exact Or.inl h
  | none => simp [hf] at h; exact h

/-! ## heap get/set -/

@[simp] theorem Heap.get_set (h : Heap) (i j : Id) (nc : NC) :
    (h.set i nc).get j = if i = j then some nc else h.get j := by
  simp [Heap.get, Heap.set, cellsGet]

@[simp] theorem Heap.next_set (h : Heap) (i : Id) (nc : NC) : (h.set i nc).next = h.next := rfl
@[simp] theorem Heap.get_fresh (h : Heap) (i : Id) : h.fresh.1.get i = h.get i := rfl
@[simp] theorem Heap.next_fresh (h : Heap) : h.fresh.1.next = h.next + 1 := rfl
@[simp] theorem Heap.fresh_snd (h : Heap) : h.fresh.2 = h.next := rfl

/-! ## renaming of roots -/

def rid (ρ : Nat → Nat) (i : Id) : Id := (ρ i.1, i.2)
def Ref.ren (ρ : Nat → Nat) (r : Ref) : Ref := { r with cont := r.cont.map (rid ρ) }
def NC.ren (ρ : Nat → Nat) (nc : NC) : NC := nc.map fun kr => (kr.1, kr.2.ren ρ)

@[simp] theorem rid_fst (ρ) (i : Id) : (rid ρ i).1 = ρ i.1 := rfl
@[simp] theorem rid_snd (ρ) (i : Id) : (rid ρ i).2 = i.2 := rfl
@[simp] theorem rid_mk (ρ) (a : Nat) (q : List String) : rid ρ (a, q) = (ρ a, q) := rfl
@[simp] theorem NC.ren_nil (ρ) : NC.ren ρ [] = [] := rfl
@[simp] theorem Ref.ren_cont (ρ) (r : Ref) : (r.ren ρ).cont = r.cont.map (rid ρ) := rfl
@[simp] theorem Ref.ren_ann (ρ) (r : Ref) : (r.ren ρ).ann = r.ann := rfl
@[simp] theorem Ref.ren_val (ρ) (r : Ref) : (r.ren ρ).val = r.val := rfl
@[simp] theorem Ref.ren_default (ρ) : ({} : Ref).ren ρ = {} := rfl

theorem NC.find_ren (ρ) (nc : NC) (k : String) : (nc.ren ρ).find k = (nc.find k).map (Ref.ren ρ) := by
  induction nc with
  | nil => simp [NC.find, NC.ren]
  | cons x rest ih =>
    obtain ⟨k', r'⟩ := x
    simp only [NC.ren, List.map_cons, NC.find] at ih ⊢
    by_cases hk : k' = k <;> simp [hk, ih]

theorem NC.ren_append (ρ) (a b : NC) : NC.ren ρ (a ++ b) = NC.ren ρ a ++ NC.ren ρ b := by
  simp [NC.ren]

theorem NC.setdefault_ren (ρ) (nc : NC) (k : String) (r : Ref) :
    (nc.ren ρ).setdefault k (r.ren ρ) = (nc.setdefault k r).ren ρ := by
  unfold NC.setdefault
  rw [NC.find_ren]
  cases nc.find k <;> simp [NC.ren]

theorem NC.modify_ren (ρ) (nc : NC) (k : String) (f g : Ref → Ref) (hfg : ∀ r, g (r.ren ρ) = (f r).ren ρ) :
    (nc.ren ρ).modify k g = (nc.modify k f).ren ρ := by
  induction nc with
  | nil => simp [NC.modify, NC.ren]
  | cons x rest ih =>
    obtain ⟨k', r'⟩ := x
    simp only [NC.ren, List.map_cons, NC.modify] at ih ⊢
    by_cases hk : k' = k <;> simp [hk, ih, hfg]

theorem Ref.view_ren (ρ) (r : Ref) : (r.ren ρ).view = r.view := by
  cases r with | mk a c v => cases c <;> rfl

theorem NC.view_ren (ρ) (nc : NC) : (nc.ren ρ).view = nc.view := by
  simp [NC.view, NC.ren, List.map_map, Function.comp_def, Ref.view_ren]

/-- renaming only looks at the roots that occur in `container` references -/
theorem NC.ren_congr (ρ ρ' : Nat → Nat) (nc : NC)
    (h : ∀ kr ∈ nc, ∀ c, kr.2.cont = some c → ρ c.1 = ρ' c.1) : nc.ren ρ = nc.ren ρ' := by
  unfold NC.ren
  apply List.map_congr_left
  intro kr hkr
  obtain ⟨k, r⟩ := kr
  cases r with | mk a c v =>
  cases c with
  | none => rfl
  | some c =>
    have := h _ hkr c rfl
    simp [Ref.ren, rid, this]

/-! ## the simulation relation between two heaps -/

/-- every `container` reference stays inside the root of the cell that holds it (what deep cloning maintains) -/
def SC (h : Heap) : Prop :=
  ∀ i nc kr c, h.get i = some nc → kr ∈ nc → kr.2.cont = some c → c.1 = i.1

/-- the cells of the roots in `S` of `h` are, up to renaming roots by `ρ`, the cells of the roots `ρ S` of `h0` -/
structure Sim (ρ : Nat → Nat) (S : Nat → Prop) (h h0 : Heap) : Prop where
  iso : ∀ a q, S a → h0.get (ρ a, q) = (h.get (a, q)).map (NC.ren ρ)
  sc : SC h
  inj : ∀ a b, S a → S b → ρ a = ρ b → a = b
  bnd : ∀ i nc, h.get i = some nc → i.1 < h.next
  bnd0 : ∀ i nc, h0.get i = some nc → i.1 < h0.next
  dom : ∀ a, S a → a < h.next ∧ ρ a < h0.next

/-- relation between two outcomes in `PyM` -/
def ERel {α β} (P : α → β → Prop) : PyM α → PyM β → Prop
  | .ok a, .ok b => P a b
  | .error e, .error e' => e = e'
  | _, _ => False

theorem SC.set {h : Heap} (hs : SC h) (i : Id) (nc : NC)
    (hn : ∀ kr ∈ nc, ∀ c, kr.2.cont = some c → c.1 = i.1) : SC (h.set i nc) := by
  intro j nc' kr c hg hm hc
  rw [Heap.get_set] at hg
  by_cases hij : i = j
  · simp [hij] at hg; subst hg; subst hij; exact hn kr hm c hc
  · simp [hij] at hg; exact hs j nc' kr c hg hm hc

/-- writing related contents at related places keeps the relation -/
theorem Sim.set {ρ S h h0} (hR : Sim ρ S h h0) {a : Nat} (q : List String) (ha : S a) (nc : NC)
    (hn : ∀ kr ∈ nc, ∀ c, kr.2.cont = some c → c.1 = a) :
    Sim ρ S (h.set (a, q) nc) (h0.set (ρ a, q) (nc.ren ρ)) where
  iso := by
    intro b q' hb
    simp only [Heap.get_set]
    by_cases hab : (a, q) = (b, q')
    · have : (ρ a, q) = (ρ b, q') := by cases hab; rfl
      simp [hab, this]
    · have : ¬ (ρ a, q) = (ρ b, q') := by
        intro he
        apply hab
        have h1 : ρ a = ρ b := congrArg Prod.fst he
        have h2 : q = q' := congrArg Prod.snd he
        rw [hR.inj a b ha hb h1, h2]
      simp [hab, this, hR.iso b q' hb]
  sc := hR.sc.set (a, q) nc hn
  inj := hR.inj
  bnd := by
    intro i nc' hg
    rw [Heap.get_set] at hg
    by_cases hi : (a, q) = i
    · subst hi; exact (hR.dom a ha).1
    · simp [hi] at hg; exact hR.bnd i nc' hg
  bnd0 := by
    intro i nc' hg
    rw [Heap.get_set] at hg
    by_cases hi : (ρ a, q) = i
    · subst hi; exact (hR.dom a ha).2
    · simp [hi] at hg; exact hR.bnd0 i nc' hg
  dom := hR.dom

/-- `h'` differs from `h` only in cells of root `a` -/
def Frame (a : Nat) (h h' : Heap) : Prop := (∀ i, i.1 ≠ a → h'.get i = h.get i) ∧ h'.next = h.next

theorem Frame.refl (a : Nat) (h : Heap) : Frame a h h := ⟨fun _ _ => rfl, rfl⟩
theorem Frame.trans {a h h' h''} (f1 : Frame a h h') (f2 : Frame a h' h'') : Frame a h h'' :=
  ⟨fun i hi => (f2.1 i hi).trans (f1.1 i hi), f2.2.trans f1.2⟩
theorem Frame.set (a : Nat) (h : Heap) (q : List String) (nc : NC) : Frame a h (h.set (a, q) nc) := by
  refine ⟨fun i hi => ?_, rfl⟩
  rw [Heap.get_set]
  have : ¬ (a, q) = i := fun he => hi (by rw [← he])
  simp [this]

/-! ## `descend`, `load_annotations`, `load_values` -/

theorem descend_sim {ρ S h h0} (hR : Sim ρ S h h0) {a : Nat} (ha : S a) (q : List String) (k : String) :
    ERel (fun x y => Sim ρ S x.1 y.1 ∧ y.2 = rid ρ x.2 ∧ x.2.1 = a ∧ Frame a h x.1)
      (descend h (a, q) k) (descend h0 (ρ a, q) k) := by
  unfold descend
  rw [hR.iso a q ha]
  cases hg : h.get (a, q) with
  | none => simp [ERel]
  | some nc =>
    have hsc := hR.sc (a, q) nc
    simp only [Option.map_some]
    have e1 : (nc.ren ρ).setdefault k {} = (nc.setdefault k {}).ren ρ := by
      have := NC.setdefault_ren ρ nc k {}
      simpa using this
    rw [e1, NC.find_ren]
    have hn1 : ∀ kr ∈ nc.setdefault k {}, ∀ c, kr.2.cont = some c → c.1 = a := by
      intro kr hm c hc
      rcases NC.mem_setdefault hm with h' | h'
      · exact hsc kr c hg h' hc
      · subst h'; simp at hc
    cases hf : (nc.setdefault k {}).find k with
    | none =>
      simp only [Option.map_none, Option.bind_none, ERel]
      have hm : (NC.ren ρ (nc.setdefault k {})).modify k (fun r => { r with cont := some (ρ a, q ++ [k]) })
          = ((nc.setdefault k {}).modify k (fun r => { r with cont := some (a, q ++ [k]) })).ren ρ :=
        NC.modify_ren ρ _ k _ _ (fun r => by simp [Ref.ren, rid])
      rw [hm]
      have hn2 : ∀ kr ∈ (nc.setdefault k {}).modify k (fun r => { r with cont := some (a, q ++ [k]) }),
          ∀ c, kr.2.cont = some c → c.1 = a := by
        intro kr hm' c hc
        rcases NC.mem_modify hm' with h' | ⟨r, _, he⟩
        · exact hn1 kr h' c hc
        · subst he; simp at hc; subst hc; rfl
      have s1 := hR.set q ha _ hn2
      have s2 := s1.set (q ++ [k]) ha [] (by simp)
      exact ⟨by simpa using s2, (by first | rfl | trivial), (by first | rfl | trivial), (Frame.set a h q _).trans (Frame.set a _ (q ++ [k]) [])⟩
    | some r =>
      cases hc : r.cont with
      | none =>
        simp only [Option.map_some, Option.bind_some, Ref.ren_cont, hc, Option.map_none, ERel]
        have hm : (NC.ren ρ (nc.setdefault k {})).modify k (fun r => { r with cont := some (ρ a, q ++ [k]) })
            = ((nc.setdefault k {}).modify k (fun r => { r with cont := some (a, q ++ [k]) })).ren ρ :=
          NC.modify_ren ρ _ k _ _ (fun r => by simp [Ref.ren, rid])
        rw [hm]
        have hn2 : ∀ kr ∈ (nc.setdefault k {}).modify k (fun r => { r with cont := some (a, q ++ [k]) }),
            ∀ c, kr.2.cont = some c → c.1 = a := by
          intro kr hm' c hc
          rcases NC.mem_modify hm' with h' | ⟨r, _, he⟩
          · exact hn1 kr h' c hc
          · subst he; simp at hc; subst hc; rfl
        have s1 := hR.set q ha _ hn2
        have s2 := s1.set (q ++ [k]) ha [] (by simp)
        exact ⟨by simpa using s2, (by first | rfl | trivial), (by first | rfl | trivial), (Frame.set a h q _).trans (Frame.set a _ (q ++ [k]) [])⟩
      | some c =>
        simp only [Option.map_some, Option.bind_some, Ref.ren_cont, hc, ERel]
        have hc1 : c.1 = a := hn1 (k, r) (NC.find_mem hf) c hc
        exact ⟨hR.set q ha _ hn1, (by first | rfl | trivial), hc1, Frame.set a h q _⟩

theorem ERel.imp {α β} {P Q : α → β → Prop} {x : PyM α} {y : PyM β} (h : ∀ a b, P a b → Q a b) :
    ERel P x y → ERel Q x y := by
  cases x <;> cases y <;> simp [ERel] <;> first | exact h _ _ | skip

theorem descendPath_sim {ρ S} : ∀ (ks : List String) {h h0 : Heap}, Sim ρ S h h0 → ∀ {a : Nat}, S a → ∀ (q : List String),
    ERel (fun x y => Sim ρ S x.1 y.1 ∧ y.2 = rid ρ x.2 ∧ x.2.1 = a ∧ Frame a h x.1)
      (descendPath h (a, q) ks) (descendPath h0 (ρ a, q) ks)
  | [], h, h0, hR, a, _, q => by simp [descendPath, ERel, hR, Frame.refl, rid]
  | k :: ks, h, h0, hR, a, ha, q => by
    have hd := descend_sim hR ha q k
    unfold descendPath
    cases h1 : descend h (a, q) k <;> cases h2 : descend h0 (ρ a, q) k <;> simp only [h1, h2, ERel] at hd ⊢
    · exact hd
    · rename_i x y
      obtain ⟨h', c1, c2⟩ := x
      obtain ⟨h0', c0⟩ := y
      obtain ⟨hR', hc0, hc1, hf⟩ := hd
      simp only at hc0 hc1 hR' hf
      subst hc0; subst hc1
      exact ERel.imp (fun x y ⟨r1, r2, r3, r4⟩ => ⟨r1, r2, r3, hf.trans r4⟩) (descendPath_sim ks hR' ha c2)

theorem loadAnnotation_sim {ρ S h h0} (hR : Sim ρ S h h0) {a : Nat} (ha : S a) (name : String) (an : Ann) :
    ERel (fun x y => Sim ρ S x y ∧ Frame a h x) (loadAnnotation h (a, []) name an) (loadAnnotation h0 (ρ a, []) name an) := by
  unfold loadAnnotation
  cases splitName name with
  | none => simp [ERel]
  | some segs =>
    simp only
    have hd := descendPath_sim segs.dropLast hR ha []
    cases h1 : descendPath h (a, []) segs.dropLast <;> cases h2 : descendPath h0 (ρ a, []) segs.dropLast <;>
      simp only [h1, h2, ERel] at hd ⊢
    · exact hd
    · rename_i x y
      obtain ⟨h', c1, c2⟩ := x
      obtain ⟨h0', c0⟩ := y
      obtain ⟨hR', hc0, hc1, hf⟩ := hd
      simp only at hc0 hc1 hR' hf
      subst hc0; subst hc1
      simp only [rid_mk]
      rw [hR'.iso c1 c2 ha]
      cases hg : h'.get (c1, c2) with
      | none => simp [ERel]
      | some nc =>
        simp only [Option.map_some, ERel]
        have e1 := NC.setdefault_ren ρ nc (segs.getLastD "") { ann := some an }
        have e2 : (({ ann := some an } : Ref).ren ρ) = { ann := some an } := rfl
        rw [e2] at e1
        rw [e1]
        refine ⟨hR'.set c2 ha _ ?_, hf.trans (Frame.set c1 h' c2 _)⟩
        intro kr hm c hc
        rcases NC.mem_setdefault hm with h'' | h''
        · exact hR'.sc (c1, c2) nc kr c hg h'' hc
        · subst h''; simp at hc

theorem loadAnnotations_sim {ρ S} : ∀ (ds : List (String × Ann)) {h h0 : Heap}, Sim ρ S h h0 → ∀ {a : Nat}, S a →
    ERel (fun x y => Sim ρ S x y ∧ Frame a h x) (loadAnnotations h (a, []) ds) (loadAnnotations h0 (ρ a, []) ds)
  | [], h, h0, hR, a, _ => by simp [loadAnnotations, ERel, hR, Frame.refl]
  | (n, an) :: ds, h, h0, hR, a, ha => by
    have hd := loadAnnotation_sim hR ha n an
    unfold loadAnnotations
    cases h1 : loadAnnotation h (a, []) n an <;> cases h2 : loadAnnotation h0 (ρ a, []) n an <;>
      simp only [h1, h2, ERel] at hd ⊢
    · exact hd
    · exact ERel.imp (fun x y ⟨r1, r2⟩ => ⟨r1, hd.2.trans r2⟩) (loadAnnotations_sim ds hd.1 ha)

theorem loadValue_sim {ρ S h h0} (hR : Sim ρ S h h0) {a : Nat} (ha : S a) (name : String) (v : Val) :
    ERel (fun x y => Sim ρ S x y ∧ Frame a h x) (loadValue h (a, []) name v) (loadValue h0 (ρ a, []) name v) := by
  unfold loadValue
  cases splitName name with
  | none => simp [ERel]
  | some segs =>
    simp only
    have hd := descendPath_sim segs.dropLast hR ha []
    cases h1 : descendPath h (a, []) segs.dropLast <;> cases h2 : descendPath h0 (ρ a, []) segs.dropLast <;>
      simp only [h1, h2, ERel] at hd ⊢
    · exact hd
    · rename_i x y
      obtain ⟨h', c1, c2⟩ := x
      obtain ⟨h0', c0⟩ := y
      obtain ⟨hR', hc0, hc1, hf⟩ := hd
      simp only at hc0 hc1 hR' hf
      subst hc0; subst hc1
      simp only [rid_mk]
      rw [hR'.iso c1 c2 ha]
      cases hg : h'.get (c1, c2) with
      | none => simp [ERel]
      | some nc =>
        simp only [Option.map_some, ERel]
        have e1 := NC.setdefault_ren ρ nc (segs.getLastD "") {}
        rw [Ref.ren_default] at e1
        rw [e1]
        have e3 := NC.modify_ren ρ (nc.setdefault (segs.getLastD "") {}) (segs.getLastD "")
          (fun r => { r with val := some v }) (fun r => { r with val := some v }) (fun r => by simp [Ref.ren])
        rw [e3]
        refine ⟨hR'.set c2 ha _ ?_, hf.trans (Frame.set c1 h' c2 _)⟩
        intro kr hm c hc
        rcases NC.mem_modify hm with h'' | ⟨r, hr, he⟩
        · rcases NC.mem_setdefault h'' with h3 | h3
          · exact hR'.sc (c1, c2) nc kr c hg h3 hc
          · subst h3; simp at hc
        · subst he
          simp only at hc
          rcases NC.mem_setdefault hr with h3 | h3
          · exact hR'.sc (c1, c2) nc _ c hg h3 hc
          · cases h3; simp at hc

theorem loadValues_sim {ρ S} : ∀ (bs : List (String × Val)) {h h0 : Heap}, Sim ρ S h h0 → ∀ {a : Nat}, S a →
    ERel (fun x y => Sim ρ S x y ∧ Frame a h x) (loadValues h (a, []) bs) (loadValues h0 (ρ a, []) bs)
  | [], h, h0, hR, a, _ => by simp [loadValues, ERel, hR, Frame.refl]
  | (n, v) :: bs, h, h0, hR, a, ha => by
    have hd := loadValue_sim hR ha n v
    unfold loadValues
    cases h1 : loadValue h (a, []) n v <;> cases h2 : loadValue h0 (ρ a, []) n v <;>
      simp only [h1, h2, ERel] at hd ⊢
    · exact hd
    · exact ERel.imp (fun x y ⟨r1, r2⟩ => ⟨r1, hd.2.trans r2⟩) (loadValues_sim bs hd.1 ha)

/-! ## `clone` -/

theorem cloneRefs_sim {ρ S} (rec rec0 : Heap → Id → Id → PyM Heap) (b : Nat)
    (hrec : ∀ {h h0 : Heap}, Sim ρ S h h0 → ∀ c d : Id, S c.1 → d.1 = b →
      ERel (fun x y => Sim ρ S x y ∧ Frame b h x) (rec h c d) (rec0 h0 (rid ρ c) (rid ρ d))) (hb : S b) :
    ∀ (nc : NC) (qd : List String) {h h0 : Heap}, Sim ρ S h h0 → (∀ kr ∈ nc, ∀ c, kr.2.cont = some c → S c.1) →
      ERel (fun x y => Sim ρ S x.1 y.1 ∧ y.2 = x.2.ren ρ ∧ (∀ kr ∈ x.2, ∀ c, kr.2.cont = some c → c.1 = b) ∧ Frame b h x.1)
        (cloneRefs .deep rec (b, qd) h nc) (cloneRefs .deep rec0 (ρ b, qd) h0 (nc.ren ρ))
  | [], qd, h, h0, hR, _ => by simp [cloneRefs, ERel, hR, Frame.refl]
  | (k, r) :: rest, qd, h, h0, hR, hS => by
    have hSrest : ∀ kr ∈ rest, ∀ c, kr.2.cont = some c → S c.1 := fun kr hm => hS kr (List.mem_cons_of_mem _ hm)
    cases hc : r.cont with
    | none =>
      have ih := cloneRefs_sim rec rec0 b hrec hb rest qd hR hSrest
      simp only [NC.ren, List.map_cons, cloneRefs, Ref.ren_cont, hc, Option.map_none]
      simp only [NC.ren] at ih
      cases h1 : cloneRefs .deep rec (b, qd) h rest <;>
        cases h2 : cloneRefs .deep rec0 (ρ b, qd) h0 (List.map (fun kr => (kr.1, kr.2.ren ρ)) rest) <;>
        simp only [h1, h2, ERel] at ih ⊢
      · exact ih
      · obtain ⟨r1, r2, r3, r4⟩ := ih
        refine ⟨r1, ?_, ?_, r4⟩
        · rw [r2]; simp [NC.ren, Ref.ren]
        · intro kr hm c hc'
          simp only [List.mem_cons] at hm
          rcases hm with hm | hm
          · subst hm; simp at hc'
          · exact r3 kr hm c hc'
    | some c =>
      have hSc : S c.1 := hS (k, r) (by simp) c hc
      have hr := hrec hR c (b, qd ++ [k]) hSc rfl
      simp only [NC.ren, List.map_cons, cloneRefs, Ref.ren_cont, hc, Option.map_some, rid_mk]
      simp only [rid_mk] at hr
      cases h1 : rec h c (b, qd ++ [k]) <;> cases h2 : rec0 h0 (rid ρ c) (ρ b, qd ++ [k]) <;>
        simp only [h1, h2, ERel] at hr ⊢
      · exact hr
      · rename_i hx hy
        have ih := cloneRefs_sim rec rec0 b hrec hb rest qd hr.1 hSrest
        simp only [NC.ren] at ih
        cases h3 : cloneRefs .deep rec (b, qd) hx rest <;>
          cases h4 : cloneRefs .deep rec0 (ρ b, qd) hy (List.map (fun kr => (kr.1, kr.2.ren ρ)) rest) <;>
          simp only [h3, h4, ERel] at ih ⊢
        · exact ih
        · obtain ⟨r1, r2, r3, r4⟩ := ih
          refine ⟨r1, ?_, ?_, hr.2.trans r4⟩
          · rw [r2]; simp [NC.ren, Ref.ren, rid]
          · intro kr hm c' hc'
            simp only [List.mem_cons] at hm
            rcases hm with hm | hm
            · subst hm; simp at hc'; subst hc'; rfl
            · exact r3 kr hm c' hc'

theorem cloneInto_sim {ρ S} (b : Nat) (hb : S b) : ∀ (f : Nat) {h h0 : Heap}, Sim ρ S h h0 → ∀ c d : Id, S c.1 → d.1 = b →
    ERel (fun x y => Sim ρ S x y ∧ Frame b h x) (cloneInto .deep f h c d) (cloneInto .deep f h0 (rid ρ c) (rid ρ d))
  | 0, h, h0, _, c, d, _, _ => by simp [cloneInto, ERel]
  | f + 1, h, h0, hR, c, d, hc, hd => by
    obtain ⟨c1, c2⟩ := c
    obtain ⟨d1, d2⟩ := d
    simp only at hc hd
    subst hd
    simp only [cloneInto, rid_mk]
    rw [hR.iso c1 c2 hc]
    cases hg : h.get (c1, c2) with
    | none => simp [ERel]
    | some nc =>
      simp only [Option.map_some]
      have hS : ∀ kr ∈ nc, ∀ c, kr.2.cont = some c → S c.1 := by
        intro kr hm c hcc
        have := hR.sc (c1, c2) nc kr c hg hm hcc
        simp only at this
        rw [this]; exact hc
      have hr := cloneRefs_sim (cloneInto .deep f) (cloneInto .deep f) d1
        (fun {h h0} hR' c d hc' hd' => cloneInto_sim d1 hb f hR' c d hc' hd') hb nc d2 hR hS
      cases h1 : cloneRefs .deep (cloneInto .deep f) (d1, d2) h nc <;>
        cases h2 : cloneRefs .deep (cloneInto .deep f) (ρ d1, d2) h0 (nc.ren ρ) <;>
        simp only [h1, h2, ERel] at hr ⊢
      · exact hr
      · obtain ⟨r1, r2, r3, r4⟩ := hr
        rw [r2]
        exact ⟨r1.set d2 hb _ r3, r4.trans (Frame.set d1 _ d2 _)⟩

/-! ## reading -/

theorem walk_root {h : Heap} (hs : SC h) : ∀ (ks : List String) (i j : Id), walk h i ks = some j → j.1 = i.1
  | [], i, j, hw => by simp [walk] at hw; rw [hw]
  | k :: ks, i, j, hw => by
    simp only [walk] at hw
    cases hg : h.get i with
    | none => simp [hg] at hw
    | some nc =>
      simp only [hg] at hw
      cases hf : nc.find k with
      | none => simp [hf] at hw
      | some r =>
        cases hc : r.cont with
        | none => simp [hf, hc] at hw
        | some c =>
          simp only [hf, hc, Option.bind_some] at hw
          have h1 := walk_root hs ks c j hw
          have h2 := hs i nc (k, r) c hg (NC.find_mem hf) hc
          rw [h1, h2]

theorem walk_sim {ρ S h h0} (hR : Sim ρ S h h0) : ∀ (ks : List String) (i : Id), S i.1 →
    walk h0 (rid ρ i) ks = (walk h i ks).map (rid ρ)
  | [], i, _ => rfl
  | k :: ks, (a, q), ha => by
    simp only [walk, rid_mk]
    rw [hR.iso a q ha]
    cases hg : h.get (a, q) with
    | none => simp
    | some nc =>
      simp only [Option.map_some, NC.find_ren]
      cases hf : nc.find k with
      | none => simp
      | some r =>
        cases hc : r.cont with
        | none => simp [hc]
        | some c =>
          simp only [Option.map_some, Option.bind_some, Ref.ren_cont, hc]
          have h2 : c.1 = a := hR.sc (a, q) nc (k, r) c hg (NC.find_mem hf) hc
          exact walk_sim hR ks c (by rw [h2]; exact ha)

theorem viewAt_sim {ρ S h h0} (hR : Sim ρ S h h0) (i : Id) (hi : S i.1) : viewAt h0 (rid ρ i) = viewAt h i := by
  funext q
  unfold viewAt
  rw [walk_sim hR q i hi]
  cases hw : walk h i q with
  | none => rfl
  | some j =>
    obtain ⟨j1, j2⟩ := j
    have hj : j1 = i.1 := walk_root hR.sc q i (j1, j2) hw
    simp only [Option.map_some, rid_mk]
    rw [hR.iso j1 j2 (by rw [hj]; exact hi)]
    cases h.get (j1, j2) with
    | none => rfl
    | some nc => simp [NC.view_ren]

theorem finish_sim {ρ S h h0} (hR : Sim ρ S h h0) (i : Id) (hi : S i.1) (sk : Bool) (kind : Kind) (pkg : Option String) (e : Expr) :
    finish sk kind h0 (rid ρ i) pkg e = finish sk kind h i pkg e := by
  unfold finish
  rw [viewAt_sim hR i hi]

/-! ## fresh roots; `new_activation`; `clone` + `load_values` -/

def upd (ρ : Nat → Nat) (r r0 : Nat) : Nat → Nat := fun x => if x = r then r0 else ρ x

@[simp] theorem upd_same (ρ r r0) : upd ρ r r0 r = r0 := by simp [upd]
theorem upd_other (ρ) {r r0 x : Nat} (h : x ≠ r) : upd ρ r r0 x = ρ x := by simp [upd, h]

theorem Sim.fresh {ρ S h h0} (hR : Sim ρ S h h0) :
    Sim (upd ρ h.next h0.next) (fun x => S x ∨ x = h.next) h.fresh.1 h0.fresh.1 where
  iso := by
    intro a q ha
    simp only [Heap.get_fresh]
    rcases ha with ha | ha
    · have hlt := (hR.dom a ha).1
      rw [upd_other ρ (Nat.ne_of_lt hlt), hR.iso a q ha]
      cases hg : h.get (a, q) with
      | none => rfl
      | some nc =>
        simp only [Option.map_some]
        congr 1
        apply NC.ren_congr
        intro kr hm c hc
        have : c.1 = a := hR.sc (a, q) nc kr c hg hm hc
        rw [this, upd_other ρ (Nat.ne_of_lt hlt)]
    · subst ha
      rw [upd_same]
      have h1 : h.get (h.next, q) = none := by
        cases hg : h.get (h.next, q) with
        | none => rfl
        | some nc => exact absurd (hR.bnd _ nc hg) (Nat.lt_irrefl _)
      have h2 : h0.get (h0.next, q) = none := by
        cases hg : h0.get (h0.next, q) with
        | none => rfl
        | some nc => exact absurd (hR.bnd0 _ nc hg) (Nat.lt_irrefl _)
      rw [h1, h2]; rfl
  sc := hR.sc
  inj := by
    intro a b ha hb hab
    rcases ha with ha | ha <;> rcases hb with hb | hb
    · rw [upd_other ρ (Nat.ne_of_lt (hR.dom a ha).1), upd_other ρ (Nat.ne_of_lt (hR.dom b hb).1)] at hab
      exact hR.inj a b ha hb hab
    · subst hb
      rw [upd_other ρ (Nat.ne_of_lt (hR.dom a ha).1), upd_same] at hab
      exact absurd hab (Nat.ne_of_lt (hR.dom a ha).2)
    · subst ha
      rw [upd_other ρ (Nat.ne_of_lt (hR.dom b hb).1), upd_same] at hab
      exact absurd hab.symm (Nat.ne_of_lt (hR.dom b hb).2)
    · rw [ha, hb]
  bnd := fun i nc hg => Nat.lt_succ_of_lt (hR.bnd i nc hg)
  bnd0 := fun i nc hg => Nat.lt_succ_of_lt (hR.bnd0 i nc hg)
  dom := by
    intro a ha
    simp only [Heap.next_fresh]
    rcases ha with ha | ha
    · rw [upd_other ρ (Nat.ne_of_lt (hR.dom a ha).1)]
      exact ⟨Nat.lt_succ_of_lt (hR.dom a ha).1, Nat.lt_succ_of_lt (hR.dom a ha).2⟩
    · subst ha; rw [upd_same]; exact ⟨Nat.lt_succ_self _, Nat.lt_succ_self _⟩

/-- what a set-up step guarantees: the relation extended by the fresh root, and the old cells untouched -/
def SetupPost (ρ : Nat → Nat) (S : Nat → Prop) (h h0 : Heap) (x y : Heap × Id) : Prop :=
  Sim (upd ρ h.next h0.next) (fun a => S a ∨ a = h.next) x.1 y.1 ∧ x.2 = (h.next, []) ∧ y.2 = (h0.next, []) ∧
    (∀ i : Id, i.1 < h.next → x.1.get i = h.get i) ∧ x.1.next = h.next + 1

theorem newActivation_sim {ρ S h h0} (hR : Sim ρ S h h0) (ds : List (String × Ann)) :
    ERel (SetupPost ρ S h h0) (newActivation h ds) (newActivation h0 ds) := by
  unfold newActivation
  simp only [Heap.fresh_snd]
  have hF := hR.fresh
  have hn : (fun x => S x ∨ x = h.next) h.next := Or.inr rfl
  have s1 := hF.set [] hn [] (by simp)
  simp only [upd_same, NC.ren_nil] at s1
  have hl := loadAnnotations_sim ds s1 hn
  simp only [upd_same] at hl
  cases h1 : loadAnnotations (h.fresh.1.set (h.next, []) []) (h.next, []) ds <;>
    cases h2 : loadAnnotations (h0.fresh.1.set (h0.next, []) []) (h0.next, []) ds <;>
    simp only [h1, h2, ERel] at hl ⊢
  · exact hl
  · refine ⟨hl.1, rfl, rfl, ?_, ?_⟩
    · intro i hi
      rw [hl.2.1 i (Nat.ne_of_lt hi)]
      have : ¬ (h.next, ([] : List String)) = i := fun he => absurd hi (by rw [← he]; exact Nat.lt_irrefl _)
      simp [this]
    · rw [hl.2.2]; rfl

theorem cloneAndLoad_sim {ρ S h h0} (hR : Sim ρ S h h0) (cfg : Config) (hc : cfg.clone = .deep) (base : Id) (hb : S base.1)
    (b : Bindings) :
    ERel (SetupPost ρ S h h0) (cloneAndLoad cfg h base b) (cloneAndLoad cfg h0 (rid ρ base) b) := by
  unfold cloneAndLoad
  simp only [Heap.fresh_snd, hc]
  have hF := hR.fresh
  have hn : (fun x => S x ∨ x = h.next) h.next := Or.inr rfl
  have hbase : (fun x => S x ∨ x = h.next) base.1 := Or.inl hb
  have hcl := cloneInto_sim h.next hn cloneFuel hF base (h.next, []) hbase rfl
  have e1 : rid (upd ρ h.next h0.next) base = rid ρ base := by
    unfold rid
    rw [upd_other ρ (Nat.ne_of_lt (hR.dom base.1 hb).1)]
  simp only [rid_mk, upd_same, e1] at hcl
  cases h1 : cloneInto .deep cloneFuel h.fresh.1 base (h.next, []) <;>
    cases h2 : cloneInto .deep cloneFuel h0.fresh.1 (rid ρ base) (h0.next, []) <;>
    simp only [h1, h2, ERel] at hcl ⊢
  · exact hcl
  · rename_i hx hy
    have hl := loadValues_sim b hcl.1 hn
    simp only [upd_same] at hl
    cases h3 : loadValues hx (h.next, []) b <;> cases h4 : loadValues hy (h0.next, []) b <;>
      simp only [h3, h4, ERel] at hl ⊢
    · exact hl
    · refine ⟨hl.1, rfl, rfl, ?_, ?_⟩
      · intro i hi
        rw [hl.2.1 i (Nat.ne_of_lt hi), hcl.2.1 i (Nat.ne_of_lt hi)]
        rfl
      · rw [hl.2.2, hcl.2.2]; rfl

/-! ## world level -/

theorem ERel.ok_left {α β} {P : α → β → Prop} {x : PyM α} {y : PyM β} {a : α} (h : ERel P x y) (hx : x = .ok a) :
    ∃ b, y = .ok b ∧ P a b := by
  subst hx
  cases y with
  | error e => simp [ERel] at h
  | ok b => exact ⟨b, rfl, h⟩

theorem ERel.error_left {α β} {P : α → β → Prop} {x : PyM α} {y : PyM β} {e : Exc} (h : ERel P x y) (hx : x = .error e) :
    y = .error e := by
  subst hx
  cases y with
  | error e' => simp [ERel] at h; rw [h]
  | ok b => simp [ERel] at h

theorem Sim.congr {ρ ρ' S S' h h0} (hR : Sim ρ S h h0) (hS : ∀ a, S' a → S a) (hρ : ∀ a, S' a → ρ' a = ρ a) :
    Sim ρ' S' h h0 where
  iso := by
    intro a q ha
    rw [hρ a ha, hR.iso a q (hS a ha)]
    cases hg : h.get (a, q) with
    | none => rfl
    | some nc =>
      simp only [Option.map_some]
      congr 1
      apply NC.ren_congr
      intro kr hm c hc
      have : c.1 = a := hR.sc (a, q) nc kr c hg hm hc
      rw [this, hρ a ha]
  sc := hR.sc
  inj := by
    intro a b ha hb hab
    rw [hρ a ha, hρ b hb] at hab
    exact hR.inj a b (hS a ha) (hS b hb) hab
  bnd := hR.bnd
  bnd0 := hR.bnd0
  dom := by
    intro a ha
    rw [hρ a ha]
    exact hR.dom a (hS a ha)

/-- the relation survives any change of `h` that leaves the related roots alone -/
theorem Sim.frame {ρ S h h0 h'} (hR : Sim ρ S h h0) (hf : ∀ i : Id, S i.1 → h'.get i = h.get i) (hs : SC h')
    (hb : ∀ i nc, h'.get i = some nc → i.1 < h'.next) (hn : h.next ≤ h'.next) : Sim ρ S h' h0 where
  iso := by
    intro a q ha
    rw [hf (a, q) ha]
    exact hR.iso a q ha
  sc := hs
  inj := hR.inj
  bnd := hb
  bnd0 := hR.bnd0
  dom := fun a ha => ⟨Nat.lt_of_lt_of_le (hR.dom a ha).1 hn, (hR.dom a ha).2⟩

/-- nothing in common: any well-formed heap against the empty heap -/
theorem Sim.empty (h : Heap) (hs : SC h) (hb : ∀ i nc, h.get i = some nc → i.1 < h.next) :
    Sim id (fun _ => False) h {} where
  iso := fun _ _ hf => hf.elim
  sc := hs
  inj := fun _ _ hf => hf.elim
  bnd := hb
  bnd0 := by intro i nc hg; simp [Heap.get, cellsGet] at hg
  dom := fun _ hf => hf.elim

/-- an activation set up and evaluated from the heap `h` (what `InterpretedRunner.evaluate` does each time, and
what a compiled program does with its construction-time activation): the observation -/
def evalFrom (cfg : Config) (kind : Kind) (h : Heap) (decls : List (String × Ann)) (pkg : Option String) (e : Expr)
    (b : Bindings) : Obs :=
  match newActivation h decls with
  | .error x => setupExc x
  | .ok (h1, base) =>
    if b.isEmpty then finish cfg.skipTE kind h1 base pkg e
    else match cloneAndLoad cfg h1 base b with
      | .error x => setupExc x
      | .ok (h2, act) => finish cfg.skipTE kind h2 act pkg e

/-- evaluation from any well-formed heap observes what it observes from the empty heap -/
theorem evalFrom_indep (cfg : Config) (hc : cfg.clone = .deep) (kind : Kind) (h : Heap) (hs : SC h)
    (hb : ∀ i nc, h.get i = some nc → i.1 < h.next) (decls pkg e b) :
    evalFrom cfg kind h decls pkg e b = evalFrom cfg kind {} decls pkg e b := by
  unfold evalFrom
  have hn := newActivation_sim (Sim.empty h hs hb) decls
  cases h1 : newActivation h decls <;> cases h2 : newActivation {} decls <;> simp only [h1, h2, ERel] at hn ⊢
  · rw [hn]
  · rename_i x y
    obtain ⟨hx, bx⟩ := x
    obtain ⟨hy, by'⟩ := y
    obtain ⟨hR, e1, e2, _, _⟩ := hn
    simp only at hR e1 e2
    subst e1; subst e2
    have hin : (fun a => False ∨ a = h.next) (h.next, ([] : List String)).1 := Or.inr rfl
    by_cases hbe : b.isEmpty
    · rw [if_pos hbe, if_pos hbe]
      have := finish_sim hR (h.next, []) hin cfg.skipTE kind pkg e
      simp only [rid_mk, upd_same, show (({} : Heap).next) = 0 from rfl] at this
      exact this.symm
    · rw [if_neg hbe, if_neg hbe]
      have hcl := cloneAndLoad_sim hR cfg hc (h.next, []) hin b
      simp only [rid_mk, upd_same, show (({} : Heap).next) = 0 from rfl] at hcl
      cases h3 : cloneAndLoad cfg hx (h.next, []) b <;>
        cases h4 : cloneAndLoad cfg hy (0, []) b <;> simp only [h3, h4, ERel] at hcl ⊢
      · rw [hcl]
      · rename_i x' y'
        obtain ⟨hx', ax⟩ := x'
        obtain ⟨hy', ay⟩ := y'
        obtain ⟨hR', e1, e2, _, _⟩ := hcl
        simp only at hR' e1 e2
        subst e1; subst e2
        have := finish_sim hR' (hx.next, []) (Or.inr rfl) cfg.skipTE kind pkg e
        simp only [rid_mk, upd_same] at this
        exact this.symm

/-- the construction-time activation of a compiled program: as reachable in the heap it is (up to the root
number) the activation built from its declarations in an empty heap -/
def BaseOK (h : Heap) (p : Prog) : Prop :=
  p.base.2 = [] ∧ ∃ h0 : Heap, newActivation {} p.decls = .ok (h0, (0, [])) ∧
    Sim (fun _ => 0) (fun a => a = p.base.1) h h0

/-- **the invariant** of the API state machine -/
structure Inv (w : World) : Prop where
  sc : SC w.heap
  bnd : ∀ i nc, w.heap.get i = some nc → i.1 < w.heap.next
  progs : ∀ p ∈ w.progs, p.kind = .C → BaseOK w.heap p
  envs : ∀ e ∈ w.envs, e.parser = e.kind
  asts : ∀ a ∈ w.asts, ∃ e ∈ w.envs, a.cls = e.kind

theorem BaseOK.frame {h h' : Heap} {p : Prog} (hp : BaseOK h p) (hf : ∀ i : Id, i.1 < h.next → h'.get i = h.get i)
    (hs : SC h') (hb : ∀ i nc, h'.get i = some nc → i.1 < h'.next) (hn : h.next ≤ h'.next) : BaseOK h' p := by
  obtain ⟨e, h0, hr, hR⟩ := hp
  refine ⟨e, h0, hr, hR.frame (fun i hi => hf i ?_) hs hb hn⟩
  have := (hR.dom i.1 hi).1
  exact this

/-- facts about `new_activation` in a well-formed heap -/
theorem newActivation_facts {h h1 : Heap} {r : Id} {ds} (hs : SC h) (hb : ∀ i nc, h.get i = some nc → i.1 < h.next)
    (hx : newActivation h ds = .ok (h1, r)) :
    r = (h.next, []) ∧ SC h1 ∧ (∀ i nc, h1.get i = some nc → i.1 < h1.next) ∧
      (∀ i : Id, i.1 < h.next → h1.get i = h.get i) ∧ h1.next = h.next + 1 ∧
      ∃ h0, newActivation {} ds = .ok (h0, (0, [])) ∧ Sim (fun _ => 0) (fun a => a = h.next) h1 h0 := by
  obtain ⟨y, hy, hR, e1, e2, hf, hn⟩ := (newActivation_sim (Sim.empty h hs hb) ds).ok_left hx
  obtain ⟨h0, r0⟩ := y
  simp only at hR e1 e2 hf hn
  subst e1
  have e2' : r0 = (0, []) := e2
  subst e2'
  refine ⟨rfl, hR.sc, hR.bnd, hf, hn, h0, hy, hR.congr (fun a ha => Or.inr ha) (fun a ha => ?_)⟩
  subst ha
  simp [upd]

/-- facts about `clone` + `load_values` from a related base -/
theorem cloneAndLoad_facts {ρ S} {h h0 h2 : Heap} {act : Id} (hR : Sim ρ S h h0) (cfg : Config) (hc : cfg.clone = .deep)
    (base : Id) (hbase : S base.1) (b : Bindings) (hx : cloneAndLoad cfg h base b = .ok (h2, act)) :
    SC h2 ∧ (∀ i nc, h2.get i = some nc → i.1 < h2.next) ∧ (∀ i : Id, i.1 < h.next → h2.get i = h.get i) ∧
      h2.next = h.next + 1 := by
  obtain ⟨y, _, hR', _, _, hf, hn⟩ := (cloneAndLoad_sim hR cfg hc base hbase b).ok_left hx
  exact ⟨hR'.sc, hR'.bnd, hf, hn⟩

theorem inv_init : Inv World.init where
  sc := by intro i nc kr c hg; simp [World.init, Heap.get, cellsGet] at hg
  bnd := by intro i nc hg; simp [World.init, Heap.get, cellsGet] at hg
  progs := by intro p hp; simp [World.init] at hp
  envs := by intro e he; simp [World.init] at he
  asts := by intro a ha; simp [World.init] at ha

/-- the heap only grows above the old root counter (no existing object is written), programs are only added -/
def Grows (w w' : World) : Prop :=
  (∀ i : Id, i.1 < w.heap.next → w'.heap.get i = w.heap.get i) ∧ w.heap.next ≤ w'.heap.next ∧
    ∃ l, w'.progs = w.progs ++ l

/-- a step that changes neither heap nor programs (environments and trees may grow) -/
theorem Inv.of_same_heap {w w' : World} (hI : Inv w) (hh : w'.heap = w.heap) (hp : w'.progs = w.progs)
    (he : ∀ e ∈ w'.envs, e.parser = e.kind) (ha : ∀ a ∈ w'.asts, ∃ e ∈ w'.envs, a.cls = e.kind) :
    Inv w' ∧ Grows w w' :=
  ⟨{ sc := by rw [hh]; exact hI.sc
     bnd := by rw [hh]; exact hI.bnd
     progs := by rw [hh, hp]; exact hI.progs
     envs := he
     asts := ha },
   fun _ _ => by rw [hh], by rw [hh]; exact Nat.le_refl _, [], by rw [hp, List.append_nil]⟩

/-- a step whose heap only grows above the old root counter -/
theorem Inv.of_grown_heap {w w' : World} (hI : Inv w) (hs : SC w'.heap)
    (hb : ∀ i nc, w'.heap.get i = some nc → i.1 < w'.heap.next)
    (hf : ∀ i : Id, i.1 < w.heap.next → w'.heap.get i = w.heap.get i) (hn : w.heap.next ≤ w'.heap.next)
    (hp : ∀ p ∈ w'.progs, p.kind = .C → p ∈ w.progs ∨ BaseOK w'.heap p)
    (he : w'.envs = w.envs) (ha : w'.asts = w.asts) (hl : ∃ l, w'.progs = w.progs ++ l) : Inv w' ∧ Grows w w' :=
  ⟨{ sc := hs
     bnd := hb
     progs := by
       intro p hm hk
       rcases hp p hm hk with h1 | h1
       · exact (hI.progs p h1 hk).frame hf hs hb hn
       · exact h1
     envs := by rw [he]; exact hI.envs
     asts := by rw [he, ha]; exact hI.asts },
   hf, hn, hl⟩

theorem Grows.refl (w : World) : Grows w w := ⟨fun _ _ => rfl, Nat.le_refl _, [], (List.append_nil _).symm⟩

theorem inv_step_grows (cfg : Config) (hc : cfg.clone = .deep) (hpp : cfg.parser = .perClass) (w : World) (hI : Inv w)
    (op : Op) : Inv (step cfg w op).1 ∧ Grows w (step cfg w op).1 := by
  cases op with
  | mkEnv k decls pkg =>
    simp only [step, hpp]
    refine hI.of_same_heap rfl rfl ?_ ?_
    · intro e he
      simp only [List.mem_append, List.mem_singleton] at he
      rcases he with he | he
      · exact hI.envs e he
      · subst he; rfl
    · intro a ha
      obtain ⟨e, he, hk⟩ := hI.asts a ha
      exact ⟨e, by simp only [List.mem_append]; exact Or.inl he, hk⟩
  | resetParser => exact hI.of_same_heap rfl rfl hI.envs hI.asts
  | compile env src =>
    simp only [step, hpp]
    cases he : w.envs[env]? with
    | none => exact ⟨hI, Grows.refl w⟩
    | some e =>
      cases src with
      | none => exact ⟨hI, Grows.refl w⟩
      | some x =>
        refine hI.of_same_heap rfl rfl hI.envs ?_
        intro a ha
        simp only [List.mem_append, List.mem_singleton] at ha
        rcases ha with ha | ha
        · exact hI.asts a ha
        · subst ha
          have hm : e ∈ w.envs := List.mem_of_getElem? he
          exact ⟨e, hm, hI.envs e hm⟩
  | program env ast =>
    simp only [step]
    cases he : w.envs[env]? with
    | none => exact ⟨hI, Grows.refl w⟩
    | some e =>
      cases ha : w.asts[ast]? with
      | none => exact ⟨hI, Grows.refl w⟩
      | some a =>
        simp only
        cases hk : e.kind with
        | I =>
          simp only
          refine hI.of_grown_heap hI.sc hI.bnd (fun _ _ => rfl) (Nat.le_refl _) ?_ rfl rfl (by first | exact ⟨[], (List.append_nil _).symm⟩ | exact ⟨_, rfl⟩)
          intro p hm hkc
          simp only [List.mem_append, List.mem_singleton] at hm
          rcases hm with hm | hm
          · exact Or.inl hm
          · subst hm; simp at hkc
        | C =>
          simp only
          cases hn : newActivation w.heap e.decls with
          | error x => exact ⟨hI, Grows.refl w⟩
          | ok y =>
            obtain ⟨h1, root⟩ := y
            obtain ⟨hr, hs1, hb1, hf1, hn1, h0, hy, hR⟩ := newActivation_facts hI.sc hI.bnd hn
            simp only
            cases a.cls with
            | I =>
              simp only
              exact hI.of_grown_heap hs1 hb1 hf1 (by rw [hn1]; exact Nat.le_succ _) (fun p hm _ => Or.inl hm) rfl rfl (by first | exact ⟨[], (List.append_nil _).symm⟩ | exact ⟨_, rfl⟩)
            | C =>
              simp only
              refine hI.of_grown_heap hs1 hb1 hf1 (by rw [hn1]; exact Nat.le_succ _) ?_ rfl rfl (by first | exact ⟨[], (List.append_nil _).symm⟩ | exact ⟨_, rfl⟩)
              intro p hm _
              simp only [List.mem_append, List.mem_singleton] at hm
              rcases hm with hm | hm
              · exact Or.inl hm
              · right
                subst hm
                subst hr
                exact ⟨rfl, h0, hy, hR⟩
  | evaluate prog b =>
    simp only [step]
    cases hp : w.progs[prog]? with
    | none => exact ⟨hI, Grows.refl w⟩
    | some p =>
      simp only
      have hpm : p ∈ w.progs := List.mem_of_getElem? hp
      cases hk : p.kind with
      | I =>
        simp only
        cases hn : newActivation w.heap p.decls with
        | error x => exact ⟨hI, Grows.refl w⟩
        | ok y =>
          obtain ⟨h1, base⟩ := y
          obtain ⟨hr, hs1, hb1, hf1, hn1, h0, hy, hR⟩ := newActivation_facts hI.sc hI.bnd hn
          have hI1 : Inv { w with heap := h1 } ∧ Grows w { w with heap := h1 } :=
            hI.of_grown_heap hs1 hb1 hf1 (by rw [hn1]; exact Nat.le_succ _) (fun p hm _ => Or.inl hm) rfl rfl (by first | exact ⟨[], (List.append_nil _).symm⟩ | exact ⟨_, rfl⟩)
          simp only
          by_cases hbe : b.isEmpty
          · rw [if_pos hbe]; exact hI1
          · rw [if_neg hbe]
            cases hcl : cloneAndLoad cfg h1 base b with
            | error x => exact hI1
            | ok z =>
              obtain ⟨h2, act⟩ := z
              subst hr
              obtain ⟨hs2, hb2, hf2, hn2⟩ := cloneAndLoad_facts hR cfg hc (w.heap.next, []) rfl b hcl
              simp only
              refine hI.of_grown_heap hs2 hb2 ?_ ?_ (fun p hm _ => Or.inl hm) rfl rfl (by first | exact ⟨[], (List.append_nil _).symm⟩ | exact ⟨_, rfl⟩)
              · intro i hi
                rw [hf2 i (by rw [hn1]; exact Nat.lt_succ_of_lt hi), hf1 i hi]
              · show w.heap.next ≤ h2.next
                rw [hn2, hn1]; exact Nat.le_trans (Nat.le_succ _) (Nat.le_succ _)
      | C =>
        simp only
        by_cases hbe : b.isEmpty
        · rw [if_pos hbe]
          exact hI.of_same_heap rfl rfl hI.envs hI.asts
        · rw [if_neg hbe]
          obtain ⟨hb2, h0, hy, hR⟩ := hI.progs p hpm hk
          cases hcl : cloneAndLoad cfg w.heap p.base b with
          | error x => exact ⟨hI, Grows.refl w⟩
          | ok z =>
            obtain ⟨h2, act⟩ := z
            obtain ⟨hs2, hbb2, hf2, hn2⟩ := cloneAndLoad_facts hR cfg hc p.base rfl b hcl
            simp only
            exact hI.of_grown_heap hs2 hbb2 hf2 (by show w.heap.next ≤ h2.next; rw [hn2]; exact Nat.le_succ _)
              (fun p hm _ => Or.inl hm) rfl rfl (by first | exact ⟨[], (List.append_nil _).symm⟩ | exact ⟨_, rfl⟩)

theorem inv_step (cfg : Config) (hc : cfg.clone = .deep) (hpp : cfg.parser = .perClass) (w : World) (hI : Inv w) (op : Op) :
    Inv (step cfg w op).1 := (inv_step_grows cfg hc hpp w hI op).1

/-- **what an evaluation observes**: in any state satisfying the invariant, `evaluate(p, b)` observes what the
set-up and evaluation of `p`'s declarations, package and expression observe in an empty heap -/
theorem evaluate_obs (cfg : Config) (hc : cfg.clone = .deep) (w : World) (hI : Inv w) (i : Nat) (p : Prog)
    (hp : w.progs[i]? = some p) (b : Bindings) :
    (step cfg w (.evaluate i b)).2 = evalFrom cfg p.kind {} p.decls p.pkg p.expr b := by
  have hpm : p ∈ w.progs := List.mem_of_getElem? hp
  simp only [step, hp]
  cases hk : p.kind with
  | I =>
    rw [← evalFrom_indep cfg hc .I w.heap hI.sc hI.bnd]
    unfold evalFrom
    simp only
    cases hn : newActivation w.heap p.decls with
    | error x => rfl
    | ok y =>
      obtain ⟨h1, base⟩ := y
      simp only
      by_cases hbe : b.isEmpty
      · rw [if_pos hbe, if_pos hbe]
      · rw [if_neg hbe, if_neg hbe]
        cases hcl : cloneAndLoad cfg h1 base b with
        | error x => rfl
        | ok z => rfl
  | C =>
    obtain ⟨hb2, h0, hy, hR⟩ := hI.progs p hpm hk
    unfold evalFrom
    simp only [hy]
    have hbase : p.base = (p.base.1, []) := by rw [← hb2]
    have hrid : rid (fun _ => 0) p.base = (0, []) := by rw [hbase]; rfl
    by_cases hbe : b.isEmpty
    · rw [if_pos hbe, if_pos hbe]
      have := finish_sim hR p.base rfl cfg.skipTE .C p.pkg p.expr
      rw [hrid] at this
      exact this.symm
    · rw [if_neg hbe, if_neg hbe]
      have hcl := cloneAndLoad_sim hR cfg hc p.base rfl b
      rw [hrid] at hcl
      cases h3 : cloneAndLoad cfg w.heap p.base b <;> cases h4 : cloneAndLoad cfg h0 (0, []) b <;>
        simp only [h3, h4, ERel] at hcl ⊢
      · rw [hcl]
      · rename_i x' y'
        obtain ⟨hx', ax⟩ := x'
        obtain ⟨hy', ay⟩ := y'
        obtain ⟨hR', e1, e2, _, _⟩ := hcl
        simp only at hR' e1 e2
        subst e1; subst e2
        have := finish_sim hR' (w.heap.next, []) (Or.inr rfl) cfg.skipTE .C p.pkg p.expr
        simp only [rid_mk, upd_same] at this
        exact this.symm

end Cel.Runtime
