/-
  Lemmas for C15: base64 round trip, `jsonToCel` against the kind-directed specification `celOf`,
  dict construction over distinct keys, navigation.
-/
import Cel.Model.Json
namespace Cel.JsonM
open Cel

/-! ### base64 -/

set_option maxRecDepth 4000 in
theorem b64Val_b64Char (n : Nat) (h : n < 64) : b64Val (b64Char n) = some n := by
  have : ∀ m : Fin 64, b64Val (b64Char m.val) = some m.val := by decide
  exact this ⟨n, h⟩
set_option maxRecDepth 4000 in
theorem b64Char_ne_pad (n : Nat) (h : n < 64) : b64Char n ≠ '=' := by
  have : ∀ m : Fin 64, b64Char m.val ≠ '=' := by decide
  exact this ⟨n, h⟩

theorem u8_of (n : Nat) (a : UInt8) (h : n = a.toNat) : UInt8.ofNat n = a := by
  subst h; exact UInt8.ofNat_toNat

theorem b64_roundtrip : (bs : List UInt8) → b64decode (b64encode bs) = some bs
  | [] => by simp [b64encode, b64decode]
  | [a] => by
      have ha := a.toNat_lt
      have h0 : a.toNat * 65536 / 262144 < 64 := by omega
      have h1 : a.toNat * 65536 / 4096 % 64 < 64 := by omega
      simp only [b64encode, b64decode, b64Val_b64Char _ h0, b64Val_b64Char _ h1]
      simp
      apply u8_of; omega
  | [a, b] => by
      have ha := a.toNat_lt
      have hb := b.toNat_lt
      have h0 : (a.toNat * 65536 + b.toNat * 256) / 262144 < 64 := by omega
      have h1 : (a.toNat * 65536 + b.toNat * 256) / 4096 % 64 < 64 := by omega
      have h2 : (a.toNat * 65536 + b.toNat * 256) / 64 % 64 < 64 := by omega
      have hp := b64Char_ne_pad _ h2
      simp only [b64encode]
      rw [b64decode]
      · simp [b64Val_b64Char _ h0, b64Val_b64Char _ h1, b64Val_b64Char _ h2]
        constructor <;> (apply u8_of; omega)
      · intro h; simp_all
  | a :: b :: c :: rest => by
      have ih := b64_roundtrip rest
      have ha := a.toNat_lt
      have hb := b.toNat_lt
      have hc := c.toNat_lt
      have h0 : (a.toNat * 65536 + b.toNat * 256 + c.toNat) / 262144 < 64 := by omega
      have h1 : (a.toNat * 65536 + b.toNat * 256 + c.toNat) / 4096 % 64 < 64 := by omega
      have h2 : (a.toNat * 65536 + b.toNat * 256 + c.toNat) / 64 % 64 < 64 := by omega
      have h3 : (a.toNat * 65536 + b.toNat * 256 + c.toNat) % 64 < 64 := by omega
      have hp2 := b64Char_ne_pad _ h2
      have hp3 := b64Char_ne_pad _ h3
      simp only [b64encode]
      rw [b64decode]
      · simp [b64Val_b64Char _ h0, b64Val_b64Char _ h1, b64Val_b64Char _ h2, b64Val_b64Char _ h3, ih]
        refine ⟨?_, ?_, ?_⟩ <;> (apply u8_of; omega)
      · intro x y; simp_all
      · intro x y; simp_all

set_option maxRecDepth 4000 in
theorem b64Char_mem (n : Nat) (h : n < 64) : b64Char n ∈ b64Alphabet := by
  have : ∀ m : Fin 64, b64Char m.val ∈ b64Alphabet := by decide
  exact this ⟨n, h⟩

theorem b64_length : (bs : List UInt8) → (b64encode bs).length = 4 * ((bs.length + 2) / 3)
  | [] => by simp [b64encode]
  | [a] => by simp [b64encode]
  | [a, b] => by simp [b64encode]
  | a :: b :: c :: rest => by
      have ih := b64_length rest
      simp only [b64encode, List.length_cons, ih]
      omega

theorem b64_chars : (bs : List UInt8) → ∀ ch ∈ b64encode bs, ch ∈ b64Alphabet ∨ ch = '='
  | [] => by simp [b64encode]
  | [a] => by
      have ha := a.toNat_lt
      intro ch h
      simp only [b64encode, List.mem_cons, List.mem_nil_iff, or_false] at h
      rcases h with h | h | h | h
      · left; rw [h]; apply b64Char_mem; omega
      · left; rw [h]; apply b64Char_mem; omega
      · right; exact h
      · right; exact h
  | [a, b] => by
      have ha := a.toNat_lt
      have hb := b.toNat_lt
      intro ch h
      simp only [b64encode, List.mem_cons, List.mem_nil_iff, or_false] at h
      rcases h with h | h | h | h
      · left; rw [h]; apply b64Char_mem; omega
      · left; rw [h]; apply b64Char_mem; omega
      · left; rw [h]; apply b64Char_mem; omega
      · right; exact h
  | a :: b :: c :: rest => by
      have ih := b64_chars rest
      have ha := a.toNat_lt
      have hb := b.toNat_lt
      have hc := c.toNat_lt
      intro ch h
      simp only [b64encode, List.mem_cons] at h
      rcases h with h | h | h | h | h
      · left; rw [h]; apply b64Char_mem; omega
      · left; rw [h]; apply b64Char_mem; omega
      · left; rw [h]; apply b64Char_mem; omega
      · left; rw [h]; apply b64Char_mem; omega
      · exact ih ch h

/-! ### the specification of the conversion: kind-directed, total -/

mutual
/-- the CEL value corresponding to a JSON document: null ↦ None, bool ↦ BoolType, int ↦ IntType,
float ↦ DoubleType, str ↦ StringType, array ↦ ListType, object ↦ MapType with StringType keys — at every depth -/
def celOf : Json → PV
  | .null => .none
  | .bool b => .cbool b
  | .int z => .cint z
  | .float f => .cdbl f
  | .str s => .cstr s
  | .arr xs => .clist (celOfL xs)
  | .obj kvs => .cmap (celOfK kvs)
def celOfL : List Json → List PV
  | [] => []
  | x :: xs => celOf x :: celOfL xs
def celOfK : List (String × Json) → List (PV × PV)
  | [] => []
  | (k, x) :: rest => (.cstr k, celOf x) :: celOfK rest
end

/-! ### dict construction over distinct keys -/

theorem keyEq_cstr (a b : String) : keyEq (.cstr a) (.cstr b) = decide (a = b) := by
  simp [keyEq, PV.keyCls]
theorem keyEq_cstr_pstr (a b : String) : keyEq (.cstr a) (.pstr b) = decide (a = b) := by
  simp [keyEq, PV.keyCls]

theorem dictInsert_new (acc : List (PV × PV)) (k v : PV)
    (h : ∀ kv ∈ acc, keyEq kv.1 k = false) : dictInsert acc k v = acc ++ [(k, v)] := by
  induction acc with
  | nil => rfl
  | cons hd tl ih =>
      obtain ⟨k', v'⟩ := hd
      have h1 : keyEq k' k = false := h (k', v') (by simp)
      simp only [dictInsert, h1]
      simp [ih (fun kv hkv => h kv (by simp [hkv]))]

theorem foldl_dictInsert (ps : List (PV × PV)) : ∀ (acc : List (PV × PV)),
    (∀ a ∈ acc, ∀ b ∈ ps, keyEq a.1 b.1 = false) →
    ps.Pairwise (fun a b => keyEq a.1 b.1 = false) →
    ps.foldl (fun acc kv => dictInsert acc kv.1 kv.2) acc = acc ++ ps := by
  induction ps with
  | nil => intro acc _ _; simp
  | cons hd tl ih =>
      intro acc hacc hp
      rw [List.pairwise_cons] at hp
      simp only [List.foldl_cons]
      rw [dictInsert_new acc hd.1 hd.2 (fun kv hkv => hacc kv hkv hd (by simp))]
      rw [ih (acc ++ [(hd.1, hd.2)])]
      · simp
      · intro a ha b hb
        simp only [List.mem_append, List.mem_singleton] at ha
        rcases ha with ha | ha
        · exact hacc a ha b (by simp [hb])
        · subst ha; exact hp.1 b hb
      · exact hp.2

theorem dictOfPairs_id (ps : List (PV × PV)) (h : ps.Pairwise (fun a b => keyEq a.1 b.1 = false)) :
    dictOfPairs ps = ps := by
  unfold dictOfPairs
  rw [foldl_dictInsert ps [] (by simp) h]; simp

theorem keys_celOfK (kvs : List (String × Json)) : ∀ kv ∈ celOfK kvs, ∃ s, kv.1 = .cstr s ∧ s ∈ kvs.map (·.1) := by
  induction kvs with
  | nil => simp [celOfK]
  | cons hd tl ih =>
      obtain ⟨k, x⟩ := hd
      intro kv h
      simp only [celOfK, List.mem_cons] at h
      rcases h with h | h
      · exact ⟨k, by simp [h]⟩
      · obtain ⟨s, hs, hm⟩ := ih kv h
        exact ⟨s, hs, by simp [hm]⟩

theorem celOfK_pairwise (kvs : List (String × Json)) (h : keysNodup (kvs.map (·.1)) = true) :
    (celOfK kvs).Pairwise (fun a b => keyEq a.1 b.1 = false) := by
  induction kvs with
  | nil => simp [celOfK]
  | cons hd tl ih =>
      obtain ⟨k, x⟩ := hd
      simp only [List.map_cons, keysNodup, Bool.and_eq_true, Bool.not_eq_true', List.contains_eq_mem,
        decide_eq_false_iff_not] at h
      simp only [celOfK, List.pairwise_cons]
      refine ⟨?_, ih h.2⟩
      intro b hb
      obtain ⟨s, hs, hm⟩ := keys_celOfK tl b hb
      rw [hs, keyEq_cstr]
      simp
      intro hks; subst hks; exact h.1 hm

/-! ### `jsonToCel` meets the specification -/

theorem dispatch_json_null : dispatch jsonLadder PCls.noneType = some .none := by decide
theorem dispatch_json_bool : dispatch jsonLadder PCls.bool = some .boolType := by decide
theorem dispatch_json_int : dispatch jsonLadder PCls.int = some .intType := by decide
theorem dispatch_json_float : dispatch jsonLadder PCls.float = some .doubleType := by decide
theorem dispatch_json_str : dispatch jsonLadder PCls.str = some .stringType := by decide
theorem dispatch_json_list : dispatch jsonLadder PCls.list = some .listType := by decide
theorem dispatch_json_dict : dispatch jsonLadder PCls.dict = some .mapType := by decide

mutual
theorem jsonToCel_celOf : (j : Json) → j.intsInI64 = true → j.keysUnique = true → jsonToCel j = .ok (celOf j)
  | .null, _, _ => by simp [jsonToCel, dispatch_json_null, convScalar, celOf]
  | .bool b, _, _ => by simp [jsonToCel, dispatch_json_bool, convScalar, celOf]
  | .int z, hi, _ => by
      simp only [Json.intsInI64, i64b, decide_eq_true_eq] at hi
      simp only [jsonToCel, dispatch_json_int, convScalar, celOf, intTypeOf]
      rw [if_pos hi]
  | .float f, _, _ => by simp [jsonToCel, dispatch_json_float, convScalar, celOf]
  | .str s, _, _ => by simp [jsonToCel, dispatch_json_str, convScalar, celOf]
  | .arr xs, hi, hu => by
      simp only [Json.intsInI64] at hi
      simp only [Json.keysUnique] at hu
      simp [jsonToCel, dispatch_json_list, jsonToCelList_celOfL xs hi hu, celOf, bind, Except.bind]
  | .obj kvs, hi, hu => by
      simp only [Json.intsInI64] at hi
      simp only [Json.keysUnique, Bool.and_eq_true] at hu
      simp [jsonToCel, dispatch_json_dict, jsonToCelKvs_celOfK kvs hi hu.2, celOf, bind, Except.bind,
        dictOfPairs_id _ (celOfK_pairwise kvs hu.1)]
theorem jsonToCelList_celOfL : (xs : List Json) → Json.intsInI64L xs = true → Json.keysUniqueL xs = true →
    jsonToCelList xs = .ok (celOfL xs)
  | [], _, _ => by simp [jsonToCelList, celOfL]
  | x :: xs, hi, hu => by
      simp only [Json.intsInI64L, Bool.and_eq_true] at hi
      simp only [Json.keysUniqueL, Bool.and_eq_true] at hu
      simp [jsonToCelList, celOfL, jsonToCel_celOf x hi.1 hu.1, jsonToCelList_celOfL xs hi.2 hu.2, bind, Except.bind]
theorem jsonToCelKvs_celOfK : (kvs : List (String × Json)) → Json.intsInI64K kvs = true → Json.keysUniqueK kvs = true →
    jsonToCelKvs kvs = .ok (celOfK kvs)
  | [], _, _ => by simp [jsonToCelKvs, celOfK]
  | (k, x) :: rest, hi, hu => by
      simp only [Json.intsInI64K, Bool.and_eq_true] at hi
      simp only [Json.keysUniqueK, Bool.and_eq_true] at hu
      simp [jsonToCelKvs, celOfK, dispatch_json_str, convScalar, jsonToCel_celOf x hi.1 hu.1,
        jsonToCelKvs_celOfK rest hi.2 hu.2, bind, Except.bind]
end

/-! ### the encoder on converted documents -/

mutual
/-- `to_python` of a converted document: native bool/list/dict, everything else intact -/
def pyOf : Json → PV
  | .null => .none
  | .bool b => .pbool b
  | .int z => .cint z
  | .float f => .cdbl f
  | .str s => .cstr s
  | .arr xs => .plist (pyOfL xs)
  | .obj kvs => .pdict (pyOfK kvs)
def pyOfL : List Json → List PV
  | [] => []
  | x :: xs => pyOf x :: pyOfL xs
def pyOfK : List (String × Json) → List (PV × PV)
  | [] => []
  | (k, x) :: rest => (.cstr k, pyOf x) :: pyOfK rest
end

theorem keys_pyOfK (kvs : List (String × Json)) : ∀ kv ∈ pyOfK kvs, ∃ s, kv.1 = .cstr s ∧ s ∈ kvs.map (·.1) := by
  induction kvs with
  | nil => simp [pyOfK]
  | cons hd tl ih =>
      obtain ⟨k, x⟩ := hd
      intro kv h
      simp only [pyOfK, List.mem_cons] at h
      rcases h with h | h
      · exact ⟨k, by simp [h]⟩
      · obtain ⟨s, hs, hm⟩ := ih kv h
        exact ⟨s, hs, by simp [hm]⟩

theorem pyOfK_pairwise (kvs : List (String × Json)) (h : keysNodup (kvs.map (·.1)) = true) :
    (pyOfK kvs).Pairwise (fun a b => keyEq a.1 b.1 = false) := by
  induction kvs with
  | nil => simp [pyOfK]
  | cons hd tl ih =>
      obtain ⟨k, x⟩ := hd
      simp only [List.map_cons, keysNodup, Bool.and_eq_true, Bool.not_eq_true', List.contains_eq_mem,
        decide_eq_false_iff_not] at h
      simp only [pyOfK, List.pairwise_cons]
      refine ⟨?_, ih h.2⟩
      intro b hb
      obtain ⟨s, hs, hm⟩ := keys_pyOfK tl b hb
      rw [hs, keyEq_cstr]
      simp
      intro hks; subst hks; exact h.1 hm

theorem dispatch_topy_bool : dispatch toPythonLadder PCls.boolType = some .bool := by decide
theorem dispatch_topy_list : dispatch toPythonLadder PCls.listType = some .list := by decide
theorem dispatch_topy_map : dispatch toPythonLadder PCls.mapType = some .dict := by decide

mutual
theorem toPython_celOf : (j : Json) → j.keysUnique = true → toPython (celOf j) = pyOf j
  | .null, _ => by simp [celOf, toPython, pyOf]
  | .bool b, _ => by simp [celOf, toPython, pyOf, dispatch_topy_bool]
  | .int z, _ => by simp [celOf, toPython, pyOf]
  | .float f, _ => by simp [celOf, toPython, pyOf]
  | .str s, _ => by simp [celOf, toPython, pyOf]
  | .arr xs, hu => by
      simp only [Json.keysUnique] at hu
      simp [celOf, toPython, pyOf, dispatch_topy_list, toPythonList_celOfL xs hu]
  | .obj kvs, hu => by
      simp only [Json.keysUnique, Bool.and_eq_true] at hu
      simp [celOf, toPython, pyOf, dispatch_topy_map, toPythonKvs_celOfK kvs hu.2,
        dictOfPairs_id _ (pyOfK_pairwise kvs hu.1)]
theorem toPythonList_celOfL : (xs : List Json) → Json.keysUniqueL xs = true → toPythonList (celOfL xs) = pyOfL xs
  | [], _ => by simp [celOfL, toPythonList, pyOfL]
  | x :: xs, hu => by
      simp only [Json.keysUniqueL, Bool.and_eq_true] at hu
      simp [celOfL, toPythonList, pyOfL, toPython_celOf x hu.1, toPythonList_celOfL xs hu.2]
theorem toPythonKvs_celOfK : (kvs : List (String × Json)) → Json.keysUniqueK kvs = true →
    toPythonKvs (celOfK kvs) = pyOfK kvs
  | [], _ => by simp [celOfK, toPythonKvs, pyOfK]
  | (k, x) :: rest, hu => by
      simp only [Json.keysUniqueK, Bool.and_eq_true] at hu
      simp [celOfK, toPythonKvs, pyOfK, toPython, toPython_celOf x hu.1, toPythonKvs_celOfK rest hu.2]
end

mutual
theorem jsonEnc_pyOf : (j : Json) → jsonEnc (pyOf j) = .ok j
  | .null => by simp [pyOf, jsonEnc]
  | .bool b => by simp [pyOf, jsonEnc]
  | .int z => by simp [pyOf, jsonEnc]
  | .float f => by simp [pyOf, jsonEnc]
  | .str s => by simp [pyOf, jsonEnc]
  | .arr xs => by simp [pyOf, jsonEnc, jsonEncList_pyOfL xs, bind, Except.bind]
  | .obj kvs => by simp [pyOf, jsonEnc, jsonEncKvs_pyOfK kvs, bind, Except.bind]
theorem jsonEncList_pyOfL : (xs : List Json) → jsonEncList (pyOfL xs) = .ok xs
  | [] => by simp [pyOfL, jsonEncList]
  | x :: xs => by simp [pyOfL, jsonEncList, jsonEnc_pyOf x, jsonEncList_pyOfL xs, bind, Except.bind]
theorem jsonEncKvs_pyOfK : (kvs : List (String × Json)) → jsonEncKvs (pyOfK kvs) = .ok kvs
  | [] => by simp [pyOfK, jsonEncKvs]
  | (k, x) :: rest => by
      simp [pyOfK, jsonEncKvs, jsonKey, jsonEnc_pyOf x, jsonEncKvs_pyOfK rest, bind, Except.bind]
end

/-! ### navigation -/

theorem dictFind_celOfK_cstr (k : String) : (kvs : List (String × Json)) →
    dictFind (celOfK kvs) (.cstr k) = (assocFind k kvs).map celOf
  | [] => by simp [celOfK, dictFind, assocFind]
  | (k', x) :: rest => by
      simp only [celOfK, dictFind, assocFind, keyEq_cstr]
      by_cases h : k' = k <;> simp [h, dictFind_celOfK_cstr k rest]
theorem dictFind_celOfK_pstr (k : String) : (kvs : List (String × Json)) →
    dictFind (celOfK kvs) (.pstr k) = (assocFind k kvs).map celOf
  | [] => by simp [celOfK, dictFind, assocFind]
  | (k', x) :: rest => by
      simp only [celOfK, dictFind, assocFind, keyEq_cstr_pstr]
      by_cases h : k' = k <;> simp [h, dictFind_celOfK_pstr k rest]

theorem celOfL_length : (xs : List Json) → (celOfL xs).length = xs.length
  | [] => by simp [celOfL]
  | x :: xs => by simp [celOfL, celOfL_length xs]
theorem celOfL_getElem? : (xs : List Json) → (i : Nat) → (celOfL xs)[i]? = (xs[i]?).map celOf
  | [], i => by simp [celOfL]
  | x :: xs, 0 => by simp [celOfL]
  | x :: xs, i+1 => by simp [celOfL, celOfL_getElem? xs i]

/-! ### invalid paths, out-of-range integers -/

theorem dictFind_celOfK_cint (i : Int) : (kvs : List (String × Json)) → dictFind (celOfK kvs) (.cint i) = none
  | [] => by simp [celOfK, dictFind]
  | (k', x) :: rest => by
      simp [celOfK, dictFind, keyEq, PV.keyCls, dictFind_celOfK_cint i rest]

theorem navigation_invalid_celOf : (p : List Step) → (j : Json) → j.lookup p = none →
    navCel (celOf j) p = .error .celEval
  | [], j, h => by cases j <;> simp [Json.lookup] at h
  | s :: p, j, h => by
      cases j with
      | obj kvs =>
          cases s with
          | field k =>
              simp only [Json.lookup] at h
              cases hf : assocFind k kvs with
              | none =>
                  simp [navCel, stepCel, memberDot, celOf, PV.cls, isInst, PCls.mro, getitem, validKeyType,
                    validKeyClasses, dictFind_celOfK_pstr, hf, bind, Except.bind]
              | some x =>
                  simp only [hf] at h
                  have ih := navigation_invalid_celOf p x h
                  simp [navCel, stepCel, memberDot, celOf, PV.cls, isInst, PCls.mro, getitem, validKeyType,
                    validKeyClasses, dictFind_celOfK_pstr, hf, bind, Except.bind, ih]
          | key k =>
              simp only [Json.lookup] at h
              cases hf : assocFind k kvs with
              | none =>
                  simp [navCel, stepCel, memberIndex, celOf, PV.cls, isInst, PCls.mro, getitem, validKeyType,
                    validKeyClasses, dictFind_celOfK_cstr, hf, bind, Except.bind]
              | some x =>
                  simp only [hf] at h
                  have ih := navigation_invalid_celOf p x h
                  simp [navCel, stepCel, memberIndex, celOf, PV.cls, isInst, PCls.mro, getitem, validKeyType,
                    validKeyClasses, dictFind_celOfK_cstr, hf, bind, Except.bind, ih]
          | idx i =>
              simp [navCel, stepCel, memberIndex, celOf, PV.cls, isInst, PCls.mro, getitem, validKeyType,
                    validKeyClasses, dictFind_celOfK_cint, bind, Except.bind]
      | arr xs =>
          cases s with
          | idx i =>
              simp only [Json.lookup] at h
              cases hf : xs[i]? with
              | none =>
                  have hge : xs.length ≤ i := by
                    rcases Nat.lt_or_ge i xs.length with hl | hl
                    · simp [List.getElem?_eq_getElem hl] at hf
                    · exact hl
                  have hlen := celOfL_length xs
                  simp only [navCel, stepCel, memberIndex, celOf, getitem, bind, Except.bind]
                  have hc : ¬ ((0:Int) ≤ (i:Int) ∧ (i:Int) < ((celOfL xs).length : Int)) := by omega
                  have hc2 : ¬ (-((celOfL xs).length : Int) ≤ (i:Int) ∧ (i:Int) < 0) := by omega
                  rw [if_neg hc, if_neg hc2]
                  simp
              | some x =>
                  simp only [hf] at h
                  have ih := navigation_invalid_celOf p x h
                  have hlt : i < xs.length := by
                    rcases Nat.lt_or_ge i xs.length with hl | hl
                    · exact hl
                    · simp [List.getElem?_eq_none hl] at hf
                  have hlen := celOfL_length xs
                  have hget := celOfL_getElem? xs i
                  simp only [navCel, stepCel, memberIndex, celOf, getitem, bind, Except.bind]
                  have hc : (0:Int) ≤ (i:Int) ∧ (i:Int) < ((celOfL xs).length : Int) := by omega
                  rw [if_pos hc]
                  simp [hget, hf, ih]
          | field k => simp [navCel, stepCel, memberDot, celOf, PV.cls, isInst, PCls.mro, bind, Except.bind]
          | key k => simp [navCel, stepCel, memberIndex, celOf, getitem, bind, Except.bind]
      | null => cases s <;> simp [navCel, stepCel, memberDot, memberIndex, celOf, PV.cls, isInst, PCls.mro, getitem, bind, Except.bind]
      | bool b => cases s <;> simp [navCel, stepCel, memberDot, memberIndex, celOf, PV.cls, isInst, PCls.mro, getitem, bind, Except.bind]
      | int z => cases s <;> simp [navCel, stepCel, memberDot, memberIndex, celOf, PV.cls, isInst, PCls.mro, getitem, bind, Except.bind]
      | float f => cases s <;> simp [navCel, stepCel, memberDot, memberIndex, celOf, PV.cls, isInst, PCls.mro, getitem, bind, Except.bind]
      | str s' => cases s <;> simp [navCel, stepCel, memberDot, memberIndex, celOf, PV.cls, isInst, PCls.mro, getitem, bind, Except.bind]

mutual
theorem jsonToCel_ok_or_ve : (j : Json) → (∃ v, jsonToCel j = .ok v) ∨ jsonToCel j = .error .valueError
  | .null => by simp [jsonToCel, dispatch_json_null, convScalar]
  | .bool b => by simp [jsonToCel, dispatch_json_bool, convScalar]
  | .int z => by
      simp only [jsonToCel, dispatch_json_int, convScalar, intTypeOf]
      split <;> simp
  | .float f => by simp [jsonToCel, dispatch_json_float, convScalar]
  | .str s => by simp [jsonToCel, dispatch_json_str, convScalar]
  | .arr xs => by
      rcases jsonToCelList_ok_or_ve xs with ⟨vs, h⟩ | h <;>
        simp [jsonToCel, dispatch_json_list, h, bind, Except.bind]
  | .obj kvs => by
      rcases jsonToCelKvs_ok_or_ve kvs with ⟨vs, h⟩ | h <;>
        simp [jsonToCel, dispatch_json_dict, h, bind, Except.bind]
theorem jsonToCelList_ok_or_ve : (xs : List Json) → (∃ v, jsonToCelList xs = .ok v) ∨ jsonToCelList xs = .error .valueError
  | [] => by simp [jsonToCelList]
  | x :: xs => by
      rcases jsonToCel_ok_or_ve x with ⟨v, h⟩ | h <;> rcases jsonToCelList_ok_or_ve xs with ⟨vs, h2⟩ | h2 <;>
        simp [jsonToCelList, h, h2, bind, Except.bind]
theorem jsonToCelKvs_ok_or_ve : (kvs : List (String × Json)) → (∃ v, jsonToCelKvs kvs = .ok v) ∨ jsonToCelKvs kvs = .error .valueError
  | [] => by simp [jsonToCelKvs]
  | (k, x) :: rest => by
      rcases jsonToCel_ok_or_ve x with ⟨v, h⟩ | h <;> rcases jsonToCelKvs_ok_or_ve rest with ⟨vs, h2⟩ | h2 <;>
        simp [jsonToCelKvs, dispatch_json_str, convScalar, h, h2, bind, Except.bind]
end

mutual
theorem jsonToCel_out_of_range : (j : Json) → j.intsInI64 = false → jsonToCel j = .error .valueError
  | .null, h => by simp [Json.intsInI64] at h
  | .bool b, h => by simp [Json.intsInI64] at h
  | .float f, h => by simp [Json.intsInI64] at h
  | .str s, h => by simp [Json.intsInI64] at h
  | .int z, h => by
      simp only [Json.intsInI64, i64b, decide_eq_false_iff_not] at h
      simp only [jsonToCel, dispatch_json_int, convScalar, intTypeOf]
      rw [if_neg h]
  | .arr xs, h => by
      simp only [Json.intsInI64] at h
      simp [jsonToCel, dispatch_json_list, jsonToCelList_out_of_range xs h, bind, Except.bind]
  | .obj kvs, h => by
      simp only [Json.intsInI64] at h
      simp [jsonToCel, dispatch_json_dict, jsonToCelKvs_out_of_range kvs h, bind, Except.bind]
theorem jsonToCelList_out_of_range : (xs : List Json) → Json.intsInI64L xs = false → jsonToCelList xs = .error .valueError
  | [], h => by simp [Json.intsInI64L] at h
  | x :: xs, h => by
      simp only [Json.intsInI64L, Bool.and_eq_false_iff] at h
      rcases h with h | h
      · simp [jsonToCelList, jsonToCel_out_of_range x h, bind, Except.bind]
      · rcases jsonToCel_ok_or_ve x with ⟨v, hv⟩ | hv <;>
          simp [jsonToCelList, hv, jsonToCelList_out_of_range xs h, bind, Except.bind]
theorem jsonToCelKvs_out_of_range : (kvs : List (String × Json)) → Json.intsInI64K kvs = false → jsonToCelKvs kvs = .error .valueError
  | [], h => by simp [Json.intsInI64K] at h
  | (k, x) :: rest, h => by
      simp only [Json.intsInI64K, Bool.and_eq_false_iff] at h
      rcases h with h | h
      · simp [jsonToCelKvs, dispatch_json_str, convScalar, jsonToCel_out_of_range x h, bind, Except.bind]
      · rcases jsonToCel_ok_or_ve x with ⟨v, hv⟩ | hv <;>
          simp [jsonToCelKvs, dispatch_json_str, convScalar, hv, jsonToCelKvs_out_of_range rest h, bind, Except.bind]
end

/-! ### `int(timedelta.total_seconds())`: the binary64 quotient truncates exactly below 2^34 s -/
section DurFloat
open Cel.Time

theorem rne_le (n d : Nat) : rne n d ≤ n / d + 1 := by
  unfold rne; split
  · omega
  · split
    · omega
    · split <;> omega

theorem rne_ge (n d : Nat) : n / d ≤ rne n d := by
  unfold rne; split
  · omega
  · split
    · omega
    · split <;> omega

theorem rne_lo (n d : Nat) (h : 2 * (n % d) < d) : rne n d = n / d := by
  unfold rne; simp [h]

/-- rounding `n/d` to a grid of spacing `1/P` with `d < 2P` never reaches the next integer -/
theorem rne_scaled_div (n d P : Nat) (hd : 0 < d) (hP : d < 2 * P) : rne (n * P) d / P = n / d := by
  have hP0 : 0 < P := by omega
  -- n = q*d + r
  have hn := Nat.div_add_mod n d
  have hr : n % d < d := Nat.mod_lt _ hd
  generalize hq : n / d = q at *
  generalize hrr : n % d = r at *
  have hN : n * P = (q * P) * d + r * P := by
    rw [← hn, Nat.add_mul]; congr 1; rw [Nat.mul_comm d q, Nat.mul_assoc, Nat.mul_comm d P, Nat.mul_assoc]
  have hdiv : (n * P) / d = q * P + (r * P) / d := by
    rw [hN, Nat.add_comm, Nat.add_mul_div_right _ _ hd, Nat.add_comm]
  have hmod : (n * P) % d = (r * P) % d := by
    rw [hN, Nat.add_comm, Nat.add_mul_mod_self_right]
  have hx := Nat.div_add_mod (r * P) d
  have hv : (r * P) % d < d := Nat.mod_lt _ hd
  generalize hu : (r * P) / d = u at *
  generalize hvv : (r * P) % d = v at *
  -- x = r*P ≤ d*P - P
  have hxle : r * P + P ≤ d * P := by
    have : (r + 1) * P ≤ d * P := Nat.mul_le_mul_right P (by omega)
    rwa [Nat.add_mul, Nat.one_mul] at this
  have huP : u < P := by
    have h1 : d * u < d * P := by omega
    exact Nat.lt_of_mul_lt_mul_left h1
  -- bounds on rne
  have hlo := rne_ge (n * P) d
  have hhi := rne_le (n * P) d
  rw [hdiv] at hlo hhi
  have hfin : rne (n * P) d < q * P + P := by
    by_cases hc : 2 * v < d
    · have := rne_lo (n * P) d (by rw [hmod]; exact hc)
      rw [this, hdiv]; omega
    · -- then u + 1 < P
      have : u + 1 < P := by
        by_cases hup : u + 1 = P
        · exfalso
          have h2 : d * u + d = d * P := by rw [← hup, Nat.mul_add, Nat.mul_one]
          omega
        · omega
      omega
  have hge : q * P ≤ rne (n * P) d := by omega
  have : rne (n * P) d / P = q := by
    apply Nat.div_eq_of_lt_le
    · rw [Nat.mul_comm] at hge; rwa [Nat.mul_comm]
    · rw [Nat.add_mul, Nat.one_mul]; exact hfin
  exact this
theorem bitlen_le' (a k : Nat) (h : a < 2 ^ k) : bitlen a ≤ k := by
  unfold bitlen
  split
  · omega
  · rename_i hne
    have := (Nat.log2_lt hne).mpr h
    omega

theorem bitlen_million : bitlen 1000000 = 20 := by decide

/-- below 2^34 seconds the shift that makes the quotient a 53-bit integer is at least 19: spacing ≤ 2^-19 s < 2 µs -/
theorem shiftFor_small (n : Nat) (h : n < 2 ^ 34 * 1000000) : 19 ≤ shiftFor n 1000000 := by
  have hb : bitlen n ≤ 54 := bitlen_le' n 54 (by omega)
  unfold shiftFor
  simp only [bitlen_million]
  by_cases h19 : (53 + ((20 : Nat) : Int) - (bitlen n : Int)) = 19
  · rw [h19]
    have : n * 2 ^ (19 : Int).toNat / 1000000 < 2 ^ 53 := by
      apply (Nat.div_lt_iff_lt_mul (by decide)).mpr
      have : (19 : Int).toNat = 19 := rfl
      rw [this]; omega
    simp only [show (0 : Int) ≤ 19 by decide, if_true]
    rw [if_neg (by omega)]
    exact Int.le_refl 19
  · split <;> omega

theorem rndNat_trunc_small (n : Nat) (h : n < 2 ^ 34 * 1000000) :
    (rndNat n 1000000).trunc = ((n / 1000000 : Nat) : Int) := by
  unfold rndNat
  by_cases h0 : n = 0
  · subst h0; simp [Dy.trunc]
  · rw [if_neg h0]
    have hs := shiftFor_small n h
    have hs0 : 0 ≤ shiftFor n 1000000 := by omega
    simp only [hs0, if_true]
    unfold rndUp Dy.trunc
    simp only
    generalize hS : (shiftFor n 1000000).toNat = S
    have hS19 : 19 ≤ S := by omega
    have hp : 1000000 < 2 * 2 ^ S := by
      have : 2 ^ 19 ≤ 2 ^ S := Nat.pow_le_pow_right (by decide) hS19
      omega
    rw [Int.tdiv_eq_ediv_of_nonneg (Int.natCast_nonneg _)]
    rw [← Int.natCast_ediv, rne_scaled_div n 1000000 (2 ^ S) (by decide) hp]

/-- `int(timedelta.total_seconds())` truncates toward zero — exactly — for every duration shorter than 2^34 s (544 years):
the binary64 quotient never reaches the next whole second there. -/
theorem totalSeconds_trunc_small (us : Int) (h : us.natAbs < 2 ^ 34 * 1000000) :
    (totalSeconds us).trunc = Int.tdiv us 1000000 := by
  unfold totalSeconds rnd
  split
  · rename_i hneg
    unfold Dy.neg Dy.trunc
    simp only
    have := rndNat_trunc_small us.natAbs h
    unfold Dy.trunc at this
    rw [Int.neg_tdiv, this]
    have e : us = -((us.natAbs : Nat) : Int) := by omega
    conv => rhs; rw [e, Int.neg_tdiv]
    rw [Int.tdiv_eq_ediv_of_nonneg (Int.natCast_nonneg _)]; omega
  · rename_i hnn
    rw [rndNat_trunc_small us.natAbs h]
    have e : us = ((us.natAbs : Nat) : Int) := by omega
    conv => rhs; rw [e]
    rw [Int.tdiv_eq_ediv_of_nonneg (Int.natCast_nonneg _)]; omega
/-! binary64 rounding is exact on integers below 2^53 (same argument as C10's `Cel.Time.rnd_exact`; repeated here so that the two
properties build independently) -/
theorem rne_mul_j (a d : Nat) (hd : 0 < d) : rne (a * d) d = a := by
  unfold rne
  rw [Nat.mul_mod_left, Nat.mul_div_cancel a hd]
  simp [hd]

theorem lt_pow_bitlen_j (a : Nat) : a < 2 ^ bitlen a := by
  unfold bitlen
  split
  · rename_i h; subst h; simp
  · exact Nat.lt_log2_self

theorem bitlen_mul_le_j (a d : Nat) : bitlen (a * d) ≤ bitlen a + bitlen d := by
  apply bitlen_le'
  rw [Nat.pow_add]
  exact Nat.mul_lt_mul'' (lt_pow_bitlen_j a) (lt_pow_bitlen_j d)

theorem shiftFor_nonneg_j (a d : Nat) (hd : 0 < d) (h : a < 2 ^ 53) : 0 ≤ shiftFor (a * d) d := by
  have h1 := bitlen_mul_le_j a d
  have h2 := bitlen_le' a 53 h
  unfold shiftFor
  simp only
  by_cases h0 : (53 + (bitlen d : Int) - (bitlen (a * d) : Int)) = 0
  · rw [h0]
    have : a * d * 2 ^ (0 : Int).toNat / d = a := by
      simp; rw [Nat.mul_comm, Nat.mul_div_cancel_left a hd]
    simp only [Int.le_refl, if_true, this]
    rw [if_neg (by omega)]
    exact Int.le_refl 0
  · split <;> omega

theorem rndNat_exact_j (a d : Nat) (hd : 0 < d) (h : a < 2 ^ 53) : (rndNat (a * d) d).trunc = (a : Int) := by
  unfold rndNat
  by_cases h0 : a * d = 0
  · have : a = 0 := by
      rcases Nat.mul_eq_zero.mp h0 with h | h
      · exact h
      · omega
    subst this; simp [Dy.trunc]
  · rw [if_neg h0]
    have hs := shiftFor_nonneg_j a d hd h
    simp only [hs, if_true]
    unfold rndUp Dy.trunc
    simp only
    have e : a * d * 2 ^ (shiftFor (a * d) d).toNat = (a * 2 ^ (shiftFor (a * d) d).toNat) * d := by
      rw [Nat.mul_assoc, Nat.mul_comm d, ← Nat.mul_assoc]
    rw [e, rne_mul_j _ _ hd]
    have hp : 0 < 2 ^ (shiftFor (a * d) d).toNat := Nat.pow_pos (by decide)
    rw [Int.tdiv_eq_ediv_of_nonneg (by exact Int.natCast_nonneg _)]
    rw [Int.natCast_mul, Int.mul_ediv_cancel _ (by omega)]

theorem rnd_exact_j (z : Int) (d : Nat) (hd : 0 < d) (h : z.natAbs < 2 ^ 53) : (rnd (z * d) d).trunc = z := by
  unfold rnd
  have e : (z * (d : Int)).natAbs = z.natAbs * d := by rw [Int.natAbs_mul]; simp
  rw [e]
  split
  · rename_i hneg
    have hz : z < 0 := by
      by_cases h' : z < 0
      · exact h'
      · exfalso
        have : 0 ≤ z * (d : Int) := Int.mul_nonneg (by omega) (Int.natCast_nonneg d)
        omega
    unfold Dy.neg Dy.trunc
    simp only
    have := rndNat_exact_j z.natAbs d hd h
    unfold Dy.trunc at this
    rw [Int.neg_tdiv, this]; omega
  · rename_i hnn
    have hz : 0 ≤ z := by
      by_cases h' : z < 0
      · exfalso
        have : z * (d : Int) < 0 := Int.mul_neg_of_neg_of_pos h' (by omega)
        omega
      · omega
    rw [rndNat_exact_j z.natAbs d hd h]; omega

theorem rnd_exact_million (s : Int) (h : s.natAbs < 2 ^ 53) : (rnd (s * 1000000) 1000000).trunc = s := by
  have := rnd_exact_j s 1000000 (by decide) h
  simpa using this

end DurFloat

/-! ### the encoder on ARBITRARY CEL values (not only converted documents) -/

/-- the four valid key types of a CEL map -/
def PV.isCelKey : PV → Bool
  | .cstr _ | .cbool _ | .cint _ | .cuint _ => true
  | _ => false

/-- the JSON member name of a CEL map key: text as is, booleans `true`/`false`, integers in decimal -/
def celKeyName : PV → String
  | .cstr s => s
  | .cbool b => if b then "true" else "false"
  | .cint z => toString z
  | .cuint n => toString n
  | _ => ""

/-- the keys of a `dict` are pairwise different Python keys (the invariant of a dict, `True == 1 == UintType(1)` included) -/
def pairKeysDistinct : List (PV × PV) → Bool
  | [] => true
  | (k, _) :: rest => rest.all (fun kv => !keyEq k kv.1) && pairKeysDistinct rest

mutual
/-- a CEL value: `None` and instances of the celtypes wrappers only, maps keyed by valid key types, each map a well-formed dict -/
def PV.celWF : PV → Bool
  | .none | .cbool _ | .cint _ | .cuint _ | .cdbl _ | .cstr _ | .cbytes _ | .cts _ | .cdur _ => true
  | .clist xs => celWFL xs
  | .cmap kvs => celWFK kvs && pairKeysDistinct kvs
  | _ => false
def celWFL : List PV → Bool
  | [] => true
  | x :: xs => x.celWF && celWFL xs
def celWFK : List (PV × PV) → Bool
  | [] => true
  | (k, v) :: rest => k.isCelKey && v.celWF && celWFK rest
end

mutual
/-- the JSON document a CEL value must serialise to, by kind — at every depth: booleans `true`/`false`, ints and uints numbers,
timestamps RFC 3339 text, durations seconds text, bytes base64, lists arrays, maps objects -/
def jsonOfCel : PV → Json
  | .none => .null
  | .cbool b => .bool b
  | .cint z => .int z
  | .cuint n => .int n
  | .cdbl f => .float f
  | .cstr s => .str s
  | .cbytes bs => .str (String.ofList (b64encode bs))
  | .cts t => .str (String.ofList (tsStr t))
  | .cdur us => .str (String.ofList (durStr us))
  | .clist xs => .arr (jsonOfCelL xs)
  | .cmap kvs => .obj (jsonOfCelK kvs)
  | _ => .null
def jsonOfCelL : List PV → List Json
  | [] => []
  | x :: xs => jsonOfCel x :: jsonOfCelL xs
def jsonOfCelK : List (PV × PV) → List (String × Json)
  | [] => []
  | (k, v) :: rest => (celKeyName k, jsonOfCel v) :: jsonOfCelK rest
end

theorem keyEq_toPython (a b : PV) (ha : a.isCelKey = true) (hb : b.isCelKey = true) :
    keyEq (toPython a) (toPython b) = keyEq a b := by
  cases a <;> simp [PV.isCelKey] at ha <;> cases b <;> simp [PV.isCelKey] at hb <;>
    simp [toPython, dispatch_topy_bool, keyEq, PV.keyCls]

theorem isCelKey_toPython (a : PV) (ha : a.isCelKey = true) : (toPython a).keyCls = a.keyCls := by
  cases a <;> simp [PV.isCelKey] at ha <;> simp [toPython, dispatch_topy_bool, PV.keyCls]

theorem celWFK_keys : (kvs : List (PV × PV)) → celWFK kvs = true → ∀ kv ∈ kvs, kv.1.isCelKey = true
  | [], _ => by simp
  | (k, v) :: rest, h => by
      simp only [celWFK, Bool.and_eq_true] at h
      intro kv hkv
      simp only [List.mem_cons] at hkv
      rcases hkv with hkv | hkv
      · subst hkv; exact h.1.1
      · exact celWFK_keys rest h.2 kv hkv

theorem toPythonKvs_mem : (kvs : List (PV × PV)) → ∀ p ∈ toPythonKvs kvs, ∃ kv ∈ kvs, p.1 = toPython kv.1
  | [] => by simp [toPythonKvs]
  | (k, v) :: rest => by
      intro p hp
      simp only [toPythonKvs, List.mem_cons] at hp
      rcases hp with hp | hp
      · exact ⟨(k, v), by simp, by simp [hp]⟩
      · obtain ⟨kv, hm, he⟩ := toPythonKvs_mem rest p hp
        exact ⟨kv, by simp [hm], he⟩

theorem toPythonKvs_pairwise : (kvs : List (PV × PV)) → (∀ kv ∈ kvs, kv.1.isCelKey = true) → pairKeysDistinct kvs = true →
    (toPythonKvs kvs).Pairwise (fun a b => keyEq a.1 b.1 = false)
  | [], _, _ => by simp [toPythonKvs]
  | (k, v) :: rest, hk, hd => by
      simp only [pairKeysDistinct, Bool.and_eq_true, List.all_eq_true, Bool.not_eq_true'] at hd
      simp only [toPythonKvs, List.pairwise_cons]
      refine ⟨?_, toPythonKvs_pairwise rest (fun kv h => hk kv (by simp [h])) hd.2⟩
      intro p hp
      obtain ⟨kv, hm, he⟩ := toPythonKvs_mem rest p hp
      rw [he, keyEq_toPython k kv.1 (hk (k, v) (by simp)) (hk kv (by simp [hm]))]
      exact hd.1 kv hm

theorem jsonKey_toPython (k : PV) (h : k.isCelKey = true) : jsonKey (toPython k) = .ok (celKeyName k) := by
  cases k <;> simp [PV.isCelKey] at h <;> simp [toPython, dispatch_topy_bool, jsonKey, celKeyName]

mutual
theorem jsonEnc_toPython : (v : PV) → v.celWF = true → jsonEnc (toPython v) = .ok (jsonOfCel v)
  | .none, _ => by simp [toPython, jsonEnc, jsonOfCel]
  | .cbool b, _ => by simp [toPython, dispatch_topy_bool, jsonEnc, jsonOfCel]
  | .cint z, _ => by simp [toPython, jsonEnc, jsonOfCel]
  | .cuint n, _ => by simp [toPython, jsonEnc, jsonOfCel]
  | .cdbl f, _ => by simp [toPython, jsonEnc, jsonOfCel]
  | .cstr s, _ => by simp [toPython, jsonEnc, jsonOfCel]
  | .cbytes bs, _ => rfl
  | .cts t, _ => rfl
  | .cdur us, _ => rfl
  | .clist xs, h => by
      simp only [PV.celWF] at h
      simp [toPython, dispatch_topy_list, jsonEnc, jsonOfCel, jsonEncList_toPython xs h, bind, Except.bind]
  | .cmap kvs, h => by
      simp only [PV.celWF, Bool.and_eq_true] at h
      simp [toPython, dispatch_topy_map, jsonEnc, jsonOfCel,
        dictOfPairs_id _ (toPythonKvs_pairwise kvs (celWFK_keys kvs h.1) h.2),
        jsonEncKvs_toPython kvs h.1, bind, Except.bind]
  | .pbool _, h => by simp [PV.celWF] at h
  | .pint _, h => by simp [PV.celWF] at h
  | .pfloat _, h => by simp [PV.celWF] at h
  | .pstr _, h => by simp [PV.celWF] at h
  | .plist _, h => by simp [PV.celWF] at h
  | .pdict _, h => by simp [PV.celWF] at h
theorem jsonEncList_toPython : (xs : List PV) → celWFL xs = true → jsonEncList (toPythonList xs) = .ok (jsonOfCelL xs)
  | [], _ => by simp [toPythonList, jsonEncList, jsonOfCelL]
  | x :: xs, h => by
      simp only [celWFL, Bool.and_eq_true] at h
      simp [toPythonList, jsonEncList, jsonOfCelL, jsonEnc_toPython x h.1, jsonEncList_toPython xs h.2, bind, Except.bind]
theorem jsonEncKvs_toPython : (kvs : List (PV × PV)) → celWFK kvs = true →
    jsonEncKvs (toPythonKvs kvs) = .ok (jsonOfCelK kvs)
  | [], _ => by simp [toPythonKvs, jsonEncKvs, jsonOfCelK]
  | (k, v) :: rest, h => by
      simp only [celWFK, Bool.and_eq_true] at h
      simp [toPythonKvs, jsonEncKvs, jsonOfCelK, jsonKey_toPython k h.1.1, jsonEnc_toPython v h.1.2,
        jsonEncKvs_toPython rest h.2, bind, Except.bind]
end

end Cel.JsonM
