/-
  Helper lemmas for C11 (and C10): the proleptic Gregorian calendar of `Cel.Model.Time`
  (400-year periodicity by `omega`, the 100/4/1-year cycle decomposition, month tables by
  `decide`), time-of-day arithmetic, decimal text.
-/
import Cel.Model.Time
namespace Cel.Time

/-! ### Bool/Nat glue -/
theorem nbeq (a b : Nat) : Nat.beq a b = decide (a = b) := by
  cases h : Nat.beq a b
  · simp [Nat.ne_of_beq_eq_false h]
  · simp [Nat.eq_of_beq_eq_true h]
theorem nble (a b : Nat) : Nat.ble a b = decide (a ≤ b) := by
  rw [Bool.eq_iff_iff]; simp [Nat.ble_eq]
theorem nblt (a b : Nat) : Nat.blt a b = decide (a < b) := by
  unfold Nat.blt; rw [nble]; simp; omega

/-! ### years -/
theorem isLeap_iff (y : Nat) : isLeap y = true ↔ (y % 4 = 0 ∧ (y % 100 ≠ 0 ∨ y % 400 = 0)) := by
  simp [isLeap, nbeq]

/-- 400-year periodicity of `_days_before_year` -/
theorem dby_era (e y : Nat) (hy : 1 ≤ y) :
    daysBeforeYear (e * 400 + y) = e * 146097 + daysBeforeYear y := by
  unfold daysBeforeYear; omega

theorem isLeap_era (e y : Nat) : isLeap (e * 400 + y) = isLeap y := by
  have h4 : (e * 400 + y) % 4 = y % 4 := by omega
  have h100 : (e * 400 + y) % 100 = y % 100 := by omega
  have h400 : (e * 400 + y) % 400 = y % 400 := by omega
  simp [isLeap, h4, h100, h400]

/-- a year has 365 or 366 days -/
theorem dby_succ (y : Nat) (hy : 1 ≤ y) :
    daysBeforeYear (y + 1) = daysBeforeYear y + 365 + (if isLeap y then 1 else 0) := by
  by_cases h : isLeap y = true
  · have := (isLeap_iff y).mp h
    simp only [h, if_true]; unfold daysBeforeYear; omega
  · have h' : ¬ (y % 4 = 0 ∧ (y % 100 ≠ 0 ∨ y % 400 = 0)) := fun hh => h ((isLeap_iff y).mpr hh)
    simp only [h]; unfold daysBeforeYear; simp; omega

theorem dby_mono {a b : Nat} (ha : 1 ≤ a) (hab : a ≤ b) : daysBeforeYear a ≤ daysBeforeYear b := by
  induction b with
  | zero => omega
  | succ b ih =>
    rcases Nat.lt_or_ge b a with h | h
    · have : a = b + 1 := by omega
      subst this; exact Nat.le_refl _
    · have := ih h
      rw [dby_succ b (by omega)]; omega

theorem dby_cycle (a b c : Nat) (ha : a ≤ 3) (hb : b ≤ 24) (hc : c ≤ 3) :
    daysBeforeYear (1 + a * 100 + b * 4 + c) = 36524 * a + 1461 * b + 365 * c := by
  unfold daysBeforeYear
  have h4 : (1 + a * 100 + b * 4 + c - 1) / 4 = 25 * a + b := by omega
  have h100 : (1 + a * 100 + b * 4 + c - 1) / 100 = a := by omega
  have h400 : (1 + a * 100 + b * 4 + c - 1) / 400 = 0 := by omega
  rw [h4, h100, h400]; omega

/-- year part of `_ord2ymd` inside an era -/
theorem yearInEra_spec (n0 : Nat) (h : n0 < 146097) :
    1 ≤ (yearInEra n0).1 ∧ (yearInEra n0).1 ≤ 400 ∧ (yearInEra n0).2.2 = isLeap (yearInEra n0).1 ∧
    (yearInEra n0).2.1 < 365 + (if (yearInEra n0).2.2 then 1 else 0) ∧
    daysBeforeYear (yearInEra n0).1 + (yearInEra n0).2.1 = n0 := by
  unfold yearInEra
  simp only [nbeq]
  by_cases hA : (n0 % 36524 % 1461 / 365 = 4 ∨ n0 / 36524 = 4)
  · have : (decide (n0 % 36524 % 1461 / 365 = 4) || decide (n0 / 36524 = 4)) = true := by simpa using hA
    simp only [this, cond_true]
    refine ⟨by omega, by omega, ?_, by simp, ?_⟩
    · symm; rw [isLeap_iff]; omega
    · rcases hA with hA | hA
      · have e : 1 + n0 / 36524 * 100 + n0 % 36524 / 1461 * 4 + n0 % 36524 % 1461 / 365 - 1
            = 1 + (n0 / 36524) * 100 + (n0 % 36524 / 1461) * 4 + 3 := by omega
        rw [e, dby_cycle _ _ _ (by omega) (by omega) (by omega)]; omega
      · have e : 1 + n0 / 36524 * 100 + n0 % 36524 / 1461 * 4 + n0 % 36524 % 1461 / 365 - 1 = 400 := by omega
        rw [e]; unfold daysBeforeYear; omega
  · have : (decide (n0 % 36524 % 1461 / 365 = 4) || decide (n0 / 36524 = 4)) = false := by simpa using hA
    simp only [this, cond_false]
    refine ⟨by omega, by omega, ?_, ?_, ?_⟩
    · rw [Bool.eq_iff_iff, isLeap_iff]; simp; omega
    · split <;> omega
    · rw [dby_cycle _ _ _ (by omega) (by omega) (by omega)]; omega

/-! ### months (tables, by `decide`) -/
def dimL (leap : Bool) (m : Nat) : Nat := bif Nat.beq m 2 && leap then 29 else dimTable m
def dbmL (leap : Bool) (m : Nat) : Nat := dbmTable m + (bif Nat.blt 2 m && leap then 1 else 0)
theorem daysInMonth_eq (y m : Nat) : daysInMonth y m = dimL (isLeap y) m := rfl
theorem daysBeforeMonth_eq (y m : Nat) : daysBeforeMonth y m = dbmL (isLeap y) m := rfl
def yearLen (leap : Bool) : Nat := 365 + (if leap then 1 else 0)

def allBelow (p : Nat → Bool) : Nat → Bool
  | 0 => true
  | n + 1 => p n && allBelow p n
theorem allBelow_spec (p : Nat → Bool) : ∀ n, allBelow p n = true → ∀ k, k < n → p k = true
  | 0, _, k, hk => absurd hk (Nat.not_lt_zero k)
  | n + 1, h, k, hk => by
    simp [allBelow] at h
    rcases Nat.lt_succ_iff_lt_or_eq.mp hk with h1 | h1
    · exact allBelow_spec p n h.2 k h1
    · subst h1; exact h.1

/-- the month/day step of `_ord2ymd` is right for every day of a common and of a leap year -/
def monthDayOk (leap : Bool) (n : Nat) : Bool :=
  let md := monthDay leap n
  decide (1 ≤ md.1) && decide (md.1 ≤ 12) && decide (1 ≤ md.2) && decide (md.2 ≤ dimL leap md.1) &&
    decide (dbmL leap md.1 + md.2 = n + 1)

theorem monthDay_table : allBelow (monthDayOk false) 365 = true ∧ allBelow (monthDayOk true) 366 = true := by
  decide +kernel

theorem monthDay_spec (leap : Bool) (n : Nat) (h : n < yearLen leap) :
    1 ≤ (monthDay leap n).1 ∧ (monthDay leap n).1 ≤ 12 ∧ 1 ≤ (monthDay leap n).2 ∧
    (monthDay leap n).2 ≤ dimL leap (monthDay leap n).1 ∧
    dbmL leap (monthDay leap n).1 + (monthDay leap n).2 = n + 1 := by
  have key : monthDayOk leap n = true := by
    cases leap
    · exact allBelow_spec _ _ monthDay_table.1 n (by simpa [yearLen] using h)
    · exact allBelow_spec _ _ monthDay_table.2 n (by simpa [yearLen] using h)
  simpa [monthDayOk, and_assoc] using key

/-- month table facts: a valid day stays inside the year, months do not overlap -/
theorem month_facts : ∀ leap : Bool, ∀ m, m < 13 → 1 ≤ m →
    (dbmL leap m + dimL leap m ≤ yearLen leap) ∧ (1 ≤ dimL leap m) ∧
    (∀ m', m' < 13 → m < m' → dbmL leap m + dimL leap m ≤ dbmL leap m') := by
  decide

/-! ### the calendar bijection -/
/-- `daysOfCivil ∘ civilOfDays = id` for EVERY day number, and the date is valid -/
theorem civil_days (n : Nat) :
    validDate (civilOfDays n).1 (civilOfDays n).2.1 (civilOfDays n).2.2 ∧
    daysOfCivil (civilOfDays n).1 (civilOfDays n).2.1 (civilOfDays n).2.2 = n := by
  have hm : n % 146097 < 146097 := Nat.mod_lt _ (by decide)
  obtain ⟨hy1, hy400, hleap, hdoy, hsum⟩ := yearInEra_spec (n % 146097) hm
  unfold civilOfDays
  generalize yearInEra (n % 146097) = yi at *
  obtain ⟨y, doy, leap⟩ := yi
  simp only at hy1 hy400 hleap hdoy hsum ⊢
  obtain ⟨hm1, hm12, hd1, hdim, hdbm⟩ := monthDay_spec leap doy (by simpa [yearLen] using hdoy)
  generalize monthDay leap doy = md at *
  obtain ⟨m, d⟩ := md
  simp only at hm1 hm12 hd1 hdim hdbm ⊢
  refine ⟨⟨by omega, hm1, hm12, hd1, ?_⟩, ?_⟩
  · rw [daysInMonth_eq, isLeap_era, ← hleap]; exact hdim
  · unfold daysOfCivil
    rw [dby_era _ _ hy1, daysBeforeMonth_eq, isLeap_era, ← hleap]
    have := Nat.div_add_mod n 146097
    omega

/-- a valid date lies inside its year -/
theorem days_in_year (y m d : Nat) (h : validDate y m d) :
    daysBeforeYear y ≤ daysOfCivil y m d ∧ daysOfCivil y m d < daysBeforeYear (y + 1) := by
  obtain ⟨hy, hm1, hm12, hd1, hd⟩ := h
  rw [daysInMonth_eq] at hd
  obtain ⟨h1, _, _⟩ := month_facts (isLeap y) m (by omega) hm1
  unfold daysOfCivil
  rw [dby_succ y hy, daysBeforeMonth_eq]
  unfold yearLen at h1
  constructor <;> omega

/-- `daysOfCivil` is injective on valid dates -/
theorem daysOfCivil_inj (y m d y' m' d' : Nat) (h : validDate y m d) (h' : validDate y' m' d')
    (e : daysOfCivil y m d = daysOfCivil y' m' d') : y = y' ∧ m = m' ∧ d = d' := by
  have b := days_in_year y m d h
  have b' := days_in_year y' m' d' h'
  have hyy : y = y' := by
    rcases Nat.lt_trichotomy y y' with hlt | heq | hgt
    · have := dby_mono (a := y + 1) (b := y') (by omega) (by omega); omega
    · exact heq
    · have := dby_mono (a := y' + 1) (b := y) (by omega) (by omega); omega
  subst hyy
  obtain ⟨hy, hm1, hm12, hd1, hd⟩ := h
  obtain ⟨_, hm1', hm12', hd1', hd'⟩ := h'
  rw [daysInMonth_eq] at hd hd'
  unfold daysOfCivil at e
  rw [daysBeforeMonth_eq, daysBeforeMonth_eq] at e
  have hmm : m = m' := by
    rcases Nat.lt_trichotomy m m' with hlt | heq | hgt
    · have := (month_facts (isLeap y) m (by omega) hm1).2.2 m' (by omega) hlt; omega
    · exact heq
    · have := (month_facts (isLeap y) m' (by omega) hm1').2.2 m (by omega) hgt; omega
  subst hmm
  exact ⟨rfl, rfl, by omega⟩

/-- `civilOfDays ∘ daysOfCivil = id` on valid dates -/
theorem days_civil (y m d : Nat) (h : validDate y m d) : civilOfDays (daysOfCivil y m d) = (y, m, d) := by
  obtain ⟨hv, he⟩ := civil_days (daysOfCivil y m d)
  obtain ⟨e1, e2, e3⟩ := daysOfCivil_inj _ _ _ _ _ _ hv h he
  exact Prod.ext e1 (Prod.ext e2 e3)

/-! ### local clock ↔ civil fields -/
theorem dby_10000 : daysBeforeYear 10000 = 3652059 := by decide

/-- time-of-day fields are in range and recompose -/
theorem civilOfLoc_spec (l : Int) (h : 0 ≤ l) :
    validDate (civilOfLoc l).year (civilOfLoc l).month (civilOfLoc l).day ∧
    (civilOfLoc l).hour < 24 ∧ (civilOfLoc l).minute < 60 ∧ (civilOfLoc l).second < 60 ∧
    (civilOfLoc l).micro < 1000000 ∧
    locOfCivil (civilOfLoc l).year (civilOfLoc l).month (civilOfLoc l).day (civilOfLoc l).hour
      (civilOfLoc l).minute (civilOfLoc l).second (civilOfLoc l).micro = l := by
  obtain ⟨hv, hd⟩ := civil_days (l / usPerDay).toNat
  unfold civilOfLoc locOfCivil
  simp only [hd]
  refine ⟨hv, ?_, ?_, ?_, ?_, ?_⟩ <;> simp only [usPerDay] at * <;> omega

theorem locOfCivil_unique (l : Int) (y m d hh mm ss us : Nat) (hv : validDate y m d)
    (h1 : hh < 24) (h2 : mm < 60) (h3 : ss < 60) (h4 : us < 1000000)
    (e : locOfCivil y m d hh mm ss us = l) :
    (civilOfLoc l).year = y ∧ (civilOfLoc l).month = m ∧ (civilOfLoc l).day = d ∧
    (civilOfLoc l).hour = hh ∧ (civilOfLoc l).minute = mm ∧ (civilOfLoc l).second = ss ∧
    (civilOfLoc l).micro = us := by
  unfold locOfCivil at e
  have hn : (l / usPerDay).toNat = daysOfCivil y m d := by simp only [usPerDay] at *; omega
  have ht : (l % usPerDay).toNat = hh * 3600000000 + mm * 60000000 + ss * 1000000 + us := by
    simp only [usPerDay] at *; omega
  unfold civilOfLoc
  simp only [hn, ht, days_civil y m d hv]
  refine ⟨?_, ?_, ?_, ?_, ?_, ?_, ?_⟩ <;> first | trivial | rfl | omega

/-- the representable range is exactly "year ≤ 9999" -/
theorem locOk_iff_year (l : Int) (h : 0 ≤ l) : l ≤ maxLoc ↔ (civilOfLoc l).year ≤ 9999 := by
  obtain ⟨hv, hd⟩ := civil_days (l / usPerDay).toNat
  have b := days_in_year _ _ _ hv
  rw [hd] at b
  have hy : (civilOfLoc l).year = (civilOfDays (l / usPerDay).toNat).1 := rfl
  rw [hy]
  have h1 : 1 ≤ (civilOfDays (l / usPerDay).toNat).1 := hv.1
  constructor
  · intro hl
    have hn : (l / usPerDay).toNat < 3652059 := by simp only [maxLoc, maxDays, usPerDay] at *; omega
    rcases Nat.lt_or_ge 9999 (civilOfDays (l / usPerDay).toNat).1 with hgt | hle
    · have := dby_mono (a := 10000) (b := (civilOfDays (l / usPerDay).toNat).1) (by omega) (by omega)
      rw [dby_10000] at this; omega
    · exact hle
  · intro hy'
    have := dby_mono (a := (civilOfDays (l / usPerDay).toNat).1 + 1) (b := 10000) (by omega) (by omega)
    rw [dby_10000] at this
    simp only [maxLoc, maxDays, usPerDay] at *; omega

theorem dow_eq (c : Civil) : accField .getDayOfWeek c = ((c.dayIndex + 1) % 7 : Nat) := by
  show ((isoweekday c.dayIndex % 7 : Nat) : Int) = _
  unfold isoweekday toordinal
  split <;> (congr 1; omega)

theorem doy_eq (l : Int) :
    accField .getDayOfYear (civilOfLoc l) =
      ((daysBeforeMonth (civilOfLoc l).year (civilOfLoc l).month + (civilOfLoc l).day - 1 : Nat) : Int) := by
  obtain ⟨hv, hd⟩ := civil_days (l / usPerDay).toNat
  show (toordinal (civilOfLoc l).dayIndex : Int) - (toordinal (daysOfCivil (civilOfLoc l).year 1 1) : Int) = _
  unfold toordinal
  have e1 : (civilOfLoc l).dayIndex = (l / usPerDay).toNat := rfl
  have e2 : daysOfCivil (civilOfLoc l).year 1 1 = daysBeforeYear (civilOfLoc l).year := by
    unfold daysOfCivil daysBeforeMonth; simp [dbmTable, nbeq, nblt]
  have e3 : (civilOfLoc l).dayIndex = daysOfCivil (civilOfLoc l).year (civilOfLoc l).month (civilOfLoc l).day := by
    rw [e1]; exact hd.symm
  rw [e2]
  have hd1 : 1 ≤ (civilOfLoc l).day := hv.2.2.2.1
  rw [e3]; unfold daysOfCivil; omega

/-! ### decimal text -/
theorem isDigit_iff (c : Nat) : isDigit c = true ↔ 48 ≤ c ∧ c ≤ 57 := by simp [isDigit]

theorem natText_digits (n : Nat) : ∀ c ∈ natText n, isDigit c = true := by
  induction n using Nat.strongRecOn with
  | _ n ih =>
    rw [natText]
    split
    · intro c hc; simp at hc; subst hc; rw [isDigit_iff]; omega
    · intro c hc
      rw [List.mem_append] at hc
      rcases hc with hc | hc
      · exact ih (n / 10) (by omega) c hc
      · simp at hc; subst hc; rw [isDigit_iff]; omega

theorem natText_ne_nil (n : Nat) : natText n ≠ [] := by
  rw [natText]; split <;> simp

theorem digitsVal_append (a : List Nat) (c : Nat) : digitsVal (a ++ [c]) = digitsVal a * 10 + (c - 48) := by
  simp [digitsVal, List.foldl_append]

theorem digitsVal_natText (n : Nat) : digitsVal (natText n) = n := by
  induction n using Nat.strongRecOn with
  | _ n ih =>
    rw [natText]
    split
    · simp [digitsVal]
    · rw [digitsVal_append, ih (n / 10) (by omega)]; omega

theorem spanDigits_append (ds r : List Nat) (hds : ∀ c ∈ ds, isDigit c = true)
    (hr : ∀ c, r.head? = some c → isDigit c = false) : spanDigits (ds ++ r) = (ds, r) := by
  induction ds with
  | nil =>
    cases r with
    | nil => simp [spanDigits]
    | cons c r' => simp [spanDigits, hr c (by simp)]
  | cons d ds ih =>
    have hd : isDigit d = true := hds d (by simp)
    have := ih (fun c hc => hds c (by simp [hc]))
    simp [spanDigits, hd, this]

/-! ### duration text: rendering and parsing -/
def unitText : DUnit → List Nat
  | .ns => [110, 115] | .us => [117, 115] | .ms => [109, 115]
  | .s => [115] | .m => [109] | .h => [104] | .d => [100]
def fracText : Option (List Nat) → List Nat
  | none => []
  | some f => 46 :: f
def renderItem (it : Item) : List Nat := it.ip ++ (fracText it.fp ++ unitText it.u)
def renderItems : List Item → List Nat
  | [] => []
  | it :: r => renderItem it ++ renderItems r

/-- digits only, and at least one digit -/
def Item.wf (it : Item) : Prop :=
  (∀ c ∈ it.ip, isDigit c = true) ∧ (∀ c ∈ it.fp.getD [], isDigit c = true) ∧
  (it.ip ≠ [] ∨ it.fp.getD [] ≠ [])

def startOk (R : List Nat) : Prop := ∀ c, R.head? = some c → isDigit c = true ∨ c = 46

theorem renderItem_head (it : Item) (h : it.wf) (R : List Nat) : startOk (renderItem it ++ R) := by
  intro c hc
  obtain ⟨h1, h2, h3⟩ := h
  unfold renderItem at hc
  cases hip : it.ip with
  | cons a as =>
    rw [hip] at hc; simp at hc; subst hc; left; exact h1 a (by simp [hip])
  | nil =>
    rw [hip] at hc h3
    cases hfp : it.fp with
    | none => simp [hfp] at h3
    | some f => rw [hfp] at hc; simp [fracText] at hc; right; exact hc.symm

theorem renderItems_head (items : List Item) (h : ∀ it ∈ items, it.wf) : startOk (renderItems items) := by
  cases items with
  | nil => intro c hc; simp [renderItems] at hc
  | cons it r => exact renderItem_head it (h it (by simp)) _

theorem unitAt_unitText (u : DUnit) (R : List Nat) (hR : startOk R) :
    unitAt (unitText u ++ R) = some (u, R) := by
  have h115 : ∀ c, R.head? = some c → c ≠ 115 := by
    intro c hc e; subst e
    rcases hR 115 hc with h | h
    · simp [isDigit] at h
    · omega
  cases u <;> simp [unitText, unitAt]
  -- only `.m` is left: the text must not continue with `s`
  cases R with
  | nil => simp [unitAt]
  | cons c R' =>
    have : c ≠ 115 := h115 c (by simp)
    split <;> simp_all

theorem unitText_head_not_digit (u : DUnit) (R : List Nat) :
    ∀ c, (unitText u ++ R).head? = some c → isDigit c = false ∧ c ≠ 46 := by
  intro c hc
  cases u <;> simp [unitText] at hc <;> subst hc <;> simp [isDigit]

theorem parseItems_step (fuel : Nat) (it : Item) (R : List Nat) (h : it.wf) (hR : startOk R) :
    parseItems (fuel + 1) (renderItem it ++ R) =
      if R.isEmpty then some [it] else (parseItems fuel R).map (it :: ·) := by
  obtain ⟨h1, h2, _⟩ := h
  have hsp : spanDigits (it.ip ++ (fracText it.fp ++ (unitText it.u ++ R))) =
      (it.ip, fracText it.fp ++ (unitText it.u ++ R)) := by
    apply spanDigits_append _ _ h1
    intro c hc
    cases hfp : it.fp with
    | none => rw [hfp] at hc; simp only [fracText, List.nil_append] at hc; exact (unitText_head_not_digit _ _ c hc).1
    | some f => rw [hfp] at hc; simp [fracText] at hc; subst hc; simp [isDigit]
  have e : renderItem it ++ R = it.ip ++ (fracText it.fp ++ (unitText it.u ++ R)) := by
    simp [renderItem, List.append_assoc]
  rw [e]
  conv => lhs; unfold parseItems
  simp only [hsp]
  cases hfp : it.fp with
  | none =>
    simp only [fracText, List.nil_append]
    have hne : ∀ r, unitText it.u ++ R ≠ 46 :: r := by
      intro r er
      have := (unitText_head_not_digit it.u R 46 (by rw [er]; simp)).2
      exact this rfl
    have : (match unitText it.u ++ R with
        | 46 :: r => (let (f, r') := spanDigits r; (some f, r') : Option (List Nat) × List Nat)
        | _ => (none, unitText it.u ++ R)) = (none, unitText it.u ++ R) := by
      split
      · rename_i r er; exact absurd er (hne r)
      · rfl
    simp only [this, unitAt_unitText it.u R hR]
    have : (⟨it.ip, none, it.u⟩ : Item) = it := by cases it; simp_all
    simp [this]
  | some f =>
    have hf : ∀ c ∈ f, isDigit c = true := by simpa [hfp] using h2
    have hsp2 : spanDigits (f ++ (unitText it.u ++ R)) = (f, unitText it.u ++ R) :=
      spanDigits_append _ _ hf (fun c hc => (unitText_head_not_digit _ _ c hc).1)
    simp only [fracText, List.cons_append, hsp2, unitAt_unitText it.u R hR]
    have : (⟨it.ip, some f, it.u⟩ : Item) = it := by cases it; simp_all
    simp [this]

theorem renderItems_isEmpty (items : List Item) (h : ∀ it ∈ items, it.wf) :
    (renderItems items).isEmpty = items.isEmpty := by
  cases items with
  | nil => rfl
  | cons it r =>
    have : unitText it.u ≠ [] := by cases it.u <;> simp [unitText]
    simp [renderItems, renderItem, this]

/-- the grammar theorem: parsing the rendering of ANY non-empty item list gives the items back -/
theorem parseItems_render (items : List Item) (h : ∀ it ∈ items, it.wf) (hne : items ≠ []) :
    ∀ fuel, items.length ≤ fuel → parseItems fuel (renderItems items) = some items := by
  induction items with
  | nil => exact absurd rfl hne
  | cons it r ih =>
    intro fuel hf
    cases fuel with
    | zero => simp at hf
    | succ fuel =>
      have hr : ∀ it' ∈ r, it'.wf := fun it' hm => h it' (by simp [hm])
      show parseItems (fuel + 1) (renderItem it ++ renderItems r) = _
      rw [parseItems_step fuel it _ (h it (by simp)) (renderItems_head r hr), renderItems_isEmpty r hr]
      cases r with
      | nil => simp
      | cons it2 r2 =>
        simp only [List.isEmpty_cons, Bool.false_eq_true, if_false]
        rw [ih hr (by simp) fuel (by simpa using hf)]
        rfl

theorem dimTable_le (m : Nat) : dimTable m ≤ 31 := by
  unfold dimTable
  cases Nat.beq m 2 <;> cases (Nat.beq m 4 || Nat.beq m 6 || Nat.beq m 9 || Nat.beq m 11) <;> simp
theorem dimL_le (leap : Bool) (m : Nat) : dimL leap m ≤ 31 := by
  unfold dimL
  cases (Nat.beq m 2 && leap)
  · simpa using dimTable_le m
  · simp

/-! ### the micro sign: `µs` is `us` -/
/-- the micro sign written as `u` -/
def deMicro (c : Nat) : Nat := if c = 181 then 117 else c

theorem deMicro_isDigit (c : Nat) : isDigit (deMicro c) = isDigit c := by
  unfold deMicro; split
  · rename_i h; subst h; rfl
  · rfl

theorem deMicro_of_digit (c : Nat) (h : isDigit c = true) : deMicro c = c := by
  rw [isDigit_iff] at h; unfold deMicro; split <;> omega

theorem spanDigits_deMicro (s : List Nat) :
    spanDigits (s.map deMicro) = ((spanDigits s).1, (spanDigits s).2.map deMicro) := by
  induction s with
  | nil => rfl
  | cons c r ih =>
    by_cases h : isDigit c = true
    · have h' : isDigit (deMicro c) = true := by rw [deMicro_isDigit]; exact h
      simp only [List.map_cons]
      rw [spanDigits, spanDigits]
      simp only [h, h', if_true, ih]
      rw [deMicro_of_digit c h]
    · have h' : ¬ isDigit (deMicro c) = true := by rw [deMicro_isDigit]; exact h
      simp only [List.map_cons]
      rw [spanDigits, spanDigits]
      simp [h, h']

theorem unitAt_deMicro (r : List Nat) :
    unitAt (r.map deMicro) = (unitAt r).map (fun p => (p.1, p.2.map deMicro)) := by
  rcases r with _ | ⟨a, _ | ⟨b, r2⟩⟩
  · rfl
  · by_cases h1 : a = 181
    · subst h1; rfl
    · have : deMicro a = a := by simp [deMicro, h1]
      simp only [List.map_cons, List.map_nil, this]
      unfold unitAt
      split <;> simp_all
  · by_cases h1 : a = 181
    · subst h1
      by_cases h2 : b = 115
      · subst h2; simp [deMicro, unitAt]
      · have hb : deMicro b ≠ 115 := by unfold deMicro; split <;> omega
        simp only [List.map_cons]
        have e1 : unitAt (181 :: b :: r2) = none := by unfold unitAt; split <;> simp_all
        have e2 : unitAt (deMicro 181 :: deMicro b :: List.map deMicro r2) = none := by
          have : deMicro 181 = 117 := rfl
          rw [this]; unfold unitAt; split <;> simp_all
        rw [e1, e2]; rfl
    · have ha : deMicro a = a := by simp [deMicro, h1]
      simp only [List.map_cons, ha]
      by_cases h2 : b = 115
      · subst h2
        have : deMicro 115 = 115 := rfl
        rw [this]
        unfold unitAt
        split <;> simp_all
        all_goals (rename_i hx hq; exact hx _ hq.2.symm)
      · have hb : deMicro b ≠ 115 := by unfold deMicro; split <;> omega
        unfold unitAt
        split <;> simp_all

/-- the optional `.digits` part of one component -/
def fracSplit (r1 : List Nat) : Option (List Nat) × List Nat :=
  match r1 with
  | 46 :: r => (some (spanDigits r).1, (spanDigits r).2)
  | _ => (none, r1)

theorem parseItems_succ (fuel : Nat) (s : List Nat) :
    parseItems (fuel + 1) s =
      match unitAt (fracSplit (spanDigits s).2).2 with
      | none => none
      | some (u, r3) =>
        if r3.isEmpty then some [⟨(spanDigits s).1, (fracSplit (spanDigits s).2).1, u⟩]
        else (parseItems fuel r3).map (⟨(spanDigits s).1, (fracSplit (spanDigits s).2).1, u⟩ :: ·) := by
  rw [parseItems]; rfl

theorem fracSplit_deMicro (r1 : List Nat) :
    fracSplit (r1.map deMicro) = ((fracSplit r1).1, (fracSplit r1).2.map deMicro) := by
  rcases r1 with _ | ⟨c, r⟩
  · rfl
  · by_cases hc : c = 46
    · subst hc
      have h46 : deMicro 46 = 46 := rfl
      simp only [List.map_cons, h46, fracSplit, spanDigits_deMicro]
    · have hc' : deMicro c ≠ 46 := by unfold deMicro; split <;> omega
      have e1 : fracSplit (deMicro c :: List.map deMicro r) = (none, deMicro c :: List.map deMicro r) := by
        unfold fracSplit; split
        · rename_i heq; simp at heq; exact absurd heq.1 hc'
        · rfl
      have e2 : fracSplit (c :: r) = (none, c :: r) := by
        unfold fracSplit; split
        · rename_i heq; simp at heq; exact absurd heq.1 hc
        · rfl
      simp only [List.map_cons, e1, e2]

/-- the grammar reads `µs` exactly as `us`: replacing every micro sign by `u` changes nothing, in ANY text -/
theorem parseItems_deMicro (fuel : Nat) (s : List Nat) :
    parseItems fuel (s.map deMicro) = parseItems fuel s := by
  induction fuel generalizing s with
  | zero => rfl
  | succ fuel ih =>
    rw [parseItems_succ, parseItems_succ, spanDigits_deMicro]
    simp only [fracSplit_deMicro, unitAt_deMicro]
    cases h : unitAt (fracSplit (spanDigits s).2).2 with
    | none => rfl
    | some p =>
      obtain ⟨u, r3⟩ := p
      simp [ih]

end Cel.Time
