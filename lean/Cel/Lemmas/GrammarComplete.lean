/-
  Cel.Lemmas.GrammarComplete — completeness of the expression syntax w.r.t. the grammar: every
  derivation (`Derives`) from any nonterminal yields what `SpecN` says, in particular every sentence
  derivable from `expr` is `render e` of a well-formed `e` and its tree is `toTree e`.
  One lemma per production family (`p_*`), a dispatcher over the 88 productions (`prod_ok`), and
  structural recursion over derivations (`spec_of_derives`).
-/
import Cel.Lemmas.Grammar
namespace Cel.Grammar
set_option linter.unusedVariables false

/-! ### snoc on argument lists -/
def PArgs.snoc : PArgs → PExpr → PArgs
  | .nil, x => .cons x .nil
  | .cons e r, x => .cons e (r.snoc x)
def PInits.snoc : PInits → PExpr → PExpr → PInits
  | .nil, k, v => .cons k v .nil
  | .cons a b r, k, v => .cons a b (r.snoc k v)
def PFields.snoc : PFields → String → PExpr → PFields
  | .nil, n, v => .cons n v .nil
  | .cons a b r, n, v => .cons a b (r.snoc n v)

theorem renderArgsTail_snoc : (r : PArgs) → (x : PExpr) →
    renderArgsTail (r.snoc x) = renderArgsTail r ++ (.a .COMMA :: render x)
  | .nil, x => by simp [PArgs.snoc, renderArgsTail]
  | .cons e r, x => by simp [PArgs.snoc, renderArgsTail, renderArgsTail_snoc r x]
theorem argTrees_snoc : (r : PArgs) → (x : PExpr) → argTrees (r.snoc x) = argTrees r ++ [toTreeAt 0 x]
  | .nil, x => by simp [PArgs.snoc, argTrees, toTreeAt]
  | .cons e r, x => by simp [PArgs.snoc, argTrees, argTrees_snoc r x]
theorem wfArgs_snoc : (r : PArgs) → (x : PExpr) → wfArgs (r.snoc x) = (wfArgs r && wf x)
  | .nil, x => by simp [PArgs.snoc, wfArgs]
  | .cons e r, x => by simp [PArgs.snoc, wfArgs, wfArgs_snoc r x, Bool.and_assoc]

theorem renderInitsTail_snoc : (r : PInits) → (k v : PExpr) →
    renderInitsTail (r.snoc k v) = renderInitsTail r ++ (.a .COMMA :: (render k ++ (.a .COLON :: render v)))
  | .nil, k, v => by simp [PInits.snoc, renderInitsTail]
  | .cons a b r, k, v => by simp [PInits.snoc, renderInitsTail, renderInitsTail_snoc r k v]
theorem initTrees_snoc : (r : PInits) → (k v : PExpr) →
    initTrees (r.snoc k v) = initTrees r ++ [toTreeAt 0 k, toTreeAt 0 v]
  | .nil, k, v => by simp [PInits.snoc, initTrees, toTreeAt]
  | .cons a b r, k, v => by simp [PInits.snoc, initTrees, initTrees_snoc r k v]
theorem wfInits_snoc : (r : PInits) → (k v : PExpr) → wfInits (r.snoc k v) = (wfInits r && wf k && wf v)
  | .nil, k, v => by simp [PInits.snoc, wfInits]
  | .cons a b r, k, v => by
      simp [PInits.snoc, wfInits, wfInits_snoc r k v, Bool.and_assoc]

theorem renderFieldsTail_snoc : (r : PFields) → (n : String) → (v : PExpr) →
    renderFieldsTail (r.snoc n v) = renderFieldsTail r ++ (.a .COMMA :: ⟨.IDENT, n⟩ :: .a .COLON :: render v)
  | .nil, n, v => by simp [PFields.snoc, renderFieldsTail]
  | .cons a b r, n, v => by simp [PFields.snoc, renderFieldsTail, renderFieldsTail_snoc r n v]
theorem fieldTrees_snoc : (r : PFields) → (n : String) → (v : PExpr) →
    fieldTrees (r.snoc n v) = fieldTrees r ++ [.leaf .IDENT n, toTreeAt 0 v]
  | .nil, n, v => by simp [PFields.snoc, fieldTrees, toTreeAt]
  | .cons a b r, n, v => by simp [PFields.snoc, fieldTrees, fieldTrees_snoc r n v]
theorem wfFields_snoc : (r : PFields) → (n : String) → (v : PExpr) → wfFields (r.snoc n v) = (wfFields r && wf v)
  | .nil, n, v => by simp [PFields.snoc, wfFields]
  | .cons a b r, n, v => by simp [PFields.snoc, wfFields, wfFields_snoc r n v, Bool.and_assoc]

theorem toTreeAt_succ (m : Nat) (e : PExpr) (h : m + 1 ≤ level e) :
    toTreeAt m e = .node (ntOf m) [toTreeAt (m + 1) e] := by
  unfold toTreeAt
  have : level e - m = (level e - (m + 1)) + 1 := by omega
  rw [this]; rfl

theorem toTreeAt_self (e : PExpr) : toTreeAt (level e) e = core e := by
  simp [toTreeAt, wrapUp]


/-! ### what a derivation yields, per symbol -/

def LevelSpec (m : Nat) (ts : List Tok) (cs : List Tree) : Prop :=
  ∃ e, wf e = true ∧ m ≤ level e ∧ ts = render e ∧ cs = [toTreeAt m e]
def PrimSpec (ts : List Tok) (cs : List Tree) : Prop :=
  ∃ e, wf e = true ∧ level e = 8 ∧ ts = render e ∧ core e = .node .primary cs
def MembSpec (ts : List Tok) (cs : List Tree) : Prop :=
  ∃ e, wf e = true ∧ level e = 7 ∧ ts = render e ∧ core e = .node .member cs
def OpSpec (L : Nat) (nt : NT) (k : TK) (ts : List Tok) (cs : List Tree) : Prop :=
  ∃ a, wf a = true ∧ L ≤ level a ∧ ts = render a ++ [.a k] ∧ cs = [.node nt [toTreeAt L a]]

def SpecN : NT → List Tok → List Tree → Prop
  | .expr => LevelSpec 0 | .conditionalor => LevelSpec 1 | .conditionaland => LevelSpec 2
  | .relation => LevelSpec 3 | .addition => LevelSpec 4 | .multiplication => LevelSpec 5
  | .unary => LevelSpec 6 | .member => LevelSpec 7 | .primary => LevelSpec 8
  | .relation_lt => OpSpec 3 .relation_lt .LT | .relation_le => OpSpec 3 .relation_le .LE
  | .relation_gt => OpSpec 3 .relation_gt .GT | .relation_ge => OpSpec 3 .relation_ge .GE
  | .relation_eq => OpSpec 3 .relation_eq .EQ | .relation_ne => OpSpec 3 .relation_ne .NE
  | .relation_in => OpSpec 3 .relation_in .IN
  | .addition_add => OpSpec 4 .addition_add .PLUS | .addition_sub => OpSpec 4 .addition_sub .MINUS
  | .multiplication_mul => OpSpec 5 .multiplication_mul .STAR
  | .multiplication_div => OpSpec 5 .multiplication_div .SLASH
  | .multiplication_mod => OpSpec 5 .multiplication_mod .PERCENT
  | .unary_not => fun ts cs => ts = [.a .BANG] ∧ cs = [.node .unary_not []]
  | .unary_neg => fun ts cs => ts = [.a .MINUS] ∧ cs = [.node .unary_neg []]
  | .member_dot => MembSpec | .member_dot_arg => MembSpec | .member_index => MembSpec | .member_object => MembSpec
  | .literal => PrimSpec | .dot_ident_arg => PrimSpec | .dot_ident => PrimSpec | .ident_arg => PrimSpec
  | .ident => PrimSpec | .paren_expr => PrimSpec | .list_lit => PrimSpec | .map_lit => PrimSpec
  | .exprlist => fun ts cs => ∃ as, as ≠ .nil ∧ wfArgs as = true ∧ ts = renderArgs as ∧ cs = exprlistOpt as
  | .exprlist_star => fun ts cs => ∃ r, r ≠ .nil ∧ wfArgs r = true ∧ ts = renderArgsTail r ∧ cs = argTrees r
  | .fieldinits => fun ts cs => ∃ fs, fs ≠ .nil ∧ wfFields fs = true ∧ ts = renderFields fs ∧ cs = fieldinitsOpt fs
  | .fieldinits_star => fun ts cs => ∃ r, r ≠ .nil ∧ wfFields r = true ∧ ts = renderFieldsTail r ∧ cs = fieldTrees r
  | .mapinits => fun ts cs => ∃ kvs, kvs ≠ .nil ∧ wfInits kvs = true ∧ ts = renderInits kvs ∧ cs = mapinitsOpt kvs
  | .mapinits_star => fun ts cs => ∃ r, r ≠ .nil ∧ wfInits r = true ∧ ts = renderInitsTail r ∧ cs = initTrees r

def Spec : Sym → List Tok → List Tree → Prop
  | .t k, ts, cs => if k.named = true then ∃ s, ts = [⟨k, s⟩] ∧ cs = [.leaf k s] else ts = [Tok.a k] ∧ cs = []
  | .n a, ts, cs => SpecN a ts cs

def SeqSpec : List Sym → List Tok → List Tree → Prop
  | [], ts, cs => ts = [] ∧ cs = []
  | x :: xs, ts, cs => ∃ t1 t2 c1 c2, Spec x t1 c1 ∧ SeqSpec xs t2 c2 ∧ ts = t1 ++ t2 ∧ cs = c1 ++ c2

/-- an anonymous token in a sequence -/
theorem spec_anon {k : TK} (h : k.named = false) {ts cs} (hs : Spec (.t k) ts cs) : ts = [Tok.a k] ∧ cs = [] := by
  simpa [Spec, h] using hs
theorem spec_named {k : TK} (h : k.named = true) {ts cs} (hs : Spec (.t k) ts cs) :
    ∃ s, ts = [⟨k, s⟩] ∧ cs = [.leaf k s] := by
  simpa [Spec, h] using hs

theorem p_unit (m : Nat) (hm : m < 8) (ts : List Tok) (cs : List Tree)
    (hs : SeqSpec [.n (ntOf (m + 1))] ts cs) (hsp : ∀ t c, SpecN (ntOf (m + 1)) t c = LevelSpec (m + 1) t c) :
    LevelSpec m ts [.node (ntOf m) cs] := by
  obtain ⟨t1, _, c1, _, h1, ⟨rfl, rfl⟩, rfl, rfl⟩ := hs
  simp only [Spec, hsp] at h1
  obtain ⟨e, we, le, rfl, rfl⟩ := h1
  exact ⟨e, we, by omega, by simp, by simp [toTreeAt_succ m e le]⟩

theorem p_or (ts : List Tok) (cs : List Tree)
    (hs : SeqSpec [.n .conditionalor, .t .OROR, .n .conditionaland] ts cs) : LevelSpec 1 ts [.node .conditionalor cs] := by
  obtain ⟨_, _, _, _, ⟨a, wa, la, rfl, rfl⟩, ⟨_, _, _, _, htok, ⟨_, _, _, _, ⟨b, wb, lb, rfl, rfl⟩, ⟨rfl, rfl⟩, rfl, rfl⟩, rfl, rfl⟩, rfl, rfl⟩ := hs
  obtain ⟨rfl, rfl⟩ := spec_anon rfl htok
  exact ⟨.or a b, by simp [wf, wa, wb, la, lb], by simp [level], by simp [render], by simp [toTreeAt, level, wrapUp, core]⟩


theorem p_and (ts : List Tok) (cs : List Tree)
    (hs : SeqSpec [.n .conditionaland, .t .ANDAND, .n .relation] ts cs) : LevelSpec 2 ts [.node .conditionaland cs] := by
  obtain ⟨_, _, _, _, ⟨a, wa, la, rfl, rfl⟩, ⟨_, _, _, _, htok, ⟨_, _, _, _, ⟨b, wb, lb, rfl, rfl⟩, ⟨rfl, rfl⟩, rfl, rfl⟩, rfl, rfl⟩, rfl, rfl⟩ := hs
  obtain ⟨rfl, rfl⟩ := spec_anon rfl htok
  exact ⟨.and a b, by simp [wf, wa, wb, la, lb], by simp [level], by simp [render], by simp [toTreeAt, level, wrapUp, core]⟩

theorem p_cond (ts : List Tok) (cs : List Tree)
    (hs : SeqSpec [.n .conditionalor, .t .QMARK, .n .conditionalor, .t .COLON, .n .expr] ts cs) :
    LevelSpec 0 ts [.node .expr cs] := by
  obtain ⟨_, _, _, _, ⟨c, wc, lc, rfl, rfl⟩, ⟨_, _, _, _, hq, ⟨_, _, _, _, ⟨a, wa, la, rfl, rfl⟩,
    ⟨_, _, _, _, hcol, ⟨_, _, _, _, ⟨b, wb, lb, rfl, rfl⟩, ⟨rfl, rfl⟩, rfl, rfl⟩, rfl, rfl⟩, rfl, rfl⟩, rfl, rfl⟩, rfl, rfl⟩ := hs
  obtain ⟨rfl, rfl⟩ := spec_anon rfl hq
  obtain ⟨rfl, rfl⟩ := spec_anon rfl hcol
  exact ⟨.cond c a b, by simp [wf, wa, wb, wc, la, lc], by simp [level], by simp [render], by simp [toTreeAt, level, wrapUp, core]⟩

/-- `relation_X : relation "op"` etc. -/
theorem p_opnode (L : Nat) (nt : NT) (k : TK) (hk : k.named = false) (hL : L < 8) (ts : List Tok) (cs : List Tree)
    (hs : SeqSpec [.n (ntOf L), .t k] ts cs) (hsp : ∀ t c, SpecN (ntOf L) t c = LevelSpec L t c) :
    OpSpec L nt k ts [.node nt cs] := by
  obtain ⟨_, _, _, _, h1, ⟨_, _, _, _, htok, ⟨rfl, rfl⟩, rfl, rfl⟩, rfl, rfl⟩ := hs
  simp only [Spec, hsp] at h1
  obtain ⟨a, wa, la, rfl, rfl⟩ := h1
  obtain ⟨rfl, rfl⟩ := spec_anon hk htok
  exact ⟨a, wa, la, by simp, by simp⟩

theorem p_rel (op : RelOp) (ts : List Tok) (cs : List Tree)
    (hs : SeqSpec [.n op.nt, .n .addition] ts cs) (hsp : ∀ t c, SpecN op.nt t c = OpSpec 3 op.nt op.tk t c) :
    LevelSpec 3 ts [.node .relation cs] := by
  obtain ⟨_, _, _, _, h1, ⟨_, _, _, _, ⟨b, wb, lb, rfl, rfl⟩, ⟨rfl, rfl⟩, rfl, rfl⟩, rfl, rfl⟩ := hs
  simp only [Spec, hsp] at h1
  obtain ⟨a, wa, la, rfl, rfl⟩ := h1
  exact ⟨.rel op a b, by simp [wf, wa, wb, la, lb], by simp [level], by simp [render], by simp [toTreeAt, level, wrapUp, core]⟩

theorem p_add (op : AddOp) (ts : List Tok) (cs : List Tree)
    (hs : SeqSpec [.n op.nt, .n .multiplication] ts cs) (hsp : ∀ t c, SpecN op.nt t c = OpSpec 4 op.nt op.tk t c) :
    LevelSpec 4 ts [.node .addition cs] := by
  obtain ⟨_, _, _, _, h1, ⟨_, _, _, _, ⟨b, wb, lb, rfl, rfl⟩, ⟨rfl, rfl⟩, rfl, rfl⟩, rfl, rfl⟩ := hs
  simp only [Spec, hsp] at h1
  obtain ⟨a, wa, la, rfl, rfl⟩ := h1
  exact ⟨.add op a b, by simp [wf, wa, wb, la, lb], by simp [level], by simp [render], by simp [toTreeAt, level, wrapUp, core]⟩

theorem p_mul (op : MulOp) (ts : List Tok) (cs : List Tree)
    (hs : SeqSpec [.n op.nt, .n .unary] ts cs) (hsp : ∀ t c, SpecN op.nt t c = OpSpec 5 op.nt op.tk t c) :
    LevelSpec 5 ts [.node .multiplication cs] := by
  obtain ⟨_, _, _, _, h1, ⟨_, _, _, _, ⟨b, wb, lb, rfl, rfl⟩, ⟨rfl, rfl⟩, rfl, rfl⟩, rfl, rfl⟩ := hs
  simp only [Spec, hsp] at h1
  obtain ⟨a, wa, la, rfl, rfl⟩ := h1
  exact ⟨.mul op a b, by simp [wf, wa, wb, la, lb], by simp [level], by simp [render], by simp [toTreeAt, level, wrapUp, core]⟩

theorem p_unary_not_node (ts : List Tok) (cs : List Tree) (hs : SeqSpec [.t .BANG] ts cs) :
    SpecN .unary_not ts [.node .unary_not cs] := by
  obtain ⟨_, _, _, _, htok, ⟨rfl, rfl⟩, rfl, rfl⟩ := hs
  obtain ⟨rfl, rfl⟩ := spec_anon rfl htok
  exact ⟨rfl, rfl⟩
theorem p_unary_neg_node (ts : List Tok) (cs : List Tree) (hs : SeqSpec [.t .MINUS] ts cs) :
    SpecN .unary_neg ts [.node .unary_neg cs] := by
  obtain ⟨_, _, _, _, htok, ⟨rfl, rfl⟩, rfl, rfl⟩ := hs
  obtain ⟨rfl, rfl⟩ := spec_anon rfl htok
  exact ⟨rfl, rfl⟩

theorem p_not (ts : List Tok) (cs : List Tree) (hs : SeqSpec [.n .unary_not, .n .unary] ts cs) :
    LevelSpec 6 ts [.node .unary cs] := by
  obtain ⟨_, _, _, _, ⟨rfl, rfl⟩, ⟨_, _, _, _, ⟨e, we, le, rfl, rfl⟩, ⟨rfl, rfl⟩, rfl, rfl⟩, rfl, rfl⟩ := hs
  exact ⟨.not e, by simp [wf, we, le], by simp [level], by simp [render], by simp [toTreeAt, level, wrapUp, core]⟩
theorem p_neg (ts : List Tok) (cs : List Tree) (hs : SeqSpec [.n .unary_neg, .n .unary] ts cs) :
    LevelSpec 6 ts [.node .unary cs] := by
  obtain ⟨_, _, _, _, ⟨rfl, rfl⟩, ⟨_, _, _, _, ⟨e, we, le, rfl, rfl⟩, ⟨rfl, rfl⟩, rfl, rfl⟩, rfl, rfl⟩ := hs
  exact ⟨.neg e, by simp [wf, we, le], by simp [level], by simp [render], by simp [toTreeAt, level, wrapUp, core]⟩

/-- `member : member_dot | member_dot_arg | member_index | member_object` -/
theorem p_member_of (x : NT) (ts : List Tok) (cs : List Tree) (hs : SeqSpec [.n x] ts cs)
    (hsp : ∀ t c, SpecN x t c = MembSpec t c) : LevelSpec 7 ts [.node .member cs] := by
  obtain ⟨_, _, _, _, h1, ⟨rfl, rfl⟩, rfl, rfl⟩ := hs
  simp only [Spec, hsp] at h1
  obtain ⟨e, we, le, rfl, hc⟩ := h1
  exact ⟨e, we, by omega, by simp, by simp [toTreeAt, le, wrapUp, hc]⟩

/-- `primary : literal | dot_ident_arg | …` -/
theorem p_primary_of (x : NT) (ts : List Tok) (cs : List Tree) (hs : SeqSpec [.n x] ts cs)
    (hsp : ∀ t c, SpecN x t c = PrimSpec t c) : LevelSpec 8 ts [.node .primary cs] := by
  obtain ⟨_, _, _, _, h1, ⟨rfl, rfl⟩, rfl, rfl⟩ := hs
  simp only [Spec, hsp] at h1
  obtain ⟨e, we, le, rfl, hc⟩ := h1
  exact ⟨e, we, by omega, by simp, by simp [toTreeAt, le, wrapUp, hc]⟩

theorem p_member_dot (ts : List Tok) (cs : List Tree) (hs : SeqSpec [.n .member, .t .DOT, .t .IDENT] ts cs) :
    MembSpec ts [.node .member_dot cs] := by
  obtain ⟨_, _, _, _, ⟨e, we, le, rfl, rfl⟩, ⟨_, _, _, _, hd, ⟨_, _, _, _, hi, ⟨rfl, rfl⟩, rfl, rfl⟩, rfl, rfl⟩, rfl, rfl⟩ := hs
  obtain ⟨rfl, rfl⟩ := spec_anon rfl hd
  obtain ⟨n, rfl, rfl⟩ := spec_named rfl hi
  exact ⟨.dot e n, by simp [wf, we, le], by simp [level], by simp [render], by simp [core, toTreeAt]⟩

theorem p_member_dot_arg0 (ts : List Tok) (cs : List Tree)
    (hs : SeqSpec [.n .member, .t .DOT, .t .IDENT, .t .LPAR, .t .RPAR] ts cs) : MembSpec ts [.node .member_dot_arg cs] := by
  obtain ⟨_, _, _, _, ⟨e, we, le, rfl, rfl⟩, ⟨_, _, _, _, hd, ⟨_, _, _, _, hi, ⟨_, _, _, _, hl, ⟨_, _, _, _, hr, ⟨rfl, rfl⟩,
    rfl, rfl⟩, rfl, rfl⟩, rfl, rfl⟩, rfl, rfl⟩, rfl, rfl⟩ := hs
  obtain ⟨rfl, rfl⟩ := spec_anon rfl hd
  obtain ⟨n, rfl, rfl⟩ := spec_named rfl hi
  obtain ⟨rfl, rfl⟩ := spec_anon rfl hl
  obtain ⟨rfl, rfl⟩ := spec_anon rfl hr
  exact ⟨.dotArg e n .nil, by simp [wf, wfArgs, we, le], by simp [level], by simp [render, renderArgs],
    by simp [core, toTreeAt, exprlistOpt]⟩

theorem p_member_dot_arg1 (ts : List Tok) (cs : List Tree)
    (hs : SeqSpec [.n .member, .t .DOT, .t .IDENT, .t .LPAR, .n .exprlist, .t .RPAR] ts cs) :
    MembSpec ts [.node .member_dot_arg cs] := by
  obtain ⟨_, _, _, _, ⟨e, we, le, rfl, rfl⟩, ⟨_, _, _, _, hd, ⟨_, _, _, _, hi, ⟨_, _, _, _, hl, ⟨_, _, _, _, ⟨as, hne, wa, rfl, rfl⟩,
    ⟨_, _, _, _, hr, ⟨rfl, rfl⟩, rfl, rfl⟩, rfl, rfl⟩, rfl, rfl⟩, rfl, rfl⟩, rfl, rfl⟩, rfl, rfl⟩ := hs
  obtain ⟨rfl, rfl⟩ := spec_anon rfl hd
  obtain ⟨n, rfl, rfl⟩ := spec_named rfl hi
  obtain ⟨rfl, rfl⟩ := spec_anon rfl hl
  obtain ⟨rfl, rfl⟩ := spec_anon rfl hr
  exact ⟨.dotArg e n as, by simp [wf, wa, we, le], by simp [level], by simp [render], by simp [core, toTreeAt]⟩

theorem p_member_index (ts : List Tok) (cs : List Tree)
    (hs : SeqSpec [.n .member, .t .LSQB, .n .expr, .t .RSQB] ts cs) : MembSpec ts [.node .member_index cs] := by
  obtain ⟨_, _, _, _, ⟨e, we, le, rfl, rfl⟩, ⟨_, _, _, _, hl, ⟨_, _, _, _, ⟨i, wi, _, rfl, rfl⟩,
    ⟨_, _, _, _, hr, ⟨rfl, rfl⟩, rfl, rfl⟩, rfl, rfl⟩, rfl, rfl⟩, rfl, rfl⟩ := hs
  obtain ⟨rfl, rfl⟩ := spec_anon rfl hl
  obtain ⟨rfl, rfl⟩ := spec_anon rfl hr
  exact ⟨.index e i, by simp [wf, wi, we, le], by simp [level], by simp [render], by simp [core, toTreeAt]⟩

theorem p_member_object0 (ts : List Tok) (cs : List Tree)
    (hs : SeqSpec [.n .member, .t .LBRACE, .t .RBRACE] ts cs) : MembSpec ts [.node .member_object cs] := by
  obtain ⟨_, _, _, _, ⟨e, we, le, rfl, rfl⟩, ⟨_, _, _, _, hl, ⟨_, _, _, _, hr, ⟨rfl, rfl⟩, rfl, rfl⟩, rfl, rfl⟩, rfl, rfl⟩ := hs
  obtain ⟨rfl, rfl⟩ := spec_anon rfl hl
  obtain ⟨rfl, rfl⟩ := spec_anon rfl hr
  exact ⟨.obj e .nil, by simp [wf, wfFields, we, le], by simp [level], by simp [render, renderFields],
    by simp [core, toTreeAt, fieldinitsOpt]⟩

theorem p_member_object1 (ts : List Tok) (cs : List Tree)
    (hs : SeqSpec [.n .member, .t .LBRACE, .n .fieldinits, .t .RBRACE] ts cs) : MembSpec ts [.node .member_object cs] := by
  obtain ⟨_, _, _, _, ⟨e, we, le, rfl, rfl⟩, ⟨_, _, _, _, hl, ⟨_, _, _, _, ⟨fs, hne, wfs, rfl, rfl⟩,
    ⟨_, _, _, _, hr, ⟨rfl, rfl⟩, rfl, rfl⟩, rfl, rfl⟩, rfl, rfl⟩, rfl, rfl⟩ := hs
  obtain ⟨rfl, rfl⟩ := spec_anon rfl hl
  obtain ⟨rfl, rfl⟩ := spec_anon rfl hr
  exact ⟨.obj e fs, by simp [wf, wfs, we, le], by simp [level], by simp [render], by simp [core, toTreeAt]⟩


theorem p_literal (k : LitK) (ts : List Tok) (cs : List Tree) (hs : SeqSpec [.t k.tk] ts cs) :
    PrimSpec ts [.node .literal cs] := by
  obtain ⟨_, _, _, _, hi, ⟨rfl, rfl⟩, rfl, rfl⟩ := hs
  obtain ⟨s, rfl, rfl⟩ := spec_named (lit_prod k).2 hi
  exact ⟨.lit k s, rfl, rfl, by simp [render], by simp [core]⟩

theorem p_ident (ts : List Tok) (cs : List Tree) (hs : SeqSpec [.t .IDENT] ts cs) : PrimSpec ts [.node .ident cs] := by
  obtain ⟨_, _, _, _, hi, ⟨rfl, rfl⟩, rfl, rfl⟩ := hs
  obtain ⟨s, rfl, rfl⟩ := spec_named rfl hi
  exact ⟨.ident s, rfl, rfl, by simp [render], by simp [core]⟩

theorem p_dot_ident (ts : List Tok) (cs : List Tree) (hs : SeqSpec [.t .DOT, .t .IDENT] ts cs) :
    PrimSpec ts [.node .dot_ident cs] := by
  obtain ⟨_, _, _, _, hd, ⟨_, _, _, _, hi, ⟨rfl, rfl⟩, rfl, rfl⟩, rfl, rfl⟩ := hs
  obtain ⟨rfl, rfl⟩ := spec_anon rfl hd
  obtain ⟨s, rfl, rfl⟩ := spec_named rfl hi
  exact ⟨.dotIdent s, rfl, rfl, by simp [render], by simp [core]⟩

theorem p_ident_arg0 (ts : List Tok) (cs : List Tree) (hs : SeqSpec [.t .IDENT, .t .LPAR, .t .RPAR] ts cs) :
    PrimSpec ts [.node .ident_arg cs] := by
  obtain ⟨_, _, _, _, hi, ⟨_, _, _, _, hl, ⟨_, _, _, _, hr, ⟨rfl, rfl⟩, rfl, rfl⟩, rfl, rfl⟩, rfl, rfl⟩ := hs
  obtain ⟨s, rfl, rfl⟩ := spec_named rfl hi
  obtain ⟨rfl, rfl⟩ := spec_anon rfl hl
  obtain ⟨rfl, rfl⟩ := spec_anon rfl hr
  exact ⟨.identArg s .nil, rfl, rfl, by simp [render, renderArgs], by simp [core, exprlistOpt]⟩

theorem p_ident_arg1 (ts : List Tok) (cs : List Tree)
    (hs : SeqSpec [.t .IDENT, .t .LPAR, .n .exprlist, .t .RPAR] ts cs) : PrimSpec ts [.node .ident_arg cs] := by
  obtain ⟨_, _, _, _, hi, ⟨_, _, _, _, hl, ⟨_, _, _, _, ⟨as, hne, wa, rfl, rfl⟩, ⟨_, _, _, _, hr, ⟨rfl, rfl⟩, rfl, rfl⟩, rfl, rfl⟩,
    rfl, rfl⟩, rfl, rfl⟩ := hs
  obtain ⟨s, rfl, rfl⟩ := spec_named rfl hi
  obtain ⟨rfl, rfl⟩ := spec_anon rfl hl
  obtain ⟨rfl, rfl⟩ := spec_anon rfl hr
  exact ⟨.identArg s as, by simp [wf, wa], rfl, by simp [render], by simp [core]⟩

theorem p_dot_ident_arg0 (ts : List Tok) (cs : List Tree)
    (hs : SeqSpec [.t .DOT, .t .IDENT, .t .LPAR, .t .RPAR] ts cs) : PrimSpec ts [.node .dot_ident_arg cs] := by
  obtain ⟨_, _, _, _, hd, ⟨_, _, _, _, hi, ⟨_, _, _, _, hl, ⟨_, _, _, _, hr, ⟨rfl, rfl⟩, rfl, rfl⟩, rfl, rfl⟩, rfl, rfl⟩, rfl, rfl⟩ := hs
  obtain ⟨rfl, rfl⟩ := spec_anon rfl hd
  obtain ⟨s, rfl, rfl⟩ := spec_named rfl hi
  obtain ⟨rfl, rfl⟩ := spec_anon rfl hl
  obtain ⟨rfl, rfl⟩ := spec_anon rfl hr
  exact ⟨.dotIdentArg s .nil, rfl, rfl, by simp [render, renderArgs], by simp [core, exprlistOpt]⟩

theorem p_dot_ident_arg1 (ts : List Tok) (cs : List Tree)
    (hs : SeqSpec [.t .DOT, .t .IDENT, .t .LPAR, .n .exprlist, .t .RPAR] ts cs) : PrimSpec ts [.node .dot_ident_arg cs] := by
  obtain ⟨_, _, _, _, hd, ⟨_, _, _, _, hi, ⟨_, _, _, _, hl, ⟨_, _, _, _, ⟨as, hne, wa, rfl, rfl⟩,
    ⟨_, _, _, _, hr, ⟨rfl, rfl⟩, rfl, rfl⟩, rfl, rfl⟩, rfl, rfl⟩, rfl, rfl⟩, rfl, rfl⟩ := hs
  obtain ⟨rfl, rfl⟩ := spec_anon rfl hd
  obtain ⟨s, rfl, rfl⟩ := spec_named rfl hi
  obtain ⟨rfl, rfl⟩ := spec_anon rfl hl
  obtain ⟨rfl, rfl⟩ := spec_anon rfl hr
  exact ⟨.dotIdentArg s as, by simp [wf, wa], rfl, by simp [render], by simp [core]⟩

theorem p_paren (ts : List Tok) (cs : List Tree) (hs : SeqSpec [.t .LPAR, .n .expr, .t .RPAR] ts cs) :
    PrimSpec ts [.node .paren_expr cs] := by
  obtain ⟨_, _, _, _, hl, ⟨_, _, _, _, ⟨e, we, _, rfl, rfl⟩, ⟨_, _, _, _, hr, ⟨rfl, rfl⟩, rfl, rfl⟩, rfl, rfl⟩, rfl, rfl⟩ := hs
  obtain ⟨rfl, rfl⟩ := spec_anon rfl hl
  obtain ⟨rfl, rfl⟩ := spec_anon rfl hr
  exact ⟨.paren e, by simp [wf, we], rfl, by simp [render], by simp [core, toTreeAt]⟩

theorem p_list0 (ts : List Tok) (cs : List Tree) (hs : SeqSpec [.t .LSQB, .t .RSQB] ts cs) :
    PrimSpec ts [.node .list_lit cs] := by
  obtain ⟨_, _, _, _, hl, ⟨_, _, _, _, hr, ⟨rfl, rfl⟩, rfl, rfl⟩, rfl, rfl⟩ := hs
  obtain ⟨rfl, rfl⟩ := spec_anon rfl hl
  obtain ⟨rfl, rfl⟩ := spec_anon rfl hr
  exact ⟨.list .nil, rfl, rfl, by simp [render, renderArgs], by simp [core, exprlistOpt]⟩

theorem p_list1 (ts : List Tok) (cs : List Tree) (hs : SeqSpec [.t .LSQB, .n .exprlist, .t .RSQB] ts cs) :
    PrimSpec ts [.node .list_lit cs] := by
  obtain ⟨_, _, _, _, hl, ⟨_, _, _, _, ⟨as, hne, wa, rfl, rfl⟩, ⟨_, _, _, _, hr, ⟨rfl, rfl⟩, rfl, rfl⟩, rfl, rfl⟩, rfl, rfl⟩ := hs
  obtain ⟨rfl, rfl⟩ := spec_anon rfl hl
  obtain ⟨rfl, rfl⟩ := spec_anon rfl hr
  exact ⟨.list as, by simp [wf, wa], rfl, by simp [render], by simp [core]⟩

theorem p_map0 (ts : List Tok) (cs : List Tree) (hs : SeqSpec [.t .LBRACE, .t .RBRACE] ts cs) :
    PrimSpec ts [.node .map_lit cs] := by
  obtain ⟨_, _, _, _, hl, ⟨_, _, _, _, hr, ⟨rfl, rfl⟩, rfl, rfl⟩, rfl, rfl⟩ := hs
  obtain ⟨rfl, rfl⟩ := spec_anon rfl hl
  obtain ⟨rfl, rfl⟩ := spec_anon rfl hr
  exact ⟨.map .nil, rfl, rfl, by simp [render, renderInits], by simp [core, mapinitsOpt]⟩

theorem p_map1 (ts : List Tok) (cs : List Tree) (hs : SeqSpec [.t .LBRACE, .n .mapinits, .t .RBRACE] ts cs) :
    PrimSpec ts [.node .map_lit cs] := by
  obtain ⟨_, _, _, _, hl, ⟨_, _, _, _, ⟨kvs, hne, wk, rfl, rfl⟩, ⟨_, _, _, _, hr, ⟨rfl, rfl⟩, rfl, rfl⟩, rfl, rfl⟩, rfl, rfl⟩ := hs
  obtain ⟨rfl, rfl⟩ := spec_anon rfl hl
  obtain ⟨rfl, rfl⟩ := spec_anon rfl hr
  exact ⟨.map kvs, by simp [wf, wk], rfl, by simp [render], by simp [core]⟩

/-! lists -/

theorem p_exprlist1 (ts : List Tok) (cs : List Tree) (hs : SeqSpec [.n .expr] ts cs) :
    SpecN .exprlist ts [.node .exprlist cs] := by
  obtain ⟨_, _, _, _, ⟨e, we, _, rfl, rfl⟩, ⟨rfl, rfl⟩, rfl, rfl⟩ := hs
  exact ⟨.cons e .nil, by simp, by simp [wfArgs, we], by simp [renderArgs, renderArgsTail], by simp [exprlistOpt, argTrees, toTreeAt]⟩

theorem p_exprlist2 (ts : List Tok) (cs : List Tree) (hs : SeqSpec [.n .expr, .n .exprlist_star] ts cs) :
    SpecN .exprlist ts [.node .exprlist cs] := by
  obtain ⟨_, _, _, _, ⟨e, we, _, rfl, rfl⟩, ⟨_, _, _, _, ⟨r, hne, wr, rfl, rfl⟩, ⟨rfl, rfl⟩, rfl, rfl⟩, rfl, rfl⟩ := hs
  exact ⟨.cons e r, by simp, by simp [wfArgs, we, wr], by simp [renderArgs], by simp [exprlistOpt, toTreeAt]⟩

theorem p_exprlist_star1 (ts : List Tok) (cs : List Tree) (hs : SeqSpec [.t .COMMA, .n .expr] ts cs) :
    SpecN .exprlist_star ts cs := by
  obtain ⟨_, _, _, _, hc, ⟨_, _, _, _, ⟨e, we, _, rfl, rfl⟩, ⟨rfl, rfl⟩, rfl, rfl⟩, rfl, rfl⟩ := hs
  obtain ⟨rfl, rfl⟩ := spec_anon rfl hc
  exact ⟨.cons e .nil, by simp, by simp [wfArgs, we], by simp [renderArgsTail], by simp [argTrees, toTreeAt]⟩

theorem p_exprlist_star2 (ts : List Tok) (cs : List Tree)
    (hs : SeqSpec [.n .exprlist_star, .t .COMMA, .n .expr] ts cs) : SpecN .exprlist_star ts cs := by
  obtain ⟨_, _, _, _, ⟨r, hne, wr, rfl, rfl⟩, ⟨_, _, _, _, hc, ⟨_, _, _, _, ⟨e, we, _, rfl, rfl⟩, ⟨rfl, rfl⟩, rfl, rfl⟩, rfl, rfl⟩, rfl, rfl⟩ := hs
  obtain ⟨rfl, rfl⟩ := spec_anon rfl hc
  refine ⟨r.snoc e, ?_, by simp [wfArgs_snoc, wr, we], by simp [renderArgsTail_snoc], by simp [argTrees_snoc]⟩
  cases r <;> simp [PArgs.snoc]

theorem p_mapinits1 (ts : List Tok) (cs : List Tree) (hs : SeqSpec [.n .expr, .t .COLON, .n .expr] ts cs) :
    SpecN .mapinits ts [.node .mapinits cs] := by
  obtain ⟨_, _, _, _, ⟨k, wk, _, rfl, rfl⟩, ⟨_, _, _, _, hc, ⟨_, _, _, _, ⟨v, wv, _, rfl, rfl⟩, ⟨rfl, rfl⟩, rfl, rfl⟩, rfl, rfl⟩, rfl, rfl⟩ := hs
  obtain ⟨rfl, rfl⟩ := spec_anon rfl hc
  exact ⟨.cons k v .nil, by simp, by simp [wfInits, wk, wv], by simp [renderInits, renderInitsTail],
    by simp [mapinitsOpt, initTrees, toTreeAt]⟩

theorem p_mapinits2 (ts : List Tok) (cs : List Tree)
    (hs : SeqSpec [.n .expr, .t .COLON, .n .expr, .n .mapinits_star] ts cs) : SpecN .mapinits ts [.node .mapinits cs] := by
  obtain ⟨_, _, _, _, ⟨k, wk, _, rfl, rfl⟩, ⟨_, _, _, _, hc, ⟨_, _, _, _, ⟨v, wv, _, rfl, rfl⟩,
    ⟨_, _, _, _, ⟨r, hne, wr, rfl, rfl⟩, ⟨rfl, rfl⟩, rfl, rfl⟩, rfl, rfl⟩, rfl, rfl⟩, rfl, rfl⟩ := hs
  obtain ⟨rfl, rfl⟩ := spec_anon rfl hc
  exact ⟨.cons k v r, by simp, by simp [wfInits, wk, wv, wr], by simp [renderInits], by simp [mapinitsOpt, toTreeAt]⟩

theorem p_mapinits_star1 (ts : List Tok) (cs : List Tree)
    (hs : SeqSpec [.t .COMMA, .n .expr, .t .COLON, .n .expr] ts cs) : SpecN .mapinits_star ts cs := by
  obtain ⟨_, _, _, _, hcm, ⟨_, _, _, _, ⟨k, wk, _, rfl, rfl⟩, ⟨_, _, _, _, hc, ⟨_, _, _, _, ⟨v, wv, _, rfl, rfl⟩, ⟨rfl, rfl⟩,
    rfl, rfl⟩, rfl, rfl⟩, rfl, rfl⟩, rfl, rfl⟩ := hs
  obtain ⟨rfl, rfl⟩ := spec_anon rfl hcm
  obtain ⟨rfl, rfl⟩ := spec_anon rfl hc
  exact ⟨.cons k v .nil, by simp, by simp [wfInits, wk, wv], by simp [renderInitsTail], by simp [initTrees, toTreeAt]⟩

theorem p_mapinits_star2 (ts : List Tok) (cs : List Tree)
    (hs : SeqSpec [.n .mapinits_star, .t .COMMA, .n .expr, .t .COLON, .n .expr] ts cs) : SpecN .mapinits_star ts cs := by
  obtain ⟨_, _, _, _, ⟨r, hne, wr, rfl, rfl⟩, ⟨_, _, _, _, hcm, ⟨_, _, _, _, ⟨k, wk, _, rfl, rfl⟩, ⟨_, _, _, _, hc,
    ⟨_, _, _, _, ⟨v, wv, _, rfl, rfl⟩, ⟨rfl, rfl⟩, rfl, rfl⟩, rfl, rfl⟩, rfl, rfl⟩, rfl, rfl⟩, rfl, rfl⟩ := hs
  obtain ⟨rfl, rfl⟩ := spec_anon rfl hcm
  obtain ⟨rfl, rfl⟩ := spec_anon rfl hc
  refine ⟨r.snoc k v, ?_, by simp [wfInits_snoc, wr, wk, wv], by simp [renderInitsTail_snoc], by simp [initTrees_snoc]⟩
  cases r <;> simp [PInits.snoc]

theorem p_fieldinits1 (ts : List Tok) (cs : List Tree) (hs : SeqSpec [.t .IDENT, .t .COLON, .n .expr] ts cs) :
    SpecN .fieldinits ts [.node .fieldinits cs] := by
  obtain ⟨_, _, _, _, hi, ⟨_, _, _, _, hc, ⟨_, _, _, _, ⟨v, wv, _, rfl, rfl⟩, ⟨rfl, rfl⟩, rfl, rfl⟩, rfl, rfl⟩, rfl, rfl⟩ := hs
  obtain ⟨n, rfl, rfl⟩ := spec_named rfl hi
  obtain ⟨rfl, rfl⟩ := spec_anon rfl hc
  exact ⟨.cons n v .nil, by simp, by simp [wfFields, wv], by simp [renderFields, renderFieldsTail],
    by simp [fieldinitsOpt, fieldTrees, toTreeAt]⟩

theorem p_fieldinits2 (ts : List Tok) (cs : List Tree)
    (hs : SeqSpec [.t .IDENT, .t .COLON, .n .expr, .n .fieldinits_star] ts cs) : SpecN .fieldinits ts [.node .fieldinits cs] := by
  obtain ⟨_, _, _, _, hi, ⟨_, _, _, _, hc, ⟨_, _, _, _, ⟨v, wv, _, rfl, rfl⟩, ⟨_, _, _, _, ⟨r, hne, wr, rfl, rfl⟩, ⟨rfl, rfl⟩,
    rfl, rfl⟩, rfl, rfl⟩, rfl, rfl⟩, rfl, rfl⟩ := hs
  obtain ⟨n, rfl, rfl⟩ := spec_named rfl hi
  obtain ⟨rfl, rfl⟩ := spec_anon rfl hc
  exact ⟨.cons n v r, by simp, by simp [wfFields, wv, wr], by simp [renderFields], by simp [fieldinitsOpt, toTreeAt]⟩

theorem p_fieldinits_star1 (ts : List Tok) (cs : List Tree)
    (hs : SeqSpec [.t .COMMA, .t .IDENT, .t .COLON, .n .expr] ts cs) : SpecN .fieldinits_star ts cs := by
  obtain ⟨_, _, _, _, hcm, ⟨_, _, _, _, hi, ⟨_, _, _, _, hc, ⟨_, _, _, _, ⟨v, wv, _, rfl, rfl⟩, ⟨rfl, rfl⟩,
    rfl, rfl⟩, rfl, rfl⟩, rfl, rfl⟩, rfl, rfl⟩ := hs
  obtain ⟨rfl, rfl⟩ := spec_anon rfl hcm
  obtain ⟨n, rfl, rfl⟩ := spec_named rfl hi
  obtain ⟨rfl, rfl⟩ := spec_anon rfl hc
  exact ⟨.cons n v .nil, by simp, by simp [wfFields, wv], by simp [renderFieldsTail], by simp [fieldTrees, toTreeAt]⟩

theorem p_fieldinits_star2 (ts : List Tok) (cs : List Tree)
    (hs : SeqSpec [.n .fieldinits_star, .t .COMMA, .t .IDENT, .t .COLON, .n .expr] ts cs) : SpecN .fieldinits_star ts cs := by
  obtain ⟨_, _, _, _, ⟨r, hne, wr, rfl, rfl⟩, ⟨_, _, _, _, hcm, ⟨_, _, _, _, hi, ⟨_, _, _, _, hc,
    ⟨_, _, _, _, ⟨v, wv, _, rfl, rfl⟩, ⟨rfl, rfl⟩, rfl, rfl⟩, rfl, rfl⟩, rfl, rfl⟩, rfl, rfl⟩, rfl, rfl⟩ := hs
  obtain ⟨rfl, rfl⟩ := spec_anon rfl hcm
  obtain ⟨n, rfl, rfl⟩ := spec_named rfl hi
  obtain ⟨rfl, rfl⟩ := spec_anon rfl hc
  refine ⟨r.snoc n v, ?_, by simp [wfFields_snoc, wr, wv], by simp [renderFieldsTail_snoc], by simp [fieldTrees_snoc]⟩
  cases r <;> simp [PFields.snoc]


/-- every production preserves the specification -/
theorem prod_ok : ∀ p ∈ productions, ∀ (ts : List Tok) (cs : List Tree), SeqSpec p.2 ts cs →
    SpecN p.1 ts (if p.1.inline = true then cs else [.node p.1 cs]) := by
  intro p hp ts cs hs
  simp only [productions, List.mem_cons, List.mem_nil_iff, or_false] at hp
  rcases hp with rfl | rfl | rfl | rfl | rfl | rfl | rfl | rfl | rfl | rfl | rfl | rfl | rfl | rfl | rfl | rfl | rfl | rfl | rfl | rfl | rfl | rfl | rfl | rfl | rfl | rfl | rfl | rfl | rfl | rfl | rfl | rfl | rfl | rfl | rfl | rfl | rfl | rfl | rfl | rfl | rfl | rfl | rfl | rfl | rfl | rfl | rfl | rfl | rfl | rfl | rfl | rfl | rfl | rfl | rfl | rfl | rfl | rfl | rfl | rfl | rfl | rfl | rfl | rfl | rfl | rfl | rfl | rfl | rfl | rfl | rfl | rfl | rfl | rfl | rfl | rfl | rfl | rfl | rfl | rfl | rfl | rfl | rfl | rfl | rfl | rfl | rfl | rfl
  · exact p_exprlist_star1 _ _ hs
  · exact p_exprlist_star2 _ _ hs
  · exact p_fieldinits_star1 _ _ hs
  · exact p_fieldinits_star2 _ _ hs
  · exact p_mapinits_star1 _ _ hs
  · exact p_mapinits_star2 _ _ hs
  · exact p_add .add _ _ hs (fun _ _ => rfl)
  · exact p_add .sub _ _ hs (fun _ _ => rfl)
  · exact p_unit 4 (by omega) _ _ hs (fun _ _ => rfl)
  · exact p_opnode 4 .addition_add .PLUS rfl (by omega) _ _ hs (fun _ _ => rfl)
  · exact p_opnode 4 .addition_sub .MINUS rfl (by omega) _ _ hs (fun _ _ => rfl)
  · exact p_and _ _ hs
  · exact p_unit 2 (by omega) _ _ hs (fun _ _ => rfl)
  · exact p_unit 1 (by omega) _ _ hs (fun _ _ => rfl)
  · exact p_or _ _ hs
  · exact p_dot_ident _ _ hs
  · exact p_dot_ident_arg0 _ _ hs
  · exact p_dot_ident_arg1 _ _ hs
  · exact p_unit 0 (by omega) _ _ hs (fun _ _ => rfl)
  · exact p_cond _ _ hs
  · exact p_exprlist1 _ _ hs
  · exact p_exprlist2 _ _ hs
  · exact p_fieldinits1 _ _ hs
  · exact p_fieldinits2 _ _ hs
  · exact p_ident _ _ hs
  · exact p_ident_arg0 _ _ hs
  · exact p_ident_arg1 _ _ hs
  · exact p_list0 _ _ hs
  · exact p_list1 _ _ hs
  · exact p_literal .bool _ _ hs
  · exact p_literal .bytes _ _ hs
  · exact p_literal .float _ _ hs
  · exact p_literal .int _ _ hs
  · exact p_literal .mlstring _ _ hs
  · exact p_literal .null _ _ hs
  · exact p_literal .string _ _ hs
  · exact p_literal .uint _ _ hs
  · exact p_map0 _ _ hs
  · exact p_map1 _ _ hs
  · exact p_mapinits1 _ _ hs
  · exact p_mapinits2 _ _ hs
  · exact p_member_of .member_dot _ _ hs (fun _ _ => rfl)
  · exact p_member_of .member_dot_arg _ _ hs (fun _ _ => rfl)
  · exact p_member_of .member_index _ _ hs (fun _ _ => rfl)
  · exact p_member_of .member_object _ _ hs (fun _ _ => rfl)
  · exact p_unit 7 (by omega) _ _ hs (fun _ _ => rfl)
  · exact p_member_dot _ _ hs
  · exact p_member_dot_arg0 _ _ hs
  · exact p_member_dot_arg1 _ _ hs
  · exact p_member_index _ _ hs
  · exact p_member_object0 _ _ hs
  · exact p_member_object1 _ _ hs
  · exact p_mul .div _ _ hs (fun _ _ => rfl)
  · exact p_mul .mod _ _ hs (fun _ _ => rfl)
  · exact p_mul .mul _ _ hs (fun _ _ => rfl)
  · exact p_unit 5 (by omega) _ _ hs (fun _ _ => rfl)
  · exact p_opnode 5 .multiplication_div .SLASH rfl (by omega) _ _ hs (fun _ _ => rfl)
  · exact p_opnode 5 .multiplication_mod .PERCENT rfl (by omega) _ _ hs (fun _ _ => rfl)
  · exact p_opnode 5 .multiplication_mul .STAR rfl (by omega) _ _ hs (fun _ _ => rfl)
  · exact p_paren _ _ hs
  · exact p_primary_of .dot_ident _ _ hs (fun _ _ => rfl)
  · exact p_primary_of .dot_ident_arg _ _ hs (fun _ _ => rfl)
  · exact p_primary_of .ident _ _ hs (fun _ _ => rfl)
  · exact p_primary_of .ident_arg _ _ hs (fun _ _ => rfl)
  · exact p_primary_of .list_lit _ _ hs (fun _ _ => rfl)
  · exact p_primary_of .literal _ _ hs (fun _ _ => rfl)
  · exact p_primary_of .map_lit _ _ hs (fun _ _ => rfl)
  · exact p_primary_of .paren_expr _ _ hs (fun _ _ => rfl)
  · exact p_unit 3 (by omega) _ _ hs (fun _ _ => rfl)
  · exact p_rel .eq _ _ hs (fun _ _ => rfl)
  · exact p_rel .ge _ _ hs (fun _ _ => rfl)
  · exact p_rel .gt _ _ hs (fun _ _ => rfl)
  · exact p_rel .in_ _ _ hs (fun _ _ => rfl)
  · exact p_rel .le _ _ hs (fun _ _ => rfl)
  · exact p_rel .lt _ _ hs (fun _ _ => rfl)
  · exact p_rel .ne _ _ hs (fun _ _ => rfl)
  · exact p_opnode 3 .relation_eq .EQ rfl (by omega) _ _ hs (fun _ _ => rfl)
  · exact p_opnode 3 .relation_ge .GE rfl (by omega) _ _ hs (fun _ _ => rfl)
  · exact p_opnode 3 .relation_gt .GT rfl (by omega) _ _ hs (fun _ _ => rfl)
  · exact p_opnode 3 .relation_in .IN rfl (by omega) _ _ hs (fun _ _ => rfl)
  · exact p_opnode 3 .relation_le .LE rfl (by omega) _ _ hs (fun _ _ => rfl)
  · exact p_opnode 3 .relation_lt .LT rfl (by omega) _ _ hs (fun _ _ => rfl)
  · exact p_opnode 3 .relation_ne .NE rfl (by omega) _ _ hs (fun _ _ => rfl)
  · exact p_unit 6 (by omega) _ _ hs (fun _ _ => rfl)
  · exact p_neg _ _ hs
  · exact p_not _ _ hs
  · exact p_unary_neg_node _ _ hs
  · exact p_unary_not_node _ _ hs


mutual
theorem spec_of_derives : ∀ {s : Sym} {ts : List Tok} {cs : List Tree}, Derives s ts cs → Spec s ts cs
  | _, _, _, .tokKeep k s h => by simp [Spec, h]
  | _, _, _, .tokDrop k h => by simp [Spec, h]
  | _, _, _, .rule a rhs ts cs hm hs hi => by
      have := prod_ok (a, rhs) hm ts cs (seqspec_of_derives hs)
      simpa [Spec, hi] using this
  | _, _, _, .ruleInline a rhs ts cs hm hs hi => by
      have := prod_ok (a, rhs) hm ts cs (seqspec_of_derives hs)
      simpa [Spec, hi] using this
theorem seqspec_of_derives : ∀ {xs : List Sym} {ts : List Tok} {cs : List Tree}, DerivesSeq xs ts cs → SeqSpec xs ts cs
  | _, _, _, .nil => ⟨rfl, rfl⟩
  | _, _, _, .cons x xs t1 t2 c1 c2 h1 h2 => ⟨t1, t2, c1, c2, spec_of_derives h1, seqspec_of_derives h2, rfl, rfl⟩
end

/-- completeness of the expression syntax: every sentence of the grammar is the rendering of a
well-formed expression, and every tree lark can build is the tree of that expression -/
theorem derivable_is_render (ts : List Tok) (cs : List Tree) (h : Derives (.n .expr) ts cs) :
    ∃ e, wf e = true ∧ ts = render e ∧ cs = [toTree e] := by
  obtain ⟨e, we, _, rfl, rfl⟩ := spec_of_derives h
  exact ⟨e, we, rfl, rfl⟩

end Cel.Grammar
