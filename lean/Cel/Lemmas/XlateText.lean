/-
  Lemmas for C18, text level: the character scanner `scanText` (`top_level_logic` as written, on
  characters) on the blank-separated spelling of a token string is the token scanner `scanTop`
  (`scanText_textOf`), provided every token's text is what its terminal can match (`lexOK`).
-/
import Cel.Model.XlateText
namespace Cel.Xlate
open Cel.Grammar

theorem scanText_plain (d : Int) (c : Char) (s : List Char) (h : plainChar c = true) :
    scanText d (c :: s) = scanText d s := by
  simp only [plainChar, Bool.and_eq_true, Bool.not_eq_true', bne_iff_ne, ne_eq] at h
  obtain ⟨⟨⟨⟨⟨h1, h2⟩, h3⟩, h4⟩, h5⟩, h6⟩ := h
  rw [scanText]
  simp [h1, h2, h3, h4, List.isPrefixOf, Ne.symm h5, Ne.symm h6]

theorem scanText_blank (d : Int) (s : List Char) : scanText d (' ' :: s) = scanText d s :=
  scanText_plain d ' ' s (by decide)

theorem scanText_plains (d : Int) : ∀ (cs s : List Char), cs.all plainChar = true →
    scanText d (cs ++ s) = scanText d s
  | [], s, _ => rfl
  | c :: cs, s, h => by
      simp only [List.all_cons, Bool.and_eq_true] at h
      rw [List.cons_append, scanText_plain d c _ h.1]
      exact scanText_plains d cs s h.2
theorem scanText_open (d : Int) (c : Char) (s : List Char) (h : c = '(' ∨ c = '[' ∨ c = '{') :
    scanText d (c :: s) = scanText (d + 1) s := by
  rw [scanText]; rcases h with h | h | h <;> subst h <;> simp [isQuote, isOpenC]

theorem scanText_close (d : Int) (c : Char) (s : List Char) (h : c = ')' ∨ c = ']' ∨ c = '}') :
    scanText d (c :: s) = scanText (d - 1) s := by
  rw [scanText]; rcases h with h | h | h <;> subst h <;> simp [isQuote, isOpenC, isCloseC]

theorem scanText_qmark (d : Int) (s : List Char) :
    scanText d ('?' :: s) = if d == 0 then true else scanText d s := by
  rw [scanText]; by_cases hd : d = 0 <;> simp [isQuote, isOpenC, isCloseC, hd]

theorem scanText_amp (d : Int) (s : List Char) (hd : ¬ d = 0) :
    scanText d ('&' :: s) = scanText d s := by
  rw [scanText]; simp [isQuote, isOpenC, isCloseC, hd]

theorem scanText_bar (d : Int) (s : List Char) (hd : ¬ d = 0) :
    scanText d ('|' :: s) = scanText d s := by
  rw [scanText]; simp [isQuote, isOpenC, isCloseC, hd]

theorem scanText_andand (d : Int) (s : List Char) :
    scanText d ('&' :: '&' :: s) = if d == 0 then true else scanText d s := by
  by_cases hd : d = 0
  · rw [scanText]; simp [isQuote, isOpenC, isCloseC, hd, List.isPrefixOf]
  · rw [scanText_amp d _ hd, scanText_amp d _ hd]; simp [hd]

theorem scanText_oror (d : Int) (s : List Char) :
    scanText d ('|' :: '|' :: s) = if d == 0 then true else scanText d s := by
  by_cases hd : d = 0
  · rw [scanText]; simp [isQuote, isOpenC, isCloseC, hd, List.isPrefixOf]
  · rw [scanText_bar d _ hd, scanText_bar d _ hd]; simp [hd]

/-! string literals -/

theorem litBody_length (q : List Char) : ∀ (n : Nat) (s : List Char), s.length ≤ n → litBody q s = true → q.length ≤ s.length
  | 0, s, h, hb => by
      have : s = [] := List.eq_nil_of_length_eq_zero (Nat.le_zero.mp h)
      subst this; simp [litBody] at hb
  | n + 1, s, h, hb => by
      match s with
      | [] => simp [litBody] at hb
      | [c] => simp only [litBody, beq_iff_eq] at hb; subst hb; simp
      | c :: d :: cs =>
        unfold litBody at hb
        split at hb
        · simp only [beq_iff_eq] at hb; rw [hb]; exact Nat.le_refl _
        · split at hb
          · have := litBody_length q n cs (by simp only [List.length_cons] at h; omega) hb
            simp only [List.length_cons]; omega
          · have := litBody_length q n (d :: cs) (by simp only [List.length_cons] at h ⊢; omega) hb
            simp only [List.length_cons] at this ⊢; omega

/-- a prefix test that fails on `s` (at least as long as `q`) fails on `s ++ rest` -/
theorem isPrefixOf_append_of_le (q s rest : List Char) (h : q.length ≤ s.length) :
    q.isPrefixOf (s ++ rest) = q.isPrefixOf s := by
  induction q generalizing s with
  | nil => simp
  | cons a q ih =>
    match s with
    | [] => simp at h
    | b :: s =>
      simp only [List.cons_append, List.isPrefixOf]
      rw [ih s (by simp only [List.length_cons] at h; omega)]

theorem skipLit_litBody (q : List Char) (rest : List Char) :
    ∀ (n : Nat) (s : List Char), s.length ≤ n → litBody q s = true → skipLit q (s ++ rest) = rest
  | 0, s, h, hb => by
      have : s = [] := List.eq_nil_of_length_eq_zero (Nat.le_zero.mp h)
      subst this; simp [litBody] at hb
  | n + 1, s, h, hb => by
      have hlen := litBody_length q _ s (Nat.le_refl _) hb
      have hpre := isPrefixOf_append_of_le q s rest hlen
      match s, hb, h, hlen, hpre with
      | [], hb, _, _, _ => simp [litBody] at hb
      | [c], hb, _, _, _ =>
        simp only [litBody, beq_iff_eq] at hb; subst hb
        cases rest with
        | nil => simp [skipLit]
        | cons r rs => simp [skipLit, List.isPrefixOf]
      | c :: d :: cs, hb, h, hlen, hpre =>
        unfold litBody at hb
        simp only [List.cons_append] at hpre ⊢
        unfold skipLit
        rw [hpre]
        split at hb
        · rename_i hp
          simp only [beq_iff_eq] at hb
          simp only [hp, if_true]
          rw [show c :: d :: (cs ++ rest) = (c :: d :: cs) ++ rest from rfl, ← hb]
          simp
        · rename_i hp
          simp only [hp]
          split at hb
          · rename_i hc
            simp only [hc, if_true]
            exact skipLit_litBody q rest n cs (by simp only [List.length_cons] at h; omega) hb
          · rename_i hc
            simp only [hc]
            exact skipLit_litBody q rest n (d :: cs) (by simp only [List.length_cons] at h ⊢; omega) hb

/-- the rest of a text after a token: nothing, or a blank and more -/
def Sep (rest : List Char) : Prop := rest = [] ∨ ∃ r, rest = ' ' :: r

theorem quoteOf_append (c : Char) (cs rest : List Char) (hq : isQuote c = true) (hs : Sep rest)
    (hb : litBody (quoteOf c cs) (cs.drop ((quoteOf c cs).length - 1)) = true) :
    quoteOf c (cs ++ rest) = quoteOf c cs := by
  match cs, hb with
  | [], hb => simp [quoteOf, List.isPrefixOf, litBody] at hb
  | [x], hb =>
    have h1 : quoteOf c [x] = [c] := by simp [quoteOf, List.isPrefixOf]
    rw [h1] at hb ⊢
    simp only [List.length_singleton, Nat.sub_self, List.drop_zero, litBody, beq_iff_eq] at hb
    injection hb with hb _
    subst hb
    have hc : (c == ' ') = false := by
      simp only [isQuote, Bool.or_eq_true, beq_iff_eq] at hq
      rcases hq with h | h <;> subst h <;> decide
    rcases hs with h | ⟨r, h⟩ <;> subst h <;> simp [quoteOf, List.isPrefixOf, hc]
  | x :: y :: cs, _ => simp [quoteOf, List.isPrefixOf]

theorem scanText_strTok (d : Int) (rest : List Char) (hs : Sep rest) :
    ∀ (cs : List Char), strTokOK cs = true → scanText d (cs ++ rest) = scanText d rest
  | [], h => by simp [strTokOK] at h
  | c :: cs, h => by
    unfold strTokOK at h
    by_cases hq : isQuote c = true
    · simp only [hq, if_true] at h
      have hqo := quoteOf_append c cs rest hq hs h
      rw [List.cons_append, scanText]
      simp only [hq, if_true, hqo]
      have hlen := litBody_length _ _ _ (Nat.le_refl _) h
      have hdrop : (cs ++ rest).drop ((quoteOf c cs).length - 1) = cs.drop ((quoteOf c cs).length - 1) ++ rest := by
        rw [List.drop_append_of_le_length]
        simp only [List.length_drop] at hlen
        have : 1 ≤ (quoteOf c cs).length := by unfold quoteOf; split <;> simp
        omega
      rw [hdrop, skipLit_litBody _ rest _ _ (Nat.le_refl _) h]
    · simp only [hq, Bool.false_eq_true, if_false, Bool.and_eq_true] at h
      rw [List.cons_append, scanText_plain d c _ h.1]
      exact scanText_strTok d rest hs cs h.2

/-- the text after the first token -/
def tailText : List Tok → List Char
  | [] => []
  | r => ' ' :: textOf r

theorem textOf_cons (t : Tok) (r : List Tok) : textOf (t :: r) = t.s.toList ++ tailText r := by
  cases r <;> simp [textOf, tailText]

theorem sep_tailText (r : List Tok) : Sep (tailText r) := by
  cases r with
  | nil => exact Or.inl rfl
  | cons a r => exact Or.inr ⟨_, rfl⟩

theorem scanText_tailText (d : Int) (r : List Tok) : scanText d (tailText r) = scanText d (textOf r) := by
  cases r with
  | nil => rfl
  | cons a r => exact scanText_blank d _

/-- **the character scanner on the spelled-out token string is the token scanner** -/
theorem scanText_textOf : ∀ (ts : List Tok) (d : Int), (∀ t ∈ ts, lexOK t = true) →
    scanText d (textOf ts) = scanTop d ts
  | [], d, _ => by simp [textOf, scanTop, scanText]
  | t :: r, d, h => by
    have ht := h t (List.mem_cons_self ..)
    have ih := fun d' => scanText_textOf r d' (fun x hx => h x (List.mem_cons_of_mem _ hx))
    rw [textOf_cons]
    unfold scanTop
    unfold lexOK at ht
    have hopen : ∀ c, (c = '(' ∨ c = '[' ∨ c = '{') → t.s.toList = [c] →
        scanText d (t.s.toList ++ tailText r) = scanTop (d + 1) r := by
      intro c hc e
      rw [e, List.singleton_append, scanText_open d _ _ hc, scanText_tailText, ih]
    have hclose : ∀ c, (c = ')' ∨ c = ']' ∨ c = '}') → t.s.toList = [c] →
        scanText d (t.s.toList ++ tailText r) = scanTop (d - 1) r := by
      intro c hc e
      rw [e, List.singleton_append, scanText_close d _ _ hc, scanText_tailText, ih]
    have hstr : strTokOK t.s.toList = true → scanText d (t.s.toList ++ tailText r) = scanTop d r := by
      intro e
      rw [scanText_strTok d _ (sep_tailText r) _ e, scanText_tailText, ih]
    have hplain : t.s.toList.all plainChar = true → scanText d (t.s.toList ++ tailText r) = scanTop d r := by
      intro e
      rw [scanText_plains d _ _ e, scanText_tailText, ih]
    cases hk : t.k <;> simp only [hk, beq_iff_eq] at ht <;> simp only [opener, closer, isLogic]
    case LPAR => simpa using hopen '(' (by simp) ht
    case LSQB => simpa using hopen '[' (by simp) ht
    case LBRACE => simpa using hopen '{' (by simp) ht
    case RPAR => simpa using hclose ')' (by simp) ht
    case RSQB => simpa using hclose ']' (by simp) ht
    case RBRACE => simpa using hclose '}' (by simp) ht
    case QMARK =>
      rw [ht, List.singleton_append, scanText_qmark, scanText_tailText, ih]
      by_cases hd : d = 0 <;> simp [hd]
    case ANDAND =>
      rw [ht, show ['&', '&'] ++ tailText r = '&' :: '&' :: tailText r from rfl, scanText_andand, scanText_tailText, ih]
      by_cases hd : d = 0 <;> simp [hd]
    case OROR =>
      rw [ht, show ['|', '|'] ++ tailText r = '|' :: '|' :: tailText r from rfl, scanText_oror, scanText_tailText, ih]
      by_cases hd : d = 0 <;> simp [hd]
    case STRING_LIT => simpa using hstr ht
    case MLSTRING_LIT => simpa using hstr ht
    case BYTES_LIT => simpa using hstr ht
    all_goals simpa using hplain ht

end Cel.Xlate
