/-
  Lemmas for C16: locality of `stepThread` (a thread's step changes only that thread's component, and — under
  the per-call policy or for an interpreted program — depends only on it).  Core Lean only.
-/
import Cel.Model.RuntimeThreads
namespace Cel.Runtime
open Cel

theorem updT_same (f : Tid → TState) (t : Tid) (x : TState) : updT f t x t = x := by simp [updT]
theorem updT_other (f : Tid → TState) {t t' : Tid} (x : TState) (h : t' ≠ t) : updT f t x t' = f t' := by simp [updT, h]

/-- a step of thread `t` leaves every other thread's state alone — under either policy -/
theorem stepThread_other (pol : NamespacePolicy) (t t' : Tid) (m : MState) (h : t' ≠ t) :
    (stepThread pol t m).threads t' = m.threads t' := by
  unfold stepThread
  cases pol <;> cases m.kinds t <;> simp [updT_other _ _ h]

theorem stepThread_kinds (pol : NamespacePolicy) (t : Tid) (m : MState) : (stepThread pol t m).kinds = m.kinds := by
  unfold stepThread
  cases pol <;> cases m.kinds t <;> rfl

/-- under the per-call policy a thread's step is a step in its own namespace -/
theorem stepThread_self_perCall (t : Tid) (m : MState) :
    (stepThread .perCall t m).threads t = privStep (m.threads t) := by
  unfold stepThread
  cases m.kinds t <;> simp [updT_same]

/-- an interpreted evaluation steps in its own namespace under any policy -/
theorem stepThread_self_interpreted (pol : NamespacePolicy) (t : Tid) (m : MState) (h : m.kinds t = .I) :
    (stepThread pol t m).threads t = privStep (m.threads t) := by
  unfold stepThread
  cases pol <;> simp [h, updT_same]

theorem iter_succ (f : TState → TState) (n : Nat) (x : TState) : iter f (n + 1) x = iter f n (f x) := rfl

theorem privStep_finished (ts : TState) (h : ts.out.isSome = true) : privStep ts = ts := by
  unfold privStep lstep
  cases ho : ts.out with
  | none => simp [ho] at h
  | some v => simp

theorem iter_finished (n : Nat) (ts : TState) (h : ts.out.isSome = true) : iter privStep n ts = ts := by
  induction n with
  | zero => rfl
  | succ n ih => rw [iter_succ, privStep_finished ts h, ih]

theorem iter_add (f : TState → TState) (a b : Nat) (x : TState) : iter f (a + b) x = iter f b (iter f a x) := by
  induction a generalizing x with
  | zero => simp [iter]
  | succ a ih => rw [Nat.succ_add, iter_succ, iter_succ, ih]

/-- once an evaluation alone has returned, more steps change nothing -/
theorem runAlone_stable (ts : TState) (n k : Nat) (h : (runAlone ts n).out.isSome = true) (hk : n ≤ k) :
    runAlone ts k = runAlone ts n := by
  obtain ⟨d, rfl⟩ := Nat.exists_eq_add_of_le hk
  unfold runAlone at *
  rw [iter_add, iter_finished d _ h]

/-- **locality**: whatever the other threads do and however the steps are interleaved, a thread that always steps in
its own namespace ends in the state of `count t s` steps alone -/
theorem runSched_local (pol : NamespacePolicy) (t : Tid)
    (hself : ∀ m : MState, (pol = .perCall ∨ m.kinds t = .I) → (stepThread pol t m).threads t = privStep (m.threads t)) :
    ∀ (s : Sched) (m : MState), (pol = .perCall ∨ m.kinds t = .I) →
      (runSched pol m s).threads t = runAlone (m.threads t) (s.count t)
  | [], m, _ => rfl
  | x :: s, m, h => by
    have h' : pol = .perCall ∨ (stepThread pol x m).kinds t = .I := by rw [stepThread_kinds]; exact h
    have ih := runSched_local pol t hself s (stepThread pol x m) h'
    show (runSched pol (stepThread pol x m) s).threads t = _
    rw [ih]
    by_cases hx : x = t
    · subst hx
      rw [hself m h, List.count_cons_self]
      rfl
    · rw [stepThread_other pol x t m (fun e => hx e.symm), List.count_cons_of_ne hx]

end Cel.Runtime
