/-
  Lemmas for C16: locality of `stepThread` (a thread's step changes only that thread's component, and — under
  the per-call policy or for an interpreted program — depends only on it).  Core Lean only.
-/
import Cel.Model.RuntimeThreads
namespace Cel.Runtime
open Cel

theorem updT_same (f : Tid → TState) (t : Tid) (x : TState) : updT f t x t = x := by simp [updT]
theorem updT_other (f : Tid → TState) {t t' : Tid} (x : TState) (h : t' ≠ t) : updT f t x t' = f t' := by simp [updT, h]

/-- a step of thread `t` leaves every other thread's state alone — under either policy -/
theorem stepThread_other (pol : NamespacePolicy) (t t' : Tid) (m : MState) (h : t' ≠ t) :
    (stepThread pol t m).threads t' = m.threads t' := by
  unfold stepThread
  cases pol <;> cases m.kinds t <;> simp [updT_other _ _ h]

theorem stepThread_kinds (pol : NamespacePolicy) (t : Tid) (m : MState) : (stepThread pol t m).kinds = m.kinds := by
  unfold stepThread
  cases pol <;> cases m.kinds t <;> rfl

/-- under the per-call policy a thread's step is a step in its own namespace -/
theorem stepThread_self_perCall (t : Tid) (m : MState) :
    (stepThread .perCall t m).threads t = privStep (m.threads t) := by
  unfold stepThread
  cases m.kinds t <;> simp [updT_same]

/-- an interpreted evaluation steps in its own namespace under any policy -/
theorem stepThread_self_interpreted (pol : NamespacePolicy) (t : Tid) (m : MState) (h : m.kinds t = .I) :
    (stepThread pol t m).threads t = privStep (m.threads t) := by
  unfold stepThread
  cases pol <;> simp [h, updT_same]

theorem iter_succ (f : TState → TState) (n : Nat) (x : TState) : iter f (n + 1) x = iter f n (f x) := rfl

theorem privStep_finished (ts : TState) (h : ts.out.isSome = true) : privStep ts = ts := by
  unfold privStep lstep
  cases ho : ts.out with
  | none => simp [ho] at h
  | some v => simp

theorem iter_finished (n : Nat) (ts : TState) (h : ts.out.isSome = true) : iter privStep n ts = ts := by
  induction n with
  | zero => rfl
  | succ n ih => rw [iter_succ, privStep_finished ts h, ih]

theorem iter_add (f : TState → TState) (a b : Nat) (x : TState) : iter f (a + b) x = iter f b (iter f a x) := by
  induction a generalizing x with
  | zero => simp [iter]
  | succ a ih => rw [Nat.succ_add, iter_succ, iter_succ, ih]

/-- once an evaluation alone has returned, more steps change nothing -/
theorem runAlone_stable (ts : TState) (n k : Nat) (h : (runAlone ts n).out.isSome = true) (hk : n ≤ k) :
    runAlone ts k = runAlone ts n := by
  obtain ⟨d, rfl⟩ := Nat.exists_eq_add_of_le hk
  unfold runAlone at *
  rw [iter_add, iter_finished d _ h]

/-- **locality**: whatever the other threads do and however the steps are interleaved, a thread that always steps in
its own namespace ends in the state of `count t s` steps alone -/
theorem runSched_local (pol : NamespacePolicy) (t : Tid)
    (hself : ∀ m : MState, (pol = .perCall ∨ m.kinds t = .I) → (stepThread pol t m).threads t = privStep (m.threads t)) :
    ∀ (s : Sched) (m : MState), (pol = .perCall ∨ m.kinds t = .I) →
      (runSched pol m s).threads t = runAlone (m.threads t) (s.count t)
  | [], m, _ => rfl
  | x :: s, m, h => by
    have h' : pol = .perCall ∨ (stepThread pol x m).kinds t = .I := by rw [stepThread_kinds]; exact h
    have ih := runSched_local pol t hself s (stepThread pol x m) h'
    show (runSched pol (stepThread pol x m) s).threads t = _
    rw [ih]
    by_cases hx : x = t
    · subst hx
      rw [hself m h, List.count_cons_self]
      rfl
    · rw [stepThread_other pol x t m (fun e => hx e.symm), List.count_cons_of_ne hx]

/-! ## the executable schedule runners of the driver (`E`, `G`, `H` queries) are schedules -/

theorem runSched_append (pol : NamespacePolicy) (s1 s2 : Sched) (m : MState) :
    runSched pol m (s1 ++ s2) = runSched pol (runSched pol m s1) s2 := by
  induction s1 generalizing m with
  | nil => rfl
  | cons x s ih => exact ih (stepThread pol x m)

/-- a run of one thread to its end is a schedule -/
theorem runToEnd_sched (pol : NamespacePolicy) (t : Tid) (fuel : Nat) (m : MState) :
    ∃ k, runToEnd pol t fuel m = runSched pol m (List.replicate k t) := by
  induction fuel generalizing m with
  | zero => exact ⟨0, rfl⟩
  | succ f ih =>
    unfold runToEnd
    by_cases h : (m.threads t).out.isSome = true
    · exact ⟨0, by simp [h, runSched]⟩
    · obtain ⟨k, hk⟩ := ih (stepThread pol t m)
      exact ⟨k + 1, by simp [h, hk, List.replicate_succ, runSched]⟩

theorem runToGate_sched (pol : NamespacePolicy) (t : Tid) (fuel : Nat) (m : MState) :
    ∃ k, runToGate pol t fuel m = runSched pol m (List.replicate k t) := by
  induction fuel generalizing m with
  | zero => exact ⟨0, rfl⟩
  | succ f ih =>
    obtain ⟨k, hk⟩ := ih (stepThread pol t m)
    have hstep : runSched pol m (List.replicate (k + 1) t) = runSched pol (stepThread pol t m) (List.replicate k t) := by
      simp [List.replicate_succ, runSched]
    unfold runToGate
    by_cases h : (m.threads t).out.isSome = true
    · exact ⟨0, by simp [h, runSched]⟩
    · simp only [h]
      cases hc : (m.threads t).ctl with
      | hostCall g v =>
        by_cases hg : g = "gate"
        · exact ⟨0, by simp [hg, runSched]⟩
        · exact ⟨k + 1, by simp [hg, hk, hstep]⟩
      | idle => exact ⟨k + 1, by simp [hk, hstep]⟩
      | eval e => exact ⟨k + 1, by simp [hk, hstep]⟩
      | ret r => exact ⟨k + 1, by simp [hk, hstep]⟩
      | enter n c => exact ⟨k + 1, by simp [hk, hstep]⟩

theorem runUntilVisible_sched (pol : NamespacePolicy) (t : Tid) (fuel k : Nat) (m : MState) :
    ∃ j, runUntilVisible pol t fuel k m = runSched pol m (List.replicate j t) := by
  induction fuel generalizing m k with
  | zero => exact ⟨0, rfl⟩
  | succ f ih =>
    have hstep : ∀ j, runSched pol m (List.replicate (j + 1) t) = runSched pol (stepThread pol t m) (List.replicate j t) := by
      intro j; simp [List.replicate_succ, runSched]
    unfold runUntilVisible
    by_cases h : (m.threads t).out.isSome = true
    · exact ⟨0, by simp [h, runSched]⟩
    · simp only [h]
      by_cases hv : (m.threads t).visible = true
      · cases k with
        | zero => exact ⟨0, by simp [hv, runSched]⟩
        | succ k' =>
          obtain ⟨j, hj⟩ := ih k' (stepThread pol t m)
          exact ⟨j + 1, by simp [hv, hj, hstep]⟩
      · obtain ⟨j, hj⟩ := ih k (stepThread pol t m)
        exact ⟨j + 1, by simp [hv, hj, hstep]⟩

/-- folding single-thread runs over a list of threads is a schedule -/
theorem foldl_sched (pol : NamespacePolicy) (f : MState → Tid → MState)
    (hf : ∀ m t, ∃ k, f m t = runSched pol m (List.replicate k t)) (l : List Tid) (m : MState) :
    ∃ s : Sched, l.foldl f m = runSched pol m s ∧ ∀ t, t ∉ l → s.count t = 0 := by
  induction l generalizing m with
  | nil => exact ⟨[], rfl, fun _ _ => rfl⟩
  | cons x l ih =>
    obtain ⟨k, hk⟩ := hf m x
    obtain ⟨s, hs, hc⟩ := ih (f m x)
    refine ⟨List.replicate k x ++ s, ?_, ?_⟩
    · rw [List.foldl_cons, hs, hk, runSched_append]
    · intro t ht
      simp only [List.mem_cons, not_or] at ht
      rw [List.count_append, hc t ht.2, List.count_replicate]
      simp [Ne.symm ht.1]

theorem runHold_is_schedule (pol : NamespacePolicy) (fuel n : Nat) (m : MState) (release : List Tid) :
    ∃ s : Sched, runHold pol fuel n m release = runSched pol m s := by
  unfold runHold
  obtain ⟨s1, h1, _⟩ := foldl_sched pol (fun m t => runToGate pol t fuel m) (fun m t => runToGate_sched pol t fuel m) (List.range n) m
  obtain ⟨s2, h2, _⟩ := foldl_sched pol (fun m t => runToEnd pol t fuel m) (fun m t => runToEnd_sched pol t fuel m)
    (release ++ List.range n) (runSched pol m s1)
  exact ⟨s1 ++ s2, by rw [h1, h2, runSched_append]⟩

theorem runSegs_sched (pol : NamespacePolicy) (fuel : Nat) (segs : List (Tid × Nat)) (m : MState) :
    ∃ s : Sched, runSegs pol fuel m segs = runSched pol m s := by
  induction segs generalizing m with
  | nil => exact ⟨[], rfl⟩
  | cons x rest ih =>
    obtain ⟨t, k⟩ := x
    obtain ⟨j, hj⟩ := runUntilVisible_sched pol t fuel k m
    obtain ⟨s, hs⟩ := ih (runUntilVisible pol t fuel k m)
    exact ⟨List.replicate j t ++ s, by rw [runSegs, hs, hj, runSched_append]⟩

theorem runSegments_is_schedule (pol : NamespacePolicy) (fuel n : Nat) (m : MState) (segs : List (Tid × Nat)) :
    ∃ s : Sched, runSegments pol fuel n m segs = runSched pol m s := by
  unfold runSegments
  obtain ⟨s1, h1⟩ := runSegs_sched pol fuel segs m
  obtain ⟨s2, h2, _⟩ := foldl_sched pol (fun m t => runToEnd pol t fuel m) (fun m t => runToEnd_sched pol t fuel m)
    (finishOrder n segs) (runSched pol m s1)
  exact ⟨s1 ++ s2, by rw [h1, h2, runSched_append]⟩

end Cel.Runtime
