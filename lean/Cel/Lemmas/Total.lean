/-
  Lemmas for C04: the "escapes only with …" predicate on Python computations and its closure under the
  control constructs of the interpreter skeleton (`Cel.Model.Total`).
-/
import Cel.Model.Total
namespace Cel.Total

variable {V N : Type} (H : Hier)

/-- `m` can only raise a class that is caught by `l` or allowed by `A`. -/
def Esc (A : Cls → Prop) (l : List Cls) {α : Type} (m : M α) : Prop :=
  ∀ c, m = .error c → caught H l c = true ∨ A c

theorem caught_nil (c : Cls) : caught H [] c = false := by
  simp [caught]

theorem Esc.ok {A : Cls → Prop} {l : List Cls} {α : Type} (a : α) : Esc H A l (Except.ok a : M α) := by
  intro c h; cases h

theorem Esc.pure {A : Cls → Prop} {l : List Cls} {α : Type} (a : α) : Esc H A l (pure a : M α) := by
  intro c h; cases h

theorem Esc.bind {A : Cls → Prop} {l : List Cls} {α β : Type} {m : M α} {f : α → M β}
    (hm : Esc H A l m) (hf : ∀ a, Esc H A l (f a)) : Esc H A l (m >>= f) := by
  intro c h
  cases hm' : m with
  | error c' =>
      rw [hm'] at h
      have e : (Except.error c' >>= f : M β) = .error c' := rfl
      rw [e] at h
      cases h
      exact hm _ hm'
  | ok a =>
      rw [hm'] at h
      have e : (Except.ok a >>= f : M β) = f a := rfl
      rw [e] at h
      exact hf a c h

/-- nothing is caught by the empty handler list: an `Esc … []` fact holds under any handlers -/
theorem Esc.weaken {A : Cls → Prop} {l : List Cls} {α : Type} {m : M α} (hm : Esc H A [] m) : Esc H A l m := by
  intro c h
  rcases hm c h with h' | h'
  · rw [caught_nil] at h'; cases h'
  · exact Or.inr h'

theorem Esc.error {A : Cls → Prop} {l : List Cls} {α : Type} {c : Cls} (h : caught H l c = true ∨ A c) :
    Esc H A l (Except.error c : M α) := by
  intro c' h'; cases h'; exact h

theorem Esc.ite {A : Cls → Prop} {l : List Cls} {α : Type} {b : Bool} {m₁ m₂ : M α}
    (h₁ : Esc H A l m₁) (h₂ : Esc H A l m₂) : Esc H A l (if b then m₁ else m₂) := by
  cases b <;> simpa

variable (P : Prims V N)

/-- after `try … except l`, only what `A` allows escapes -/
theorem Esc.catch {A : Cls → Prop} {l : List Cls} {m : M V} (hm : Esc H A l m) :
    Esc H A [] (catchWith H P l m) := by
  intro c h
  unfold catchWith at h
  cases hm' : m with
  | ok v => rw [hm'] at h; cases h
  | error c' =>
      rw [hm'] at h
      simp only at h
      by_cases hc : caught H l c' = true
      · simp [hc] at h
      · simp [hc] at h
        subst h
        rcases hm c' hm' with h' | h'
        · exact absurd h' hc
        · exact Or.inr h'

theorem Esc.raiseIfErr {A : Cls → Prop} {l : List Cls} {m : M V} (hm : Esc H A l m)
    (hcel : caught H l celEval = true ∨ A celEval) : Esc H A l (raiseIfErr P m) := by
  intro c h
  unfold Cel.Total.raiseIfErr at h
  cases hm' : m with
  | ok v =>
      rw [hm'] at h
      by_cases he : P.isErr v = true
      · simp [he] at h; subst h; exact hcel
      · simp [he] at h
  | error c' =>
      rw [hm'] at h
      have : c' = c := by simpa using h
      exact this ▸ hm c' hm'

/-- the side condition under which the primitives are harmless: whatever a primitive raises at a site is
    caught by the handlers enclosing that site. -/
structure Safe (hs : Rule → List Cls) (P : Prims V N) : Prop where
  prim : ∀ r env lbl args c, P.prim r env lbl args = .error c → caught H (hs r) c = true
  truth : ∀ r v c, P.truth r v = .error c → caught H (hs r) c = true
  iter : ∀ r v c, P.iterable v = true → P.iter r v = .error c → caught H (hs r) c = true

variable {hs : Rule → List Cls} {P}

theorem Safe.escPrim {A : Cls → Prop} (S : Safe H hs P) (r : Rule) (env : N) (lbl : String) (args : List V) :
    Esc H A (hs r) (P.prim r env lbl args) :=
  fun c h => Or.inl (S.prim r env lbl args c h)

theorem Safe.escTruth {A : Cls → Prop} (S : Safe H hs P) (r : Rule) (v : V) :
    Esc H A (hs r) (P.truth r v) :=
  fun c h => Or.inl (S.truth r v c h)

theorem Safe.catchPrim {A : Cls → Prop} (S : Safe H hs P) (r : Rule) (env : N) (lbl : String) (args : List V) :
    Esc H A [] (catchWith H P (hs r) (P.prim r env lbl args)) :=
  Esc.catch H P (S.escPrim H r env lbl args)

theorem esc_exprlistOf {A : Cls → Prop} (S : Safe H hs P) (env : N) (vs : List V) :
    Esc H A [] (exprlistOf H hs P env vs) := by
  unfold exprlistOf
  cases firstErr P vs with
  | some e => exact Esc.ok H e
  | none => exact S.catchPrim H _ _ _ _

theorem esc_functionEval {A : Cls → Prop} (S : Safe H hs P) (env : N) (f : String) (vs : List V) :
    Esc H A [] (functionEval H hs P env f vs) := by
  unfold functionEval
  cases hr : P.prim .funcResolve env f [] with
  | error c =>
      have := S.prim _ _ _ _ _ hr
      simp [this]; exact Esc.ok H _
  | ok fn =>
      simp only
      cases firstErr P vs with
      | some e => exact Esc.ok H e
      | none => exact S.catchPrim H _ _ _ _

theorem esc_methodEval {A : Cls → Prop} (S : Safe H hs P) (env : N) (f : String) (mv : V) (ae : Option V)
    (vs : List V) : Esc H A [] (methodEval H hs P env f mv ae vs) := by
  unfold methodEval
  cases hr : P.prim .methodResolve env f [] with
  | error c =>
      have := S.prim _ _ _ _ _ hr
      simp [this]; exact Esc.ok H _
  | ok fn =>
      simp only
      by_cases he : P.isErr mv = true
      · simp [he]; exact Esc.ok H _
      · simp [he]
        cases ae with
        | some e => exact Esc.ok H e
        | none => exact S.catchPrim H _ _ _ _

theorem esc_foldLogic {A : Cls → Prop} (S : Safe H hs P) (env : N) (op : String) :
    ∀ (rs : List V) (acc : V), Esc H A [] (foldLogic H hs P env op acc rs)
  | [], acc => by unfold foldLogic; exact Esc.ok H acc
  | r :: rs, acc => by
      unfold foldLogic
      exact Esc.bind H (S.catchPrim H _ _ _ _) (fun a => esc_foldLogic S env op rs a)

theorem esc_countTruthy {A : Cls → Prop} (S : Safe H hs P) :
    ∀ (rs : List V), Esc H A (hs .macroIter) (countTruthy P rs)
  | [] => by unfold countTruthy; exact Esc.ok H 0
  | r :: rs => by
      unfold countTruthy
      exact Esc.bind H (S.escTruth H _ _) (fun t => Esc.bind H (esc_countTruthy S rs) (fun n => Esc.pure H _))

theorem esc_iterAt {A : Cls → Prop} (S : Safe H hs P) (r : Rule) (mv : V) (k : List V → M V)
    (hit : P.iterable mv = true) (hk : ∀ items, Esc H A [] (k items)) :
    Esc H A [] (iterAt H hs P r mv k) := by
  unfold iterAt
  cases hr : P.iter r mv with
  | error c =>
      have := S.iter _ _ _ hit hr
      simp [this]; exact Esc.ok H _
  | ok items => exact hk items

theorem esc_evalBodies {A : Cls → Prop} (f : N → M V) (hf : ∀ env', Esc H A [] (f env')) (env : N) (x : String) :
    ∀ (items : List V), Esc H A [] (evalBodies P f env x items)
  | [] => by unfold evalBodies; exact Esc.ok H _
  | it :: its => by
      unfold evalBodies
      exact Esc.bind H (hf _) (fun r => Esc.bind H (esc_evalBodies f hf env x its) (fun rs => Esc.pure H _))

theorem esc_evalBodiesRaise {A : Cls → Prop} {l : List Cls} (f : N → M V) (hf : ∀ env', Esc H A [] (f env'))
    (hcel : caught H l celEval = true ∨ A celEval) (env : N) (x : String) :
    ∀ (items : List V), Esc H A l (evalBodiesRaise P f env x items)
  | [] => by unfold evalBodiesRaise; exact Esc.ok H _
  | it :: its => by
      unfold evalBodiesRaise
      exact Esc.bind H (Esc.raiseIfErr H P (Esc.weaken H (hf _)) hcel)
        (fun r => Esc.bind H (esc_evalBodiesRaise f hf hcel env x its) (fun rs => Esc.pure H _))

theorem esc_evalReduce {A : Cls → Prop} (f : N → M V) (hf : ∀ env', Esc H A [] (f env'))
    (hcel : A celEval) (env : N) (r i : String) :
    ∀ (items : List V) (acc : V), Esc H A [] (evalReduce P f env r i acc items)
  | [], acc => by unfold evalReduce; exact Esc.ok H _
  | it :: its, acc => by
      unfold evalReduce
      exact Esc.bind H (Esc.raiseIfErr H P (hf _) (Or.inr hcel)) (fun a => esc_evalReduce f hf hcel env r i its a)

end Cel.Total
