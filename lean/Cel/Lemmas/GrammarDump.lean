/-
  Cel.Lemmas.GrammarDump — `DumpAST` (Cel.Grammar.dump) on parse trees: the stack machine run on the
  tree of any expression leaves exactly `dumpSpec e`, whose tokens are `render e` unless the
  expression contains an empty list literal.
-/
import Cel.Lemmas.Grammar
namespace Cel.Grammar
set_option linter.unusedSimpArgs false

mutual
/-- what `DumpAST` prints for (the tree of) an expression, as pieces -/
def dumpSpec : PExpr → Chunk
  | .lit k s => [.tok ⟨k.tk, s⟩]
  | .ident s => [.tok ⟨.IDENT, s⟩]
  | .dotIdent s => [pa .DOT, .tok ⟨.IDENT, s⟩]
  | .identArg s as => .tok ⟨.IDENT, s⟩ :: pa .LPAR :: (joinComma (chunksArgs as) ++ [pa .RPAR])
  | .dotIdentArg s as => pa .DOT :: .tok ⟨.IDENT, s⟩ :: pa .LPAR :: (joinComma (chunksArgs as) ++ [pa .RPAR])
  | .paren e => pa .LPAR :: (dumpSpec e ++ [pa .RPAR])
  | .list .nil => []
  | .list (.cons e r) => pa .LSQB :: (joinComma (dumpSpec e :: chunksArgs r) ++ [pa .RSQB])
  | .map kvs => pa .LBRACE :: (joinComma (chunksInits kvs) ++ [pa .RBRACE])
  | .dot e n => selectDot (dumpSpec e) ++ [.tok ⟨.IDENT, n⟩]
  | .dotArg e n as => selectDot (dumpSpec e) ++ (.tok ⟨.IDENT, n⟩ :: pa .LPAR :: (joinComma (chunksArgs as) ++ [pa .RPAR]))
  | .index e i => dumpSpec e ++ (pa .LSQB :: (dumpSpec i ++ [pa .RSQB]))
  | .obj e fs => dumpSpec e ++ (pa .LBRACE :: (joinComma (chunksFields fs) ++ [pa .RBRACE]))
  | .not e => [pa .BANG] ++ (.sp :: dumpSpec e)
  | .neg e => [pa .MINUS] ++ (.sp :: dumpSpec e)
  | .mul op a b => (dumpSpec a ++ [.sp, pa op.tk, .sp]) ++ (.sp :: dumpSpec b)
  | .add op a b => (dumpSpec a ++ [.sp, pa op.tk, .sp]) ++ (.sp :: dumpSpec b)
  | .rel op a b => (dumpSpec a ++ [.sp, pa op.tk, .sp]) ++ (.sp :: dumpSpec b)
  | .and a b => dumpSpec a ++ (.sp :: pa .ANDAND :: .sp :: dumpSpec b)
  | .or a b => dumpSpec a ++ (.sp :: pa .OROR :: .sp :: dumpSpec b)
  | .cond c a b => dumpSpec c ++ (.sp :: pa .QMARK :: .sp :: (dumpSpec a ++ (.sp :: pa .COLON :: .sp :: dumpSpec b)))
def chunksArgs : PArgs → List Chunk
  | .nil => []
  | .cons e r => dumpSpec e :: chunksArgs r
def chunksInits : PInits → List Chunk
  | .nil => []
  | .cons k v r => (dumpSpec k ++ (pa .COLON :: .sp :: dumpSpec v)) :: chunksInits r
def chunksFields : PFields → List Chunk
  | .nil => []
  | .cons n v r => (.tok ⟨.IDENT, n⟩ :: pa .COLON :: .sp :: dumpSpec v) :: chunksFields r
end

theorem dumpRule_chain (m : Nat) (x : Tree) (st : List Chunk) : dumpRule (ntOf m) [x] st = .ok st := by
  unfold ntOf; split <;> simp [dumpRule, dumpInfix, dumpPair]

theorem dumpVisit_wrapUp (n : Nat) : ∀ (m : Nat) (t : Tree) (st : List Chunk),
    dumpVisit (wrapUp n m t) st = dumpVisit t st := by
  induction n with
  | zero => intro m t st; rfl
  | succ n ih =>
    intro m t st
    simp only [wrapUp, dumpVisit, dumpChildren, ih, bind, Except.bind]
    cases dumpVisit t st <;> simp [dumpRule_chain]

theorem popN_app (ys : List Chunk) (st : List Chunk) : popN ys.length (ys ++ st) = .ok (ys.reverse, st) := by
  induction ys with
  | nil => rfl
  | cons y ys ih => simp [popN, pop, bind, Except.bind, ih]

theorem popN_rev (xs : List Chunk) (st : List Chunk) (n : Nat) (h : n = xs.length) :
    popN n (xs.reverse ++ st) = .ok (xs, st) := by
  have := popN_app xs.reverse st
  simpa [h] using this


/-- stack contents (top first) after visiting key/value children; pairs listed top-first -/
def stackOf : List (Chunk × Chunk) → List Chunk
  | [] => []
  | (k, v) :: r => v :: k :: stackOf r

theorem stackOf_append (a b : List (Chunk × Chunk)) : stackOf (a ++ b) = stackOf a ++ stackOf b := by
  induction a with
  | nil => rfl
  | cons p a ih => cases p; simp [stackOf, ih]

def fmtPair (p : Chunk × Chunk) : Chunk := p.1 ++ (pa .COLON :: .sp :: p.2)

theorem popPairs_app (qs : List (Chunk × Chunk)) (st : List Chunk) :
    popPairs qs.length (stackOf qs ++ st) = .ok (qs.reverse.map fmtPair, st) := by
  induction qs with
  | nil => rfl
  | cons p qs ih => cases p; simp [popPairs, stackOf, pop, bind, Except.bind, ih, fmtPair]

def pairsOf : PInits → List (Chunk × Chunk)
  | .nil => []
  | .cons k v r => (dumpSpec k, dumpSpec v) :: pairsOf r

theorem chunksInits_eq : (r : PInits) → chunksInits r = (pairsOf r).map fmtPair
  | .nil => rfl
  | .cons k v r => by simp [chunksInits, pairsOf, fmtPair, chunksInits_eq r]

theorem popPairs_inits (r : PInits) (st : List Chunk) (n : Nat) (h : n = (pairsOf r).length) :
    popPairs n (stackOf (pairsOf r).reverse ++ st) = .ok (chunksInits r, st) := by
  have := popPairs_app (pairsOf r).reverse st
  simpa [h, chunksInits_eq] using this

def valChunks : PFields → List Chunk
  | .nil => []
  | .cons _ v r => dumpSpec v :: valChunks r
def nameLeaves : PFields → List Tree
  | .nil => []
  | .cons n _ r => .leaf .IDENT n :: nameLeaves r
def valTrees : PFields → List Tree
  | .nil => []
  | .cons _ v r => wrapUp (level v - 0) 0 (core v) :: valTrees r

theorem evens_fieldTrees : (r : PFields) → evens (fieldTrees r) = nameLeaves r
  | .nil => rfl
  | .cons n v r => by simp [fieldTrees, evens, nameLeaves, evens_fieldTrees r]
theorem odds_fieldTrees : (r : PFields) → odds (fieldTrees r) = valTrees r
  | .nil => rfl
  | .cons n v r => by simp [fieldTrees, odds, valTrees, odds_fieldTrees r]
theorem nameLeaves_length : (r : PFields) → (nameLeaves r).length = (valChunks r).length
  | .nil => rfl
  | .cons n v r => by simp [nameLeaves, valChunks, nameLeaves_length r]
theorem valTrees_length : (r : PFields) → (valTrees r).length = (valChunks r).length
  | .nil => rfl
  | .cons n v r => by simp [valTrees, valChunks, valTrees_length r]
theorem zipFields_fields : (r : PFields) → zipFields (nameLeaves r) (valChunks r) = .ok (chunksFields r)
  | .nil => rfl
  | .cons n v r => by
      simp [nameLeaves, valChunks, zipFields, tokenValue, chunksFields, zipFields_fields r, bind, Except.bind]

theorem argTrees_length : (r : PArgs) → (argTrees r).length = (chunksArgs r).length
  | .nil => rfl
  | .cons e r => by simp [argTrees, chunksArgs, argTrees_length r]

theorem evens_initTrees_length : (r : PInits) → (evens (initTrees r)).length = (pairsOf r).length
  | .nil => rfl
  | .cons k v r => by simp [initTrees, evens, pairsOf, evens_initTrees_length r]
theorem odds_initTrees_length : (r : PInits) → (odds (initTrees r)).length = (pairsOf r).length
  | .nil => rfl
  | .cons k v r => by simp [initTrees, odds, pairsOf, odds_initTrees_length r]

theorem dumpChildren_cons_ok {t : Tree} {ts : List Tree} {st st' : List Chunk}
    (h : dumpVisit t st = .ok st') : dumpChildren (t :: ts) st = dumpChildren ts st' := by
  simp [dumpChildren, h, bind, Except.bind]

theorem dumpVisit_node {r : NT} {cs : List Tree} {st st' : List Chunk}
    (h : dumpChildren cs st = .ok st') : dumpVisit (.node r cs) st = dumpRule r cs st' := by
  simp [dumpVisit, h, bind, Except.bind]

theorem dumpChildren_leaf (k : TK) (s : String) (ts : List Tree) (st : List Chunk) :
    dumpChildren (.leaf k s :: ts) st = dumpChildren ts st := by
  simp [dumpChildren, dumpVisit, bind, Except.bind]

theorem dump_exprlist_node (e : PExpr) (r : PArgs)
    (he : ∀ st, dumpVisit (core e) st = .ok (dumpSpec e :: st))
    (hr : ∀ st, dumpChildren (argTrees r) st = .ok ((chunksArgs r).reverse ++ st)) (st : List Chunk) :
    dumpVisit (.node .exprlist (wrapUp (level e - 0) 0 (core e) :: argTrees r)) st
      = .ok (joinComma (dumpSpec e :: chunksArgs r) :: st) := by
  have hc : dumpChildren (wrapUp (level e - 0) 0 (core e) :: argTrees r) st
      = .ok ((dumpSpec e :: chunksArgs r).reverse ++ st) := by
    simp [dumpChildren, dumpVisit_wrapUp, he, hr, bind, Except.bind]
  rw [dumpVisit_node hc]
  simp only [dumpRule]
  rw [popN_rev _ _ _ (by simp [argTrees_length])]
  rfl

theorem dump_mapinits_node (k v : PExpr) (r : PInits)
    (hk : ∀ st, dumpVisit (core k) st = .ok (dumpSpec k :: st))
    (hv : ∀ st, dumpVisit (core v) st = .ok (dumpSpec v :: st))
    (hr : ∀ st, dumpChildren (initTrees r) st = .ok (stackOf (pairsOf r).reverse ++ st)) (st : List Chunk) :
    dumpVisit (.node .mapinits (wrapUp (level k - 0) 0 (core k) :: wrapUp (level v - 0) 0 (core v) :: initTrees r)) st
      = .ok (joinComma (chunksInits (.cons k v r)) :: st) := by
  have hc : dumpChildren (wrapUp (level k - 0) 0 (core k) :: wrapUp (level v - 0) 0 (core v) :: initTrees r) st
      = .ok (stackOf (pairsOf (.cons k v r)).reverse ++ st) := by
    simp [dumpChildren, dumpVisit_wrapUp, hk, hv, hr, bind, Except.bind, pairsOf, stackOf_append, stackOf]
  rw [dumpVisit_node hc]
  have e1 : (evens (wrapUp (level k - 0) 0 (core k) :: wrapUp (level v - 0) 0 (core v) :: initTrees r)).length
      = (pairsOf (.cons k v r)).length := by simp [evens, pairsOf, evens_initTrees_length]
  have e2 : (odds (wrapUp (level k - 0) 0 (core k) :: wrapUp (level v - 0) 0 (core v) :: initTrees r)).length
      = (pairsOf (.cons k v r)).length := by simp [odds, pairsOf, odds_initTrees_length]
  simp only [dumpRule, e1, e2]
  rw [popPairs_inits _ _ _ rfl]
  simp [bind, Except.bind]

theorem dump_fieldinits_node (n : String) (v : PExpr) (r : PFields)
    (hv : ∀ st, dumpVisit (core v) st = .ok (dumpSpec v :: st))
    (hr : ∀ st, dumpChildren (fieldTrees r) st = .ok ((valChunks r).reverse ++ st)) (st : List Chunk) :
    dumpVisit (.node .fieldinits (.leaf .IDENT n :: wrapUp (level v - 0) 0 (core v) :: fieldTrees r)) st
      = .ok (joinComma (chunksFields (.cons n v r)) :: st) := by
  have hc : dumpChildren (.leaf .IDENT n :: wrapUp (level v - 0) 0 (core v) :: fieldTrees r) st
      = .ok ((valChunks (.cons n v r)).reverse ++ st) := by
    simp [dumpChildren, dumpVisit, dumpVisit_wrapUp, hv, hr, bind, Except.bind, valChunks]
  rw [dumpVisit_node hc]
  have e1 : evens (.leaf .IDENT n :: wrapUp (level v - 0) 0 (core v) :: fieldTrees r) = nameLeaves (.cons n v r) := by
    simp [evens, nameLeaves, evens_fieldTrees]
  have e2 : odds (.leaf .IDENT n :: wrapUp (level v - 0) 0 (core v) :: fieldTrees r) = valTrees (.cons n v r) := by
    simp [odds, valTrees, odds_fieldTrees]
  simp only [dumpRule, e1, e2]
  rw [popN_rev _ _ _ (valTrees_length _)]
  simp [nameLeaves_length, valTrees_length, zipFields_fields, bind, Except.bind]

mutual
theorem dump_core : (e : PExpr) → ∀ st, dumpVisit (core e) st = .ok (dumpSpec e :: st)
  | .lit k s, st => by
      simp [core, dumpVisit, dumpChildren, dumpRule, tokenValue, dumpSpec, bind, Except.bind]
  | .ident s, st => by
      simp [core, dumpVisit, dumpChildren, dumpRule, tokenValue, dumpSpec, bind, Except.bind]
  | .dotIdent s, st => by
      simp [core, dumpVisit, dumpChildren, dumpRule, tokenValue, dumpSpec, bind, Except.bind]
  | .identArg s .nil, st => by
      simp [core, exprlistOpt, dumpVisit, dumpChildren, dumpRule, tokenValue, dumpSpec, chunksArgs, joinComma, bind, Except.bind]
  | .identArg s (.cons e r), st => by
      have := dump_exprlist_node e r (dump_core e) (dump_argTrees r)
      simp [core, exprlistOpt, dumpVisit, dumpChildren, dumpRule, tokenValue, dumpSpec, chunksArgs, pop, bind, Except.bind] at this ⊢
      simp [this]
  | .dotIdentArg s .nil, st => by
      simp [core, exprlistOpt, mapinitsOpt, fieldinitsOpt, dumpVisit, dumpChildren, dumpVisit_wrapUp, dumpRule, dumpInfix, dumpPair, dumpRelOp, tokenValue, dumpSpec, chunksArgs, chunksInits, chunksFields, joinComma, pop, bind, Except.bind]
  | .dotIdentArg s (.cons e r), st => by
      have := dump_exprlist_node e r (dump_core e) (dump_argTrees r)
      simp [core, exprlistOpt, mapinitsOpt, fieldinitsOpt, dumpVisit, dumpChildren, dumpVisit_wrapUp, dumpRule, dumpInfix, dumpPair, dumpRelOp, tokenValue, dumpSpec, chunksArgs, chunksInits, chunksFields, joinComma, pop, bind, Except.bind] at this ⊢
      simp [this]
  | .paren e, st => by
      simp [core, exprlistOpt, mapinitsOpt, fieldinitsOpt, dumpVisit, dumpChildren, dumpVisit_wrapUp, dumpRule, dumpInfix, dumpPair, dumpRelOp, tokenValue, dumpSpec, chunksArgs, chunksInits, chunksFields, joinComma, pop, bind, Except.bind, dump_core e]
  | .list .nil, st => by
      simp [core, exprlistOpt, mapinitsOpt, fieldinitsOpt, dumpVisit, dumpChildren, dumpVisit_wrapUp, dumpRule, dumpInfix, dumpPair, dumpRelOp, tokenValue, dumpSpec, chunksArgs, chunksInits, chunksFields, joinComma, pop, bind, Except.bind]
  | .list (.cons e r), st => by
      have := dump_exprlist_node e r (dump_core e) (dump_argTrees r)
      simp [core, exprlistOpt, mapinitsOpt, fieldinitsOpt, dumpVisit, dumpChildren, dumpVisit_wrapUp, dumpRule, dumpInfix, dumpPair, dumpRelOp, tokenValue, dumpSpec, chunksArgs, chunksInits, chunksFields, joinComma, pop, bind, Except.bind] at this ⊢
      simp [this]
  | .map .nil, st => by
      simp [core, exprlistOpt, mapinitsOpt, fieldinitsOpt, dumpVisit, dumpChildren, dumpVisit_wrapUp, dumpRule, dumpInfix, dumpPair, dumpRelOp, tokenValue, dumpSpec, chunksArgs, chunksInits, chunksFields, joinComma, pop, bind, Except.bind]
  | .map (.cons k v r), st => by
      have := dump_mapinits_node k v r (dump_core k) (dump_core v) (dump_initTrees r)
      simp [core, exprlistOpt, mapinitsOpt, fieldinitsOpt, dumpVisit, dumpChildren, dumpVisit_wrapUp, dumpRule, dumpInfix, dumpPair, dumpRelOp, tokenValue, dumpSpec, chunksArgs, chunksInits, chunksFields, joinComma, pop, bind, Except.bind] at this ⊢
      simp [this]
  | .dot e n, st => by
      simp [core, exprlistOpt, mapinitsOpt, fieldinitsOpt, dumpVisit, dumpChildren, dumpVisit_wrapUp, dumpRule, dumpInfix, dumpPair, dumpRelOp, tokenValue, dumpSpec, chunksArgs, chunksInits, chunksFields, joinComma, pop, bind, Except.bind, dump_core e]
  | .dotArg e n .nil, st => by
      simp [core, exprlistOpt, mapinitsOpt, fieldinitsOpt, dumpVisit, dumpChildren, dumpVisit_wrapUp, dumpRule, dumpInfix, dumpPair, dumpRelOp, tokenValue, dumpSpec, chunksArgs, chunksInits, chunksFields, joinComma, pop, bind, Except.bind, dump_core e]
  | .dotArg e n (.cons e1 r), st => by
      have := dump_exprlist_node e1 r (dump_core e1) (dump_argTrees r)
      simp [core, exprlistOpt, mapinitsOpt, fieldinitsOpt, dumpVisit, dumpChildren, dumpVisit_wrapUp, dumpRule, dumpInfix, dumpPair, dumpRelOp, tokenValue, dumpSpec, chunksArgs, chunksInits, chunksFields, joinComma, pop, bind, Except.bind, dump_core e] at this ⊢
      simp [this]
  | .index e i, st => by
      simp [core, exprlistOpt, mapinitsOpt, fieldinitsOpt, dumpVisit, dumpChildren, dumpVisit_wrapUp, dumpRule, dumpInfix, dumpPair, dumpRelOp, tokenValue, dumpSpec, chunksArgs, chunksInits, chunksFields, joinComma, pop, bind, Except.bind, dump_core e, dump_core i]
  | .obj e .nil, st => by
      simp [core, exprlistOpt, mapinitsOpt, fieldinitsOpt, dumpVisit, dumpChildren, dumpVisit_wrapUp, dumpRule, dumpInfix, dumpPair, dumpRelOp, tokenValue, dumpSpec, chunksArgs, chunksInits, chunksFields, joinComma, pop, bind, Except.bind, dump_core e]
  | .obj e (.cons n v r), st => by
      have := dump_fieldinits_node n v r (dump_core v) (dump_fieldTrees r)
      simp [core, exprlistOpt, mapinitsOpt, fieldinitsOpt, dumpVisit, dumpChildren, dumpVisit_wrapUp, dumpRule, dumpInfix, dumpPair, dumpRelOp, tokenValue, dumpSpec, chunksArgs, chunksInits, chunksFields, joinComma, pop, bind, Except.bind, dump_core e] at this ⊢
      simp [this]
  | .not e, st => by
      simp [core, exprlistOpt, mapinitsOpt, fieldinitsOpt, dumpVisit, dumpChildren, dumpVisit_wrapUp, dumpRule, dumpInfix, dumpPair, dumpRelOp, tokenValue, dumpSpec, chunksArgs, chunksInits, chunksFields, joinComma, pop, bind, Except.bind, dump_core e]
  | .neg e, st => by
      simp [core, exprlistOpt, mapinitsOpt, fieldinitsOpt, dumpVisit, dumpChildren, dumpVisit_wrapUp, dumpRule, dumpInfix, dumpPair, dumpRelOp, tokenValue, dumpSpec, chunksArgs, chunksInits, chunksFields, joinComma, pop, bind, Except.bind, dump_core e]
  | .mul op a b, st => by
      cases op <;> simp [core, exprlistOpt, mapinitsOpt, fieldinitsOpt, dumpVisit, dumpChildren, dumpVisit_wrapUp, dumpRule, dumpInfix, dumpPair, dumpRelOp, tokenValue, dumpSpec, chunksArgs, chunksInits, chunksFields, joinComma, pop, bind, Except.bind, MulOp.nt, MulOp.tk, dump_core a, dump_core b]
  | .add op a b, st => by
      cases op <;> simp [core, exprlistOpt, mapinitsOpt, fieldinitsOpt, dumpVisit, dumpChildren, dumpVisit_wrapUp, dumpRule, dumpInfix, dumpPair, dumpRelOp, tokenValue, dumpSpec, chunksArgs, chunksInits, chunksFields, joinComma, pop, bind, Except.bind, AddOp.nt, AddOp.tk, dump_core a, dump_core b]
  | .rel op a b, st => by
      cases op <;> simp [core, exprlistOpt, mapinitsOpt, fieldinitsOpt, dumpVisit, dumpChildren, dumpVisit_wrapUp, dumpRule, dumpInfix, dumpPair, dumpRelOp, tokenValue, dumpSpec, chunksArgs, chunksInits, chunksFields, joinComma, pop, bind, Except.bind, RelOp.nt, RelOp.tk, dump_core a, dump_core b]
  | .and a b, st => by
      simp [core, exprlistOpt, mapinitsOpt, fieldinitsOpt, dumpVisit, dumpChildren, dumpVisit_wrapUp, dumpRule, dumpInfix, dumpPair, dumpRelOp, tokenValue, dumpSpec, chunksArgs, chunksInits, chunksFields, joinComma, pop, bind, Except.bind, dump_core a, dump_core b]
  | .or a b, st => by
      simp [core, exprlistOpt, mapinitsOpt, fieldinitsOpt, dumpVisit, dumpChildren, dumpVisit_wrapUp, dumpRule, dumpInfix, dumpPair, dumpRelOp, tokenValue, dumpSpec, chunksArgs, chunksInits, chunksFields, joinComma, pop, bind, Except.bind, dump_core a, dump_core b]
  | .cond c a b, st => by
      simp [core, exprlistOpt, mapinitsOpt, fieldinitsOpt, dumpVisit, dumpChildren, dumpVisit_wrapUp, dumpRule, dumpInfix, dumpPair, dumpRelOp, tokenValue, dumpSpec, chunksArgs, chunksInits, chunksFields, joinComma, pop, bind, Except.bind, dump_core c, dump_core a, dump_core b]
theorem dump_argTrees : (r : PArgs) → ∀ st, dumpChildren (argTrees r) st = .ok ((chunksArgs r).reverse ++ st)
  | .nil, st => rfl
  | .cons e r, st => by
      simp [argTrees, dumpChildren, dumpVisit_wrapUp, dump_core e, bind, Except.bind, dump_argTrees r, chunksArgs]
theorem dump_initTrees : (r : PInits) → ∀ st, dumpChildren (initTrees r) st = .ok (stackOf (pairsOf r).reverse ++ st)
  | .nil, st => rfl
  | .cons k v r, st => by
      simp [initTrees, dumpChildren, dumpVisit_wrapUp, dump_core k, dump_core v, bind, Except.bind,
        dump_initTrees r, pairsOf, stackOf_append, stackOf]
theorem dump_fieldTrees : (r : PFields) → ∀ st, dumpChildren (fieldTrees r) st = .ok ((valChunks r).reverse ++ st)
  | .nil, st => rfl
  | .cons n v r, st => by
      simp [fieldTrees, dumpChildren, dumpVisit, dumpVisit_wrapUp, dump_core v, bind, Except.bind,
        dump_fieldTrees r, valChunks]
end


/-! ### the tokens of a dump -/

theorem toks_append (a b : Chunk) : Chunk.toks (a ++ b) = Chunk.toks a ++ Chunk.toks b := by
  induction a with
  | nil => rfl
  | cons p a ih => cases p <;> simp [Chunk.toks, ih]

theorem toks_selectDot (c : Chunk) : Chunk.toks (selectDot c) = Chunk.toks c ++ [Tok.a .DOT] := by
  unfold selectDot; split <;> simp [toks_append, Chunk.toks, pa]

theorem joinComma_cons2 (c d : Chunk) (r : List Chunk) :
    joinComma (c :: d :: r) = c ++ (pa .COMMA :: .sp :: joinComma (d :: r)) := rfl

mutual
theorem toks_dumpSpec : (e : PExpr) → hasEmptyList e = false → Chunk.toks (dumpSpec e) = render e
  | .lit k s, _ => rfl
  | .ident s, _ => rfl
  | .dotIdent s, _ => rfl
  | .identArg s .nil, _ => rfl
  | .identArg s (.cons e r), h => by
      simp [hasEmptyList, hasEmptyListArgs] at h
      simp [dumpSpec, chunksArgs, render, renderArgs, Chunk.toks, pa, toks_append, toks_joinArgs r h.2, toks_dumpSpec e h.1]
  | .dotIdentArg s .nil, _ => rfl
  | .dotIdentArg s (.cons e r), h => by
      simp [hasEmptyList, hasEmptyListArgs] at h
      simp [dumpSpec, chunksArgs, render, renderArgs, Chunk.toks, pa, toks_append, toks_joinArgs r h.2, toks_dumpSpec e h.1]
  | .paren e, h => by
      simp [hasEmptyList] at h
      simp [dumpSpec, render, Chunk.toks, pa, toks_append, toks_dumpSpec e h]
  | .list .nil, h => by simp [hasEmptyList] at h
  | .list (.cons e r), h => by
      simp [hasEmptyList] at h
      simp [dumpSpec, render, renderArgs, Chunk.toks, pa, toks_append, toks_joinArgs r h.2, toks_dumpSpec e h.1]
  | .map .nil, _ => rfl
  | .map (.cons k v r), h => by
      simp [hasEmptyList, hasEmptyListInits] at h
      simp [dumpSpec, chunksInits, render, renderInits, Chunk.toks, pa, toks_append, toks_joinInits r h.2,
        toks_dumpSpec k h.1.1, toks_dumpSpec v h.1.2]
  | .dot e n, h => by
      simp [hasEmptyList] at h
      simp [dumpSpec, render, Chunk.toks, pa, toks_append, toks_selectDot, toks_dumpSpec e h]
  | .dotArg e n .nil, h => by
      simp [hasEmptyList, hasEmptyListArgs] at h
      simp [dumpSpec, chunksArgs, joinComma, render, renderArgs, Chunk.toks, pa, toks_append, toks_selectDot, toks_dumpSpec e h]
  | .dotArg e n (.cons e1 r), h => by
      simp [hasEmptyList, hasEmptyListArgs] at h
      simp [dumpSpec, chunksArgs, render, renderArgs, Chunk.toks, pa, toks_append, toks_selectDot, toks_joinArgs r h.2.2,
        toks_dumpSpec e h.1, toks_dumpSpec e1 h.2.1]
  | .index e i, h => by
      simp [hasEmptyList] at h
      simp [dumpSpec, render, Chunk.toks, pa, toks_append, toks_dumpSpec e h.1, toks_dumpSpec i h.2]
  | .obj e .nil, h => by
      simp [hasEmptyList, hasEmptyListFields] at h
      simp [dumpSpec, chunksFields, joinComma, render, renderFields, Chunk.toks, pa, toks_append, toks_dumpSpec e h]
  | .obj e (.cons n v r), h => by
      simp [hasEmptyList, hasEmptyListFields] at h
      simp [dumpSpec, chunksFields, render, renderFields, Chunk.toks, pa, toks_append, toks_joinFields r h.2.2,
        toks_dumpSpec e h.1, toks_dumpSpec v h.2.1]
  | .not e, h => by
      simp [hasEmptyList] at h
      simp [dumpSpec, render, Chunk.toks, pa, toks_append, toks_dumpSpec e h]
  | .neg e, h => by
      simp [hasEmptyList] at h
      simp [dumpSpec, render, Chunk.toks, pa, toks_append, toks_dumpSpec e h]
  | .mul op a b, h => by
      simp [hasEmptyList] at h
      simp [dumpSpec, render, Chunk.toks, pa, toks_append, toks_dumpSpec a h.1, toks_dumpSpec b h.2]
  | .add op a b, h => by
      simp [hasEmptyList] at h
      simp [dumpSpec, render, Chunk.toks, pa, toks_append, toks_dumpSpec a h.1, toks_dumpSpec b h.2]
  | .rel op a b, h => by
      simp [hasEmptyList] at h
      simp [dumpSpec, render, Chunk.toks, pa, toks_append, toks_dumpSpec a h.1, toks_dumpSpec b h.2]
  | .and a b, h => by
      simp [hasEmptyList] at h
      simp [dumpSpec, render, Chunk.toks, pa, toks_append, toks_dumpSpec a h.1, toks_dumpSpec b h.2]
  | .or a b, h => by
      simp [hasEmptyList] at h
      simp [dumpSpec, render, Chunk.toks, pa, toks_append, toks_dumpSpec a h.1, toks_dumpSpec b h.2]
  | .cond c a b, h => by
      simp [hasEmptyList] at h
      simp [dumpSpec, render, Chunk.toks, pa, toks_append, toks_dumpSpec c h.1.1, toks_dumpSpec a h.1.2, toks_dumpSpec b h.2]
theorem toks_joinArgs : (r : PArgs) → hasEmptyListArgs r = false → ∀ c : Chunk,
    Chunk.toks (joinComma (c :: chunksArgs r)) = Chunk.toks c ++ renderArgsTail r
  | .nil, _, c => by simp [chunksArgs, joinComma, renderArgsTail]
  | .cons e r, h, c => by
      simp [hasEmptyListArgs] at h
      simp [chunksArgs, joinComma_cons2, renderArgsTail, Chunk.toks, pa, toks_append, toks_joinArgs r h.2,
        toks_dumpSpec e h.1]
theorem toks_joinInits : (r : PInits) → hasEmptyListInits r = false → ∀ c : Chunk,
    Chunk.toks (joinComma (c :: chunksInits r)) = Chunk.toks c ++ renderInitsTail r
  | .nil, _, c => by simp [chunksInits, joinComma, renderInitsTail]
  | .cons k v r, h, c => by
      simp [hasEmptyListInits] at h
      simp [chunksInits, joinComma_cons2, renderInitsTail, Chunk.toks, pa, toks_append, toks_joinInits r h.2,
        toks_dumpSpec k h.1.1, toks_dumpSpec v h.1.2]
theorem toks_joinFields : (r : PFields) → hasEmptyListFields r = false → ∀ c : Chunk,
    Chunk.toks (joinComma (c :: chunksFields r)) = Chunk.toks c ++ renderFieldsTail r
  | .nil, _, c => by simp [chunksFields, joinComma, renderFieldsTail]
  | .cons n v r, h, c => by
      simp [hasEmptyListFields] at h
      simp [chunksFields, joinComma_cons2, renderFieldsTail, Chunk.toks, pa, toks_append, toks_joinFields r h.2,
        toks_dumpSpec v h.1]
end

theorem dump_toTreeAt (m : Nat) (e : PExpr) : dump (toTreeAt m e) = .ok (dumpSpec e) := by
  simp [dump, toTreeAt, dumpVisit_wrapUp, dump_core, bind, Except.bind]

end Cel.Grammar
