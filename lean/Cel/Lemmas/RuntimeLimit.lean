/- Lemmas about the process-wide recursion limit (C05): see Cel.Model.RuntimeLimit. -/
import Cel.Model.RuntimeLimit
namespace Cel.Runtime

/-- once an environment has been created the limit stays `n` -/
theorem limitRun_always_fix (n : Nat) : ∀ (ops : List Op), limitRun (.always n) n ops = n
  | [] => rfl
  | op :: ops => by
    have : limitStep (.always n) n op = n := by cases op <;> rfl
    simp only [limitRun, this]; exact limitRun_always_fix n ops

theorem limitRun_always_env (n : Nat) : ∀ (ops : List Op) (l : Nat), hasEnvOp ops = true → limitRun (.always n) l ops = n
  | [], _, h => by simp [hasEnvOp] at h
  | op :: ops, l, h => by
    cases hop : op.isMkEnv with
    | true =>
      have : limitStep (.always n) l op = n := by cases op <;> first | rfl | simp [Op.isMkEnv] at hop
      simp only [limitRun, this]; exact limitRun_always_fix n ops
    | false =>
      have h' : hasEnvOp ops = true := by simpa [hasEnvOp, hop] using h
      have : limitStep (.always n) l op = l := by cases op <;> first | rfl | simp [Op.isMkEnv] at hop
      simp only [limitRun, this]; exact limitRun_always_env n ops l h'

/-- without an environment there is no program: an operation other than `mkEnv` in a world without environments
leaves it without environments and does not add a program -/
theorem step_noenv (cfg : Config) (w : World) (op : Op) (hop : op.isMkEnv = false) (he : w.envs = []) :
    (step cfg w op).1.envs = [] ∧ (step cfg w op).1.progs = w.progs := by
  cases op with
  | mkEnv k d p => simp [Op.isMkEnv] at hop
  | resetParser => simp [step, he]
  | compile env src => simp [step, he]
  | program env ast => simp [step, he]
  | evaluate i b =>
    simp only [step]
    repeat' split
    all_goals simp [he]

theorem run_noenv (cfg : Config) : ∀ (ops : List Op) (w : World), hasEnvOp ops = false → w.envs = [] →
    (run cfg w ops).progs = w.progs
  | [], _, _, _ => rfl
  | op :: ops, w, h, he => by
    have hop : op.isMkEnv = false := by
      cases hx : op.isMkEnv with
      | false => rfl
      | true => simp [hasEnvOp, hx] at h
    have h' : hasEnvOp ops = false := by simpa [hasEnvOp, hop] using h
    have := step_noenv cfg w op hop he
    simp only [run]
    rw [run_noenv cfg ops _ h' this.1, this.2]

/-- a history after which some program exists has created an environment -/
theorem prog_needs_env (cfg : Config) (ops : List Op) (i : Nat) (p : Prog)
    (hi : (run cfg World.init ops).progs[i]? = some p) : hasEnvOp ops = true := by
  cases h : hasEnvOp ops with
  | true => rfl
  | false =>
    have := run_noenv cfg ops World.init h rfl
    rw [this] at hi
    simp [World.init] at hi
end Cel.Runtime
