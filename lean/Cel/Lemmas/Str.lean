/- Helper lemmas for C07 (and users of Cel.Model.Str): one CEL escape = one match of CEL_ESCAPES_PAT. -/
import Cel.Model.Str
namespace Cel.Str

theorem prefixAll_spec (p : Nat → Bool) : ∀ (n : Nat) (xs : Text), prefixAll p n xs = true →
    (xs.take n).length = n ∧ (xs.take n).all p = true
  | 0, xs, _ => by simp
  | n+1, [], h => by simp [prefixAll] at h
  | n+1, c :: cs, h => by
    simp only [prefixAll, Bool.and_eq_true] at h
    have ih := prefixAll_spec p n cs h.2
    simp [List.take, ih.1, ih.2, h.1]

theorem pyInt16_ok (s : Text) (h1 : s ≠ []) (h2 : s.all isHex = true) : pyInt16 s = .ok (digitsVal 16 hexVal s) := by
  simp [pyInt16, h1, h2]

theorem pyInt8_ok (s : Text) (h1 : s ≠ []) (h2 : s.all isOct = true) : pyInt8 s = .ok (digitsVal 8 (· - 48) s) := by
  simp [pyInt8, h1, h2]

theorem hexVal_lt (c : Nat) (h : isHex c = true) : hexVal c < 16 := by
  simp only [hexVal, isHex, Bool.or_eq_true, Bool.and_eq_true, decide_eq_true_eq] at *
  split
  · omega
  · split <;> omega

theorem prefixAll2 (p : Nat → Bool) (r : Text) (h : prefixAll p 2 r = true) :
    ∃ a b r', r = a :: b :: r' ∧ p a = true ∧ p b = true := by
  match r, h with
  | [], h => simp [prefixAll] at h
  | [_], h => simp [prefixAll] at h
  | a :: b :: r', h => simp [prefixAll] at h; exact ⟨a, b, r', rfl, h.1, h.2⟩

theorem isSimple_cases (c : Nat) (h : isSimple c = true) :
    c = 97 ∨ c = 98 ∨ c = 102 ∨ c = 110 ∨ c = 114 ∨ c = 116 ∨ c = 118 ∨ c = 34 ∨ c = 39 ∨ c = 92 := by
  simp [isSimple] at h; omega

theorem expandStr_simple (c : Nat) (h : isSimple c = true) : expandStr [92, c] = .ok [simpleVal c] := by
  rcases isSimple_cases c h with h|h|h|h|h|h|h|h|h|h <;> subst h <;> rfl

theorem not_simple_of (c : Nat) (h : c = 120 ∨ c = 117 ∨ c = 85 ∨ (48 ≤ c ∧ c ≤ 57)) : isSimple c = false := by
  simp [isSimple]; omega

/-- the step lemma for strings: a CEL escape is one match of the pattern and `expand` gives its value -/
theorem escape_match_str (d : Bool) (cs : Text) (k : EscKind) (v len : Nat)
    (h : escapeAt cs = some (k, v, len)) (hs : k = .uni → isScalar v = true) :
    matchLen d (92 :: cs) = len + 1 ∧ expandStr (92 :: cs.take len) = .ok [v] := by
  match cs, h with
  | c :: r, h =>
    simp only [escapeAt] at h
    by_cases h1 : isSimple c = true
    · simp [h1] at h
      obtain ⟨_, rfl, rfl⟩ := h
      refine ⟨by simp [matchLen, h1], ?_⟩
      simpa using expandStr_simple c h1
    · simp only [h1] at h
      by_cases h2 : c = 120
      · subst h2
        by_cases h3 : prefixAll isHex 2 r = true
        · simp [h3] at h
          obtain ⟨_, rfl, rfl⟩ := h
          obtain ⟨a, b, r', rfl, ha, hb⟩ := prefixAll2 _ _ h3
          have hd : prefixAll isDigit 3 (120 :: a :: b :: r') = false := by simp [prefixAll, isDigit]
          refine ⟨by simp [matchLen, isSimple, hd, h3], ?_⟩
          have := hexVal_lt a ha
          have := hexVal_lt b hb
          have hlt : hexVal a * 16 + hexVal b < 1114112 := by omega
          simp [expandStr, pyInt16, ha, hb, digitsVal, pyChr, bind, Except.bind, pure, Except.pure, hlt]
        · simp [h3] at h
      · simp only [h2, if_false] at h
        by_cases h4 : c = 117
        · subst h4
          by_cases h3 : prefixAll isHex 4 r = true
          · simp [h3] at h
            obtain ⟨rfl, rfl, rfl⟩ := h
            obtain ⟨hl, ha⟩ := prefixAll_spec _ _ _ h3
            have hd : prefixAll isDigit 3 (117 :: r) = false := by simp [prefixAll, isDigit]
            refine ⟨by simp [matchLen, isSimple, hd, h3], ?_⟩
            have hne : List.take 4 r ≠ [] := by intro e; rw [e] at hl; simp at hl
            have hv := hs rfl
            simp only [isScalar, isCp, Bool.and_eq_true, decide_eq_true_eq] at hv
            simp [expandStr, pyInt16_ok _ hne ha, hl, pyChr, bind, Except.bind, pure, Except.pure, hv.1]
          · simp [h3] at h
        · simp only [h4, if_false] at h
          by_cases h5 : c = 85
          · subst h5
            by_cases h3 : prefixAll isHex 8 r = true
            · simp [h3] at h
              obtain ⟨rfl, rfl, rfl⟩ := h
              obtain ⟨hl, ha⟩ := prefixAll_spec _ _ _ h3
              have hd : prefixAll isDigit 3 (85 :: r) = false := by simp [prefixAll, isDigit]
              refine ⟨by simp [matchLen, isSimple, hd, h3], ?_⟩
              have hne : List.take 8 r ≠ [] := by intro e; rw [e] at hl; simp at hl
              have hv := hs rfl
              simp only [isScalar, isCp, Bool.and_eq_true, decide_eq_true_eq] at hv
              simp [expandStr, pyInt16_ok _ hne ha, hl, pyChr, bind, Except.bind, pure, Except.pure, hv.1]
            · simp [h3] at h
          · simp only [h5, if_false] at h
            by_cases h6 : 48 ≤ c ∧ c ≤ 51
            · by_cases h3 : prefixAll isOct 2 r = true
              · simp [h6, h3] at h
                obtain ⟨_, rfl, rfl⟩ := h
                obtain ⟨a, b, r', rfl, ha, hb⟩ := prefixAll2 _ _ h3
                have ha' : 48 ≤ a ∧ a ≤ 55 := by simpa [isOct] using ha
                have hb' : 48 ≤ b ∧ b ≤ 55 := by simpa [isOct] using hb
                have hd : prefixAll isDigit 3 (c :: a :: b :: r') = true := by
                  simp [prefixAll, isDigit]; omega
                refine ⟨by simp [matchLen, h1, hd], ?_⟩
                have hc : isOct c = true := by simp [isOct]; omega
                have hlt : ((c - 48) * 8 + (a - 48)) * 8 + (b - 48) < 1114112 := by omega
                have e1 : c ≠ 120 := by omega
                have e2 : c ≠ 117 := by omega
                have e3 : c ≠ 85 := by omega
                simp [expandStr, pyInt8, hc, ha, hb, digitsVal, pyChr, bind, Except.bind, pure, Except.pure, hlt, e1, e2, e3]
              · simp [h6, h3] at h
            · simp [h6] at h



theorem matchLen_plain (c : Nat) (cs : Text) (h : c ≠ 92) : matchLen true (c :: cs) = 1 := by
  simp [matchLen, h]

theorem tokens_decode_str : ∀ (n : Nat) (body s : Text), spelledFuel n body = some s →
    expandAllStr (tokensFuel true n body) = .ok s
  | n, [], s, h => by
    cases n <;> simp [spelledFuel] at h <;> subst h <;> simp [tokensFuel, expandAllStr]
  | 0, _ :: _, s, h => by simp [spelledFuel] at h
  | n+1, c :: rest, s, h => by
    simp only [spelledFuel] at h
    by_cases hc : c = 92
    · subst hc
      simp only [if_true] at h
      match he : escapeAt rest, h with
      | some (k, v, len), h =>
        simp only [] at h
        by_cases hu : (k = .uni && !isScalar v) = true
        · simp [hu] at h
        · simp only [hu] at h
          cases hr : spelledFuel n (rest.drop len) with
          | none => simp [hr] at h
          | some s' =>
            simp [hr] at h
            subst h
            have hs : k = .uni → isScalar v = true := by
              intro hk; subst hk; simpa using hu
            obtain ⟨hm, hx⟩ := escape_match_str true rest k v len he hs
            have ih := tokens_decode_str n _ _ hr
            simp [tokensFuel, hm, expandAllStr, hx, ih, bind, Except.bind, pure, Except.pure]
    · simp only [hc, if_false] at h
      cases hr : spelledFuel n rest with
      | none => simp [hr] at h
      | some s' =>
        simp [hr] at h
        subst h
        have ih := tokens_decode_str n _ _ hr
        simp [tokensFuel, matchLen_plain c rest hc, expandAllStr, expandStr, ih, bind, Except.bind, pure, Except.pure]



theorem sliceMid_wrap (pre body post : Text) : sliceMid pre.length post.length (pre ++ body ++ post) = body := by
  unfold sliceMid
  have h1 : (pre ++ body ++ post).length - post.length = (pre ++ body).length := by simp; omega
  rw [h1, List.take_left' rfl, List.drop_left' rfl]

theorem sliceMid_wrap' (a b : Nat) (pre body post : Text) (ha : pre.length = a) (hb : post.length = b) :
    sliceMid a b (pre ++ (body ++ post)) = body := by
  subst ha; subst hb; rw [← List.append_assoc]; exact sliceMid_wrap _ _ _

/-- a short literal's body does not begin with its own quote character (CEL: it contains no unescaped one) -/
def headOk (q : Quote) (body : Text) : Prop := q.triple = false → body.head? ≠ some q.char

set_option hygiene false in
/-- short-quote case: `pre` = prefix characters then the quote `qc`; `a` = their number -/
local macro "wrap_short" pre:term "," qc:num "," a:num : tactic => `(tactic| (
    have hq' : body.head? ≠ some $qc := hq rfl
    cases body with
    | nil => simp [wrapStr, wrapBytes, Style.rPrefix, Style.bPrefix, Quote.text, Quote.triple, Quote.char, slice, tripleDQ, tripleSQ, sliceMid, lower]
    | cons c cs =>
      have hc : c ≠ $qc := by simpa using hq'
      have e := sliceMid_wrap' $a 1 $pre (c :: cs) [$qc] rfl rfl
      simp only [List.cons_append, List.nil_append] at e
      simp [wrapStr, wrapBytes, Style.rPrefix, Style.bPrefix, Quote.text, Quote.triple, Quote.char, slice, tripleDQ, tripleSQ, lower, hc, e]))

set_option hygiene false in
local macro "wrap_triple" pre:term "," qc:num "," a:num : tactic => `(tactic| (
    have e := sliceMid_wrap' $a 3 $pre body [$qc, $qc, $qc] rfl rfl
    simp only [List.cons_append, List.nil_append] at e
    simp [wrapStr, wrapBytes, Style.rPrefix, Style.bPrefix, Quote.text, Quote.triple, Quote.char, slice, tripleDQ, tripleSQ, lower, e]))

theorem celstr_wrap_cooked (d : Bool) (st : Style) (hraw : st.raw = false) (body : Text) (hq : headOk st.quote body) :
    celstrWith d (wrapStr st body) = expandAllStr (tokens d body) := by
  obtain ⟨q, raw, uR, uB⟩ := st
  simp only at hraw; subst hraw
  unfold celstrWith
  cases q
  · wrap_short [39], 39, 1
  · wrap_short [34], 34, 1
  · wrap_triple [39, 39, 39], 39, 3
  · wrap_triple [34, 34, 34], 34, 3

theorem celstr_wrap_raw (d : Bool) (st : Style) (hraw : st.raw = true) (body : Text) (hq : headOk st.quote body) :
    celstrWith d (wrapStr st body) = .ok body := by
  obtain ⟨q, raw, uR, uB⟩ := st
  simp only at hraw; subst hraw
  unfold celstrWith
  cases q <;> cases uR
  · wrap_short [114, 39], 39, 2
  · wrap_short [82, 39], 39, 2
  · wrap_short [114, 34], 34, 2
  · wrap_short [82, 34], 34, 2
  · wrap_triple [114, 39, 39, 39], 39, 4
  · wrap_triple [82, 39, 39, 39], 39, 4
  · wrap_triple [114, 34, 34, 34], 34, 4
  · wrap_triple [82, 34, 34, 34], 34, 4

theorem celbytes_wrap_cooked (d : Bool) (st : Style) (hraw : st.raw = false) (body : Text) (hq : headOk st.quote body) :
    celbytesWith d (wrapBytes st body) = expandAllBytes (tokens d body) >>= pyBytes := by
  obtain ⟨q, raw, uR, uB⟩ := st
  simp only at hraw; subst hraw
  unfold celbytesWith
  cases q <;> cases uB
  · wrap_short [98, 39], 39, 2
  · wrap_short [66, 39], 39, 2
  · wrap_short [98, 34], 34, 2
  · wrap_short [66, 34], 34, 2
  · wrap_triple [98, 39, 39, 39], 39, 4
  · wrap_triple [66, 39, 39, 39], 39, 4
  · wrap_triple [98, 34, 34, 34], 34, 4
  · wrap_triple [66, 34, 34, 34], 34, 4

theorem celbytes_wrap_raw (d : Bool) (st : Style) (hraw : st.raw = true) (body : Text) (hq : headOk st.quote body) :
    celbytesWith d (wrapBytes st body) = utf8Encode body := by
  obtain ⟨q, raw, uR, uB⟩ := st
  simp only at hraw; subst hraw
  unfold celbytesWith
  cases q <;> cases uB <;> cases uR
  · wrap_short [98, 114, 39], 39, 3
  · wrap_short [98, 82, 39], 39, 3
  · wrap_short [66, 114, 39], 39, 3
  · wrap_short [66, 82, 39], 39, 3
  · wrap_short [98, 114, 34], 34, 3
  · wrap_short [98, 82, 34], 34, 3
  · wrap_short [66, 114, 34], 34, 3
  · wrap_short [66, 82, 34], 34, 3
  · wrap_triple [98, 114, 39, 39, 39], 39, 5
  · wrap_triple [98, 82, 39, 39, 39], 39, 5
  · wrap_triple [66, 114, 39, 39, 39], 39, 5
  · wrap_triple [66, 82, 39, 39, 39], 39, 5
  · wrap_triple [98, 114, 34, 34, 34], 34, 5
  · wrap_triple [98, 82, 34, 34, 34], 34, 5
  · wrap_triple [66, 114, 34, 34, 34], 34, 5
  · wrap_triple [66, 82, 34, 34, 34], 34, 5



theorem utf8Cp_lt (c : Nat) (b : Bytes) (h : utf8Cp c = .ok b) : b.all (· < 256) = true := by
  unfold utf8Cp at h
  split at h
  · cases h; simp; omega
  · split at h
    · cases h; simp; omega
    · split at h
      · split at h
        · cases h
        · cases h; simp; omega
      · split at h
        · cases h; simp; omega
        · cases h

theorem expandBytes_simple (c : Nat) (h : isSimple c = true) : expandBytes [92, c] = .ok [simpleVal c] := by
  rcases isSimple_cases c h with h|h|h|h|h|h|h|h|h|h <;> subst h <;> rfl

theorem simpleVal_lt (c : Nat) (h : isSimple c = true) : simpleVal c < 256 := by
  rcases isSimple_cases c h with h|h|h|h|h|h|h|h|h|h <;> subst h <;> decide

theorem escape_match_bytes (d : Bool) (cs : Text) (k : EscKind) (v len : Nat)
    (h : escapeAt cs = some (k, v, len)) (hs : k ≠ .uni) :
    matchLen d (92 :: cs) = len + 1 ∧ expandBytes (92 :: cs.take len) = .ok [v] ∧ v < 256 := by
  match cs, h with
  | c :: r, h =>
    simp only [escapeAt] at h
    by_cases h1 : isSimple c = true
    · simp [h1] at h
      obtain ⟨_, rfl, rfl⟩ := h
      refine ⟨by simp [matchLen, h1], ?_, simpleVal_lt c h1⟩
      simpa using expandBytes_simple c h1
    · simp only [h1] at h
      by_cases h2 : c = 120
      · subst h2
        by_cases h3 : prefixAll isHex 2 r = true
        · simp [h3] at h
          obtain ⟨_, rfl, rfl⟩ := h
          obtain ⟨a, b, r', rfl, ha, hb⟩ := prefixAll2 _ _ h3
          have hd : prefixAll isDigit 3 (120 :: a :: b :: r') = false := by simp [prefixAll, isDigit]
          have := hexVal_lt a ha
          have := hexVal_lt b hb
          refine ⟨by simp [matchLen, isSimple, hd, h3], ?_, by simp [digitsVal]; omega⟩
          simp [expandBytes, pyInt16, ha, hb, digitsVal, bind, Except.bind, pure, Except.pure]
        · simp [h3] at h
      · simp only [h2, if_false] at h
        by_cases h4 : c = 117
        · subst h4
          by_cases h3 : prefixAll isHex 4 r = true
          · simp [h3] at h
            exact absurd h.1.symm hs
          · simp [h3] at h
        · simp only [h4, if_false] at h
          by_cases h5 : c = 85
          · subst h5
            by_cases h3 : prefixAll isHex 8 r = true
            · simp [h3] at h
              exact absurd h.1.symm hs
            · simp [h3] at h
          · simp only [h5, if_false] at h
            by_cases h6 : 48 ≤ c ∧ c ≤ 51
            · by_cases h3 : prefixAll isOct 2 r = true
              · simp [h6, h3] at h
                obtain ⟨_, rfl, rfl⟩ := h
                obtain ⟨a, b, r', rfl, ha, hb⟩ := prefixAll2 _ _ h3
                have ha' : 48 ≤ a ∧ a ≤ 55 := by simpa [isOct] using ha
                have hb' : 48 ≤ b ∧ b ≤ 55 := by simpa [isOct] using hb
                have hd : prefixAll isDigit 3 (c :: a :: b :: r') = true := by
                  simp [prefixAll, isDigit]; omega
                have hc : isOct c = true := by simp [isOct]; omega
                have e1 : c ≠ 120 := by omega
                have e2 : c ≠ 117 := by omega
                have e3 : c ≠ 85 := by omega
                refine ⟨by simp [matchLen, h1, hd], ?_, by simp [digitsVal]; omega⟩
                simp [expandBytes, pyInt8, hc, ha, hb, digitsVal, bind, Except.bind, pure, Except.pure, e1, e2, e3]
              · simp [h6, h3] at h
            · simp [h6] at h

theorem tokens_decode_bytes : ∀ (n : Nat) (body : Text) (b : Bytes), spelledBytesFuel n body = some b →
    expandAllBytes (tokensFuel true n body) = .ok b ∧ b.all (· < 256) = true
  | n, [], s, h => by
    cases n <;> simp [spelledBytesFuel] at h <;> subst h <;> simp [tokensFuel, expandAllBytes]
  | 0, _ :: _, s, h => by simp [spelledBytesFuel] at h
  | n+1, c :: rest, s, h => by
    simp only [spelledBytesFuel] at h
    by_cases hc : c = 92
    · subst hc
      simp only [if_true] at h
      match he : escapeAt rest, h with
      | some (k, v, len), h =>
        simp only [] at h
        by_cases hu : k = .uni
        · simp [hu] at h
        · simp only [hu] at h
          cases hr : spelledBytesFuel n (rest.drop len) with
          | none => simp [hr] at h
          | some s' =>
            simp [hr] at h
            subst h
            obtain ⟨hm, hx, hv⟩ := escape_match_bytes true rest k v len he hu
            have ih := tokens_decode_bytes n _ _ hr
            simp [tokensFuel, hm, expandAllBytes, hx, ih.1, bind, Except.bind, pure, Except.pure, hv]
            simpa using ih.2
    · simp only [hc, if_false] at h
      cases hb : utf8Cp c with
      | error e => simp [hb] at h
      | ok bs =>
        cases hr : spelledBytesFuel n rest with
        | none => simp [hb, hr] at h
        | some s' =>
          simp [hb, hr] at h
          subst h
          have ih := tokens_decode_bytes n _ _ hr
          have hlt := utf8Cp_lt c bs hb
          simp [tokensFuel, matchLen_plain c rest hc, expandAllBytes, expandBytes, utf8Encode, hb, ih.1, bind, Except.bind, pure, Except.pure]
          constructor
          · simpa using hlt
          · simpa using ih.2



theorem spelledFuel_encodeBody (q : Quote) : ∀ (s : Text) (n : Nat), (encodeBody q s).length ≤ n →
    spelledFuel n (encodeBody q s) = some s
  | [], n, _ => by cases n <;> simp [encodeBody, spelledFuel]
  | c :: cs, n, hn => by
    have hq : q.char = 34 ∨ q.char = 39 := by cases q <;> simp [Quote.char]
    simp only [encodeBody, encodeCp] at hn ⊢
    by_cases h1 : c = 92
    · subst h1
      simp only [if_true] at hn ⊢
      match n, hn with
      | n+1, hn =>
        have ih := spelledFuel_encodeBody q cs n (by simp at hn; omega)
        simp [spelledFuel, escapeAt, isSimple, simpleVal, ih]
    · simp only [h1, if_false] at hn ⊢
      by_cases h2 : c = q.char
      · simp only [h2, if_true] at hn ⊢
        match n, hn with
        | n+1, hn =>
          have ih := spelledFuel_encodeBody q cs n (by simp at hn; omega)
          rcases hq with hq | hq <;> simp [hq, spelledFuel, escapeAt, isSimple, simpleVal, ih]
      · simp only [h2, if_false] at hn ⊢
        by_cases h3 : c = 10
        · subst h3
          simp only [if_true] at hn ⊢
          match n, hn with
          | n+1, hn =>
            have ih := spelledFuel_encodeBody q cs n (by simp at hn; omega)
            simp [spelledFuel, escapeAt, isSimple, simpleVal, ih]
        · simp only [h3, if_false] at hn ⊢
          by_cases h4 : c = 13
          · subst h4
            simp only [if_true] at hn ⊢
            match n, hn with
            | n+1, hn =>
              have ih := spelledFuel_encodeBody q cs n (by simp at hn; omega)
              simp [spelledFuel, escapeAt, isSimple, simpleVal, ih]
          · simp only [h4, if_false] at hn ⊢
            match n, hn with
            | n+1, hn =>
              have ih := spelledFuel_encodeBody q cs n (by simp at hn; omega)
              simp [spelledFuel, h1, ih]

theorem headOk_encodeBody (q : Quote) (s : Text) : headOk q (encodeBody q s) := by
  intro _
  have hq : q.char = 34 ∨ q.char = 39 := by cases q <;> simp [Quote.char]
  cases s with
  | nil => simp [encodeBody]
  | cons c cs =>
    simp only [encodeBody, encodeCp]
    by_cases h1 : c = 92
    · rcases hq with hq | hq <;> simp [h1, hq]
    · by_cases h2 : c = q.char
      · rcases hq with hq | hq <;> simp [h2, hq]
      · by_cases h3 : c = 10
        · rcases hq with hq | hq <;> simp [h3, hq]
        · by_cases h4 : c = 13
          · rcases hq with hq | hq <;> simp [h4, hq]
          · simp [h1, h2, h3, h4]

theorem hexVal_hexDigitChar (x : Nat) (h : x < 16) : hexVal (hexDigitChar x) = x ∧ isHex (hexDigitChar x) = true := by
  have : x = 0 ∨ x = 1 ∨ x = 2 ∨ x = 3 ∨ x = 4 ∨ x = 5 ∨ x = 6 ∨ x = 7 ∨ x = 8 ∨ x = 9 ∨ x = 10 ∨ x = 11 ∨
      x = 12 ∨ x = 13 ∨ x = 14 ∨ x = 15 := by omega
  rcases this with h|h|h|h|h|h|h|h|h|h|h|h|h|h|h|h <;> subst h <;> decide

theorem spelledBytesFuel_encode : ∀ (b : Bytes) (n : Nat), b.all (· < 256) = true → (encodeBytesBody b).length ≤ n →
    spelledBytesFuel n (encodeBytesBody b) = some b
  | [], n, _, _ => by cases n <;> simp [encodeBytesBody, spelledBytesFuel]
  | x :: xs, n, hb, hn => by
    simp only [List.all_cons, Bool.and_eq_true, decide_eq_true_eq] at hb
    simp only [encodeBytesBody, encodeByte] at hn ⊢
    by_cases h1 : (32 ≤ x && x < 127 && x ≠ 92 && x ≠ 34 && x ≠ 39) = true
    · simp only [h1, if_true] at hn ⊢
      simp only [Bool.and_eq_true, decide_eq_true_eq, ne_eq, decide_not, Bool.not_eq_true', decide_eq_false_iff_not] at h1
      match n, hn with
      | n+1, hn =>
        have ih := spelledBytesFuel_encode xs n hb.2 (by simp at hn; omega)
        have hx : x < 128 := by omega
        simp [spelledBytesFuel, h1.1.1.2, utf8Cp, hx, ih]
    · simp only [h1] at hn ⊢
      match n, hn with
      | n+1, hn =>
        have ih := spelledBytesFuel_encode xs n hb.2 (by simp at hn; omega)
        have ha := hexVal_hexDigitChar (x / 16) (by omega)
        have hb' := hexVal_hexDigitChar (x % 16) (by omega)
        have hv : (hexVal (hexDigitChar (x / 16))) * 16 + hexVal (hexDigitChar (x % 16)) = x := by
          rw [ha.1, hb'.1]; omega
        simp [spelledBytesFuel, escapeAt, isSimple, prefixAll, ha.2, hb'.2, digitsVal, hv, ih]

theorem headOk_encodeBytesBody (q : Quote) (b : Bytes) : headOk q (encodeBytesBody b) := by
  intro _
  have hq : q.char = 34 ∨ q.char = 39 := by cases q <;> simp [Quote.char]
  cases b with
  | nil => simp [encodeBytesBody]
  | cons x xs =>
    simp only [encodeBytesBody, encodeByte]
    by_cases h1 : (32 ≤ x && x < 127 && x ≠ 92 && x ≠ 34 && x ≠ 39) = true
    · simp only [h1, if_true]
      simp only [Bool.and_eq_true, decide_eq_true_eq, ne_eq, decide_not, Bool.not_eq_true', decide_eq_false_iff_not] at h1
      rcases hq with hq | hq <;> simp [hq] <;> omega
    · simp only [h1]
      rcases hq with hq | hq <;> simp [hq]



/-! ### integer literals -/




theorem isDigit_iff (c : Nat) : isDigit c = true ↔ 48 ≤ c ∧ c ≤ 57 := by simp [isDigit]

theorem head_digit (ds : Text) (h1 : ds ≠ []) (h2 : ds.all isDigit = true) :
    ∃ d r, ds = d :: r ∧ 48 ≤ d ∧ d ≤ 57 := by
  cases ds with
  | nil => exact absurd rfl h1
  | cons d r => exact ⟨d, r, rfl, (isDigit_iff d).1 (by simp at h2; exact h2.1)⟩

theorem pyInt10_dec (neg : Bool) (ds : Text) (h1 : ds ≠ []) (h2 : ds.all isDigit = true) (h3 : ds.length ≤ maxDigits) :
    pyInt10 (signText neg ++ ds) = .ok (signed neg (decVal ds)) := by
  obtain ⟨d, r, rfl, hd⟩ := head_digit ds h1 h2
  have e1 : d ≠ 45 := by omega
  have e2 : d ≠ 43 := by omega
  cases neg
  · simp [pyInt10, signText, e1, e2, h2, signed, decVal]
    simpa using h3
  · simp [pyInt10, signText, h2, signed, decVal]
    simpa using h3

theorem intOfLit_dec_aux (neg : Bool) (ds : Text) (h1 : ds ≠ []) (h2 : ds.all isDigit = true) (X : Int)
    (hp : pyInt10 (signText neg ++ ds) = .ok X) :
    intOfLit (signText neg ++ ds) = int64 X := by
  unfold intOfLit
  rw [hp]
  obtain ⟨d, r, rfl, hd⟩ := head_digit ds h1 h2
  have c2 : d ≠ 45 := by omega
  cases r with
  | nil => cases neg <;> simp [signText, isHexPrefix, isNegHexPrefix, bind, Except.bind, c2]
  | cons d2 r2 =>
    have hd2 : 48 ≤ d2 ∧ d2 ≤ 57 := (isDigit_iff d2).1 (by simp at h2; exact h2.2.1)
    have c3 : d2 ≠ 120 := by omega
    have c4 : d2 ≠ 88 := by omega
    have c5 : d ≠ 120 := by omega
    have c6 : d ≠ 88 := by omega
    cases neg <;> simp [signText, isHexPrefix, isNegHexPrefix, bind, Except.bind, c2, c3, c4, c5, c6]

theorem intOfLit_dec (neg : Bool) (ds : Text) (h1 : ds ≠ []) (h2 : ds.all isDigit = true) (h3 : ds.length ≤ maxDigits) :
    intOfLit (signText neg ++ ds) = int64 (signed neg (decVal ds)) :=
  intOfLit_dec_aux neg ds h1 h2 _ (pyInt10_dec neg ds h1 h2 h3)

theorem intOfLit_hex (neg : Bool) (ds : Text) (h1 : ds ≠ []) (h2 : ds.all isHex = true) :
    intOfLit (signText neg ++ [48, 120] ++ ds) = int64 (signed neg (hexStrVal ds)) := by
  cases neg <;> simp [intOfLit, signText, isHexPrefix, isNegHexPrefix, pyInt16_ok ds h1 h2, bind, Except.bind, signed, hexStrVal]

theorem uintOfLit_dec_aux (ds : Text) (h1 : ds ≠ []) (h2 : ds.all isDigit = true) (X : Int)
    (hp : pyInt10 ds = .ok X) : uintOfLit ds = uint64 X := by
  unfold uintOfLit
  rw [hp]
  obtain ⟨d, r, rfl, hd⟩ := head_digit ds h1 h2
  cases r with
  | nil => simp [isHexPrefix, bind, Except.bind]
  | cons d2 r2 =>
    have hd2 : 48 ≤ d2 ∧ d2 ≤ 57 := (isDigit_iff d2).1 (by simp at h2; exact h2.2.1)
    have c3 : d2 ≠ 120 := by omega
    have c4 : d2 ≠ 88 := by omega
    simp [isHexPrefix, bind, Except.bind, c3, c4]

theorem uintOfLit_dec (ds : Text) (h1 : ds ≠ []) (h2 : ds.all isDigit = true) (h3 : ds.length ≤ maxDigits) :
    uintOfLit ds = uint64 (decVal ds) :=
  uintOfLit_dec_aux ds h1 h2 _ (by simpa [signText, signed] using pyInt10_dec false ds h1 h2 h3)

/-- a `-` in front of a `u`-suffixed decimal: the interpreter range-checks the negative number -/
theorem uintOfLit_neg_dec (ds : Text) (h1 : ds ≠ []) (h2 : ds.all isDigit = true) (h3 : ds.length ≤ maxDigits) :
    uintOfLit (45 :: ds) = uint64 (-(decVal ds : Int)) := by
  have hp : pyInt10 (45 :: ds) = .ok (-(decVal ds : Int)) := by
    simpa [signText, signed] using pyInt10_dec true ds h1 h2 h3
  unfold uintOfLit
  rw [hp]
  obtain ⟨d, r, rfl, hd⟩ := head_digit ds h1 h2
  simp [isHexPrefix, bind, Except.bind]

theorem uintOfLit_hex (ds : Text) (h1 : ds ≠ []) (h2 : ds.all isHex = true) :
    uintOfLit ([48, 120] ++ ds) = uint64 (hexStrVal ds) := by
  simp [uintOfLit, isHexPrefix, pyInt16_ok ds h1 h2, bind, Except.bind, hexStrVal]


theorem decVal_zero_cons (r : Text) : decVal (48 :: r) = decVal r := by simp [decVal, digitsVal]

theorem dropZeros_spec : ∀ (ds : Text), ds.all isDigit = true →
    dropZeros ds ≠ [] ∧ (dropZeros ds).all isDigit = true ∧
    ((dropZeros ds).head? ≠ some 48 ∨ (dropZeros ds).all (· = 48) = true) ∧
    (dropZeros ds).length ≤ ds.length + 1 ∧ (ds ≠ [] → (dropZeros ds).length ≤ ds.length) ∧
    decVal (dropZeros ds) = decVal ds
  | [], _ => by simp [dropZeros, decVal, digitsVal, isDigit]
  | d :: r, h => by
    have hr : r.all isDigit = true := by simp at h ⊢; exact h.2
    obtain ⟨i1, i2, i3, i4, _, i6⟩ := dropZeros_spec r hr
    by_cases hd : d = 48
    · subst hd
      simp only [dropZeros, if_true]
      refine ⟨i1, i2, i3, by simp; omega, fun _ => by simpa using i4, by rw [i6, decVal_zero_cons]⟩
    · simp only [dropZeros, hd, if_false]
      exact ⟨by simp, h, Or.inl (by simp [hd]), by simp, fun _ => Nat.le_refl _, trivial⟩

theorem digits_head (ds : Text) (h1 : ds ≠ []) (h2 : ds.all isDigit = true) :
    ds.head? ≠ some 45 ∧ ds.head? ≠ some 43 ∧ isHexPrefix (ds.take 2) = false := by
  obtain ⟨d, r, rfl, hd⟩ := head_digit ds h1 h2
  have c2 : d ≠ 45 := by omega
  have c2' : d ≠ 43 := by omega
  cases r with
  | nil => simp [isHexPrefix, c2, c2']
  | cons d2 r2 =>
    have hd2 : 48 ≤ d2 ∧ d2 ≤ 57 := (isDigit_iff d2).1 (by simp at h2; exact h2.2.1)
    have c3 : d2 ≠ 120 := by omega
    have c4 : d2 ≠ 88 := by omega
    simp [isHexPrefix, c2, c2', c3, c4]

theorem normIntText_dec (neg : Bool) (ds : Text) (h1 : ds ≠ []) (h2 : ds.all isDigit = true) :
    normIntText (signText neg ++ ds) = signText neg ++ dropZeros ds := by
  obtain ⟨a, _, c⟩ := digits_head ds h1 h2
  cases neg <;> simp [normIntText, signText, a, c]

theorem pyIntLiteral_dec (neg : Bool) (zs : Text) (h1 : zs ≠ []) (h2 : zs.all isDigit = true)
    (h3 : zs.head? ≠ some 48 ∨ zs.all (· = 48) = true) (h4 : zs.length ≤ maxDigits) :
    pyIntLiteral (signText neg ++ zs) = .ok (signed neg (decVal zs)) := by
  obtain ⟨a, _, c⟩ := digits_head zs h1 h2
  have cond : zs ≠ [] ∧ zs.all isDigit = true ∧ (zs.head? ≠ some 48 ∨ zs.all (· = 48) = true) ∧ zs.length ≤ maxDigits :=
    ⟨h1, h2, h3, h4⟩
  cases neg
  · simp only [pyIntLiteral, signText, Bool.false_eq_true, if_false, List.nil_append, a, c, if_pos cond, signed, decVal]
  · simp only [pyIntLiteral, signText, if_true, List.cons_append, List.nil_append, List.head?_cons, List.drop_succ_cons,
      List.drop_zero, c, Bool.false_eq_true, if_false, if_pos cond, signed, decVal]

theorem pyIntLiteral_hex (neg : Bool) (ds : Text) (h1 : ds ≠ []) (h2 : ds.all isHex = true) :
    pyIntLiteral (signText neg ++ [48, 120] ++ ds) = .ok (signed neg (hexStrVal ds)) := by
  cases neg <;> simp [pyIntLiteral, signText, isHexPrefix, pyInt16_ok ds h1 h2, signed, hexStrVal]

theorem normIntText_hex (neg : Bool) (ds : Text) :
    normIntText (signText neg ++ [48, 120] ++ ds) = signText neg ++ [48, 120] ++ ds := by
  cases neg <;> simp [normIntText, signText, isHexPrefix]



/-! ### reference printers -/
theorem digitsVal_snoc (b : Nat) (f : Nat → Nat) (xs : Text) (d : Nat) :
    digitsVal b f (xs ++ [d]) = digitsVal b f xs * b + f d := by
  simp [digitsVal, List.foldl_append]

theorem digitsOf_val (b : Nat) (hb : 1 < b) (ch f : Nat → Nat) (hf : ∀ d, d < b → f (ch d) = d) :
    ∀ (fuel n : Nat), n < b ^ fuel → digitsVal b f (digitsOf b ch fuel n) = n
  | 0, n, h => by simp at h; subst h; simp [digitsOf, digitsVal]
  | k + 1, n, h => by
    unfold digitsOf
    by_cases hn : n < b
    · simp [hn, digitsVal, hf n hn]
    · simp only [hn, if_false]
      have hlt : n / b < b ^ k := by
        apply Nat.div_lt_of_lt_mul
        rw [Nat.pow_succ, Nat.mul_comm] at h; exact h
      rw [digitsVal_snoc, digitsOf_val b hb ch f hf k (n / b) hlt, hf _ (Nat.mod_lt _ (by omega))]
      exact Nat.div_add_mod' n b

theorem digitsOf_all (b : Nat) (hb : 1 < b) (ch : Nat → Nat) (p : Nat → Bool) (hp : ∀ d, d < b → p (ch d) = true) :
    ∀ (fuel n : Nat), (digitsOf b ch fuel n).all p = true
  | 0, n => by simp [digitsOf]
  | k + 1, n => by
    unfold digitsOf
    by_cases hn : n < b
    · simp [hn, hp n hn]
    · simp only [hn, if_false, List.all_append, Bool.and_eq_true]
      exact ⟨digitsOf_all b hb ch p hp k _, by simp [hp _ (Nat.mod_lt n (by omega : 0 < b))]⟩

theorem digitsOf_length (b : Nat) (ch : Nat → Nat) : ∀ (fuel n : Nat), (digitsOf b ch fuel n).length ≤ fuel
  | 0, n => by simp [digitsOf]
  | k + 1, n => by
    unfold digitsOf
    by_cases hn : n < b
    · simp [hn]
    · simp only [hn, if_false, List.length_append, List.length_cons, List.length_nil]
      have := digitsOf_length b ch k (n / b); omega

theorem digitsOf_ne_nil (b : Nat) (ch : Nat → Nat) (fuel n : Nat) : digitsOf b ch (fuel + 1) n ≠ [] := by
  unfold digitsOf
  by_cases hn : n < b <;> simp [hn]


theorem decDigits_spec (n : Nat) (h : n < 10 ^ 20) :
    decDigits n ≠ [] ∧ (decDigits n).all isDigit = true ∧ (decDigits n).length ≤ maxDigits ∧ decVal (decDigits n) = n := by
  refine ⟨digitsOf_ne_nil _ _ _ _, digitsOf_all 10 (by omega) _ _ (fun d hd => by simp [isDigit]; omega) _ _, ?_, ?_⟩
  · have := digitsOf_length 10 (48 + ·) 20 n
    unfold decDigits maxDigits; omega
  · exact digitsOf_val 10 (by omega) _ _ (fun d _ => by simp) 20 n h

theorem hexDigits_spec (n : Nat) (h : n < 16 ^ 16) :
    hexDigits n ≠ [] ∧ (hexDigits n).all isHex = true ∧ hexStrVal (hexDigits n) = n := by
  refine ⟨digitsOf_ne_nil _ _ _ _, digitsOf_all 16 (by omega) _ _ (fun d hd => (hexVal_hexDigitChar d hd).2) _ _, ?_⟩
  exact digitsOf_val 16 (by omega) _ _ (fun d hd => (hexVal_hexDigitChar d hd).1) 16 n h


/-! ### the range decorators, restated with `i64` / `u64` -/
theorem uint64_eq (z : Int) : uint64 z = if u64 z then .ok z else .error .valueError := by
  unfold uint64
  by_cases h : u64 z
  · rw [if_pos h]; exact if_pos h
  · rw [if_neg h]; exact if_neg h
theorem int64_eq (z : Int) : int64 z = if i64 z then .ok z else .error .valueError := by
  unfold int64
  by_cases h : i64 z
  · rw [if_pos h]; exact if_pos h
  · rw [if_neg h]; exact if_neg h


theorem bind_ok_uint64 (x : Int) (r : PyM Int) (h : r = .ok x) : (r >>= uint64) = uint64 x := by
  subst h; rfl

/-- the conversion guard added by /repo 50c913c is invisible whenever the pasted text evaluates to what
the interpreter's conversion gives -/
theorem transpiledInt_eq (s : Text) (h : (pyIntLiteral (normIntText s) >>= int64) = intOfLit s) :
    transpiledInt s = intOfLit s := by
  unfold transpiledInt
  cases hi : intOfLit s with
  | ok v => rw [hi] at h; simpa using h
  | error c => rfl
theorem transpiledUint_eq (s : Text) (h : (pyIntLiteral (normIntText s) >>= uint64) = uintOfLit s) :
    transpiledUint s = uintOfLit s := by
  unfold transpiledUint
  cases hi : uintOfLit s with
  | ok v => rw [hi] at h; simpa using h
  | error c => rfl

theorem pasted_uint_dec (ds : Text) (h1 : ds ≠ []) (h2 : ds.all isDigit = true) (h3 : ds.length ≤ maxDigits) :
    (pyIntLiteral (normIntText ds) >>= uint64) = uint64 (decVal ds) := by
  obtain ⟨z1, z2, z3, _, z5, z6⟩ := dropZeros_spec ds h2
  have e : normIntText ds = dropZeros ds := by simpa [signText] using normIntText_dec false ds h1 h2
  have p : pyIntLiteral (dropZeros ds) = .ok (decVal (dropZeros ds) : Int) := by
    simpa [signText, signed] using pyIntLiteral_dec false _ z1 z2 z3 (Nat.le_trans (z5 h1) h3)
  exact bind_ok_uint64 _ _ (by rw [e, p, z6])

theorem pasted_uint_hex (ds : Text) (h1 : ds ≠ []) (h2 : ds.all isHex = true) :
    (pyIntLiteral (normIntText ([48, 120] ++ ds)) >>= uint64) = uint64 (hexStrVal ds) := by
  have e : normIntText ([48, 120] ++ ds) = [48, 120] ++ ds := by simpa [signText] using normIntText_hex false ds
  have p : pyIntLiteral ([48, 120] ++ ds) = .ok (hexStrVal ds : Int) := by
    simpa [signText, signed] using pyIntLiteral_hex false ds h1 h2
  exact bind_ok_uint64 _ _ (by rw [e]; exact p)



/-! ### UTF-8 -/
theorem utf8Decode_cp (c : Nat) (b : Bytes) (rest : Bytes) (h : utf8Cp c = .ok b) :
    utf8Decode (b ++ rest) = (c :: ·) <$> utf8Decode rest := by
  unfold utf8Cp at h
  by_cases h1 : c < 0x80
  · simp only [h1, if_true] at h; cases h
    show utf8Decode (c :: rest) = _
    rw [utf8Decode.eq_def]; simp [h1]
  · simp only [h1, if_false] at h
    by_cases h2 : c < 0x800
    · simp only [h2, if_true] at h; cases h
      have a1 : ¬ (0xC0 + c / 64 < 0x80) := by omega
      have a2 : ¬ (0xC0 + c / 64 < 0xC2) := by omega
      have a3 : 0xC0 + c / 64 < 0xE0 := by omega
      have a4 : isCont (0x80 + c % 64) = true := by simp [isCont]; omega
      have a5 : c / 64 * 64 + c % 64 = c := by omega
      simp [utf8Decode, a1, a2, a3, a4, a5]
    · simp only [h2, if_false] at h
      by_cases h3 : c < 0x10000
      · simp only [h3, if_true] at h
        by_cases hs : isSurrogate c = true
        · simp [hs] at h
        · simp only [hs] at h; cases h
          have hs' : ¬ (0xD800 ≤ c ∧ c ≤ 0xDFFF) := by simpa [isSurrogate] using hs
          have a1 : ¬ (0xE0 + c / 4096 < 0x80) := by omega
          have a2 : ¬ (0xE0 + c / 4096 < 0xC2) := by omega
          have a3 : ¬ (0xE0 + c / 4096 < 0xE0) := by omega
          have a4 : 0xE0 + c / 4096 < 0xF0 := by omega
          have a5 : isCont (0x80 + c / 64 % 64) = true := by simp [isCont]; omega
          have a6 : isCont (0x80 + c % 64) = true := by simp [isCont]; omega
          have a7 : c / 4096 * 4096 + c / 64 % 64 * 64 + c % 64 = c := by omega
          have hs2 : isSurrogate c = false := by simpa using hs
          have a8 : 0x800 ≤ c := by omega
          simp [utf8Decode, a1, a2, a3, a4, a5, a6, a7, a8, hs2]
      · simp only [h3, if_false] at h
        by_cases h4 : c < 0x110000
        · simp only [h4, if_true] at h; cases h
          have a1 : ¬ (0xF0 + c / 262144 < 0x80) := by omega
          have a2 : ¬ (0xF0 + c / 262144 < 0xC2) := by omega
          have a3 : ¬ (0xF0 + c / 262144 < 0xE0) := by omega
          have a4 : ¬ (0xF0 + c / 262144 < 0xF0) := by omega
          have a4' : 0xF0 + c / 262144 < 0xF5 := by omega
          have a5 : isCont (0x80 + c / 4096 % 64) = true := by simp [isCont]; omega
          have a6 : isCont (0x80 + c / 64 % 64) = true := by simp [isCont]; omega
          have a6' : isCont (0x80 + c % 64) = true := by simp [isCont]; omega
          have a7 : c / 262144 * 262144 + c / 4096 % 64 * 4096 + c / 64 % 64 * 64 + c % 64 = c := by omega
          have a8 : 0x10000 ≤ c := by omega
          simp [utf8Decode, a1, a2, a3, a4, a4', a5, a6, a6', a7, a8, h4]
        · simp [h4] at h

/-- strict decoding inverts encoding, for every text that can be encoded (no lone surrogates) -/
theorem utf8_roundtrip : ∀ (s : Text) (b : Bytes), utf8Encode s = .ok b → utf8Decode b = .ok s
  | [], b, h => by simp [utf8Encode] at h; subst h; simp [utf8Decode]
  | c :: cs, b, h => by
    simp only [utf8Encode] at h
    cases hc : utf8Cp c with
    | error e => simp [hc, bind, Except.bind] at h
    | ok bc =>
      cases hr : utf8Encode cs with
      | error e => simp [hc, hr, bind, Except.bind] at h
      | ok br =>
        simp [hc, hr, bind, Except.bind, pure, Except.pure] at h
        subst h
        rw [utf8Decode_cp c bc br hc, utf8_roundtrip cs br hr]
        rfl



/-! ### any mixture of escape forms -/
theorem prefixAll_of_all (p : Nat → Bool) : ∀ (n : Nat) (h rest : Text), h.length = n → h.all p = true →
    prefixAll p n (h ++ rest) = true ∧ (h ++ rest).take n = h ∧ (h ++ rest).drop n = rest
  | 0, [], rest, _, _ => by simp [prefixAll]
  | n+1, c :: cs, rest, hl, ha => by
    simp only [List.all_cons, Bool.and_eq_true] at ha
    have ih := prefixAll_of_all p n cs rest (by simpa using hl) ha.2
    simp [prefixAll, ha.1, ih.1, ih.2.1, ih.2.2]

theorem spelled_renderAll : ∀ (ps : List Piece) (n : Nat), (∀ p ∈ ps, p.valid) → (renderAll ps).length ≤ n →
    spelledFuel n (renderAll ps) = some (ps.map Piece.value)
  | [], n, _, _ => by cases n <;> simp [renderAll, spelledFuel]
  | p :: ps, n, hv, hn => by
    have hp : p.valid := hv p (by simp)
    have hvs : ∀ q ∈ ps, q.valid := fun q hq => hv q (by simp [hq])
    cases p with
    | lit c =>
      simp only [renderAll, Piece.render, List.cons_append, List.nil_append, List.length_cons] at hn ⊢
      match n, hn with
      | n+1, hn =>
        have ih := spelled_renderAll ps n hvs (by omega)
        have hc : c ≠ 92 := hp
        simp [spelledFuel, hc, ih, Piece.value]
    | simple e =>
      simp only [renderAll, Piece.render, List.cons_append, List.nil_append, List.length_cons] at hn ⊢
      match n, hn with
      | n+1, hn =>
        have ih := spelled_renderAll ps n hvs (by omega)
        have he : isSimple e = true := hp
        simp [spelledFuel, escapeAt, he, ih, Piece.value]
    | hex h1 h2 =>
      simp only [renderAll, Piece.render, List.cons_append, List.nil_append, List.length_cons] at hn ⊢
      match n, hn with
      | n+1, hn =>
        have ih := spelled_renderAll ps n hvs (by omega)
        obtain ⟨a, b⟩ : isHex h1 = true ∧ isHex h2 = true := hp
        simp [spelledFuel, escapeAt, isSimple, prefixAll, a, b, digitsVal, ih, Piece.value]
    | u4 h =>
      simp only [renderAll, Piece.render, List.cons_append, List.length_cons] at hn ⊢
      match n, hn with
      | n+1, hn =>
        have ih := spelled_renderAll ps n hvs (by simp at hn; omega)
        obtain ⟨a, b, c⟩ : h.length = 4 ∧ h.all isHex = true ∧ isScalar (digitsVal 16 hexVal h) = true := hp
        obtain ⟨x, y, z⟩ := prefixAll_of_all isHex 4 h (renderAll ps) a b
        have e : List.drop 5 (117 :: (h ++ renderAll ps)) = renderAll ps := by
          show List.drop 4 (h ++ renderAll ps) = _; exact z
        simp [spelledFuel, escapeAt, isSimple, x, y, e, c, ih, Piece.value]
    | u8 h =>
      simp only [renderAll, Piece.render, List.cons_append, List.length_cons] at hn ⊢
      match n, hn with
      | n+1, hn =>
        have ih := spelled_renderAll ps n hvs (by simp at hn; omega)
        obtain ⟨a, b, c⟩ : h.length = 8 ∧ h.all isHex = true ∧ isScalar (digitsVal 16 hexVal h) = true := hp
        obtain ⟨x, y, z⟩ := prefixAll_of_all isHex 8 h (renderAll ps) a b
        have e : List.drop 9 (85 :: (h ++ renderAll ps)) = renderAll ps := by
          show List.drop 8 (h ++ renderAll ps) = _; exact z
        simp [spelledFuel, escapeAt, isSimple, x, y, e, c, ih, Piece.value]
    | oct o1 o2 o3 =>
      simp only [renderAll, Piece.render, List.cons_append, List.nil_append, List.length_cons] at hn ⊢
      match n, hn with
      | n+1, hn =>
        have ih := spelled_renderAll ps n hvs (by omega)
        obtain ⟨a, b, c, d⟩ : 48 ≤ o1 ∧ o1 ≤ 51 ∧ isOct o2 = true ∧ isOct o3 = true := hp
        have ns : isSimple o1 = false := by simp [isSimple]; omega
        have e1 : o1 ≠ 120 := by omega
        have e2 : o1 ≠ 117 := by omega
        have e3 : o1 ≠ 85 := by omega
        simp [spelledFuel, escapeAt, ns, e1, e2, e3, a, b, prefixAll, c, d, digitsVal, ih, Piece.value]
        omega


end Cel.Str
