/- Helper lemmas for C08 (and C13): induction over nested values, three-way comparisons,
   the boolean specification `eqSpec` of `==` and its agreement with the model `veq`. Core Lean only. -/
import Cel.Model.Value
namespace Cel

/-! ### induction over values with membership hypotheses -/

def Val.isLeaf : Val → Bool
  | .list _ | .map _ | .nlist _ => false
  | _ => true

section
variable {P : Val → Prop}
  (hlist : ∀ xs, (∀ x ∈ xs, P x) → P (.list xs))
  (hmap : ∀ m : List (Key × Val), (∀ kv ∈ m, P kv.2) → P (.map m))
  (hnlist : ∀ xs, (∀ x ∈ xs, P x) → P (.nlist xs))
  (hleaf : ∀ v, v.isLeaf = true → P v)
include hlist hmap hnlist hleaf
mutual
theorem Val.ind : (v : Val) → P v
  | .list xs => hlist xs (Val.indList xs)
  | .map m => hmap m (Val.indMap m)
  | .nlist xs => hnlist xs (Val.indList xs)
  | .int _ => hleaf _ rfl | .uint _ => hleaf _ rfl | .dbl _ => hleaf _ rfl | .bool _ => hleaf _ rfl
  | .str _ => hleaf _ rfl | .bytes _ => hleaf _ rfl | .null => hleaf _ rfl | .ts _ _ => hleaf _ rfl
  | .dur _ => hleaf _ rfl | .type _ => hleaf _ rfl | .nfloat _ => hleaf _ rfl | .nstr _ => hleaf _ rfl
  | .nbytes _ => hleaf _ rfl | .ntimedelta _ => hleaf _ rfl | .nbool _ => hleaf _ rfl | .nint _ => hleaf _ rfl
  | .ndatetime _ _ => hleaf _ rfl
theorem Val.indList : (xs : List Val) → ∀ x ∈ xs, P x
  | [], _, h => by cases h
  | y :: ys, x, h => by
      rcases List.mem_cons.mp h with h | h
      · exact h ▸ Val.ind y
      · exact Val.indList ys x h
theorem Val.indMap : (m : List (Key × Val)) → ∀ kv ∈ m, P kv.2
  | [], _, h => by cases h
  | (_, v) :: rest, kv, h => by
      rcases List.mem_cons.mp h with h | h
      · exact h ▸ Val.ind v
      · exact Val.indMap rest kv h
end
end

/-! ### three-way comparisons -/

theorem cmpInt_refl (a : Int) : cmpInt a a = .eq := by simp [cmpInt]
theorem cmpInt_swap (a b : Int) : cmpInt b a = (cmpInt a b).swap := by
  unfold cmpInt; split <;> split <;> simp_all [Ordering.swap] <;> omega
theorem cmpInt_eq_iff (a b : Int) : cmpInt a b = .eq ↔ a = b := by
  unfold cmpInt
  by_cases h1 : a < b
  · simp [h1]; omega
  · by_cases h2 : b < a
    · simp [h1, h2]; omega
    · simp [h1, h2]; omega
theorem cmpInt_lt_iff (a b : Int) : cmpInt a b = .lt ↔ a < b := by
  unfold cmpInt
  by_cases h1 : a < b
  · simp [h1]
  · by_cases h2 : b < a <;> simp [h1, h2]
theorem cmpInt_trans (a b c : Int) (h1 : cmpInt a b = .lt) (h2 : cmpInt b c = .lt) : cmpInt a c = .lt := by
  rw [cmpInt_lt_iff] at *; omega

theorem cmpBool_refl (a : Bool) : cmpBool a a = .eq := by cases a <;> rfl
theorem cmpBool_swap (a b : Bool) : cmpBool b a = (cmpBool a b).swap := by cases a <;> cases b <;> rfl
theorem cmpBool_eq_iff (a b : Bool) : cmpBool a b = .eq ↔ a = b := by cases a <;> cases b <;> simp [cmpBool]
theorem cmpBool_trans (a b c : Bool) (h1 : cmpBool a b = .lt) (h2 : cmpBool b c = .lt) : cmpBool a c = .lt := by
  cases a <;> cases b <;> cases c <;> simp_all [cmpBool]

theorem cmpSeq_refl : (a : List Nat) → cmpSeq a a = .eq
  | [] => rfl
  | x :: xs => by simp [cmpSeq, cmpSeq_refl xs]
theorem cmpSeq_swap : (a b : List Nat) → cmpSeq b a = (cmpSeq a b).swap
  | [], [] => rfl
  | [], _ :: _ => rfl
  | _ :: _, [] => rfl
  | x :: xs, y :: ys => by
      simp only [cmpSeq]
      by_cases h1 : x < y
      · have : ¬ y < x := by omega
        simp [h1, this, Ordering.swap]
      · by_cases h2 : y < x
        · simp [h1, h2, Ordering.swap]
        · simp [h1, h2, cmpSeq_swap xs ys]
theorem cmpSeq_eq_iff : (a b : List Nat) → (cmpSeq a b = .eq ↔ a = b)
  | [], [] => by simp [cmpSeq]
  | [], _ :: _ => by simp [cmpSeq]
  | _ :: _, [] => by simp [cmpSeq]
  | x :: xs, y :: ys => by
      simp only [cmpSeq]
      by_cases h1 : x < y
      · simp [h1]; omega
      · by_cases h2 : y < x
        · simp [h1, h2]; omega
        · have : x = y := by omega
          simp [h1, h2, cmpSeq_eq_iff xs ys, this]
theorem cmpSeq_trans : (a b c : List Nat) → cmpSeq a b = .lt → cmpSeq b c = .lt → cmpSeq a c = .lt
  | [], [], _, h, _ => by simp [cmpSeq] at h
  | [], _ :: _, [], _, h => by simp [cmpSeq] at h
  | [], _ :: _, _ :: _, _, _ => rfl
  | _ :: _, [], _, h, _ => by simp [cmpSeq] at h
  | _ :: _, _ :: _, [], _, h => by simp [cmpSeq] at h
  | x :: xs, y :: ys, z :: zs, h1, h2 => by
      simp only [cmpSeq] at *
      by_cases hxy : x < y
      · by_cases hyz : y < z
        · have : x < z := by omega
          simp [this]
        · by_cases hzy : z < y
          · simp [hyz, hzy] at h2
          · have : x < z := by omega
            simp [this]
      · by_cases hyx : y < x
        · simp [hxy, hyx] at h1
        · simp only [hxy, hyx, if_false] at h1
          have hxy' : x = y := by omega
          subst hxy'
          by_cases hyz : x < z
          · simp [hyz]
          · by_cases hzy : z < x
            · simp [hyz, hzy] at h2
            · simp only [hyz, hzy, if_false] at h2 ⊢
              exact cmpSeq_trans xs ys zs h1 h2

/-! ### `RelOp.holds` on a three-way comparison -/

theorem holds_swap (op : RelOp) (o : Ordering) : op.swap.holds o.swap = op.holds o := by
  cases op <;> cases o <;> rfl
theorem holds_lt_gt (o : Ordering) : RelOp.holds .lt o = RelOp.holds .gt o.swap := by cases o <;> rfl
theorem holds_le (o : Ordering) : RelOp.holds .le o = (RelOp.holds .lt o || RelOp.holds .eq o) := by cases o <;> rfl
theorem holds_ge (o : Ordering) : RelOp.holds .ge o = (RelOp.holds .gt o || RelOp.holds .eq o) := by cases o <;> rfl
theorem holds_ne (o : Ordering) : RelOp.holds .ne o = !RelOp.holds .eq o := by cases o <;> rfl


/-! ### the boolean specification of `==` agrees with the model on same-typed values -/


theorem land_ofBool (a b : Bool) : land (O.ofBool a) (O.ofBool b) = .ok (O.ofBool (a && b)) := by
  cases a <;> cases b <;> rfl
theorem lor_ofBool (a b : Bool) : lor (O.ofBool a) (O.ofBool b) = .ok (O.ofBool (a || b)) := by
  cases a <;> cases b <;> rfl
theorem finish_ofBool (s : ContSpec) (b : Bool) : finish s (O.ofBool b) = .ok b := by cases b <;> rfl
theorem captured_ok (c : Bool) (b : Bool) : captured c (.ok b) = .ok (O.ofBool b) := rfl

theorem contFrame_and (s : ContSpec) (h1 : s.sizeTestEq = true) (h2 : s.connAnd = true) (sz b : Bool) (fold : PyM O)
    (hf : sz = true → fold = .ok (O.ofBool b)) : contFrame s sz fold = .ok (sz && b) := by
  cases sz
  · simp [contFrame, h1, h2]
  · simp [contFrame, h1, h2, hf rfl, bind, Except.bind, finish_ofBool]
theorem contFrame_or (s : ContSpec) (h1 : s.sizeTestEq = false) (h2 : s.connAnd = false) (sz b : Bool) (fold : PyM O)
    (hf : sz = true → fold = .ok (O.ofBool b)) : contFrame s sz fold = .ok (!sz || b) := by
  cases sz
  · simp [contFrame, h1, h2]
  · simp [contFrame, h1, h2, hf rfl, bind, Except.bind, finish_ofBool]

/-- what the induction gives for one element -/
def ElemSpec (x : Val) : Prop :=
  ∀ y, sameType x y = true →
    pyRel cmpSpecs .eq x y = .ok (eqSpec x y) ∧ pyRel cmpSpecs .ne x y = .ok (!eqSpec x y)

theorem listFold_eq (s : ContSpec) (he : s.elemEq = true) (hr : s.reducerAnd = true) :
    (xs ys : List Val) → (acc : Bool) → (∀ x ∈ xs, ElemSpec x) → sameTypeList xs ys = true →
    listFold cmpSpecs s (O.ofBool acc) xs ys = .ok (O.ofBool (acc && eqSpecList xs ys))
  | [], _, acc, _, _ => by cases acc <;> simp [listFold, eqSpecList]
  | _ :: _, [], acc, _, _ => by cases acc <;> simp [listFold, eqSpecList]
  | x :: xs, y :: ys, acc, ih, hs => by
      simp only [sameTypeList, Bool.and_eq_true] at hs
      have hx := (ih x (List.mem_cons_self ..) y hs.1).1
      have := listFold_eq s he hr xs ys (acc && eqSpec x y) (fun z hz => ih z (List.mem_cons_of_mem _ hz)) hs.2
      simp only [listFold, he, hr, if_true, hx, captured_ok, reducer, land_ofBool, bind, Except.bind, this, eqSpecList,
        Bool.and_assoc]

theorem listFold_ne (s : ContSpec) (he : s.elemEq = false) (hr : s.reducerAnd = false) :
    (xs ys : List Val) → (acc : Bool) → (∀ x ∈ xs, ElemSpec x) → sameTypeList xs ys = true →
    listFold cmpSpecs s (O.ofBool acc) xs ys = .ok (O.ofBool (acc || !eqSpecList xs ys))
  | [], _, acc, _, _ => by cases acc <;> simp [listFold, eqSpecList]
  | _ :: _, [], acc, _, _ => by cases acc <;> simp [listFold, eqSpecList]
  | x :: xs, y :: ys, acc, ih, hs => by
      simp only [sameTypeList, Bool.and_eq_true] at hs
      have hx := (ih x (List.mem_cons_self ..) y hs.1).2
      have := listFold_ne s he hr xs ys (acc || !eqSpec x y) (fun z hz => ih z (List.mem_cons_of_mem _ hz)) hs.2
      simp only [listFold, he, hr, Bool.false_eq_true, if_false, hx, captured_ok, reducer, lor_ofBool, bind, Except.bind, this,
        eqSpecList, Bool.not_and, Bool.or_assoc]


theorem Key.sameCls_symm (a b : Key) : a.sameCls b = b.sameCls a := by cases a <;> cases b <;> rfl
theorem Key.sameCls_trans (a b c : Key) (h1 : a.sameCls b = true) (h2 : b.sameCls c = true) : a.sameCls c = true := by
  cases a <;> cases b <;> cases c <;> simp_all [Key.sameCls]
theorem Key.hit_sameCls (k' k : Key) (h : k'.sameCls k = true) : Key.hit k' k = .ok (decide (k' = k)) := by
  cases k' <;> cases k <;> simp_all [Key.sameCls, Key.hit]

theorem lookup_eq_find (k : Key) : (m : List (Key × Val)) → (∀ kv ∈ m, kv.1.sameCls k = true) →
    lookup k m = .ok (find? k m)
  | [], _ => rfl
  | (k', v) :: rest, h => by
      have h1 := Key.hit_sameCls k' k (h (k', v) (List.mem_cons_self ..))
      have h2 := lookup_eq_find k rest (fun kv hkv => h kv (List.mem_cons_of_mem _ hkv))
      simp only [lookup, find?, h1, h2, bind, Except.bind]
      by_cases hk : k' = k <;> simp [hk]

def allFound : List (Key × Val) → List (Key × Val) → Bool
  | [], _ => true
  | (k, _) :: rest, m2 => (find? k m2).isSome && allFound rest m2

theorem allIn_spec (m2 : List (Key × Val)) : (m1 : List (Key × Val)) →
    (∀ kv ∈ m1, ∀ kv' ∈ m2, kv'.1.sameCls kv.1 = true) → allIn m2 m1 = .ok (allFound m1 m2)
  | [], _ => rfl
  | (k, v) :: rest, h => by
      have h1 := lookup_eq_find k m2 (h (k, v) (List.mem_cons_self ..))
      have h2 := allIn_spec m2 rest (fun kv hkv => h kv (List.mem_cons_of_mem _ hkv))
      simp only [allIn, bind, Except.bind, h1, allFound]
      cases hf : find? k m2 <;> simp [h2]

theorem keysEq_spec (m1 m2 : List (Key × Val)) (h : ∀ kv ∈ m1, ∀ kv' ∈ m2, kv'.1.sameCls kv.1 = true) :
    keysEq m1 m2 = .ok (m1.length == m2.length && allFound m1 m2) := by
  unfold keysEq
  by_cases hl : m1.length = m2.length
  · simp [hl, allIn_spec m2 m1 h]
  · simp [hl]

theorem eqSpecMap_notFound : (m1 m2 : List (Key × Val)) → allFound m1 m2 = false → eqSpecMap m1 m2 = false
  | [], _, h => by simp [allFound] at h
  | (k, v) :: rest, m2, h => by
      simp only [allFound, Bool.and_eq_false_iff] at h
      simp only [eqSpecMap]
      rcases h with h | h
      · cases hf : find? k m2 <;> simp_all
      · simp [eqSpecMap_notFound rest m2 h]

theorem mapFold_eq (s : ContSpec) (he : s.elemEq = true) (hr : s.reducerAnd = true) (m2 : List (Key × Val)) :
    (m1 : List (Key × Val)) → (acc : Bool) → (∀ kv ∈ m1, ElemSpec kv.2) →
    (∀ kv ∈ m1, ∀ kv' ∈ m2, kv'.1.sameCls kv.1 = true) → sameTypeMap m1 m2 = true → allFound m1 m2 = true →
    mapFold cmpSpecs s (O.ofBool acc) m1 m2 = .ok (O.ofBool (acc && eqSpecMap m1 m2))
  | [], acc, _, _, _, _ => by cases acc <;> simp [mapFold, eqSpecMap]
  | (k, v) :: rest, acc, ih, hk, hs, hf => by
      have h1 := lookup_eq_find k m2 (hk (k, v) (List.mem_cons_self ..))
      simp only [allFound, Bool.and_eq_true] at hf
      simp only [sameTypeMap, Bool.and_eq_true] at hs
      obtain ⟨w, hw⟩ := Option.isSome_iff_exists.mp hf.1
      rw [hw] at hs
      have hx := (ih (k, v) (List.mem_cons_self ..) w hs.1).1
      have := mapFold_eq s he hr m2 rest (acc && eqSpec v w) (fun z hz => ih z (List.mem_cons_of_mem _ hz))
        (fun kv hkv => hk kv (List.mem_cons_of_mem _ hkv)) hs.2 hf.2
      simp only [mapFold, h1, hw, he, hr, if_true, hx, captured_ok, reducer, land_ofBool, bind, Except.bind, this, eqSpecMap,
        Bool.and_assoc]

theorem mapFold_ne (s : ContSpec) (he : s.elemEq = false) (hr : s.reducerAnd = false) (m2 : List (Key × Val)) :
    (m1 : List (Key × Val)) → (acc : Bool) → (∀ kv ∈ m1, ElemSpec kv.2) →
    (∀ kv ∈ m1, ∀ kv' ∈ m2, kv'.1.sameCls kv.1 = true) → sameTypeMap m1 m2 = true → allFound m1 m2 = true →
    mapFold cmpSpecs s (O.ofBool acc) m1 m2 = .ok (O.ofBool (acc || !eqSpecMap m1 m2))
  | [], acc, _, _, _, _ => by cases acc <;> simp [mapFold, eqSpecMap]
  | (k, v) :: rest, acc, ih, hk, hs, hf => by
      have h1 := lookup_eq_find k m2 (hk (k, v) (List.mem_cons_self ..))
      simp only [allFound, Bool.and_eq_true] at hf
      simp only [sameTypeMap, Bool.and_eq_true] at hs
      obtain ⟨w, hw⟩ := Option.isSome_iff_exists.mp hf.1
      rw [hw] at hs
      have hx := (ih (k, v) (List.mem_cons_self ..) w hs.1).2
      have := mapFold_ne s he hr m2 rest (acc || !eqSpec v w) (fun z hz => ih z (List.mem_cons_of_mem _ hz))
        (fun kv hkv => hk kv (List.mem_cons_of_mem _ hkv)) hs.2 hf.2
      simp only [mapFold, h1, hw, he, hr, Bool.false_eq_true, if_false, hx, captured_ok, reducer, lor_ofBool, bind, Except.bind,
        this, eqSpecMap, Bool.not_and, Bool.or_assoc]

theorem holds_eq_cmpInt (a b : Int) : RelOp.holds .eq (cmpInt a b) = decide (a = b) := by
  by_cases h : a = b
  · simp [h, cmpInt_refl, RelOp.holds]
  · have : cmpInt a b ≠ .eq := fun hc => h ((cmpInt_eq_iff a b).mp hc)
    cases hc : cmpInt a b <;> simp_all [RelOp.holds]
theorem holds_eq_cmpBool (a b : Bool) : RelOp.holds .eq (cmpBool a b) = decide (a = b) := by
  cases a <;> cases b <;> rfl
theorem holds_eq_cmpSeq (a b : List Nat) : RelOp.holds .eq (cmpSeq a b) = decide (a = b) := by
  by_cases h : a = b
  · simp [h, cmpSeq_refl, RelOp.holds]
  · have : cmpSeq a b ≠ .eq := fun hc => h ((cmpSeq_eq_iff a b).mp hc)
    cases hc : cmpSeq a b <;> simp_all [RelOp.holds]

theorem keysOfCls_mem (c : Key) : (m : List (Key × Val)) → keysOfCls c m = true → ∀ kv ∈ m, kv.1.sameCls c = true
  | [], _, _, h => by cases h
  | (k, v) :: rest, hk, kv, h => by
      simp only [keysOfCls, Bool.and_eq_true] at hk
      rcases List.mem_cons.mp h with h | h
      · subst h; exact hk.1
      · exact keysOfCls_mem c rest hk.2 kv h

theorem keys_sameCls_of_sameType (m1 m2 : List (Key × Val)) (h : sameType (.map m1) (.map m2) = true) :
    ∀ kv ∈ m1, ∀ kv' ∈ m2, kv'.1.sameCls kv.1 = true := by
  intro kv hkv kv' hkv'
  cases m1 with
  | nil => cases hkv
  | cons kv0 rest =>
    obtain ⟨k0, v0⟩ := kv0
    simp only [sameType, Bool.and_eq_true] at h
    have a := keysOfCls_mem k0 _ h.1.1 kv hkv
    have b := keysOfCls_mem k0 _ h.1.2 kv' hkv'
    rw [Key.sameCls_symm] at a
    exact Key.sameCls_trans _ _ _ b a

theorem sameTypeMap_of_sameType (m1 m2 : List (Key × Val)) (h : sameType (.map m1) (.map m2) = true) :
    sameTypeMap m1 m2 = true := by
  simp only [sameType, Bool.and_eq_true] at h
  exact h.2

theorem rel_spec (a : Val) : ElemSpec a := by
  refine Val.ind ?_ ?_ ?_ ?_ a
  · intro xs ih y hs
    cases y <;> simp [sameType] at hs
    rename_i ys
    have e1 : pyRel cmpSpecs .eq (.list xs) (.list ys) =
        contFrame listEqSpec (xs.length == ys.length) (listFold cmpSpecs listEqSpec (O.ofBool true) xs ys) := rfl
    have e2 : pyRel cmpSpecs .ne (.list xs) (.list ys) =
        contFrame listNeSpec (xs.length == ys.length) (listFold cmpSpecs listNeSpec (O.ofBool false) xs ys) := rfl
    rw [e1, e2, listFold_eq _ rfl rfl xs ys true ih hs, listFold_ne _ rfl rfl xs ys false ih hs]
    simp only [contFrame, eqSpec, bind, Except.bind, finish_ofBool]
    cases hl : (xs.length == ys.length) <;> simp [listEqSpec, listNeSpec]
  · intro m1 ih y hs
    cases y <;> simp [sameType] at hs
    rename_i m2
    have hs' : sameType (.map m1) (.map m2) = true := by simp [sameType, hs]
    have hk := keys_sameCls_of_sameType m1 m2 hs'
    have hsm := sameTypeMap_of_sameType m1 m2 hs'
    have e1 : pyRel cmpSpecs .eq (.map m1) (.map m2) =
        (do let ke ← keysEq m1 m2
            contFrame mapEqSpec ke (mapFold cmpSpecs mapEqSpec (O.ofBool true) m1 m2)) := rfl
    have e2 : pyRel cmpSpecs .ne (.map m1) (.map m2) =
        (do if mapNeSpec.singleton && m1.length == 1 && m2.length == 1 && (← keysEq m1 m2) then
              mapSingle cmpSpecs mapNeSpec m1 m2
            else do
              let ke ← keysEq m1 m2
              contFrame mapNeSpec ke (mapFold cmpSpecs mapNeSpec (O.ofBool false) m1 m2)) := rfl
    rw [e1, e2, keysEq_spec m1 m2 hk]
    simp only [bind, Except.bind]
    cases hf : allFound m1 m2
    · -- some key of m1 is missing in m2
      have hne := eqSpecMap_notFound m1 m2 hf
      constructor
      · rw [contFrame_and mapEqSpec rfl rfl _ true _ (by simp)]; simp [eqSpec, hne]
      · rw [contFrame_or mapNeSpec rfl rfl _ false _ (by simp)]; simp [eqSpec, hne]
    · have f1 := mapFold_eq mapEqSpec rfl rfl m2 m1 true ih hk hsm hf
      have f2 := mapFold_ne mapNeSpec rfl rfl m2 m1 false ih hk hsm hf
      constructor
      · rw [contFrame_and mapEqSpec rfl rfl _ (eqSpecMap m1 m2) _ (fun _ => by simpa using f1)]; simp [eqSpec]
      · have gen : contFrame mapNeSpec (m1.length == m2.length && true)
            (mapFold cmpSpecs mapNeSpec (O.ofBool false) m1 m2) = .ok (!eqSpec (.map m1) (.map m2)) := by
          rw [contFrame_or mapNeSpec rfl rfl _ (!eqSpecMap m1 m2) _ (fun _ => by simpa using f2)]; simp [eqSpec]
        by_cases h1 : (mapNeSpec.singleton && m1.length == 1 && m2.length == 1 && (m1.length == m2.length && true)) = true
        · rw [if_pos h1]
          simp only [Bool.and_eq_true, beq_iff_eq] at h1
          match m1, h1.1.1.2 with
          | [(k, v)], _ =>
            simp only [allFound, Bool.and_true] at hf
            obtain ⟨w, hw⟩ := Option.isSome_iff_exists.mp hf
            have hlk := lookup_eq_find k m2 (hk (k, v) (List.mem_cons_self ..))
            simp only [sameTypeMap, hw, Bool.and_true] at hsm
            have hx := (ih (k, v) (List.mem_cons_self ..) w hsm).2
            have hl2 := h1.1.2
            simp [mapSingle, hlk, hw, bind, Except.bind, hx, eqSpec, eqSpecMap, hl2, mapNeSpec]
        · rw [if_neg h1]; exact gen
  · intro xs _ y hs
    simp [sameType] at hs
  · intro v hleaf y hs
    unfold sameType at hs
    split at hs <;> try (simp at hs; done)
    all_goals first
      | exact ⟨by rw [show pyRel cmpSpecs .eq _ _ = .ok (RelOp.holds .eq (cmpInt _ _)) from rfl, holds_eq_cmpInt]; rfl,
               by rw [show pyRel cmpSpecs .ne _ _ = .ok (RelOp.holds .ne (cmpInt _ _)) from rfl, holds_ne, holds_eq_cmpInt]; rfl⟩
      | exact ⟨by rw [show pyRel cmpSpecs .eq _ _ = .ok (RelOp.holds .eq (cmpBool _ _)) from rfl, holds_eq_cmpBool]; rfl,
               by rw [show pyRel cmpSpecs .ne _ _ = .ok (RelOp.holds .ne (cmpBool _ _)) from rfl, holds_ne, holds_eq_cmpBool]; rfl⟩
      | exact ⟨by rw [show pyRel cmpSpecs .eq _ _ = .ok (RelOp.holds .eq (cmpSeq _ _)) from rfl, holds_eq_cmpSeq]; rfl,
               by rw [show pyRel cmpSpecs .ne _ _ = .ok (RelOp.holds .ne (cmpSeq _ _)) from rfl, holds_ne, holds_eq_cmpSeq]; rfl⟩
      | exact ⟨rfl, rfl⟩
      | (simp [Val.isLeaf] at hleaf; done)
      | skip
    rename_i d1 d2
    cases d1 <;> cases d2 <;> first
      | exact ⟨rfl, rfl⟩
      | exact ⟨by rw [show pyRel cmpSpecs .eq _ _ = .ok (RelOp.holds .eq (cmpInt _ _)) from rfl, holds_eq_cmpInt]; rfl,
               by rw [show pyRel cmpSpecs .ne _ _ = .ok (RelOp.holds .ne (cmpInt _ _)) from rfl, holds_ne, holds_eq_cmpInt]; rfl⟩



/-! ### `eqSpec` is symmetric and reflexive on well-formed values -/


theorem subset_of_nodup_length_le {α} [DecidableEq α] : (l1 l2 : List α) → l1.Nodup → l1 ⊆ l2 → l2.length ≤ l1.length → l2 ⊆ l1
  | [], l2, _, _, hlen => by
      have : l2 = [] := List.eq_nil_of_length_eq_zero (by simpa using hlen)
      simp [this]
  | a :: t, l2, hn, hsub, hlen => by
      have hn' := List.nodup_cons.mp hn
      have ha : a ∈ l2 := hsub (List.mem_cons_self ..)
      have hsub' : t ⊆ l2.erase a := by
        intro x hx
        have hxa : x ≠ a := fun h => hn'.1 (h ▸ hx)
        exact (List.mem_erase_of_ne hxa).mpr (hsub (List.mem_cons_of_mem _ hx))
      have hlen' : (l2.erase a).length ≤ t.length := by
        rw [List.length_erase_of_mem ha]; simp at hlen; omega
      have ih := subset_of_nodup_length_le t (l2.erase a) hn'.2 hsub' hlen'
      intro x hx
      by_cases hxa : x = a
      · simp [hxa]
      · exact List.mem_cons_of_mem _ (ih ((List.mem_erase_of_ne hxa).mpr hx))

def keysOf (m : List (Key × Val)) : List Key := m.map (·.1)

theorem keysNodup_iff : (m : List (Key × Val)) → (keysNodup m = true ↔ (keysOf m).Nodup)
  | [] => by simp [keysNodup, keysOf]
  | (k, v) :: rest => by
      simp only [keysNodup, keysOf, List.map_cons, List.nodup_cons, Bool.and_eq_true, Bool.not_eq_true', List.any_eq_false]
      rw [keysNodup_iff rest]
      simp [keysOf]
      intro _
      constructor
      · intro h x hx; exact h k x hx rfl
      · intro h a b hab hak; subst hak; exact h b hab

theorem find?_mem : (m : List (Key × Val)) → (k : Key) → (w : Val) → find? k m = some w → (k, w) ∈ m
  | [], _, _, h => by simp [find?] at h
  | (k', v) :: rest, k, w, h => by
      simp only [find?] at h
      by_cases hk : k' = k
      · simp [hk] at h; simp [hk, h]
      · simp [hk] at h; exact List.mem_cons_of_mem _ (find?_mem rest k w h)

theorem find?_of_mem : (m : List (Key × Val)) → (keysOf m).Nodup → (k : Key) → (w : Val) → (k, w) ∈ m → find? k m = some w
  | [], _, _, _, h => by cases h
  | (k', v) :: rest, hn, k, w, h => by
      simp only [keysOf, List.map_cons, List.nodup_cons] at hn
      simp only [find?]
      rcases List.mem_cons.mp h with h | h
      · cases h; simp
      · have : k' ≠ k := by
          intro hk; apply hn.1; rw [hk]; exact List.mem_map.mpr ⟨(k, w), h, rfl⟩
        simp [this]; exact find?_of_mem rest hn.2 k w h

theorem find?_isSome_iff (m : List (Key × Val)) (k : Key) : (∃ w, find? k m = some w) ↔ k ∈ keysOf m := by
  induction m with
  | nil => simp [find?, keysOf]
  | cons kv rest ih =>
    obtain ⟨k', v⟩ := kv
    simp only [find?, keysOf, List.map_cons, List.mem_cons]
    by_cases hk : k' = k
    · simp [hk]
    · simp only [hk, if_false]
      rw [ih]
      constructor
      · intro h; exact Or.inr h
      · intro h; rcases h with h | h
        · exact absurd h.symm hk
        · exact h

theorem eqSpecMap_iff : (m1 m2 : List (Key × Val)) →
    (eqSpecMap m1 m2 = true ↔ ∀ kv ∈ m1, ∃ w, find? kv.1 m2 = some w ∧ eqSpec kv.2 w = true)
  | [], _ => by simp [eqSpecMap]
  | (k, v) :: rest, m2 => by
      simp only [eqSpecMap, Bool.and_eq_true, List.mem_cons, forall_eq_or_imp, eqSpecMap_iff rest m2]
      constructor
      · rintro ⟨h1, h2⟩
        refine ⟨?_, h2⟩
        cases hf : find? k m2 <;> simp_all
      · rintro ⟨⟨w, hw, he⟩, h2⟩
        exact ⟨by simp [hw, he], h2⟩

theorem wfList_mem : (xs : List Val) → wfList xs = true → ∀ x ∈ xs, x.wf = true
  | [], _, _, h => by cases h
  | y :: ys, hw, x, h => by
      simp only [wfList, Bool.and_eq_true] at hw
      rcases List.mem_cons.mp h with h | h
      · exact h ▸ hw.1
      · exact wfList_mem ys hw.2 x h
theorem wfMap_mem : (m : List (Key × Val)) → wfMap m = true → ∀ kv ∈ m, kv.2.wf = true
  | [], _, _, h => by cases h
  | (k, v) :: rest, hw, kv, h => by
      simp only [wfMap, Bool.and_eq_true] at hw
      rcases List.mem_cons.mp h with h | h
      · exact h ▸ hw.1
      · exact wfMap_mem rest hw.2 kv h

theorem eqSpecList_symm : (xs ys : List Val) → (∀ x ∈ xs, ∀ y, eqSpec x y = eqSpec y x) → eqSpecList xs ys = eqSpecList ys xs
  | [], [], _ => rfl
  | [], _ :: _, _ => rfl
  | _ :: _, [], _ => rfl
  | x :: xs, y :: ys, ih => by
      simp only [eqSpecList]
      rw [ih x (List.mem_cons_self ..) y, eqSpecList_symm xs ys (fun z hz => ih z (List.mem_cons_of_mem _ hz))]

/-- one direction of map symmetry; `hsym` is symmetry on the values of either side -/
theorem eqSpecMap_swap (m1 m2 : List (Key × Val)) (hn1 : (keysOf m1).Nodup) (hn2 : (keysOf m2).Nodup)
    (hlen : m1.length = m2.length)
    (hsym : ∀ kv ∈ m1, ∀ kw ∈ m2, eqSpec kv.2 kw.2 = true → eqSpec kw.2 kv.2 = true)
    (h : eqSpecMap m1 m2 = true) : eqSpecMap m2 m1 = true := by
  rw [eqSpecMap_iff] at h ⊢
  have hsub : keysOf m1 ⊆ keysOf m2 := by
    intro k hk
    obtain ⟨kv, hkv, rfl⟩ := List.mem_map.mp hk
    obtain ⟨w, hw, _⟩ := h kv hkv
    exact (find?_isSome_iff m2 kv.1).mp ⟨w, hw⟩
  have hsup : keysOf m2 ⊆ keysOf m1 :=
    subset_of_nodup_length_le _ _ hn1 hsub (by simp [keysOf, hlen])
  intro kw hkw
  have hk : kw.1 ∈ keysOf m1 := hsup (List.mem_map.mpr ⟨kw, hkw, rfl⟩)
  obtain ⟨v, hv⟩ := (find?_isSome_iff m1 kw.1).mpr hk
  have hmem := find?_mem m1 kw.1 v hv
  obtain ⟨w', hw', he⟩ := h (kw.1, v) hmem
  have : find? kw.1 m2 = some kw.2 := find?_of_mem m2 hn2 kw.1 kw.2 (by simpa using hkw)
  rw [this] at hw'
  cases hw'
  exact ⟨v, hv, hsym (kw.1, v) hmem kw hkw he⟩

def SymmAt (a : Val) : Prop := ∀ b, a.wf = true → b.wf = true → eqSpec a b = eqSpec b a

theorem wf_map_parts (m : List (Key × Val)) (h : (Val.map m).wf = true) : (keysOf m).Nodup ∧ wfMap m = true := by
  simp only [Val.wf, Bool.and_eq_true] at h
  exact ⟨(keysNodup_iff m).mp h.1.2, h.2⟩

theorem eqSpec_clsne (a b : Val) (h : clsOf a ≠ clsOf b) : eqSpec a b = false := by
  unfold eqSpec
  split <;> simp_all [clsOf]

theorem eqSpec_dbl_symm (d1 d2 : Dbl) : eqSpec (.dbl d1) (.dbl d2) = eqSpec (.dbl d2) (.dbl d1) := by
  cases d1 <;> cases d2 <;> simp [eqSpec, eq_comm]

theorem eqSpec_symm (a : Val) : SymmAt a := by
  refine Val.ind ?_ ?_ ?_ ?_ a
  · intro xs ih b ha hb
    by_cases hc : clsOf (.list xs) = clsOf b
    · cases b <;> simp [clsOf] at hc
      rename_i ys
      simp only [eqSpec]
      have hxs := wfList_mem xs (by simpa [Val.wf] using ha)
      have hys := wfList_mem ys (by simpa [Val.wf] using hb)
      by_cases hl : xs.length = ys.length
      · have hz : ∀ (xs ys : List Val), (∀ x ∈ xs, SymmAt x) → (∀ x ∈ xs, x.wf = true) → (∀ y ∈ ys, y.wf = true) →
            eqSpecList xs ys = eqSpecList ys xs := by
          intro xs
          induction xs with
          | nil => intro ys _ _ _; cases ys <;> rfl
          | cons x xs ihx =>
            intro ys ih hxs hys
            cases ys with
            | nil => rfl
            | cons y ys =>
              simp only [eqSpecList]
              rw [ih x (List.mem_cons_self ..) y (hxs x (List.mem_cons_self ..)) (hys y (List.mem_cons_self ..)),
                ihx ys (fun z hz => ih z (List.mem_cons_of_mem _ hz)) (fun z hz => hxs z (List.mem_cons_of_mem _ hz))
                  (fun z hz => hys z (List.mem_cons_of_mem _ hz))]
        simp [hl, hz xs ys ih hxs hys]
      · have hl' : ¬ ys.length = xs.length := fun h => hl h.symm
        simp [beq_false_of_ne hl, beq_false_of_ne hl']
    · rw [eqSpec_clsne _ _ hc, eqSpec_clsne _ _ (Ne.symm hc)]
  · intro m1 ih b ha hb
    by_cases hc : clsOf (.map m1) = clsOf b
    · cases b <;> simp [clsOf] at hc
      rename_i m2
      simp only [eqSpec]
      obtain ⟨hn1, hw1⟩ := wf_map_parts m1 ha
      obtain ⟨hn2, hw2⟩ := wf_map_parts m2 hb
      have hv1 := wfMap_mem m1 hw1
      have hv2 := wfMap_mem m2 hw2
      by_cases hl : m1.length = m2.length
      · have d1 : eqSpecMap m1 m2 = true → eqSpecMap m2 m1 = true :=
          eqSpecMap_swap m1 m2 hn1 hn2 hl (fun kv hkv kw hkw he => by
            rw [← ih kv hkv kw.2 (hv1 kv hkv) (hv2 kw hkw)]; exact he)
        have d2 : eqSpecMap m2 m1 = true → eqSpecMap m1 m2 = true :=
          eqSpecMap_swap m2 m1 hn2 hn1 hl.symm (fun kw hkw kv hkv he => by
            rw [ih kv hkv kw.2 (hv1 kv hkv) (hv2 kw hkw)]; exact he)
        have : eqSpecMap m1 m2 = eqSpecMap m2 m1 := by
          cases h1 : eqSpecMap m1 m2 <;> cases h2 : eqSpecMap m2 m1 <;> simp_all
        simp [hl, this]
      · have hl' : ¬ m2.length = m1.length := fun h => hl h.symm
        simp [beq_false_of_ne hl, beq_false_of_ne hl']
    · rw [eqSpec_clsne _ _ hc, eqSpec_clsne _ _ (Ne.symm hc)]
  · intro xs _ b ha _
    simp [Val.wf] at ha
  · intro v hleaf b _ _
    by_cases hc : clsOf v = clsOf b
    · cases v <;> cases b <;> simp [clsOf] at hc <;>
        first | (simp [eqSpec, eq_comm]; done) | exact eqSpec_dbl_symm _ _ | (simp [Val.isLeaf] at hleaf; done)
    · rw [eqSpec_clsne _ _ hc, eqSpec_clsne _ _ (Ne.symm hc)]

theorem plainList_mem : (xs : List Val) → plainList xs = true → ∀ x ∈ xs, x.plain = true
  | [], _, _, h => by cases h
  | y :: ys, hw, x, h => by
      simp only [plainList, Bool.and_eq_true] at hw
      rcases List.mem_cons.mp h with h | h
      · exact h ▸ hw.1
      · exact plainList_mem ys hw.2 x h
theorem plainMap_mem : (m : List (Key × Val)) → plainMap m = true → ∀ kv ∈ m, kv.2.plain = true
  | [], _, _, h => by cases h
  | (k, v) :: rest, hw, kv, h => by
      simp only [plainMap, Bool.and_eq_true] at hw
      rcases List.mem_cons.mp h with h | h
      · exact h ▸ hw.1
      · exact plainMap_mem rest hw.2 kv h

theorem sameTypeList_self : (xs : List Val) → (∀ x ∈ xs, sameType x x = true) → sameTypeList xs xs = true
  | [], _ => rfl
  | x :: xs, h => by
      simp only [sameTypeList, Bool.and_eq_true]
      exact ⟨h x (List.mem_cons_self ..), sameTypeList_self xs (fun z hz => h z (List.mem_cons_of_mem _ hz))⟩
theorem eqSpecList_self : (xs : List Val) → (∀ x ∈ xs, eqSpec x x = true) → eqSpecList xs xs = true
  | [], _ => rfl
  | x :: xs, h => by
      simp only [eqSpecList, Bool.and_eq_true]
      exact ⟨h x (List.mem_cons_self ..), eqSpecList_self xs (fun z hz => h z (List.mem_cons_of_mem _ hz))⟩
theorem sameTypeMap_sub (m : List (Key × Val)) (hn : (keysOf m).Nodup) :
    (sub : List (Key × Val)) → (∀ kv ∈ sub, kv ∈ m) → (∀ kv ∈ sub, sameType kv.2 kv.2 = true) → sameTypeMap sub m = true
  | [], _, _ => rfl
  | (k, v) :: rest, hsub, h => by
      have hf := find?_of_mem m hn k v (hsub (k, v) (List.mem_cons_self ..))
      simp only [sameTypeMap, hf, Bool.and_eq_true]
      exact ⟨h (k, v) (List.mem_cons_self ..), sameTypeMap_sub m hn rest (fun z hz => hsub z (List.mem_cons_of_mem _ hz))
        (fun z hz => h z (List.mem_cons_of_mem _ hz))⟩
theorem eqSpecMap_sub (m : List (Key × Val)) (hn : (keysOf m).Nodup) :
    (sub : List (Key × Val)) → (∀ kv ∈ sub, kv ∈ m) → (∀ kv ∈ sub, eqSpec kv.2 kv.2 = true) → eqSpecMap sub m = true
  | [], _, _ => rfl
  | (k, v) :: rest, hsub, h => by
      have hf := find?_of_mem m hn k v (hsub (k, v) (List.mem_cons_self ..))
      simp only [eqSpecMap, hf, Bool.and_eq_true]
      exact ⟨h (k, v) (List.mem_cons_self ..), eqSpecMap_sub m hn rest (fun z hz => hsub z (List.mem_cons_of_mem _ hz))
        (fun z hz => h z (List.mem_cons_of_mem _ hz))⟩

def ReflAt (v : Val) : Prop := v.wf = true → (sameType v v = true ∧ (v.plain = true → eqSpec v v = true))

theorem refl_spec (a : Val) : ReflAt a := by
  refine Val.ind ?_ ?_ ?_ ?_ a
  · intro xs ih hw
    have hxs := wfList_mem xs (by simpa [Val.wf] using hw)
    refine ⟨?_, fun hp => ?_⟩
    · simp only [sameType]
      exact sameTypeList_self xs (fun x hx => (ih x hx (hxs x hx)).1)
    · have hps := plainList_mem xs (by simpa [Val.plain] using hp)
      simp only [eqSpec, beq_self_eq_true, Bool.true_and]
      exact eqSpecList_self xs (fun x hx => (ih x hx (hxs x hx)).2 (hps x hx))
  · intro m ih hw
    obtain ⟨hn, hwm⟩ := wf_map_parts m hw
    have hv := wfMap_mem m hwm
    refine ⟨?_, fun hp => ?_⟩
    · have hst := sameTypeMap_sub m hn m (fun _ h => h) (fun kv hkv => (ih kv hkv (hv kv hkv)).1)
      cases m with
      | nil => rfl
      | cons kv rest =>
        obtain ⟨k, v⟩ := kv
        simp only [Val.wf, Bool.and_eq_true] at hw
        simp only [sameType, hw.1.1, hst, Bool.and_self]
    · have hps := plainMap_mem m (by simpa [Val.plain] using hp)
      simp only [eqSpec, beq_self_eq_true, Bool.true_and]
      exact eqSpecMap_sub m hn m (fun _ h => h) (fun kv hkv => (ih kv hkv (hv kv hkv)).2 (hps kv hkv))
  · intro xs _ hw
    simp [Val.wf] at hw
  · intro v hleaf hw
    cases v <;> first
      | (refine ⟨rfl, fun _ => ?_⟩; simp [eqSpec]; done)
      | (simp [Val.isLeaf] at hleaf; done)
      | (simp [Val.wf] at hw; done)
      | skip
    rename_i d
    cases d
    · exact ⟨rfl, fun hp => by simp [Val.plain] at hp⟩
    · exact ⟨rfl, fun _ => by simp [eqSpec]⟩


/-! ### ordered scalars -/

theorem pyRel_ordered (op : RelOp) (a b : Val) (h : sameOrdered a b = true) :
    pyRel cmpSpecs op a b = .ok (op.holds (ocmp a b)) := by
  unfold sameOrdered at h
  split at h <;> first | (cases op <;> rfl) | (simp at h)

theorem ocmp_refl (a : Val) (h : a.ordered = true) : ocmp a a = .eq := by
  unfold Val.ordered at h
  split at h <;> first | (simp [ocmp, cmpInt_refl, cmpBool_refl, cmpSeq_refl]; done) | (simp at h)

theorem ocmp_swap (a b : Val) (h : sameOrdered a b = true) : ocmp b a = (ocmp a b).swap := by
  unfold sameOrdered at h
  split at h <;> first | exact cmpInt_swap _ _ | exact cmpBool_swap _ _ | exact cmpSeq_swap _ _ | (simp at h)

theorem sameOrdered_symm (a b : Val) (h : sameOrdered a b = true) : sameOrdered b a = true := by
  unfold sameOrdered at h
  split at h <;> first | rfl | (simp at h)

theorem sameOrdered_trans (a b c : Val) (h1 : sameOrdered a b = true) (h2 : sameOrdered b c = true) : sameOrdered a c = true := by
  unfold sameOrdered at h1
  split at h1 <;> first | (simp at h1; done) | (unfold sameOrdered at h2; split at h2 <;> first | rfl | (simp at h2; done) | simp_all)

theorem ocmp_eq_iff_eqSpec (a b : Val) (h : sameOrdered a b = true) : (ocmp a b = .eq) ↔ eqSpec a b = true := by
  unfold sameOrdered at h
  split at h <;> first
    | (simp [ocmp, eqSpec, cmpInt_eq_iff, cmpBool_eq_iff, cmpSeq_eq_iff]; done)
    | (simp at h)

theorem ocmp_trans (a b c : Val) (h1 : sameOrdered a b = true) (h2 : sameOrdered b c = true)
    (l1 : ocmp a b = .lt) (l2 : ocmp b c = .lt) : ocmp a c = .lt := by
  unfold sameOrdered at h1
  split at h1 <;> first
    | (simp at h1; done)
    | (unfold sameOrdered at h2
       split at h2 <;> first
        | (simp at h2; done)
        | (simp only [ocmp] at *; first | exact cmpInt_trans _ _ _ l1 l2 | exact cmpBool_trans _ _ _ l1 l2 | exact cmpSeq_trans _ _ _ l1 l2)
        | simp_all)


/-! ### round 2: `eqSpec` is transitive (any nesting); equal ordered values are interchangeable in every comparison -/

theorem eqSpecList_trans : (xs ys zs : List Val) →
    (∀ x ∈ xs, ∀ y z, eqSpec x y = true → eqSpec y z = true → eqSpec x z = true) →
    xs.length = ys.length → eqSpecList xs ys = true → eqSpecList ys zs = true → eqSpecList xs zs = true
  | [], _, _, _, _, _, _ => by simp [eqSpecList]
  | _ :: _, [], _, _, hl, _, _ => by simp at hl
  | _ :: _, _ :: _, [], _, _, _, _ => by simp [eqSpecList]
  | x :: xs, y :: ys, z :: zs, ih, hl, h1, h2 => by
      simp only [eqSpecList, Bool.and_eq_true] at h1 h2 ⊢
      exact ⟨ih x (List.mem_cons_self ..) y z h1.1 h2.1,
        eqSpecList_trans xs ys zs (fun w hw => ih w (List.mem_cons_of_mem _ hw)) (by simpa using hl) h1.2 h2.2⟩

def TransAt (a : Val) : Prop := ∀ b c, eqSpec a b = true → eqSpec b c = true → eqSpec a c = true

theorem eqSpec_trans (a : Val) : TransAt a := by
  refine Val.ind ?_ ?_ ?_ ?_ a
  · intro xs ih b c h1 h2
    cases b <;> simp only [eqSpec, Bool.false_eq_true] at h1
    rename_i ys
    cases c <;> simp only [eqSpec, Bool.false_eq_true] at h2
    rename_i zs
    simp only [eqSpec, Bool.and_eq_true, beq_iff_eq] at h1 h2 ⊢
    exact ⟨h1.1.trans h2.1, eqSpecList_trans xs ys zs ih h1.1 h1.2 h2.2⟩
  · intro m1 ih b c h1 h2
    cases b <;> simp only [eqSpec, Bool.false_eq_true] at h1
    rename_i m2
    cases c <;> simp only [eqSpec, Bool.false_eq_true] at h2
    rename_i m3
    simp only [eqSpec, Bool.and_eq_true, beq_iff_eq, eqSpecMap_iff] at h1 h2 ⊢
    refine ⟨h1.1.trans h2.1, fun kv hkv => ?_⟩
    obtain ⟨w, hw, e1⟩ := h1.2 kv hkv
    obtain ⟨u, hu, e2⟩ := h2.2 (kv.1, w) (find?_mem m2 kv.1 w hw)
    exact ⟨u, hu, ih kv hkv w u e1 e2⟩
  · intro xs _ b c h1 _
    simp [eqSpec] at h1
  · intro v hleaf b c h1 h2
    have hc1 : clsOf v = clsOf b := by
      by_cases hc : clsOf v = clsOf b
      · exact hc
      · rw [eqSpec_clsne _ _ hc] at h1; cases h1
    have hc2 : clsOf b = clsOf c := by
      by_cases hc : clsOf b = clsOf c
      · exact hc
      · rw [eqSpec_clsne _ _ hc] at h2; cases h2
    cases v <;> cases b <;> simp [clsOf] at hc1 <;> cases c <;> simp [clsOf] at hc2 <;>
      first
        | (simp [Val.isLeaf] at hleaf; done)
        | (simp_all [eqSpec]; done)
        | skip
    rename_i d1 d2 d3
    cases d1 <;> cases d2 <;> cases d3 <;> simp_all [eqSpec]

theorem ocmp_congr_left (a b c : Val) (h1 : sameOrdered a b = true) (h2 : sameOrdered b c = true)
    (e : ocmp a b = .eq) : ocmp a c = ocmp b c := by
  unfold sameOrdered at h1
  split at h1 <;> first
    | (simp at h1; done)
    | (unfold sameOrdered at h2
       split at h2 <;> first
        | (simp at h2; done)
        | (simp only [ocmp] at *; first
            | (rw [(cmpInt_eq_iff _ _).mp e]; done) | (rw [(cmpBool_eq_iff _ _).mp e]; done) | (rw [(cmpSeq_eq_iff _ _).mp e]; done))
        | simp_all)

theorem ocmp_congr_right (a b c : Val) (h1 : sameOrdered a b = true) (h2 : sameOrdered b c = true)
    (e : ocmp b c = .eq) : ocmp a c = ocmp a b := by
  unfold sameOrdered at h1
  split at h1 <;> first
    | (simp at h1; done)
    | (unfold sameOrdered at h2
       split at h2 <;> first
        | (simp at h2; done)
        | (simp only [ocmp] at *; first
            | (rw [(cmpInt_eq_iff _ _).mp e]; done) | (rw [(cmpBool_eq_iff _ _).mp e]; done) | (rw [(cmpSeq_eq_iff _ _).mp e]; done))
        | simp_all)

/-- `<=` of the mathematical order is transitive -/
theorem ocmp_le_trans (a b c : Val) (h1 : sameOrdered a b = true) (h2 : sameOrdered b c = true)
    (l1 : ocmp a b ≠ .gt) (l2 : ocmp b c ≠ .gt) : ocmp a c ≠ .gt := by
  cases e1 : ocmp a b with
  | gt => exact absurd e1 l1
  | eq => rw [ocmp_congr_left a b c h1 h2 e1]; exact l2
  | lt =>
    cases e2 : ocmp b c with
    | gt => exact absurd e2 l2
    | eq => rw [ocmp_congr_right a b c h1 h2 e2, e1]; simp
    | lt => rw [ocmp_trans a b c h1 h2 e1 e2]; simp

/-! ### round 2: a value equal to `b` has every type `b` has (so transitivity of `==` needs no third typing hypothesis) -/

theorem sameType_cls (a b : Val) (h : sameType a b = true) : clsOf a = clsOf b := by
  by_cases hc : clsOf a = clsOf b
  · exact hc
  · exfalso
    cases a <;> cases b <;> simp [clsOf] at hc <;> simp [sameType] at h

theorem keysOfCls_of_mem (c : Key) : (m : List (Key × Val)) → (∀ kv ∈ m, kv.1.sameCls c = true) → keysOfCls c m = true
  | [], _ => rfl
  | (k, v) :: rest, h => by
      simp only [keysOfCls, Bool.and_eq_true]
      exact ⟨h (k, v) (List.mem_cons_self ..), keysOfCls_of_mem c rest (fun z hz => h z (List.mem_cons_of_mem _ hz))⟩

theorem sameTypeMap_iff : (m1 m2 : List (Key × Val)) →
    (sameTypeMap m1 m2 = true ↔ ∀ kv ∈ m1, ∀ w, find? kv.1 m2 = some w → sameType kv.2 w = true)
  | [], _ => by simp [sameTypeMap]
  | (k, v) :: rest, m2 => by
      simp only [sameTypeMap, Bool.and_eq_true, List.mem_cons, forall_eq_or_imp, sameTypeMap_iff rest m2]
      constructor
      · rintro ⟨h1, h2⟩
        refine ⟨?_, h2⟩
        intro w hw
        simpa [hw] using h1
      · rintro ⟨h1, h2⟩
        refine ⟨?_, h2⟩
        cases hf : find? k m2 with
        | none => rfl
        | some w => exact h1 w hf

def STAt (a : Val) : Prop := ∀ b c, eqSpec a b = true → sameType b c = true → sameType a c = true

theorem sameTypeList_of_eq : (xs ys zs : List Val) → (∀ x ∈ xs, STAt x) → xs.length = ys.length →
    eqSpecList xs ys = true → sameTypeList ys zs = true → sameTypeList xs zs = true
  | [], _, _, _, _, _, _ => by simp [sameTypeList]
  | _ :: _, [], _, _, hl, _, _ => by simp at hl
  | _ :: _, _ :: _, [], _, _, _, _ => by simp [sameTypeList]
  | x :: xs, y :: ys, z :: zs, ih, hl, h1, h2 => by
      simp only [eqSpecList, sameTypeList, Bool.and_eq_true] at h1 h2 ⊢
      exact ⟨ih x (List.mem_cons_self ..) y z h1.1 h2.1,
        sameTypeList_of_eq xs ys zs (fun w hw => ih w (List.mem_cons_of_mem _ hw)) (by simpa using hl) h1.2 h2.2⟩

/-- a value equal to `b` is of every type `b` is of -/
theorem sameType_of_eqSpec (a : Val) : STAt a := by
  refine Val.ind ?_ ?_ ?_ ?_ a
  · intro xs ih b c h1 h2
    cases b <;> simp only [eqSpec, Bool.false_eq_true] at h1
    rename_i ys
    cases c <;> simp only [sameType, Bool.false_eq_true] at h2
    rename_i zs
    simp only [Bool.and_eq_true, beq_iff_eq] at h1
    simp only [sameType]
    exact sameTypeList_of_eq xs ys zs ih h1.1 h1.2 h2
  · intro m1 ih b c h1 h2
    cases b <;> simp only [eqSpec, Bool.false_eq_true] at h1
    rename_i m2
    cases c <;> simp only [sameType, Bool.false_eq_true] at h2
    rename_i m3
    simp only [Bool.and_eq_true, beq_iff_eq, eqSpecMap_iff] at h1
    simp only [sameType, Bool.and_eq_true] at h2 ⊢
    obtain ⟨hl, hall⟩ := h1
    refine ⟨?_, ?_⟩
    · cases m1 with
      | nil =>
        cases m2 with
        | nil => exact h2.1
        | cons _ _ => simp at hl
      | cons kv1 rest1 =>
        cases m2 with
        | nil => simp at hl
        | cons kv2 rest2 =>
          obtain ⟨k1, v1⟩ := kv1
          obtain ⟨k2, v2⟩ := kv2
          simp only [Bool.and_eq_true] at h2 ⊢
          have hk : ∀ kv ∈ (k1, v1) :: rest1, kv.1.sameCls k2 = true := by
            intro kv hkv
            obtain ⟨w, hw, _⟩ := hall kv hkv
            exact keysOfCls_mem k2 _ h2.1.1 (kv.1, w) (find?_mem _ kv.1 w hw)
          have h12 : k1.sameCls k2 = true := hk (k1, v1) (List.mem_cons_self ..)
          have h21 : k2.sameCls k1 = true := by rw [Key.sameCls_symm]; exact h12
          refine ⟨keysOfCls_of_mem k1 _ (fun kv hkv => Key.sameCls_trans _ _ _ (hk kv hkv) h21),
            keysOfCls_of_mem k1 _ (fun kv hkv => Key.sameCls_trans _ _ _ (keysOfCls_mem k2 _ h2.1.2 kv hkv) h21)⟩
    · rw [sameTypeMap_iff]
      intro kv hkv u hu
      obtain ⟨w, hw, e⟩ := hall kv hkv
      exact ih kv hkv w u e ((sameTypeMap_iff m2 m3).mp h2.2 (kv.1, w) (find?_mem m2 kv.1 w hw) u hu)
  · intro xs _ b c h1 _
    simp [eqSpec] at h1
  · intro v hleaf b c h1 h2
    have hc1 : clsOf v = clsOf b := by
      by_cases hc : clsOf v = clsOf b
      · exact hc
      · rw [eqSpec_clsne _ _ hc] at h1; cases h1
    have hc2 := sameType_cls b c h2
    cases v <;> cases b <;> simp [clsOf] at hc1 <;> cases c <;> simp [clsOf] at hc2 <;>
      first
        | (simp [Val.isLeaf] at hleaf; done)
        | (simp [sameType]; done)
        | (simp [eqSpec] at h1; done)
end Cel
