/-
  Cel.Lemmas.Funcs — helper definitions and lemmas for C14.

  * the *specification* of an evaluation with host functions: `den` (the value, a pure function of the expression)
    and `sites` (the call log: which call sites are reached, in order, with which evaluated arguments), both defined
    by recursion over the expression without any logging machinery;
  * `evalI_spec`: the interpreter model computes exactly (`den`, `sites`) — by induction over ALL expressions;
  * `evalC_agree`: the transpiled program's outcome agrees with `den` (by induction over all expressions);
  * binding lemmas (`localOfList_nodup`), abstraction of values to C02's outcome classes (`cls`).
-/
import Cel.Model.Funcs
import Cel.Lemmas.Logic
namespace Cel.Funcs
open Cel

@[simp] theorem Out.bind_ok {α β} (a : α) (l : Log) (f : α → Out β) :
    Out.bind (.ok a, l) f = ((f a).1, l ++ (f a).2) := rfl
@[simp] theorem Out.bind_error {α β} (e : Exc) (l : Log) (f : α → Out β) :
    Out.bind ((.error e, l) : Out α) f = (.error e, l) := rfl
@[simp] theorem Out.pure_bind {α β} (a : α) (f : α → Out β) : Out.bind (Out.pure a) f = f a := by
  simp [Out.pure]

theorem Out.bind_assoc {α β γ} (x : Out α) (f : α → Out β) (g : β → Out γ) :
    Out.bind (Out.bind x f) g = Out.bind x (fun a => Out.bind (f a) g) := by
  obtain ⟨r, l⟩ := x
  cases r with
  | error e => rfl
  | ok a =>
    simp only [Out.bind_ok]
    obtain ⟨r2, l2⟩ := f a
    cases r2 with
    | error e => simp
    | ok b => simp [List.append_assoc]

/-- no host function raises a class that the call site does not convert -/
def Tame (cx : Ctx) : Prop :=
  ∀ f fn vs e, cx.fns f = some fn → fn.fn vs = .raise e → catches cx.callCaught e = true

/-- a `PyM` result that cannot be an exception any more -/
def total (r : PyM Val) : Val := match r with | .ok v => v | .error _ => .err

def applyV (fn : HostFn) (vs : List Val) : Val := match fn vs with | .ret v => v | .raise _ => .err

/-- value of `name(vs)` -/
def denCall (cx : Ctx) (f : String) (vs : List Val) : Val :=
  match cx.fns f with
  | none => .err
  | some fn => if firstErr vs then .err else applyV fn.fn vs

/-- log contribution of the call site itself: exactly one entry, with the evaluated arguments, iff it is applied -/
def callSite (cx : Ctx) (f : String) (vs : List Val) : Log :=
  match cx.fns f with
  | none => []
  | some fn => if firstErr vs then [] else fn.logOf f vs

def orT (x y : Val) : Val := total (catchAs [.typeError] (orV x y))
def andT (x y : Val) : Val := total (catchAs [.typeError] (andV x y))
def notT (x : Val) : Val := total (catchAs [.typeError, .valueError] (notV x))
def condT (c x y : Val) : Val := total (catchAs [.typeError] (condV c x y))
def addT (x y : Val) : Val := total (catchAs [.typeError, .valueError, .overflow] (addV x y))
def ltT (x y : Val) : Val := total (catchAs [.typeError] (ltV x y))

def foldV (body : Val → Val) (op : Val → Val → Val) : Val → List Val → Val
  | acc, [] => acc
  | acc, v :: vs => foldV body op (op acc (body v)) vs

def mapV (body : Val → Val) : List Val → Option (List Val)
  | [] => some []
  | v :: vs => if (body v).isErr then none else (mapV body vs).map (body v :: ·)

def mapSites (body : Val → Val) (s : Val → Log) : List Val → Log
  | [] => []
  | v :: vs => s v ++ (if (body v).isErr then [] else mapSites body s vs)

def allSites (s : Val → Log) : List Val → Log
  | [] => []
  | v :: vs => s v ++ allSites s vs

mutual
def den (cx : Ctx) (env : List Val) : Expr → Val
  | .lit v => v
  | .var i => match env[i]? with | some v => v | none => .err
  | .call f args => denCall cx f (dens cx env args)
  | .method recv f args => denCall cx f (den cx env recv :: dens cx env args)
  | .or a b => orT (den cx env a) (den cx env b)
  | .and a b => andT (den cx env a) (den cx env b)
  | .not a => notT (den cx env a)
  | .cond c x y =>
      if (den cx env c).truthy then condT (den cx env c) (den cx env x) (.bool false)
      else condT (den cx env c) (.bool false) (den cx env y)
  | .add a b => addT (den cx env a) (den cx env b)
  | .lt a b => ltT (den cx env a) (den cx env b)
  | .all src body => match den cx env src with
      | .list vs => foldV (fun v => den cx (v :: env) body) andT (.bool true) vs
      | _ => .err
  | .exists_ src body => match den cx env src with
      | .list vs => foldV (fun v => den cx (v :: env) body) orT (.bool false) vs
      | _ => .err
  | .map src body => match den cx env src with
      | .list vs => match mapV (fun v => den cx (v :: env) body) vs with
          | some ws => .list ws
          | none => .err
      | _ => .err
def dens (cx : Ctx) (env : List Val) : List Expr → List Val
  | [] => []
  | e :: es => den cx env e :: dens cx env es
end

mutual
def sites (cx : Ctx) (env : List Val) : Expr → Log
  | .lit _ => []
  | .var _ => []
  | .call f args => sitess cx env args ++ callSite cx f (dens cx env args)
  | .method recv f args =>
      sites cx env recv ++ (sitess cx env args ++ callSite cx f (den cx env recv :: dens cx env args))
  | .or a b => sites cx env a ++ sites cx env b
  | .and a b => sites cx env a ++ sites cx env b
  | .not a => sites cx env a
  | .cond c x y => sites cx env c ++ (if (den cx env c).truthy then sites cx env x else sites cx env y)
  | .add a b => sites cx env a ++ sites cx env b
  | .lt a b => sites cx env a ++ sites cx env b
  | .all src body => sites cx env src ++ (match den cx env src with
      | .list vs => allSites (fun v => sites cx (v :: env) body) vs
      | _ => [])
  | .exists_ src body => sites cx env src ++ (match den cx env src with
      | .list vs => allSites (fun v => sites cx (v :: env) body) vs
      | _ => [])
  | .map src body => sites cx env src ++ (match den cx env src with
      | .list vs => mapSites (fun v => den cx (v :: env) body) (fun v => sites cx (v :: env) body) vs
      | _ => [])
def sitess (cx : Ctx) (env : List Val) : List Expr → Log
  | [] => []
  | e :: es => sites cx env e ++ sitess cx env es
end

theorem catchAs_total (cs : List Exc) (r : PyM Val) (h : ∀ e, r = .error e → catches cs e = true) :
    catchAs cs r = .ok (total (catchAs cs r)) := by
  cases r with
  | ok v => rfl
  | error e => simp [catchAs, h e rfl, total]

theorem orV_err {x y : Val} {e : Exc} (h : orV x y = .error e) : e = .typeError := by
  cases x <;> cases y <;> simp [orV] at h <;> (try split at h) <;> simp_all
theorem andV_err {x y : Val} {e : Exc} (h : andV x y = .error e) : e = .typeError := by
  cases x <;> cases y <;> simp [andV] at h <;> (try split at h) <;> simp_all
theorem notV_err {x : Val} {e : Exc} (h : notV x = .error e) : e = .typeError := by
  cases x <;> simp [notV] at h <;> simp_all
theorem condV_err {c x y : Val} {e : Exc} (h : condV c x y = .error e) : e = .typeError := by
  cases c <;> simp [condV] at h <;> simp_all
theorem addV_err {x y : Val} {e : Exc} (h : addV x y = .error e) : e = .typeError ∨ e = .valueError := by
  cases x <;> cases y <;> simp [addV] at h <;> (try split at h) <;> simp_all
theorem ltV_err {x y : Val} {e : Exc} (h : ltV x y = .error e) : e = .typeError := by
  cases x <;> cases y <;> simp [ltV] at h <;> simp_all

theorem orI_ok (x y : Val) : catchAs [.typeError] (orV x y) = .ok (orT x y) :=
  catchAs_total _ _ (fun e h => by rw [orV_err h]; decide)
theorem andI_ok (x y : Val) : catchAs [.typeError] (andV x y) = .ok (andT x y) :=
  catchAs_total _ _ (fun e h => by rw [andV_err h]; decide)
theorem notI_ok (x : Val) : catchAs [.typeError, .valueError] (notV x) = .ok (notT x) :=
  catchAs_total _ _ (fun e h => by rw [notV_err h]; decide)
theorem condI_ok (c x y : Val) : catchAs [.typeError] (condV c x y) = .ok (condT c x y) :=
  catchAs_total _ _ (fun e h => by rw [condV_err h]; decide)
theorem addI_ok (x y : Val) : catchAs [.typeError, .valueError, .overflow] (addV x y) = .ok (addT x y) :=
  catchAs_total _ _ (fun e h => by rcases addV_err h with h | h <;> rw [h] <;> decide)
theorem ltI_ok (x y : Val) : catchAs [.typeError] (ltV x y) = .ok (ltT x y) :=
  catchAs_total _ _ (fun e h => by rw [ltV_err h]; decide)
theorem andE_ok (x y : Val) : andE x y = .ok (andT x y) := andI_ok x y
theorem orE_ok (x y : Val) : orE x y = .ok (orT x y) := orI_ok x y

theorem foldBody_spec (body : Val → Out Val) (d : Val → Val) (s : Val → Log) (op : Val → Val → PyM Val)
    (opT : Val → Val → Val)
    (hb : ∀ v, body v = (.ok (d v), s v)) (hop : ∀ a b, op a b = .ok (opT a b)) :
    ∀ (vs : List Val) (acc : Val), foldBody body op acc vs = (.ok (foldV d opT acc vs), allSites s vs)
  | [], acc => rfl
  | v :: vs, acc => by
      simp only [foldBody, hb v, Out.bind_ok, liftP, hop acc (d v), foldV, allSites,
        foldBody_spec body d s op opT hb hop vs, List.nil_append]

theorem mapBodyI_spec (body : Val → Out Val) (d : Val → Val) (s : Val → Log)
    (hb : ∀ v, body v = (.ok (d v), s v)) :
    ∀ (vs : List Val), mapBodyI body vs = (.ok (mapV d vs), mapSites d s vs)
  | [] => rfl
  | v :: vs => by
      simp only [mapBodyI, hb v, Out.bind_ok, mapV, mapSites]
      by_cases h : (d v).isErr = true
      · simp [h, Out.pure]
      · simp [h, mapBodyI_spec body d s hb vs, Out.pure]

theorem applyI_tame {cx : Ctx} (ht : Tame cx) {f : String} {fn : Fn} (hf : cx.fns f = some fn) (vs : List Val) :
    applyI cx fn.fn vs = .ok (applyV fn.fn vs) := by
  unfold applyI applyV
  cases h : fn.fn vs with
  | ret v => rfl
  | raise e => simp [ht f fn vs e hf h]

theorem functionEval_spec {cx : Ctx} (ht : Tame cx) (f : String) (vs : List Val) :
    functionEval cx f vs = (.ok (denCall cx f vs), callSite cx f vs) := by
  unfold functionEval denCall callSite
  cases hf : cx.fns f with
  | none => rfl
  | some fn =>
    by_cases h : firstErr vs = true
    · simp [h, Out.pure]
    · simp [h, applyI_tame ht hf]

theorem firstErr_cons (v : Val) (vs : List Val) : firstErr (v :: vs) = (v.isErr || firstErr vs) := rfl

theorem functionEval_cons (cx : Ctx) (f : String) (o : Val) (vs : List Val) :
    functionEval cx f (o :: vs) = methodEval cx o f (exprlistI vs) := by
  unfold functionEval methodEval exprlistI
  cases hf : cx.fns f with
  | none => rfl
  | some fn =>
    simp only [firstErr_cons]
    by_cases ho : o.isErr = true
    · simp [ho]
    · by_cases hv : firstErr vs = true
      · simp [ho, hv]
      · simp [ho, hv]

mutual
theorem evalI_spec {cx : Ctx} (ht : Tame cx) : ∀ (e : Expr) (env : List Val),
    evalI cx env e = (.ok (den cx env e), sites cx env e)
  | .lit v, env => rfl
  | .var i, env => by
      simp only [evalI, den, sites]
      cases env[i]? <;> rfl
  | .call f args, env => by
      simp only [evalI, den, sites, evalIs_spec ht args env, Out.bind_ok, functionEval_spec ht]
  | .method recv f args, env => by
      simp only [evalI, den, sites, evalI_spec ht recv env, evalIs_spec ht args env, Out.bind_ok,
        ← functionEval_cons, functionEval_spec ht]
  | .or a b, env => by
      simp only [evalI, den, sites, evalI_spec ht a env, evalI_spec ht b env, Out.bind_ok, liftP, orI_ok,
        List.append_nil]
  | .and a b, env => by
      simp only [evalI, den, sites, evalI_spec ht a env, evalI_spec ht b env, Out.bind_ok, liftP, andI_ok,
        List.append_nil]
  | .not a, env => by
      simp only [evalI, den, sites, evalI_spec ht a env, Out.bind_ok, liftP, notI_ok, List.append_nil]
  | .cond c x y, env => by
      simp only [evalI, den, sites, evalI_spec ht c env, Out.bind_ok]
      by_cases h : (den cx env c).truthy = true
      · simp only [h, if_true, evalI_spec ht x env, Out.bind_ok, liftP, condI_ok, List.append_nil]
      · simp only [h, evalI_spec ht y env, Out.bind_ok, liftP, condI_ok, List.append_nil]; simp
  | .add a b, env => by
      simp only [evalI, den, sites, evalI_spec ht a env, evalI_spec ht b env, Out.bind_ok, liftP, addI_ok,
        List.append_nil]
  | .lt a b, env => by
      simp only [evalI, den, sites, evalI_spec ht a env, evalI_spec ht b env, Out.bind_ok, liftP, ltI_ok,
        List.append_nil]
  | .all src body, env => by
      simp only [evalI, den, sites, evalI_spec ht src env, Out.bind_ok]
      cases h : den cx env src with
      | list vs =>
          simp only [foldBody_spec _ _ _ andE andT (fun v => evalI_spec ht body (v :: env)) andE_ok]
      | int n => simp [Out.pure]
      | bool b => simp [Out.pure]
      | err => simp [Out.pure]
  | .exists_ src body, env => by
      simp only [evalI, den, sites, evalI_spec ht src env, Out.bind_ok]
      cases h : den cx env src with
      | list vs =>
          simp only [foldBody_spec _ _ _ orE orT (fun v => evalI_spec ht body (v :: env)) orE_ok]
      | int n => simp [Out.pure]
      | bool b => simp [Out.pure]
      | err => simp [Out.pure]
  | .map src body, env => by
      simp only [evalI, den, sites, evalI_spec ht src env, Out.bind_ok]
      cases h : den cx env src with
      | list vs =>
          simp only [mapBodyI_spec _ _ _ (fun v => evalI_spec ht body (v :: env)), Out.bind_ok]
          cases mapV (fun v => den cx (v :: env) body) vs <;> simp [Out.pure]
      | int n => simp [Out.pure]
      | bool b => simp [Out.pure]
      | err => simp [Out.pure]
theorem evalIs_spec {cx : Ctx} (ht : Tame cx) : ∀ (es : List Expr) (env : List Val),
    evalIs cx env es = (.ok (dens cx env es), sitess cx env es)
  | [], env => rfl
  | e :: es, env => by
      simp only [evalIs, dens, sitess, evalI_spec ht e env, evalIs_spec ht es env, Out.bind_ok, Out.pure,
        List.append_nil]
end

/-! ### compiled runner -/

/-- host functions only raise classes that `result()` converts -/
def TameC (cx : Ctx) : Prop :=
  ∀ f fn vs e, cx.fns f = some fn → fn.fn vs = .raise e → catches cx.resultCaught e = true

/-- `result()` converts the classes the fragment's own operators raise -/
def CfgOk (cx : Ctx) : Prop :=
  catches cx.resultCaught .typeError = true ∧ catches cx.resultCaught .valueError = true ∧
  catches cx.resultCaught .nameError = true

/-- a function applied *directly* (dotted text, no `host_function` wrapper) must itself map an erroneous argument
to an error -/
def ErrStrict (fn : HostFn) : Prop :=
  ∀ vs, firstErr vs = true → fn vs = .ret .err ∨ ∃ e, fn vs = .raise e

def FunsOk (cx : Ctx) : Prop := ∀ f fn, cx.fns f = some fn → fn.direct = true → ErrStrict fn.fn

def Val.boolOrErr : Val → Bool
  | .bool _ => true | .err => true | _ => false

mutual
/-- side condition of `compiled_same`: macro bodies are well-typed — `all`/`exists` bodies give booleans or errors
(the transpiled macro coerces the fold result with `BoolType()`), `map` bodies give no error (the transpiled `map`
keeps error *values* in its result: finding D42) -/
def Conform (cx : Ctx) (env : List Val) : Expr → Prop
  | .lit _ => True
  | .var _ => True
  | .call _ args => Conforms cx env args
  | .method recv _ args => Conform cx env recv ∧ Conforms cx env args
  | .or a b => Conform cx env a ∧ Conform cx env b
  | .and a b => Conform cx env a ∧ Conform cx env b
  | .not a => Conform cx env a
  | .cond c x y => Conform cx env c ∧ Conform cx env x ∧ Conform cx env y
  | .add a b => Conform cx env a ∧ Conform cx env b
  | .lt a b => Conform cx env a ∧ Conform cx env b
  | .all src body => Conform cx env src ∧ ∀ vs, den cx env src = .list vs → ∀ v ∈ vs,
      Conform cx (v :: env) body ∧ (den cx (v :: env) body).boolOrErr = true
  | .exists_ src body => Conform cx env src ∧ ∀ vs, den cx env src = .list vs → ∀ v ∈ vs,
      Conform cx (v :: env) body ∧ (den cx (v :: env) body).boolOrErr = true
  | .map src body => Conform cx env src ∧ ∀ vs, den cx env src = .list vs → ∀ v ∈ vs,
      Conform cx (v :: env) body ∧ (den cx (v :: env) body).isErr = false
def Conforms (cx : Ctx) (env : List Val) : List Expr → Prop
  | [] => True
  | e :: es => Conform cx env e ∧ Conforms cx env es
end

/-- the transpiled code's outcome agrees with the value `v`: the same value, or — where `v` is the error — a raised
exception that the next enclosing `result()` converts -/
def Agree (cx : Ctx) (v : Val) (oc : Out Val) : Prop :=
  oc.1 = .ok v ∨ (v = .err ∧ ∃ e, oc.1 = .error e ∧ catches cx.resultCaught e = true)

def AgreeS (cx : Ctx) (vs : List Val) (oc : Out (List Val)) : Prop :=
  oc.1 = .ok vs ∨ (firstErr vs = true ∧ ∃ e, oc.1 = .error e ∧ catches cx.resultCaught e = true)

theorem resultC_agree {cx : Ctx} {v : Val} {oc : Out Val} (h : Agree cx v oc) : (resultC cx oc).1 = .ok v := by
  obtain ⟨r, l⟩ := oc
  rcases h with h | ⟨hv, e, he, hc⟩
  · simp at h; subst h; rfl
  · simp at he; subst he; subst hv; simp [resultC, hc]

theorem Out.bind_fst_ok {α β} {x : Out α} {a : α} (h : x.1 = .ok a) (f : α → Out β) :
    (Out.bind x f).1 = (f a).1 := by
  obtain ⟨r, l⟩ := x; simp at h; subst h; rfl
theorem Out.bind_fst_error {α β} {x : Out α} {e : Exc} (h : x.1 = .error e) (f : α → Out β) :
    (Out.bind x f).1 = .error e := by
  obtain ⟨r, l⟩ := x; simp at h; subst h; rfl

theorem liftP_agree (cx : Ctx) (cs : List Exc) (r : PyM Val)
    (h : ∀ e, r = .error e → catches cs e = true ∧ catches cx.resultCaught e = true) :
    Agree cx (total (catchAs cs r)) (liftP r) := by
  cases r with
  | ok v => left; rfl
  | error e =>
    obtain ⟨h1, h2⟩ := h e rfl
    right; exact ⟨by simp [catchAs, h1, total], e, rfl, h2⟩

theorem denCall_firstErr (cx : Ctx) (f : String) {vs : List Val} (h : firstErr vs = true) : denCall cx f vs = .err := by
  unfold denCall; cases cx.fns f <;> simp [h]

theorem callC_agree {cx : Ctx} (hT : TameC cx) (hF : FunsOk cx) (f : String) (vs : List Val) :
    Agree cx (denCall cx f vs) (callC cx f vs) := by
  unfold denCall callC
  cases hf : cx.fns f with
  | none => left; rfl
  | some fn =>
    have happ : ∀ v, applyV fn.fn vs = v → Agree cx v (applyC fn.fn vs, fn.logOf f vs) := by
      intro v hv
      unfold applyV at hv; unfold applyC
      cases hr : fn.fn vs with
      | ret w => simp [hr] at hv; subst hv; left; rfl
      | raise e => simp [hr] at hv; subst hv; right; exact ⟨rfl, e, rfl, hT f fn vs e hf hr⟩
    by_cases hd : fn.direct = true
    · simp only [hd, if_true]
      by_cases he : firstErr vs = true
      · simp only [he, if_true]
        rcases hF f fn hf hd vs he with h | ⟨e, h⟩
        · left; simp [applyC, h]
        · right; exact ⟨rfl, e, by simp [applyC, h], hT f fn vs e hf h⟩
      · simp only [he]; exact happ _ rfl
    · simp only [hd]
      by_cases he : firstErr vs = true
      · simp only [he, if_true]; left; rfl
      · simp only [he]; exact happ _ rfl

theorem addT_err_left (y : Val) : addT .err y = .err := rfl
theorem addT_err_right (x : Val) : addT x .err = .err := by cases x <;> rfl
theorem ltT_err_left (y : Val) : ltT .err y = .err := rfl
theorem ltT_err_right (x : Val) : ltT x .err = .err := by cases x <;> rfl
theorem notT_err : notT .err = .err := rfl

theorem cond_agree {cx : Ctx} (hC : CfgOk cx) (cv dx dy : Val) :
    Agree cx (if cv.truthy then condT cv dx (.bool false) else condT cv (.bool false) dy) (liftP (condV cv dx dy)) := by
  cases cv with
  | bool b => cases b <;> (left; rfl)
  | int n => right; refine ⟨?_, .typeError, rfl, hC.1⟩; split <;> rfl
  | list xs => right; refine ⟨?_, .typeError, rfl, hC.1⟩; split <;> rfl
  | err => right; exact ⟨rfl, .typeError, rfl, hC.1⟩

theorem foldBody_fst (body : Val → Out Val) (d : Val → Val) (op : Val → Val → PyM Val) (opT : Val → Val → Val)
    (hop : ∀ a b, op a b = .ok (opT a b)) :
    ∀ (vs : List Val) (acc : Val), (∀ v ∈ vs, (body v).1 = .ok (d v)) →
      (foldBody body op acc vs).1 = .ok (foldV d opT acc vs)
  | [], acc, _ => rfl
  | v :: vs, acc, h => by
      simp only [foldBody]
      rw [Out.bind_fst_ok (h v (by simp))]
      simp only [liftP, hop acc (d v), Out.bind_ok, foldV]
      exact foldBody_fst body d op opT hop vs _ (fun w hw => h w (by simp [hw]))

theorem mapBodyC_fst (body : Val → Out Val) (d : Val → Val) :
    ∀ (vs : List Val), (∀ v ∈ vs, (body v).1 = .ok (d v)) → (mapBodyC body vs).1 = .ok (vs.map d)
  | [], _ => rfl
  | v :: vs, h => by
      simp only [mapBodyC]
      rw [Out.bind_fst_ok (h v (by simp))]
      rw [Out.bind_fst_ok (mapBodyC_fst body d vs (fun w hw => h w (by simp [hw])))]
      rfl

theorem mapV_noerr (d : Val → Val) : ∀ (vs : List Val), (∀ v ∈ vs, (d v).isErr = false) → mapV d vs = some (vs.map d)
  | [], _ => rfl
  | v :: vs, h => by
      simp [mapV, h v (by simp), mapV_noerr d vs (fun w hw => h w (by simp [hw]))]

theorem andT_boolOrErr {a b : Val} (ha : a.boolOrErr = true) (hb : b.boolOrErr = true) : (andT a b).boolOrErr = true := by
  rcases a with n | x | xs | _ <;> rcases b with m | y | ys | _ <;>
    first
    | (simp [Val.boolOrErr] at ha; done)
    | (simp [Val.boolOrErr] at hb; done)
    | (cases x <;> cases y <;> rfl)
    | (cases x <;> rfl)
    | (cases y <;> rfl)
    | rfl
theorem orT_boolOrErr {a b : Val} (ha : a.boolOrErr = true) (hb : b.boolOrErr = true) : (orT a b).boolOrErr = true := by
  rcases a with n | x | xs | _ <;> rcases b with m | y | ys | _ <;>
    first
    | (simp [Val.boolOrErr] at ha; done)
    | (simp [Val.boolOrErr] at hb; done)
    | (cases x <;> cases y <;> rfl)
    | (cases x <;> rfl)
    | (cases y <;> rfl)
    | rfl

theorem foldV_boolOrErr (d : Val → Val) (opT : Val → Val → Val)
    (hop : ∀ a b, a.boolOrErr = true → b.boolOrErr = true → (opT a b).boolOrErr = true) :
    ∀ (vs : List Val) (acc : Val), acc.boolOrErr = true → (∀ v ∈ vs, (d v).boolOrErr = true) →
      (foldV d opT acc vs).boolOrErr = true
  | [], acc, ha, _ => ha
  | v :: vs, acc, ha, h => by
      simp only [foldV]
      exact foldV_boolOrErr d opT hop vs _ (hop _ _ ha (h v (by simp))) (fun w hw => h w (by simp [hw]))

theorem boolTypeOf_agree {cx : Ctx} (hC : CfgOk cx) {r : Val} (h : r.boolOrErr = true) :
    Agree cx r (liftP (boolTypeOf r)) := by
  cases r with
  | bool b => left; rfl
  | err => right; exact ⟨rfl, .typeError, rfl, hC.1⟩
  | int n => simp [Val.boolOrErr] at h
  | list xs => simp [Val.boolOrErr] at h

theorem Agree.of_fst {cx : Ctx} {v : Val} {o o' : Out Val} (h : Agree cx v o) (he : o'.1 = o.1) : Agree cx v o' := by
  unfold Agree at *; rw [he]; exact h

mutual
theorem evalC_agree {cx : Ctx} (hT : TameC cx) (hC : CfgOk cx) (hF : FunsOk cx) :
    ∀ (e : Expr) (env : List Val), Conform cx env e → Agree cx (den cx env e) (evalC cx env e)
  | .lit v, env, _ => Or.inl rfl
  | .var i, env, _ => by
      simp only [evalC, den]
      cases env[i]? with
      | some v => left; rfl
      | none => right; exact ⟨rfl, .nameError, rfl, hC.2.2⟩
  | .call f args, env, hcf => by
      have ha := evalCs_agree hT hC hF args env hcf
      simp only [evalC, den]
      rcases ha with ha | ⟨hfe, e, he, hc⟩
      · exact (callC_agree hT hF f _).of_fst (Out.bind_fst_ok ha _)
      · right; exact ⟨denCall_firstErr cx f hfe, e, Out.bind_fst_error he _, hc⟩
  | .method recv f args, env, hcf => by
      have hr := evalC_agree hT hC hF recv env hcf.1
      have ha := evalCs_agree hT hC hF args env hcf.2
      simp only [evalC, den]
      rcases hr with hr | ⟨hre, e, he, hc⟩
      · rcases ha with ha | ⟨hfe, e, he, hc⟩
        · refine (callC_agree hT hF f _).of_fst ?_
          rw [Out.bind_fst_ok hr, Out.bind_fst_ok ha]
        · right
          refine ⟨denCall_firstErr cx f (by simp [firstErr, hfe]), e, ?_, hc⟩
          rw [Out.bind_fst_ok hr, Out.bind_fst_error he]
      · right
        refine ⟨denCall_firstErr cx f (by simp [firstErr, hre, Val.isErr]), e, Out.bind_fst_error he _, hc⟩
  | .or a b, env, hcf => by
      have h1 := resultC_agree (evalC_agree hT hC hF a env hcf.1)
      have h2 := resultC_agree (evalC_agree hT hC hF b env hcf.2)
      simp only [evalC, den]
      refine (liftP_agree cx [.typeError] (orV _ _) (fun e h => ?_)).of_fst ?_
      · rw [orV_err h]; exact ⟨by decide, hC.1⟩
      · rw [Out.bind_fst_ok h1, Out.bind_fst_ok h2]
  | .and a b, env, hcf => by
      have h1 := resultC_agree (evalC_agree hT hC hF a env hcf.1)
      have h2 := resultC_agree (evalC_agree hT hC hF b env hcf.2)
      simp only [evalC, den]
      refine (liftP_agree cx [.typeError] (andV _ _) (fun e h => ?_)).of_fst ?_
      · rw [andV_err h]; exact ⟨by decide, hC.1⟩
      · rw [Out.bind_fst_ok h1, Out.bind_fst_ok h2]
  | .not a, env, hcf => by
      have h1 := evalC_agree hT hC hF a env hcf
      simp only [evalC, den]
      rcases h1 with h1 | ⟨hv, e, he, hc⟩
      · refine (liftP_agree cx [.typeError, .valueError] (notV _) (fun e h => ?_)).of_fst (Out.bind_fst_ok h1 _)
        rw [notV_err h]; exact ⟨by decide, hC.1⟩
      · right; rw [hv]; exact ⟨notT_err, e, Out.bind_fst_error he _, hc⟩
  | .cond c x y, env, hcf => by
      have h1 := resultC_agree (evalC_agree hT hC hF c env hcf.1)
      have h2 := resultC_agree (evalC_agree hT hC hF x env hcf.2.1)
      have h3 := resultC_agree (evalC_agree hT hC hF y env hcf.2.2)
      simp only [evalC, den]
      refine (cond_agree hC _ _ _).of_fst ?_
      rw [Out.bind_fst_ok h1, Out.bind_fst_ok h2, Out.bind_fst_ok h3]
  | .add a b, env, hcf => by
      have h1 := evalC_agree hT hC hF a env hcf.1
      have h2 := evalC_agree hT hC hF b env hcf.2
      simp only [evalC, den]
      rcases h1 with h1 | ⟨hv, e, he, hc⟩
      · rcases h2 with h2 | ⟨hv, e, he, hc⟩
        · refine (liftP_agree cx [.typeError, .valueError, .overflow] (addV _ _) (fun e h => ?_)).of_fst ?_
          · rcases addV_err h with h | h <;> rw [h]
            · exact ⟨by decide, hC.1⟩
            · exact ⟨by decide, hC.2.1⟩
          · rw [Out.bind_fst_ok h1, Out.bind_fst_ok h2]
        · right; rw [hv]
          refine ⟨addT_err_right _, e, ?_, hc⟩
          rw [Out.bind_fst_ok h1, Out.bind_fst_error he]
      · right; rw [hv]; exact ⟨addT_err_left _, e, Out.bind_fst_error he _, hc⟩
  | .lt a b, env, hcf => by
      have h1 := evalC_agree hT hC hF a env hcf.1
      have h2 := evalC_agree hT hC hF b env hcf.2
      simp only [evalC, den]
      rcases h1 with h1 | ⟨hv, e, he, hc⟩
      · rcases h2 with h2 | ⟨hv, e, he, hc⟩
        · refine (liftP_agree cx [.typeError] (ltV _ _) (fun e h => ?_)).of_fst ?_
          · rw [ltV_err h]; exact ⟨by decide, hC.1⟩
          · rw [Out.bind_fst_ok h1, Out.bind_fst_ok h2]
        · right; rw [hv]
          refine ⟨ltT_err_right _, e, ?_, hc⟩
          rw [Out.bind_fst_ok h1, Out.bind_fst_error he]
      · right; rw [hv]; exact ⟨ltT_err_left _, e, Out.bind_fst_error he _, hc⟩
  | .all src body, env, hcf => by
      have h1 := evalC_agree hT hC hF src env hcf.1
      simp only [evalC, den]
      rcases h1 with h1 | ⟨hv, e, he, hc⟩
      · cases hs : den cx env src with
        | list vs =>
          rw [hs] at h1
          have hb : ∀ v ∈ vs, (resultC cx (evalC cx (v :: env) body)).1 = .ok (den cx (v :: env) body) :=
            fun v hv => resultC_agree (evalC_agree hT hC hF body (v :: env) (hcf.2 vs hs v hv).1)
          have hf := foldBody_fst (fun v => resultC cx (evalC cx (v :: env) body)) _ andE andT andE_ok vs (.bool true) hb
          refine (boolTypeOf_agree hC (foldV_boolOrErr _ andT (fun a b => andT_boolOrErr) vs _ rfl
            (fun v hv => (hcf.2 vs hs v hv).2))).of_fst ?_
          rw [Out.bind_fst_ok h1]; simp only []; rw [Out.bind_fst_ok hf]
        | int n => rw [hs] at h1; right; exact ⟨rfl, .typeError, by rw [Out.bind_fst_ok h1]; rfl, hC.1⟩
        | bool b => rw [hs] at h1; right; exact ⟨rfl, .typeError, by rw [Out.bind_fst_ok h1]; rfl, hC.1⟩
        | err => rw [hs] at h1; right; exact ⟨rfl, .typeError, by rw [Out.bind_fst_ok h1]; rfl, hC.1⟩
      · right; rw [hv]; exact ⟨rfl, e, Out.bind_fst_error he _, hc⟩
  | .exists_ src body, env, hcf => by
      have h1 := evalC_agree hT hC hF src env hcf.1
      simp only [evalC, den]
      rcases h1 with h1 | ⟨hv, e, he, hc⟩
      · cases hs : den cx env src with
        | list vs =>
          rw [hs] at h1
          have hb : ∀ v ∈ vs, (resultC cx (evalC cx (v :: env) body)).1 = .ok (den cx (v :: env) body) :=
            fun v hv => resultC_agree (evalC_agree hT hC hF body (v :: env) (hcf.2 vs hs v hv).1)
          have hf := foldBody_fst (fun v => resultC cx (evalC cx (v :: env) body)) _ orE orT orE_ok vs (.bool false) hb
          refine (boolTypeOf_agree hC (foldV_boolOrErr _ orT (fun a b => orT_boolOrErr) vs _ rfl
            (fun v hv => (hcf.2 vs hs v hv).2))).of_fst ?_
          rw [Out.bind_fst_ok h1]; simp only []; rw [Out.bind_fst_ok hf]
        | int n => rw [hs] at h1; right; exact ⟨rfl, .typeError, by rw [Out.bind_fst_ok h1]; rfl, hC.1⟩
        | bool b => rw [hs] at h1; right; exact ⟨rfl, .typeError, by rw [Out.bind_fst_ok h1]; rfl, hC.1⟩
        | err => rw [hs] at h1; right; exact ⟨rfl, .typeError, by rw [Out.bind_fst_ok h1]; rfl, hC.1⟩
      · right; rw [hv]; exact ⟨rfl, e, Out.bind_fst_error he _, hc⟩
  | .map src body, env, hcf => by
      have h1 := evalC_agree hT hC hF src env hcf.1
      simp only [evalC, den]
      rcases h1 with h1 | ⟨hv, e, he, hc⟩
      · cases hs : den cx env src with
        | list vs =>
          rw [hs] at h1
          have hne : ∀ v ∈ vs, (den cx (v :: env) body).isErr = false := fun v hv => (hcf.2 vs hs v hv).2
          have hb : ∀ v ∈ vs, (evalC cx (v :: env) body).1 = .ok (den cx (v :: env) body) := by
            intro v hv
            rcases evalC_agree hT hC hF body (v :: env) (hcf.2 vs hs v hv).1 with h | ⟨he, _⟩
            · exact h
            · have := hne v hv; rw [he] at this; simp [Val.isErr] at this
          have hm := mapBodyC_fst (fun v => evalC cx (v :: env) body) _ vs hb
          left
          rw [Out.bind_fst_ok h1]; simp only []
          rw [Out.bind_fst_ok hm, mapV_noerr _ vs hne]; rfl
        | int n => rw [hs] at h1; right; exact ⟨rfl, .typeError, by rw [Out.bind_fst_ok h1]; rfl, hC.1⟩
        | bool b => rw [hs] at h1; right; exact ⟨rfl, .typeError, by rw [Out.bind_fst_ok h1]; rfl, hC.1⟩
        | err => rw [hs] at h1; right; exact ⟨rfl, .typeError, by rw [Out.bind_fst_ok h1]; rfl, hC.1⟩
      · right; rw [hv]; exact ⟨rfl, e, Out.bind_fst_error he _, hc⟩
theorem evalCs_agree {cx : Ctx} (hT : TameC cx) (hC : CfgOk cx) (hF : FunsOk cx) :
    ∀ (es : List Expr) (env : List Val), Conforms cx env es → AgreeS cx (dens cx env es) (evalCs cx env es)
  | [], env, _ => Or.inl rfl
  | e :: es, env, hcf => by
      have h1 := evalC_agree hT hC hF e env hcf.1
      have h2 := evalCs_agree hT hC hF es env hcf.2
      simp only [evalCs, dens]
      rcases h1 with h1 | ⟨hv, x, he, hc⟩
      · rcases h2 with h2 | ⟨hfe, x, he, hc⟩
        · left; rw [Out.bind_fst_ok h1, Out.bind_fst_ok h2]; rfl
        · right
          refine ⟨by simp [firstErr, hfe], x, ?_, hc⟩
          rw [Out.bind_fst_ok h1, Out.bind_fst_error he]
      · right
        exact ⟨by simp [firstErr, hv, Val.isErr], x, Out.bind_fst_error he _, hc⟩
end

/-! ### binding -/

def FMap.keys (m : FMap) : List String := m.map (·.1)

theorem FMap.set_notin (m : FMap) (k : String) (v : Callable) (h : k ∉ m.keys) : m.set k v = m ++ [(k, v)] := by
  induction m with
  | nil => rfl
  | cons p rest ih =>
    obtain ⟨k', v'⟩ := p
    simp [FMap.keys] at h
    have hne : ¬ (k' = k) := fun e => h.1 e.symm
    simp [FMap.set, hne]
    exact ih (by simpa [FMap.keys] using h.2)

theorem FMap.get?_set (m : FMap) (k : String) (v : Callable) (n : String) :
    (m.set k v).get? n = if k = n then some v else m.get? n := by
  induction m with
  | nil => simp [FMap.set, FMap.get?]
  | cons p rest ih =>
    obtain ⟨k', v'⟩ := p
    by_cases h : k' = k
    · subst h
      by_cases h2 : k' = n <;> simp [FMap.set, FMap.get?, h2]
    · simp only [FMap.set, h, if_false, FMap.get?, ih]
      by_cases h2 : k' = n
      · subst h2
        have : ¬ (k = k') := fun e => h e.symm
        simp [this]
      · simp [h2]

/-- the (name, callable) pairs of a list of callables, when every callable has a `__name__` -/
def named : List Callable → Option (List (String × Callable))
  | [] => some []
  | f :: fs => match f.pyName, named fs with
      | some n, some ps => some ((n, f) :: ps)
      | _, _ => none

theorem localOfList_nodup : ∀ (fs : List Callable) (ps : List (String × Callable)) (acc : FMap),
    named fs = some ps → (acc.keys ++ ps.map (·.1)).Nodup → localOfList fs acc = .ok (acc ++ ps)
  | [], ps, acc, h, _ => by simp [named] at h; subst h; simp [localOfList]
  | f :: fs, ps, acc, h, hnd => by
      simp only [named] at h
      cases hn : f.pyName with
      | none => simp [hn] at h
      | some n =>
        cases hr : named fs with
        | none => simp [hn, hr] at h
        | some qs =>
          simp [hn, hr] at h; subst h
          simp only [localOfList, hn]
          have hnot : n ∉ acc.keys := by
            intro hin
            have := List.nodup_append.mp hnd
            exact this.2.2 n hin n (by simp) rfl
          rw [FMap.set_notin acc n f hnot]
          have := localOfList_nodup fs qs (acc ++ [(n, f)]) hr (by
            simpa [FMap.keys, List.map_append, List.append_assoc] using hnd)
          simpa [List.append_assoc] using this

/-- lookup in the dict a LIST of callables is turned into: the LAST callable carrying that `__name__` -/
theorem localOfList_get? : ∀ (fs : List Callable) (acc l : FMap) (n : String),
    localOfList fs acc = .ok l →
    l.get? n = (match fs.reverse.find? (fun c => c.pyName == some n) with
                | some c => some c
                | none => acc.get? n)
  | [], acc, l, n, h => by
      simp [localOfList] at h; subst h; simp
  | f :: fs, acc, l, n, h => by
      simp only [localOfList] at h
      cases hn : f.pyName with
      | none => simp [hn] at h
      | some m =>
        simp only [hn] at h
        have ih := localOfList_get? fs (acc.set m f) l n h
        rw [ih, List.reverse_cons, List.find?_append]
        cases hfind : fs.reverse.find? (fun c => c.pyName == some n) with
        | some c => simp
        | none =>
          simp only [Option.none_or, List.find?_cons, List.find?_nil, hn, FMap.get?_set]
          by_cases hmn : m = n
          · subst hmn; simp
          · have : (m == n) = false := by simpa using hmn
            simp [hmn, this]

theorem mapSites_replicate (d : Val → Val) (s : Val → Log) (v : Val) (hv : (d v).isErr = false) :
    ∀ n : Nat, mapSites d s (List.replicate n v) = (List.replicate n (s v)).flatten
  | 0 => rfl
  | n + 1 => by simp [List.replicate_succ, mapSites, hv, mapSites_replicate d s v hv n]

theorem allSites_replicate (s : Val → Log) (v : Val) :
    ∀ n : Nat, allSites s (List.replicate n v) = (List.replicate n (s v)).flatten
  | 0 => rfl
  | n + 1 => by simp [List.replicate_succ, allSites, allSites_replicate s v n]

/-! ### C02's outcome classes -/

/-- the outcome class of C02 (`Cel.O`) a value belongs to -/
def cls : Val → O
  | .bool b => if b then .t else .f
  | .err => .e
  | .int n => if n = 0 then .vf else .vt
  | .list xs => if xs.isEmpty then .vf else .vt

def clsM (r : PyM Val) : PyM O := match r with | .ok v => .ok (cls v) | .error e => .error e

@[simp] theorem cls_true : cls (.bool true) = .t := rfl
@[simp] theorem cls_false : cls (.bool false) = .f := rfl
@[simp] theorem cls_err : cls .err = .e := rfl
theorem cls_int (n : Int) : cls (.int n) = .vt ∨ cls (.int n) = .vf := by
  by_cases h : n = 0 <;> simp [cls, h]
theorem cls_list (xs : List Val) : cls (.list xs) = .vt ∨ cls (.list xs) = .vf := by
  by_cases h : xs.isEmpty = true <;> simp [cls, h]

macro "cls_cases" : tactic => `(tactic| (
  (try (rename_i n; rcases cls_int n with h | h <;> simp only [h])) ))

theorem orV_cls (x y : Val) : clsM (orV x y) = lor (cls x) (cls y) := by
  rcases x with n | b | xs | _ <;> rcases y with m | c | ys | _ <;>
    (try cases b) <;> (try cases c) <;> simp [orV, clsM] <;>
    (try (rcases cls_int n with h | h <;> simp only [h])) <;>
    (try (rcases cls_int m with h' | h' <;> simp only [h'])) <;>
    (try (rcases cls_list xs with h | h <;> simp only [h])) <;>
    (try (rcases cls_list ys with h' | h' <;> simp only [h'])) <;> rfl

theorem andV_cls (x y : Val) : clsM (andV x y) = land (cls x) (cls y) := by
  rcases x with n | b | xs | _ <;> rcases y with m | c | ys | _ <;>
    (try cases b) <;> (try cases c) <;> simp [andV, clsM] <;>
    (try (rcases cls_int n with h | h <;> simp only [h])) <;>
    (try (rcases cls_int m with h' | h' <;> simp only [h'])) <;>
    (try (rcases cls_list xs with h | h <;> simp only [h])) <;>
    (try (rcases cls_list ys with h' | h' <;> simp only [h'])) <;> rfl

theorem notV_cls (x : Val) : clsM (notV x) = lnot (cls x) := by
  rcases x with n | b | xs | _ <;> (try cases b) <;> simp [notV, clsM] <;>
    (try (rcases cls_int n with h | h <;> simp only [h])) <;>
    (try (rcases cls_list xs with h | h <;> simp only [h])) <;> rfl

theorem condV_cls (c x y : Val) : clsM (condV c x y) = lcond (cls c) (cls x) (cls y) := by
  rcases c with n | b | xs | _ <;> (try cases b) <;> simp [condV, clsM] <;>
    (try (rcases cls_int n with h | h <;> simp only [h])) <;>
    (try (rcases cls_list xs with h | h <;> simp only [h])) <;> rfl

theorem catchAs_cls (r : PyM Val) : clsM (catchAs [.typeError] r) = catchTE (clsM r) := by
  cases r with
  | ok v => rfl
  | error e => cases e <;> simp [catchAs, catches, clsM, catchTE]

/-! ### the call log of the transpiled program when nothing goes wrong -/

mutual
/-- the call sites the TRANSPILED program reaches when nothing goes wrong: like `sites`, but both branches of `?:` -/
def sitesE (cx : Ctx) (env : List Val) : Expr → Log
  | .lit _ => []
  | .var _ => []
  | .call f args => sitesEs cx env args ++ callSite cx f (dens cx env args)
  | .method recv f args =>
      sitesE cx env recv ++ (sitesEs cx env args ++ callSite cx f (den cx env recv :: dens cx env args))
  | .or a b => sitesE cx env a ++ sitesE cx env b
  | .and a b => sitesE cx env a ++ sitesE cx env b
  | .not a => sitesE cx env a
  | .cond c x y => sitesE cx env c ++ (sitesE cx env x ++ sitesE cx env y)
  | .add a b => sitesE cx env a ++ sitesE cx env b
  | .lt a b => sitesE cx env a ++ sitesE cx env b
  | .all src body => sitesE cx env src ++ (match den cx env src with
      | .list vs => allSites (fun v => sitesE cx (v :: env) body) vs
      | _ => [])
  | .exists_ src body => sitesE cx env src ++ (match den cx env src with
      | .list vs => allSites (fun v => sitesE cx (v :: env) body) vs
      | _ => [])
  | .map src body => sitesE cx env src ++ (match den cx env src with
      | .list vs => allSites (fun v => sitesE cx (v :: env) body) vs
      | _ => [])
def sitesEs (cx : Ctx) (env : List Val) : List Expr → Log
  | [] => []
  | e :: es => sitesE cx env e ++ sitesEs cx env es
end

mutual
/-- an evaluation in which no sub-expression — also none in a branch that `?:` does not select — is an error, and
macro bodies have the expected type -/
def Quiet (cx : Ctx) (env : List Val) : Expr → Prop
  | .lit v => v.isErr = false
  | .var i => ∃ v, env[i]? = some v ∧ v.isErr = false
  | .call f args => Quiets cx env args ∧ (den cx env (.call f args)).isErr = false
  | .method recv f args =>
      Quiet cx env recv ∧ Quiets cx env args ∧ (den cx env (.method recv f args)).isErr = false
  | .or a b => Quiet cx env a ∧ Quiet cx env b ∧ (den cx env (.or a b)).isErr = false
  | .and a b => Quiet cx env a ∧ Quiet cx env b ∧ (den cx env (.and a b)).isErr = false
  | .not a => Quiet cx env a ∧ (den cx env (.not a)).isErr = false
  | .cond c x y => Quiet cx env c ∧ Quiet cx env x ∧ Quiet cx env y ∧ (den cx env c).isBool = true
  | .add a b => Quiet cx env a ∧ Quiet cx env b ∧ (den cx env (.add a b)).isErr = false
  | .lt a b => Quiet cx env a ∧ Quiet cx env b ∧ (den cx env (.lt a b)).isErr = false
  | .all src body => Quiet cx env src ∧ ∃ vs, den cx env src = .list vs ∧ ∀ v ∈ vs,
      Quiet cx (v :: env) body ∧ (den cx (v :: env) body).isBool = true
  | .exists_ src body => Quiet cx env src ∧ ∃ vs, den cx env src = .list vs ∧ ∀ v ∈ vs,
      Quiet cx (v :: env) body ∧ (den cx (v :: env) body).isBool = true
  | .map src body => Quiet cx env src ∧ ∃ vs, den cx env src = .list vs ∧ ∀ v ∈ vs, Quiet cx (v :: env) body
def Quiets (cx : Ctx) (env : List Val) : List Expr → Prop
  | [] => True
  | e :: es => Quiet cx env e ∧ Quiets cx env es
end

theorem total_ne_err {cs : List Exc} {r : PyM Val} (h : (total (catchAs cs r)).isErr = false) :
    r = .ok (total (catchAs cs r)) := by
  cases r with
  | ok v => rfl
  | error e =>
    exfalso
    by_cases hc : catches cs e = true <;> simp [catchAs, hc, total, Val.isErr] at h

theorem resultC_ok (cx : Ctx) (v : Val) (l : Log) : resultC cx (.ok v, l) = (.ok v, l) := rfl

theorem foldBody_mem (body : Val → Out Val) (d : Val → Val) (s : Val → Log) (op : Val → Val → PyM Val)
    (opT : Val → Val → Val) (hop : ∀ a b, op a b = .ok (opT a b)) :
    ∀ (vs : List Val) (acc : Val), (∀ v ∈ vs, body v = (.ok (d v), s v)) →
      foldBody body op acc vs = (.ok (foldV d opT acc vs), allSites s vs)
  | [], acc, _ => rfl
  | v :: vs, acc, h => by
      simp only [foldBody, h v (by simp), Out.bind_ok, liftP, hop acc (d v), foldV, allSites, List.nil_append]
      rw [foldBody_mem body d s op opT hop vs _ (fun w hw => h w (by simp [hw]))]

theorem mapBodyC_mem (body : Val → Out Val) (d : Val → Val) (s : Val → Log) :
    ∀ (vs : List Val), (∀ v ∈ vs, body v = (.ok (d v), s v)) →
      mapBodyC body vs = (.ok (vs.map d), allSites s vs)
  | [], _ => rfl
  | v :: vs, h => by
      simp only [mapBodyC, h v (by simp), Out.bind_ok,
        mapBodyC_mem body d s vs (fun w hw => h w (by simp [hw])), Out.pure, List.map, allSites, List.append_nil]

theorem firstErr_false_of_dens : ∀ (vs : List Val), (∀ v ∈ vs, v.isErr = false) → firstErr vs = false
  | [], _ => rfl
  | v :: vs, h => by simp [firstErr, h v (by simp), firstErr_false_of_dens vs (fun w hw => h w (by simp [hw]))]

/-- a quiet call: bound, applied, returns a value -/
theorem callC_quiet {cx : Ctx} (f : String) (vs : List Val) (hq : (denCall cx f vs).isErr = false) :
    callC cx f vs = (.ok (denCall cx f vs), callSite cx f vs) := by
  unfold denCall callC callSite at *
  cases hf : cx.fns f with
  | none => simp [hf, Val.isErr] at hq
  | some fn =>
    simp only [hf] at hq
    by_cases he : firstErr vs = true
    · simp [he, Val.isErr] at hq
    · simp only [he] at hq ⊢
      have : applyC fn.fn vs = .ok (applyV fn.fn vs) := by
        unfold applyC; unfold applyV at hq
        cases hr : fn.fn vs with
        | ret w => simp [applyV, hr]
        | raise e => simp [hr, Val.isErr] at hq
      by_cases hd : fn.direct = true <;> simp [hd, this]

theorem foldV_bool (d : Val → Val) (opT : Val → Val → Val)
    (hop : ∀ a b, a.isBool = true → b.isBool = true → (opT a b).isBool = true) :
    ∀ (vs : List Val) (acc : Val), acc.isBool = true → (∀ v ∈ vs, (d v).isBool = true) → (foldV d opT acc vs).isBool = true
  | [], acc, ha, _ => ha
  | v :: vs, acc, ha, h => by
      simp only [foldV]
      exact foldV_bool d opT hop vs _ (hop _ _ ha (h v (by simp))) (fun w hw => h w (by simp [hw]))

theorem andT_bool {a b : Val} (ha : a.isBool = true) (hb : b.isBool = true) : (andT a b).isBool = true := by
  cases a <;> cases b <;> simp_all [Val.isBool] <;> rfl
theorem orT_bool {a b : Val} (ha : a.isBool = true) (hb : b.isBool = true) : (orT a b).isBool = true := by
  cases a <;> cases b <;> simp_all [Val.isBool] <;> rfl

theorem boolTypeOf_bool {r : Val} (h : r.isBool = true) : boolTypeOf r = .ok r := by
  cases r <;> simp_all [Val.isBool, boolTypeOf]

theorem isErr_false_of_isBool {v : Val} (h : v.isBool = true) : v.isErr = false := by
  cases v <;> simp_all [Val.isBool, Val.isErr]

theorem quiet_not_err {cx : Ctx} : ∀ (e : Expr) (env : List Val), Quiet cx env e → (den cx env e).isErr = false
  | .lit v, env, h => h
  | .var i, env, ⟨v, hv, hne⟩ => by simp [den, hv, hne]
  | .call f args, env, h => h.2
  | .method recv f args, env, h => h.2.2
  | .or a b, env, h => h.2.2
  | .and a b, env, h => h.2.2
  | .not a, env, h => h.2
  | .cond c x y, env, ⟨_, hx, hy, hb⟩ => by
      have h1 := quiet_not_err x env hx
      have h2 := quiet_not_err y env hy
      simp only [den]
      cases hv : den cx env c with
      | bool b => cases b <;> simp [Val.truthy, condT, condV, catchAs, total, h1, h2]
      | int n => simp [hv, Val.isBool] at hb
      | list xs => simp [hv, Val.isBool] at hb
      | err => simp [hv, Val.isBool] at hb
  | .add a b, env, h => h.2.2
  | .lt a b, env, h => h.2.2
  | .all src body, env, ⟨_, vs, hvs, hb⟩ => by
      simp only [den, hvs]
      exact isErr_false_of_isBool (foldV_bool _ andT (fun a b => andT_bool) vs _ rfl (fun v hv => (hb v hv).2))
  | .exists_ src body, env, ⟨_, vs, hvs, hb⟩ => by
      simp only [den, hvs]
      exact isErr_false_of_isBool (foldV_bool _ orT (fun a b => orT_bool) vs _ rfl (fun v hv => (hb v hv).2))
  | .map src body, env, ⟨_, vs, hvs, hb⟩ => by
      simp only [den, hvs]
      rw [mapV_noerr _ vs (fun v hv => quiet_not_err body (v :: env) (hb v hv))]
      rfl

mutual
theorem evalC_quiet {cx : Ctx} : ∀ (e : Expr) (env : List Val), Quiet cx env e →
    evalC cx env e = (.ok (den cx env e), sitesE cx env e)
  | .lit v, env, _ => rfl
  | .var i, env, ⟨v, hv, _⟩ => by simp [evalC, den, sitesE, hv, Out.pure]
  | .call f args, env, ⟨ha, hq⟩ => by
      simp only [evalC, evalCs_quiet args env ha, Out.bind_ok, den, sitesE]
      simp only [den] at hq
      rw [callC_quiet f _ hq]
  | .method recv f args, env, ⟨hr, ha, hq⟩ => by
      simp only [evalC, evalC_quiet recv env hr, evalCs_quiet args env ha, Out.bind_ok, den, sitesE]
      simp only [den] at hq
      rw [callC_quiet f _ hq]
  | .or a b, env, ⟨ha, hb, hq⟩ => by
      simp only [den, orT] at hq
      simp only [evalC, evalC_quiet a env ha, evalC_quiet b env hb, resultC_ok, Out.bind_ok, den, sitesE, liftP, orT]
      rw [← total_ne_err hq]; simp
  | .and a b, env, ⟨ha, hb, hq⟩ => by
      simp only [den, andT] at hq
      simp only [evalC, evalC_quiet a env ha, evalC_quiet b env hb, resultC_ok, Out.bind_ok, den, sitesE, liftP, andT]
      rw [← total_ne_err hq]; simp
  | .not a, env, ⟨ha, hq⟩ => by
      simp only [den, notT] at hq
      simp only [evalC, evalC_quiet a env ha, Out.bind_ok, den, sitesE, liftP, notT]
      rw [← total_ne_err hq]; simp
  | .cond c x y, env, ⟨hc, hx, hy, hb⟩ => by
      simp only [evalC, evalC_quiet c env hc, evalC_quiet x env hx, evalC_quiet y env hy, resultC_ok, Out.bind_ok,
        den, sitesE, liftP]
      cases hv : den cx env c with
      | bool b => cases b <;> simp [condV, Val.truthy, condT, catchAs, total, List.append_assoc]
      | int n => simp [hv, Val.isBool] at hb
      | list xs => simp [hv, Val.isBool] at hb
      | err => simp [hv, Val.isBool] at hb
  | .add a b, env, ⟨ha, hb, hq⟩ => by
      simp only [den, addT] at hq
      simp only [evalC, evalC_quiet a env ha, evalC_quiet b env hb, Out.bind_ok, den, sitesE, liftP, addT]
      rw [← total_ne_err hq]; simp
  | .lt a b, env, ⟨ha, hb, hq⟩ => by
      simp only [den, ltT] at hq
      simp only [evalC, evalC_quiet a env ha, evalC_quiet b env hb, Out.bind_ok, den, sitesE, liftP, ltT]
      rw [← total_ne_err hq]; simp
  | .all src body, env, ⟨hs, vs, hvs, hb⟩ => by
      simp only [evalC, evalC_quiet src env hs, Out.bind_ok, den, sitesE, hvs]
      have hbody : ∀ v ∈ vs, resultC cx (evalC cx (v :: env) body) =
          (.ok (den cx (v :: env) body), sitesE cx (v :: env) body) :=
        fun v hv => by rw [evalC_quiet body (v :: env) (hb v hv).1]; rfl
      rw [foldBody_mem _ _ _ andE andT andE_ok vs _ hbody]
      simp only [Out.bind_ok, liftP]
      rw [boolTypeOf_bool (foldV_bool _ andT (fun a b => andT_bool) vs _ rfl (fun v hv => (hb v hv).2))]
      simp
  | .exists_ src body, env, ⟨hs, vs, hvs, hb⟩ => by
      simp only [evalC, evalC_quiet src env hs, Out.bind_ok, den, sitesE, hvs]
      have hbody : ∀ v ∈ vs, resultC cx (evalC cx (v :: env) body) =
          (.ok (den cx (v :: env) body), sitesE cx (v :: env) body) :=
        fun v hv => by rw [evalC_quiet body (v :: env) (hb v hv).1]; rfl
      rw [foldBody_mem _ _ _ orE orT orE_ok vs _ hbody]
      simp only [Out.bind_ok, liftP]
      rw [boolTypeOf_bool (foldV_bool _ orT (fun a b => orT_bool) vs _ rfl (fun v hv => (hb v hv).2))]
      simp
  | .map src body, env, ⟨hs, vs, hvs, hb⟩ => by
      simp only [evalC, evalC_quiet src env hs, Out.bind_ok, den, sitesE, hvs]
      have hbody : ∀ v ∈ vs, evalC cx (v :: env) body = (.ok (den cx (v :: env) body), sitesE cx (v :: env) body) :=
        fun v hv => evalC_quiet body (v :: env) (hb v hv)
      rw [mapBodyC_mem _ _ _ vs hbody, mapV_noerr _ vs (fun v hv => quiet_not_err body (v :: env) (hb v hv))]
      simp [Out.pure]
theorem evalCs_quiet {cx : Ctx} : ∀ (es : List Expr) (env : List Val), Quiets cx env es →
    evalCs cx env es = (.ok (dens cx env es), sitesEs cx env es)
  | [], env, _ => rfl
  | e :: es, env, ⟨h1, h2⟩ => by
      simp only [evalCs, dens, sitesEs, evalC_quiet e env h1, evalCs_quiet es env h2, Out.bind_ok, Out.pure,
        List.append_nil]
end

mutual
/-- no `?:` anywhere in the expression -/
def noCond : Expr → Bool
  | .lit _ => true
  | .var _ => true
  | .call _ args => noConds args
  | .method recv _ args => noCond recv && noConds args
  | .or a b => noCond a && noCond b
  | .and a b => noCond a && noCond b
  | .not a => noCond a
  | .cond _ _ _ => false
  | .add a b => noCond a && noCond b
  | .lt a b => noCond a && noCond b
  | .all src body => noCond src && noCond body
  | .exists_ src body => noCond src && noCond body
  | .map src body => noCond src && noCond body
def noConds : List Expr → Bool
  | [] => true
  | e :: es => noCond e && noConds es
end

theorem allSites_congr (s s' : Val → Log) : ∀ (vs : List Val), (∀ v ∈ vs, s v = s' v) → allSites s vs = allSites s' vs
  | [], _ => rfl
  | v :: vs, h => by
      simp only [allSites, h v (by simp), allSites_congr s s' vs (fun w hw => h w (by simp [hw]))]

theorem mapSites_noerr (d : Val → Val) (s : Val → Log) : ∀ (vs : List Val), (∀ v ∈ vs, (d v).isErr = false) →
    mapSites d s vs = allSites s vs
  | [], _ => rfl
  | v :: vs, h => by
      simp [mapSites, allSites, h v (by simp), mapSites_noerr d s vs (fun w hw => h w (by simp [hw]))]

mutual
theorem sitesE_eq_sites {cx : Ctx} : ∀ (e : Expr) (env : List Val), Quiet cx env e → noCond e = true →
    sitesE cx env e = sites cx env e
  | .lit _, _, _, _ => rfl
  | .var _, _, _, _ => rfl
  | .call f args, env, hq, hn => by
      simp only [noCond] at hn
      simp only [sitesE, sites, sitesEs_eq_sitess args env hq.1 hn]
  | .method recv f args, env, hq, hn => by
      simp only [noCond, Bool.and_eq_true] at hn
      simp only [sitesE, sites, sitesE_eq_sites recv env hq.1 hn.1, sitesEs_eq_sitess args env hq.2.1 hn.2]
  | .or a b, env, hq, hn => by
      simp only [noCond, Bool.and_eq_true] at hn
      simp only [sitesE, sites, sitesE_eq_sites a env hq.1 hn.1, sitesE_eq_sites b env hq.2.1 hn.2]
  | .and a b, env, hq, hn => by
      simp only [noCond, Bool.and_eq_true] at hn
      simp only [sitesE, sites, sitesE_eq_sites a env hq.1 hn.1, sitesE_eq_sites b env hq.2.1 hn.2]
  | .not a, env, hq, hn => by
      simp only [noCond] at hn
      simp only [sitesE, sites, sitesE_eq_sites a env hq.1 hn]
  | .cond _ _ _, _, _, hn => by simp [noCond] at hn
  | .add a b, env, hq, hn => by
      simp only [noCond, Bool.and_eq_true] at hn
      simp only [sitesE, sites, sitesE_eq_sites a env hq.1 hn.1, sitesE_eq_sites b env hq.2.1 hn.2]
  | .lt a b, env, hq, hn => by
      simp only [noCond, Bool.and_eq_true] at hn
      simp only [sitesE, sites, sitesE_eq_sites a env hq.1 hn.1, sitesE_eq_sites b env hq.2.1 hn.2]
  | .all src body, env, ⟨hs, vs, hvs, hb⟩, hn => by
      simp only [noCond, Bool.and_eq_true] at hn
      simp only [sitesE, sites, sitesE_eq_sites src env hs hn.1, hvs]
      rw [allSites_congr _ _ vs (fun v hv => sitesE_eq_sites body (v :: env) (hb v hv).1 hn.2)]
  | .exists_ src body, env, ⟨hs, vs, hvs, hb⟩, hn => by
      simp only [noCond, Bool.and_eq_true] at hn
      simp only [sitesE, sites, sitesE_eq_sites src env hs hn.1, hvs]
      rw [allSites_congr _ _ vs (fun v hv => sitesE_eq_sites body (v :: env) (hb v hv).1 hn.2)]
  | .map src body, env, ⟨hs, vs, hvs, hb⟩, hn => by
      simp only [noCond, Bool.and_eq_true] at hn
      simp only [sitesE, sites, sitesE_eq_sites src env hs hn.1, hvs]
      rw [allSites_congr _ _ vs (fun v hv => sitesE_eq_sites body (v :: env) (hb v hv) hn.2),
        mapSites_noerr _ _ vs (fun v hv => quiet_not_err body (v :: env) (hb v hv))]
theorem sitesEs_eq_sitess {cx : Ctx} : ∀ (es : List Expr) (env : List Val), Quiets cx env es → noConds es = true →
    sitesEs cx env es = sitess cx env es
  | [], _, _, _ => rfl
  | e :: es, env, hq, hn => by
      simp only [noConds, Bool.and_eq_true] at hn
      simp only [sitesEs, sitess, sitesE_eq_sites e env hq.1 hn.1, sitesEs_eq_sitess es env hq.2 hn.2]
end

end Cel.Funcs
