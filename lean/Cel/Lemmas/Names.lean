/-
  Lemmas about the name-resolution model (Cel.Model.Names): what `load_values` builds, in closed
  form; `find_name` as a walk; the recursive form of the longest-prefix specification.
-/
import Cel.Model.Names
namespace Cel.Names


theorem lookup_upsert (nc : NC) (k name : String) (f : Node → Node) :
    lookup name (upsert nc k f) =
      if k = name then some (f ((lookup k nc).getD Node.empty)) else lookup name nc := by
  induction nc with
  | nil =>
    simp only [upsert, lookup]
    split <;> simp_all
  | cons e rest ih =>
    obtain ⟨k', n⟩ := e
    simp only [upsert]
    by_cases h1 : k' = k
    · subst h1
      simp only [↓reduceIte, lookup]
      by_cases h2 : k' = name
      · simp [h2]
      · simp [h2]
    · simp only [h1, ↓reduceIte, lookup]
      by_cases h2 : k' = name
      · subst h2
        have : ¬ k = k' := fun h => h1 h.symm
        simp [this]
      · simp only [h2, ↓reduceIte, ih]

/-- what loading one binding does to the entry of `h` -/
def stepNode (h : String) (acc : Option Node) (b : List String × Val) : Option Node :=
  match b.1 with
  | [] => acc
  | h' :: t =>
      if h' = h then
        let n := acc.getD Node.empty
        if t.isEmpty then some (.mk n.ann (some b.2) n.kids)
        else some (.mk n.ann n.value (setValue n.kids t b.2))
      else acc

theorem lookup_setValue (nc : NC) (p : List String) (v : Val) (h : String) :
    lookup h (setValue nc p v) = stepNode h (lookup h nc) (p, v) := by
  match p with
  | [] => simp [setValue, stepNode]
  | [h'] =>
    simp only [setValue, lookup_upsert, stepNode]
    split <;> simp_all
  | h' :: t1 :: t2 =>
    simp only [setValue, lookup_upsert, stepNode]
    split <;> simp_all

theorem lookup_loadValues (nc : NC) (bs : List (List String × Val)) (h : String) :
    lookup h (loadValues nc bs) = bs.foldl (stepNode h) (lookup h nc) := by
  induction bs generalizing nc with
  | nil => rfl
  | cons b rest ih =>
    simp only [loadValues, List.foldl_cons] at *
    rw [ih, lookup_setValue]

/-- the bindings below `h`: tails of the names that start with `h` and go on -/
def subOne (h : String) (b : List String × Val) : Option (List String × Val) :=
  match b.1 with
  | h' :: t => if h' = h ∧ !t.isEmpty then some (t, b.2) else none
  | [] => none

def sub (bs : List (List String × Val)) (h : String) : List (List String × Val) := bs.filterMap (subOne h)

/-- some binding's name starts with the identifier `h` -/
def headBound (bs : List (List String × Val)) (h : String) : Bool :=
  bs.any fun b => b.1.head? == some h

theorem boundAt_snoc (bs : List (List String × Val)) (b : List String × Val) (p : List String) :
    boundAt (bs ++ [b]) p = if b.1 == p then some b.2 else boundAt bs p := by
  simp only [boundAt, List.reverse_append, List.reverse_cons, List.reverse_nil, List.nil_append,
    List.singleton_append, List.find?_cons]
  split <;> simp_all

theorem loadValues_snoc (nc : NC) (bs : List (List String × Val)) (b : List String × Val) :
    loadValues nc (bs ++ [b]) = setValue (loadValues nc bs) b.1 b.2 := by
  simp [loadValues, List.foldl_append]

theorem headBound_false (bs : List (List String × Val)) (h : String) (hb : headBound bs h = false) :
    boundAt bs [h] = none ∧ sub bs h = [] := by
  simp only [headBound, List.any_eq_false, beq_iff_eq] at hb
  constructor
  · simp only [boundAt, Option.map_eq_none_iff, List.find?_eq_none, List.mem_reverse]
    intro x hx hxe
    apply hb x hx
    simp_all
  · simp only [sub, List.filterMap_eq_nil_iff]
    intro x hx
    have := hb x hx
    unfold subOne
    split
    · rename_i h' t heq
      split
      · rename_i hc
        exfalso; apply this; simp [heq, hc.1]
      · rfl
    · rfl

/-- the entry of `h` in a freshly loaded container -/
theorem foldl_stepNode (h : String) (bs : List (List String × Val)) :
    bs.foldl (stepNode h) none =
      if headBound bs h then some (.mk none (boundAt bs [h]) (loadValues [] (sub bs h))) else none := by
  suffices ∀ r : List (List String × Val), r.reverse.foldl (stepNode h) none =
      if headBound r.reverse h then some (.mk none (boundAt r.reverse [h]) (loadValues [] (sub r.reverse h))) else none by
    simpa using this bs.reverse
  intro r
  induction r with
  | nil => simp [headBound]
  | cons b r ih =>
    simp only [List.reverse_cons, List.foldl_append, List.foldl_cons, List.foldl_nil, ih]
    have hHB : headBound (r.reverse ++ [b]) h = (headBound r.reverse h || (b.1.head? == some h)) := by
      simp [headBound, List.any_append]
    have hSub : sub (r.reverse ++ [b]) h = sub r.reverse h ++ (subOne h b).toList := by
      cases hs : subOne h b <;> simp [sub, List.filterMap_append, List.filterMap_cons, hs]
    rw [hHB, hSub, boundAt_snoc]
    rcases b with ⟨p, v⟩
    match p with
    | [] => simp [stepNode, subOne]
    | h' :: t =>
      by_cases hh : h' = h
      · subst hh
        simp only [stepNode, ↓reduceIte, List.head?_cons, beq_self_eq_true, Bool.or_true, subOne, true_and]
        by_cases ht : t = []
        · subst ht
          simp only [List.isEmpty_nil, ↓reduceIte, Bool.not_true, Bool.false_eq_true, Option.toList_none,
            List.append_nil]
          by_cases hb : headBound r.reverse h' = true
          · simp [hb, Node.ann, Node.kids]
          · simp only [Bool.not_eq_true] at hb
            simp [hb, Node.empty, Node.ann, Node.kids, (headBound_false _ _ hb).2, loadValues]
        · have hte : t.isEmpty = false := by cases t <;> simp_all
          simp only [hte, Bool.false_eq_true, ↓reduceIte, Bool.not_false, Option.toList_some]
          have hne : ([h'] == h' :: t) = false := by cases t <;> simp_all
          have hne2 : ¬ (h' :: t = [h']) := by cases t <;> simp_all
          by_cases hb : headBound r.reverse h' = true
          · simp [hb, Node.ann, Node.kids, Node.value, loadValues_snoc, hne2, ht]
          · simp only [Bool.not_eq_true] at hb
            simp [hb, Node.empty, Node.ann, Node.kids, Node.value, (headBound_false _ _ hb).1,
              (headBound_false _ _ hb).2, loadValues, hne2, ht]
      · have hne : ¬ (some h' = some h) := by simpa using hh
        have hne3 : ¬ (h' :: t = [h]) := by
          intro hc; injection hc with h1 h2; exact hh h1
        simp [stepNode, hh, subOne, hne3]

theorem lookup_loaded (bs : List (List String × Val)) (h : String) :
    lookup h (loadValues [] bs) =
      if headBound bs h then some (.mk none (boundAt bs [h]) (loadValues [] (sub bs h))) else none := by
  rw [lookup_loadValues]
  exact foldl_stepNode h bs

/-- a reference followed from a container: look the first component up, then apply `member_dot` -/
def walk (nc : NC) (path : List String) : Option Res :=
  match path with
  | [] => some (.nc nc)
  | h :: t => (lookup h nc).bind fun n => t.foldlM memberDot n.result

/-- `dict_find_name` is repeated field selection -/
theorem dictFind_eq (v : Val) (t : List String) :
    (match dictFind v t with | .ok r => some r | .error _ => none) = t.foldlM memberDot (.val v) := by
  induction t generalizing v with
  | nil => simp [dictFind, List.foldlM]
  | cons f fs ih =>
    cases v with
    | map kvs =>
      simp only [dictFind, List.foldlM_cons, memberDot]
      cases hl : lookup f kvs with
      | none => simp
      | some v' => simpa using ih v'
    | int n => simp [dictFind, memberDot]
    | null => simp [dictFind, memberDot]
    | list xs => simp [dictFind, memberDot]
    | ncobj => simp [dictFind, memberDot]
    | annobj a => simp [dictFind, memberDot]

/-- `find_name` on a non-empty path is the walk -/
theorem findName_eq_walk (p : List String) : ∀ (nc : NC), p ≠ [] →
    (match findName nc p with | .ok r => some r | .error _ => none) = walk nc p := by
  induction p with
  | nil => intro nc h; exact absurd rfl h
  | cons h t ih =>
    intro nc _
    simp only [findName, walk]
    cases hl : lookup h nc with
    | none => simp
    | some node =>
      simp only [Option.bind_some]
      cases t with
      | nil => simp [List.foldlM]
      | cons f t' =>
        simp only [List.isEmpty_cons, Bool.false_eq_true, ↓reduceIte]
        rcases node with ⟨a, v, kids⟩
        cases hk : kids with
        | cons e ks =>
          have := ih (e :: ks) (by simp)
          simp only [Node.kids, List.isEmpty_cons, Bool.not_false, ↓reduceIte, this, walk, Node.result,
            List.foldlM_cons, memberDot]
          cases lookup f (e :: ks) with
          | none => simp
          | some n' => rcases n' with ⟨a', v', k'⟩; cases k' <;> simp [Node.result]
        | nil =>
          simp only [Node.kids, List.isEmpty_nil, Bool.not_true, Bool.false_eq_true, ↓reduceIte, Node.value,
            Node.result]
          cases v with
          | none =>
            cases a <;> simp [memberDot]
          | some v =>
            cases v with
            | map kvs => exact dictFind_eq (.map kvs) (f :: t')
            | int n => simp [memberDot]
            | null => simp [memberDot]
            | list xs => simp [memberDot]
            | ncobj => simp [memberDot]
            | annobj a => simp [memberDot]

theorem walk_append (nc : NC) (p : List String) (rest : List String) (hp : p ≠ []) :
    walk nc (p ++ rest) = (walk nc p).bind fun r => rest.foldlM memberDot r := by
  cases p with
  | nil => exact absurd rfl hp
  | cons h t =>
    simp only [walk, List.cons_append]
    cases lookup h nc with
    | none => simp
    | some n => simp [List.foldlM_append]


theorem snoc_induction {α : Type} {P : List α → Prop} (nil : P [])
    (snoc : ∀ (l : List α) (a : α), P l → P (l ++ [a])) : ∀ l, P l := by
  intro l
  have : ∀ r : List α, P r.reverse := by
    intro r
    induction r with
    | nil => exact nil
    | cons a r ih => simpa using snoc _ a ih
  simpa using this l.reverse

/-! ### hypotheses on binding lists -/

/-- every binding has a name -/
def NonEmptyNames (bs : List (List String × Val)) : Prop := ∀ b, b ∈ bs → b.1 ≠ []

/-- no bound name is a proper prefix of another bound name -/
def PrefixFree (bs : List (List String × Val)) : Prop :=
  ∀ b1, b1 ∈ bs → ∀ b2, b2 ∈ bs → b1.1 <+: b2.1 → b1.1 = b2.1

theorem mem_sub {bs : List (List String × Val)} {h : String} {t : List String} {v : Val} :
    (t, v) ∈ sub bs h ↔ t ≠ [] ∧ (h :: t, v) ∈ bs := by
  simp only [sub, List.mem_filterMap]
  constructor
  · rintro ⟨b, hb, hs⟩
    rcases b with ⟨p, w⟩
    unfold subOne at hs
    split at hs
    · rename_i h' t' heq
      split at hs
      · rename_i hc
        simp only [Option.some.injEq, Prod.mk.injEq] at hs
        obtain ⟨rfl, rfl⟩ := hs
        simp only at heq
        subst heq
        obtain ⟨rfl, hne⟩ := hc
        exact ⟨by cases t' <;> simp_all, hb⟩
      · simp at hs
    · simp at hs
  · rintro ⟨hne, hb⟩
    refine ⟨(h :: t, v), hb, ?_⟩
    cases t with
    | nil => exact absurd rfl hne
    | cons f t' => simp [subOne]

theorem sub_nonEmpty (bs : List (List String × Val)) (h : String) : NonEmptyNames (sub bs h) := by
  intro b hb
  rcases b with ⟨t, v⟩
  exact (mem_sub.mp hb).1

theorem sub_prefixFree {bs : List (List String × Val)} (h : String) (hp : PrefixFree bs) : PrefixFree (sub bs h) := by
  intro b1 h1 b2 h2 hpre
  rcases b1 with ⟨t1, v1⟩
  rcases b2 with ⟨t2, v2⟩
  have m1 := (mem_sub.mp h1).2
  have m2 := (mem_sub.mp h2).2
  have := hp _ m1 _ m2 (by simpa using List.prefix_cons_inj h |>.mpr hpre)
  simpa using this

theorem boundAt_some_mem {bs : List (List String × Val)} {p : List String} {v : Val}
    (h : boundAt bs p = some v) : (p, v) ∈ bs := by
  simp only [boundAt, Option.map_eq_some_iff] at h
  obtain ⟨b, hb, rfl⟩ := h
  have hm := List.mem_of_find?_eq_some hb
  have hp := List.find?_some hb
  simp only [beq_iff_eq] at hp
  rcases b with ⟨q, w⟩
  simp only at hp
  subst hp
  simpa using hm

theorem boundAt_isSome_iff {bs : List (List String × Val)} {p : List String} :
    (boundAt bs p).isSome = true ↔ ∃ v, (p, v) ∈ bs := by
  constructor
  · intro h
    obtain ⟨v, hv⟩ := Option.isSome_iff_exists.mp h
    exact ⟨v, boundAt_some_mem hv⟩
  · rintro ⟨v, hv⟩
    simp only [boundAt, Option.isSome_map, List.find?_isSome, List.mem_reverse, beq_iff_eq]
    exact ⟨(p, v), hv, rfl⟩

/-- (S1) a longer name is bound iff its tail is bound below the head -/
theorem boundAt_sub (bs : List (List String × Val)) (h : String) (t : List String) (ht : t ≠ []) :
    boundAt bs (h :: t) = boundAt (sub bs h) t := by
  induction bs using snoc_induction with
  | nil => simp [boundAt, sub]
  | snoc bs b ih =>
    have hSub : sub (bs ++ [b]) h = sub bs h ++ (subOne h b).toList := by
      cases hs : subOne h b <;> simp [sub, List.filterMap_append, List.filterMap_cons, hs]
    rw [boundAt_snoc, hSub]
    rcases b with ⟨p, v⟩
    cases hs : subOne h (p, v) with
    | none =>
      simp only [Option.toList_none, List.append_nil, ← ih]
      have : (p == h :: t) = false := by
        apply Bool.eq_false_iff.mpr
        intro hc
        simp only [beq_iff_eq] at hc
        subst hc
        cases t with
        | nil => exact ht rfl
        | cons f t' => simp [subOne] at hs
      simp [this]
    | some x =>
      rcases x with ⟨t', w⟩
      unfold subOne at hs
      split at hs
      · rename_i h' t'' heq
        split at hs
        · rename_i hc
          simp only [Option.some.injEq, Prod.mk.injEq] at hs
          obtain ⟨rfl, rfl⟩ := hs
          simp only at heq
          subst heq
          obtain ⟨rfl, _⟩ := hc
          simp only [Option.toList_some, boundAt_snoc, ← ih]
          by_cases he : t'' = t
          · subst he; simp
          · have : ¬ (h' :: t'' = h' :: t) := by simpa using he
            simp [this, he]
        · simp at hs
      · simp at hs


/-- (S2) -/
theorem bindsUnder_cons (bs : List (List String × Val)) (h : String) (t : List String) (ht : t ≠ []) :
    bindsUnder bs (h :: t) = bindsUnder (sub bs h) t := by
  apply Bool.eq_iff_iff.mpr
  simp only [bindsUnder, List.any_eq_true, List.isPrefixOf_iff_prefix]
  constructor
  · rintro ⟨b, hb, hpre⟩
    rcases b with ⟨p, v⟩
    obtain ⟨s, hs⟩ := hpre
    simp only at hs
    subst hs
    refine ⟨(t ++ s, v), mem_sub.mpr ⟨by cases t <;> simp_all, by simpa using hb⟩, List.prefix_append _ _⟩
  · rintro ⟨b, hb, hpre⟩
    rcases b with ⟨p, v⟩
    obtain ⟨_, hm⟩ := mem_sub.mp hb
    exact ⟨(h :: p, v), hm, (List.prefix_cons_inj h).mpr hpre⟩

theorem bindsUnder_single (bs : List (List String × Val)) (h : String) :
    bindsUnder bs [h] = headBound bs h := by
  simp only [bindsUnder, headBound]
  congr 1
  funext b
  rcases b with ⟨p, v⟩
  cases p with
  | nil => simp
  | cons h' t =>
    simp only [List.isPrefixOf, List.head?_cons, Bool.and_true]
    by_cases hh : h = h'
    · subst hh; simp
    · have : ¬ (h' = h) := fun e => hh e.symm
      have e1 : (h == h') = false := by simpa using hh
      have e2 : (h' == h) = false := by simpa using this
      simp [e1, e2]

theorem headBound_iff {bs : List (List String × Val)} {h : String} :
    headBound bs h = true ↔ ∃ t v, (h :: t, v) ∈ bs := by
  simp only [headBound, List.any_eq_true, beq_iff_eq]
  constructor
  · rintro ⟨b, hb, hh⟩
    rcases b with ⟨p, v⟩
    cases p with
    | nil => simp at hh
    | cons h' t => simp at hh; subst hh; exact ⟨t, v, hb⟩
  · rintro ⟨t, v, hb⟩
    exact ⟨_, hb, by simp⟩

/-- a loaded container with at least one (named) binding is not empty -/
theorem loaded_nonempty (bs : List (List String × Val)) (hne : bs ≠ []) (hn : NonEmptyNames bs) :
    (loadValues [] bs).isEmpty = false := by
  cases bs with
  | nil => exact absurd rfl hne
  | cons b rest =>
    rcases b with ⟨p, v⟩
    cases p with
    | nil => exact absurd rfl (hn ([], v) (by simp))
    | cons h t =>
      have hb : headBound ((h :: t, v) :: rest) h = true := headBound_iff.mpr ⟨t, v, by simp⟩
      have := lookup_loaded ((h :: t, v) :: rest) h
      rw [hb] at this
      cases hl : loadValues [] ((h :: t, v) :: rest) with
      | nil => rw [hl] at this; simp [lookup] at this
      | cons _ _ => rfl

/-- the model's outcome for a path, read off the binding list (recursive form) -/
def specRes (bs : List (List String × Val)) : List String → Option Res
  | [] => none
  | h :: t =>
      if !headBound bs h then none
      else match boundAt bs [h] with
        | some v => t.foldlM memberDot (.val v)
        | none => if t.isEmpty then some (.nc (loadValues [] (sub bs h))) else specRes (sub bs h) t

/-- (W1) on prefix-free bindings the walk through the loaded container is `specRes` -/
theorem walk_loaded (p : List String) : ∀ (bs : List (List String × Val)), PrefixFree bs → NonEmptyNames bs →
    p ≠ [] → walk (loadValues [] bs) p = specRes bs p := by
  induction p with
  | nil => intro _ _ _ h; exact absurd rfl h
  | cons h t ih =>
    intro bs hpf hne _
    simp only [walk, specRes, lookup_loaded]
    by_cases hb : headBound bs h = true
    · simp only [hb, ↓reduceIte, Option.bind_some, Bool.not_true, Bool.false_eq_true]
      cases hv : boundAt bs [h] with
      | some v =>
        -- a bound name has nothing below it
        have hsub : sub bs h = [] := by
          cases hs : sub bs h with
          | nil => rfl
          | cons x xs =>
            exfalso
            rcases x with ⟨t', w⟩
            have hm : (t', w) ∈ sub bs h := by simp [hs]
            obtain ⟨hne', hm'⟩ := mem_sub.mp hm
            have := hpf _ (boundAt_some_mem hv) _ hm' (by simp)
            simp at this
            exact hne' this
        simp [hsub, loadValues, Node.result]
      | none =>
        -- some binding continues below `h`
        have hsub : sub bs h ≠ [] := by
          obtain ⟨t', w, hm⟩ := headBound_iff.mp hb
          cases t' with
          | nil =>
            have : (boundAt bs [h]).isSome = true := boundAt_isSome_iff.mpr ⟨w, hm⟩
            simp [hv] at this
          | cons f t'' =>
            intro hc
            have : (f :: t'', w) ∈ sub bs h := mem_sub.mpr ⟨by simp, hm⟩
            simp [hc] at this
        have hk := loaded_nonempty (sub bs h) hsub (sub_nonEmpty bs h)
        simp only [Node.result, hk, Bool.not_false, ↓reduceIte]
        cases t with
        | nil => simp [List.foldlM]
        | cons f t' =>
          have := ih (sub bs h) (sub_prefixFree h hpf) (sub_nonEmpty bs h) (by simp)
          simp only [List.isEmpty_cons, Bool.false_eq_true, ↓reduceIte, ← this, walk, List.foldlM_cons, memberDot]
          cases lookup f (loadValues [] (sub bs h)) <;> simp
    · simp only [Bool.not_eq_true] at hb
      simp [hb]


/-- (F1) `member_dot` on a bound value is field selection -/
theorem foldlM_val (t : List String) : ∀ v : Val,
    (t.foldlM memberDot (.val v)).bind Res.toVal = selectFields v t := by
  induction t with
  | nil => intro v; simp [List.foldlM, Res.toVal, selectFields]
  | cons f fs ih =>
    intro v
    cases v with
    | map kvs =>
      simp only [List.foldlM_cons, memberDot, selectFields]
      cases lookup f kvs with
      | none => simp
      | some v' => simpa using ih v'
    | int n => simp [memberDot, selectFields]
    | null => simp [memberDot, selectFields]
    | list xs => simp [memberDot, selectFields]
    | ncobj => simp [memberDot, selectFields]
    | annobj a => simp [memberDot, selectFields]

theorem longestBound_none (bs : List (List String × Val)) (full : List String) (lo : Nat) : ∀ K : Nat,
    (∀ k, lo ≤ k → k ≤ K → boundAt bs (full.take k) = none) → longestBound bs full lo K = none := by
  intro K
  induction K with
  | zero => intro _; rfl
  | succ K ih =>
    intro h
    simp only [longestBound]
    split
    · rfl
    · rename_i hlo
      have : boundAt bs (full.take (K+1)) = none := h (K+1) (by omega) (Nat.le_refl _)
      simp only [this]
      exact ih (fun k h1 h2 => h k h1 (by omega))

theorem longestBound_some (bs : List (List String × Val)) (full : List String) (lo k0 : Nat) (v : Val) :
    ∀ K : Nat, lo ≤ k0 → 0 < k0 → k0 ≤ K → boundAt bs (full.take k0) = some v →
    (∀ k, k0 < k → k ≤ K → boundAt bs (full.take k) = none) → longestBound bs full lo K = some (k0, v) := by
  intro K
  induction K with
  | zero => intro _ h0 hK; omega
  | succ K ih =>
    intro hlo h0 hK hv hnone
    simp only [longestBound]
    have : ¬ (K + 1 < lo) := by omega
    simp only [this, ↓reduceIte]
    by_cases he : k0 = K + 1
    · subst he; simp [hv]
    · have : boundAt bs (full.take (K+1)) = none := hnone (K+1) (by omega) (Nat.le_refl _)
      simp only [this]
      exact ih hlo h0 (by omega) hv (fun k h1 h2 => hnone k h1 (by omega))

/-- (SP a) the bound prefix decides the outcome: field selections from its value -/
theorem specRes_bound (p : List String) : ∀ (bs : List (List String × Val)) (k0 : Nat) (v : Val),
    PrefixFree bs → 0 < k0 → k0 ≤ p.length → boundAt bs (p.take k0) = some v →
    specRes bs p = (p.drop k0).foldlM memberDot (.val v) := by
  induction p with
  | nil => intro bs k0 v _ h0 hk; simp at hk; omega
  | cons h t ih =>
    intro bs k0 v hpf h0 hk hv
    have hmem := boundAt_some_mem hv
    cases k0 with
    | zero => omega
    | succ k =>
      simp only [List.take_succ_cons] at hv hmem
      have hb : headBound bs h = true := headBound_iff.mpr ⟨_, _, hmem⟩
      simp only [specRes, hb, Bool.not_true, Bool.false_eq_true, ↓reduceIte, List.drop_succ_cons]
      cases k with
      | zero =>
        simp only [List.take_zero] at hv
        simp [hv]
      | succ k' =>
        have hk' : k' + 1 ≤ t.length := by simpa using hk
        have htk : t.take (k'+1) ≠ [] := by
          cases t with
          | nil => simp at hk'
          | cons f t' => simp
        have ht : t ≠ [] := by intro hc; subst hc; simp at hk'
        -- `[h]` itself is not bound (it would be a proper prefix of a bound name)
        have hnone : boundAt bs [h] = none := by
          cases hx : boundAt bs [h] with
          | none => rfl
          | some w =>
            exfalso
            have := hpf _ (boundAt_some_mem hx) _ hmem (by simp)
            simp at this
            exact ht this
        rw [boundAt_sub bs h _ htk] at hv
        simp only [hnone]
        have hte : t.isEmpty = false := by cases t <;> simp_all
        simp only [hte, Bool.false_eq_true, ↓reduceIte]
        exact ih (sub bs h) (k'+1) v (sub_prefixFree h hpf) (by omega) hk' hv

/-- the path is a proper prefix of some bound name -/
def namespaceOnly (bs : List (List String × Val)) (p : List String) : Prop :=
  ∃ b, b ∈ bs ∧ p <+: b.1 ∧ p ≠ b.1

/-- (SP b) without a bound prefix the walk finds a namespace (exactly when some name goes on) or nothing -/
theorem specRes_unbound (p : List String) : ∀ (bs : List (List String × Val)),
    NonEmptyNames bs → p ≠ [] → (∀ k, 0 < k → k ≤ p.length → boundAt bs (p.take k) = none) →
    ((specRes bs p).isSome = bindsUnder bs p) ∧ (∀ r, specRes bs p = some r → r.toVal = some .ncobj) := by
  induction p with
  | nil => intro _ _ h; exact absurd rfl h
  | cons h t ih =>
    intro bs hne _ hnb
    have h1 : boundAt bs [h] = none := by simpa using hnb 1 (by omega) (by simp)
    by_cases hb : headBound bs h = true
    · simp only [specRes, hb, Bool.not_true, Bool.false_eq_true, ↓reduceIte, h1]
      cases t with
      | nil =>
        simp only [List.isEmpty_nil, ↓reduceIte, Option.isSome_some, bindsUnder_single, hb, true_and]
        intro r hr
        simp only [Option.some.injEq] at hr
        subst hr
        rfl
      | cons f t' =>
        simp only [List.isEmpty_cons, Bool.false_eq_true, ↓reduceIte]
        rw [bindsUnder_cons bs h (f :: t') (by simp)]
        apply ih (sub bs h) (sub_nonEmpty bs h) (by simp)
        intro k hk0 hk
        have := hnb (k+1) (by omega) (by simpa using hk)
        rw [List.take_succ_cons, boundAt_sub bs h _ (by cases k <;> simp_all)] at this
        exact this
    · simp only [Bool.not_eq_true] at hb
      simp only [specRes, hb, Bool.not_false, ↓reduceIte, Option.isSome_none]
      refine ⟨?_, by simp⟩
      symm
      apply Bool.eq_false_iff.mpr
      intro hc
      simp only [bindsUnder, List.any_eq_true, List.isPrefixOf_iff_prefix] at hc
      obtain ⟨b, hbm, s, hs⟩ := hc
      have : headBound bs h = true := by
        rcases b with ⟨q, w⟩
        simp only at hs
        subst hs
        exact headBound_iff.mpr ⟨_, _, by simpa using hbm⟩
      simp [hb] at this


theorem longestBound_eq_some {bs : List (List String × Val)} {full : List String} {lo k0 : Nat} {v : Val} :
    ∀ {K : Nat}, longestBound bs full lo K = some (k0, v) →
      lo ≤ k0 ∧ 0 < k0 ∧ k0 ≤ K ∧ boundAt bs (full.take k0) = some v := by
  intro K
  induction K with
  | zero => intro h; simp [longestBound] at h
  | succ K ih =>
    intro h
    simp only [longestBound] at h
    split at h
    · simp at h
    · rename_i hlo
      cases hb : boundAt bs (full.take (K+1)) with
      | some w =>
        simp only [hb, Option.some.injEq, Prod.mk.injEq] at h
        obtain ⟨rfl, rfl⟩ := h
        exact ⟨by omega, by omega, Nat.le_refl _, hb⟩
      | none =>
        simp only [hb] at h
        obtain ⟨a, b, c, d⟩ := ih h
        exact ⟨a, b, by omega, d⟩

theorem longestBound_eq_none {bs : List (List String × Val)} {full : List String} {lo : Nat} :
    ∀ {K : Nat}, longestBound bs full lo K = none →
      ∀ k, lo ≤ k → 0 < k → k ≤ K → boundAt bs (full.take k) = none := by
  intro K
  induction K with
  | zero => intro _ k _ h0 hk; omega
  | succ K ih =>
    intro h k hlo h0 hk
    simp only [longestBound] at h
    split at h
    · omega
    · cases hb : boundAt bs (full.take (K+1)) with
      | some w => simp [hb] at h
      | none =>
        simp only [hb] at h
        by_cases he : k = K + 1
        · subst he; exact hb
        · exact ih h k hlo h0 (by omega)

theorem findSome_align {α β γ : Type} (ls : List α) (f : α → Option β) (g : β → Option γ) (c : α → Bool)
    (X : α → Option γ) (h1 : ∀ a, a ∈ ls → (f a).isSome = c a)
    (h2 : ∀ a, a ∈ ls → c a = true → (f a).bind g = X a) :
    (ls.findSome? f).bind g = (ls.findSome? fun a => if c a then some (X a) else none).join := by
  induction ls with
  | nil => rfl
  | cons a rest ih =>
    have ha := h1 a (by simp)
    simp only [List.findSome?_cons]
    cases hf : f a with
    | none =>
      have : c a = false := by simpa [hf] using ha.symm
      simp only [this, Bool.false_eq_true, ↓reduceIte]
      exact ih (fun x hx => h1 x (by simp [hx])) (fun x hx => h2 x (by simp [hx]))
    | some b =>
      have hc : c a = true := by simpa [hf] using ha.symm
      have := h2 a (by simp) hc
      simp only [hf, Option.bind_some] at this
      simp [hc, this]

theorem mem_targets {pkg L : List String} (h : L ∈ targets pkg) : L <+: pkg := by
  simp only [targets, List.mem_map, List.mem_reverse, List.mem_range] at h
  obtain ⟨k, _, rfl⟩ := h
  exact List.take_prefix k pkg

theorem resolveName_single (nc : NC) (pkg : List String) (head : String) :
    resolveName [nc] pkg head = (targets pkg).findSome? fun L => walk nc (L ++ [head]) := by
  simp only [resolveName, resolveAt, List.findSome?_cons, List.findSome?_nil]
  congr 1
  funext L
  have := findName_eq_walk (L ++ [head]) nc (by simp)
  rw [← this]
  cases findName nc (L ++ [head]) <;> simp

/-- the per-level part of `denote` -/
def levelSpec (bs : List (List String × Val)) (head : String) (rest : List String) (level : List String) : Option Val :=
  match longestBound bs (level ++ head :: rest) (level.length + 1) (level ++ head :: rest).length with
  | some (k, v) => selectFields v ((level ++ head :: rest).drop k)
  | none => none

theorem denote_eq (bs : List (List String × Val)) (pkg : List String) (head : String) (rest : List String) :
    denote bs pkg head rest =
      ((targets pkg).findSome? fun L => if bindsUnder bs (L ++ [head]) then some (levelSpec bs head rest L) else none).join := by
  rfl

theorem resolve_eq_denote_aux (r : Runner) (bs : List (List String × Val)) (pkg : List String) (head : String)
    (rest : List String) (hne : NonEmptyNames bs) (hpf : PrefixFree bs)
    (hpkg : ∀ b, b ∈ bs → ¬ b.1 <+: pkg)
    (hns : ∀ L, L <+: pkg → ¬ namespaceOnly bs (L ++ head :: rest)) :
    eval r pkg [loadValues [] bs] (.ref head rest) = denote bs pkg head rest := by
  rw [denote_eq]
  have hev : eval r pkg [loadValues [] bs] (.ref head rest) =
      (resolveName [loadValues [] bs] pkg head).bind fun r0 => (rest.foldlM memberDot r0).bind Res.toVal := by
    simp only [eval, bind, Option.bind]
  rw [hev, resolveName_single]
  -- bound prefixes shorter than the level would be bindings on the package path
  have hshort : ∀ L, L <+: pkg → ∀ (t : List String) k, k ≤ L.length → boundAt bs ((L ++ t).take k) = none := by
    intro L hL t k hk
    cases hb : boundAt bs ((L ++ t).take k) with
    | none => rfl
    | some w =>
      exfalso
      have hm := boundAt_some_mem hb
      have : (L ++ t).take k = L.take k := by
        rw [List.take_append_of_le_length hk]
      rw [this] at hm
      exact hpkg _ hm ((List.take_prefix k L).trans hL)
  apply findSome_align
  · -- a level is chosen by the code exactly when it binds the head identifier
    intro L hLm
    have hL := mem_targets hLm
    rw [walk_loaded _ bs hpf hne (by simp)]
    cases hb : boundAt bs (L ++ [head]) with
    | some v =>
      have := specRes_bound (L ++ [head]) bs (L ++ [head]).length v hpf (by simp) (Nat.le_refl _)
        (by rw [List.take_length]; exact hb)
      have hbu : bindsUnder bs (L ++ [head]) = true := by
        simp only [bindsUnder, List.any_eq_true, List.isPrefixOf_iff_prefix]
        exact ⟨(L ++ [head], v), boundAt_some_mem hb, List.prefix_refl _⟩
      rw [this, hbu]
      simp [List.foldlM]
    | none =>
      refine (specRes_unbound (L ++ [head]) bs hne (by simp) ?_).1
      intro k hk0 hk
      by_cases hkl : k ≤ L.length
      · exact hshort L hL [head] k hkl
      · have : k = (L ++ [head]).length := by simp at hk ⊢; omega
        subst this
        rw [List.take_length]; exact hb
  · intro L hLm hc
    have hL := mem_targets hLm
    have hfull : L ++ head :: rest = (L ++ [head]) ++ rest := by simp
    have hw : ((walk (loadValues [] bs) (L ++ [head])).bind fun r0 => (rest.foldlM memberDot r0).bind Res.toVal) =
        (walk (loadValues [] bs) (L ++ head :: rest)).bind Res.toVal := by
      have hwa := walk_append (loadValues [] bs) (L ++ [head]) rest (by simp)
      rw [← hfull] at hwa
      rw [hwa]
      cases walk (loadValues [] bs) (L ++ [head]) <;> simp
    rw [hw, walk_loaded _ bs hpf hne (by simp)]
    simp only [levelSpec]
    cases hlb : longestBound bs (L ++ head :: rest) (L.length + 1) (L ++ head :: rest).length with
    | some kv =>
      rcases kv with ⟨k0, v⟩
      obtain ⟨_, h0, hk, hv⟩ := longestBound_eq_some hlb
      rw [specRes_bound _ bs k0 v hpf h0 hk hv]
      exact foldlM_val _ v
    | none =>
      have hun : ∀ k, 0 < k → k ≤ (L ++ head :: rest).length → boundAt bs ((L ++ head :: rest).take k) = none := by
        intro k hk0 hk
        by_cases hkl : k ≤ L.length
        · exact hshort L hL (head :: rest) k hkl
        · exact longestBound_eq_none hlb k (by omega) hk0 hk
      obtain ⟨h1, h2⟩ := specRes_unbound (L ++ head :: rest) bs hne (by simp) hun
      cases hs : specRes bs (L ++ head :: rest) with
      | none => rfl
      | some res =>
        exfalso
        -- the reference would be a pure namespace prefix
        have hbu : bindsUnder bs (L ++ head :: rest) = true := by rw [← h1, hs]; rfl
        simp only [bindsUnder, List.any_eq_true, List.isPrefixOf_iff_prefix] at hbu
        obtain ⟨b, hbm, hpre⟩ := hbu
        apply hns L hL
        refine ⟨b, hbm, hpre, ?_⟩
        intro heq
        have : (boundAt bs (L ++ head :: rest)).isSome = true :=
          boundAt_isSome_iff.mpr ⟨b.2, by rw [heq]; exact hbm⟩
        have hx := hun (L ++ head :: rest).length (by simp; omega) (Nat.le_refl _)
        simp only [List.take_length] at hx
        simp [hx] at this

/-- the container `nested_activation(vars={x: v})` puts in front of the chain -/
def varNC (x : String) (v : Val) : NC := setValue [] [x] v

theorem varNC_eq (x : String) (v : Val) : varNC x v = [(x, .mk none (some v) [])] := by
  simp [varNC, setValue, upsert, Node.empty, Node.ann, Node.kids]

/-- lexically scoped reference semantics: innermost macro variable first, then the outer names -/
def envFind (env : List (String × Val)) (h : String) : Option Val :=
  match env with
  | [] => none
  | (x, v) :: rest => if x = h then some v else envFind rest h

mutual
def evalSpec (glob : String → List String → Option Val) : List (String × Val) → NE → Option Val
  | env, .ref h rest =>
      match envFind env h with
      | some v => selectFields v rest
      | none => glob h rest
  | _, .lit v => some v
  | env, .list es => do let vs ← evalSpecList glob env es; pure (.list vs)
  | env, .map c x body => do
      match (← evalSpec glob env c) with
      | .list vs => do
          let ws ← mapOpt (fun v => evalSpec glob ((x, v) :: env) body) vs
          pure (.list ws)
      | _ => none
def evalSpecList (glob : String → List String → Option Val) : List (String × Val) → List NE → Option (List Val)
  | _, [] => some []
  | env, e :: es => do
      let v ← evalSpec glob env e
      let vs ← evalSpecList glob env es
      pure (v :: vs)
end

def envChain (env : List (String × Val)) : List NC := env.map fun b => varNC b.1 b.2

theorem targets_nil : targets [] = [[]] := by
  simp [targets, List.range_succ]

/-- without a package a name is looked up in each container of the chain, innermost first -/
theorem resolveName_env (env : List (String × Val)) (chain0 : List NC) (h : String) :
    resolveName (envChain env ++ chain0) [] h =
      match envFind env h with
      | some v => some (.val v)
      | none => resolveName chain0 [] h := by
  induction env with
  | nil => simp [envChain, envFind]
  | cons b rest ih =>
    rcases b with ⟨x, v⟩
    simp only [resolveName, targets_nil, List.findSome?_cons, List.findSome?_nil, resolveAt, envChain,
      List.map_cons, List.cons_append, List.nil_append, varNC_eq, findName, lookup, envFind] at ih ⊢
    by_cases hx : x = h
    · subst hx
      simp [Node.result]
    · simp only [hx, ↓reduceIte]
      simpa using ih


theorem eval_ref (r : Runner) (pkg : List String) (chain : List NC) (h : String) (rest : List String) :
    eval r pkg chain (.ref h rest) =
      (resolveName chain pkg h).bind fun r0 => (rest.foldlM memberDot r0).bind Res.toVal := by
  simp only [eval, bind, Option.bind]

/-- what a reference means outside every macro: the evaluator on the enclosing chain -/
def outer (r : Runner) (chain0 : List NC) : String → List String → Option Val :=
  fun h rest => eval r [] chain0 (.ref h rest)

mutual
/-- the evaluators bind macro variables lexically, at every nesting depth -/
theorem eval_eq_evalSpec (r : Runner) (chain0 : List NC) :
    ∀ (e : NE) (env : List (String × Val)),
      eval r [] (envChain env ++ chain0) e = evalSpec (outer r chain0) env e
  | .ref h rest, env => by
      rw [eval_ref, resolveName_env]
      simp only [evalSpec]
      cases envFind env h with
      | some v => simpa using foldlM_val rest v
      | none => simp only [outer, eval_ref]
  | .lit v, env => by simp [eval, evalSpec]
  | .list es, env => by
      simp only [eval, evalSpec, evalList_eq_evalSpecList r chain0 es env]
  | .map c x body, env => by
      simp only [eval, evalSpec, eval_eq_evalSpec r chain0 c env]
      have hb : ∀ v, eval r [] (bindVar r (envChain env ++ chain0) x v) body =
          evalSpec (outer r chain0) ((x, v) :: env) body := by
        intro v
        have := eval_eq_evalSpec r chain0 body ((x, v) :: env)
        simpa [bindVar, envChain, varNC] using this
      simp only [hb]
      rfl
theorem evalList_eq_evalSpecList (r : Runner) (chain0 : List NC) :
    ∀ (es : List NE) (env : List (String × Val)),
      evalList r [] (envChain env ++ chain0) es =
        evalSpecList (outer r chain0) env es
  | [], env => by simp [evalList, evalSpecList]
  | e :: es, env => by
      simp only [evalList, evalSpecList, eval_eq_evalSpec r chain0 e env, evalList_eq_evalSpecList r chain0 es env]
end

mutual
theorem runners_agree (pkg : List String) : ∀ (e : NE) (chain : List NC), eval .I pkg chain e = eval .C pkg chain e
  | .ref h rest, chain => by simp only [eval]
  | .lit v, chain => by simp only [eval]
  | .list es, chain => by simp only [eval, runners_agree_list pkg es chain]
  | .map c x body, chain => by
      simp only [eval, runners_agree pkg c chain]
      have hb : ∀ v, eval .I pkg (bindVar .I chain x v) body = eval .C pkg (bindVar .C chain x v) body := by
        intro v
        simpa [bindVar] using runners_agree pkg body (setValue [] [x] v :: chain)
      simp only [hb]
theorem runners_agree_list (pkg : List String) : ∀ (es : List NE) (chain : List NC),
    evalList .I pkg chain es = evalList .C pkg chain es
  | [], chain => by simp only [evalList]
  | e :: es, chain => by simp only [evalList, runners_agree pkg e chain, runners_agree_list pkg es chain]
end


theorem upsert_ne_nil (nc : NC) (k : String) (f : Node → Node) : upsert nc k f ≠ [] := by
  cases nc with
  | nil => simp [upsert]
  | cons e rest =>
    rcases e with ⟨k', n⟩
    simp only [upsert]
    split <;> simp

theorem setValue_ne_nil (nc : NC) (p : List String) (v : Val) (hp : p ≠ []) : setValue nc p v ≠ [] := by
  match p with
  | [] => exact absurd rfl hp
  | [f] => simp only [setValue]; exact upsert_ne_nil _ _ _
  | h :: t1 :: t2 => simp only [setValue]; exact upsert_ne_nil _ _ _

theorem walk_into_kids (nc : NC) (h : String) (t : List String) (a : Option Nat) (v : Option Val) (kids : NC)
    (hl : lookup h nc = some (.mk a v kids)) (hk : kids ≠ []) (ht : t ≠ []) :
    walk nc (h :: t) = walk kids t := by
  cases t with
  | nil => exact absurd rfl ht
  | cons f t' =>
    have hke : kids.isEmpty = false := by cases kids <;> simp_all
    simp only [walk, hl, Option.bind_some, Node.result, hke, Bool.not_false, ↓reduceIte, List.foldlM_cons, memberDot]
    cases lookup f kids with
    | none => simp
    | some n' => rcases n' with ⟨a', v', k'⟩; cases k' <;> simp [Node.result]

/-- a declared, unbound name evaluates to its annotation; once bound, to the value -/
theorem declared_then_bound (p : List String) (a : Nat) (v : Val) (hp : p ≠ []) :
    walk (setAnn [] p a) p = some (.ann a) ∧ walk (setValue (setAnn [] p a) p v) p = some (.val v) := by
  induction p with
  | nil => exact absurd rfl hp
  | cons h t ih =>
    cases t with
    | nil =>
      simp [setAnn, setValue, lookup, upsert, walk, Node.result, Node.ann, Node.kids, List.foldlM]
    | cons f t' =>
      obtain ⟨ih1, ih2⟩ := ih (by simp)
      have hA : setAnn [] (h :: f :: t') a = [(h, .mk none none (setAnn [] (f :: t') a))] := by
        simp [setAnn, upsert, Node.empty, Node.ann, Node.value, Node.kids]
      have hV : setValue (setAnn [] (h :: f :: t') a) (h :: f :: t') v =
          [(h, .mk none none (setValue (setAnn [] (f :: t') a) (f :: t') v))] := by
        rw [hA]
        simp [setValue, upsert, Node.ann, Node.value, Node.kids]
      have hne1 : setAnn [] (f :: t') a ≠ [] := by
        cases t' with
        | nil => simp [setAnn, lookup]
        | cons g t'' => simp only [setAnn]; exact upsert_ne_nil _ _ _
      constructor
      · rw [hA, walk_into_kids _ h (f :: t') none none _ (by simp [lookup]) hne1 (by simp)]
        exact ih1
      · rw [hV, walk_into_kids _ h (f :: t') none none (setValue (setAnn [] (f :: t') a) (f :: t') v)
          (by simp [lookup]) (setValue_ne_nil _ _ _ (by simp)) (by simp)]
        exact ih2

/-- what the code computes for a path, for ANY binding list: below an identifier the container (if
some longer name exists) wins over the value -/
def specResG (bs : List (List String × Val)) : List String → Option Res
  | [] => none
  | h :: t =>
      if !headBound bs h then none
      else if (sub bs h).isEmpty then
        match boundAt bs [h] with
        | some v => t.foldlM memberDot (.val v)
        | none => none
      else if t.isEmpty then some (.nc (loadValues [] (sub bs h)))
      else specResG (sub bs h) t

/-- the walk through the loaded containers, characterised for every binding list -/
theorem walk_loadedG (p : List String) : ∀ (bs : List (List String × Val)), NonEmptyNames bs →
    p ≠ [] → walk (loadValues [] bs) p = specResG bs p := by
  induction p with
  | nil => intro _ _ h; exact absurd rfl h
  | cons h t ih =>
    intro bs hne _
    simp only [walk, specResG, lookup_loaded]
    by_cases hb : headBound bs h = true
    · simp only [hb, ↓reduceIte, Option.bind_some, Bool.not_true, Bool.false_eq_true]
      cases hs : sub bs h with
      | nil =>
        -- only `[h]` itself is bound
        have hv : (boundAt bs [h]).isSome = true := by
          obtain ⟨t', w, hm⟩ := headBound_iff.mp hb
          cases t' with
          | nil => exact boundAt_isSome_iff.mpr ⟨w, hm⟩
          | cons f t'' =>
            have : (f :: t'', w) ∈ sub bs h := mem_sub.mpr ⟨by simp, hm⟩
            simp [hs] at this
        obtain ⟨v, hv⟩ := Option.isSome_iff_exists.mp hv
        simp [hv, loadValues, Node.result]
      | cons x xs =>
        have hk := loaded_nonempty (sub bs h) (by simp [hs]) (sub_nonEmpty bs h)
        rw [hs] at hk
        simp only [Node.result, hk, Bool.not_false, ↓reduceIte, List.isEmpty_cons, Bool.false_eq_true]
        cases t with
        | nil => simp [List.foldlM]
        | cons f t' =>
          have := ih (sub bs h) (sub_nonEmpty bs h) (by simp)
          rw [hs] at this
          simp only [List.isEmpty_cons, Bool.false_eq_true, ↓reduceIte, ← this, walk, List.foldlM_cons, memberDot]
          cases lookup f (loadValues [] (x :: xs)) <;> simp
    · simp only [Bool.not_eq_true] at hb
      simp [hb]

/-- a bound prefix that no other name extends decides the outcome: field selections from its value
(whatever is bound above it: there the containers win) -/
theorem specResG_bound (p : List String) : ∀ (bs : List (List String × Val)) (k0 : Nat) (v : Val),
    0 < k0 → k0 ≤ p.length → boundAt bs (p.take k0) = some v →
    (∀ b, b ∈ bs → p.take k0 <+: b.1 → b.1 = p.take k0) →
    specResG bs p = (p.drop k0).foldlM memberDot (.val v) := by
  induction p with
  | nil => intro bs k0 v h0 hk; simp at hk; omega
  | cons h t ih =>
    intro bs k0 v h0 hk hv hclean
    have hmem := boundAt_some_mem hv
    cases k0 with
    | zero => omega
    | succ k =>
      simp only [List.take_succ_cons] at hv hmem hclean
      have hb : headBound bs h = true := headBound_iff.mpr ⟨_, _, hmem⟩
      simp only [specResG, hb, Bool.not_true, Bool.false_eq_true, ↓reduceIte, List.drop_succ_cons]
      cases k with
      | zero =>
        simp only [List.take_zero] at hv hclean
        have hsub : sub bs h = [] := by
          cases hs : sub bs h with
          | nil => rfl
          | cons x xs =>
            exfalso
            rcases x with ⟨t', w⟩
            have hm : (t', w) ∈ sub bs h := by simp [hs]
            obtain ⟨hne', hm'⟩ := mem_sub.mp hm
            have := hclean _ hm' (by simp)
            simp at this
            exact hne' this
        simp [hsub, hv]
      | succ k' =>
        have hk' : k' + 1 ≤ t.length := by simpa using hk
        have htk : t.take (k'+1) ≠ [] := by
          cases t with
          | nil => simp at hk'
          | cons f t' => simp
        have ht : t ≠ [] := by intro hc; subst hc; simp at hk'
        have hsub : (sub bs h).isEmpty = false := by
          have : (t.take (k'+1), v) ∈ sub bs h := mem_sub.mpr ⟨htk, hmem⟩
          cases hs : sub bs h with
          | nil => simp [hs] at this
          | cons _ _ => rfl
        have hte : t.isEmpty = false := by cases t <;> simp_all
        rw [boundAt_sub bs h _ htk] at hv
        simp only [hsub, hte, Bool.false_eq_true, ↓reduceIte]
        apply ih (sub bs h) (k'+1) v (by omega) hk' hv
        intro b hbm hpre
        rcases b with ⟨q, w⟩
        obtain ⟨_, hm'⟩ := mem_sub.mp hbm
        have := hclean _ hm' ((List.prefix_cons_inj h).mpr hpre)
        simpa using this

/-- without any bound prefix the walk finds a namespace (exactly when some name goes on) or nothing -/
theorem specResG_unbound (p : List String) : ∀ (bs : List (List String × Val)),
    NonEmptyNames bs → p ≠ [] → (∀ k, 0 < k → k ≤ p.length → boundAt bs (p.take k) = none) →
    ((specResG bs p).isSome = bindsUnder bs p) ∧ (∀ r, specResG bs p = some r → r.toVal = some .ncobj) := by
  induction p with
  | nil => intro _ _ h; exact absurd rfl h
  | cons h t ih =>
    intro bs hne _ hnb
    have h1 : boundAt bs [h] = none := by simpa using hnb 1 (by omega) (by simp)
    by_cases hb : headBound bs h = true
    · have hsub : (sub bs h).isEmpty = false := by
        obtain ⟨t', w, hm⟩ := headBound_iff.mp hb
        cases t' with
        | nil =>
          have : (boundAt bs [h]).isSome = true := boundAt_isSome_iff.mpr ⟨w, hm⟩
          simp [h1] at this
        | cons f t'' =>
          have : (f :: t'', w) ∈ sub bs h := mem_sub.mpr ⟨by simp, hm⟩
          cases hs : sub bs h with
          | nil => simp [hs] at this
          | cons _ _ => rfl
      simp only [specResG, hb, Bool.not_true, Bool.false_eq_true, ↓reduceIte, hsub]
      cases t with
      | nil =>
        simp only [List.isEmpty_nil, ↓reduceIte, Option.isSome_some, bindsUnder_single, hb, true_and]
        intro r hr
        simp only [Option.some.injEq] at hr
        subst hr
        rfl
      | cons f t' =>
        simp only [List.isEmpty_cons, Bool.false_eq_true, ↓reduceIte]
        rw [bindsUnder_cons bs h (f :: t') (by simp)]
        apply ih (sub bs h) (sub_nonEmpty bs h) (by simp)
        intro k hk0 hk
        have := hnb (k+1) (by omega) (by simpa using hk)
        rw [List.take_succ_cons, boundAt_sub bs h _ (by cases k <;> simp_all)] at this
        exact this
    · simp only [Bool.not_eq_true] at hb
      simp only [specResG, hb, Bool.not_false, ↓reduceIte, Option.isSome_none]
      refine ⟨?_, by simp⟩
      symm
      apply Bool.eq_false_iff.mpr
      intro hc
      simp only [bindsUnder, List.any_eq_true, List.isPrefixOf_iff_prefix] at hc
      obtain ⟨b, hbm, s, hs⟩ := hc
      have : headBound bs h = true := by
        rcases b with ⟨q, w⟩
        simp only at hs
        subst hs
        exact headBound_iff.mpr ⟨_, _, by simpa using hbm⟩
      simp [hb] at this


/-- a level is found exactly when some name starts with the path, provided no proper prefix of the path
is itself bound -/
theorem specResG_isSome (p : List String) : ∀ (bs : List (List String × Val)),
    NonEmptyNames bs → p ≠ [] → (∀ k, 0 < k → k < p.length → boundAt bs (p.take k) = none) →
    (specResG bs p).isSome = bindsUnder bs p := by
  induction p with
  | nil => intro _ _ h; exact absurd rfl h
  | cons h t ih =>
    intro bs hne _ hnb
    by_cases hb : headBound bs h = true
    · cases t with
      | nil =>
        simp only [specResG, hb, Bool.not_true, Bool.false_eq_true, ↓reduceIte, List.isEmpty_nil,
          bindsUnder_single]
        cases hs : sub bs h with
        | nil =>
          have hv : (boundAt bs [h]).isSome = true := by
            obtain ⟨t', w, hm⟩ := headBound_iff.mp hb
            cases t' with
            | nil => exact boundAt_isSome_iff.mpr ⟨w, hm⟩
            | cons f t'' =>
              have : (f :: t'', w) ∈ sub bs h := mem_sub.mpr ⟨by simp, hm⟩
              simp [hs] at this
          obtain ⟨v, hv⟩ := Option.isSome_iff_exists.mp hv
          simp [hv, List.foldlM]
        | cons x xs => simp
      | cons f t' =>
        have h1 : boundAt bs [h] = none := by simpa using hnb 1 (by omega) (by simp)
        have hsub : (sub bs h).isEmpty = false := by
          obtain ⟨t'', w, hm⟩ := headBound_iff.mp hb
          cases t'' with
          | nil =>
            have : (boundAt bs [h]).isSome = true := boundAt_isSome_iff.mpr ⟨w, hm⟩
            simp [h1] at this
          | cons g t''' =>
            have : (g :: t''', w) ∈ sub bs h := mem_sub.mpr ⟨by simp, hm⟩
            cases hs : sub bs h with
            | nil => simp [hs] at this
            | cons _ _ => rfl
        simp only [specResG, hb, Bool.not_true, Bool.false_eq_true, ↓reduceIte, hsub, List.isEmpty_cons]
        rw [bindsUnder_cons bs h (f :: t') (by simp)]
        apply ih (sub bs h) (sub_nonEmpty bs h) (by simp)
        intro k hk0 hk
        have := hnb (k+1) (by omega) (by simpa using hk)
        rw [List.take_succ_cons, boundAt_sub bs h _ (by cases k <;> simp_all)] at this
        exact this
    · simp only [Bool.not_eq_true] at hb
      simp only [specResG, hb, Bool.not_false, ↓reduceIte, Option.isSome_none]
      symm
      apply Bool.eq_false_iff.mpr
      intro hc
      simp only [bindsUnder, List.any_eq_true, List.isPrefixOf_iff_prefix] at hc
      obtain ⟨b, hbm, s, hs⟩ := hc
      have : headBound bs h = true := by
        rcases b with ⟨q, w⟩
        simp only at hs
        subst hs
        exact headBound_iff.mpr ⟨_, _, by simpa using hbm⟩
      simp [hb] at this

/-- the binding the specification selects at `level` (its longest bound prefix) is not extended by
another bound name — the complement of the D19 zone, stated on exactly the binding that is used -/
def CleanAt (bs : List (List String × Val)) (head : String) (rest : List String) (level : List String) : Prop :=
  ∀ k v, longestBound bs (level ++ head :: rest) (level.length + 1) (level ++ head :: rest).length = some (k, v) →
    ∀ b, b ∈ bs → (level ++ head :: rest).take k <+: b.1 → b.1 = (level ++ head :: rest).take k

theorem resolve_eq_denote_clean (r : Runner) (bs : List (List String × Val)) (pkg : List String) (head : String)
    (rest : List String) (hne : NonEmptyNames bs)
    (hclean : ∀ L, L <+: pkg → CleanAt bs head rest L)
    (hpkg : ∀ b, b ∈ bs → ¬ b.1 <+: pkg)
    (hns : ∀ L, L <+: pkg → ¬ namespaceOnly bs (L ++ head :: rest)) :
    eval r pkg [loadValues [] bs] (.ref head rest) = denote bs pkg head rest := by
  rw [denote_eq, eval_ref, resolveName_single]
  have hshort : ∀ L, L <+: pkg → ∀ (t : List String) k, k ≤ L.length → boundAt bs ((L ++ t).take k) = none := by
    intro L hL t k hk
    cases hb : boundAt bs ((L ++ t).take k) with
    | none => rfl
    | some w =>
      exfalso
      have hm := boundAt_some_mem hb
      have : (L ++ t).take k = L.take k := by
        rw [List.take_append_of_le_length hk]
      rw [this] at hm
      exact hpkg _ hm ((List.take_prefix k L).trans hL)
  apply findSome_align
  · intro L hLm
    have hL := mem_targets hLm
    rw [walk_loadedG _ bs hne (by simp)]
    apply specResG_isSome _ bs hne (by simp)
    intro k hk0 hk
    exact hshort L hL [head] k (by simp at hk; omega)
  · intro L hLm hc
    have hL := mem_targets hLm
    have hfull : L ++ head :: rest = (L ++ [head]) ++ rest := by simp
    have hw : ((walk (loadValues [] bs) (L ++ [head])).bind fun r0 => (rest.foldlM memberDot r0).bind Res.toVal) =
        (walk (loadValues [] bs) (L ++ head :: rest)).bind Res.toVal := by
      have hwa := walk_append (loadValues [] bs) (L ++ [head]) rest (by simp)
      rw [← hfull] at hwa
      rw [hwa]
      cases walk (loadValues [] bs) (L ++ [head]) <;> simp
    rw [hw, walk_loadedG _ bs hne (by simp)]
    simp only [levelSpec]
    cases hlb : longestBound bs (L ++ head :: rest) (L.length + 1) (L ++ head :: rest).length with
    | some kv =>
      rcases kv with ⟨k0, v⟩
      obtain ⟨_, h0, hk, hv⟩ := longestBound_eq_some hlb
      rw [specResG_bound _ bs k0 v h0 hk hv (hclean L hL k0 v hlb)]
      exact foldlM_val _ v
    | none =>
      have hun : ∀ k, 0 < k → k ≤ (L ++ head :: rest).length → boundAt bs ((L ++ head :: rest).take k) = none := by
        intro k hk0 hk
        by_cases hkl : k ≤ L.length
        · exact hshort L hL (head :: rest) k hkl
        · exact longestBound_eq_none hlb k (by omega) hk0 hk
      obtain ⟨h1, h2⟩ := specResG_unbound (L ++ head :: rest) bs hne (by simp) hun
      cases hs : specResG bs (L ++ head :: rest) with
      | none => rfl
      | some res =>
        exfalso
        have hbu : bindsUnder bs (L ++ head :: rest) = true := by rw [← h1, hs]; rfl
        simp only [bindsUnder, List.any_eq_true, List.isPrefixOf_iff_prefix] at hbu
        obtain ⟨b, hbm, hpre⟩ := hbu
        apply hns L hL
        refine ⟨b, hbm, hpre, ?_⟩
        intro heq
        have : (boundAt bs (L ++ head :: rest)).isSome = true :=
          boundAt_isSome_iff.mpr ⟨b.2, by rw [heq]; exact hbm⟩
        have hx := hun (L ++ head :: rest).length (by simp; omega) (Nat.le_refl _)
        simp only [List.take_length] at hx
        simp [hx] at this

/-- prefix-free binding lists are clean at every level -/
theorem cleanAt_of_prefixFree {bs : List (List String × Val)} (hpf : PrefixFree bs) (head : String)
    (rest : List String) (L : List String) : CleanAt bs head rest L := by
  intro k v hlb b hbm hpre
  obtain ⟨_, _, _, hv⟩ := longestBound_eq_some hlb
  exact (hpf _ (boundAt_some_mem hv) _ hbm hpre).symm

end Cel.Names
