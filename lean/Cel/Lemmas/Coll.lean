/-
  Lemmas about the collection model (Cel.Model.Coll): macro folds, membership, strings, maps.
-/
import Cel.Model.Coll
namespace Cel.Coll

/-! ### map -/

/-- element-wise relation between two lists (core Lean has no `Forall2`) -/
inductive Forall2 {α β : Type} (R : α → β → Prop) : List α → List β → Prop
  | nil : Forall2 R [] []
  | cons {a b l r} : R a b → Forall2 R l r → Forall2 R (a :: l) (b :: r)

theorem mapM_nil (f : V → PyM V) : mapM f [] = .ok [] := by
  simp [mapM, List.mapM_nil, pure, Except.pure]

theorem mapM_cons (f : V → PyM V) (x : V) (xs : List V) :
    mapM f (x :: xs) = (do let y ← f x; let ys ← mapM f xs; pure (y :: ys)) := by
  simp [mapM, List.mapM_cons]

/-- `mapM f l = .ok r` exactly when `r` is the element-wise image -/
theorem mapM_ok_iff (f : V → PyM V) : ∀ (l r : List V),
    mapM f l = .ok r ↔ Forall2 (fun x y => f x = .ok y) l r := by
  intro l
  induction l with
  | nil =>
    intro r
    rw [mapM_nil]
    constructor
    · intro h; cases h; exact .nil
    · intro h; cases h; rfl
  | cons x xs ih =>
    intro r
    rw [mapM_cons]
    constructor
    · intro h
      cases hx : f x with
      | error e => simp [hx, bind, Except.bind] at h
      | ok y =>
        cases hxs : mapM f xs with
        | error e => simp [hx, hxs, bind, Except.bind] at h
        | ok ys =>
          simp [hx, hxs, bind, Except.bind, pure, Except.pure] at h
          subst h
          exact .cons hx ((ih ys).mp hxs)
    · intro h
      cases h with
      | cons hx hrest =>
        rename_i y ys
        have := (ih ys).mpr hrest
        simp [hx, this, bind, Except.bind, pure, Except.pure]

theorem forall₂_length {α β} {R : α → β → Prop} {l : List α} {r : List β} (h : Forall2 R l r) :
    l.length = r.length := by
  induction h with
  | nil => rfl
  | cons _ _ ih => simp [ih]

theorem forall₂_get {α β} {R : α → β → Prop} {l : List α} {r : List β} (h : Forall2 R l r) :
    ∀ (i : Nat) (x : α), l[i]? = some x → ∃ y, r[i]? = some y ∧ R x y := by
  induction h with
  | nil => intro i x hx; simp at hx
  | cons h1 _ ih =>
    intro i x hx
    cases i with
    | zero => simp at hx; subst hx; exact ⟨_, by simp, h1⟩
    | succ i => simp at hx; simpa using ih i x hx

/-- if `f` succeeds on every element, so does the macro -/
theorem mapM_total (f : V → PyM V) (g : V → V) (l : List V) (h : ∀ x, x ∈ l → f x = .ok (g x)) :
    mapM f l = .ok (l.map g) := by
  induction l with
  | nil => simp [mapM_nil]
  | cons x xs ih =>
    rw [mapM_cons, h x (by simp), ih (fun y hy => h y (by simp [hy]))]
    rfl

/-- the first failing element's exception is the macro's -/
theorem mapM_error (f : V → PyM V) (pre : List V) (x : V) (post : List V) (e : Exc) (g : V → V)
    (hpre : ∀ y, y ∈ pre → f y = .ok (g y)) (hx : f x = .error e) :
    mapM f (pre ++ x :: post) = .error e := by
  induction pre with
  | nil => simp [mapM_cons, hx, bind, Except.bind]
  | cons y ys ih =>
    have := ih (fun z hz => hpre z (by simp [hz]))
    simp only [List.cons_append, mapM_cons, hpre y (by simp), this]
    rfl

/-! ### filter, exists_one -/

theorem filterM_total (p : V → PyM V) (b : V → V) (l : List V) (h : ∀ x, x ∈ l → p x = .ok (b x)) :
    filterM p l = .ok (l.filter (fun x => truthy (b x))) := by
  induction l with
  | nil => rfl
  | cons x xs ih =>
    simp only [filterM, h x (by simp), ih (fun y hy => h y (by simp [hy])), bind, Except.bind, List.filter_cons]

theorem filterM_sublist (p : V → PyM V) : ∀ (l r : List V), filterM p l = .ok r → r.Sublist l := by
  intro l
  induction l with
  | nil => intro r h; simp [filterM] at h; subst h; exact .slnil
  | cons x xs ih =>
    intro r h
    simp only [filterM] at h
    cases hx : p x with
    | error e => simp [hx, bind, Except.bind] at h
    | ok b =>
      cases hxs : filterM p xs with
      | error e => simp [hx, hxs, bind, Except.bind] at h
      | ok rest =>
        simp only [hx, hxs, bind, Except.bind] at h
        have hs := ih rest hxs
        split at h
        · injection h with h; subst h; exact hs.cons_cons x
        · injection h with h; subst h; exact hs.cons x

theorem countM_total (p : V → PyM V) (b : V → V) (l : List V) (h : ∀ x, x ∈ l → p x = .ok (b x)) :
    countM p l = .ok (l.countP (fun x => truthy (b x))) := by
  induction l with
  | nil => rfl
  | cons x xs ih =>
    simp only [countM, h x (by simp), ih (fun y hy => h y (by simp [hy])), bind, Except.bind, List.countP_cons]
    split <;> simp_all

/-! ### all / exists: three-valued folds -/

/-- an element outcome of a quantifier body -/
def IsB3 (v : V) : Prop := v = .bool true ∨ v = .bool false ∨ v = .err

/-- exists-fold state machine: accumulator `true` is absorbing -/
theorem existsFold_true (p : V → PyM V) (l : List V) (h : ∀ x, x ∈ l → ∃ v, p x = .ok v) :
    existsFold p l (.bool true) = .ok (.bool true) := by
  induction l with
  | nil => rfl
  | cons x xs ih =>
    obtain ⟨v, hv⟩ := h x (by simp)
    simp only [existsFold, hv, bind, Except.bind]
    have : catching [.typeError] (vor (.bool true) v) = .ok (.bool true) := by
      cases v <;> simp [vor, catching] <;> rename_i b <;> cases b <;> rfl
    rw [this]
    exact ih (fun y hy => h y (by simp [hy]))

theorem allFold_false (p : V → PyM V) (l : List V) (h : ∀ x, x ∈ l → ∃ v, p x = .ok v) :
    allFold p l (.bool false) = .ok (.bool false) := by
  induction l with
  | nil => rfl
  | cons x xs ih =>
    obtain ⟨v, hv⟩ := h x (by simp)
    simp only [allFold, hv, bind, Except.bind]
    have : catching [.typeError] (vand (.bool false) v) = .ok (.bool false) := by
      cases v <;> simp [vand, catching] <;> rename_i b <;> cases b <;> rfl
    rw [this]
    exact ih (fun y hy => h y (by simp [hy]))

/-- the Kleene disjunction of a list of three-valued outcomes, starting from an accumulator -/
def V.isTrue : V → Bool
  | .bool true => true | _ => false
def V.isFalse : V → Bool
  | .bool false => true | _ => false

def kor3 (acc : V) (bs : List V) : V :=
  if acc.isTrue || bs.any V.isTrue then .bool true
  else if acc.isErr || bs.any V.isErr then .err
  else .bool false

def kand3 (acc : V) (bs : List V) : V :=
  if acc.isFalse || bs.any V.isFalse then .bool false
  else if acc.isErr || bs.any V.isErr then .err
  else .bool true

theorem vor_step (acc b : V) (ha : IsB3 acc) (hb : IsB3 b) :
    ∃ v, catching [.typeError] (vor acc b) = .ok v ∧ IsB3 v ∧ ∀ bs, kor3 v bs = kor3 acc (b :: bs) := by
  rcases ha with rfl | rfl | rfl <;> rcases hb with rfl | rfl | rfl <;>
    simp [vor, catching, IsB3, kor3, V.isTrue, V.isErr]

theorem vand_step (acc b : V) (ha : IsB3 acc) (hb : IsB3 b) :
    ∃ v, catching [.typeError] (vand acc b) = .ok v ∧ IsB3 v ∧ ∀ bs, kand3 v bs = kand3 acc (b :: bs) := by
  rcases ha with rfl | rfl | rfl <;> rcases hb with rfl | rfl | rfl <;>
    simp [vand, catching, IsB3, kand3, V.isFalse, V.isErr]

theorem existsFold_spec (p : V → PyM V) (b : V → V) (l : List V) (acc : V) (ha : IsB3 acc)
    (h : ∀ x, x ∈ l → p x = .ok (b x) ∧ IsB3 (b x)) :
    existsFold p l acc = .ok (kor3 acc (l.map b)) := by
  induction l generalizing acc with
  | nil => rcases ha with rfl | rfl | rfl <;> simp [existsFold, kor3, V.isTrue, V.isErr]
  | cons x xs ih =>
    obtain ⟨hx, hbx⟩ := h x (by simp)
    obtain ⟨v, hv, hv3, hk⟩ := vor_step acc (b x) ha hbx
    simp only [existsFold, hx, hv, bind, Except.bind, List.map_cons]
    rw [ih v hv3 (fun y hy => h y (by simp [hy])), hk]

theorem allFold_spec (p : V → PyM V) (b : V → V) (l : List V) (acc : V) (ha : IsB3 acc)
    (h : ∀ x, x ∈ l → p x = .ok (b x) ∧ IsB3 (b x)) :
    allFold p l acc = .ok (kand3 acc (l.map b)) := by
  induction l generalizing acc with
  | nil => rcases ha with rfl | rfl | rfl <;> simp [allFold, kand3, V.isFalse, V.isErr]
  | cons x xs ih =>
    obtain ⟨hx, hbx⟩ := h x (by simp)
    obtain ⟨v, hv, hv3, hk⟩ := vand_step acc (b x) ha hbx
    simp only [allFold, hx, hv, bind, Except.bind, List.map_cons]
    rw [ih v hv3 (fun y hy => h y (by simp [hy])), hk]

/-- for a total boolean predicate the folds are `any` / `all` (accumulator-generalised) -/
theorem existsFold_bool (p : V → PyM V) (q : V → Bool) (l : List V) (acc : Bool)
    (h : ∀ x, x ∈ l → p x = .ok (.bool (q x))) :
    existsFold p l (.bool acc) = .ok (.bool (acc || l.any q)) := by
  induction l generalizing acc with
  | nil => simp [existsFold]
  | cons x xs ih =>
    simp only [existsFold, h x (by simp), bind, Except.bind, vor, catching]
    rw [ih (acc || q x) (fun y hy => h y (by simp [hy]))]
    simp [Bool.or_assoc]

theorem allFold_bool (p : V → PyM V) (q : V → Bool) (l : List V) (acc : Bool)
    (h : ∀ x, x ∈ l → p x = .ok (.bool (q x))) :
    allFold p l (.bool acc) = .ok (.bool (acc && l.all q)) := by
  induction l generalizing acc with
  | nil => simp [allFold]
  | cons x xs ih =>
    simp only [allFold, h x (by simp), bind, Except.bind, vand, catching]
    rw [ih (acc && q x) (fun y hy => h y (by simp [hy]))]
    simp [Bool.and_assoc]

/-! ### membership = exists -/

/-- the outcome of `y == x` as a three-valued element -/
def eq3 (y x : V) : V :=
  match veq y x with
  | .ok b => .bool b
  | .error _ => .err

theorem eq3_isB3 (y x : V) : IsB3 (eq3 y x) := by
  unfold eq3
  cases veq y x with
  | ok b => cases b <;> simp [IsB3]
  | error e => simp [IsB3]

theorem inLoop_spec (x : V) (l : List V) (acc : V) (ha : acc = .bool false ∨ acc = .err) :
    inLoop x l acc = kor3 acc (l.map (fun y => eq3 y x)) := by
  induction l generalizing acc with
  | nil => rcases ha with rfl | rfl <;> simp [inLoop, kor3, V.isTrue, V.isErr]
  | cons y ys ih =>
    simp only [inLoop, List.map_cons]
    cases hv : veq y x with
    | ok b =>
      cases b with
      | true => simp [kor3, eq3, hv, V.isTrue]
      | false =>
        simp only []
        rw [ih acc ha]
        rcases ha with rfl | rfl <;> simp [kor3, eq3, hv, V.isTrue, V.isErr]
    | error e =>
      simp only []
      rw [ih .err (Or.inr rfl)]
      rcases ha with rfl | rfl <;> simp [kor3, eq3, hv, V.isTrue, V.isErr]

/-! ### strings -/

theorem isInfix_iff (t : List Nat) : ∀ s : List Nat, isInfix t s = true ↔ t <:+: s := by
  intro s
  induction s with
  | nil =>
    simp [isInfix, List.isEmpty_iff]
  | cons c cs ih =>
    simp only [isInfix, Bool.or_eq_true, List.isPrefixOf_iff_prefix, ih]
    constructor
    · rintro (h | h)
      · exact h.isInfix
      · exact h.trans (List.infix_cons (List.infix_refl cs))
    · intro h
      rcases List.infix_cons_iff.mp h with h | h
      · exact Or.inl h
      · exact Or.inr h

/-! ### maps -/

/-- the flat `[k₁, v₁, k₂, v₂, …]` sequence `mapinits` evaluates -/
def flat : List (V × V) → List V
  | [] => []
  | (k, v) :: rest => k :: v :: flat rest

/-- no entry of `ps` has a key found among the entries before it -/
def FreshKeys : List (V × V) → List (V × V) → Prop
  | _, [] => True
  | acc, (k, v) :: rest => validKey k = true ∧ lookup k acc = .ok none ∧ FreshKeys (acc ++ [(k, v)]) rest

theorem buildMap_fresh (ps acc : List (V × V)) (h : FreshKeys acc ps) :
    buildMap (flat ps) acc = .ok (acc ++ ps) := by
  induction ps generalizing acc with
  | nil => simp [flat, buildMap]
  | cons p rest ih =>
    obtain ⟨k, v⟩ := p
    obtain ⟨hk, hl, hrest⟩ := h
    simp only [flat, buildMap, hk, hl, bind, Except.bind]
    simp only [Bool.not_true, Bool.false_eq_true, ↓reduceIte]
    rw [ih _ hrest]
    simp

theorem buildMap_dup (ps acc : List (V × V)) (k v w : V) (rest : List (V × V))
    (h : FreshKeys acc ps) (hk : validKey k = true) (hl : lookup k (acc ++ ps) = .ok (some w)) :
    buildMap (flat (ps ++ (k, v) :: rest)) acc = .error .valueError := by
  induction ps generalizing acc with
  | nil =>
    simp only [List.nil_append, flat, buildMap, hk]
    simp at hl
    simp [hl, bind, Except.bind]
  | cons p ps ih =>
    obtain ⟨k', v'⟩ := p
    obtain ⟨hk', hl', hrest⟩ := h
    simp only [List.cons_append, flat, buildMap, hk', hl', bind, Except.bind]
    simp only [Bool.not_true, Bool.false_eq_true, ↓reduceIte]
    apply ih _ hrest
    simpa using hl

end Cel.Coll
