/-
  Cel.Lemmas.XlateValue — helper lemmas for C19 over Cel.Model.XlateValue:
  decimal digits round trip, `q` vs. `celstr`/the STRING_LIT regex, the duration loop vs. the
  duration grammar, soundness of the expected template shapes.
-/
import Cel.Model.XlateValue
namespace Cel.XlateValue

/-! ### decimal digits -/


theorem digitVal_digitChar (k : Nat) (h : k < 10) : digitVal (digitChar k) = k := by
  revert k; decide
theorem isDigit_digitChar (k : Nat) (h : k < 10) : isDigit (digitChar k) = true := by
  revert k; decide

theorem parseNat_append (a : Str) (c : Char) : parseNat (a ++ [c]) = 10 * parseNat a + digitVal c := by
  simp [parseNat, List.foldl_append]

theorem parseNat_natDigitsFuel : ∀ f n, n < f → parseNat (natDigitsFuel f n) = n := by
  intro f
  induction f with
  | zero => intro n h; omega
  | succ f ih =>
    intro n h
    unfold natDigitsFuel
    split
    · rename_i h10; simp [parseNat, digitVal_digitChar n h10]
    · rename_i h10
      rw [parseNat_append, ih (n / 10) (by omega), digitVal_digitChar _ (by omega)]
      omega

theorem parseNat_natDigits (n : Nat) : parseNat (natDigits n) = n :=
  parseNat_natDigitsFuel (n + 1) n (by omega)

theorem natDigitsFuel_digits : ∀ f n, ∀ c ∈ natDigitsFuel f n, isDigit c = true := by
  intro f
  induction f with
  | zero => intro n c h; simp [natDigitsFuel] at h
  | succ f ih =>
    intro n c h
    unfold natDigitsFuel at h
    split at h
    · rename_i h10; simp at h; subst h; exact isDigit_digitChar n h10
    · simp at h
      rcases h with h | h
      · exact ih _ _ h
      · subst h; exact isDigit_digitChar _ (by omega)

theorem natDigitsFuel_ne_nil : ∀ f n, n < f → natDigitsFuel f n ≠ [] := by
  intro f n h
  cases f with
  | zero => omega
  | succ f => unfold natDigitsFuel; split <;> simp

theorem natDigits_digits (n : Nat) : ∀ c ∈ natDigits n, isDigit c = true := natDigitsFuel_digits _ _
theorem natDigits_ne_nil (n : Nat) : natDigits n ≠ [] := natDigitsFuel_ne_nil _ _ (by omega)

/-! ### `q` and `celstr` -/


theorem hexVal_hexDigit (k : Nat) (h : k < 16) : hexVal (hexDigit k) = k := by revert k; decide
theorem isHex_hexDigit (k : Nat) (h : k < 16) : isHex (hexDigit k) = true := by revert k; decide

/-- quotes for which `\\<quote>` is an escape that yields the quote back -/
def GoodQuote (qc : Char) : Prop := qc = '"' ∨ qc = '\''

theorem chrOf_toNat (c : Char) : chrOf c.toNat = some c := by
  unfold chrOf
  have : c.toNat.isValidChar := c.valid
  simp [this, Char.ofNat_toNat]

theorem decodeGo_cons_plain (c : Char) (rest : Str) (h : c ≠ '\\') :
    decodeGo (c :: rest) 0 = (decodeGo rest 0).map (c :: ·) := by
  simp [decodeGo, escAt, h]

theorem decodeGo_simple (e : Char) (rest : Str) (h : isSimpleEsc e = true) :
    decodeGo ('\\' :: e :: rest) 0 = (decodeGo rest 0).map (simpleEscVal e :: ·) := by
  simp [decodeGo, escAt, escBackslash, h]

theorem decodeGo_hex (a b : Char) (rest : Str) (ha : isHex a = true) (hb : isHex b = true) (ch : Char)
    (hc : chrOf (hexNum [a, b]) = some ch) :
    decodeGo ('\\' :: 'x' :: a :: b :: rest) 0 = (decodeGo rest 0).map (ch :: ·) := by
  have h1 : isSimpleEsc 'x' = false := by decide
  have h2 : isDigit 'x' = false := by decide
  simp [decodeGo, escAt, escBackslash, escHexN, h1, h2, ha, hb, hc]

theorem decodeGo_esc (qc : Char) (hq : GoodQuote qc) (c : Char) (rest : Str) :
    decodeGo (escChar qc c ++ rest) 0 = (decodeGo rest 0).map (c :: ·) := by
  by_cases h1 : c = '\\'
  · subst h1; simp only [escChar, if_true, List.cons_append, List.nil_append]
    exact decodeGo_simple '\\' rest (by decide)
  by_cases h2 : c = '\n'
  · subst h2; simp only [escChar, h1, if_false, if_true, List.cons_append, List.nil_append]
    exact decodeGo_simple 'n' rest (by decide)
  by_cases h3 : c = '\r'
  · subst h3; simp only [escChar, h1, h2, if_false, if_true, List.cons_append, List.nil_append]
    exact decodeGo_simple 'r' rest (by decide)
  by_cases h4 : c = '\t'
  · subst h4; simp only [escChar, h1, h2, h3, if_false, if_true, List.cons_append, List.nil_append]
    exact decodeGo_simple 't' rest (by decide)
  by_cases h5 : c = qc
  · subst h5; simp only [escChar, h1, h2, h3, h4, if_false, if_true, List.cons_append, List.nil_append]
    rcases hq with h | h <;> subst h
    · exact decodeGo_simple '"' rest (by decide)
    · exact decodeGo_simple '\'' rest (by decide)
  by_cases h6 : (c.toNat < 32 || c.toNat = 127) = true
  · simp only [escChar, h1, h2, h3, h4, h5, h6, if_false, if_true, List.cons_append, List.nil_append]
    have hlt : c.toNat < 128 := by
      simp at h6; omega
    have e1 : isHex (hexDigit (c.toNat / 16)) = true := isHex_hexDigit _ (by omega)
    have e2 : isHex (hexDigit (c.toNat % 16)) = true := isHex_hexDigit _ (by omega)
    have v1 := hexVal_hexDigit (c.toNat / 16) (by omega)
    have v2 := hexVal_hexDigit (c.toNat % 16) (by omega)
    have hn : hexNum [hexDigit (c.toNat / 16), hexDigit (c.toNat % 16)] = c.toNat := by
      simp [hexNum, v1, v2]; omega
    exact decodeGo_hex _ _ rest e1 e2 c (by rw [hn]; exact chrOf_toNat c)
  · simp only [escChar, h1, h2, h3, h4, h5, h6, if_false]
    exact decodeGo_cons_plain c rest h1

theorem decodeBody_qBody (qc : Char) (hq : GoodQuote qc) (s : Str) : decodeBody (qBody qc s) = some s := by
  unfold decodeBody qBody
  induction s with
  | nil => simp [decodeGo]
  | cons c s ih =>
    simp only [List.flatMap_cons]
    rw [decodeGo_esc qc hq, ih]; rfl

/-! ### `q` and the STRING_LIT regex -/


theorem lexGo_plain (c : Char) (tail : Str) (h1 : c ≠ '"') (h2 : c ≠ '\n') (h3 : c ≠ '\\') :
    lexGo (c :: tail) 0 = (lexGo tail 0).map (fun p => (c :: p.1, p.2)) := by
  simp [lexGo, h1, h2, h3]

theorem lexGo_simple (e : Char) (tail : Str) (p : Str × Str) (h : isSimpleEsc e = true)
    (hp : lexGo tail 0 = some p) :
    lexGo ('\\' :: e :: tail) 0 = some ('\\' :: e :: p.1, p.2) := by
  have a1 : ('\\' : Char) ≠ '"' := by decide
  have a2 : ('\\' : Char) ≠ '\n' := by decide
  simp [lexGo, a1, a2, lexEscLen, h, hp]

theorem lexGo_hex (a b : Char) (tail : Str) (p : Str × Str) (ha : isHex a = true) (hb : isHex b = true)
    (hp : lexGo tail 0 = some p) :
    lexGo ('\\' :: 'x' :: a :: b :: tail) 0 = some ('\\' :: 'x' :: a :: b :: p.1, p.2) := by
  have a1 : ('\\' : Char) ≠ '"' := by decide
  have a2 : ('\\' : Char) ≠ '\n' := by decide
  have h1 : isSimpleEsc 'x' = false := by decide
  have h2 : isDigit 'x' = false := by decide
  simp [lexGo, a1, a2, lexEscLen, h1, h2, ha, hb, hp]

theorem lexGo_esc (c : Char) (tail : Str) (p : Str × Str) (hp : lexGo tail 0 = some p) :
    lexGo (escChar '"' c ++ tail) 0 = some (escChar '"' c ++ p.1, p.2) := by
  by_cases h1 : c = '\\'
  · subst h1; simp only [escChar, if_true, List.cons_append, List.nil_append]
    exact lexGo_simple '\\' tail p (by decide) hp
  by_cases h2 : c = '\n'
  · subst h2; simp only [escChar, h1, if_false, if_true, List.cons_append, List.nil_append]
    exact lexGo_simple 'n' tail p (by decide) hp
  by_cases h3 : c = '\r'
  · subst h3; simp only [escChar, h1, h2, if_false, if_true, List.cons_append, List.nil_append]
    exact lexGo_simple 'r' tail p (by decide) hp
  by_cases h4 : c = '\t'
  · subst h4; simp only [escChar, h1, h2, h3, if_false, if_true, List.cons_append, List.nil_append]
    exact lexGo_simple 't' tail p (by decide) hp
  by_cases h5 : c = '"'
  · subst h5; simp only [escChar, h1, h2, h3, h4, if_false, if_true, List.cons_append, List.nil_append]
    exact lexGo_simple '"' tail p (by decide) hp
  by_cases h6 : (c.toNat < 32 || c.toNat = 127) = true
  · simp only [escChar, h1, h2, h3, h4, h5, h6, if_false, if_true, List.cons_append, List.nil_append]
    have hlt : c.toNat < 128 := by
      simp at h6; omega
    exact lexGo_hex _ _ tail p (isHex_hexDigit _ (by omega)) (isHex_hexDigit _ (by omega)) hp
  · simp only [escChar, h1, h2, h3, h4, h5, h6, if_false, Bool.false_eq_true, List.cons_append, List.nil_append]
    rw [lexGo_plain c tail h5 h2 h1, hp]; rfl

theorem lexDq_qBody (s rest : Str) : lexDq (qBody '"' s ++ '"' :: rest) = some (qBody '"' s, rest) := by
  unfold lexDq qBody
  induction s with
  | nil => simp [lexGo]
  | cons c s ih =>
    simp only [List.flatMap_cons, List.append_assoc]
    rw [lexGo_esc c _ _ ih]

theorem lexString_qd (s rest : Str) : lexString (qd s ++ rest) = some (qd s, rest) := by
  simp only [qd, q, List.cons_append, List.append_assoc, lexString]
  rw [lexDq_qBody]; simp

theorem dropLast_snoc (l : Str) (c : Char) : (l ++ [c]).dropLast = l := by simp


/-! ### durations -/
/-- digits accumulate -/
theorem durGo_digits (ds rest : Str) (hd : ∀ c ∈ ds, isDigit c = true) (acc : Option Nat) (g t : Nat) :
    durGo (ds ++ rest) acc g t =
      durGo rest (if ds = [] then acc else some (ds.foldl (fun a c => 10 * a + digitVal c) (acc.getD 0))) g t := by
  induction ds generalizing acc with
  | nil => simp
  | cons c ds ih =>
    have hc : isDigit c = true := hd c (by simp)
    have hds : ∀ c ∈ ds, isDigit c = true := fun c h => hd c (by simp [h])
    simp only [List.cons_append, durGo, hc, if_true]
    rw [ih hds]
    by_cases h : ds = []
    · subst h; simp
    · simp [h]

def StartsDigit (rest : Str) : Prop := rest = [] ∨ ∃ c tl, rest = c :: tl ∧ isDigit c = true

theorem durGo_unit (u : Char) (k v : Nat) (rest : Str) (g t : Nat)
    (hu : u = 'd' ∨ u = 'h' ∨ u = 'm' ∨ u = 's') (hk : unitScale u = some k) (hr : StartsDigit rest) :
    durGo (u :: rest) (some v) g t = durGo rest none (g + 1) (t + v * k) := by
  have hm : ¬ (rest.head? = some 's') := by
    rcases hr with h | ⟨c, tl, h, hc⟩
    · subst h; simp
    · subst h; simp; intro h; subst h; revert hc; decide
  rcases hu with h | h | h | h <;> subst h <;> simp [unitScale] at hk <;> subst hk <;>
    simp [durGo, isDigit, unitScale, hm]

theorem durGo_group (u : Char) (k v : Nat) (rest : Str) (g t : Nat)
    (hu : u = 'd' ∨ u = 'h' ∨ u = 'm' ∨ u = 's') (hk : unitScale u = some k) (hr : StartsDigit rest) :
    durGo ((natDigits v ++ [u]) ++ rest) none g t = durGo rest none (g + 1) (t + v * k) := by
  rw [List.append_assoc, durGo_digits _ _ (natDigits_digits v)]
  simp only [natDigits_ne_nil, if_false, Option.getD_none, List.cons_append, List.nil_append]
  have : (natDigits v).foldl (fun a c => 10 * a + digitVal c) 0 = v := parseNat_natDigits v
  rw [this]
  exact durGo_unit u k v rest g t hu hk hr

theorem startsDigit_group (v : Nat) (u : Char) (rest : Str) : StartsDigit ((natDigits v ++ [u]) ++ rest) := by
  right
  have hne := natDigits_ne_nil v
  match h : natDigits v with
  | [] => exact absurd h hne
  | c :: tl =>
    refine ⟨c, tl ++ [u] ++ rest, by simp, ?_⟩
    exact natDigits_digits v c (by rw [h]; simp)


def ValidUnits (us : List (Nat × Char)) : Prop :=
  ∀ p ∈ us, (p.2 = 'd' ∨ p.2 = 'h' ∨ p.2 = 'm' ∨ p.2 = 's') ∧ unitScale p.2 = some p.1

/-- seconds accounted for by the groups `durLoop` writes -/
def sumOut : Nat → List (Nat × Char) → Nat
  | _, [] => 0
  | secs, (u, _) :: us => if secs = 0 then 0 else (secs / u) * u + sumOut (secs % u) us
/-- number of groups `durLoop` writes -/
def cntOut : Nat → List (Nat × Char) → Nat
  | _, [] => 0
  | secs, (u, _) :: us => if secs = 0 then 0 else (if secs / u ≠ 0 then 1 else 0) + cntOut (secs % u) us

theorem startsDigit_durLoop (us : List (Nat × Char)) : ∀ secs, StartsDigit (durLoop secs us).flatten := by
  induction us with
  | nil => intro secs; left; simp [durLoop]
  | cons p us ih =>
    intro secs
    obtain ⟨u, name⟩ := p
    simp only [durLoop]
    by_cases h0 : secs = 0
    · left; simp [h0]
    · by_cases hv : secs / u = 0
      · simp only [h0, if_false, hv, ne_eq, not_true_eq_false, List.nil_append]; exact ih _
      · simp only [h0, if_false, hv, ne_eq, not_false_eq_true, if_true, List.cons_append, List.nil_append, List.flatten_cons]
        exact startsDigit_group _ _ _

theorem durGo_durLoop (us : List (Nat × Char)) (hv : ValidUnits us) : ∀ secs g t,
    durGo (durLoop secs us).flatten none g t = durGo [] none (g + cntOut secs us) (t + sumOut secs us) := by
  induction us with
  | nil => intro secs g t; simp [durLoop, cntOut, sumOut]
  | cons p us ih =>
    intro secs g t
    obtain ⟨u, name⟩ := p
    have hp := hv (u, name) (by simp)
    have hus : ValidUnits us := fun p h => hv p (by simp [h])
    simp only [durLoop, cntOut, sumOut]
    by_cases h0 : secs = 0
    · simp [h0]
    · by_cases hz : secs / u = 0
      · simp only [h0, if_false, hz, ne_eq, not_true_eq_false, List.nil_append, Nat.zero_mul, Nat.zero_add]
        exact ih hus _ _ _
      · simp only [h0, if_false, hz, ne_eq, not_false_eq_true, if_true, List.cons_append, List.nil_append, List.flatten_cons]
        rw [durGo_group name u (secs / u) _ g t hp.1 hp.2 (startsDigit_durLoop us _), ih hus]
        congr 1 <;> omega

theorem validUnits_model : ValidUnits durationUnits := by
  intro p hp
  simp [durationUnits] at hp
  rcases hp with h | h | h | h <;> subst h <;> simp [unitScale]

theorem sumOut_units (n : Nat) : sumOut n durationUnits = n := by
  simp only [durationUnits, sumOut]
  repeat' split
  all_goals omega

theorem cntOut_units_pos (n : Nat) (h : n ≠ 0) : cntOut n durationUnits ≠ 0 := by
  simp only [durationUnits, cntOut]
  repeat' split
  all_goals omega

theorem length_durLoop (us : List (Nat × Char)) : ∀ secs, (durLoop secs us).length = cntOut secs us := by
  induction us with
  | nil => intro secs; simp [durLoop, cntOut]
  | cons p us ih =>
    intro secs
    obtain ⟨u, name⟩ := p
    simp only [durLoop, cntOut]
    by_cases h0 : secs = 0
    · simp [h0]
    · by_cases hz : secs / u = 0 <;> simp [h0, hz, ih]; omega

theorem durLoop_nil_iff (n : Nat) : (durLoop n durationUnits).isEmpty = true ↔ n = 0 := by
  constructor
  · intro h
    apply Decidable.byContradiction
    intro hn
    have h2 : durLoop n durationUnits = [] := by simpa using h
    have h3 := length_durLoop durationUnits n
    rw [h2] at h3
    exact cntOut_units_pos n hn h3.symm
  · intro h; subst h; simp [durLoop, durationUnits]

theorem durOf_secondsText (n : Nat) :
    durOf (secondsText n) = if n ≤ durMaxSeconds then .ok n else .error := by
  unfold secondsText durOf
  by_cases h : n = 0
  · subst h; simp [durLoop, durationUnits, durMaxSeconds]; decide
  · have hne : (durLoop n durationUnits).isEmpty = false := by
      cases hb : (durLoop n durationUnits).isEmpty
      · rfl
      · exact absurd ((durLoop_nil_iff n).1 hb) h
    simp only [hne, Bool.false_eq_true, if_false]
    rw [durGo_durLoop durationUnits validUnits_model, sumOut_units]
    have := cntOut_units_pos n h
    simp [durGo, this]


/-! ### a whole literal; day counts -/

theorem evalLiteral_qd (s : Str) : evalLiteral (qd s) = some s := by
  have h := lexString_qd s []
  simp only [List.append_nil] at h
  unfold evalLiteral
  rw [h]
  show celstr (qd s) = some s
  simp only [celstr, qd, q, List.drop_succ_cons, List.drop_zero, List.dropLast_concat]
  exact decodeBody_qBody '"' (Or.inl rfl) s

theorem ageSeconds_days (d : Int) (h0 : ¬ d < 0) (h : d.toNat * 86400 ≤ durMaxSeconds) :
    ageSeconds (.atom (.int d)) = some (d.toNat * 86400) := by
  simp [ageSeconds, h0, ageToDuration, secondsToDuration, evalLiteral_qd, durOf_secondsText, h]

theorem ageSeconds_of_days (v : Val) (d : Nat) (h : Spec.daysOf v = some d) : ageSeconds v = some (d * 86400) := by
  cases v with
  | list xs => simp [Spec.daysOf] at h
  | atom a =>
    cases a with
    | int i =>
      by_cases hd : i < 0
      · simp [Spec.daysOf, hd] at h
      · by_cases hr : i.toNat * 86400 ≤ durMaxSeconds
        · simp [Spec.daysOf, hd, hr] at h; subst h; exact ageSeconds_days i hd hr
        · simp [Spec.daysOf, hd, hr] at h
    | str _ => simp [Spec.daysOf] at h
    | bool _ => simp [Spec.daysOf] at h
    | null => simp [Spec.daysOf] at h


/-! ### `split('.')` / join -/

theorem splitOn_ne_nil (sep : Char) (s : Str) : splitOn sep s ≠ [] := by
  induction s with
  | nil => simp [splitOn]
  | cons c tl ih =>
    unfold splitOn
    by_cases h : c = sep
    · simp [h]
    · simp only [h, if_false]; split <;> simp

theorem join_splitOn (sep : Char) (s : Str) : joinWith [sep] (splitOn sep s) = s := by
  induction s with
  | nil => simp [splitOn, joinWith]
  | cons c tl ih =>
    have hne := splitOn_ne_nil sep tl
    unfold splitOn
    match hs : splitOn sep tl with
    | [] => exact absurd hs hne
    | w :: ws =>
      rw [hs] at ih
      by_cases h : c = sep
      · subst h
        simp only [if_true]
        cases ws with
        | nil => simp [joinWith] at ih ⊢; exact ih
        | cons w2 ws => simp [joinWith] at ih ⊢; exact ih
      · simp only [h, if_false]
        cases ws with
        | nil => simp [joinWith] at ih ⊢; exact ih
        | cons w2 ws => simp [joinWith] at ih ⊢; exact ih

/-! ### operator templates -/

theorem expected_sound (o : Op) (r v : Val) : (expectedTmpl o).eval r v = Spec.rel o r v := by
  cases o <;> simp [expectedTmpl, Tmpl.eval, Hole.pick, Cel.binOp, Cel.method, Cel.func, Spec.rel]
  all_goals (try (cases Spec.memRel r v <;> simp))

/-! ## glob: what the pieces of a pattern accept (round 2) -/


/-- an ordinary character of a glob pattern -/
def isGlobPlain (c : Char) : Bool := c != '*' && c != '?' && c != '['

theorem parseGlobGo_plain (p : Str) (hp : p.all isGlobPlain = true) (rest : Str) :
    parseGlobGo (p ++ rest) 0 = (parseGlobGo rest 0).map (p.map GItem.lit ++ ·) := by
  induction p with
  | nil => simp
  | cons c tl ih =>
    simp only [List.all_cons, Bool.and_eq_true] at hp
    obtain ⟨hc, htl⟩ := hp
    simp only [isGlobPlain, Bool.and_eq_true, bne_iff_ne, ne_eq] at hc
    obtain ⟨⟨h1, h2⟩, h3⟩ := hc
    simp only [List.cons_append, parseGlobGo, h1, h2, h3, if_false, ih htl, Option.map_map]
    cases parseGlobGo rest 0 <;> simp

theorem parseGlob_plain (p : Str) (hp : p.all isGlobPlain = true) : parseGlob p = some (p.map .lit) := by
  have := parseGlobGo_plain p hp []
  simpa [parseGlob, parseGlobGo] using this

theorem parseGlob_plain_star (p : Str) (hp : p.all isGlobPlain = true) :
    parseGlob (p ++ ['*']) = some (p.map .lit ++ [.star]) := by
  have := parseGlobGo_plain p hp ['*']
  simpa [parseGlob, parseGlobGo] using this

theorem parseGlob_star_plain (p : Str) (hp : p.all isGlobPlain = true) :
    parseGlob ('*' :: p) = some (.star :: p.map .lit) := by
  have := parseGlob_plain p hp
  simp only [parseGlob] at this
  simp [parseGlob, parseGlobGo, this]

theorem parseGlob_star_plain_star (p : Str) (hp : p.all isGlobPlain = true) :
    parseGlob ('*' :: (p ++ ['*'])) = some (.star :: (p.map .lit ++ [.star])) := by
  have := parseGlob_plain_star p hp
  simp only [parseGlob] at this
  simp [parseGlob, parseGlobGo, this]

theorem any_range_succ_of (f : Nat → Bool) (n k : Nat) (hk : k ≤ n) (h : f k = true) :
    (List.range (n + 1)).any f = true := by
  rw [List.any_eq_true]
  exact ⟨k, List.mem_range.2 (by omega), h⟩

theorem globItems_lits (p t : Str) : globItems (p.map .lit) t = decide (t = p) := by
  induction p generalizing t with
  | nil => cases t <;> simp [globItems]
  | cons c tl ih =>
    cases t with
    | nil => simp [globItems]
    | cons d ts =>
      simp only [List.map_cons, globItems, GItem.matches, ih]
      by_cases h : c = d <;> simp [h, eq_comm]

theorem globItems_lits_star (p t : Str) : globItems (p.map .lit ++ [.star]) t = p.isPrefixOf t := by
  induction p generalizing t with
  | nil =>
    simp only [List.map_nil, List.nil_append, globItems, List.isPrefixOf]
    exact any_range_succ_of _ _ t.length (Nat.le_refl _) (by simp)
  | cons c tl ih =>
    cases t with
    | nil => simp [globItems, List.isPrefixOf]
    | cons d ts =>
      simp only [List.map_cons, List.cons_append, globItems, GItem.matches, ih, List.isPrefixOf]
      by_cases h : c = d <;> simp [h]

theorem globItems_star_lits (p t : Str) : globItems (.star :: p.map .lit) t = p.isSuffixOf t := by
  simp only [globItems, globItems_lits]
  rw [Bool.eq_iff_iff, List.any_eq_true, List.isSuffixOf_iff_suffix]
  constructor
  · rintro ⟨k, _, hk⟩
    have hk' : t.drop k = p := by simpa using hk
    rw [← hk']; exact List.drop_suffix k t
  · intro h
    refine ⟨t.length - p.length, List.mem_range.2 (by omega), ?_⟩
    simpa using (List.suffix_iff_eq_drop.1 h).symm

theorem any_prefix_drop (x t : Str) :
    (List.range (t.length + 1)).any (fun k => x.isPrefixOf (t.drop k)) = isInfix x t := by
  induction t with
  | nil => cases x <;> simp [isInfix, List.isPrefixOf, List.range_succ]
  | cons c tl ih =>
    rw [List.length_cons, List.range_succ_eq_map, List.any_cons, List.any_map]
    simp only [isInfix, List.drop_zero]
    congr 1

theorem globItems_star_lits_star (p t : Str) :
    globItems (.star :: (p.map .lit ++ [.star])) t = isInfix p t := by
  simp only [globItems, globItems_lits_star]
  exact any_prefix_drop p t



/-- a character that stands for itself inside a class, wherever it is placed -/
def isClassPlain (c : Char) : Bool := !isClassOdd c && c != '-' && c != ']' && c != '!'

theorem parseGlobGo_skip (a rest : Str) : parseGlobGo (a ++ rest) a.length = parseGlobGo rest 0 := by
  induction a with
  | nil => simp
  | cons c tl ih => simpa [parseGlobGo] using ih

theorem classRanges_plain (cs : Str) (h : cs.all isClassPlain = true) (first : Bool) :
    classRanges cs first = some (cs.map fun c => (c, c)) := by
  induction cs generalizing first with
  | nil => simp [classRanges]
  | cons c tl ih =>
    simp only [List.all_cons, Bool.and_eq_true] at h
    obtain ⟨hc, htl⟩ := h
    have ih' := ih htl false
    simp only [isClassPlain, Bool.and_eq_true, Bool.not_eq_true', bne_iff_ne, ne_eq] at hc
    obtain ⟨⟨⟨ho, hm⟩, _⟩, _⟩ := hc
    cases tl with
    | nil => simp [classRanges, ho, hm]
    | cons d tl2 =>
      have hd : d ≠ '-' := by
        simp only [List.all_cons, Bool.and_eq_true, isClassPlain, Bool.not_eq_true', bne_iff_ne, ne_eq] at htl
        exact htl.1.1.1.2
      unfold classRanges
      split
      · rename_i heq; simp at heq
      · rename_i heq; simp only [List.cons.injEq] at heq; exact absurd heq.2.1 hd
      · rename_i heq
        simp only [List.cons.injEq] at heq
        obtain ⟨rfl, rfl⟩ := heq
        simp [ho, hm, ih']

theorem closeIdx_plain (cs rest : Str) (h : cs.all isClassPlain = true) :
    closeIdx (cs ++ ']' :: rest) = some cs.length := by
  induction cs with
  | nil => simp [closeIdx]
  | cons c tl ih =>
    simp only [List.all_cons, Bool.and_eq_true] at h
    have hc : c ≠ ']' := by
      have := h.1
      simp only [isClassPlain, Bool.and_eq_true, bne_iff_ne, ne_eq] at this
      exact this.1.2
    simp [closeIdx, hc, ih h.2]

theorem parseGlobGo_skip_close (a rest : Str) :
    parseGlobGo (a ++ ']' :: rest) (a.length + 1) = parseGlobGo rest 0 := by
  have := parseGlobGo_skip (a ++ [']']) rest
  simpa using this

theorem classEnd_plain (cs rest : Str) (h : cs.all isClassPlain = true) (hne : cs ≠ []) :
    classEnd (cs ++ ']' :: rest) = some cs.length := by
  cases cs with
  | nil => exact absurd rfl hne
  | cons c tl =>
    have hc := h
    simp only [List.all_cons, Bool.and_eq_true, isClassPlain, bne_iff_ne, ne_eq] at hc
    obtain ⟨⟨⟨⟨_, _⟩, h2⟩, h3⟩, _⟩ := hc
    have := closeIdx_plain (c :: tl) rest h
    simp only [List.cons_append] at this
    simp [classEnd, h2, h3, this]

theorem classEnd_neg_plain (cs rest : Str) (h : cs.all isClassPlain = true) (hne : cs ≠ []) :
    classEnd ('!' :: (cs ++ ']' :: rest)) = some (cs.length + 1) := by
  cases cs with
  | nil => exact absurd rfl hne
  | cons c tl =>
    have hc := h
    simp only [List.all_cons, Bool.and_eq_true, isClassPlain, bne_iff_ne, ne_eq] at hc
    obtain ⟨⟨⟨⟨_, _⟩, h2⟩, h3⟩, _⟩ := hc
    have := closeIdx_plain (c :: tl) rest h
    simp only [List.cons_append] at this
    simp [classEnd, h2, this]

/-- the members of a class written as plain characters -/
def singles (cs : Str) : List (Char × Char) := cs.map fun c => (c, c)

theorem parseGlobGo_class (cs rest : Str) (h : cs.all isClassPlain = true) (hne : cs ≠ []) :
    parseGlobGo ('[' :: (cs ++ ']' :: rest)) 0 = (parseGlobGo rest 0).map (.set false (singles cs) :: ·) := by
  have htake : (cs ++ ']' :: rest).take cs.length = cs := by simp
  cases cs with
  | nil => exact absurd rfl hne
  | cons c tl =>
    have hc := h
    simp only [List.all_cons, Bool.and_eq_true, isClassPlain, bne_iff_ne, ne_eq] at hc
    obtain ⟨⟨⟨⟨_, _⟩, _⟩, h3⟩, _⟩ := hc
    have hr := classRanges_plain (c :: tl) h true
    have he := classEnd_plain (c :: tl) rest h hne
    simp only [List.cons_append] at he htake
    simp only [parseGlobGo, List.cons_append, he, htake]
    simp [h3, hr, parseGlobGo_skip_close, singles]

theorem parseGlobGo_negclass (cs rest : Str) (h : cs.all isClassPlain = true) (hne : cs ≠ []) :
    parseGlobGo ('[' :: '!' :: (cs ++ ']' :: rest)) 0 = (parseGlobGo rest 0).map (.set true (singles cs) :: ·) := by
  have htake : ('!' :: (cs ++ ']' :: rest)).take (cs.length + 1) = '!' :: cs := by simp
  have hr := classRanges_plain cs h true
  have he := classEnd_neg_plain cs rest h hne
  have hne' : cs.isEmpty = false := by cases cs <;> simp_all
  simp only [parseGlobGo, he, htake]
  simp [hr, parseGlobGo_skip_close, singles, hne']

theorem set_singles_matches (neg : Bool) (cs : Str) (c : Char) :
    (GItem.set neg (singles cs)).matches c = (cs.contains c != neg) := by
  simp only [GItem.matches, singles, List.any_map]
  congr 1
  induction cs with
  | nil => simp
  | cons d tl ih =>
    simp only [List.any_cons, List.contains_cons, ih, Function.comp]
    congr 1
    by_cases hd : c = d
    · subst hd; simp
    · have : c.toNat ≠ d.toNat := fun e => hd (Char.toNat_inj.1 e)
      have h2 : (c == d) = false := by simpa using hd
      rw [h2]
      simp only [Bool.and_eq_false_iff, decide_eq_false_iff_not]
      omega

theorem globItems_lits_append (p : Str) (items : List GItem) (t : Str) :
    globItems (p.map .lit ++ items) (p ++ t) = globItems items t := by
  induction p with
  | nil => simp
  | cons c tl ih => simp [globItems, GItem.matches, ih]

theorem globItems_star_true (u : Str) : globItems [.star] u = true := by
  simp only [globItems]
  exact any_range_succ_of _ _ u.length (Nat.le_refl _) (by simp)

/-! ## Python `repr` of list elements: decoding undoes it (round 2) -/

theorem decodeGo_x2 (c : Char) (rest : Str) (h : c.toNat < 256) :
    decodeGo ('\\' :: 'x' :: hex2 c.toNat ++ rest) 0 = (decodeGo rest 0).map (c :: ·) := by
  have e1 : isHex (hexDigit (c.toNat / 16 % 16)) = true := isHex_hexDigit _ (by omega)
  have e2 : isHex (hexDigit (c.toNat % 16)) = true := isHex_hexDigit _ (by omega)
  have v1 := hexVal_hexDigit (c.toNat / 16 % 16) (by omega)
  have v2 := hexVal_hexDigit (c.toNat % 16) (by omega)
  have hn : hexNum [hexDigit (c.toNat / 16 % 16), hexDigit (c.toNat % 16)] = c.toNat := by
    simp [hexNum, v1, v2]; omega
  simp only [hex2, List.cons_append, List.nil_append]
  exact decodeGo_hex _ _ rest e1 e2 c (by rw [hn]; exact chrOf_toNat c)

theorem decodeGo_u4 (c : Char) (rest : Str) (h : c.toNat < 65536) :
    decodeGo ('\\' :: 'u' :: hex4 c.toNat ++ rest) 0 = (decodeGo rest 0).map (c :: ·) := by
  have e0 : isHex (hexDigit (c.toNat / 4096 % 16)) = true := isHex_hexDigit _ (by omega)
  have e1 : isHex (hexDigit (c.toNat / 256 % 16)) = true := isHex_hexDigit _ (by omega)
  have e2 : isHex (hexDigit (c.toNat / 16 % 16)) = true := isHex_hexDigit _ (by omega)
  have e3 : isHex (hexDigit (c.toNat % 16)) = true := isHex_hexDigit _ (by omega)
  have v0 := hexVal_hexDigit (c.toNat / 4096 % 16) (by omega)
  have v1 := hexVal_hexDigit (c.toNat / 256 % 16) (by omega)
  have v2 := hexVal_hexDigit (c.toNat / 16 % 16) (by omega)
  have v3 := hexVal_hexDigit (c.toNat % 16) (by omega)
  have hn : hexNum [hexDigit (c.toNat / 4096 % 16), hexDigit (c.toNat / 256 % 16), hexDigit (c.toNat / 16 % 16), hexDigit (c.toNat % 16)] = c.toNat := by
    simp [hexNum, v0, v1, v2, v3]; omega
  have h1 : isSimpleEsc 'u' = false := by decide
  have h2 : isDigit 'u' = false := by decide
  have hc : chrOf c.toNat = some c := chrOf_toNat c
  simp [hex4, decodeGo, escAt, escBackslash, escHexN, h1, h2, e0, e1, e2, e3, hn, hc]

theorem decodeGo_U8 (c : Char) (rest : Str) :
    decodeGo ('\\' :: 'U' :: hex8 c.toNat ++ rest) 0 = (decodeGo rest 0).map (c :: ·) := by
  have hlt : c.toNat < 1114112 := by
    have hv : c.toNat.isValidChar := c.valid
    rcases hv with h | ⟨_, h⟩ <;> omega
  have e0 : isHex (hexDigit (c.toNat / 268435456 % 16)) = true := isHex_hexDigit _ (by omega)
  have e1 : isHex (hexDigit (c.toNat / 16777216 % 16)) = true := isHex_hexDigit _ (by omega)
  have e2 : isHex (hexDigit (c.toNat / 1048576 % 16)) = true := isHex_hexDigit _ (by omega)
  have e3 : isHex (hexDigit (c.toNat / 65536 % 16)) = true := isHex_hexDigit _ (by omega)
  have e4 : isHex (hexDigit (c.toNat / 4096 % 16)) = true := isHex_hexDigit _ (by omega)
  have e5 : isHex (hexDigit (c.toNat / 256 % 16)) = true := isHex_hexDigit _ (by omega)
  have e6 : isHex (hexDigit (c.toNat / 16 % 16)) = true := isHex_hexDigit _ (by omega)
  have e7 : isHex (hexDigit (c.toNat % 16)) = true := isHex_hexDigit _ (by omega)
  have v0 := hexVal_hexDigit (c.toNat / 268435456 % 16) (by omega)
  have v1 := hexVal_hexDigit (c.toNat / 16777216 % 16) (by omega)
  have v2 := hexVal_hexDigit (c.toNat / 1048576 % 16) (by omega)
  have v3 := hexVal_hexDigit (c.toNat / 65536 % 16) (by omega)
  have v4 := hexVal_hexDigit (c.toNat / 4096 % 16) (by omega)
  have v5 := hexVal_hexDigit (c.toNat / 256 % 16) (by omega)
  have v6 := hexVal_hexDigit (c.toNat / 16 % 16) (by omega)
  have v7 := hexVal_hexDigit (c.toNat % 16) (by omega)
  have hn : hexNum (hex8 c.toNat) = c.toNat := by
    simp [hex8, hexNum, v0, v1, v2, v3, v4, v5, v6, v7]; omega
  have h1 : isSimpleEsc 'U' = false := by decide
  have h2 : isDigit 'U' = false := by decide
  have hc : chrOf c.toNat = some c := chrOf_toNat c
  simp only [hex8] at hn
  simp [hex8, decodeGo, escAt, escBackslash, escHexN, h1, h2, e0, e1, e2, e3, e4, e5, e6, e7, hn, hc]

theorem decodeGo_pyReprChar (np : List Char) (qc : Char) (hq : GoodQuote qc) (c : Char) (rest : Str) :
    decodeGo (pyReprChar np qc c ++ rest) 0 = (decodeGo rest 0).map (c :: ·) := by
  unfold pyReprChar
  by_cases h1 : c = '\\'
  · subst h1; simp only [if_true, List.cons_append, List.nil_append]
    exact decodeGo_simple '\\' rest (by decide)
  by_cases h5 : c = qc
  · subst h5; simp only [h1, if_false, if_true, List.cons_append, List.nil_append]
    rcases hq with h | h <;> subst h
    · exact decodeGo_simple '"' rest (by decide)
    · exact decodeGo_simple '\'' rest (by decide)
  by_cases h2 : c = '\n'
  · subst h2; simp only [h1, h5, if_false, if_true, List.cons_append, List.nil_append]
    exact decodeGo_simple 'n' rest (by decide)
  by_cases h3 : c = '\r'
  · subst h3; simp only [h1, h2, h5, if_false, if_true, List.cons_append, List.nil_append]
    exact decodeGo_simple 'r' rest (by decide)
  by_cases h4 : c = '\t'
  · subst h4; simp only [h1, h2, h3, h5, if_false, if_true, List.cons_append, List.nil_append]
    exact decodeGo_simple 't' rest (by decide)
  simp only [h1, h2, h3, h4, h5, if_false]
  by_cases h6 : (c.toNat < 32 || c.toNat = 127) = true
  · simp only [h6, if_true]
    exact decodeGo_x2 c rest (by simp at h6; omega)
  simp only [h6, if_false, Bool.false_eq_true]
  by_cases h7 : c.toNat < 127
  · simp only [h7, if_true]; exact decodeGo_cons_plain c rest h1
  simp only [h7, if_false]
  by_cases h8 : (!np.contains c) = true
  · simp only [h8, if_true]; exact decodeGo_cons_plain c rest h1
  simp only [h8, if_false, Bool.false_eq_true]
  by_cases h9 : c.toNat < 256
  · simp only [h9, if_true]; exact decodeGo_x2 c rest h9
  simp only [h9, if_false]
  by_cases h10 : c.toNat < 65536
  · simp only [h10, if_true]; exact decodeGo_u4 c rest h10
  simp only [h10, if_false]
  exact decodeGo_U8 c rest

/-- decoding undoes `repr`'s escaping, whichever quote `repr` chose and whichever characters count as
non-printable -/
theorem decodeBody_pyReprBody (np : List Char) (qc : Char) (hq : GoodQuote qc) (s : Str) :
    decodeBody (s.flatMap (pyReprChar np qc)) = some s := by
  unfold decodeBody
  induction s with
  | nil => simp [decodeGo]
  | cons c s ih =>
    simp only [List.flatMap_cons]
    rw [decodeGo_pyReprChar np qc hq, ih]; rfl

end Cel.XlateValue
