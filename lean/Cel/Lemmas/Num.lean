/- Helper lemmas for C01: Python's floor division on absolute values, re-signed, is truncated division. -/
import Cel.Model.Num
namespace Cel

theorem pyAbs_nonneg (a : Int) : 0 ≤ pyAbs a := by unfold pyAbs; split <;> omega
theorem pyAbs_eq_zero (a : Int) : pyAbs a = 0 ↔ a = 0 := by unfold pyAbs; split <;> omega
theorem pyAbs_pos {a : Int} (h : a ≠ 0) : 0 < pyAbs a := by unfold pyAbs; split <;> omega

/-- `self_sign * other_sign * (abs(self) // abs(other))` is `a.tdiv b` (truncation toward zero). -/
theorem sign_abs_fdiv (a b : Int) :
    pySign a * pySign b * Int.fdiv (pyAbs a) (pyAbs b) = a.tdiv b := by
  rw [Int.fdiv_eq_tdiv_of_nonneg (pyAbs_nonneg a) (pyAbs_nonneg b)]
  unfold pySign pyAbs
  by_cases ha : a < 0 <;> by_cases hb : b < 0 <;> simp only [ha, hb, if_true, if_false] <;>
    simp [Int.neg_tdiv, Int.tdiv_neg]

/-- `self_sign * (abs(self) % abs(other))` is `a.tmod b` (sign of the dividend). -/
theorem sign_abs_fmod (a b : Int) :
    pySign a * Int.fmod (pyAbs a) (pyAbs b) = a.tmod b := by
  rw [Int.fmod_eq_emod_of_nonneg _ (pyAbs_nonneg b), ← Int.tmod_eq_emod_of_nonneg (pyAbs_nonneg a)]
  unfold pySign pyAbs
  by_cases ha : a < 0 <;> by_cases hb : b < 0 <;> simp only [ha, hb, if_true, if_false] <;>
    simp [Int.neg_tmod, Int.tmod_neg]

theorem int64_ok {z : Int} (h : i64 z) : int64 z = .ok z := by
  unfold int64; unfold i64 at h; rw [if_pos h]
theorem int64_err {z : Int} (h : ¬ i64 z) : int64 z = .error .valueError := by
  unfold int64; unfold i64 at h; rw [if_neg h]
theorem uint64_ok {z : Int} (h : u64 z) : uint64 z = .ok z := by
  unfold uint64; unfold u64 at h; rw [if_pos h]
theorem uint64_err {z : Int} (h : ¬ u64 z) : uint64 z = .error .valueError := by
  unfold uint64; unfold u64 at h; rw [if_neg h]

/-- `Wrapper(e)` followed by the decorator: a double range check is a single one. -/
theorem int64_twice (z : Int) : (int64 z >>= int64) = if i64 z then .ok z else .error .valueError := by
  by_cases h : i64 z
  · rw [if_pos h, int64_ok h]; exact int64_ok h
  · rw [if_neg h, int64_err h]; rfl
theorem uint64_twice (z : Int) : (uint64 z >>= uint64) = if u64 z then .ok z else .error .valueError := by
  by_cases h : u64 z
  · rw [if_pos h, uint64_ok h]; exact uint64_ok h
  · rw [if_neg h, uint64_err h]; rfl

/-- `|a tmod b| < |b|`, so the remainder of two int64 values is always in range. -/
theorem tmod_i64 (a b : Int) (hb : i64 b) (hb0 : b ≠ 0) : i64 (a.tmod b) := by
  have h1 := Int.tmod_lt_of_pos a (b := pyAbs b) (pyAbs_pos hb0)
  have h2 : a.tmod (pyAbs b) = a.tmod b := by
    unfold pyAbs; split <;> simp [Int.tmod_neg]
  rw [h2] at h1
  have h3 : -(pyAbs b) < a.tmod b := by
    have := Int.tmod_lt_of_pos (-a) (b := pyAbs b) (pyAbs_pos hb0)
    have h4 : (-a).tmod (pyAbs b) = -(a.tmod b) := by
      rw [Int.neg_tmod]; unfold pyAbs; split <;> simp [Int.tmod_neg]
    omega
  unfold i64 at *; unfold pyAbs at h1 h3; split at h1 <;> simp_all <;> omega

end Cel
