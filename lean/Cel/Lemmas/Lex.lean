/-
  Cel.Lemmas.Lex — lemmas about the backtracking matcher `Cel.Lex.run` on the literal terminals (C07).
-/
import Cel.Model.Lex
import Cel.Lemmas.Str
set_option linter.unusedSimpArgs false
namespace Cel.Lex
open Cel.Str

@[simp] theorem orElse_some (v : Nat) (b : Unit → Option Nat) : orElse (some v) b = some v := rfl
@[simp] theorem orElse_none (b : Unit → Option Nat) : orElse none b = b () := rfl

theorem mem_single (c x : Nat) : (Cls.ranges [(c, c)]).mem x = decide (x = c) := by
  simp only [Cls.mem, List.any_cons, List.any_nil, Bool.or_false]
  by_cases h : x = c
  · subst h; simp
  · have : ¬ (c ≤ x ∧ x ≤ c) := by omega
    simp [h]; omega

@[simp] theorem run_eps (t : Text) (k : K) : run .eps t k = k t := rfl
@[simp] theorem run_seq (a b : Re) (t : Text) (k : K) : run (.seq a b) t k = run a t (fun t' => run b t' k) := rfl
@[simp] theorem run_alt (a b : Re) (t : Text) (k : K) : run (.alt a b) t k = orElse (run a t k) (fun _ => run b t k) := rfl
theorem run_cls_cons (c : Cls) (x : Nat) (xs : Text) (k : K) : run (.cls c) (x :: xs) k = if c.mem x then k xs else none := rfl
@[simp] theorem run_cls_nil (c : Cls) (k : K) : run (.cls c) [] k = none := rfl
@[simp] theorem run_star (g : Bool) (r : Re) (t : Text) (k : K) : run (.star g r) t k = starLoop (run r) g t.length t k := rfl

@[simp] theorem run_lit_cons (c x : Nat) (xs : Text) (k : K) : run (lit c) (x :: xs) k = if x = c then k xs else none := by
  unfold lit; rw [run_cls_cons, mem_single]; simp
@[simp] theorem run_lit_nil (c : Nat) (k : K) : run (lit c) [] k = none := rfl
@[simp] theorem run_set_cons (rs : List (Nat × Nat)) (x : Nat) (xs : Text) (k : K) :
    run (set rs) (x :: xs) k = if (Cls.ranges rs).mem x then k xs else none := rfl
@[simp] theorem run_set_nil (rs : List (Nat × Nat)) (k : K) : run (set rs) [] k = none := rfl
@[simp] theorem run_dot_cons (x : Nat) (xs : Text) (k : K) : run dot (x :: xs) k = if x ≠ 10 then k xs else none := by
  unfold dot; rw [run_cls_cons]; simp [Cls.mem]
@[simp] theorem run_opt (r : Re) (t : Text) (k : K) : run (opt r) t k = orElse (run r t k) (fun _ => k t) := rfl
@[simp] theorem run_plus (r : Re) (t : Text) (k : K) :
    run (plus r) t k = run r t (fun t' => starLoop (run r) true t'.length t' k) := rfl

/-- a greedy repetition of a character set over a run of members, followed by a text that does not continue
the run, with a continuation that accepts: the whole run is consumed (no backtracking happens) -/
theorem greedy_all (c : Cls) (ds t : Text) (k : K) (v : Nat) (hds : ∀ d ∈ ds, c.mem d = true)
    (ht : ∀ x ∈ t.head?, c.mem x = false) (hk : k t = some v) :
    ∀ fuel, (ds ++ t).length ≤ fuel → starLoop (run (.cls c)) true fuel (ds ++ t) k = some v := by
  induction ds with
  | nil =>
    intro fuel _
    cases fuel with
    | zero => simpa [starLoop] using hk
    | succ n =>
      simp only [List.nil_append, starLoop, if_true]
      cases t with
      | nil => simp [hk]
      | cons x xs =>
        have := ht x (by simp)
        simp [run_cls_cons, this, hk]
  | cons d ds ih =>
    intro fuel hf
    cases fuel with
    | zero => simp at hf
    | succ n =>
      have hd := hds d (by simp)
      have := ih (fun d' hd' => hds d' (by simp [hd'])) n (by simp at hf ⊢; omega)
      simp only [List.cons_append, starLoop, if_true, run_cls_cons, hd]
      simp [this]

/-- `r+` for a character set -/
theorem plus_all (c : Cls) (d : Nat) (ds t : Text) (k : K) (v : Nat) (hds : ∀ x ∈ d :: ds, c.mem x = true)
    (ht : ∀ x ∈ t.head?, c.mem x = false) (hk : k t = some v) :
    run (plus (.cls c)) (d :: ds ++ t) k = some v := by
  rw [run_plus]
  simp only [List.cons_append, run_cls_cons, hds d (by simp), if_true]
  exact greedy_all c ds t k v (fun x hx => hds x (by simp [hx])) ht hk _ (Nat.le_refl _)

theorem digit_mem (d : Nat) : (Cls.ranges [(48, 57)]).mem d = isDigit d := by
  simp [Cls.mem, isDigit]

theorem hexLong_mem (d : Nat) (h : isHex d = true) :
    (Cls.ranges [(48, 57), (97, 97), (98, 98), (99, 99), (100, 100), (101, 101), (102, 102), (65, 65), (66, 66),
      (67, 67), (68, 68), (69, 69), (70, 70)]).mem d = true := by
  simp only [isHex, Bool.or_eq_true, Bool.and_eq_true, decide_eq_true_eq] at h
  simp only [Cls.mem, List.any_cons, List.any_nil, Bool.or_false, Bool.or_eq_true, Bool.and_eq_true, decide_eq_true_eq]
  omega

theorem hexLong_not_mem (d : Nat) (h : isHex d = false) :
    (Cls.ranges [(48, 57), (97, 97), (98, 98), (99, 99), (100, 100), (101, 101), (102, 102), (65, 65), (66, 66),
      (67, 67), (68, 68), (69, 69), (70, 70)]).mem d = false := by
  simp only [isHex, Bool.or_eq_false_iff, Bool.and_eq_false_iff, decide_eq_false_iff_not] at h
  simp only [Cls.mem, List.any_cons, List.any_nil, Bool.or_false, Bool.or_eq_false_iff, Bool.and_eq_false_iff, decide_eq_false_iff_not]
  omega

/-! ### INT_LIT / UINT_LIT -/

/-- `0x` cannot match at the start of a decimal digit string -/
theorem zx_none (ds t : Text) (k : K) (h1 : ds ≠ []) (h2 : ds.all isDigit = true) (ht : t.head? ≠ some 120) :
    run (lit 48) (ds ++ t) (fun t' => run (lit 120) t' k) = none := by
  cases ds with
  | nil => exact absurd rfl h1
  | cons d ds' =>
    simp only [List.cons_append, run_lit_cons]
    split
    · cases ds' with
      | nil =>
        cases t with
        | nil => simp
        | cons x xs =>
          have : x ≠ 120 := by intro e; apply ht; simp [e]
          simp [this]
      | cons e es =>
        have he : isDigit e = true := by
          simp only [List.all_cons, Bool.and_eq_true] at h2; exact h2.2.1
        have : e ≠ 120 := by
          intro e'; subst e'; simp [isDigit] at he
        simp [this]
    · rfl

theorem run_intLit_dec (neg : Bool) (ds t : Text) (k : K) (v : Nat) (h1 : ds ≠ []) (h2 : ds.all isDigit = true)
    (ht : ∀ x ∈ t.head?, isDigit x = false ∧ x ≠ 120) (hk : k t = some v) :
    run intLit (signText neg ++ ds ++ t) k = some v := by
  have ht1 : t.head? ≠ some 120 := by
    intro e; exact (ht 120 (by simp [e])).2 rfl
  have ht2 : ∀ x ∈ t.head?, (Cls.ranges [(48, 57)]).mem x = false := by
    intro x hx; rw [digit_mem]; exact (ht x hx).1
  have hA := fun k' => zx_none ds t k' h1 h2 ht1
  obtain ⟨d, ds', rfl⟩ : ∃ d ds', ds = d :: ds' := by
    cases ds with
    | nil => exact absurd rfl h1
    | cons d ds' => exact ⟨d, ds', rfl⟩
  have hall : ∀ x ∈ d :: ds', (Cls.ranges [(48, 57)]).mem x = true := by
    intro x hx; rw [digit_mem]; exact List.all_eq_true.mp h2 x hx
  have hP : run (plus digit) (d :: (ds' ++ t)) k = some v := plus_all (.ranges [(48, 57)]) d ds' t k v hall ht2 hk
  have hd : isDigit d = true := by simp only [List.all_cons, Bool.and_eq_true] at h2; exact h2.1
  have hd45 : d ≠ 45 := by intro e; subst e; simp [isDigit] at hd
  have h4548 : ¬ ((45:Nat) = 48) := by decide
  unfold intLit
  simp only [List.cons_append] at hA
  cases neg with
  | true =>
    simp only [alts, run_alt, seqs, run_seq, run_opt, signText, if_true, List.cons_append, List.nil_append, run_lit_cons,
      hA, orElse_none, if_neg h4548, hP, orElse_some]
  | false =>
    simp only [alts, run_alt, seqs, run_seq, run_opt, signText, List.cons_append, List.nil_append, run_lit_cons,
      if_neg hd45, hA, orElse_none, hP, Bool.false_eq_true, if_false]

theorem run_intLit_hex (neg : Bool) (ds t : Text) (k : K) (v : Nat) (h1 : ds ≠ []) (h2 : ds.all isHex = true)
    (ht : ∀ x ∈ t.head?, isHex x = false) (hk : k t = some v) :
    run intLit (signText neg ++ [48, 120] ++ ds ++ t) k = some v := by
  obtain ⟨d, ds', rfl⟩ : ∃ d ds', ds = d :: ds' := by
    cases ds with
    | nil => exact absurd rfl h1
    | cons d ds' => exact ⟨d, ds', rfl⟩
  have hall : ∀ x ∈ d :: ds', (Cls.ranges [(48, 57), (97, 97), (98, 98), (99, 99), (100, 100), (101, 101), (102, 102), (65, 65), (66, 66),
      (67, 67), (68, 68), (69, 69), (70, 70)]).mem x = true := by
    intro x hx; exact hexLong_mem x (List.all_eq_true.mp h2 x hx)
  have hP : run (plus hexDigitLong) (d :: (ds' ++ t)) k = some v :=
    plus_all _ d ds' t k v hall (fun x hx => hexLong_not_mem x (ht x hx)) hk
  have h4845 : ¬ ((48:Nat) = 45) := by decide
  unfold intLit
  cases neg with
  | true =>
    simp only [alts, run_alt, seqs, run_seq, run_opt, signText, if_true, List.cons_append, List.nil_append, run_lit_cons,
      hP, orElse_some]
  | false =>
    simp only [alts, run_alt, seqs, run_seq, run_opt, signText, List.cons_append, List.nil_append, run_lit_cons,
      if_neg h4845, orElse_none, hP, orElse_some, Bool.false_eq_true, if_false, if_true]


/-! ### the string terminals -/

/-- the lazy repetition over a body made of "units" — chunks at whose start the closing delimiter does not match
and which the item expression consumes whole at the first try: the loop walks through all of them without
backtracking and ends at the closing delimiter -/
theorem lazy_units (I : Text → K → Option Nat) (K₀ : K) (t : Text) (v : Nat) (us : List Text)
    (hu : ∀ u ∈ us, u ≠ [] ∧ (∀ r, K₀ (u ++ r) = none) ∧ (∀ r k w, k r = some w → I (u ++ r) k = some w))
    (hK : K₀ t = some v) :
    ∀ fuel, (us.flatten ++ t).length ≤ fuel → starLoop I false fuel (us.flatten ++ t) K₀ = some v := by
  induction us with
  | nil =>
    intro fuel _
    cases fuel with
    | zero => simpa [starLoop] using hK
    | succ n => simp [starLoop, hK]
  | cons u us ih =>
    intro fuel hf
    obtain ⟨hne, hclose, hitem⟩ := hu u (by simp)
    have ih' := ih (fun u' hu' => hu u' (by simp [hu']))
    have hlen : 0 < u.length := by
      cases u with
      | nil => exact absurd rfl hne
      | cons _ _ => simp
    have e : (u :: us).flatten ++ t = u ++ (us.flatten ++ t) := by simp
    rw [e] at hf ⊢
    cases fuel with
    | zero => rw [List.length_append] at hf; omega
    | succ n =>
      simp only [starLoop, Bool.false_eq_true, if_false, hclose, orElse_none]
      apply hitem
      have hl : (us.flatten ++ t).length < (u ++ (us.flatten ++ t)).length := by simp; omega
      rw [if_pos hl]
      apply ih'
      simp at hf ⊢; omega

theorem simpleSet_mem (e : Nat) :
    (Cls.ranges [(97, 97), (98, 98), (102, 102), (110, 110), (114, 114), (116, 116), (118, 118), (34, 34), (39, 39), (92, 92)]).mem e
      = isSimple e := by
  simp only [Cls.mem, List.any_cons, List.any_nil, Bool.or_false, isSimple]
  rw [Bool.eq_iff_iff]
  simp only [Bool.or_eq_true, Bool.and_eq_true, decide_eq_true_eq]
  omega

theorem hex_mem (d : Nat) : (Cls.ranges [(48, 57), (97, 102), (65, 70)]).mem d = isHex d := by
  simp [Cls.mem, isHex, Bool.or_assoc]

/-- what the theorems need to know about the body alternatives of a string terminal -/
structure ItemOk (item : Re) : Prop where
  /-- a simple escape `\e` is consumed as one item -/
  esc : ∀ e r k w, isSimple e = true → k r = some w → run item (92 :: e :: r) k = some w
  /-- a character other than backslash, LF, CR is consumed as one item -/
  plain : ∀ c r k w, c ≠ 92 → c ≠ 10 → c ≠ 13 → k r = some w → run item (c :: r) k = some w
  /-- `\xHH` is consumed as one item -/
  hex : ∀ h1 h2 r k w, isHex h1 = true → isHex h2 = true → k r = some w → run item (92 :: 120 :: h1 :: h2 :: r) k = some w

theorem itemSQ_ok : ItemOk itemSQ := by
  refine ⟨?_, ?_, ?_⟩
  · intro e r k w he hk
    simp only [itemSQ, escSQ, List.cons_append, List.nil_append, alts, seqs, simpleSet, run_alt, run_seq, run_lit_cons, if_true,
      run_set_cons, simpleSet_mem, he, hk, orElse_some]
  · intro c r k w h1 h2 h3 hk
    simp only [itemSQ, escSQ, List.cons_append, List.nil_append, alts, seqs, run_alt, run_seq, run_lit_cons, if_neg h1, orElse_none,
      run_dot_cons, ne_eq, h2, not_false_eq_true, if_true, hk]
  · intro h1 h2 r k w hh1 hh2 hk
    have n1 : isSimple 120 = false := by decide
    have n2 : isDigit 120 = false := by decide
    simp only [itemSQ, escSQ, List.cons_append, List.nil_append, alts, seqs, simpleSet, digit, hexDigit, rep, run_alt, run_seq,
      run_lit_cons, if_true, run_set_cons, simpleSet_mem, digit_mem, hex_mem, n1, n2, Bool.false_eq_true, if_false, orElse_none,
      hh1, hh2, hk, orElse_some]


theorem itemDQ_ok : ItemOk itemDQ := by
  refine ⟨?_, ?_, ?_⟩
  · intro e r k w he hk
    simp only [itemDQ, escDQ, List.cons_append, List.nil_append, alts, seqs, simpleSet, run_alt, run_seq, run_lit_cons, if_true,
      run_set_cons, simpleSet_mem, he, hk, orElse_some]
  · intro c r k w h1 h2 h3 hk
    simp only [itemDQ, escDQ, List.cons_append, List.nil_append, alts, seqs, run_alt, run_seq, run_lit_cons, if_neg h1, orElse_none,
      run_dot_cons, ne_eq, h2, not_false_eq_true, if_true, hk]
  · intro h1 h2 r k w hh1 hh2 hk
    have n1 : isSimple 120 = false := by decide
    have n2 : isDigit 120 = false := by decide
    simp only [itemDQ, escDQ, List.cons_append, List.nil_append, alts, seqs, simpleSet, digit, hexDigit, rep, run_alt, run_seq,
      run_lit_cons, if_true, run_set_cons, simpleSet_mem, digit_mem, hex_mem, n1, n2, Bool.false_eq_true, if_false, orElse_none,
      hh1, hh2, hk, orElse_some]

theorem itemTSQ_ok : ItemOk itemTSQ := by
  refine ⟨?_, ?_, ?_⟩
  · intro e r k w he hk
    simp only [itemTSQ, escSQ, newlines, List.cons_append, List.nil_append, alts, seqs, simpleSet, run_alt, run_seq, run_lit_cons, if_true,
      run_set_cons, simpleSet_mem, he, hk, orElse_some]
  · intro c r k w h1 h2 h3 hk
    simp only [itemTSQ, escSQ, newlines, List.cons_append, List.nil_append, alts, seqs, run_alt, run_seq, run_lit_cons, if_neg h1,
      if_neg h3, orElse_none, run_dot_cons, ne_eq, h2, not_false_eq_true, if_true, if_false, hk]
  · intro h1 h2 r k w hh1 hh2 hk
    have n1 : isSimple 120 = false := by decide
    have n2 : isDigit 120 = false := by decide
    simp only [itemTSQ, escSQ, newlines, List.cons_append, List.nil_append, alts, seqs, simpleSet, digit, hexDigit, rep, run_alt, run_seq,
      run_lit_cons, if_true, run_set_cons, simpleSet_mem, digit_mem, hex_mem, n1, n2, Bool.false_eq_true, if_false, orElse_none,
      hh1, hh2, hk, orElse_some]

theorem itemTDQ_ok : ItemOk itemTDQ := by
  refine ⟨?_, ?_, ?_⟩
  · intro e r k w he hk
    simp only [itemTDQ, escDQ, newlines, List.cons_append, List.nil_append, alts, seqs, simpleSet, run_alt, run_seq, run_lit_cons, if_true,
      run_set_cons, simpleSet_mem, he, hk, orElse_some]
  · intro c r k w h1 h2 h3 hk
    simp only [itemTDQ, escDQ, newlines, List.cons_append, List.nil_append, alts, seqs, run_alt, run_seq, run_lit_cons, if_neg h1,
      if_neg h3, orElse_none, run_dot_cons, ne_eq, h2, not_false_eq_true, if_true, if_false, hk]
  · intro h1 h2 r k w hh1 hh2 hk
    have n1 : isSimple 120 = false := by decide
    have n2 : isDigit 120 = false := by decide
    simp only [itemTDQ, escDQ, newlines, List.cons_append, List.nil_append, alts, seqs, simpleSet, digit, hexDigit, rep, run_alt, run_seq,
      run_lit_cons, if_true, run_set_cons, simpleSet_mem, digit_mem, hex_mem, n1, n2, Bool.false_eq_true, if_false, orElse_none,
      hh1, hh2, hk, orElse_some]

/-- the lazy body loop of a string terminal walks through `body` and stops at the closing delimiter -/
def Walk (item : Re) (qc : Nat) (body : Text) : Prop :=
  ∀ (K₀ : K) (t : Text) (v : Nat), (∀ x r, x ≠ qc → K₀ (x :: r) = none) → K₀ t = some v →
    starLoop (run item) false (body ++ t).length (body ++ t) K₀ = some v

theorem encodeBody_units (q : Quote) (s : Text) : encodeBody q s = (s.map (encodeCp q)).flatten := by
  induction s with
  | nil => rfl
  | cons c cs ih => simp [encodeBody, ih]

theorem encodeBytesBody_units (b : Bytes) : encodeBytesBody b = (b.map encodeByte).flatten := by
  induction b with
  | nil => rfl
  | cons c cs ih => simp [encodeBytesBody, ih]

theorem quote_char (q : Quote) : q.char = 34 ∨ q.char = 39 := by cases q <;> simp [Quote.char]

/-- the reference encoder's bodies (ALL strings) are walked by every item expression that is `ItemOk` -/
theorem walk_encodeBody (item : Re) (hi : ItemOk item) (q : Quote) (s : Text) : Walk item q.char (encodeBody q s) := by
  intro K₀ t v hKq hK
  rw [encodeBody_units]
  apply lazy_units (run item) K₀ t v _ _ hK _ (Nat.le_refl _)
  intro u hu
  obtain ⟨c, _, rfl⟩ := List.mem_map.mp hu
  have hq := quote_char q
  have hq92 : (92:Nat) ≠ q.char := by omega
  unfold encodeCp
  by_cases h1 : c = 92
  · rw [if_pos h1]
    exact ⟨by simp, fun r => hKq 92 _ hq92, fun r k w hk => hi.esc 92 r k w (by decide) hk⟩
  · rw [if_neg h1]
    by_cases h2 : c = q.char
    · rw [if_pos h2]
      refine ⟨by simp, fun r => hKq 92 _ hq92, fun r k w hk => hi.esc c r k w ?_ hk⟩
      rcases hq with h | h <;> (rw [h2, h]; decide)
    · rw [if_neg h2]
      by_cases h3 : c = 10
      · rw [if_pos h3]
        exact ⟨by simp, fun r => hKq 92 _ hq92, fun r k w hk => hi.esc 110 r k w (by decide) hk⟩
      · rw [if_neg h3]
        by_cases h4 : c = 13
        · rw [if_pos h4]
          exact ⟨by simp, fun r => hKq 92 _ hq92, fun r k w hk => hi.esc 114 r k w (by decide) hk⟩
        · rw [if_neg h4]
          exact ⟨by simp, fun r => hKq c _ h2, fun r k w hk => hi.plain c r k w h1 h3 h4 hk⟩

/-- … and so are the reference bytes encoder's bodies (ALL byte strings) -/
theorem walk_encodeBytesBody (item : Re) (hi : ItemOk item) (qc : Nat) (hq : qc = 34 ∨ qc = 39) (b : Bytes)
    (hb : b.all (· < 256) = true) : Walk item qc (encodeBytesBody b) := by
  intro K₀ t v hKq hK
  rw [encodeBytesBody_units]
  apply lazy_units (run item) K₀ t v _ _ hK _ (Nat.le_refl _)
  intro u hu
  obtain ⟨c, hc, rfl⟩ := List.mem_map.mp hu
  have hc256 : c < 256 := by simpa using List.all_eq_true.mp hb c hc
  have hq92 : (92:Nat) ≠ qc := by omega
  unfold encodeByte
  split
  · rename_i hp
    simp only [Bool.and_eq_true, decide_eq_true_eq, ne_eq] at hp
    refine ⟨by simp, fun r => hKq c _ (by omega), fun r k w hk => hi.plain c r k w (by omega) (by omega) (by omega) hk⟩
  · have ha := hexVal_hexDigitChar (c / 16) (by omega)
    have hb' := hexVal_hexDigitChar (c % 16) (by omega)
    exact ⟨by simp, fun r => hKq 92 _ hq92, fun r k w hk => hi.hex _ _ r k w ha.2 hb'.2 hk⟩


/-! ### the terminals on a quoted body -/

theorem rR_not_mem (x : Nat) (h : x = 34 ∨ x = 39) : (Cls.ranges [(114, 114), (82, 82)]).mem x = false := by
  rcases h with rfl | rfl <;> decide

/-- STRING_LIT on `'body'` -/
theorem run_stringLit_sq (body : Text) (k : K) (v : Nat) (hw : Walk itemSQ 39 body) (hk : k [] = some v) :
    run stringLit (39 :: (body ++ [39])) k = some v := by
  have h := hw (fun t' => run (lit 39) t' k) [39] v (fun x r hx => by simp [hx]) (by simpa using hk)
  simp only [stringLit, alts, seqs, rPrefix, manyLazy, run_alt, run_seq, run_opt, run_set_cons, rR_not_mem 39 (Or.inr rfl),
    Bool.false_eq_true, if_false, orElse_none, run_lit_cons, if_true, run_star, h, orElse_some]

/-- STRING_LIT on `"body"` -/
theorem run_stringLit_dq (body : Text) (k : K) (v : Nat) (hw : Walk itemDQ 34 body) (hk : k [] = some v) :
    run stringLit (34 :: (body ++ [34])) k = some v := by
  have h := hw (fun t' => run (lit 34) t' k) [34] v (fun x r hx => by simp [hx]) (by simpa using hk)
  have n : ¬ ((34:Nat) = 39) := by decide
  simp only [stringLit, alts, seqs, rPrefix, manyLazy, run_alt, run_seq, run_opt, run_set_cons, rR_not_mem 34 (Or.inl rfl),
    Bool.false_eq_true, if_false, orElse_none, run_lit_cons, if_neg n, if_true, run_star, h, orElse_some]

/-- MLSTRING_LIT on `'''body'''` -/
theorem run_mlstringLit_tsq (body : Text) (k : K) (v : Nat) (hw : Walk itemTSQ 39 body) (hk : k [] = some v) :
    run mlstringLit (39 :: 39 :: 39 :: (body ++ [39, 39, 39])) k = some v := by
  have h := hw (fun t' => run (lit 39) t' (fun t' => run (lit 39) t' (fun t' => run (lit 39) t' k))) [39, 39, 39] v
    (fun x r hx => by simp [hx]) (by simpa using hk)
  simp only [mlstringLit, alts, seqs, rPrefix, manyLazy, run_alt, run_seq, run_opt, run_set_cons, rR_not_mem 39 (Or.inr rfl),
    Bool.false_eq_true, if_false, orElse_none, run_lit_cons, if_true, run_star, h, orElse_some]

/-- MLSTRING_LIT on `"""body"""` -/
theorem run_mlstringLit_tdq (body : Text) (k : K) (v : Nat) (hw : Walk itemTDQ 34 body) (hk : k [] = some v) :
    run mlstringLit (34 :: 34 :: 34 :: (body ++ [34, 34, 34])) k = some v := by
  have h := hw (fun t' => run (lit 34) t' (fun t' => run (lit 34) t' (fun t' => run (lit 34) t' k))) [34, 34, 34] v
    (fun x r hx => by simp [hx]) (by simpa using hk)
  have n : ¬ ((34:Nat) = 39) := by decide
  simp only [mlstringLit, alts, seqs, rPrefix, manyLazy, run_alt, run_seq, run_opt, run_set_cons, rR_not_mem 34 (Or.inl rfl),
    Bool.false_eq_true, if_false, orElse_none, run_lit_cons, if_neg n, if_true, run_star, h, orElse_some]

/-- MLSTRING_LIT does not match a short-quoted literal whose body does not begin with the quote character -/
theorem run_mlstringLit_short (qc : Nat) (hq : qc = 34 ∨ qc = 39) (body : Text) (k : K) (hh : body.head? ≠ some qc) :
    run mlstringLit (qc :: (body ++ [qc])) k = none := by
  have n : ¬ ((34:Nat) = 39) := by decide
  have n' : ¬ ((39:Nat) = 34) := by decide
  cases body with
  | nil =>
    rcases hq with rfl | rfl <;>
    simp only [mlstringLit, alts, seqs, rPrefix, manyLazy, run_alt, run_seq, run_opt, run_set_cons, rR_not_mem _ (Or.inl rfl),
      rR_not_mem _ (Or.inr rfl), Bool.false_eq_true, if_false, orElse_none, run_lit_cons, run_lit_nil, if_neg n, if_neg n', if_true,
      List.nil_append]
  | cons x xs =>
    have hx : x ≠ qc := by intro e; apply hh; simp [e]
    rcases hq with rfl | rfl <;>
    simp only [mlstringLit, alts, seqs, rPrefix, manyLazy, run_alt, run_seq, run_opt, run_set_cons, rR_not_mem _ (Or.inl rfl),
      rR_not_mem _ (Or.inr rfl), Bool.false_eq_true, if_false, orElse_none, run_lit_cons, if_neg n, if_neg n', if_neg hx, if_true,
      List.cons_append]

theorem bB_mem (x : Nat) (h : x = 98 ∨ x = 66) : (Cls.ranges [(98, 98), (66, 66)]).mem x = true := by
  rcases h with rfl | rfl <;> decide

/-- BYTES_LIT = `[bB]` then MLSTRING_LIT, else STRING_LIT -/
theorem run_bytesLit (b : Nat) (hb : b = 98 ∨ b = 66) (t : Text) (k : K) :
    run bytesLit (b :: t) k = orElse (run mlstringLit t k) (fun _ => run stringLit t k) := by
  simp only [bytesLit, seqs, alts, run_seq, run_set_cons, bB_mem b hb, if_true, run_alt]


theorem uU_mem (u : Nat) (hu : u = 117 ∨ u = 85) : (Cls.ranges [(117, 117), (85, 85)]).mem u = true := by
  rcases hu with rfl | rfl <;> decide

end Cel.Lex
