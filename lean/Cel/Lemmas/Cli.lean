/-
  Lemmas for C20: the activation is overwritten, never accumulated; the NDJSON loop equals the
  per-document specification folded with `max`.
-/
import Cel.Model.Cli
namespace Cel.Cli
open Cel

theorem setVar_setVar {δ : Type} (a : Activation δ) (k : String) (x y : δ) :
    setVar (setVar a k x) k y = setVar a k y := by
  induction a with
  | nil => simp [setVar]
  | cons hd tl ih =>
      obtain ⟨k', v'⟩ := hd
      by_cases h : k' = k
      · simp [setVar, h]
      · simp [setVar, h, ih]

/-- the program never lets a non-CEL exception escape (the property's stated fragment; C04) -/
def Total {δ : Type} (prg : Prog δ) : Prop := ∀ a e, prg a ≠ .escape e

/-- the input text is JSON or is rejected by the JSON parser (no integer outside int64 …) -/
def Line.clean {δ : Type} : Line δ → Bool
  | .escape _ => false
  | _ => true

/-- **The per-document specification**: what one input line prints and which status it has, computed from
the `--arg` activation and that line alone. -/
def docSpec {δ : Type} (prg : Prog δ) (b : Bool) (act₀ : Activation δ) (var : String) : Line δ → List String × Nat
  | .malformed => ([], 3)
  | .escape _ => ([], 0)
  | .json d =>
      match prg (setVar act₀ var d) with
      | .bool v => ([boolText v], if b then (if v then 0 else 1) else 0)
      | .value t => ([t], 0)
      | .evalError => (["null"], 0)
      | .escape _ => ([], 0)

/-- `act` differs from the initial activation only in what `var` is bound to -/
def SameBase {δ : Type} (act act₀ : Activation δ) (var : String) : Prop :=
  ∀ d, setVar act var d = setVar act₀ var d

theorem sameBase_refl {δ : Type} (act₀ : Activation δ) (var : String) : SameBase act₀ act₀ var := fun _ => rfl

theorem processJsonDoc_spec {δ : Type} (prg : Prog δ) (b : Bool) (act act₀ : Activation δ) (var : String)
    (hb : SameBase act act₀ var) (ht : Total prg) (l : Line δ) (hc : l.clean = true) :
    SameBase (processJsonDoc prg b act var l).1 act₀ var ∧
    (processJsonDoc prg b act var l).2 = ⟨(docSpec prg b act₀ var l).1, .ok (docSpec prg b act₀ var l).2⟩ := by
  cases l with
  | malformed => exact ⟨by simpa [processJsonDoc] using hb, by simp [processJsonDoc, docSpec, St.docMalformed]⟩
  | escape e => simp [Line.clean] at hc
  | json d =>
      have hd := hb d
      simp only [processJsonDoc, docSpec, hd]
      cases hp : prg (setVar act₀ var d) with
      | bool v =>
          refine ⟨?_, ?_⟩
          · intro d'; simp only []; rw [← hd, setVar_setVar]; exact hb d'
          · simp [St.docTrue, St.docFalse, St.docPlain]
      | value t =>
          refine ⟨?_, ?_⟩
          · intro d'; simp only []; rw [← hd, setVar_setVar]; exact hb d'
          · simp [St.docPlain]
      | evalError =>
          refine ⟨?_, ?_⟩
          · intro d'; simp only []; rw [← hd, setVar_setVar]; exact hb d'
          · simp [St.docEvalError]
      | escape e => exact absurd hp (ht _ e)

theorem ndjsonLoop_spec {δ : Type} (prg : Prog δ) (b : Bool) (var : String) (act₀ : Activation δ) (ht : Total prg) :
    ∀ (ls : List (Line δ)) (act : Activation δ) (s : Nat), SameBase act act₀ var → (∀ l ∈ ls, l.clean = true) →
    ndjsonLoop prg b var act ls s =
      ⟨ls.flatMap (fun l => (docSpec prg b act₀ var l).1),
       .ok ((ls.map (fun l => (docSpec prg b act₀ var l).2)).foldl max s)⟩
  | [], act, s, _, _ => by simp [ndjsonLoop]
  | l :: ls, act, s, hb, hc => by
      have hl := processJsonDoc_spec prg b act act₀ var hb ht l (hc l (by simp))
      have ih := ndjsonLoop_spec prg b var act₀ ht ls (processJsonDoc prg b act var l).1
        (max s (docSpec prg b act₀ var l).2) hl.1 (fun l' h' => hc l' (by simp [h']))
      simp only [ndjsonLoop]
      rw [hl.2]
      simp only [ih, List.flatMap_cons, List.map_cons, List.foldl_cons]

theorem foldl_max_ge (xs : List Nat) : ∀ s, s ≤ xs.foldl max s ∧ ∀ x ∈ xs, x ≤ xs.foldl max s := by
  induction xs with
  | nil => intro s; simp
  | cons hd tl ih =>
      intro s
      have h := ih (max s hd)
      simp only [List.foldl_cons, List.mem_cons]
      refine ⟨by omega, ?_⟩
      intro x hx
      rcases hx with hx | hx
      · subst hx; omega
      · exact h.2 x hx

theorem foldl_max_mem (xs : List Nat) : ∀ s, xs.foldl max s = s ∨ xs.foldl max s ∈ xs := by
  induction xs with
  | nil => intro s; simp
  | cons hd tl ih =>
      intro s
      simp only [List.foldl_cons, List.mem_cons]
      rcases ih (max s hd) with h | h
      · rw [h]
        rcases Nat.le_total s hd with hle | hle
        · right; left; omega
        · left; omega
      · right; right; exact h

theorem docSpec_status_cases {δ : Type} (prg : Prog δ) (b : Bool) (act₀ : Activation δ) (var : String) (l : Line δ) :
    (docSpec prg b act₀ var l).2 = 0 ∨ (docSpec prg b act₀ var l).2 = 1 ∨
    ((docSpec prg b act₀ var l).2 = 3 ∧ l.clean = true ∧ ∀ d, l ≠ .json d) := by
  cases l with
  | malformed => right; right; simp [docSpec, Line.clean]
  | escape e => left; simp [docSpec]
  | json d =>
      simp only [docSpec]
      cases prg (setVar act₀ var d) with
      | bool v => cases b <;> cases v <;> simp
      | value t => simp
      | evalError => simp
      | escape e => simp

/-! ### the lines of the input text -/

theorem splitLines_flatten (s : List Char) : (splitLines s).flatten = s := by
  induction s with
  | nil => rfl
  | cons c cs ih =>
      unfold splitLines
      by_cases h : c = '\n'
      · simp [h, ih]
      · simp only [h, if_false]
        cases hs : splitLines cs with
        | nil => rw [hs] at ih; simp at ih; simp [← ih]
        | cons l ls => rw [hs] at ih; simp at ih ⊢; exact ih

theorem splitLines_ne_nil (s : List Char) : ∀ l ∈ splitLines s, l ≠ [] := by
  induction s with
  | nil => simp [splitLines]
  | cons c cs ih =>
      unfold splitLines
      by_cases h : c = '\n'
      · simp only [h, if_true, List.mem_cons]
        rintro l (rfl | hl)
        · simp
        · exact ih l hl
      · simp only [h, if_false]
        cases hs : splitLines cs with
        | nil => simp
        | cons l ls =>
            rw [hs] at ih
            simp only [List.mem_cons]
            rintro x (rfl | hx)
            · simp
            · exact ih x (by simp [hx])

/-- a text without `'\n'` followed by `'\n'` is one line, whatever other characters it contains -/
theorem splitLines_line (s : List Char) (h : '\n' ∉ s) : splitLines (s ++ ['\n']) = [s ++ ['\n']] := by
  induction s with
  | nil => simp [splitLines]
  | cons c cs ih =>
      have hc : c ≠ '\n' := fun e => h (by simp [e])
      have hcs : '\n' ∉ cs := fun e => h (by simp [e])
      simp [splitLines, hc, ih hcs]

/-- what follows a `'\n'` has no influence on the lines before it -/
theorem splitLines_append (a b : List Char) (h : '\n' ∉ a) :
    splitLines (a ++ '\n' :: b) = (a ++ ['\n']) :: splitLines b := by
  induction a with
  | nil => simp [splitLines]
  | cons c cs ih =>
      have hc : c ≠ '\n' := fun e => h (by simp [e])
      have hcs : '\n' ∉ cs := fun e => h (by simp [e])
      simp [splitLines, hc, ih hcs]

theorem splitLines_last (t : List Char) (h : '\n' ∉ t) : splitLines t = if t = [] then [] else [t] := by
  induction t with
  | nil => simp [splitLines]
  | cons c cs ih =>
      have hc : c ≠ '\n' := fun e => h (by simp [e])
      have hcs : '\n' ∉ cs := fun e => h (by simp [e])
      rw [splitLines]
      simp only [hc, if_false, ih hcs]
      by_cases he : cs = [] <;> simp [he]

/-- **the k-th document is the k-th physical line**: a text made of lines `ls` (none containing `'\n'`), each terminated by
`'\n'`, and an optional unterminated last line `t`, is cut into exactly those lines -/
theorem splitLines_lines (ls : List (List Char)) (t : List Char) (h : ∀ l ∈ ls, '\n' ∉ l) (ht : '\n' ∉ t) :
    splitLines (ls.flatMap (· ++ ['\n']) ++ t) = ls.map (· ++ ['\n']) ++ (if t = [] then [] else [t]) := by
  induction ls with
  | nil => simpa using splitLines_last t ht
  | cons l ls ih =>
      have hl : '\n' ∉ l := h l (by simp)
      have := splitLines_append l (ls.flatMap (· ++ ['\n']) ++ t) hl
      simp only [List.flatMap_cons, List.append_assoc, List.map_cons, List.cons_append, List.nil_append] at this ⊢
      rw [this, ih (fun x hx => h x (by simp [hx]))]

end Cel.Cli
