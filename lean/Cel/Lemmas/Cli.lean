/-
  Lemmas for C20: the activation is overwritten, never accumulated; the NDJSON loop equals the
  per-document specification folded with `max`.
-/
import Cel.Model.Cli
namespace Cel.Cli
open Cel

theorem setVar_setVar {δ : Type} (a : Activation δ) (k : String) (x y : δ) :
    setVar (setVar a k x) k y = setVar a k y := by
  induction a with
  | nil => simp [setVar]
  | cons hd tl ih =>
      obtain ⟨k', v'⟩ := hd
      by_cases h : k' = k
      · simp [setVar, h]
      · simp [setVar, h, ih]

/-- the program never lets a non-CEL exception escape (the property's stated fragment; C04) -/
def Total {δ : Type} (prg : Prog δ) : Prop := ∀ a e, prg a ≠ .escape e

/-- the input text is JSON or is rejected by the JSON parser (no integer outside int64 …) -/
def Line.clean {δ : Type} : Line δ → Bool
  | .escape _ => false
  | _ => true

/-- **The per-document specification**: what one input line prints and which status it has, computed from
the `--arg` activation and that line alone. -/
def docSpec {δ : Type} (prg : Prog δ) (b : Bool) (act₀ : Activation δ) (var : String) : Line δ → List String × Nat
  | .malformed => ([], 3)
  | .escape _ => ([], 0)
  | .json d =>
      match prg (setVar act₀ var d) with
      | .bool v => ([boolText v], if b then (if v then 0 else 1) else 0)
      | .value t => ([t], 0)
      | .evalError => (["null"], 0)
      | .escape _ => ([], 0)

/-- `act` differs from the initial activation only in what `var` is bound to -/
def SameBase {δ : Type} (act act₀ : Activation δ) (var : String) : Prop :=
  ∀ d, setVar act var d = setVar act₀ var d

theorem sameBase_refl {δ : Type} (act₀ : Activation δ) (var : String) : SameBase act₀ act₀ var := fun _ => rfl

theorem processJsonDoc_spec {δ : Type} (prg : Prog δ) (b : Bool) (act act₀ : Activation δ) (var : String)
    (hb : SameBase act act₀ var) (ht : Total prg) (l : Line δ) (hc : l.clean = true) :
    SameBase (processJsonDoc prg b act var l).1 act₀ var ∧
    (processJsonDoc prg b act var l).2 = ⟨(docSpec prg b act₀ var l).1, .ok (docSpec prg b act₀ var l).2⟩ := by
  cases l with
  | malformed => exact ⟨by simpa [processJsonDoc] using hb, by simp [processJsonDoc, docSpec, St.docMalformed]⟩
  | escape e => simp [Line.clean] at hc
  | json d =>
      have hd := hb d
      simp only [processJsonDoc, docSpec, hd]
      cases hp : prg (setVar act₀ var d) with
      | bool v =>
          refine ⟨?_, ?_⟩
          · intro d'; simp only []; rw [← hd, setVar_setVar]; exact hb d'
          · simp [St.docTrue, St.docFalse, St.docPlain]
      | value t =>
          refine ⟨?_, ?_⟩
          · intro d'; simp only []; rw [← hd, setVar_setVar]; exact hb d'
          · simp [St.docPlain]
      | evalError =>
          refine ⟨?_, ?_⟩
          · intro d'; simp only []; rw [← hd, setVar_setVar]; exact hb d'
          · simp [St.docEvalError]
      | escape e => exact absurd hp (ht _ e)

theorem ndjsonLoop_spec {δ : Type} (prg : Prog δ) (b : Bool) (var : String) (act₀ : Activation δ) (ht : Total prg) :
    ∀ (ls : List (Line δ)) (act : Activation δ) (s : Nat), SameBase act act₀ var → (∀ l ∈ ls, l.clean = true) →
    ndjsonLoop prg b var act ls s =
      ⟨ls.flatMap (fun l => (docSpec prg b act₀ var l).1),
       .ok ((ls.map (fun l => (docSpec prg b act₀ var l).2)).foldl max s)⟩
  | [], act, s, _, _ => by simp [ndjsonLoop]
  | l :: ls, act, s, hb, hc => by
      have hl := processJsonDoc_spec prg b act act₀ var hb ht l (hc l (by simp))
      have ih := ndjsonLoop_spec prg b var act₀ ht ls (processJsonDoc prg b act var l).1
        (max s (docSpec prg b act₀ var l).2) hl.1 (fun l' h' => hc l' (by simp [h']))
      simp only [ndjsonLoop]
      rw [hl.2]
      simp only [ih, List.flatMap_cons, List.map_cons, List.foldl_cons]

theorem foldl_max_ge (xs : List Nat) : ∀ s, s ≤ xs.foldl max s ∧ ∀ x ∈ xs, x ≤ xs.foldl max s := by
  induction xs with
  | nil => intro s; simp
  | cons hd tl ih =>
      intro s
      have h := ih (max s hd)
      simp only [List.foldl_cons, List.mem_cons]
      refine ⟨by omega, ?_⟩
      intro x hx
      rcases hx with hx | hx
      · subst hx; omega
      · exact h.2 x hx

theorem foldl_max_mem (xs : List Nat) : ∀ s, xs.foldl max s = s ∨ xs.foldl max s ∈ xs := by
  induction xs with
  | nil => intro s; simp
  | cons hd tl ih =>
      intro s
      simp only [List.foldl_cons, List.mem_cons]
      rcases ih (max s hd) with h | h
      · rw [h]
        rcases Nat.le_total s hd with hle | hle
        · right; left; omega
        · left; omega
      · right; right; exact h

theorem docSpec_status_cases {δ : Type} (prg : Prog δ) (b : Bool) (act₀ : Activation δ) (var : String) (l : Line δ) :
    (docSpec prg b act₀ var l).2 = 0 ∨ (docSpec prg b act₀ var l).2 = 1 ∨
    ((docSpec prg b act₀ var l).2 = 3 ∧ l.clean = true ∧ ∀ d, l ≠ .json d) := by
  cases l with
  | malformed => right; right; simp [docSpec, Line.clean]
  | escape e => left; simp [docSpec]
  | json d =>
      simp only [docSpec]
      cases prg (setVar act₀ var d) with
      | bool v => cases b <;> cases v <;> simp
      | value t => simp
      | evalError => simp
      | escape e => simp

end Cel.Cli
