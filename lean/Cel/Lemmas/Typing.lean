/- Helper lemmas for C13: the class of the result of every operator / function of the typed fragment. Core Lean only. -/
import Cel.Model.Typing
namespace Cel


theorem map_ok_cls {α} (f : α → Val) (r : PyM α) (v : Val) (c : Cls) (hf : ∀ a, clsOf (f a) = c)
    (h : r.map f = .ok v) : clsOf v = c := by
  cases r with
  | error e => simp [Except.map] at h
  | ok a => simp [Except.map] at h; rw [← h]; exact hf a

theorem map_some_ok {α} (f : α → Val) (r : PyM α) (v : Val) (h : r.map (fun a => some (f a)) = .ok (some v)) :
    ∃ a, v = f a := by
  cases r with
  | error e => simp [Except.map] at h
  | ok a => simp [Except.map] at h; exact ⟨a, h.symm⟩

/-- a constructor call succeeds only on the native class it wraps -/
theorem wrapAs_ok (c : Cls) (n v : Val) (h : wrapAs c n = .ok v) :
    clsOf v = c ∧ ((clsOf n).wrapperOfNative = some c ∨ clsOf n = .pyint) := by
  unfold wrapAs at h
  split at h <;> first
    | (simp at h; rw [← h]; exact ⟨rfl, Or.inl rfl⟩)
    | (split at h <;> simp at h; rw [← h]; exact ⟨rfl, Or.inl rfl⟩)
    | exact ⟨map_ok_cls _ _ _ _ (fun _ => rfl) h, Or.inr rfl⟩
    | simp at h

theorem applyRes_returns (cs : List Cls) (n v : Val) (h : applyRes (.returns cs) n = .ok v) :
    (clsOf n).wrapperOfNative = some (clsOf v) ∨ clsOf n = .pyint := by
  unfold applyRes at h
  simp only at h
  split at h
  · have := wrapAs_ok _ _ _ h; rw [this.1]; exact this.2
  · split at h
    · have := wrapAs_ok _ _ _ h; rw [this.1]; exact this.2
    · simp at h

theorem nativeTd_some (us : Int) (nat : Val) (h : (nativeTd us).map some = .ok (some nat)) : clsOf nat = .pytimedelta := by
  unfold nativeTd at h
  split at h <;> simp [Except.map] at h
  subst h; rfl
theorem nativeDt_some (us off d : Int) (nat : Val) (h : (nativeDt us off d).map some = .ok (some nat)) :
    clsOf nat = .pydatetime := by
  unfold nativeDt at h
  simp only at h
  split at h <;> simp [Except.map] at h
  subst h; rfl

theorem nativeBin_cls (P : Prims) (op : ArOp) (refl : Bool) (self other nat : Val)
    (h : nativeBin P op refl self other = .ok (some nat)) : clsOf nat = natClsOf (clsOf self) (clsOf other) := by
  unfold nativeBin at h
  split at h
  · obtain ⟨a, rfl⟩ := map_some_ok (fun d => Val.nfloat d) _ _ h; rfl
  · split at h <;> simp at h; subst h; rfl
  · split at h <;> simp at h; subst h; rfl
  · split at h <;> simp at h; subst h; rfl
  · split at h
    · exact nativeDt_some _ _ _ _ h
    · split at h
      · exact nativeDt_some _ _ _ _ h
      · simp at h
  · split at h
    · exact nativeTd_some _ _ h
    · simp at h
  · split at h
    · exact nativeTd_some _ _ h
    · split at h
      · exact nativeTd_some _ _ h
      · simp at h
  · simp at h

theorem intDunder_cls (cs : List Cls) (uns : Bool) (op : ArOp) (refl : Bool) (a b : Int) (v : Val)
    (h : intDunder (.returns cs) uns op refl a b = .ok (some v)) : clsOf v = (if uns then .uint else .int) := by
  unfold intDunder at h
  simp only at h
  obtain ⟨z, rfl⟩ := map_some_ok (fun z => if uns then Val.uint z else Val.int z) _ _ h
  cases uns <;> rfl

theorem pyBin_of_dunders (P : Prims) (R : ResTable) (op : ArOp) (a b v : Val) (τ : Cls)
    (h1 : ∀ w, arDunder P R op false a b = .ok (some w) → clsOf w = τ)
    (h2 : arDunder P R op false a b = .ok none → ∀ w, arDunder P R op true b a = .ok (some w) → clsOf w = τ)
    (hv : pyBin P R op a b = .ok v) : clsOf v = τ := by
  unfold pyBin at hv
  simp only [bind, Except.bind] at hv
  split at hv
  · simp at hv
  · cases h : arDunder P R op false a b with
    | error e => simp [h] at hv
    | ok r =>
      cases r with
      | some w => simp [h] at hv; subst hv; exact h1 w h
      | none =>
        simp [h] at hv
        cases h' : arDunder P R op true b a with
        | error e => simp [h'] at hv
        | ok r' =>
          cases r' with
          | some w => simp [h'] at hv; subst hv; exact h2 h w h'
          | none => simp [h'] at hv

theorem generic_dunder_cls (P : Prims) (op : ArOp) (refl : Bool) (self other w : Val) (cs : List Cls)
    (hw : (do match (← nativeBin P op refl self other) with
            | none => (.ok none : PyM (Option Val))
            | some nat => (applyRes (.returns cs) nat).map some) = .ok (some w)) :
    (natClsOf (clsOf self) (clsOf other)).wrapperOfNative = some (clsOf w) ∨
      natClsOf (clsOf self) (clsOf other) = .pyint := by
  simp only [bind, Except.bind] at hw
  cases hn : nativeBin P op refl self other with
  | error e => simp [hn] at hw
  | ok r =>
    cases r with
    | none => simp [hn] at hw
    | some nat =>
      simp only [hn] at hw
      have hc := nativeBin_cls P op refl self other nat hn
      cases ha : applyRes (.returns cs) nat with
      | error e => simp [ha, Except.map] at hw
      | ok v =>
        simp [ha, Except.map] at hw
        subst hw
        rw [← hc]
        exact applyRes_returns cs nat v ha

theorem chain_ne_none (r : PyM Val) (f : Val → PyM Val) :
    (match Except.map some r with
      | Except.error err => Except.error err
      | Except.ok v =>
        match v with
        | none => Except.ok none
        | some nat => Except.map some (f nat)) ≠ (Except.ok none : PyM (Option Val)) := by
  cases r with
  | error e => simp [Except.map]
  | ok a => cases h : f a <;> simp [Except.map, h]

theorem pyBin_cls (P : Prims) (op : ArOp) (x y v : Val) (τ : Cls)
    (ht : binTy op (clsOf x) (clsOf y) = some τ) (hv : pyBin P resTable op x y = .ok v) : clsOf v = τ := by
  unfold binTy at ht
  split at ht <;> simp at ht <;> subst ht
  all_goals (
    rename_i hx hy
    cases x <;> simp [clsOf] at hx
    cases y <;> simp [clsOf] at hy
    refine pyBin_of_dunders P resTable _ _ _ v _ ?_ ?_ hv
    · intro w hw
      simp only [arDunder, resTable, clsOf] at hw
      first
        | exact intDunder_cls _ _ _ _ _ _ _ hw
        | (have := generic_dunder_cls P _ _ _ _ w _ hw; simpa [natClsOf, clsOf, Cls.wrapperOfNative, eq_comm] using this)
        | (simp [nativeBin, bind, Except.bind] at hw; done)
    · intro hnone w hw
      simp only [arDunder, resTable, clsOf] at hw
      first
        | exact intDunder_cls _ _ _ _ _ _ _ hw
        | (have := generic_dunder_cls P _ _ _ _ w _ hw; simpa [natClsOf, clsOf, Cls.wrapperOfNative, eq_comm] using this)
        | (simp [nativeBin, bind, Except.bind] at hw; done)
        | (simp only [arDunder, resTable, clsOf, nativeBin, bind, Except.bind, if_true] at hnone
           generalize nativeTd _ = r at hnone
           cases r with
           | error e => simp [Except.map] at hnone
           | ok a => cases h : applyRes (ResImpl.returns [Cls.dur, Cls.ts]) a <;> simp [Except.map, h] at hnone))


theorem pyNeg_cls (P : Prims) (x v : Val) (τ : Cls) (ht : negTy (clsOf x) = some τ)
    (hv : pyNeg P resTable x = .ok v) : clsOf v = τ := by
  unfold negTy at ht
  split at ht <;> simp at ht <;> subst ht
  all_goals (
    rename_i hx
    cases x <;> simp [clsOf] at hx
    simp only [pyNeg, resTable, bind, Except.bind] at hv)
  · split at hv
    · simp at hv
    · rename_i r hr
      cases r with
      | none => simp at hv
      | some w => simp at hv; subst hv; exact intDunder_cls _ _ _ _ _ _ _ hr
  · have := applyRes_returns _ _ _ hv
    simpa [clsOf, Cls.wrapperOfNative, eq_comm] using this
  · have := applyRes_returns _ _ _ hv
    simpa [clsOf, Cls.wrapperOfNative, eq_comm] using this

theorem mkBool_cls (b : Bool) : clsOf (mkBool true b) = .bool := rfl

theorem inLoop_cls (S : CmpSpecs) (item : Val) : (xs : List Val) → (saw : Bool) → (v : Val) →
    inLoop S true item xs saw = .ok v → clsOf v = .bool
  | [], saw, v, h => by
      cases saw <;> simp [inLoop] at h
      subst h; rfl
  | c :: rest, saw, v, h => by
      simp only [inLoop] at h
      split at h
      · simp at h; subst h; rfl
      · exact inLoop_cls S item rest saw v h
      · exact inLoop_cls S item rest true v h
      · simp at h

theorem opIn_cls (S : CmpSpecs) (item cont v : Val) (h : opIn S true item cont = .ok v) : clsOf v = .bool := by
  unfold opIn at h
  split at h
  · exact inLoop_cls S item _ _ v h
  · exact inLoop_cls S item _ _ v h
  · simp at h

theorem logAnd_cls (x y : PyM Val) (v : Val) (h : logAnd x y = .ok v) : clsOf v = .bool := by
  unfold logAnd at h
  split at h <;> simp at h <;> subst h <;> rfl
theorem logOr_cls (x y : PyM Val) (v : Val) (h : logOr x y = .ok v) : clsOf v = .bool := by
  unfold logOr at h
  split at h <;> simp at h <;> subst h <;> rfl

theorem convTo_cls (P : Prims) (t : Cls) (x v : Val) (ht : isConvTarget t = true) (h : convTo P t x = .ok v) : clsOf v = t := by
  unfold convTo at h
  split at h <;> first
    | exact map_ok_cls _ _ _ _ (fun _ => rfl) h
    | simp [isConvTarget] at ht

theorem typeFn_cls (v : Val) : clsOf (typeFn v) = .type := by
  unfold typeFn; split <;> rfl

theorem bind_ok {α β} (x : PyM α) (f : α → PyM β) (v : β) (h : (x >>= f) = .ok v) : ∃ a, x = .ok a ∧ f a = .ok v := by
  cases x with
  | error e => simp [bind, Except.bind] at h
  | ok a => exact ⟨a, rfl, by simpa [bind, Except.bind] using h⟩


end Cel
