/-
  Cel.Lemmas.C7n — lemmas about the c7nlib model (Cel.Model.C7n) used by Cel.Props.C17.
-/
import Cel.Model.C7n
import Mathlib.Data.List.Nodup
import Mathlib.Data.Finset.Card
import Mathlib.Data.List.Dedup
namespace Cel.C7n

/-! ## sets -/
section

variable {α : Type} [DecidableEq α]

theorem mem_pyInsert {s : List α} {x y : α} : y ∈ pyInsert s x ↔ y ∈ s ∨ y = x := by
  unfold pyInsert; split
  · constructor
    · intro h; exact Or.inl h
    · rintro (h | h); exact h; subst h; assumption
  · simp

theorem mem_foldl_pyInsert (xs acc : List α) (x : α) : x ∈ xs.foldl pyInsert acc ↔ x ∈ acc ∨ x ∈ xs := by
  induction xs generalizing acc with
  | nil => simp
  | cons a t ih => simp [List.foldl, ih, mem_pyInsert]; tauto

theorem mem_pySet {xs : List α} {x : α} : x ∈ pySet xs ↔ x ∈ xs := by
  simp [pySet, mem_foldl_pyInsert]

theorem nodup_pyInsert {s : List α} {x : α} (h : s.Nodup) : (pyInsert s x).Nodup := by
  unfold pyInsert; split
  · exact h
  · rw [List.nodup_append]; simp_all
    intro a ha hax; subst hax; contradiction

theorem nodup_foldl_pyInsert (xs acc : List α) (h : acc.Nodup) : (xs.foldl pyInsert acc).Nodup := by
  induction xs generalizing acc with
  | nil => simpa
  | cons a t ih => exact ih _ (nodup_pyInsert h)

theorem nodup_pySet (xs : List α) : (pySet xs).Nodup := nodup_foldl_pyInsert xs [] List.nodup_nil

theorem intersect_iff (a b : List α) : intersect a b = true ↔ ∃ x, x ∈ a ∧ x ∈ b := by
  simp [intersect, pyBool, pyAnd, List.isEmpty_iff, List.filter_eq_nil_iff, mem_pySet]

theorem difference_iff (a b : List α) : difference a b = true ↔ ∃ x, x ∈ a ∧ x ∉ b := by
  simp [difference, pyBool, pySub, List.isEmpty_iff, List.filter_eq_nil_iff, mem_pySet]

theorem unique_size_card (a : List α) : uniqueSize a = a.toFinset.card := by
  have h : (pySet a).toFinset = a.toFinset := by ext x; simp [mem_pySet]
  rw [← h, List.toFinset_card_of_nodup (nodup_pySet a)]; rfl

theorem unique_size_dedup (a : List α) : uniqueSize a = a.dedup.length := by
  rw [unique_size_card, List.card_toFinset]

theorem unique_size_spec (a d : List α) (hd : d.Nodup) (hm : ∀ x, x ∈ d ↔ x ∈ a) : uniqueSize a = d.length := by
  rw [unique_size_card, ← List.toFinset_card_of_nodup hd]
  congr 1; ext x; simp [hm]

end

/-! ## CIDR -/


theorem Net.size_pos (n : Net) : 0 < n.size := Nat.two_pow_pos _

theorem Net.addr_le_bcast (n : Net) : n.addr ≤ n.bcast := by simp [Net.bcast]

theorem addrIn_iff (n : Net) (h : n.WF) (ip : Nat) :
    addrIn ip n = true ↔ n.addr ≤ ip ∧ ip ≤ n.bcast := by
  obtain ⟨_, _, hal⟩ := h
  have hS := n.size_pos
  simp only [addrIn, beq_iff_eq, Net.bcast, Net.hostmask]
  generalize n.size = S at *
  obtain ⟨k, hk⟩ : ∃ k, n.addr = k * S := ⟨n.addr / S, by
    have := Nat.div_add_mod n.addr S; rw [hal] at this; rw [Nat.mul_comm]; omega⟩
  constructor
  · intro h
    have h1 := Nat.div_mul_le_self ip S
    have h2 := Nat.lt_div_mul_add (a := ip) hS
    omega
  · rintro ⟨h1, h2⟩
    have : ip / S = k := by
      apply Nat.div_eq_of_lt_le
      · rw [← hk]; exact h1
      · rw [Nat.add_mul, ← hk]; omega
    rw [this, hk]

theorem supernetOf_iff (n x : Net) : supernetOf n x = true ↔ n.addr ≤ x.addr ∧ x.bcast ≤ n.bcast := by
  simp [supernetOf]

theorem cidr_contains_iff (n x : Net) :
    supernetOf n x = true ↔ ∀ ip, (x.addr ≤ ip ∧ ip ≤ x.bcast) → (n.addr ≤ ip ∧ ip ≤ n.bcast) := by
  rw [supernetOf_iff]
  constructor
  · rintro ⟨h1, h2⟩ ip ⟨h3, h4⟩; omega
  · intro h
    have a := h x.addr ⟨Nat.le_refl _, x.addr_le_bcast⟩
    have b := h x.bcast ⟨x.addr_le_bcast, Nat.le_refl _⟩
    omega


theorem size_dvd (n x : Net) (hx : x.len ≤ 32) (hl : n.len ≤ x.len) :
    n.size = 2 ^ (x.len - n.len) * x.size := by
  simp only [Net.size, ← Nat.pow_add]; congr 1; omega

theorem aligned_mul {a S : Nat} (h : a % S = 0) : ∃ k, a = k * S :=
  ⟨a / S, by have := Nat.div_add_mod a S; rw [h] at this; rw [Nat.mul_comm]; omega⟩

theorem nested_or_disjoint (n x : Net) (hn : n.WF) (hx : x.WF) (hl : n.len ≤ x.len) :
    supernetOf n x = true ∨ x.bcast < n.addr ∨ n.bcast < x.addr := by
  obtain ⟨a, ha⟩ := aligned_mul hn.2.2
  obtain ⟨b, hb⟩ := aligned_mul hx.2.2
  have hd := size_dvd n x hx.1 hl
  have hSx := x.size_pos
  have hiff : supernetOf n x = true ↔ n.addr ≤ x.addr ∧ x.bcast ≤ n.bcast := by simp [supernetOf]
  rw [hiff]
  simp only [Net.bcast, Net.hostmask]
  have hm0 : 0 < 2 ^ (x.len - n.len) := Nat.two_pow_pos _
  generalize 2 ^ (x.len - n.len) = m at hd hm0
  generalize x.size = Sx at *
  generalize n.size = Sn at *
  subst hd
  rw [ha, hb]
  by_cases h1 : b < a * m
  · right; left
    have : (b + 1) * Sx ≤ a * m * Sx := Nat.mul_le_mul_right _ h1
    rw [Nat.add_mul] at this
    rw [Nat.mul_assoc] at this
    omega
  · by_cases h2 : a * m + m ≤ b
    · right; right
      have : (a * m + m) * Sx ≤ b * Sx := Nat.mul_le_mul_right _ h2
      rw [Nat.add_mul, Nat.mul_assoc] at this
      have hm : 0 < m * Sx := Nat.mul_pos hm0 hSx
      omega
    · left
      have h3 : a * m * Sx ≤ b * Sx := Nat.mul_le_mul_right _ (by omega)
      have h4 : (b + 1) * Sx ≤ (a * m + m) * Sx := Nat.mul_le_mul_right _ (by omega)
      rw [Nat.add_mul, Nat.add_mul, Nat.mul_assoc] at h4
      rw [Nat.mul_assoc] at h3
      constructor <;> omega

/-! ## glob -/


/-- the language of a parsed shell pattern -/
inductive GlobLang : List GItem → Str → Prop
  | nil : GlobLang [] []
  | star {is : List GItem} (pre : Str) {t : Str} : GlobLang is t → GlobLang (.star :: is) (pre ++ t)
  | any {is : List GItem} (c : Nat) {t : Str} : GlobLang is t → GlobLang (.any :: is) (c :: t)
  | lit {is : List GItem} (c : Nat) {t : Str} : GlobLang is t → GlobLang (.lit c :: is) (c :: t)
  | set {is : List GItem} {neg : Bool} {its : List SetItem} (c : Nat) {t : Str} :
      setHas neg its c = true → GlobLang is t → GlobLang (.set neg its :: is) (c :: t)

theorem mem_tails {s t : Str} : t ∈ tails s ↔ ∃ pre, pre ++ t = s := by
  induction s with
  | nil => simp [tails]
  | cons c s ih =>
    simp only [tails, List.mem_cons, ih]
    constructor
    · rintro (h | ⟨pre, h⟩)
      · exact ⟨[], by simp [h]⟩
      · exact ⟨c :: pre, by simp [h]⟩
    · rintro ⟨pre, h⟩
      cases pre with
      | nil => left; simpa using h
      | cons d pre =>
        right; simp at h; exact ⟨pre, h.2⟩

theorem matchItems_iff (is : List GItem) (s : Str) : matchItems is s = true ↔ GlobLang is s := by
  induction is generalizing s with
  | nil =>
    simp only [matchItems, List.isEmpty_iff]
    constructor
    · intro h; subst h; exact .nil
    · intro h; cases h; rfl
  | cons i is ih =>
    cases i with
    | star =>
      simp only [matchItems, List.any_eq_true, mem_tails]
      constructor
      · rintro ⟨t, ⟨pre, hp⟩, ht⟩
        subst hp; exact .star pre ((ih t).1 ht)
      · intro h
        cases h with
        | star pre ht => exact ⟨_, ⟨pre, rfl⟩, (ih _).2 ht⟩
    | any =>
      cases s with
      | nil => simp only [matchItems]; constructor <;> intro h <;> cases h
      | cons c t =>
        simp only [matchItems]
        constructor
        · intro h; exact .any c ((ih t).1 h)
        · intro h; cases h with | any _ ht => exact (ih t).2 ht
    | lit a =>
      cases s with
      | nil => simp only [matchItems]; constructor <;> intro h <;> cases h
      | cons c t =>
        simp only [matchItems, Bool.and_eq_true, beq_iff_eq]
        constructor
        · rintro ⟨h1, h2⟩; subst h1; exact .lit c ((ih t).1 h2)
        · intro h; cases h with | lit _ ht => exact ⟨rfl, (ih t).2 ht⟩
    | set n its =>
      cases s with
      | nil => simp only [matchItems]; constructor <;> intro h <;> cases h
      | cons c t =>
        simp only [matchItems, Bool.and_eq_true]
        constructor
        · rintro ⟨h1, h2⟩; exact .set c h1 ((ih t).1 h2)
        · intro h; cases h with | set _ h1 ht => exact ⟨h1, (ih t).2 ht⟩

/-! ## versions -/


theorem lexLt_irrefl (a : List Nat) : lexLt a a = false := by
  induction a with
  | nil => rfl
  | cons x xs ih => simp [lexLt, ih]

theorem lexLt_trans {a b c : List Nat} (h1 : lexLt a b = true) (h2 : lexLt b c = true) : lexLt a c = true := by
  induction a generalizing b c with
  | nil =>
    cases b with
    | nil => simp [lexLt] at h1
    | cons y ys => cases c with
      | nil => simp [lexLt] at h2
      | cons z zs => rfl
  | cons x xs ih =>
    cases b with
    | nil => simp [lexLt] at h1
    | cons y ys => cases c with
      | nil => simp [lexLt] at h2
      | cons z zs =>
        simp only [lexLt, Bool.or_eq_true, decide_eq_true_eq, Bool.and_eq_true, beq_iff_eq] at *
        rcases h1 with h1 | ⟨h1, h1'⟩ <;> rcases h2 with h2 | ⟨h2, h2'⟩
        · left; omega
        · left; omega
        · left; omega
        · right; exact ⟨by omega, ih h1' h2'⟩

theorem lexLt_trichotomy (a b : List Nat) : lexLt a b = true ∨ a = b ∨ lexLt b a = true := by
  induction a generalizing b with
  | nil => cases b <;> simp [lexLt]
  | cons x xs ih =>
    cases b with
    | nil => simp [lexLt]
    | cons y ys =>
      simp only [lexLt, Bool.or_eq_true, decide_eq_true_eq, Bool.and_eq_true, beq_iff_eq, List.cons.injEq]
      rcases Nat.lt_trichotomy x y with h | h | h
      · left; left; exact h
      · rcases ih ys with h' | h' | h'
        · left; right; exact ⟨h, h'⟩
        · right; left; exact ⟨h, h'⟩
        · right; right; right; exact ⟨h.symm, h'⟩
      · right; right; left; exact h

theorem lexLt_asymm {a b : List Nat} (h : lexLt a b = true) : lexLt b a = false := by
  cases hba : lexLt b a with
  | false => rfl
  | true => have := lexLt_trans h hba; rw [lexLt_irrefl] at this; cases this

/-- recursive description of the key -/
def consKey (x : Nat) (s : List Nat) : List Nat := if x = 0 ∧ s = [] then [] else x :: s

theorem dropWhile_snoc (p : Nat → Bool) (l : List Nat) (x : Nat) :
    (l ++ [x]).dropWhile p = if l.dropWhile p = [] then (if p x then [] else [x]) else l.dropWhile p ++ [x] := by
  induction l with
  | nil => simp [List.dropWhile]; split <;> simp_all
  | cons a t ih =>
    by_cases h : p a = true
    · simp only [List.cons_append, List.dropWhile_cons, h, if_true]; exact ih
    · simp [List.dropWhile_cons, h]

theorem stripZeros_cons (x : Nat) (xs : List Nat) : stripZeros (x :: xs) = consKey x (stripZeros xs) := by
  simp only [stripZeros, List.reverse_cons, dropWhile_snoc, consKey]
  by_cases h : List.dropWhile (fun x => x == 0) xs.reverse = []
  · simp [h]; split <;> simp_all
  · simp [h]

theorem stripZeros_nil : stripZeros [] = [] := rfl
def padTo (n : Nat) (l : List Nat) : List Nat := l ++ List.replicate (n - l.length) 0

theorem lexLt_nil_right (a : List Nat) : lexLt a [] = false := by cases a <;> rfl

theorem lexLt_consKey (x y : Nat) (s t : List Nat) :
    lexLt (consKey x s) (consKey y t) = (decide (x < y) || (x == y && lexLt s t)) := by
  unfold consKey
  by_cases h1 : x = 0 ∧ s = [] <;> by_cases h2 : y = 0 ∧ t = []
  · obtain ⟨rfl, rfl⟩ := h1; obtain ⟨rfl, rfl⟩ := h2; simp [lexLt]
  · obtain ⟨rfl, rfl⟩ := h1
    simp only [h2, if_false, and_self, if_true, lexLt]
    by_cases hy : y = 0
    · subst hy
      cases t with
      | nil => simp at h2
      | cons a t => simp [lexLt]
    · have : 0 < y := by omega
      simp [this]
  · obtain ⟨rfl, rfl⟩ := h2
    simp [h1, lexLt, lexLt_nil_right]
  · simp [h1, h2, lexLt]

theorem padTo_nil (n : Nat) : padTo n [] = List.replicate n 0 := by simp [padTo]
theorem padTo_cons (n x : Nat) (xs : List Nat) : padTo (n + 1) (x :: xs) = x :: padTo n xs := by
  simp [padTo]

theorem lexLt_nil_strip (b : List Nat) (n : Nat) (hb : b.length ≤ n) :
    lexLt [] (stripZeros b) = lexLt (List.replicate n 0) (padTo n b) := by
  induction b generalizing n with
  | nil => rw [padTo_nil, lexLt_irrefl]; rfl
  | cons y ys ih =>
    cases n with
    | zero => simp at hb
    | succ n =>
      have hc : ([] : List Nat) = consKey 0 [] := by simp [consKey]
      rw [stripZeros_cons, padTo_cons, List.replicate_succ]
      conv => lhs; rw [hc]
      rw [lexLt_consKey]
      simp only [lexLt]
      rw [ih n (by simpa using hb)]

theorem lexLt_strip_nil (a : List Nat) (n : Nat) (ha : a.length ≤ n) :
    lexLt (padTo n a) (List.replicate n 0) = false := by
  induction a generalizing n with
  | nil => rw [padTo_nil, lexLt_irrefl]
  | cons x xs ih =>
    cases n with
    | zero => simp at ha
    | succ n =>
      rw [padTo_cons, List.replicate_succ]
      simp [lexLt, ih n (by simpa using ha)]

theorem lexLt_strip_pad (a b : List Nat) (n : Nat) (ha : a.length ≤ n) (hb : b.length ≤ n) :
    lexLt (stripZeros a) (stripZeros b) = lexLt (padTo n a) (padTo n b) := by
  induction a generalizing b n with
  | nil => rw [padTo_nil]; exact lexLt_nil_strip b n hb
  | cons x xs ih =>
    cases b with
    | nil => rw [padTo_nil, lexLt_strip_nil _ n ha]; exact lexLt_nil_right _
    | cons y ys =>
      cases n with
      | zero => simp at ha
      | succ n =>
        rw [stripZeros_cons, stripZeros_cons, padTo_cons, padTo_cons, lexLt_consKey]
        simp only [lexLt]
        rw [ih ys n (by simpa using ha) (by simpa using hb)]


/-! ## tags -/


/-! key -/
def Tag.wf {V} (t : Tag V) : Prop := t.key.isSome ∧ t.value.isSome

theorem key_first_match {V} (pre : List (Tag V)) (t : Tag V) (post : List (Tag V)) (k : Str) (v : V)
    (hpre : ∀ u ∈ pre, ∃ k', u.key = some k' ∧ k' ≠ k) (hk : t.key = some k) (hv : t.value = some v) :
    key (pre ++ t :: post) k = .ok (some v) := by
  induction pre with
  | nil => simp [key, hk, hv]
  | cons u us ih =>
    obtain ⟨k', h1, h2⟩ := hpre u (by simp)
    simp only [List.cons_append, key, h1, h2, if_false]
    exact ih (fun w hw => hpre w (by simp [hw]))

theorem key_absent {V} (tags : List (Tag V)) (k : Str)
    (h : ∀ u ∈ tags, ∃ k', u.key = some k' ∧ k' ≠ k) : key tags k = .ok none := by
  induction tags with
  | nil => rfl
  | cons u us ih =>
    obtain ⟨k', h1, h2⟩ := h u (by simp)
    simp only [key, h1, h2, if_false]
    exact ih (fun w hw => h w (by simp [hw]))

/-- on well-formed tag lists `key` is `find?` -/
theorem key_eq_find {V} (tags : List (Tag V)) (k : Str) (h : ∀ u ∈ tags, u.key.isSome ∧ u.value.isSome) :
    key tags k = .ok ((tags.find? (fun u => u.key == some k)).bind (·.value)) := by
  induction tags with
  | nil => rfl
  | cons u us ih =>
    obtain ⟨h1, h2⟩ := h u (by simp)
    obtain ⟨k', hk'⟩ := Option.isSome_iff_exists.1 h1
    obtain ⟨v, hv⟩ := Option.isSome_iff_exists.1 h2
    simp only [key, hk', List.find?_cons]
    by_cases e : k' = k
    · subst e; simp [hv]
    · have e' : (k' == k) = false := by simpa using e
      simp only [e, if_false, Option.some_beq_some, e']
      exact ih (fun w hw => h w (by simp [hw]))

/-! splitting -/
theorem splitFirst_append (sep : Nat) (u v : Str) (h : sep ∉ u) :
    splitFirst sep (u ++ sep :: v) = some (u, v) := by
  induction u with
  | nil => simp [splitFirst]
  | cons c u ih =>
    have hc : c ≠ sep := fun e => h (by simp [e])
    have hu : sep ∉ u := fun e => h (by simp [e])
    simp [splitFirst, hc, ih hu]

theorem splitFirst_none (sep : Nat) (u : Str) (h : sep ∉ u) : splitFirst sep u = none := by
  induction u with
  | nil => rfl
  | cons c u ih =>
    have hc : c ≠ sep := fun e => h (by simp [e])
    have hu : sep ∉ u := fun e => h (by simp [e])
    simp [splitFirst, hc, ih hu]

theorem splitLast_append (sep : Nat) (u v : Str) (h : sep ∉ v) :
    splitLast sep (u ++ sep :: v) = some (u, v) := by
  have : (u ++ sep :: v).reverse = v.reverse ++ sep :: u.reverse := by simp
  simp [splitLast, this, splitFirst_append sep v.reverse u.reverse (by simpa using h)]

theorem lstrip_append (a d : Str) (c : Nat) (hc : isSpace c = false) :
    lstrip (a ++ c :: d) = lstrip a ++ c :: d := by
  induction a with
  | nil => simp [lstrip, List.dropWhile, hc]
  | cons x a ih =>
    simp only [lstrip, List.cons_append, List.dropWhile_cons] at *
    split
    · exact ih
    · rfl

theorem rstrip_append (a d : Str) (c : Nat) (hc : isSpace c = false) :
    rstrip (a ++ c :: d) = a ++ c :: rstrip d := by
  have := lstrip_append d.reverse a.reverse c hc
  simp only [lstrip] at this
  simp [rstrip, this]

theorem pyStrip_append (a d : Str) (c : Nat) (hc : isSpace c = false) :
    pyStrip (a ++ c :: d) = lstrip a ++ c :: rstrip d := by
  simp [pyStrip, lstrip_append a d c hc, rstrip_append (lstrip a) d c hc]

theorem lstrip_sub (a : Str) (x : Nat) (h : x ∉ a) : x ∉ lstrip a := by
  intro hx; exact h ((List.dropWhile_sublist _).subset hx)

theorem marked_split (m a d : Str) (h1 : 58 ∉ a) (h2 : 58 ∉ d) (h3 : 64 ∉ a) :
    markedSplit (m ++ 58 :: (a ++ 64 :: d)) = some (m, lstrip a, rstrip d) := by
  have h : 58 ∉ a ++ 64 :: d := by simp [h1, h2]
  simp [markedSplit, splitLast_append 58 m _ h, pyStrip_append a d 64 (by decide),
    splitFirst_append 64 (lstrip a) (rstrip d) (lstrip_sub a 64 h3)]

/-! ## ARNs -/


theorem splitAll_ne_nil (sep : Nat) (s : Str) : splitAll sep s ≠ [] := by
  induction s with
  | nil => simp [splitAll]
  | cons c r ih =>
    simp only [splitAll]; split
    · simp
    · split <;> simp

theorem splitAll_single (sep : Nat) (f : Str) (h : sep ∉ f) : splitAll sep f = [f] := by
  induction f with
  | nil => rfl
  | cons c r ih =>
    have hc : c ≠ sep := fun e => h (by simp [e])
    have hr : sep ∉ r := fun e => h (by simp [e])
    simp [splitAll, hc, ih hr]

theorem splitAll_append (sep : Nat) (f rest : Str) (h : sep ∉ f) :
    splitAll sep (f ++ sep :: rest) = f :: splitAll sep rest := by
  induction f with
  | nil => simp [splitAll]
  | cons c r ih =>
    have hc : c ≠ sep := fun e => h (by simp [e])
    have hr : sep ∉ r := fun e => h (by simp [e])
    simp [splitAll, hc, ih hr]

/-- `":".join(fields)` -/
def joinColon : List Str → Str
  | [] => []
  | [f] => f
  | f :: g :: r => f ++ 58 :: joinColon (g :: r)

theorem splitAll_join (fs : List Str) (hne : fs ≠ []) (h : ∀ f ∈ fs, 58 ∉ f) :
    splitAll 58 (joinColon fs) = fs := by
  induction fs with
  | nil => exact absurd rfl hne
  | cons f r ih =>
    cases r with
    | nil => simp [joinColon, splitAll_single 58 f (h f (by simp))]
    | cons g r =>
      simp only [joinColon]
      rw [splitAll_append 58 f _ (h f (by simp)), ih (by simp) (fun x hx => h x (by simp [hx]))]

theorem zipLookup_getElem (names fields : List Str) (hn : names.Nodup) (i : Nat) (hi : i < names.length)
    (hf : i < fields.length) : zipLookup names fields names[i] = some fields[i] := by
  induction names generalizing fields i with
  | nil => simp at hi
  | cons n ns ih =>
    cases fields with
    | nil => simp at hf
    | cons f fs =>
      cases i with
      | zero => simp [zipLookup]
      | succ i =>
        have hne : n ≠ ns[i]'(by simpa using hi) := by
          intro e; have := (List.nodup_cons.1 hn).1; exact this (e ▸ List.getElem_mem _)
        simp only [zipLookup, List.getElem_cons_succ, hne, if_false]
        exact ih fs (List.nodup_cons.1 hn).2 i _ _

theorem arn_fields (fields : List Str) (names : List Str) (hnames : names ∈ arnFieldNames)
    (hlen : fields.length = names.length) (hcolon : ∀ f ∈ fields, 58 ∉ f) (i : Nat) (hi : i < names.length) :
    arnSplit (joinColon (ofString "arn" :: fields)) names[i] = .ok (fields[i]'(hlen ▸ hi)) := by
  have hsplit : splitAll 58 (joinColon (ofString "arn" :: fields)) = ofString "arn" :: fields := by
    apply splitAll_join _ (by simp)
    intro f hf
    rcases List.mem_cons.1 hf with rfl | hf
    · decide
    · exact hcolon f hf
  have hfind : arnFieldNames.find? (fun ns => ns.length == fields.length) = some names := by
    simp only [arnFieldNames, List.mem_cons, List.not_mem_nil, or_false] at hnames
    rcases hnames with rfl | rfl
    · simp [arnFieldNames, hlen]
    · have : arnNames5.length ≠ arnNames6.length := by decide
      simp [arnFieldNames, hlen, this]
  have hnd : names.Nodup := by
    simp only [arnFieldNames, List.mem_cons, List.not_mem_nil, or_false] at hnames
    rcases hnames with rfl | rfl <;> decide
  simp only [arnSplit, hsplit, ne_eq, not_true, if_false, hfind]
  rw [zipLookup_getElem names fields hnd i hi (hlen ▸ hi)]

/-! ## context -/


mutual
/-- no nested context inside -/
def plain : Ev → Bool
  | .obs => true
  | .fail => true
  | .ctx _ _ => false
  | .try_ b => plains b
def plains : List Ev → Bool
  | [] => true
  | e :: es => plain e && plains es
end

mutual
/-- how many observations are executed, and whether an exception escapes -/
def obsE : Ev → Nat × Bool
  | .obs => (1, false)
  | .fail => (0, true)
  | .ctx _ b => obsEs b
  | .try_ b => ((obsEs b).1, false)
def obsEs : List Ev → Nat × Bool
  | [] => (0, false)
  | e :: es => if (obsE e).2 then ((obsE e).1, true) else ((obsE e).1 + (obsEs es).1, (obsEs es).2)
end

theorem runEvs_nil (s : St) : runEvs [] s = (false, s) := by simp [runEvs]
theorem runEvs_cons (e : Ev) (es : List Ev) (s : St) :
    runEvs (e :: es) s = if (runEv e s).1 = true then (true, (runEv e s).2) else runEvs es (runEv e s).2 := by
  simp [runEvs]
theorem runEv_obs (s : St) : runEv .obs s = (false, ⟨s.c7n, s.log ++ [s.c7n]⟩) := by simp [runEv]
theorem runEv_fail (s : St) : runEv .fail s = (true, s) := by simp [runEv]
theorem runEv_try (b : List Ev) (s : St) : runEv (.try_ b) s = (false, (runEvs b s).2) := by simp [runEv]
theorem runEv_ctx (f : Nat) (b : List Ev) (s : St) :
    runEv (.ctx f b) s = ((runEvs b ⟨some f, s.log⟩).1, ⟨none, (runEvs b ⟨some f, s.log⟩).2.log⟩) := by
  simp [runEv, ctxEnter, ctxExit, ctxExitSwallows]

mutual
theorem runEv_plain : (e : Ev) → plain e = true → ∀ s : St,
    runEv e s = ((obsE e).2, ⟨s.c7n, s.log ++ List.replicate (obsE e).1 s.c7n⟩)
  | .obs, _, s => by simp [runEv_obs, obsE]
  | .fail, _, s => by simp [runEv_fail, obsE]
  | .ctx _ _, h, _ => by simp [plain] at h
  | .try_ b, h, s => by
      simp only [plain] at h
      simp [runEv_try, obsE, runEvs_plain b h s]
theorem runEvs_plain : (es : List Ev) → plains es = true → ∀ s : St,
    runEvs es s = ((obsEs es).2, ⟨s.c7n, s.log ++ List.replicate (obsEs es).1 s.c7n⟩)
  | [], _, s => by simp [runEvs_nil, obsEs]
  | e :: es, h, s => by
      simp only [plains, Bool.and_eq_true] at h
      rw [runEvs_cons, runEv_plain e h.1 s]
      simp only [obsEs]
      cases hr : (obsE e).2 with
      | true => simp
      | false =>
        simp [runEvs_plain es h.2, List.replicate_append_replicate]
end

/-- cleared on every exit path, whatever the body does (also with nested contexts) -/
theorem ctx_cleared (f : Nat) (body : List Ev) (s : St) : (runEv (.ctx f body) s).2.c7n = none := by
  simp [runEv_ctx]

theorem ctx_propagates (f : Nat) (body : List Ev) (s : St) :
    (runEv (.ctx f body) s).1 = (runEvs body { s with c7n := some f }).1 := by
  simp [runEv_ctx]

theorem ctx_visible (f : Nat) (body : List Ev) (h : plains body = true) (s : St) :
    runEv (.ctx f body) s = ((obsEs body).2, ⟨none, s.log ++ List.replicate (obsEs body).1 (some f)⟩) := by
  simp [runEv_ctx, runEvs_plain body h]

inductive HItem where
  | observe
  | eval (f : Nat) (body : List Ev)

def HItem.toEv : HItem → Ev
  | .observe => .obs
  | .eval f body => .try_ [.ctx f body]

def HItem.expected : HItem → List (Option Nat)
  | .observe => [none]
  | .eval f body => List.replicate (obsEs body).1 (some f)

theorem runEv_item_eval (f : Nat) (body : List Ev) (s : St) :
    runEv (HItem.toEv (.eval f body)) s = (false, ⟨none, (runEvs body ⟨some f, s.log⟩).2.log⟩) := by
  simp only [HItem.toEv, runEv_try, runEvs_cons, runEv_ctx, runEvs_nil]
  split <;> rfl

theorem history_cleared (h : List HItem) (s : St) (hs : s.c7n = none) :
    (runEvs (h.map HItem.toEv) s).1 = false ∧ (runEvs (h.map HItem.toEv) s).2.c7n = none := by
  induction h generalizing s with
  | nil => simp [runEvs_nil, hs]
  | cons i is ih =>
    rw [List.map_cons, runEvs_cons]
    cases i with
    | observe =>
      simp only [HItem.toEv, runEv_obs, Bool.false_eq_true, if_false]
      exact ih ⟨s.c7n, s.log ++ [s.c7n]⟩ hs
    | eval f body =>
      rw [runEv_item_eval]
      simp only [Bool.false_eq_true, if_false]
      exact ih _ rfl

theorem history_log (h : List HItem) (hp : ∀ i ∈ h, ∀ f b, i = .eval f b → plains b = true) (s : St)
    (hs : s.c7n = none) :
    (runEvs (h.map HItem.toEv) s).2.log = s.log ++ h.flatMap HItem.expected := by
  induction h generalizing s with
  | nil => simp [runEvs_nil]
  | cons i is ih =>
    have hp' : ∀ i ∈ is, ∀ f b, i = .eval f b → plains b = true := fun j hj => hp j (by simp [hj])
    rw [List.map_cons, runEvs_cons]
    cases i with
    | observe =>
      simp only [HItem.toEv, runEv_obs, Bool.false_eq_true, if_false]
      rw [ih hp' ⟨s.c7n, s.log ++ [s.c7n]⟩ hs]
      simp [HItem.expected, hs]
    | eval f body =>
      have hb := hp (.eval f body) (by simp) f body rfl
      rw [runEv_item_eval]
      simp only [Bool.false_eq_true, if_false]
      rw [ih hp' _ rfl, runEvs_plain body hb]
      simp [HItem.expected]


/-! ## more CIDR / version / normalize lemmas -/


theorem supernet_len (n x : Net) (hn : n.WF) (hx : x.WF) (h : supernetOf n x = true) : n.len ≤ x.len := by
  rw [supernetOf_iff] at h
  simp only [Net.bcast, Net.hostmask] at h
  have h1 := n.size_pos; have h2 := x.size_pos
  have : x.size ≤ n.size := by omega
  simp only [Net.size] at this
  have h3 : 32 - x.len ≤ 32 - n.len := (Nat.pow_le_pow_iff_right (by decide : 1 < 2)).1 this
  have h4 := hx.1; have h5 := hn.1
  omega

theorem supernet_iff_prefix (n x : Net) (hn : n.WF) (hx : x.WF) :
    supernetOf n x = true ↔ n.len ≤ x.len ∧ addrIn x.addr n = true := by
  constructor
  · intro h
    refine ⟨supernet_len n x hn hx h, (addrIn_iff n hn _).2 ?_⟩
    rw [supernetOf_iff] at h
    have := x.addr_le_bcast
    omega
  · rintro ⟨hl, ha⟩
    have ha' := (addrIn_iff n hn _).1 ha
    rcases nested_or_disjoint n x hn hx hl with h | h | h
    · exact h
    · have := x.addr_le_bcast; omega
    · omega

theorem stripZeros_pad (a b : List Nat) (n : Nat) (ha : a.length ≤ n) (hb : b.length ≤ n) :
    stripZeros a = stripZeros b ↔ padTo n a = padTo n b := by
  have h1 := lexLt_strip_pad a b n ha hb
  have h2 := lexLt_strip_pad b a n hb ha
  constructor
  · intro h
    rcases lexLt_trichotomy (padTo n a) (padTo n b) with t | t | t
    · rw [← h1, h, lexLt_irrefl] at t; cases t
    · exact t
    · rw [← h2, h, lexLt_irrefl] at t; cases t
  · intro h
    rcases lexLt_trichotomy (stripZeros a) (stripZeros b) with t | t | t
    · rw [h1, h, lexLt_irrefl] at t; cases t
    · exact t
    · rw [h2, h, lexLt_irrefl] at t; cases t

/-! normalize -/
theorem lstrip_head (s : Str) : ∀ c, (lstrip s).head? = some c → isSpace c = false := by
  induction s with
  | nil => simp [lstrip]
  | cons x s ih =>
    intro c
    simp only [lstrip, List.dropWhile_cons]
    split
    · exact ih c
    · intro h; simp at h; subst h; simpa using ‹¬isSpace x = true›

theorem rstrip_last (s : Str) : ∀ c, (rstrip s).getLast? = some c → isSpace c = false := by
  intro c h
  have := lstrip_head s.reverse c
  simp only [rstrip, List.getLast?_reverse] at h
  exact this h

theorem rstrip_head (s : Str) (hs : ∀ c, s.head? = some c → isSpace c = false) :
    ∀ c, (rstrip s).head? = some c → isSpace c = false := by
  cases s with
  | nil => simp [rstrip]
  | cons x t =>
    have hx := hs x rfl
    have := rstrip_append [] t x hx
    simp only [List.nil_append] at this
    rw [this]; intro c h; simp at h; subst h; exact hx

/-- the result of `normalize` neither starts nor ends with white space -/
theorem normalize_trimmed (s : Str) :
    (∀ c, (normalize s).head? = some c → isSpace c = false) ∧
    (∀ c, (normalize s).getLast? = some c → isSpace c = false) :=
  ⟨rstrip_head _ (lstrip_head _), rstrip_last _⟩

theorem lowerCp_not_upper (c : Nat) : ¬ (65 ≤ lowerCp c ∧ lowerCp c ≤ 90) := by
  unfold lowerCp; split <;> omega

theorem lowerCp_idem (c : Nat) : lowerCp (lowerCp c) = lowerCp c := by
  unfold lowerCp; split <;> (try split) <;> omega

theorem normalize_sub (s : Str) : ∀ c ∈ normalize s, c ∈ pyLower s := by
  intro c hc
  simp only [normalize, pyStrip, rstrip, lstrip, List.mem_reverse] at hc
  have h1 := (List.dropWhile_sublist isSpace).subset hc
  simp only [List.mem_reverse] at h1
  exact (List.dropWhile_sublist isSpace).subset h1

/-- the result of `normalize` contains no upper-case ASCII letter -/
theorem normalize_lower (s : Str) : ∀ c ∈ normalize s, ¬ (65 ≤ c ∧ c ≤ 90) := by
  intro c hc
  have := normalize_sub s c hc
  simp only [pyLower, List.mem_map] at this
  obtain ⟨a, _, rfl⟩ := this
  exact lowerCp_not_upper a

theorem dropWhile_id_of_head (p : Nat → Bool) (s : Str) (h : ∀ c, s.head? = some c → p c = false) :
    s.dropWhile p = s := by
  cases s with
  | nil => rfl
  | cons x t => simp [List.dropWhile_cons, h x rfl]

theorem strip_of_trimmed (s : Str) (h1 : ∀ c, s.head? = some c → isSpace c = false)
    (h2 : ∀ c, s.getLast? = some c → isSpace c = false) : pyStrip s = s := by
  have a : lstrip s = s := dropWhile_id_of_head _ _ h1
  have b : rstrip s = s := by
    simp only [rstrip]
    rw [dropWhile_id_of_head _ s.reverse (by simpa [List.head?_reverse] using h2)]; simp
  simp [pyStrip, a, b]

theorem pyLower_idem (s : Str) : pyLower (pyLower s) = pyLower s := by
  simp [pyLower, lowerCp_idem]

theorem lowerCp_space (c : Nat) : isSpace (lowerCp c) = isSpace c := by
  unfold lowerCp; split
  · simp only [isSpace]
    have h1 : ¬ (c ≤ 13) := by omega
    have h2 : ¬ (c ≤ 32) := by omega
    have h3 : ¬ (c + 32 ≤ 13) := by omega
    have h4 : ¬ (c + 32 ≤ 32) := by omega
    simp [h1, h2, h3, h4]
  · rfl

theorem pyLower_dropWhile (s : Str) : pyLower (s.dropWhile isSpace) = (pyLower s).dropWhile isSpace := by
  induction s with
  | nil => rfl
  | cons x t ih =>
    simp only [pyLower, List.map_cons, List.dropWhile_cons, lowerCp_space]
    split
    · exact ih
    · simp

theorem pyLower_strip (s : Str) : pyLower (pyStrip s) = pyStrip (pyLower s) := by
  simp only [pyStrip, rstrip, lstrip]
  have h : ∀ t : Str, pyLower t.reverse = (pyLower t).reverse := by intro t; simp [pyLower]
  rw [h, pyLower_dropWhile, h, pyLower_dropWhile]

/-- `normalize` is idempotent -/
theorem normalize_idem (s : Str) : normalize (normalize s) = normalize s := by
  have ht := normalize_trimmed s
  simp only [normalize] at *
  rw [pyLower_strip, pyLower_idem, strip_of_trimmed _ ht.1 ht.2]


/-! ## the glob language on pattern text -/


/-- Shell-pattern matching stated directly on the pattern text: `Glob pat text`. -/
inductive Glob : Str → Str → Prop
  | nil : Glob [] []
  | star {p : Str} (pre : Str) {t : Str} : Glob p t → Glob (42 :: p) (pre ++ t)
  | any {p : Str} (c : Nat) {t : Str} : Glob p t → Glob (63 :: p) (c :: t)
  | set {p body rest : Str} {neg : Bool} (c : Nat) {t : Str} :
      scanSet p = some (neg, body, rest) → setHas neg (setItems body) c = true → Glob rest t →
      Glob (91 :: p) (c :: t)
  | openBracket {p : Str} {t : Str} : scanSet p = none → Glob p t → Glob (91 :: p) (91 :: t)
  | lit {p : Str} (c : Nat) {t : Str} : c ≠ 42 → c ≠ 63 → c ≠ 91 → Glob p t → Glob (c :: p) (c :: t)

theorem parseGlob_nil : parseGlob [] = [] := by rw [parseGlob]
theorem parseGlob_star (p : Str) : parseGlob (42 :: p) = .star :: parseGlob p := by rw [parseGlob]; simp
theorem parseGlob_any (p : Str) : parseGlob (63 :: p) = .any :: parseGlob p := by rw [parseGlob]; simp
theorem parseGlob_lit (c : Nat) (p : Str) (h1 : c ≠ 42) (h2 : c ≠ 63) (h3 : c ≠ 91) :
    parseGlob (c :: p) = .lit c :: parseGlob p := by rw [parseGlob]; simp [h1, h2, h3]
theorem parseGlob_set (p body rest : Str) (neg : Bool) (h : scanSet p = some (neg, body, rest)) :
    parseGlob (91 :: p) = .set neg (setItems body) :: parseGlob rest := by
  rw [parseGlob]; simp only [show (91 : Nat) ≠ 42 by decide, show (91 : Nat) ≠ 63 by decide, if_false, if_true]
  split
  · rename_i n b r h'; rw [h] at h'; cases h'; rfl
  · rename_i h'; rw [h] at h'; cases h'
theorem parseGlob_open (p : Str) (h : scanSet p = none) :
    parseGlob (91 :: p) = .lit 91 :: parseGlob p := by
  rw [parseGlob]; simp only [show (91 : Nat) ≠ 42 by decide, show (91 : Nat) ≠ 63 by decide, if_false, if_true]
  split
  · rename_i n b r h'; rw [h] at h'; cases h'
  · rfl

theorem globLang_iff_glob (p : Str) : ∀ s, GlobLang (parseGlob p) s ↔ Glob p s := by
  induction h : p.length using Nat.strong_induction_on generalizing p with
  | _ n ih =>
    intro s
    cases p with
    | nil =>
      rw [parseGlob_nil]
      constructor
      · intro g; cases g; exact .nil
      · intro g; cases g; exact .nil
    | cons c p =>
      have ihp : ∀ s, GlobLang (parseGlob p) s ↔ Glob p s := ih p.length (by simp at h; omega) p rfl
      by_cases h42 : c = 42
      · subst h42; rw [parseGlob_star]
        constructor
        · intro g; cases g with | star pre g => exact .star pre ((ihp _).1 g)
        · intro g
          cases g with
          | star pre g => exact .star pre ((ihp _).2 g)
          | lit _ h1 => exact absurd rfl h1
      · by_cases h63 : c = 63
        · subst h63; rw [parseGlob_any]
          constructor
          · intro g; cases g with | any c g => exact .any c ((ihp _).1 g)
          · intro g
            cases g with
            | any c g => exact .any c ((ihp _).2 g)
            | lit _ _ h2 => exact absurd rfl h2
        · by_cases h91 : c = 91
          · subst h91
            cases hs : scanSet p with
            | none =>
              rw [parseGlob_open p hs]
              constructor
              · intro g; cases g with | lit _ g => exact .openBracket hs ((ihp _).1 g)
              · intro g
                cases g with
                | set _ h' => rw [hs] at h'; cases h'
                | openBracket _ g => exact .lit 91 ((ihp _).2 g)
                | lit _ _ _ h3 => exact absurd rfl h3
            | some r =>
              obtain ⟨neg, body, rest⟩ := r
              rw [parseGlob_set p body rest neg hs]
              have hlt := scanSet_lt hs
              have ihr : ∀ s, GlobLang (parseGlob rest) s ↔ Glob rest s :=
                ih rest.length (by simp at h; omega) rest rfl
              constructor
              · intro g; cases g with | set c hc g => exact .set c hs hc ((ihr _).1 g)
              · intro g
                cases g with
                | set c h' hc g => rw [hs] at h'; cases h'; exact .set c hc ((ihr _).2 g)
                | openBracket h' => rw [hs] at h'; cases h'
                | lit _ _ _ h3 => exact absurd rfl h3
          · rw [parseGlob_lit c p h42 h63 h91]
            constructor
            · intro g; cases g with | lit _ g => exact .lit c h42 h63 h91 ((ihp _).1 g)
            · intro g
              cases g with
              | star => exact absurd rfl h42
              | any => exact absurd rfl h63
              | set => exact absurd rfl h91
              | openBracket => exact absurd rfl h91
              | lit _ _ _ _ g => exact .lit c ((ihp _).2 g)


/-! ## unique_size and `List.eraseDups` -/

section
variable {α : Type} [DecidableEq α]
theorem nodup_eraseDups (l : List α) : l.eraseDups.Nodup := by
  induction h : l.length using Nat.strong_induction_on generalizing l with
  | _ n ih =>
    cases l with
    | nil => simp
    | cons a as =>
      rw [List.eraseDups_cons, List.nodup_cons]
      constructor
      · rw [List.mem_eraseDups]; simp
      · exact ih _ (by simp at h; have := List.length_filter_le (fun b => !b == a) as; omega) _ rfl

theorem unique_size_eraseDups (a : List α) : uniqueSize a = a.eraseDups.length :=
  unique_size_spec a a.eraseDups (nodup_eraseDups a) (fun x => List.mem_eraseDups)
end


/-! ## the bit masks of `ipaddress` -/

/-- and-ing with the netmask `2^32 - 2^k` clears the `k` low bits (the arithmetic form `addrIn` uses) -/
theorem and_netmask (ip k : Nat) (hip : ip < 2 ^ 32) (hk : k ≤ 32) :
    ip &&& (2 ^ 32 - 2 ^ k) = ip / 2 ^ k * 2 ^ k := by
  have hm : 2 ^ 32 - 2 ^ k = 2 ^ k * (2 ^ (32 - k) - 1) := by
    have : 2 ^ 32 = 2 ^ k * 2 ^ (32 - k) := by rw [← Nat.pow_add]; congr 1; omega
    rw [Nat.mul_sub, Nat.mul_one, ← this]
  apply Nat.eq_of_testBit_eq
  intro i
  rw [Nat.testBit_and, hm, Nat.mul_comm (ip / 2 ^ k), Nat.testBit_two_pow_mul, Nat.testBit_two_pow_mul,
    Nat.testBit_two_pow_sub_one, Nat.testBit_div_two_pow]
  by_cases h1 : k ≤ i
  · have e : i - k + k = i := by omega
    simp only [h1, decide_true, Bool.true_and, e]
    by_cases h2 : i - k < 32 - k
    · simp [h2]
    · have : 32 ≤ i := by omega
      have : ip.testBit i = false := Nat.testBit_lt_two_pow (Nat.lt_of_lt_of_le hip (Nat.pow_le_pow_right (by decide) this))
      simp [h2, this]
  · simp [h1]

theorem or_hostmask (n : Net) (h : n.WF) : n.addr ||| n.hostmask = n.bcast := by
  obtain ⟨a, ha⟩ := aligned_mul h.2.2
  have hlt : n.hostmask < 2 ^ (32 - n.len) := by
    have := n.size_pos; simp only [Net.hostmask, Net.size] at *; omega
  have := Nat.two_pow_add_eq_or_of_lt hlt a
  simp only [Net.bcast]
  rw [ha, Net.size, Nat.mul_comm a]
  exact this.symm

/-! round 2: containment is a partial order on well-formed networks; boundary prefixes -/
theorem contains_refl (n : Net) : contains n (.net n) = true := by
  simp [contains, supernetOf]

theorem contains_trans (a b c : Net) (h1 : contains a (.net b) = true) (h2 : contains b (.net c) = true) :
    contains a (.net c) = true := by
  simp only [contains, supernetOf_iff] at *
  omega

theorem contains_trans_addr (a b : Net) (ha : a.WF) (hb : b.WF) (ip : Nat)
    (h1 : contains a (.net b) = true) (h2 : contains b (.addr4 ip) = true) : contains a (.addr4 ip) = true := by
  simp only [contains] at *
  rw [addrIn_iff a ha]; rw [addrIn_iff b hb] at h2; rw [supernetOf_iff] at h1
  omega

theorem contains_antisymm (a b : Net) (ha : a.WF) (hb : b.WF)
    (h1 : contains a (.net b) = true) (h2 : contains b (.net a) = true) : a = b := by
  simp only [contains, supernetOf_iff] at h1 h2
  have hadd : a.addr = b.addr := by omega
  have hbc : a.bcast = b.bcast := by omega
  have hs : a.size = b.size := by
    have p1 := a.size_pos; have p2 := b.size_pos
    simp only [Net.bcast, Net.hostmask] at hbc; omega
  have hl : a.len = b.len := by
    have : 32 - a.len = 32 - b.len :=
      Nat.pow_right_injective (Nat.le_refl 2) (by simpa only [Net.size] using hs)
    have h3 := ha.1; have h4 := hb.1
    omega
  cases a; cases b; simp_all

/-- `0.0.0.0/0` contains every IPv4 address and every well-formed network -/
theorem default_route_contains (x : Net) (hx : x.WF) (ip : Nat) (hip : ip < 2 ^ 32) :
    contains ⟨0, 0⟩ (.net x) = true ∧ contains ⟨0, 0⟩ (.addr4 ip) = true := by
  have hwf : (⟨0, 0⟩ : Net).WF := by simp [Net.WF, Net.size]
  constructor
  · simp only [contains, supernetOf_iff, Net.bcast, Net.hostmask, Net.size]
    obtain ⟨h1, h2, h3⟩ := hx
    have hp : 2 ^ (32 - x.len) ≤ 2 ^ 32 := Nat.pow_le_pow_right (by omega) (by omega)
    have hpos : 0 < 2 ^ (32 - x.len) := Nat.two_pow_pos _
    refine ⟨Nat.zero_le _, ?_⟩
    -- x.addr is a multiple of the block size below 2^32, so the block ends below 2^32
    obtain ⟨k, hk⟩ := aligned_mul h3
    simp only [Net.size] at hk
    have hd : 2 ^ (32 - x.len) ∣ 2 ^ 32 := Nat.pow_dvd_pow 2 (by omega)
    obtain ⟨m, hm⟩ := hd
    have hkm : k < m := by
      have : k * 2 ^ (32 - x.len) < m * 2 ^ (32 - x.len) := by rw [← hk, Nat.mul_comm m]; omega
      exact Nat.lt_of_mul_lt_mul_right this
    have : (k + 1) * 2 ^ (32 - x.len) ≤ m * 2 ^ (32 - x.len) := Nat.mul_le_mul_right _ hkm
    rw [Nat.add_mul] at this
    rw [Nat.mul_comm m] at this
    omega
  · rw [show contains ⟨0, 0⟩ (.addr4 ip) = addrIn ip ⟨0, 0⟩ from rfl, addrIn_iff _ hwf]
    simp [Net.bcast, Net.hostmask, Net.size]; omega

/-- a `/32` network contains exactly its own address … -/
theorem host_route_addr (n : Net) (hn : n.WF) (h32 : n.len = 32) (ip : Nat) :
    contains n (.addr4 ip) = true ↔ ip = n.addr := by
  rw [show contains n (.addr4 ip) = addrIn ip n from rfl, addrIn_iff n hn]
  simp [Net.bcast, Net.hostmask, Net.size, h32]; omega

/-- … and, among well-formed networks, only itself -/
theorem host_route_net (n x : Net) (hn : n.WF) (hx : x.WF) (h32 : n.len = 32)
    (h : contains n (.net x) = true) : x = n := by
  have hl := supernet_len n x hn hx h
  have hx32 : x.len = 32 := by have := hx.1; omega
  simp only [contains, supernetOf_iff, Net.bcast, Net.hostmask, Net.size, h32, hx32] at h
  have : x.addr = n.addr := by simp at h; omega
  cases x; cases n; simp_all

/-! round 2: converse directions for `key` — what a result says about the tag list -/
theorem key_some_sound {V} (tags : List (Tag V)) (k : Str) (v : V) (h : key tags k = .ok (some v)) :
    ∃ pre t post, tags = pre ++ t :: post ∧ (∀ u ∈ pre, ∃ k', u.key = some k' ∧ k' ≠ k) ∧
      t.key = some k ∧ t.value = some v := by
  induction tags with
  | nil => simp [key] at h
  | cons t ts ih =>
    simp only [key] at h
    cases hk : t.key with
    | none => simp [hk] at h
    | some k' =>
      simp only [hk] at h
      by_cases he : k' = k
      · simp only [he, if_true] at h
        cases hv : t.value with
        | none => simp [hv] at h
        | some v' =>
          simp only [hv] at h
          refine ⟨[], t, ts, rfl, by simp, by rw [hk, he], ?_⟩
          simp_all
      · simp only [he, if_false] at h
        obtain ⟨pre, t', post, e, hp, h1, h2⟩ := ih h
        refine ⟨t :: pre, t', post, by rw [e]; rfl, ?_, h1, h2⟩
        intro u hu
        rcases List.mem_cons.mp hu with rfl | hu
        · exact ⟨k', hk, he⟩
        · exact hp u hu

theorem key_none_sound {V} (tags : List (Tag V)) (k : Str) (h : key tags k = .ok none) :
    ∀ u ∈ tags, ∃ k', u.key = some k' ∧ k' ≠ k := by
  induction tags with
  | nil => simp
  | cons t ts ih =>
    simp only [key] at h
    cases hk : t.key with
    | none => simp [hk] at h
    | some k' =>
      simp only [hk] at h
      by_cases he : k' = k
      · simp only [he, if_true] at h
        cases hv : t.value <;> simp [hv] at h
      · simp only [he, if_false] at h
        intro u hu
        rcases List.mem_cons.mp hu with rfl | hu
        · exact ⟨k', hk, he⟩
        · exact ih h u hu

/-! round 2: converse direction for `marked_key` — every non-null result comes from a `message:target` text whose target,
stripped, is `action@date`; the message is everything before the LAST `:` and the action everything before the FIRST `@` -/
theorem splitFirst_sound (sep : Nat) (s a b : Str) (h : splitFirst sep s = some (a, b)) :
    s = a ++ sep :: b ∧ sep ∉ a := by
  induction s generalizing a b with
  | nil => simp [splitFirst] at h
  | cons c r ih =>
    simp only [splitFirst] at h
    split at h
    · rename_i hc; simp at h; obtain ⟨rfl, rfl⟩ := h; simp [hc]
    · rename_i hc
      split at h
      · rename_i a' b' h'
        simp at h; obtain ⟨rfl, rfl⟩ := h
        obtain ⟨e, hn⟩ := ih a' b' h'
        refine ⟨by rw [e]; rfl, ?_⟩
        simp only [List.mem_cons, not_or]; exact ⟨fun x => hc x.symm, hn⟩
      · simp at h

theorem splitLast_sound (sep : Nat) (s a b : Str) (h : splitLast sep s = some (a, b)) :
    s = a ++ sep :: b ∧ sep ∉ b := by
  unfold splitLast at h
  split at h
  · rename_i x y h'
    simp at h; obtain ⟨rfl, rfl⟩ := h
    obtain ⟨e, hn⟩ := splitFirst_sound sep s.reverse x y h'
    refine ⟨?_, by simpa using hn⟩
    have := congrArg List.reverse e
    simpa using this
  · simp at h

theorem marked_split_sound (v m a d : Str) (h : markedSplit v = some (m, a, d)) :
    ∃ tgt, v = m ++ 58 :: tgt ∧ 58 ∉ tgt ∧ pyStrip tgt = a ++ 64 :: d ∧ 64 ∉ a := by
  unfold markedSplit at h
  split at h
  · simp at h
  · rename_i msg tgt h1
    split at h
    · simp at h
    · rename_i act dt h2
      simp at h; obtain ⟨rfl, rfl, rfl⟩ := h
      obtain ⟨e1, n1⟩ := splitLast_sound 58 v msg tgt h1
      obtain ⟨e2, n2⟩ := splitFirst_sound 64 _ act dt h2
      exact ⟨tgt, e1, n1, e2, n2⟩

end Cel.C7n
