/-
  Cel.Lemmas.PrimD — the driver's concrete primitive semantics (totalised: "not modelled" = TypeError) obeys
  `PrimLaws`; hence the hypotheses of `Cel.Props.C03.evalC_eq_evalI` are satisfiable by a non-trivial semantics
  (int64 arithmetic with overflow, ordering, equality with its TypeError quirks, `in`, list indexing, concatenation, size).
-/
import Cel.Lemmas.Eval
namespace Cel
namespace PrimD

/-- error classes the concrete primitives raise -/
def ErrOK (c : Exc) : Prop := c = .typeError ∨ c = .valueError ∨ c = .zeroDiv ∨ c = .indexError ∨ c = .other

theorem int64_err {z : Int} {c : Exc} (h : int64 z = .error c) : c = .valueError := by
  unfold int64 at h; split at h <;> cases h; rfl

theorem wrap2_err {z : Int} {c : Exc} (h : (IntOps.wrap z >>= int64) = .error c) : c = .valueError := by
  rcases (bind_eq_error _ _ _).1 h with h1 | ⟨v, _, h2⟩
  · exact int64_err h1
  · exact int64_err h2

theorem ofInt_ok {r : PyM Int} {v : Val} (h : ofInt r = .ok v) : ∃ i, v = .int i := by
  cases r with
  | ok i => simp [ofInt, Except.map] at h; exact ⟨i, h.symm⟩
  | error c => simp [ofInt, Except.map] at h

theorem ofInt_err {r : PyM Int} {c : Exc} (h : ofInt r = .error c) : r = .error c := by
  cases r with
  | ok i => simp [ofInt, Except.map] at h
  | error d => simp [ofInt, Except.map] at h; rw [h]

theorem intArith_err {op : BinOp} {a b : Int} {c : Exc} (h : intArith op a b = .error c) : ErrOK c := by
  cases op <;> simp only [intArith, unk] at h
  · exact Or.inr (Or.inl (wrap2_err (ofInt_err h)))
  · exact Or.inr (Or.inl (wrap2_err (ofInt_err h)))
  · exact Or.inr (Or.inl (wrap2_err (ofInt_err h)))
  · have h1 := ofInt_err h
    simp only [IntOps.truediv] at h1
    rcases (bind_eq_error _ _ _).1 h1 with h2 | ⟨q, _, h3⟩
    · unfold pyFloorDiv at h2; split at h2 <;> cases h2; exact Or.inr (Or.inr (Or.inl rfl))
    · exact Or.inr (Or.inl (wrap2_err h3))
  · have h1 := ofInt_err h
    simp only [IntOps.mod] at h1
    rcases (bind_eq_error _ _ _).1 h1 with h2 | ⟨q, _, h3⟩
    · unfold pyMod at h2; split at h2 <;> cases h2; exact Or.inr (Or.inr (Or.inl rfl))
    · exact Or.inr (Or.inl (wrap2_err h3))
  all_goals (cases h; exact Or.inr (Or.inr (Or.inr (Or.inr rfl))))

theorem intArith_ok {op : BinOp} {a b : Int} {v : Val} (h : intArith op a b = .ok v) : ∃ i, v = .int i := by
  cases op <;> simp only [intArith, unk] at h <;> first | exact ofInt_ok h | cases h

end PrimD
end Cel
namespace Cel
namespace PrimD

theorem cleanL_append : ∀ {xs ys : List Val}, Val.cleanL xs = true → Val.cleanL ys = true → Val.cleanL (xs ++ ys) = true
  | [], _, _, h => h
  | x :: xs, ys, h1, h2 => by
      rw [cleanL_cons] at h1
      show Val.cleanL (x :: (xs ++ ys)) = true
      rw [cleanL_cons]; exact ⟨h1.1, cleanL_append h1.2 h2⟩

theorem getNth_clean : ∀ {xs : List Val} {n : Nat} {v : Val}, Val.cleanL xs = true → getNth xs n = .ok v → v.clean = true
  | [], _, _, _, h => by simp [getNth] at h
  | x :: xs, 0, v, hc, h => by rw [cleanL_cons] at hc; simp [getNth] at h; subst h; exact hc.1
  | x :: xs, n+1, v, hc, h => by rw [cleanL_cons] at hc; simp only [getNth] at h; exact getNth_clean hc.2 h

theorem getNth_err : ∀ {xs : List Val} {n : Nat} {c : Exc}, getNth xs n = .error c → c = .indexError
  | [], _, _, h => by simp [getNth] at h; exact h.symm
  | x :: xs, 0, _, h => by simp [getNth] at h
  | x :: xs, n+1, _, h => by simp only [getNth] at h; exact getNth_err h

/-! arith -/
theorem arith_err {op : BinOp} {x y : Val} {c : Exc} (h : arith op x y = .error c) : ErrOK c := by
  cases x <;> cases y <;> simp only [arith, te, unk] at h <;>
    first
    | exact intArith_err h
    | (cases h <;> first | exact Or.inl rfl | exact Or.inr (Or.inr (Or.inr (Or.inr rfl))))
    | (split at h <;> cases h <;> exact Or.inr (Or.inr (Or.inr (Or.inr rfl))))

theorem arith_strict {op : BinOp} {x y v : Val} (he : (x.isErr || y.isErr) = true) (h : arith op x y = .ok v) : v = .err := by
  cases x <;> cases y <;> simp [Val.isErr] at he <;> simp [arith, te, unk] at h <;> exact h.symm

theorem arith_clean {op : BinOp} {x y v : Val} (hx : x.clean = true) (hy : y.clean = true) (h : arith op x y = .ok v) : v.clean = true := by
  cases x <;> cases y <;> simp only [arith, te, unk] at h
  all_goals first
    | (obtain ⟨i, rfl⟩ := intArith_ok h; rfl)
    | (cases h; done)
    | (simp [Val.clean] at hx; done)
    | (split at h <;> cases h <;> first
        | rfl
        | (simp only [Val.clean] at hx hy ⊢; exact cleanL_append hx hy))

end PrimD
end Cel
namespace Cel
namespace PrimD

theorem okT : ErrOK .typeError := Or.inl rfl
theorem okO : ErrOK .other := Or.inr (Or.inr (Or.inr (Or.inr rfl)))

/-- result is a `BoolType` or an error object -/
def BoolRes (r : PyM Val) : Prop := ∀ v, r = .ok v → v = .err ∨ v.isBool = true

/-! ord -/
theorem ord_err {op : BinOp} {x y : Val} {c : Exc} (h : ord op x y = .error c) : ErrOK c := by
  cases x <;> cases y <;> simp only [ord, te, unk] at h <;> cases h <;> first | exact okT | exact okO
theorem ord_strict {op : BinOp} {x y v : Val} (he : (x.isErr || y.isErr) = true) (h : ord op x y = .ok v) : v = .err := by
  cases x <;> cases y <;> simp [Val.isErr] at he <;> simp [ord, te, unk] at h <;> exact h.symm
theorem ord_bool {op : BinOp} {x y : Val} : BoolRes (ord op x y) := by
  intro v h
  cases x <;> cases y <;> simp only [ord, te, unk] at h <;> cases h <;> first | exact Or.inl rfl | exact Or.inr rfl
theorem ord_clean {op : BinOp} {x y v : Val} (hx : x.clean = true) (hy : y.clean = true) (h : ord op x y = .ok v) : v.clean = true := by
  rcases ord_bool v h with rfl | hb
  · cases x <;> cases y <;> simp [ord, te, unk] at h <;> simp [Val.clean] at hx hy
  · exact isBool_clean hb

/-! eq / ne -/
theorem eqIntLists_noerr : ∀ {xs ys : List Val} {c : Exc}, eqIntLists xs ys ≠ some (.error c)
  | [], [], c => by simp [eqIntLists]
  | [], y :: ys, c => by
      cases y <;> simp [eqIntLists]
  | x :: xs, [], c => by
      cases x <;> simp [eqIntLists]
  | x :: xs, y :: ys, c => by
      cases x <;> cases y <;> simp only [eqIntLists] <;> try simp
      rename_i a b
      have ih := @eqIntLists_noerr xs ys
      cases hr : eqIntLists xs ys with
      | none => simp
      | some r =>
        cases r with
        | ok b' => simp
        | error d => exact absurd hr (ih)

theorem eqRaw_err {x y : Val} {c : Exc} (h : eqRaw x y = some (.error c)) : c = .typeError := by
  cases x <;> cases y <;> simp only [eqRaw] at h <;>
    first
    | (cases h; rfl)
    | (cases h)
    | exact absurd h eqIntLists_noerr

theorem eqOp_err {n : Bool} {x y : Val} {c : Exc} (h : eqOp n x y = .error c) : ErrOK c := by
  unfold eqOp at h
  split at h
  · cases h
  · cases h
  · split at h <;> cases h <;> first | exact okT | exact okO
  · split at h <;> cases h <;> first | exact okT | exact okO
  · split at h
    · cases h
    · rename_i d hd; cases h; rw [eqRaw_err hd]; exact okT
    · cases h; exact okO

theorem eqOp_strict {n : Bool} {x y v : Val} (he : (x.isErr || y.isErr) = true) (h : eqOp n x y = .ok v) : v = .err := by
  cases x <;> cases y <;> simp [Val.isErr] at he <;> simp [eqOp] at h <;> exact h.symm

theorem eqOp_bool {n : Bool} {x y : Val} : BoolRes (eqOp n x y) := by
  intro v h
  unfold eqOp at h
  split at h
  · cases h; exact Or.inl rfl
  · cases h; exact Or.inl rfl
  · split at h <;> cases h; exact Or.inr rfl
  · split at h <;> cases h; exact Or.inr rfl
  · split at h
    · cases h; exact Or.inr rfl
    · cases h
    · cases h

theorem eqOp_clean {n : Bool} {x y v : Val} (hx : x.clean = true) (hy : y.clean = true) (h : eqOp n x y = .ok v) : v.clean = true := by
  rcases eqOp_bool v h with rfl | hb
  · cases x <;> cases y <;> simp [eqOp, te, unk] at h <;> first | (simp [Val.clean] at hx hy) | (split at h <;> simp at h) | skip
    all_goals (split at h <;> (try split at h) <;> simp at h)
  · exact isBool_clean hb

end PrimD
end Cel
namespace Cel
namespace PrimD

/-! in -/
theorem inList_res : ∀ {item : Val} {cs : List Val} {s : Bool} {r : PyM Val}, inList item cs s = r →
    (∀ c, r = .error c → c = .other) ∧ BoolRes r
  | item, [], s, r, h => by
      subst h
      simp only [inList]
      split
      · exact ⟨fun c h => (by cases h), fun v h => (by cases h; exact Or.inl rfl)⟩
      · exact ⟨fun c h => (by cases h), fun v h => (by cases h; exact Or.inr rfl)⟩
  | item, c :: cs, s, r, h => by
      subst h
      simp only [inList]
      split
      · exact ⟨fun c h => (by cases h), fun v h => (by cases h; exact Or.inr rfl)⟩
      · exact inList_res rfl
      · exact inList_res rfl
      · exact ⟨fun c h => (by cases h; rfl), fun v h => (by cases h)⟩

theorem inOp_err {x y : Val} {c : Exc} (h : inOp x y = .error c) : ErrOK c := by
  unfold inOp at h
  split at h
  · cases h
  · cases h
  · rw [(inList_res rfl).1 c h]; exact okO
  · cases h; exact okT
  · cases h; exact okT
  · cases h; exact okT
  · cases h; exact okO

theorem inOp_strict {x y v : Val} (he : (x.isErr || y.isErr) = true) (h : inOp x y = .ok v) : v = .err := by
  cases x <;> cases y <;> simp [Val.isErr] at he <;> simp [inOp] at h <;> exact h.symm

theorem inOp_bool {x y : Val} : BoolRes (inOp x y) := by
  intro v h
  unfold inOp at h
  split at h
  · cases h; exact Or.inl rfl
  · cases h; exact Or.inl rfl
  · exact (inList_res rfl).2 v h
  · cases h
  · cases h
  · cases h
  · cases h

/-! index, size, unary -/
theorem index_err {x i : Val} {c : Exc} (h : index x i = .error c) : ErrOK c := by
  cases x <;> cases i <;> simp only [index, te, unk] at h <;>
    first
    | (cases h <;> first | exact okT | exact okO)
    | (split at h
       · cases h; exact Or.inr (Or.inr (Or.inr (Or.inl rfl)))
       · rw [getNth_err h]; exact Or.inr (Or.inr (Or.inr (Or.inl rfl))))

theorem index_strict {x i v : Val} (he : (x.isErr || i.isErr) = true) (h : index x i = .ok v) : v = .err := by
  cases x <;> cases i <;> simp [Val.isErr] at he <;> simp [index, te, unk] at h

theorem index_clean {x i v : Val} (hx : x.clean = true) (h : index x i = .ok v) : v.clean = true := by
  cases x <;> cases i <;> simp only [index, te, unk] at h <;>
    first
    | (cases h; done)
    | (split at h
       · cases h
       · simp only [Val.clean] at hx; exact getNth_clean hx h)

theorem size_err {x : Val} {c : Exc} (h : size x = .error c) : ErrOK c := by
  cases x <;> simp only [size, te, unk] at h <;> cases h <;> first | exact okT | exact okO
theorem size_ok {x v : Val} (h : size x = .ok v) : (∃ i, v = .int i) ∧ x ≠ .err := by
  cases x <;> simp only [size, te, unk] at h <;> cases h <;> exact ⟨⟨_, rfl⟩, by simp⟩

end PrimD
end Cel
namespace Cel
namespace PrimD

theorem neg_err {a : Int} {c : Exc} (h : ofInt (IntOps.neg a) = .error c) : ErrOK c :=
  Or.inr (Or.inl (wrap2_err (ofInt_err h)))

theorem un_err {op : UnOp} {x : Val} {c : Exc} (h : un op x = .error c) : ErrOK c := by
  cases op <;> cases x <;> simp only [un, te, unk] at h <;>
    first
    | exact neg_err h
    | (cases h <;> first | exact okT | exact okO)
theorem un_strict {op : UnOp} {x v : Val} (he : x.isErr = true) (h : un op x = .ok v) : v = .err := by
  cases op <;> cases x <;> simp [Val.isErr] at he <;> simp [un] at h <;> exact h.symm
theorem un_clean {op : UnOp} {x v : Val} (hx : x.clean = true) (h : un op x = .ok v) : v.clean = true := by
  cases op <;> cases x <;> simp only [un, te, unk] at h
  all_goals first
    | (obtain ⟨i, rfl⟩ := ofInt_ok h; rfl)
    | (cases h; done)
    | (simp [Val.clean] at hx; done)
    | (cases h; rfl)
theorem un_not_bool {x : Val} : BoolRes (un .not x) := by
  intro v h
  cases x <;> simp only [un, te, unk] at h <;> cases h <;> first | exact Or.inl rfl | exact Or.inr rfl

theorem bin_err {op : BinOp} {x y : Val} {c : Exc} (h : bin op x y = .error c) : ErrOK c := by
  unfold bin at h
  split at h
  · exact arith_err h
  · split at h
    · exact ord_err h
    · split at h
      · exact eqOp_err h
      · exact eqOp_err h
      · exact inOp_err h
      · cases h; exact okO

theorem bin_strict {op : BinOp} {x y v : Val} (he : (x.isErr || y.isErr) = true) (h : bin op x y = .ok v) : v = .err := by
  unfold bin at h
  split at h
  · exact arith_strict he h
  · split at h
    · exact ord_strict he h
    · split at h
      · exact eqOp_strict he h
      · exact eqOp_strict he h
      · exact inOp_strict he h
      · cases h

/-- clean operands: a clean result, except that `in` may return an error object -/
theorem bin_clean {op : BinOp} {x y v : Val} (hx : x.clean = true) (hy : y.clean = true) (h : bin op x y = .ok v) :
    v.clean = true ∨ (op = .in_ ∧ v = .err) := by
  unfold bin at h
  split at h
  · exact Or.inl (arith_clean hx hy h)
  · split at h
    · exact Or.inl (ord_clean hx hy h)
    · split at h
      · exact Or.inl (eqOp_clean hx hy h)
      · exact Or.inl (eqOp_clean hx hy h)
      · rcases inOp_bool v h with rfl | hb
        · exact Or.inr ⟨rfl, rfl⟩
        · exact Or.inl (isBool_clean hb)
      · cases h

theorem bin_bool {op : BinOp} {x y : Val} (hb : boolOp (.bin op) = true) : BoolRes (bin op x y) := by
  intro v h
  unfold bin at h
  split at h
  · rename_i ha; cases op <;> simp [isArith] at ha <;> simp [boolOp] at hb
  · split at h
    · exact ord_bool v h
    · split at h
      · exact eqOp_bool v h
      · exact eqOp_bool v h
      · exact inOp_bool v h
      · cases h

theorem totalise_ok {α} {r : PyM α} {v : α} (h : totalise r = .ok v) : r = .ok v := by
  unfold totalise at h; split at h
  · cases h
  · exact h
theorem totalise_err {α} {r : PyM α} {c : Exc} (h : totalise r = .error c) (hr : ∀ d, r = .error d → ErrOK d) : Caught c := by
  unfold totalise at h; split at h
  · cases h; exact caught_typeError
  · rename_i hne
    rcases hr c h with rfl | rfl | rfl | rfl | rfl
    · exact caught_typeError
    · exact caught_valueError
    · decide
    · decide
    · exact absurd h (hne)

theorem prim_err {op : PrimOp} {args : List Val} {c : Exc} (h : prim op args = .error c) : ErrOK c := by
  unfold prim at h
  split at h
  · exact un_err h
  · exact bin_err h
  · exact index_err h
  · split at h
    · exact size_err h
    · cases h; exact okO
  · cases h; exact okO

theorem prim_strict {op : PrimOp} {args : List Val} {v : Val} (hf : firstErr args = true) (h : prim op args = .ok v) : v = .err := by
  unfold prim at h
  split at h
  · exact un_strict (by simpa [firstErr] using hf) h
  · exact bin_strict (by simpa [firstErr] using hf) h
  · exact index_strict (by simpa [firstErr] using hf) h
  · split at h
    · have := (size_ok h).2
      simp [firstErr] at hf
      exact absurd (isErr_eq hf) this
    · cases h
  · cases h

theorem prim_clean {op : PrimOp} {args : List Val} {v : Val} (hc : Val.cleanL args = true) (h : prim op args = .ok v) :
    v.clean = true ∨ (op = .bin .in_ ∧ v = .err) := by
  unfold prim at h
  split at h
  · simp only [Val.cleanL, Bool.and_true] at hc; exact Or.inl (un_clean hc h)
  · simp only [Val.cleanL, Bool.and_true, Bool.and_eq_true] at hc
    rcases bin_clean hc.1 hc.2 h with h1 | ⟨h1, h2⟩
    · exact Or.inl h1
    · subst h1; exact Or.inr ⟨rfl, h2⟩
  · simp only [Val.cleanL, Bool.and_true, Bool.and_eq_true] at hc
    exact Or.inl (index_clean hc.1 h)
  · split at h
    · obtain ⟨⟨i, rfl⟩, _⟩ := size_ok h; exact Or.inl rfl
    · cases h
  · cases h

theorem prim_bool {op : PrimOp} {args : List Val} (hb : boolOp op = true) : BoolRes (prim op args) := by
  intro v h
  unfold prim at h
  split at h
  · rename_i o x; cases o <;> simp [boolOp] at hb; exact un_not_bool v h
  · exact bin_bool hb v h
  · simp [boolOp] at hb
  · simp [boolOp] at hb
  · cases h

theorem primLaws_semT : PrimLaws semT where
  caught := fun op args c h => totalise_err h (fun d hd => prim_err hd)
  strict := fun op args v _ hf h => prim_strict hf (totalise_ok h)
  cleanOut := fun op args v hc h => by
    rcases prim_clean hc (totalise_ok h) with h1 | ⟨_, h2⟩
    · exact Or.inr h1
    · exact Or.inl h2
  noErrOut := fun op args hs hc h => by
    rcases prim_clean hc (totalise_ok h) with h1 | ⟨h2, _⟩
    · simp [Val.clean] at h1
    · subst h2; simp [errSourceOp] at hs
  boolOut := fun op args v hb h => prim_bool hb v (totalise_ok h)
  iterError := fun v c h => by
    cases v <;> simp [semT, totalise, iterV] at h <;> exact h.symm
  iterErr := fun elems => by simp [semT, totalise, iterV]
  iterClean := fun v elems hv h => by
    cases v <;> simp [semT, totalise, iterV] at h
    · subst h; simpa [Val.clean] using hv
    · subst h; simp [Val.clean] at hv; exact hv.1
  toBoolBool := fun b => rfl
  toBoolErr := fun w => by simp [semT, totalise, boolTypeOf]
  toBoolCaught := fun v c h => by
    cases v <;> simp [semT, totalise, boolTypeOf] at h <;> subst h <;> exact caught_typeError
  toBoolOut := fun v w h => by
    cases v <;> simp [semT, totalise, boolTypeOf] at h <;> subst h <;> rfl

end PrimD
end Cel
