/-
  Helper lemmas for C10: UTF-8 (decode ∘ encode = id; whatever decodes is a genuine encoding),
  Python `int(text)` on decimal text, exactness of binary64 rounding on integers,
  fixed-width decimal fields of timestamp text.
-/
import Cel.Model.Conv
import Cel.Lemmas.Time
namespace Cel.Conv
open Cel.Time (Dy rnd natText intText digitsVal isDigit Ts natText_digits natText_ne_nil digitsVal_natText isDigit_iff civilOfLoc civilOfLoc_spec locOfCivil maxLoc)

/-! ### UTF-8 -/
theorem isCont_iff (b : Nat) : isCont b = true ↔ 0x80 ≤ b ∧ b < 0xC0 := by simp [isCont]
theorem isSurrogate_iff (c : Nat) : isSurrogate c = true ↔ 0xD800 ≤ c ∧ c ≤ 0xDFFF := by simp [isSurrogate]
theorem isScalar_iff (c : Nat) : isScalar c = true ↔ c < 0x110000 ∧ ¬ (0xD800 ≤ c ∧ c ≤ 0xDFFF) := by
  simp [isScalar, isSurrogate]; omega

/-- decoding the encoding of one scalar value followed by anything gives it back -/
theorem decode_cp (c : Nat) (h : isScalar c = true) (rest : Bytes) :
    ∃ b, utf8Cp c = .ok b ∧
      utf8Decode (b ++ rest) = (match utf8Decode rest with | .ok r => .ok (c :: r) | .error e => .error e) := by
  rw [isScalar_iff] at h
  unfold utf8Cp
  by_cases h1 : c < 0x80
  · refine ⟨[c], by simp [h1], ?_⟩
    conv => lhs; unfold utf8Decode
    simp [h1]
    cases utf8Decode rest <;> rfl
  · by_cases h2 : c < 0x800
    · refine ⟨[0xC0 + c / 64, 0x80 + c % 64], by simp [h1, h2], ?_⟩
      have a1 : ¬ (0xC0 + c / 64 < 0x80) := by omega
      have a2 : ¬ (0xC0 + c / 64 < 0xC2) := by omega
      have a3 : 0xC0 + c / 64 < 0xE0 := by omega
      have a4 : isCont (0x80 + c % 64) = true := by rw [isCont_iff]; omega
      have a5 : c / 64 * 64 + c % 64 = c := by omega
      simp [utf8Decode, a1, a2, a3, a4, a5]
      cases utf8Decode rest <;> rfl
    · by_cases h3 : c < 0x10000
      · have hs : isSurrogate c = false := by
          cases hh : isSurrogate c
          · rfl
          · rw [isSurrogate_iff] at hh; omega
        refine ⟨[0xE0 + c / 4096, 0x80 + c / 64 % 64, 0x80 + c % 64], by simp [h1, h2, h3, hs], ?_⟩
        have a1 : ¬ (0xE0 + c / 4096 < 0x80) := by omega
        have a2 : ¬ (0xE0 + c / 4096 < 0xC2) := by omega
        have a3 : ¬ (0xE0 + c / 4096 < 0xE0) := by omega
        have a3' : 0xE0 + c / 4096 < 0xF0 := by omega
        have a4 : isCont (0x80 + c / 64 % 64) = true := by rw [isCont_iff]; omega
        have a5 : isCont (0x80 + c % 64) = true := by rw [isCont_iff]; omega
        have a6 : c / 4096 * 4096 + c / 64 % 64 * 64 + c % 64 = c := by omega
        have a7 : 0x800 ≤ c := by omega
        simp [utf8Decode, a1, a2, a3, a3', a4, a5, a6, a7, hs]
        cases utf8Decode rest <;> rfl
      · have h4 : c < 0x110000 := h.1
        refine ⟨[0xF0 + c / 262144, 0x80 + c / 4096 % 64, 0x80 + c / 64 % 64, 0x80 + c % 64], by simp [h1, h2, h3, h4], ?_⟩
        have a1 : ¬ (0xF0 + c / 262144 < 0x80) := by omega
        have a2 : ¬ (0xF0 + c / 262144 < 0xC2) := by omega
        have a3 : ¬ (0xF0 + c / 262144 < 0xE0) := by omega
        have a3' : ¬ (0xF0 + c / 262144 < 0xF0) := by omega
        have a3'' : 0xF0 + c / 262144 < 0xF5 := by omega
        have a4 : isCont (0x80 + c / 4096 % 64) = true := by rw [isCont_iff]; omega
        have a5 : isCont (0x80 + c / 64 % 64) = true := by rw [isCont_iff]; omega
        have a5' : isCont (0x80 + c % 64) = true := by rw [isCont_iff]; omega
        have a6 : c / 262144 * 262144 + c / 4096 % 64 * 4096 + c / 64 % 64 * 64 + c % 64 = c := by omega
        have a7 : 0x10000 ≤ c := by omega
        simp [utf8Decode, a1, a2, a3, a3', a3'', a4, a5, a5', a6, a7, h4]
        cases utf8Decode rest <;> rfl

/-- `string(bytes(s)) == s` for every string of Unicode scalar values -/
theorem utf8_roundtrip (s : Text) (h : ∀ c ∈ s, isScalar c = true) :
    ∃ b, utf8Encode s = .ok b ∧ utf8Decode b = .ok s := by
  induction s with
  | nil => exact ⟨[], rfl, rfl⟩
  | cons c cs ih =>
    obtain ⟨r, hr1, hr2⟩ := ih (fun x hx => h x (by simp [hx]))
    obtain ⟨b, hb1, hb2⟩ := decode_cp c (h c (by simp)) r
    refine ⟨b ++ r, by simp [utf8Encode, hb1, hr1], ?_⟩
    rw [hb2, hr2]

/-- whatever decodes is the UTF-8 encoding of what it decodes to: no replacement characters,
no overlong or surrogate forms accepted, nothing skipped -/
theorem decode_genuine (b : Bytes) : ∀ s, utf8Decode b = .ok s →
    utf8Encode s = .ok b ∧ (∀ c ∈ s, isScalar c = true) := by
  induction b using utf8Decode.induct
  case case1 => intro s h; simp [utf8Decode] at h; subst h; exact ⟨rfl, by simp⟩
  case case2 b0 rest hb0 r hr ih =>
    intro s h
    unfold utf8Decode at h
    simp [hb0, hr] at h; subst h
    obtain ⟨e1, e2⟩ := ih r hr
    refine ⟨by simp [utf8Encode, utf8Cp, hb0, e1], ?_⟩
    intro c hc; simp at hc
    rcases hc with hc | hc
    · subst hc; rw [isScalar_iff]; omega
    · exact e2 c hc
  case case5 b0 h1 h2 h3 b1 r hc r1 hr ih =>
    intro s h
    unfold utf8Decode at h
    simp only [h1, h2, h3, hc, hr, if_true, if_false] at h
    injection h with h; subst h
    obtain ⟨e1, e2⟩ := ih r1 hr
    rw [isCont_iff] at hc
    have q1 : ¬ ((b0 - 192) * 64 + (b1 - 128) < 128) := by omega
    have q2 : (b0 - 192) * 64 + (b1 - 128) < 2048 := by omega
    have q3 : 192 + ((b0 - 192) * 64 + (b1 - 128)) / 64 = b0 := by omega
    have q4 : 128 + ((b0 - 192) * 64 + (b1 - 128)) % 64 = b1 := by omega
    have hcp : utf8Cp ((b0 - 192) * 64 + (b1 - 128)) = .ok [b0, b1] := by
      unfold utf8Cp; rw [if_neg q1, if_pos q2, q3, q4]
    refine ⟨by unfold utf8Encode; rw [hcp, e1]; rfl, ?_⟩
    intro c hc'
    rcases List.mem_cons.mp hc' with hc' | hc'
    · rw [hc', isScalar_iff]; omega
    · exact e2 c hc'
  case case9 b0 h1 h2 h3 h4 b1 b2 r hc r1 hr ih =>
    intro s h
    unfold utf8Decode at h
    simp only [h1, h2, h3, h4, hc, hr, if_true, if_false] at h
    injection h with h; subst h
    obtain ⟨e1, e2⟩ := ih r1 hr
    simp only [Bool.and_eq_true, isCont_iff, decide_eq_true_eq, Bool.not_eq_true', ] at hc
    obtain ⟨⟨⟨c1, c2⟩, c3⟩, c4⟩ := hc
    have c4' : ¬ (0xD800 ≤ (b0 - 224) * 4096 + (b1 - 128) * 64 + (b2 - 128) ∧ (b0 - 224) * 4096 + (b1 - 128) * 64 + (b2 - 128) ≤ 0xDFFF) := by
      intro hh; have := (isSurrogate_iff _).mpr hh; rw [this] at c4; exact absurd c4 (by simp)
    have q1 : ¬ ((b0 - 224) * 4096 + (b1 - 128) * 64 + (b2 - 128) < 128) := by omega
    have q2 : ¬ ((b0 - 224) * 4096 + (b1 - 128) * 64 + (b2 - 128) < 2048) := by omega
    have q2' : (b0 - 224) * 4096 + (b1 - 128) * 64 + (b2 - 128) < 65536 := by omega
    have q3 : 224 + ((b0 - 224) * 4096 + (b1 - 128) * 64 + (b2 - 128)) / 4096 = b0 := by omega
    have q4 : 128 + ((b0 - 224) * 4096 + (b1 - 128) * 64 + (b2 - 128)) / 64 % 64 = b1 := by omega
    have q5 : 128 + ((b0 - 224) * 4096 + (b1 - 128) * 64 + (b2 - 128)) % 64 = b2 := by omega
    have hcp : utf8Cp ((b0 - 224) * 4096 + (b1 - 128) * 64 + (b2 - 128)) = .ok [b0, b1, b2] := by
      unfold utf8Cp; rw [if_neg q1, if_neg q2, if_pos q2', c4, q3, q4, q5]; rfl
    refine ⟨by unfold utf8Encode; rw [hcp, e1]; rfl, ?_⟩
    intro c hc'
    rcases List.mem_cons.mp hc' with hc' | hc'
    · rw [hc', isScalar_iff]; omega
    · exact e2 c hc'
  case case13 b0 h1 h2 h3 h4 h5 b1 b2 b3 r hc r1 hr ih =>
    intro s h
    unfold utf8Decode at h
    simp only [h1, h2, h3, h4, h5, hc, hr, if_true, if_false] at h
    injection h with h; subst h
    obtain ⟨e1, e2⟩ := ih r1 hr
    simp only [Bool.and_eq_true, isCont_iff, decide_eq_true_eq] at hc
    obtain ⟨⟨⟨⟨c1, c2⟩, c3⟩, c4⟩, c5⟩ := hc
    have q1 : ¬ ((b0 - 240) * 262144 + (b1 - 128) * 4096 + (b2 - 128) * 64 + (b3 - 128) < 128) := by omega
    have q2 : ¬ ((b0 - 240) * 262144 + (b1 - 128) * 4096 + (b2 - 128) * 64 + (b3 - 128) < 2048) := by omega
    have q2' : ¬ ((b0 - 240) * 262144 + (b1 - 128) * 4096 + (b2 - 128) * 64 + (b3 - 128) < 65536) := by omega
    have q3 : 240 + ((b0 - 240) * 262144 + (b1 - 128) * 4096 + (b2 - 128) * 64 + (b3 - 128)) / 262144 = b0 := by omega
    have q4 : 128 + ((b0 - 240) * 262144 + (b1 - 128) * 4096 + (b2 - 128) * 64 + (b3 - 128)) / 4096 % 64 = b1 := by omega
    have q5 : 128 + ((b0 - 240) * 262144 + (b1 - 128) * 4096 + (b2 - 128) * 64 + (b3 - 128)) / 64 % 64 = b2 := by omega
    have q6 : 128 + ((b0 - 240) * 262144 + (b1 - 128) * 4096 + (b2 - 128) * 64 + (b3 - 128)) % 64 = b3 := by omega
    have hcp : utf8Cp ((b0 - 240) * 262144 + (b1 - 128) * 4096 + (b2 - 128) * 64 + (b3 - 128)) = .ok [b0, b1, b2, b3] := by
      unfold utf8Cp; rw [if_neg q1, if_neg q2, if_neg q2', if_pos c5, q3, q4, q5, q6]
    refine ⟨by unfold utf8Encode; rw [hcp, e1]; rfl, ?_⟩
    intro c hc'
    rcases List.mem_cons.mp hc' with hc' | hc'
    · rw [hc', isScalar_iff]; omega
    · exact e2 c hc'
  all_goals (intro s h; unfold utf8Decode at h; simp only [*, if_true, if_false, reduceCtorEq] at h)
  all_goals (try (split at h <;> simp only [*, if_true, if_false, reduceCtorEq] at h))

/-! ### Python `int(text)` on decimal text -/
theorem isSpace_false_of (c : Nat) (h : (48 ≤ c ∧ c ≤ 57) ∨ c = 45) : isSpace c = false := by
  simp [isSpace]; omega

theorem dropSpaces_id (s : Text) (h : ∀ c ∈ s, isSpace c = false) : dropSpaces s = s := by
  cases s with
  | nil => rfl
  | cons c r => simp [dropSpaces, h c (by simp)]

theorem strip_id (s : Text) (h : ∀ c ∈ s, isSpace c = false) : strip s = s := by
  unfold strip
  rw [dropSpaces_id s h, dropSpaces_id s.reverse (fun c hc => h c (List.mem_reverse.mp hc)), List.reverse_reverse]

theorem digitsUnderscore_digits (ds : List Nat) (h : ∀ c ∈ ds, isDigit c = true) :
    ∀ (b : Bool) (acc : Nat), (ds ≠ [] ∨ b = true) →
      digitsUnderscore 10 ds b acc = some (ds.foldl (fun a c => a * 10 + (c - 48)) acc) := by
  induction ds with
  | nil => intro b acc hb; simp at hb; simp [digitsUnderscore, hb]
  | cons c r ih =>
    intro b acc _
    have hc := (isDigit_iff c).mp (h c (by simp))
    have h95 : c ≠ 95 := by omega
    have hv : digitVal c = some (c - 48) := by unfold digitVal; rw [if_pos hc]
    have hlt : c - 48 < 10 := by omega
    unfold digitsUnderscore
    rw [if_neg h95, hv]
    simp only [hlt, if_true]
    rw [ih (fun x hx => h x (by simp [hx])) true _ (Or.inr rfl)]
    rfl

theorem pyInt_natText (n : Nat) : pyInt 10 (natText n) = .ok (n : Int) := by
  have hd := natText_digits n
  have hsp : ∀ c ∈ natText n, isSpace c = false :=
    fun c hc => isSpace_false_of c (Or.inl ((isDigit_iff c).mp (hd c hc)))
  obtain ⟨c0, r0, hc0⟩ : ∃ c r, natText n = c :: r := by
    cases hh : natText n with
    | nil => exact absurd hh (natText_ne_nil n)
    | cons c r => exact ⟨c, r, rfl⟩
  have hc0d := (isDigit_iff c0).mp (hd c0 (by rw [hc0]; simp))
  have hv := digitsUnderscore_digits (natText n) hd false 0 (Or.inl (natText_ne_nil n))
  have hdv : (natText n).foldl (fun a c => a * 10 + (c - 48)) 0 = n := digitsVal_natText n
  unfold pyInt
  rw [strip_id _ hsp]
  rw [hc0] at hv hdv ⊢
  have e1 : ¬ ((c0 :: r0).head? = some 43 ∨ (c0 :: r0).head? = some 45) := by simp; omega
  have e2 : decide ((c0 :: r0).head? = some 45) = false := by simp; omega
  simp only [if_neg e1, e2]
  simp [hv, hdv]

theorem pyInt_neg_natText (n : Nat) : pyInt 10 (45 :: natText n) = .ok (-(n : Int)) := by
  have hd := natText_digits n
  have hsp : ∀ c ∈ (45 :: natText n), isSpace c = false := by
    intro c hc
    rcases List.mem_cons.mp hc with h | h
    · exact isSpace_false_of c (Or.inr h)
    · exact isSpace_false_of c (Or.inl ((isDigit_iff c).mp (hd c h)))
  have hv := digitsUnderscore_digits (natText n) hd false 0 (Or.inl (natText_ne_nil n))
  have hdv : (natText n).foldl (fun a c => a * 10 + (c - 48)) 0 = n := digitsVal_natText n
  have hne : (natText n).isEmpty = false := by
    cases hh : natText n with
    | nil => exact absurd hh (natText_ne_nil n)
    | cons c r => rfl
  unfold pyInt
  rw [strip_id _ hsp]
  simp [hv, hdv, hne]

/-- neither `0x` nor `-0x` prefix: the text consists of digits and possibly a leading minus -/
theorem no_hex_prefix (s : Text) (h : ∀ c ∈ s, (48 ≤ c ∧ c ≤ 57) ∨ c = 45) :
    ¬ (s.take 2 = [48, 120] ∨ s.take 2 = [48, 88]) ∧ ¬ (s.take 3 = [45, 48, 120] ∨ s.take 3 = [45, 48, 88]) := by
  have k : ∀ (m x : Nat) (l : List Nat), s.take m = l → x ∈ l → (48 ≤ x ∧ x ≤ 57) ∨ x = 45 := by
    intro m x l e hx
    exact h x (List.mem_of_mem_take (by rw [e]; exact hx))
  refine ⟨?_, ?_⟩
  · rintro (e | e)
    · have := k 2 120 _ e (by simp); omega
    · have := k 2 88 _ e (by simp); omega
  · rintro (e | e)
    · have := k 3 120 _ e (by simp); omega
    · have := k 3 88 _ e (by simp); omega

theorem intText_chars (i : Int) : ∀ c ∈ intText i, (48 ≤ c ∧ c ≤ 57) ∨ c = 45 := by
  intro c hc
  unfold intText at hc
  split at hc
  · rcases List.mem_cons.mp hc with h | h
    · exact Or.inr h
    · exact Or.inl ((isDigit_iff c).mp (natText_digits _ c h))
  · exact Or.inl ((isDigit_iff c).mp (natText_digits _ c hc))

theorem pyInt_intText (i : Int) : pyInt 10 (intText i) = .ok i := by
  unfold intText
  split
  · rw [pyInt_neg_natText]; congr 1; omega
  · rw [pyInt_natText]; congr 1; omega

/-! ### fixed-width decimal fields -/
theorem num2_pad2 (n : Nat) (h : n < 100) : num2 (48 + n / 10 % 10) (48 + n % 10) = some n := by
  have d1 : isDigit (48 + n / 10 % 10) = true := by rw [isDigit_iff]; omega
  have d2 : isDigit (48 + n % 10) = true := by rw [isDigit_iff]; omega
  unfold num2
  simp only [d1, d2, Bool.and_self, if_true]
  congr 1; omega

theorem num2_pad4_hi (y : Nat) (h : y < 10000) : num2 (48 + y / 1000 % 10) (48 + y / 100 % 10) = some (y / 100) := by
  have d1 : isDigit (48 + y / 1000 % 10) = true := by rw [isDigit_iff]; omega
  have d2 : isDigit (48 + y / 100 % 10) = true := by rw [isDigit_iff]; omega
  unfold num2
  simp only [d1, d2, Bool.and_self, if_true]
  congr 1; omega

theorem num2_pad4_lo (y : Nat) : num2 (48 + y / 10 % 10) (48 + y % 10) = some (y % 100) := by
  have d1 : isDigit (48 + y / 10 % 10) = true := by rw [isDigit_iff]; omega
  have d2 : isDigit (48 + y % 10) = true := by rw [isDigit_iff]; omega
  unfold num2
  simp only [d1, d2, Bool.and_self, if_true]
  congr 1; omega

/-- the zone designator that `__str__` prints is read back as the same offset -/
theorem parseZone_zoneText (off : Int) (hm : off % 60000000 = 0)
    (hr : -86400000000 < off ∧ off < 86400000000) : parseZone (zoneText off) = some (.ok off) := by
  unfold zoneText
  simp only
  by_cases h0 : off.natAbs / 60000000 = 0
  · have : off = 0 := by omega
    subst this; simp [parseZone]
  · rw [if_neg h0]
    have hlt : off.natAbs / 60000000 < 1440 := by omega
    have hh : off.natAbs / 60000000 / 60 < 100 := by omega
    have hmm : off.natAbs / 60000000 % 60 < 100 := by omega
    have n1 := num2_pad2 _ hh
    have n2 := num2_pad2 _ hmm
    have hsum : off.natAbs / 60000000 / 60 * 60 + off.natAbs / 60000000 % 60 = off.natAbs / 60000000 := by omega
    by_cases hneg : off < 0
    · simp only [hneg, if_true, pad2, List.cons_append, List.nil_append, parseZone]
      simp only [n1, n2, Option.map, hsum, hlt, if_true]
      simp
      omega
    · simp only [hneg, if_false, pad2, List.cons_append, List.nil_append, parseZone]
      simp only [n1, n2, Option.map, hsum, hlt, if_true]
      simp
      omega

/-! ### unparsable integer text -/
theorem digitsUnderscore_chars (base : Nat) (s : Text) : ∀ (b : Bool) (acc n : Nat),
    digitsUnderscore base s b acc = some n → ∀ c ∈ s, c = 95 ∨ ∃ d, digitVal c = some d ∧ d < base := by
  induction s with
  | nil => intro b acc n _ c hc; simp at hc
  | cons x r ih =>
    intro b acc n h c hc
    unfold digitsUnderscore at h
    by_cases hx : x = 95
    · rw [if_pos hx] at h
      rcases List.mem_cons.mp hc with e | e
      · left; rw [e]; exact hx
      · cases b with
        | false => simp at h
        | true => simp only [if_true] at h; exact ih false acc n h c e
    · rw [if_neg hx] at h
      cases hd : digitVal x with
      | none => rw [hd] at h; cases h
      | some d =>
        rw [hd] at h
        simp only at h
        by_cases hlt : d < base
        · rw [if_pos hlt] at h
          rcases List.mem_cons.mp hc with e | e
          · right; rw [e]; exact ⟨d, hd, hlt⟩
          · exact ih true _ n h c e
        · rw [if_neg hlt] at h; cases h

theorem mem_tail_of_ne_head (s : Text) (c : Nat) (hc : c ∈ s) (h : s.head? ≠ some c) : c ∈ s.tail := by
  cases s with
  | nil => simp at hc
  | cons x r =>
    rcases List.mem_cons.mp hc with e | e
    · subst e; simp at h
    · simpa using e

/-- unparsable text is an error: a character that is neither alphanumeric nor a sign nor an underscore
anywhere inside the stripped text makes `int(text, base)` raise `ValueError`, for every base -/
theorem pyInt_bad_char (base : Nat) (s : Text) (c : Nat) (hc : c ∈ strip s) (hv : digitVal c = none)
    (h43 : c ≠ 43) (h45 : c ≠ 45) (h95 : c ≠ 95) : pyInt base s = .error .valueError := by
  have h48 : c ≠ 48 := by intro e; subst e; simp [digitVal] at hv
  have h120 : c ≠ 120 := by intro e; subst e; simp [digitVal] at hv
  have h88 : c ≠ 88 := by intro e; subst e; simp [digitVal] at hv
  unfold pyInt
  simp only
  generalize strip s = t at hc
  -- s1
  have hc1 : c ∈ (if t.head? = some 43 ∨ t.head? = some 45 then t.tail else t) := by
    split
    · rename_i hh
      apply mem_tail_of_ne_head t c hc
      intro e; rcases hh with hh | hh <;> (rw [e] at hh; injection hh with hh; omega)
    · exact hc
  generalize (if t.head? = some 43 ∨ t.head? = some 45 then t.tail else t) = s1 at hc1
  -- s3 from s2
  have hc2 : ∀ (s2 : Text) (q : Bool), c ∈ s2 →
      c ∈ (if (q && decide (s2.head? = some 95)) = true then s2.tail else s2) := by
    intro s2 q hm
    by_cases hq : (q && decide (s2.head? = some 95)) = true
    · rw [if_pos hq]
      apply mem_tail_of_ne_head _ c hm
      intro e
      simp only [Bool.and_eq_true, decide_eq_true_eq] at hq
      rw [e] at hq; have := hq.2; injection this with this; omega
    · rw [if_neg hq]; exact hm
  generalize hp : (decide (base = 16) && (decide (s1.take 2 = [48, 120]) || decide (s1.take 2 = [48, 88]))) = p
  have hcs2 : c ∈ (if p = true then s1.drop 2 else s1) := by
    split
    · rename_i hpt
      rw [← hp] at hpt
      simp only [Bool.and_eq_true, Bool.or_eq_true, decide_eq_true_eq] at hpt
      -- s1 = a :: b :: rest with a,b ∈ {48,120,88}
      rcases s1 with _ | ⟨a, _ | ⟨b, rest⟩⟩
      · simp at hc1
      · rcases hpt.2 with e | e <;> simp at e
      · have hab : (a = 48 ∧ (b = 120 ∨ b = 88)) := by
          rcases hpt.2 with e | e <;> simp at e <;> omega
        simp only [List.drop_succ_cons, List.drop_zero]
        rcases List.mem_cons.mp hc1 with e | e
        · omega
        · rcases List.mem_cons.mp e with e | e
          · omega
          · exact e
    · exact hc1
  have hc3 := hc2 _ p hcs2
  generalize (if (p && decide ((if p = true then s1.drop 2 else s1).head? = some 95)) = true
            then (if p = true then s1.drop 2 else s1).tail else (if p = true then s1.drop 2 else s1)) = s3 at hc3
  have hne : s3.isEmpty = false := by cases s3 <;> simp_all
  rw [hne]
  simp only [Bool.false_eq_true, if_false]
  cases hd : digitsUnderscore base s3 false 0 with
  | none => rfl
  | some n =>
    rcases digitsUnderscore_chars base s3 false 0 n hd c hc3 with e | ⟨d, e, _⟩
    · exact absurd e h95
    · rw [hv] at e; cases e

/-! ### timestamp text -/
theorem zoneText_head (off : Int) : ∃ c r, zoneText off = c :: r ∧ c ≠ 46 ∧ c ≠ 44 := by
  unfold zoneText
  simp only
  split
  · exact ⟨90, [], rfl, by decide, by decide⟩
  · split
    · exact ⟨45, _, rfl, by decide, by decide⟩
    · exact ⟨43, _, rfl, by decide, by decide⟩

/-- `timestamp(string(t)) == t` for every whole-second timestamp of years 1..9999 with a
whole-minute offset -/
theorem tsOfText_stringOfTs (t : Ts) (h0 : 0 ≤ t.loc) (h1 : t.loc ≤ maxLoc) (hs : t.loc % 1000000 = 0)
    (hm : t.off % 60000000 = 0) (hr : -86400000000 < t.off ∧ t.off < 86400000000) :
    tsOfText (stringOfTs t) = some (.ok t) := by
  obtain ⟨hv, hh, hmi, hss, hus, hloc⟩ := civilOfLoc_spec t.loc h0
  have hy : (civilOfLoc t.loc).year ≤ 9999 := (Cel.Time.locOk_iff_year t.loc h0).mp h1
  have hmicro : (civilOfLoc t.loc).micro = 0 := by
    have : (civilOfLoc t.loc).micro = ((t.loc % Cel.Time.usPerDay).toNat) % 1000000 := rfl
    rw [this]; simp only [Cel.Time.usPerDay]; omega
  obtain ⟨hy1, hmo1, hmo12, hd1, hdim⟩ := hv
  have hd31 : (civilOfLoc t.loc).day < 100 := by
    have := Cel.Time.dimL_le (Cel.Time.isLeap (civilOfLoc t.loc).year) (civilOfLoc t.loc).month
    rw [Cel.Time.daysInMonth_eq] at hdim
    omega
  obtain ⟨zc, zr, hz, hz46, hz44⟩ := zoneText_head t.off
  have hpz := parseZone_zoneText t.off hm hr
  unfold stringOfTs
  simp only [pad4, pad2, List.cons_append, List.nil_append]
  unfold tsOfText
  simp only [num2_pad4_hi _ (by omega : (civilOfLoc t.loc).year < 10000), num2_pad4_lo,
    num2_pad2 _ (by omega : (civilOfLoc t.loc).month < 100), num2_pad2 _ hd31,
    num2_pad2 _ (by omega : (civilOfLoc t.loc).hour < 100), num2_pad2 _ (by omega : (civilOfLoc t.loc).minute < 100),
    num2_pad2 _ (by omega : (civilOfLoc t.loc).second < 100)]
  rw [hz] at hpz ⊢
  have hyy : (civilOfLoc t.loc).year / 100 * 100 + (civilOfLoc t.loc).year % 100 = (civilOfLoc t.loc).year := by omega
  simp only [true_or, if_true, hz46, hz44, or_self, if_false, hpz, hyy]
  rw [hmicro] at hloc
  simp [hy1, hmo1, hmo12, hd1, hdim, hh, hmi, hss, hloc]

end Cel.Conv

namespace Cel.Time
/-! ### binary64 rounding is exact on integers below 2^53 -/
theorem rne_mul (a d : Nat) (hd : 0 < d) : rne (a * d) d = a := by
  unfold rne
  rw [Nat.mul_mod_left, Nat.mul_div_cancel a hd]
  simp [hd]

theorem bitlen_le (a k : Nat) (h : a < 2 ^ k) : bitlen a ≤ k := by
  unfold bitlen
  split
  · omega
  · rename_i hne
    have := (Nat.log2_lt hne).mpr h
    omega

theorem lt_pow_bitlen (a : Nat) : a < 2 ^ bitlen a := by
  unfold bitlen
  split
  · rename_i h; subst h; simp
  · exact Nat.lt_log2_self

theorem bitlen_mul_le (a d : Nat) : bitlen (a * d) ≤ bitlen a + bitlen d := by
  apply bitlen_le
  rw [Nat.pow_add]
  exact Nat.mul_lt_mul'' (lt_pow_bitlen a) (lt_pow_bitlen d)

theorem shiftFor_nonneg (a d : Nat) (hd : 0 < d) (h : a < 2 ^ 53) : 0 ≤ shiftFor (a * d) d := by
  have h1 := bitlen_mul_le a d
  have h2 := bitlen_le a 53 h
  unfold shiftFor
  simp only
  by_cases h0 : (53 + (bitlen d : Int) - (bitlen (a * d) : Int)) = 0
  · rw [h0]
    have : a * d * 2 ^ (0 : Int).toNat / d = a := by
      simp; rw [Nat.mul_comm, Nat.mul_div_cancel_left a hd]
    simp only [Int.le_refl, if_true, this]
    rw [if_neg (by omega)]
    exact Int.le_refl 0
  · split <;> omega

theorem rndNat_exact (a d : Nat) (hd : 0 < d) (h : a < 2 ^ 53) : (rndNat (a * d) d).trunc = (a : Int) := by
  unfold rndNat
  by_cases h0 : a * d = 0
  · have : a = 0 := by
      rcases Nat.mul_eq_zero.mp h0 with h | h
      · exact h
      · omega
    subst this; simp [Dy.trunc]
  · rw [if_neg h0]
    have hs := shiftFor_nonneg a d hd h
    simp only [hs, if_true]
    unfold rndUp Dy.trunc
    simp only
    have e : a * d * 2 ^ (shiftFor (a * d) d).toNat = (a * 2 ^ (shiftFor (a * d) d).toNat) * d := by
      rw [Nat.mul_assoc, Nat.mul_comm d, ← Nat.mul_assoc]
    rw [e, rne_mul _ _ hd]
    have hp : 0 < 2 ^ (shiftFor (a * d) d).toNat := Nat.pow_pos (by decide)
    rw [Int.tdiv_eq_ediv_of_nonneg (by exact Int.natCast_nonneg _)]
    rw [Int.natCast_mul, Int.mul_ediv_cancel _ (by omega)]

theorem rnd_exact (z : Int) (d : Nat) (hd : 0 < d) (h : z.natAbs < 2 ^ 53) : (rnd (z * d) d).trunc = z := by
  unfold rnd
  have e : (z * (d : Int)).natAbs = z.natAbs * d := by rw [Int.natAbs_mul]; simp
  rw [e]
  split
  · rename_i hneg
    have hz : z < 0 := by
      by_cases h' : z < 0
      · exact h'
      · exfalso
        have : 0 ≤ z * (d : Int) := Int.mul_nonneg (by omega) (Int.natCast_nonneg d)
        omega
    unfold Dy.neg Dy.trunc
    simp only
    have := rndNat_exact z.natAbs d hd h
    unfold Dy.trunc at this
    rw [Int.neg_tdiv, this]; omega
  · rename_i hnn
    have hz : 0 ≤ z := by
      by_cases h' : z < 0
      · exfalso
        have : z * (d : Int) < 0 := Int.mul_neg_of_neg_of_pos h' (by omega)
        omega
      · omega
    rw [rndNat_exact z.natAbs d hd h]; omega

/-- `int(timedelta.total_seconds())` is exact for whole seconds -/
theorem totalSeconds_whole (s : Int) (h : s.natAbs < 2 ^ 53) : (totalSeconds (s * 1000000)).trunc = s := by
  unfold totalSeconds
  exact rnd_exact s 1000000 (by decide) h

end Cel.Time
