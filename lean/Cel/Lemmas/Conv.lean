/-
  Helper lemmas for C10: UTF-8 (decode ∘ encode = id; whatever decodes is a genuine encoding),
  Python `int(text)` on decimal text, exactness of binary64 rounding on integers,
  fixed-width decimal fields of timestamp text.
-/
import Cel.Model.Conv
import Cel.Lemmas.Time
namespace Cel.Conv
open Cel.Time (Dy rnd natText intText digitsVal isDigit Ts)

/-! ### UTF-8 -/
theorem isCont_iff (b : Nat) : isCont b = true ↔ 0x80 ≤ b ∧ b < 0xC0 := by simp [isCont]
theorem isSurrogate_iff (c : Nat) : isSurrogate c = true ↔ 0xD800 ≤ c ∧ c ≤ 0xDFFF := by simp [isSurrogate]
theorem isScalar_iff (c : Nat) : isScalar c = true ↔ c < 0x110000 ∧ ¬ (0xD800 ≤ c ∧ c ≤ 0xDFFF) := by
  simp [isScalar, isSurrogate]; omega

/-- decoding the encoding of one scalar value followed by anything gives it back -/
theorem decode_cp (c : Nat) (h : isScalar c = true) (rest : Bytes) :
    ∃ b, utf8Cp c = .ok b ∧
      utf8Decode (b ++ rest) = (match utf8Decode rest with | .ok r => .ok (c :: r) | .error e => .error e) := by
  rw [isScalar_iff] at h
  unfold utf8Cp
  by_cases h1 : c < 0x80
  · refine ⟨[c], by simp [h1], ?_⟩
    conv => lhs; unfold utf8Decode
    simp [h1]
    cases utf8Decode rest <;> rfl
  · by_cases h2 : c < 0x800
    · refine ⟨[0xC0 + c / 64, 0x80 + c % 64], by simp [h1, h2], ?_⟩
      have a1 : ¬ (0xC0 + c / 64 < 0x80) := by omega
      have a2 : ¬ (0xC0 + c / 64 < 0xC2) := by omega
      have a3 : 0xC0 + c / 64 < 0xE0 := by omega
      have a4 : isCont (0x80 + c % 64) = true := by rw [isCont_iff]; omega
      have a5 : c / 64 * 64 + c % 64 = c := by omega
      simp [utf8Decode, a1, a2, a3, a4, a5]
      cases utf8Decode rest <;> rfl
    · by_cases h3 : c < 0x10000
      · have hs : isSurrogate c = false := by
          cases hh : isSurrogate c
          · rfl
          · rw [isSurrogate_iff] at hh; omega
        refine ⟨[0xE0 + c / 4096, 0x80 + c / 64 % 64, 0x80 + c % 64], by simp [h1, h2, h3, hs], ?_⟩
        have a1 : ¬ (0xE0 + c / 4096 < 0x80) := by omega
        have a2 : ¬ (0xE0 + c / 4096 < 0xC2) := by omega
        have a3 : ¬ (0xE0 + c / 4096 < 0xE0) := by omega
        have a3' : 0xE0 + c / 4096 < 0xF0 := by omega
        have a4 : isCont (0x80 + c / 64 % 64) = true := by rw [isCont_iff]; omega
        have a5 : isCont (0x80 + c % 64) = true := by rw [isCont_iff]; omega
        have a6 : c / 4096 * 4096 + c / 64 % 64 * 64 + c % 64 = c := by omega
        have a7 : 0x800 ≤ c := by omega
        simp [utf8Decode, a1, a2, a3, a3', a4, a5, a6, a7, hs]
        cases utf8Decode rest <;> rfl
      · have h4 : c < 0x110000 := h.1
        refine ⟨[0xF0 + c / 262144, 0x80 + c / 4096 % 64, 0x80 + c / 64 % 64, 0x80 + c % 64], by simp [h1, h2, h3, h4], ?_⟩
        have a1 : ¬ (0xF0 + c / 262144 < 0x80) := by omega
        have a2 : ¬ (0xF0 + c / 262144 < 0xC2) := by omega
        have a3 : ¬ (0xF0 + c / 262144 < 0xE0) := by omega
        have a3' : ¬ (0xF0 + c / 262144 < 0xF0) := by omega
        have a3'' : 0xF0 + c / 262144 < 0xF5 := by omega
        have a4 : isCont (0x80 + c / 4096 % 64) = true := by rw [isCont_iff]; omega
        have a5 : isCont (0x80 + c / 64 % 64) = true := by rw [isCont_iff]; omega
        have a5' : isCont (0x80 + c % 64) = true := by rw [isCont_iff]; omega
        have a6 : c / 262144 * 262144 + c / 4096 % 64 * 4096 + c / 64 % 64 * 64 + c % 64 = c := by omega
        have a7 : 0x10000 ≤ c := by omega
        simp [utf8Decode, a1, a2, a3, a3', a3'', a4, a5, a5', a6, a7, h4]
        cases utf8Decode rest <;> rfl

/-- `string(bytes(s)) == s` for every string of Unicode scalar values -/
theorem utf8_roundtrip (s : Text) (h : ∀ c ∈ s, isScalar c = true) :
    ∃ b, utf8Encode s = .ok b ∧ utf8Decode b = .ok s := by
  induction s with
  | nil => exact ⟨[], rfl, rfl⟩
  | cons c cs ih =>
    obtain ⟨r, hr1, hr2⟩ := ih (fun x hx => h x (by simp [hx]))
    obtain ⟨b, hb1, hb2⟩ := decode_cp c (h c (by simp)) r
    refine ⟨b ++ r, by simp [utf8Encode, hb1, hr1], ?_⟩
    rw [hb2, hr2]

/-- whatever decodes is the UTF-8 encoding of what it decodes to: no replacement characters,
no overlong or surrogate forms accepted, nothing skipped -/
theorem decode_genuine (b : Bytes) : ∀ s, utf8Decode b = .ok s →
    utf8Encode s = .ok b ∧ (∀ c ∈ s, isScalar c = true) := by
  induction b using utf8Decode.induct
  case case1 => intro s h; simp [utf8Decode] at h; subst h; exact ⟨rfl, by simp⟩
  case case2 b0 rest hb0 r hr ih =>
    intro s h
    unfold utf8Decode at h
    simp [hb0, hr] at h; subst h
    obtain ⟨e1, e2⟩ := ih r hr
    refine ⟨by simp [utf8Encode, utf8Cp, hb0, e1], ?_⟩
    intro c hc; simp at hc
    rcases hc with hc | hc
    · subst hc; rw [isScalar_iff]; omega
    · exact e2 c hc
  case case5 b0 h1 h2 h3 b1 r hc r1 hr ih =>
    intro s h
    unfold utf8Decode at h
    simp only [h1, h2, h3, hc, hr, if_true, if_false] at h
    injection h with h; subst h
    obtain ⟨e1, e2⟩ := ih r1 hr
    rw [isCont_iff] at hc
    have q1 : ¬ ((b0 - 192) * 64 + (b1 - 128) < 128) := by omega
    have q2 : (b0 - 192) * 64 + (b1 - 128) < 2048 := by omega
    have q3 : 192 + ((b0 - 192) * 64 + (b1 - 128)) / 64 = b0 := by omega
    have q4 : 128 + ((b0 - 192) * 64 + (b1 - 128)) % 64 = b1 := by omega
    have hcp : utf8Cp ((b0 - 192) * 64 + (b1 - 128)) = .ok [b0, b1] := by
      unfold utf8Cp; rw [if_neg q1, if_pos q2, q3, q4]
    refine ⟨by unfold utf8Encode; rw [hcp, e1]; rfl, ?_⟩
    intro c hc'
    rcases List.mem_cons.mp hc' with hc' | hc'
    · rw [hc', isScalar_iff]; omega
    · exact e2 c hc'
  case case9 b0 h1 h2 h3 h4 b1 b2 r hc r1 hr ih =>
    intro s h
    unfold utf8Decode at h
    simp only [h1, h2, h3, h4, hc, hr, if_true, if_false] at h
    injection h with h; subst h
    obtain ⟨e1, e2⟩ := ih r1 hr
    simp only [Bool.and_eq_true, isCont_iff, decide_eq_true_eq, Bool.not_eq_true', ] at hc
    obtain ⟨⟨⟨c1, c2⟩, c3⟩, c4⟩ := hc
    have c4' : ¬ (0xD800 ≤ (b0 - 224) * 4096 + (b1 - 128) * 64 + (b2 - 128) ∧ (b0 - 224) * 4096 + (b1 - 128) * 64 + (b2 - 128) ≤ 0xDFFF) := by
      intro hh; have := (isSurrogate_iff _).mpr hh; rw [this] at c4; exact absurd c4 (by simp)
    have q1 : ¬ ((b0 - 224) * 4096 + (b1 - 128) * 64 + (b2 - 128) < 128) := by omega
    have q2 : ¬ ((b0 - 224) * 4096 + (b1 - 128) * 64 + (b2 - 128) < 2048) := by omega
    have q2' : (b0 - 224) * 4096 + (b1 - 128) * 64 + (b2 - 128) < 65536 := by omega
    have q3 : 224 + ((b0 - 224) * 4096 + (b1 - 128) * 64 + (b2 - 128)) / 4096 = b0 := by omega
    have q4 : 128 + ((b0 - 224) * 4096 + (b1 - 128) * 64 + (b2 - 128)) / 64 % 64 = b1 := by omega
    have q5 : 128 + ((b0 - 224) * 4096 + (b1 - 128) * 64 + (b2 - 128)) % 64 = b2 := by omega
    have hcp : utf8Cp ((b0 - 224) * 4096 + (b1 - 128) * 64 + (b2 - 128)) = .ok [b0, b1, b2] := by
      unfold utf8Cp; rw [if_neg q1, if_neg q2, if_pos q2', c4, q3, q4, q5]; rfl
    refine ⟨by unfold utf8Encode; rw [hcp, e1]; rfl, ?_⟩
    intro c hc'
    rcases List.mem_cons.mp hc' with hc' | hc'
    · rw [hc', isScalar_iff]; omega
    · exact e2 c hc'
  case case13 b0 h1 h2 h3 h4 h5 b1 b2 b3 r hc r1 hr ih =>
    intro s h
    unfold utf8Decode at h
    simp only [h1, h2, h3, h4, h5, hc, hr, if_true, if_false] at h
    injection h with h; subst h
    obtain ⟨e1, e2⟩ := ih r1 hr
    simp only [Bool.and_eq_true, isCont_iff, decide_eq_true_eq] at hc
    obtain ⟨⟨⟨⟨c1, c2⟩, c3⟩, c4⟩, c5⟩ := hc
    have q1 : ¬ ((b0 - 240) * 262144 + (b1 - 128) * 4096 + (b2 - 128) * 64 + (b3 - 128) < 128) := by omega
    have q2 : ¬ ((b0 - 240) * 262144 + (b1 - 128) * 4096 + (b2 - 128) * 64 + (b3 - 128) < 2048) := by omega
    have q2' : ¬ ((b0 - 240) * 262144 + (b1 - 128) * 4096 + (b2 - 128) * 64 + (b3 - 128) < 65536) := by omega
    have q3 : 240 + ((b0 - 240) * 262144 + (b1 - 128) * 4096 + (b2 - 128) * 64 + (b3 - 128)) / 262144 = b0 := by omega
    have q4 : 128 + ((b0 - 240) * 262144 + (b1 - 128) * 4096 + (b2 - 128) * 64 + (b3 - 128)) / 4096 % 64 = b1 := by omega
    have q5 : 128 + ((b0 - 240) * 262144 + (b1 - 128) * 4096 + (b2 - 128) * 64 + (b3 - 128)) / 64 % 64 = b2 := by omega
    have q6 : 128 + ((b0 - 240) * 262144 + (b1 - 128) * 4096 + (b2 - 128) * 64 + (b3 - 128)) % 64 = b3 := by omega
    have hcp : utf8Cp ((b0 - 240) * 262144 + (b1 - 128) * 4096 + (b2 - 128) * 64 + (b3 - 128)) = .ok [b0, b1, b2, b3] := by
      unfold utf8Cp; rw [if_neg q1, if_neg q2, if_neg q2', if_pos c5, q3, q4, q5, q6]
    refine ⟨by unfold utf8Encode; rw [hcp, e1]; rfl, ?_⟩
    intro c hc'
    rcases List.mem_cons.mp hc' with hc' | hc'
    · rw [hc', isScalar_iff]; omega
    · exact e2 c hc'
  all_goals (intro s h; unfold utf8Decode at h; simp only [*, if_true, if_false, reduceCtorEq] at h)
  all_goals (try (split at h <;> simp only [*, if_true, if_false, reduceCtorEq] at h))

end Cel.Conv
