/-
  Lemmas for the regular-expression matcher of Cel.Model.Coll: the declarative matching
  relation `Matches`, soundness and completeness of `ends`, correctness of `searchM`.
-/
import Cel.Model.Coll
namespace Cel.Coll

/-- `Matches s r i j`: the regular expression `r` matches the slice `s[i..j)` of the text `s`
(the declarative semantics: no algorithmic content).  `bol`/`eol` are the text anchors. -/
inductive Matches (s : List Nat) : Re → Nat → Nat → Prop
  | eps (i : Nat) : Matches s .eps i i
  | chr {c i} : s[i]? = some c → Matches s (.chr c) i (i+1)
  | any {c i} : s[i]? = some c → c ≠ 10 → Matches s .any i (i+1)
  | cls {neg rs c i} : s[i]? = some c → (inCls rs c != neg) = true → Matches s (.cls neg rs) i (i+1)
  | cat {a b i j k} : Matches s a i j → Matches s b j k → Matches s (.cat a b) i k
  | altL {a b i j} : Matches s a i j → Matches s (.alt a b) i j
  | altR {a b i j} : Matches s b i j → Matches s (.alt a b) i j
  | starNil {a} (i : Nat) : Matches s (.star a) i i
  | starCons {a i j k} : Matches s a i j → Matches s (.star a) j k → Matches s (.star a) i k
  | plus {a i j k} : Matches s a i j → Matches s (.star a) j k → Matches s (.plus a) i k
  | optNone {a} (i : Nat) : Matches s (.opt a) i i
  | optSome {a i j} : Matches s a i j → Matches s (.opt a) i j
  | bol : Matches s .bol 0 0
  | eol : Matches s .eol s.length s.length

theorem mem_union {a b : List Nat} {x : Nat} : x ∈ union a b ↔ x ∈ a ∨ x ∈ b := by
  simp [union, List.mem_eraseDups]

theorem mem_unionMap {f : Nat → List Nat} {l : List Nat} {x : Nat} :
    x ∈ unionMap f l ↔ ∃ y, y ∈ l ∧ x ∈ f y := by
  simp [unionMap, List.mem_eraseDups, List.mem_flatMap]

theorem subset_closure (f : Nat → List Nat) (n : Nat) (set : List Nat) {x : Nat} (h : x ∈ set) :
    x ∈ closure f n set := by
  induction n generalizing set with
  | zero => simpa [closure] using h
  | succ n ih => exact ih _ (mem_union.mpr (Or.inl h))

/-- every element of the closure is reachable from the seed by `f`-steps; `P` is any property
preserved by steps -/
theorem closure_induct (f : Nat → List Nat) (P : Nat → Prop) (n : Nat) (set : List Nat)
    (h0 : ∀ x, x ∈ set → P x) (hstep : ∀ x y, P x → y ∈ f x → P y) :
    ∀ x, x ∈ closure f n set → P x := by
  induction n generalizing set with
  | zero => simpa [closure] using h0
  | succ n ih =>
    apply ih
    intro x hx
    rcases mem_union.mp hx with h | h
    · exact h0 x h
    · obtain ⟨y, hy, hxy⟩ := mem_unionMap.mp h
      exact hstep y x (h0 y hy) hxy

/-- soundness: every end position computed is a match -/
theorem ends_sound (s : List Nat) : ∀ (r : Re) (i j : Nat), j ∈ ends s r i → Matches s r i j := by
  intro r
  induction r with
  | eps => intro i j h; simp [ends] at h; subst h; exact .eps _
  | chr c =>
    intro i j h
    simp only [ends] at h
    split at h
    · simp at h; subst h; exact .chr ‹_›
    · simp at h
  | any =>
    intro i j h
    simp only [ends] at h
    split at h
    · rename_i c hc
      split at h
      · simp at h; subst h; exact .any hc ‹_›
      · simp at h
    · simp at h
  | cls neg rs =>
    intro i j h
    simp only [ends] at h
    split at h
    · rename_i c hc
      split at h
      · simp at h; subst h; exact .cls hc ‹_›
      · simp at h
    · simp at h
  | cat a b iha ihb =>
    intro i k h
    simp only [ends] at h
    obtain ⟨j, hj, hk⟩ := mem_unionMap.mp h
    exact .cat (iha _ _ hj) (ihb _ _ hk)
  | alt a b iha ihb =>
    intro i j h
    simp only [ends] at h
    rcases mem_union.mp h with h | h
    · exact .altL (iha _ _ h)
    · exact .altR (ihb _ _ h)
  | star a iha =>
    intro i k h
    simp only [ends] at h
    -- P x := ∀ k, Matches (star a) x k → Matches (star a) i k   (prepend-closed), used backwards:
    -- we show every closure element x satisfies `Matches (star a) i x`
    have key : ∀ x, x ∈ closure (fun j => ends s a j) (s.length + 1) [i] → Matches s (.star a) i x := by
      apply closure_induct (fun j => ends s a j) (fun x => Matches s (.star a) i x)
      · intro x hx; simp at hx; subst hx; exact .starNil _
      · intro x y hx hy
        exact star_snoc hx (iha _ _ hy)
    exact key k h
  | plus a iha =>
    intro i k h
    simp only [ends] at h
    have key : ∀ x, x ∈ closure (fun j => ends s a j) (s.length + 1) (ends s a i) →
        ∃ j, Matches s a i j ∧ Matches s (.star a) j x := by
      apply closure_induct (fun j => ends s a j) (fun x => ∃ j, Matches s a i j ∧ Matches s (.star a) j x)
      · intro x hx; exact ⟨x, iha _ _ hx, .starNil _⟩
      · intro x y ⟨j, h1, h2⟩ hy
        exact ⟨j, h1, star_snoc h2 (iha _ _ hy)⟩
    obtain ⟨j, h1, h2⟩ := key k h
    exact .plus h1 h2
  | opt a iha =>
    intro i j h
    simp only [ends] at h
    rcases mem_union.mp h with h | h
    · simp at h; subst h; exact .optNone _
    · exact .optSome (iha _ _ h)
  | bol =>
    intro i j h
    simp only [ends] at h
    split at h
    · rename_i h0; simp at h; subst h; subst h0; exact .bol
    · simp at h
  | eol =>
    intro i j h
    simp only [ends] at h
    split at h
    · rename_i h0; simp at h; subst h; subst h0; exact .eol
    · simp at h
where
  star_snoc {s : List Nat} {a : Re} {i x y : Nat} (h : Matches s (.star a) i x) (hy : Matches s a x y) :
      Matches s (.star a) i y := by
    generalize hr : Re.star a = r at h
    induction h with
    | starNil i => cases hr; exact .starCons hy (.starNil _)
    | starCons h1 _ _ ih2 => cases hr; exact .starCons h1 (ih2 hy rfl)
    | _ => cases hr

/-- a match never moves left, and stays inside the text if it starts inside -/
theorem matches_le {s : List Nat} {r : Re} {i j : Nat} (h : Matches s r i j) :
    i ≤ j ∧ (i ≤ s.length → j ≤ s.length) := by
  induction h with
  | eps => exact ⟨Nat.le_refl _, id⟩
  | chr hc | any hc _ | cls hc _ =>
    have := (List.getElem?_eq_some_iff.mp hc).1
    exact ⟨Nat.le_succ _, fun _ => this⟩
  | cat _ _ ih1 ih2 => exact ⟨Nat.le_trans ih1.1 ih2.1, fun h => ih2.2 (ih1.2 h)⟩
  | altL _ ih | altR _ ih | optSome _ ih => exact ih
  | starNil | optNone => exact ⟨Nat.le_refl _, id⟩
  | starCons _ _ ih1 ih2 | plus _ _ ih1 ih2 => exact ⟨Nat.le_trans ih1.1 ih2.1, fun h => ih2.2 (ih1.2 h)⟩
  | bol => exact ⟨Nat.le_refl _, id⟩
  | eol => exact ⟨Nat.le_refl _, id⟩

/-- `n` strictly progressing iterations of `a` from `i` to `k` -/
inductive StarN (s : List Nat) (a : Re) : Nat → Nat → Nat → Prop
  | zero (i : Nat) : StarN s a 0 i i
  | succ {n i j k} : Matches s a i j → i < j → StarN s a n j k → StarN s a (n+1) i k

/-- empty iterations can be dropped -/
theorem star_to_starN {s : List Nat} {a : Re} {i k : Nat} (h : Matches s (.star a) i k) :
    ∃ n, StarN s a n i k := by
  generalize hr : Re.star a = r at h
  induction h with
  | starNil i => exact ⟨0, .zero _⟩
  | starCons h1 _ _ ih2 =>
    cases hr
    obtain ⟨n, hn⟩ := ih2 rfl
    rcases Nat.lt_or_ge _ _ with hlt | hge
    · exact ⟨n+1, .succ h1 hlt hn⟩
    · have := (matches_le h1).1
      have heq := Nat.le_antisymm this hge
      subst heq
      exact ⟨n, hn⟩
  | _ => cases hr

theorem starN_bound {s : List Nat} {a : Re} {n i k : Nat} (h : StarN s a n i k) :
    i + n ≤ k ∧ (i ≤ s.length → k ≤ s.length) ∧ (s.length < i → n = 0) := by
  induction h with
  | zero => exact ⟨Nat.le_refl _, id, fun _ => rfl⟩
  | succ h1 hlt _ ih =>
    have hm := matches_le h1
    refine ⟨by omega, fun h => ih.2.1 (hm.2 h), ?_⟩
    intro hgt
    -- a progressing step needs a character at position i
    exfalso
    exact no_progress_outside h1 hlt hgt
where
  no_progress_outside {s : List Nat} {r : Re} {i j : Nat} (h : Matches s r i j) (hlt : i < j)
      (hgt : s.length < i) : False := by
    induction h with
    | eps => omega
    | chr hc | any hc _ | cls hc _ =>
      have := (List.getElem?_eq_some_iff.mp hc).1
      omega
    | cat h1 h2 ih1 ih2 =>
      have m1 := (matches_le h1).1
      have m2 := (matches_le h2).1
      rcases Nat.lt_or_ge _ _ with hl | hg
      · exact ih1 hl hgt
      · exact ih2 (by omega) (by omega)
    | altL _ ih | altR _ ih | optSome _ ih => exact ih hlt hgt
    | starNil | optNone => omega
    | starCons h1 h2 ih1 ih2 | plus h1 h2 ih1 ih2 =>
      have m1 := (matches_le h1).1
      have m2 := (matches_le h2).1
      rcases Nat.lt_or_ge _ _ with hl | hg
      · exact ih1 hl hgt
      · exact ih2 (by omega) (by omega)
    | bol => omega
    | eol => omega

/-- `n` progressing steps are found by `n` rounds of the closure -/
theorem starN_in_closure {s : List Nat} {a : Re} (f : Nat → List Nat)
    (hf : ∀ i j, Matches s a i j → j ∈ f i) {n i k : Nat} (h : StarN s a n i k) :
    ∀ (fuel : Nat) (set : List Nat), i ∈ set → n ≤ fuel → k ∈ closure f fuel set := by
  induction h with
  | zero i => intro fuel set hi _; exact subset_closure f fuel set hi
  | succ h1 _ _ ih =>
    intro fuel set hi hn
    cases fuel with
    | zero => omega
    | succ fuel =>
      simp only [closure]
      apply ih
      · exact mem_union.mpr (Or.inr (mem_unionMap.mpr ⟨_, hi, hf _ _ h1⟩))
      · omega

theorem star_complete {s : List Nat} {a : Re}
    (iha : ∀ i j, Matches s a i j → j ∈ ends s a i) {i k : Nat} (set : List Nat) (hi : i ∈ set)
    (h : Matches s (.star a) i k) : k ∈ closure (fun j => ends s a j) (s.length + 1) set := by
  obtain ⟨n, hn⟩ := star_to_starN h
  apply starN_in_closure (fun j => ends s a j) iha hn _ _ hi
  have hb := starN_bound hn
  rcases Nat.lt_or_ge s.length i with hgt | hle
  · have := hb.2.2 hgt; omega
  · have := hb.2.1 hle; omega

/-- completeness: every match is computed -/
theorem ends_complete (s : List Nat) : ∀ (r : Re) (i j : Nat), Matches s r i j → j ∈ ends s r i := by
  intro r
  induction r with
  | eps => intro i j h; cases h; simp [ends]
  | chr c => intro i j h; cases h; simp [ends, *]
  | any => intro i j h; cases h; rename_i c hc hne; simp [ends, hc, hne]
  | cls neg rs =>
    intro i j h; cases h
    simp_all [ends]
  | cat a b iha ihb =>
    intro i k h; cases h; rename_i j h1 h2
    simp only [ends]
    exact mem_unionMap.mpr ⟨j, iha _ _ h1, ihb _ _ h2⟩
  | alt a b iha ihb =>
    intro i j h
    simp only [ends]
    cases h with
    | altL h => exact mem_union.mpr (Or.inl (iha _ _ h))
    | altR h => exact mem_union.mpr (Or.inr (ihb _ _ h))
  | star a iha =>
    intro i k h
    simp only [ends]
    exact star_complete iha [i] (by simp) h
  | plus a iha =>
    intro i k h
    cases h; rename_i j h1 h2
    simp only [ends]
    exact star_complete iha _ (iha _ _ h1) h2
  | opt a iha =>
    intro i j h
    simp only [ends]
    cases h with
    | optNone => exact mem_union.mpr (Or.inl (by simp))
    | optSome h => exact mem_union.mpr (Or.inr (iha _ _ h))
  | bol => intro i j h; cases h; simp [ends]
  | eol => intro i j h; cases h; simp [ends]

theorem ends_iff (s : List Nat) (r : Re) (i j : Nat) : j ∈ ends s r i ↔ Matches s r i j :=
  ⟨ends_sound s r i j, ends_complete s r i j⟩

theorem searchM_iff (r : Re) (s : List Nat) :
    searchM r s = true ↔ ∃ i j, i ≤ s.length ∧ Matches s r i j := by
  simp only [searchM, List.any_eq_true, List.mem_range]
  constructor
  · rintro ⟨i, hi, hne⟩
    cases hl : ends s r i with
    | nil => simp [hl] at hne
    | cons j rest =>
      exact ⟨i, j, by omega, ends_sound s r i j (by simp [hl])⟩
  · rintro ⟨i, j, hi, hm⟩
    refine ⟨i, by omega, ?_⟩
    have := ends_complete s r i j hm
    cases hl : ends s r i with
    | nil => simp [hl] at this
    | cons _ _ => simp

end Cel.Coll
