/-
  Cel.Lemmas.Eval — helper lemmas for C03: the laws the primitive semantics must obey (`PrimLaws`),
  facts about `PyM` binds, `catchH`, `resultC`, the logical operators on values, cleanliness of values,
  and the two auxiliary inductions over all expressions:
    * `evalC_caught`  — the transpiled program only raises classes `result()` converts,
    * `evalC_clean`   — on `noErrVal` expressions the transpiled program never yields an error *value*.
-/
import Cel.Model.PrimD
namespace Cel

/-! ### `PyM` plumbing -/

theorem bind_eq_ok {α β} (r : PyM α) (f : α → PyM β) (w : β) :
    (r >>= f) = .ok w ↔ ∃ v, r = .ok v ∧ f v = .ok w := by
  cases r <;> simp [bind, Except.bind]

theorem bind_eq_error {α β} (r : PyM α) (f : α → PyM β) (c : Exc) :
    (r >>= f) = .error c ↔ r = .error c ∨ ∃ v, r = .ok v ∧ f v = .error c := by
  cases r <;> simp [bind, Except.bind]

/-- `c` is one of the classes `result()` converts -/
def Caught (c : Exc) : Prop := c ∈ resultCaughtC
instance (c : Exc) : Decidable (Caught c) := by unfold Caught; exact inferInstance

theorem caught_typeError : Caught .typeError := by decide
theorem caught_keyError : Caught .keyError := by decide
theorem caught_attributeError : Caught .attributeError := by decide
theorem caught_valueError : Caught .valueError := by decide
theorem not_caught_other : ¬ Caught .other := by decide
theorem not_caught_celEval : ¬ Caught .celEval := by decide

theorem resultC_ok (v : Val) : resultC (.ok v) = .ok v := rfl
theorem resultC_caught {c : Exc} (h : Caught c) : resultC (.error c) = .ok .err := by
  unfold Caught at h; simp [resultC, h]
theorem resultC_error {r : PyM Val} {c : Exc} (h : resultC r = .error c) : r = .error c ∧ ¬ Caught c := by
  cases r with
  | ok v => simp [resultC] at h
  | error d =>
    unfold Caught
    by_cases hd : d ∈ resultCaughtC
    · simp [resultC, hd] at h
    · simp [resultC, hd] at h; subst h; exact ⟨rfl, hd⟩

/-! ### operators on values -/

theorem vor_error {x y : Val} {c : Exc} (h : vor x y = .error c) : c = .typeError := by
  unfold vor at h; split at h
  · cases h; rfl
  · split at h
    · split at h <;> cases h
    · split at h
      · split at h <;> cases h
      · cases h
theorem vand_error {x y : Val} {c : Exc} (h : vand x y = .error c) : c = .typeError := by
  unfold vand at h; split at h
  · cases h; rfl
  · split at h
    · split at h <;> cases h
    · split at h
      · split at h <;> cases h
      · cases h
theorem vcond_error {x y z : Val} {c : Exc} (h : vcond x y z = .error c) : c = .typeError := by
  unfold vcond at h; split at h
  · cases h; rfl
  · cases h

theorem catchH_logical_ok (r : PyM Val) (hr : ∀ c, r = .error c → c = .typeError) :
    ∃ v, catchH HI.logical r = .ok v := by
  cases r with
  | ok v => exact ⟨v, rfl⟩
  | error c => have := hr c rfl; subst this; exact ⟨.err, rfl⟩

/-! ### cleanliness -/

theorem clean_not_err {v : Val} (h : v.clean = true) : v ≠ .err := by
  intro hv; subst hv; simp [Val.clean] at h

theorem cleanL_cons {v : Val} {vs : List Val} : Val.cleanL (v :: vs) = true ↔ v.clean = true ∧ Val.cleanL vs = true := by
  simp [Val.cleanL]

theorem firstErr_of_cleanL : ∀ {vs : List Val}, Val.cleanL vs = true → firstErr vs = false
  | [], _ => rfl
  | v :: vs, h => by
      rw [cleanL_cons] at h
      have := firstErr_of_cleanL h.2
      cases v <;> simp_all [firstErr, Val.isErr, Val.clean]

theorem lookup_clean : ∀ {env : Env} {x : String} {v : Val}, env.clean = true → env.lookup x = some v → v.clean = true
  | [], _, _, _, h => by simp [Env.lookup] at h
  | (n, w) :: rest, x, v, hc, h => by
      simp [Env.clean] at hc
      unfold Env.lookup at h
      split at h
      · cases h; exact hc.1
      · exact lookup_clean hc.2 h

theorem bind_clean {env : Env} {x : String} {v : Val} (he : env.clean = true) (hv : v.clean = true) :
    (env.bind x v).clean = true := by
  simp [Env.bind, Env.clean, he, hv]

theorem mapGet_clean : ∀ {ks vs : List Val} {f : String} {x : Val}, Val.cleanL vs = true → mapGet ks vs f = some x → x.clean = true
  | [], _, _, _, _, h => by simp [mapGet] at h
  | _ :: _, [], _, _, _, h => by simp [mapGet] at h
  | k :: ks, v :: vs, f, x, hc, h => by
      rw [cleanL_cons] at hc
      simp only [mapGet] at h
      split at h
      · cases h; exact hc.1
      · exact mapGet_clean hc.2 h

/-! ### primitive laws -/

def strictOp (S : Sem) : PrimOp → Bool
  | .un _ => true
  | .bin _ => true
  | .index => true
  | .mkMap => false
  | .fn f => S.strictFn f

def errSourceOp : PrimOp → Bool
  | .bin .in_ => true
  | .fn f => errSourceFn f
  | _ => false

def boolOp : PrimOp → Bool
  | .un .not => true
  | .bin op => op == .lt || op == .le || op == .gt || op == .ge || op == .eq || op == .ne || op == .in_
  | _ => false

/-- The facts about `operator.*` / `celtypes` / `base_functions` the induction needs. Each is measured on the
live primitives over a value pool by the check (`c03.py`, cases of kind `prim` and `law`). -/
structure PrimLaws (S : Sem) : Prop where
  /-- primitives raise only classes that `result()` converts (D8 was a violation of this) -/
  caught : ∀ op args c, S.prim op args = .error c → Caught c
  /-- operators, indexing and the strict functions map an error-object operand to an error -/
  strict : ∀ op args v, strictOp S op = true → firstErr args = true → S.prim op args = .ok v → v = .err
  /-- results are error objects or contain none -/
  cleanOut : ∀ op args v, Val.cleanL args = true → S.prim op args = .ok v → v = .err ∨ v.clean = true
  /-- only `in` and `matches` return an error *object* for error-free operands -/
  noErrOut : ∀ op args, errSourceOp op = false → Val.cleanL args = true → S.prim op args ≠ .ok .err
  /-- relations, `in` and `!` return a `BoolType` (or an error) -/
  boolOut : ∀ op args v, boolOp op = true → S.prim op args = .ok v → v = .err ∨ v.isBool = true
  /-- iterating a non-iterable raises `TypeError`, nothing else is raised -/
  iterError : ∀ v c, S.iter v = .error c → c = .typeError
  /-- an error object is not iterable -/
  iterErr : ∀ elems, S.iter .err ≠ .ok elems
  iterClean : ∀ v elems, v.clean = true → S.iter v = .ok elems → Val.cleanL elems = true
  /-- `BoolType(x)`: identity on `BoolType`, an error for an error object, otherwise a `BoolType` or a caught error -/
  toBoolBool : ∀ b, S.toBool (.bool b) = .ok (.bool b)
  toBoolErr : ∀ w, S.toBool .err ≠ .ok w
  toBoolCaught : ∀ v c, S.toBool v = .error c → Caught c
  toBoolOut : ∀ v w, S.toBool v = .ok w → w.isBool = true

theorem PrimLaws.cleanOf {S : Sem} (P : PrimLaws S) {op : PrimOp} {args : List Val} {v : Val}
    (hs : errSourceOp op = false) (ha : Val.cleanL args = true) (h : S.prim op args = .ok v) : v.clean = true := by
  rcases P.cleanOut op args v ha h with rfl | hc
  · exact absurd h (P.noErrOut op args hs ha)
  · exact hc

/-! ### list helpers under a predicate -/

theorem mapMV_error {f : Val → PyM Val} {Q : Exc → Prop} (hf : ∀ v c, f v = .error c → Q c) :
    ∀ {xs : List Val} {c : Exc}, mapMV f xs = .error c → Q c
  | [], c, h => by simp [mapMV] at h
  | x :: xs, c, h => by
      simp only [mapMV] at h
      rcases (bind_eq_error _ _ _).1 h with h1 | ⟨r, _, h2⟩
      · exact hf _ _ h1
      · rcases (bind_eq_error _ _ _).1 h2 with h3 | ⟨rs, _, h4⟩
        · exact mapMV_error hf h3
        · cases h4

theorem filterMV_error {f : Val → PyM Val} {Q : Exc → Prop} (hf : ∀ v c, f v = .error c → Q c) :
    ∀ {xs : List Val} {c : Exc}, filterMV f xs = .error c → Q c
  | [], c, h => by simp [filterMV] at h
  | x :: xs, c, h => by
      simp only [filterMV] at h
      rcases (bind_eq_error _ _ _).1 h with h1 | ⟨r, _, h2⟩
      · exact hf _ _ h1
      · rcases (bind_eq_error _ _ _).1 h2 with h3 | ⟨rs, _, h4⟩
        · exact filterMV_error hf h3
        · cases h4

theorem countMV_error {f : Val → PyM Val} {Q : Exc → Prop} (hf : ∀ v c, f v = .error c → Q c) :
    ∀ {xs : List Val} {c : Exc}, countMV f xs = .error c → Q c
  | [], c, h => by simp [countMV] at h
  | x :: xs, c, h => by
      simp only [countMV] at h
      rcases (bind_eq_error _ _ _).1 h with h1 | ⟨r, _, h2⟩
      · exact hf _ _ h1
      · rcases (bind_eq_error _ _ _).1 h2 with h3 | ⟨rs, _, h4⟩
        · exact countMV_error hf h3
        · cases h4

theorem catchH_logical_error {r : PyM Val} {c : Exc} (h : catchH HI.logical r = .error c) : r = .error c ∧ c ≠ .typeError := by
  cases r with
  | ok v => simp [catchH] at h
  | error d =>
    cases d <;> simp [catchH, HI.logical] at h <;> subst h <;> exact ⟨rfl, by decide⟩

theorem foldAnd_error : ∀ {vs : List Val} {acc : Val} {c : Exc}, foldAnd acc vs = .error c → False
  | [], _, _, h => by simp [foldAnd] at h
  | v :: vs, acc, c, h => by
      simp only [foldAnd] at h
      rcases (bind_eq_error _ _ _).1 h with h1 | ⟨a, _, h2⟩
      · have := catchH_logical_error h1
        exact this.2 (vand_error this.1)
      · exact foldAnd_error h2

theorem foldOr_error : ∀ {vs : List Val} {acc : Val} {c : Exc}, foldOr acc vs = .error c → False
  | [], _, _, h => by simp [foldOr] at h
  | v :: vs, acc, c, h => by
      simp only [foldOr] at h
      rcases (bind_eq_error _ _ _).1 h with h1 | ⟨a, _, h2⟩
      · have := catchH_logical_error h1
        exact this.2 (vor_error this.1)
      · exact foldOr_error h2

/-! ### the transpiled program raises only classes `result()` converts -/

theorem resultC_bind_error {r : PyM Val} {f : Val → PyM Val} {c : Exc} (hr : ∀ d, r = .error d → Caught d)
    (h : (resultC r >>= f) = .error c) : ∃ v, f v = .error c := by
  rcases (bind_eq_error _ _ _).1 h with h1 | ⟨v, _, h2⟩
  · have := resultC_error h1
    exact absurd (hr _ this.1) this.2
  · exact ⟨v, h2⟩

mutual
theorem evalC_caught (S : Sem) (P : PrimLaws S) : (e : Expr) → (env : Env) → (c : Exc) → evalC S e env = .error c → Caught c
  | .lit v, env, c, h => by simp [evalC] at h
  | .badlit, env, c, h => by simp [evalC] at h; subst h; exact caught_valueError
  | .ident x, env, c, h => by
      simp only [evalC] at h
      split at h
      · cases h
      · split at h
        · cases h
        · cases h; exact caught_keyError
  | .un op a, env, c, h => by
      simp only [evalC] at h
      rcases (bind_eq_error _ _ _).1 h with h1 | ⟨v, _, h2⟩
      · exact evalC_caught S P a env c h1
      · exact P.caught _ _ _ h2
  | .bin op a b, env, c, h => by
      simp only [evalC] at h
      rcases (bind_eq_error _ _ _).1 h with h1 | ⟨v, _, h2⟩
      · exact evalC_caught S P a env c h1
      · rcases (bind_eq_error _ _ _).1 h2 with h3 | ⟨w, _, h4⟩
        · exact evalC_caught S P b env c h3
        · exact P.caught _ _ _ h4
  | .idx a b, env, c, h => by
      simp only [evalC] at h
      rcases (bind_eq_error _ _ _).1 h with h1 | ⟨v, _, h2⟩
      · exact evalC_caught S P a env c h1
      · rcases (bind_eq_error _ _ _).1 h2 with h3 | ⟨w, _, h4⟩
        · exact evalC_caught S P b env c h3
        · exact P.caught _ _ _ h4
  | .sel a f, env, c, h => by
      simp only [evalC] at h
      rcases (bind_eq_error _ _ _).1 h with h1 | ⟨v, _, h2⟩
      · exact evalC_caught S P a env c h1
      · unfold selectC at h2
        split at h2
        · split at h2
          · cases h2
          · cases h2; exact caught_keyError
        · cases h2; exact caught_attributeError
  | .or a b, env, c, h => by
      simp only [evalC] at h
      obtain ⟨x, hx⟩ := resultC_bind_error (evalC_caught S P a env) h
      obtain ⟨y, hy⟩ := resultC_bind_error (evalC_caught S P b env) hx
      rw [vor_error hy]; exact caught_typeError
  | .and a b, env, c, h => by
      simp only [evalC] at h
      obtain ⟨x, hx⟩ := resultC_bind_error (evalC_caught S P a env) h
      obtain ⟨y, hy⟩ := resultC_bind_error (evalC_caught S P b env) hx
      rw [vand_error hy]; exact caught_typeError
  | .cond a x y, env, c, h => by
      simp only [evalC] at h
      obtain ⟨v1, h1⟩ := resultC_bind_error (evalC_caught S P a env) h
      obtain ⟨v2, h2⟩ := resultC_bind_error (evalC_caught S P x env) h1
      obtain ⟨v3, h3⟩ := resultC_bind_error (evalC_caught S P y env) h2
      rw [vcond_error h3]; exact caught_typeError
  | .list xs, env, c, h => by
      simp only [evalC] at h
      rcases (bind_eq_error _ _ _).1 h with h1 | ⟨v, _, h2⟩
      · exact evalCs_caught S P xs env c h1
      · cases h2
  | .map xs, env, c, h => by
      simp only [evalC] at h
      rcases (bind_eq_error _ _ _).1 h with h1 | ⟨v, _, h2⟩
      · exact evalCs_caught S P xs env c h1
      · exact P.caught _ _ _ h2
  | .call f xs, env, c, h => by
      simp only [evalC] at h
      rcases (bind_eq_error _ _ _).1 h with h1 | ⟨v, _, h2⟩
      · exact evalCs_caught S P xs env c h1
      · split at h2
        · cases h2
        · exact P.caught _ _ _ h2
  | .mcall a f xs, env, c, h => by
      simp only [evalC] at h
      rcases (bind_eq_error _ _ _).1 h with h1 | ⟨o, _, h2⟩
      · exact evalC_caught S P a env c h1
      · rcases (bind_eq_error _ _ _).1 h2 with h3 | ⟨v, _, h4⟩
        · exact evalCs_caught S P xs env c h3
        · split at h4
          · cases h4
          · exact P.caught _ _ _ h4
  | .macro k a x body, env, c, h => by
      simp only [evalC] at h
      rcases (bind_eq_error _ _ _).1 h with h1 | ⟨recv, _, h2⟩
      · exact evalC_caught S P a env c h1
      · rcases (bind_eq_error _ _ _).1 h2 with h3 | ⟨elems, _, h4⟩
        · rw [P.iterError _ _ h3]; exact caught_typeError
        · have hb : ∀ v d, evalC S body (env.bind x v) = .error d → Caught d :=
            fun v d => evalC_caught S P body (env.bind x v) d
          have hrb : ∀ v d, resultC (evalC S body (env.bind x v)) = .error d → Caught d := by
            intro v d hd
            have := resultC_error hd
            exact absurd (hb v d this.1) this.2
          cases k with
          | map =>
              simp only at h4
              rcases (bind_eq_error _ _ _).1 h4 with h5 | ⟨rs, _, h6⟩
              · exact mapMV_error (Q := Caught) hb h5
              · cases h6
          | filter =>
              simp only at h4
              rcases (bind_eq_error _ _ _).1 h4 with h5 | ⟨rs, _, h6⟩
              · exact filterMV_error (Q := Caught) hb h5
              · cases h6
          | existsOne =>
              simp only at h4
              rcases (bind_eq_error _ _ _).1 h4 with h5 | ⟨rs, _, h6⟩
              · exact countMV_error (Q := Caught) hb h5
              · cases h6
          | all =>
              simp only at h4
              rcases (bind_eq_error _ _ _).1 h4 with h5 | ⟨rs, _, h6⟩
              · exact mapMV_error (Q := Caught) hrb h5
              · rcases (bind_eq_error _ _ _).1 h6 with h7 | ⟨r, _, h8⟩
                · exact (foldAnd_error h7).elim
                · exact P.toBoolCaught _ _ h8
          | exists_ =>
              simp only at h4
              rcases (bind_eq_error _ _ _).1 h4 with h5 | ⟨rs, _, h6⟩
              · exact mapMV_error (Q := Caught) hrb h5
              · rcases (bind_eq_error _ _ _).1 h6 with h7 | ⟨r, _, h8⟩
                · exact (foldOr_error h7).elim
                · exact P.toBoolCaught _ _ h8
  | .has a, env, c, h => by
      simp only [evalC] at h
      obtain ⟨v, hv⟩ := resultC_bind_error (evalC_caught S P a env) h
      cases hv
  | .dyn a, env, c, h => by
      simp only [evalC] at h
      exact evalC_caught S P a env c h
theorem evalCs_caught (S : Sem) (P : PrimLaws S) : (xs : List Expr) → (env : Env) → (c : Exc) → evalCs S xs env = .error c → Caught c
  | [], env, c, h => by simp [evalCs] at h
  | x :: xs, env, c, h => by
      simp only [evalCs] at h
      rcases (bind_eq_error _ _ _).1 h with h1 | ⟨v, _, h2⟩
      · exact evalC_caught S P x env c h1
      · rcases (bind_eq_error _ _ _).1 h2 with h3 | ⟨vs, _, h4⟩
        · exact evalCs_caught S P xs env c h3
        · cases h4
end

/-! ### on `noErrVal` expressions the transpiled program yields no error value -/

theorem mapMV_clean {f : Val → PyM Val} (hf : ∀ v w, v.clean = true → f v = .ok w → w.clean = true) :
    ∀ {xs ws : List Val}, Val.cleanL xs = true → mapMV f xs = .ok ws → Val.cleanL ws = true
  | [], ws, _, h => by simp [mapMV] at h; subst h; rfl
  | x :: xs, ws, hc, h => by
      rw [cleanL_cons] at hc
      simp only [mapMV] at h
      obtain ⟨r, hr, h2⟩ := (bind_eq_ok _ _ _).1 h
      obtain ⟨rs, hrs, h3⟩ := (bind_eq_ok _ _ _).1 h2
      cases h3
      rw [cleanL_cons]
      exact ⟨hf _ _ hc.1 hr, mapMV_clean hf hc.2 hrs⟩

theorem filterMV_clean {f : Val → PyM Val} :
    ∀ {xs ws : List Val}, Val.cleanL xs = true → filterMV f xs = .ok ws → Val.cleanL ws = true
  | [], ws, _, h => by simp [filterMV] at h; subst h; rfl
  | x :: xs, ws, hc, h => by
      rw [cleanL_cons] at hc
      simp only [filterMV] at h
      obtain ⟨r, hr, h2⟩ := (bind_eq_ok _ _ _).1 h
      obtain ⟨rs, hrs, h3⟩ := (bind_eq_ok _ _ _).1 h2
      have ih := filterMV_clean hc.2 hrs
      cases h3
      split
      · rw [cleanL_cons]; exact ⟨hc.1, ih⟩
      · exact ih

theorem isBool_clean {v : Val} (h : v.isBool = true) : v.clean = true := by
  cases v <;> simp_all [Val.isBool, Val.clean]

mutual
theorem evalC_clean (S : Sem) (P : PrimLaws S) : (e : Expr) → (env : Env) → (w : Val) →
    e.noErrVal S = true → env.clean = true → evalC S e env = .ok w → w.clean = true
  | .lit v, env, w, hn, he, h => by
      simp [evalC] at h; subst h; simpa [Expr.noErrVal] using hn
  | .badlit, env, w, hn, he, h => by simp [evalC] at h
  | .ident x, env, w, hn, he, h => by
      simp only [evalC] at h
      split at h
      · rename_i v hv; cases h; exact lookup_clean he hv
      · split at h
        · cases h; rfl
        · cases h
  | .un op a, env, w, hn, he, h => by
      simp only [Expr.noErrVal] at hn
      simp only [evalC] at h
      obtain ⟨v, hv, h2⟩ := (bind_eq_ok _ _ _).1 h
      have hvc := evalC_clean S P a env v hn he hv
      exact P.cleanOf (by rfl) (by simp [Val.cleanL, hvc]) h2
  | .bin op a b, env, w, hn, he, h => by
      simp only [Expr.noErrVal, Bool.and_eq_true, bne_iff_ne, ne_eq] at hn
      simp only [evalC] at h
      obtain ⟨x, hx, h2⟩ := (bind_eq_ok _ _ _).1 h
      obtain ⟨y, hy, h3⟩ := (bind_eq_ok _ _ _).1 h2
      have hxc := evalC_clean S P a env x hn.1.2 he hx
      have hyc := evalC_clean S P b env y hn.2 he hy
      refine P.cleanOf ?_ (by simp [Val.cleanL, hxc, hyc]) h3
      cases op <;> simp_all [errSourceOp]
  | .idx a b, env, w, hn, he, h => by
      simp only [Expr.noErrVal, Bool.and_eq_true] at hn
      simp only [evalC] at h
      obtain ⟨x, hx, h2⟩ := (bind_eq_ok _ _ _).1 h
      obtain ⟨y, hy, h3⟩ := (bind_eq_ok _ _ _).1 h2
      have hxc := evalC_clean S P a env x hn.1 he hx
      have hyc := evalC_clean S P b env y hn.2 he hy
      exact P.cleanOf (by rfl) (by simp [Val.cleanL, hxc, hyc]) h3
  | .sel a f, env, w, hn, he, h => by
      simp only [Expr.noErrVal] at hn
      simp only [evalC] at h
      obtain ⟨v, hv, h2⟩ := (bind_eq_ok _ _ _).1 h
      have hvc := evalC_clean S P a env v hn he hv
      unfold selectC at h2
      split at h2
      · split at h2
        · rename_i ks vs x hx
          cases h2
          simp [Val.clean] at hvc
          exact mapGet_clean hvc.2 hx
        · cases h2
      · cases h2
  | .or a b, env, w, hn, he, h => by simp [Expr.noErrVal] at hn
  | .and a b, env, w, hn, he, h => by simp [Expr.noErrVal] at hn
  | .cond a x y, env, w, hn, he, h => by simp [Expr.noErrVal] at hn
  | .list xs, env, w, hn, he, h => by
      simp only [Expr.noErrVal] at hn
      simp only [evalC] at h
      obtain ⟨vs, hvs, h2⟩ := (bind_eq_ok _ _ _).1 h
      cases h2
      simpa [Val.clean] using evalCs_clean S P xs env vs hn he hvs
  | .map xs, env, w, hn, he, h => by
      simp only [Expr.noErrVal] at hn
      simp only [evalC] at h
      obtain ⟨vs, hvs, h2⟩ := (bind_eq_ok _ _ _).1 h
      exact P.cleanOf (by rfl) (evalCs_clean S P xs env vs hn he hvs) h2
  | .call f xs, env, w, hn, he, h => by
      simp only [Expr.noErrVal, Bool.and_eq_true, Bool.not_eq_true'] at hn
      simp only [evalC] at h
      obtain ⟨vs, hvs, h2⟩ := (bind_eq_ok _ _ _).1 h
      simp [hn.1.1] at h2
      exact P.cleanOf (by simp [errSourceOp, hn.1.2]) (evalCs_clean S P xs env vs hn.2 he hvs) h2
  | .mcall a f xs, env, w, hn, he, h => by
      simp only [Expr.noErrVal, Bool.and_eq_true, Bool.not_eq_true'] at hn
      simp only [evalC] at h
      obtain ⟨o, ho, h2⟩ := (bind_eq_ok _ _ _).1 h
      obtain ⟨vs, hvs, h3⟩ := (bind_eq_ok _ _ _).1 h2
      simp [hn.1.1.1] at h3
      have hoc := evalC_clean S P a env o hn.1.2 he ho
      have hvc := evalCs_clean S P xs env vs hn.2 he hvs
      exact P.cleanOf (by simp [errSourceOp, hn.1.1.2]) (by rw [cleanL_cons]; exact ⟨hoc, hvc⟩) h3
  | .macro k a x body, env, w, hn, he, h => by
      simp only [Expr.noErrVal, Bool.and_eq_true] at hn
      simp only [evalC] at h
      obtain ⟨recv, hrecv, h2⟩ := (bind_eq_ok _ _ _).1 h
      obtain ⟨elems, helems, h3⟩ := (bind_eq_ok _ _ _).1 h2
      have hrc := evalC_clean S P a env recv hn.1 he hrecv
      have hec := P.iterClean _ _ hrc helems
      have hb : ∀ v r, v.clean = true → evalC S body (env.bind x v) = .ok r → r.clean = true :=
        fun v r hv hr => evalC_clean S P body (env.bind x v) r hn.2 (bind_clean he hv) hr
      cases k with
      | map =>
          simp only at h3
          obtain ⟨rs, hrs, h4⟩ := (bind_eq_ok _ _ _).1 h3
          cases h4
          simpa [Val.clean] using mapMV_clean hb hec hrs
      | filter =>
          simp only at h3
          obtain ⟨rs, hrs, h4⟩ := (bind_eq_ok _ _ _).1 h3
          cases h4
          simpa [Val.clean] using filterMV_clean hec hrs
      | existsOne =>
          simp only at h3
          obtain ⟨rs, hrs, h4⟩ := (bind_eq_ok _ _ _).1 h3
          cases h4; rfl
      | all =>
          simp only at h3
          obtain ⟨rs, hrs, h4⟩ := (bind_eq_ok _ _ _).1 h3
          obtain ⟨r, hr, h5⟩ := (bind_eq_ok _ _ _).1 h4
          exact isBool_clean (P.toBoolOut _ _ h5)
      | exists_ =>
          simp only at h3
          obtain ⟨rs, hrs, h4⟩ := (bind_eq_ok _ _ _).1 h3
          obtain ⟨r, hr, h5⟩ := (bind_eq_ok _ _ _).1 h4
          exact isBool_clean (P.toBoolOut _ _ h5)
  | .has a, env, w, hn, he, h => by simp [Expr.noErrVal] at hn
  | .dyn a, env, w, hn, he, h => by
      simp only [Expr.noErrVal] at hn
      simp only [evalC] at h
      exact evalC_clean S P a env w hn he h
theorem evalCs_clean (S : Sem) (P : PrimLaws S) : (xs : List Expr) → (env : Env) → (ws : List Val) →
    Expr.noErrValL S xs = true → env.clean = true → evalCs S xs env = .ok ws → Val.cleanL ws = true
  | [], env, ws, hn, he, h => by simp [evalCs] at h; subst h; rfl
  | x :: xs, env, ws, hn, he, h => by
      simp only [Expr.noErrValL, Bool.and_eq_true] at hn
      simp only [evalCs] at h
      obtain ⟨v, hv, h2⟩ := (bind_eq_ok _ _ _).1 h
      obtain ⟨vs, hvs, h3⟩ := (bind_eq_ok _ _ _).1 h2
      cases h3
      rw [cleanL_cons]
      exact ⟨evalC_clean S P x env v hn.1 he hv, evalCs_clean S P xs env vs hn.2 he hvs⟩
end

/-! ### the interpreter lets only `result()`-convertible classes escape -/

theorem catchH_error {hs : List Exc} {r : PyM Val} {c : Exc} (h : catchH hs r = .error c) : r = .error c := by
  cases r with
  | ok v => simp [catchH] at h
  | error d =>
    simp only [catchH] at h
    split at h
    · cases h
    · cases h; rfl

theorem catchH_macroBody_error {r : PyM Val} {c : Exc} (h : catchH HI.macroBody r = .error c) : r = .error c ∧ c ≠ .celEval := by
  have h1 := catchH_error h
  subst h1
  refine ⟨rfl, ?_⟩
  intro hc; subst hc
  simp [catchH, HI.macroBody] at h

theorem raiseIfErr_error {r : PyM Val} {c : Exc} (h : raiseIfErr r = .error c) : r = .error c ∨ c = .celEval := by
  unfold raiseIfErr at h
  split at h
  · cases h; exact Or.inr rfl
  · exact Or.inl h

mutual
/-- the interpreter, too, only lets classes escape that `result()` would convert (given the primitive laws);
in particular never a `CELEvalError` -/
theorem evalI_caught (S : Sem) (P : PrimLaws S) : (e : Expr) → (env : Env) → (c : Exc) → evalI S e env = .error c → Caught c
  | .lit v, env, c, h => by simp [evalI] at h
  | .badlit, env, c, h => by simp [evalI, catchH, HI.literal] at h
  | .ident x, env, c, h => by
      simp only [evalI] at h
      split at h
      · cases h
      · split at h <;> cases h
  | .un op a, env, c, h => by
      simp only [evalI] at h
      rcases (bind_eq_error _ _ _).1 h with h1 | ⟨v, _, h2⟩
      · exact evalI_caught S P a env c h1
      · exact P.caught _ _ _ (catchH_error h2)
  | .bin op a b, env, c, h => by
      simp only [evalI] at h
      rcases (bind_eq_error _ _ _).1 h with h1 | ⟨v, _, h2⟩
      · exact evalI_caught S P a env c h1
      · rcases (bind_eq_error _ _ _).1 h2 with h3 | ⟨w, _, h4⟩
        · exact evalI_caught S P b env c h3
        · exact P.caught _ _ _ (catchH_error h4)
  | .idx a b, env, c, h => by
      simp only [evalI] at h
      rcases (bind_eq_error _ _ _).1 h with h1 | ⟨v, _, h2⟩
      · exact evalI_caught S P a env c h1
      · rcases (bind_eq_error _ _ _).1 h2 with h3 | ⟨w, _, h4⟩
        · exact evalI_caught S P b env c h3
        · exact P.caught _ _ _ (catchH_error h4)
  | .sel a f, env, c, h => by
      simp only [evalI] at h
      rcases (bind_eq_error _ _ _).1 h with h1 | ⟨v, _, h2⟩
      · exact evalI_caught S P a env c h1
      · cases h2
  | .or a b, env, c, h => by
      simp only [evalI] at h
      rcases (bind_eq_error _ _ _).1 h with h1 | ⟨v, _, h2⟩
      · exact evalI_caught S P a env c h1
      · rcases (bind_eq_error _ _ _).1 h2 with h3 | ⟨w, _, h4⟩
        · exact evalI_caught S P b env c h3
        · rw [vor_error (catchH_error h4)]; exact caught_typeError
  | .and a b, env, c, h => by
      simp only [evalI] at h
      rcases (bind_eq_error _ _ _).1 h with h1 | ⟨v, _, h2⟩
      · exact evalI_caught S P a env c h1
      · rcases (bind_eq_error _ _ _).1 h2 with h3 | ⟨w, _, h4⟩
        · exact evalI_caught S P b env c h3
        · rw [vand_error (catchH_error h4)]; exact caught_typeError
  | .cond a x y, env, c, h => by
      simp only [evalI] at h
      rcases (bind_eq_error _ _ _).1 h with h1 | ⟨cv, _, h2⟩
      · exact evalI_caught S P a env c h1
      · split at h2
        · rcases (bind_eq_error _ _ _).1 h2 with h3 | ⟨w, _, h4⟩
          · exact evalI_caught S P x env c h3
          · rw [vcond_error (catchH_error h4)]; exact caught_typeError
        · rcases (bind_eq_error _ _ _).1 h2 with h3 | ⟨w, _, h4⟩
          · exact evalI_caught S P y env c h3
          · rw [vcond_error (catchH_error h4)]; exact caught_typeError
  | .list xs, env, c, h => by
      simp only [evalI] at h
      rcases (bind_eq_error _ _ _).1 h with h1 | ⟨v, _, h2⟩
      · exact evalIs_caught S P xs env c h1
      · split at h2 <;> cases h2
  | .map xs, env, c, h => by
      simp only [evalI] at h
      rcases (bind_eq_error _ _ _).1 h with h1 | ⟨v, _, h2⟩
      · exact evalIs_caught S P xs env c h1
      · split at h2
        · cases h2
        · exact P.caught _ _ _ (catchH_error h2)
  | .call f xs, env, c, h => by
      simp only [evalI] at h
      rcases (bind_eq_error _ _ _).1 h with h1 | ⟨v, _, h2⟩
      · exact evalIs_caught S P xs env c h1
      · split at h2
        · cases h2
        · split at h2
          · cases h2
          · exact P.caught _ _ _ (catchH_error h2)
  | .mcall a f xs, env, c, h => by
      simp only [evalI] at h
      rcases (bind_eq_error _ _ _).1 h with h1 | ⟨o, _, h2⟩
      · exact evalI_caught S P a env c h1
      · rcases (bind_eq_error _ _ _).1 h2 with h3 | ⟨v, _, h4⟩
        · exact evalIs_caught S P xs env c h3
        · split at h4
          · cases h4
          · split at h4
            · cases h4
            · split at h4
              · cases h4
              · exact P.caught _ _ _ (catchH_error h4)
  | .macro k a x body, env, c, h => by
      simp only [evalI] at h
      rcases (bind_eq_error _ _ _).1 h with h1 | ⟨recv, _, h2⟩
      · exact evalI_caught S P a env c h1
      · split at h2
        · cases h2
        · split at h2
          · cases h2
          · rename_i d hd
            cases h2
            rw [P.iterError _ _ hd]; exact caught_typeError
          · rename_i elems helems
            have hb : ∀ v d, evalI S body (env.bind x v) = .error d → Caught d :=
              fun v d => evalI_caught S P body (env.bind x v) d
            have hrb : ∀ v d, raiseIfErr (evalI S body (env.bind x v)) = .error d → Caught d ∨ d = .celEval := by
              intro v d hd
              rcases raiseIfErr_error hd with h5 | h5
              · exact Or.inl (hb v d h5)
              · exact Or.inr h5
            have hsb : ∀ v d, ssBody (evalI S body (env.bind x v)) = .error d → Caught d := by
              intro v d hd
              have := catchH_macroBody_error hd
              rcases hrb v d this.1 with h5 | h5
              · exact h5
              · exact absurd h5 this.2
            cases k with
            | map =>
                simp only at h2
                have := catchH_macroBody_error h2
                rcases (bind_eq_error _ _ _).1 this.1 with h5 | ⟨rs, _, h6⟩
                · rcases mapMV_error (Q := fun d => Caught d ∨ d = .celEval) hrb h5 with h7 | h7
                  · exact h7
                  · exact absurd h7 this.2
                · cases h6
            | filter =>
                simp only at h2
                have := catchH_macroBody_error h2
                rcases (bind_eq_error _ _ _).1 this.1 with h5 | ⟨rs, _, h6⟩
                · rcases filterMV_error (Q := fun d => Caught d ∨ d = .celEval) hrb h5 with h7 | h7
                  · exact h7
                  · exact absurd h7 this.2
                · cases h6
            | existsOne =>
                simp only at h2
                have := catchH_macroBody_error h2
                rcases (bind_eq_error _ _ _).1 this.1 with h5 | ⟨rs, _, h6⟩
                · rcases countMV_error (Q := fun d => Caught d ∨ d = .celEval) hrb h5 with h7 | h7
                  · exact h7
                  · exact absurd h7 this.2
                · cases h6
            | all =>
                simp only at h2
                rcases (bind_eq_error _ _ _).1 h2 with h5 | ⟨rs, _, h6⟩
                · exact mapMV_error (Q := Caught) hsb h5
                · exact (foldAnd_error h6).elim
            | exists_ =>
                simp only at h2
                rcases (bind_eq_error _ _ _).1 h2 with h5 | ⟨rs, _, h6⟩
                · exact mapMV_error (Q := Caught) hsb h5
                · exact (foldOr_error h6).elim
  | .has a, env, c, h => by
      simp only [evalI] at h
      rcases (bind_eq_error _ _ _).1 h with h1 | ⟨v, _, h2⟩
      · exact evalI_caught S P a env c h1
      · cases h2
  | .dyn a, env, c, h => by
      simp only [evalI] at h
      exact evalI_caught S P a env c h
theorem evalIs_caught (S : Sem) (P : PrimLaws S) : (xs : List Expr) → (env : Env) → (c : Exc) → evalIs S xs env = .error c → Caught c
  | [], env, c, h => by simp [evalIs] at h
  | x :: xs, env, c, h => by
      simp only [evalIs] at h
      rcases (bind_eq_error _ _ _).1 h with h1 | ⟨v, _, h2⟩
      · exact evalI_caught S P x env c h1
      · rcases (bind_eq_error _ _ _).1 h2 with h3 | ⟨vs, _, h4⟩
        · exact evalIs_caught S P xs env c h3
        · cases h4
end

/-! ### syntactically boolean expressions are boolean-valued -/

/-- a `BoolType` or an error object -/
def ValB (w : Val) : Prop := w = .err ∨ w.isBool = true

theorem valB_bool (b : Bool) : ValB (.bool b) := Or.inr rfl
theorem valB_err : ValB .err := Or.inl rfl

theorem catchH_ok_cases {hs : List Exc} {r : PyM Val} {w : Val} (h : catchH hs r = .ok w) :
    r = .ok w ∨ (w = .err ∧ ∃ c, r = .error c) := by
  cases r with
  | ok v => simp [catchH] at h; exact Or.inl (by rw [h])
  | error d =>
    simp only [catchH] at h
    split at h
    · cases h; exact Or.inr ⟨rfl, d, rfl⟩
    · cases h

theorem vor_valB {x y w : Val} (hx : ValB x) (hy : ValB y) (h : catchH HI.logical (vor x y) = .ok w) : ValB w := by
  rcases catchH_ok_cases h with h1 | ⟨h1, _⟩
  · rcases hx with rfl | hx <;> rcases hy with rfl | hy
    · simp [vor, Val.isBool] at h1
    · cases y <;> simp [Val.isBool] at hy
      rename_i b; cases b <;> simp [vor, Val.isBool, Val.truthy] at h1 <;> subst h1 <;> first | exact valB_err | exact valB_bool _
    · cases x <;> simp [Val.isBool] at hx
      rename_i b; cases b <;> simp [vor, Val.isBool, Val.truthy] at h1 <;> subst h1 <;> first | exact valB_err | exact valB_bool _
    · cases x <;> simp [Val.isBool] at hx
      cases y <;> simp [Val.isBool] at hy
      simp [vor, Val.isBool, Val.truthy] at h1; subst h1; exact valB_bool _
  · subst h1; exact valB_err

theorem vand_valB {x y w : Val} (hx : ValB x) (hy : ValB y) (h : catchH HI.logical (vand x y) = .ok w) : ValB w := by
  rcases catchH_ok_cases h with h1 | ⟨h1, _⟩
  · rcases hx with rfl | hx <;> rcases hy with rfl | hy
    · simp [vand, Val.isBool] at h1
    · cases y <;> simp [Val.isBool] at hy
      rename_i b; cases b <;> simp [vand, Val.isBool, Val.truthy] at h1 <;> subst h1 <;> first | exact valB_err | exact valB_bool _
    · cases x <;> simp [Val.isBool] at hx
      rename_i b; cases b <;> simp [vand, Val.isBool, Val.truthy] at h1 <;> subst h1 <;> first | exact valB_err | exact valB_bool _
    · cases x <;> simp [Val.isBool] at hx
      cases y <;> simp [Val.isBool] at hy
      simp [vand, Val.isBool, Val.truthy] at h1; subst h1; exact valB_bool _
  · subst h1; exact valB_err

theorem vcond_valB {c x y w : Val} (hx : ValB x) (hy : ValB y) (h : catchH HI.logical (vcond c x y) = .ok w) : ValB w := by
  rcases catchH_ok_cases h with h1 | ⟨h1, _⟩
  · unfold vcond at h1
    split at h1
    · cases h1
    · cases h1; split <;> assumption
  · subst h1; exact valB_err

theorem foldAnd_valB : ∀ {rs : List Val} {acc w : Val}, ValB acc → (∀ r ∈ rs, ValB r) → foldAnd acc rs = .ok w → ValB w
  | [], acc, w, ha, _, h => by simp [foldAnd] at h; subst h; exact ha
  | r :: rs, acc, w, ha, hr, h => by
      simp only [foldAnd] at h
      obtain ⟨a, h1, h2⟩ := (bind_eq_ok _ _ _).1 h
      exact foldAnd_valB (vand_valB ha (hr r (by simp)) h1) (fun q hq => hr q (by simp [hq])) h2

theorem foldOr_valB : ∀ {rs : List Val} {acc w : Val}, ValB acc → (∀ r ∈ rs, ValB r) → foldOr acc rs = .ok w → ValB w
  | [], acc, w, ha, _, h => by simp [foldOr] at h; subst h; exact ha
  | r :: rs, acc, w, ha, hr, h => by
      simp only [foldOr] at h
      obtain ⟨a, h1, h2⟩ := (bind_eq_ok _ _ _).1 h
      exact foldOr_valB (vor_valB ha (hr r (by simp)) h1) (fun q hq => hr q (by simp [hq])) h2

theorem mapMV_forall {f : Val → PyM Val} {Q : Val → Prop} (hf : ∀ u w, f u = .ok w → Q w) :
    ∀ {xs rs : List Val}, mapMV f xs = .ok rs → ∀ r ∈ rs, Q r
  | [], rs, h => by simp [mapMV] at h; subst h; simp
  | x :: xs, rs, h => by
      simp only [mapMV] at h
      obtain ⟨r, hr, h2⟩ := (bind_eq_ok _ _ _).1 h
      obtain ⟨rs', hrs, h3⟩ := (bind_eq_ok _ _ _).1 h2
      cases h3
      intro q hq
      simp at hq
      rcases hq with rfl | hq
      · exact hf _ _ hr
      · exact mapMV_forall hf hrs q hq

theorem raiseIfErr_ok {r : PyM Val} {w : Val} (h : raiseIfErr r = .ok w) : r = .ok w ∧ w ≠ .err := by
  unfold raiseIfErr at h
  split at h
  · cases h
  · rename_i hne
    subst h
    refine ⟨rfl, ?_⟩
    intro hw; subst hw; exact hne rfl

theorem ssBody_ok {r : PyM Val} {w : Val} (h : ssBody r = .ok w) : r = .ok w ∨ (w = .err ∧ r = .error .celEval) := by
  unfold ssBody at h
  rcases catchH_ok_cases h with h1 | ⟨h1, c, h2⟩
  · exact Or.inl (raiseIfErr_ok h1).1
  · subst h1
    cases r with
    | ok v =>
      cases v <;> simp [raiseIfErr] at h2
      exact Or.inl rfl
    | error d =>
      simp [raiseIfErr] at h2
      subst h2
      cases d <;> simp [raiseIfErr, catchH, HI.macroBody] at h
      exact Or.inr ⟨rfl, rfl⟩

/-- a syntactically boolean expression evaluates (in the interpreter) to a `BoolType` or an error -/
theorem boolish_val (S : Sem) (P : PrimLaws S) : (e : Expr) → (env : Env) → (w : Val) →
    e.boolish = true → evalI S e env = .ok w → ValB w
  | .lit v, env, w, hb, h => by
      cases v <;> simp [Expr.boolish] at hb
      simp [evalI] at h; subst h; exact valB_bool _
  | .badlit, env, w, hb, h => by simp [Expr.boolish] at hb
  | .ident x, env, w, hb, h => by simp [Expr.boolish] at hb
  | .un op a, env, w, hb, h => by
      cases op <;> simp [Expr.boolish] at hb
      simp only [evalI] at h
      obtain ⟨v, _, h2⟩ := (bind_eq_ok _ _ _).1 h
      rcases catchH_ok_cases h2 with h3 | ⟨h3, _⟩
      · exact P.boolOut _ _ _ (by rfl) h3
      · subst h3; exact valB_err
  | .bin op a b, env, w, hb, h => by
      simp only [Expr.boolish] at hb
      simp only [evalI] at h
      obtain ⟨x, _, h2⟩ := (bind_eq_ok _ _ _).1 h
      obtain ⟨y, _, h3⟩ := (bind_eq_ok _ _ _).1 h2
      rcases catchH_ok_cases h3 with h4 | ⟨h4, _⟩
      · exact P.boolOut _ _ _ (by simpa [boolOp] using hb) h4
      · subst h4; exact valB_err
  | .idx a b, env, w, hb, h => by simp [Expr.boolish] at hb
  | .sel a f, env, w, hb, h => by simp [Expr.boolish] at hb
  | .or a b, env, w, hb, h => by
      simp only [Expr.boolish, Bool.and_eq_true] at hb
      simp only [evalI] at h
      obtain ⟨x, hx, h2⟩ := (bind_eq_ok _ _ _).1 h
      obtain ⟨y, hy, h3⟩ := (bind_eq_ok _ _ _).1 h2
      exact vor_valB (boolish_val S P a env x hb.1 hx) (boolish_val S P b env y hb.2 hy) h3
  | .and a b, env, w, hb, h => by
      simp only [Expr.boolish, Bool.and_eq_true] at hb
      simp only [evalI] at h
      obtain ⟨x, hx, h2⟩ := (bind_eq_ok _ _ _).1 h
      obtain ⟨y, hy, h3⟩ := (bind_eq_ok _ _ _).1 h2
      exact vand_valB (boolish_val S P a env x hb.1 hx) (boolish_val S P b env y hb.2 hy) h3
  | .cond c x y, env, w, hb, h => by
      simp only [Expr.boolish, Bool.and_eq_true] at hb
      simp only [evalI] at h
      obtain ⟨cv, _, h2⟩ := (bind_eq_ok _ _ _).1 h
      split at h2
      · obtain ⟨l, hl, h3⟩ := (bind_eq_ok _ _ _).1 h2
        exact vcond_valB (boolish_val S P x env l hb.1 hl) (valB_bool _) h3
      · obtain ⟨r, hr, h3⟩ := (bind_eq_ok _ _ _).1 h2
        exact vcond_valB (valB_bool _) (boolish_val S P y env r hb.2 hr) h3
  | .list xs, env, w, hb, h => by simp [Expr.boolish] at hb
  | .map xs, env, w, hb, h => by simp [Expr.boolish] at hb
  | .call f xs, env, w, hb, h => by simp [Expr.boolish] at hb
  | .mcall a f xs, env, w, hb, h => by simp [Expr.boolish] at hb
  | .macro k a x body, env, w, hb, h => by
      simp only [evalI] at h
      obtain ⟨recv, _, h2⟩ := (bind_eq_ok _ _ _).1 h
      split at h2
      · cases h2; exact valB_err
      · split at h2
        · cases h2; exact valB_err
        · cases h2
        · rename_i elems _
          have hsb : ∀ u r, ssBody (evalI S body (env.bind x u)) = .ok r → body.boolish = true → ValB r := by
            intro u r hr hbb
            rcases ssBody_ok hr with h5 | ⟨h5, _⟩
            · exact boolish_val S P body (env.bind x u) r hbb h5
            · subst h5; exact valB_err
          cases k with
          | map => simp [Expr.boolish] at hb
          | filter => simp [Expr.boolish] at hb
          | existsOne =>
              simp only at h2
              rcases catchH_ok_cases h2 with h3 | ⟨h3, _⟩
              · obtain ⟨n, _, h4⟩ := (bind_eq_ok _ _ _).1 h3
                cases h4; exact valB_bool _
              · subst h3; exact valB_err
          | all =>
              have hbb : body.boolish = true := by simpa [Expr.boolish] using hb
              simp only at h2
              obtain ⟨rs, hrs, h3⟩ := (bind_eq_ok _ _ _).1 h2
              exact foldAnd_valB (valB_bool _) (mapMV_forall (Q := ValB) (fun u r hr => hsb u r hr hbb) hrs) h3
          | exists_ =>
              have hbb : body.boolish = true := by simpa [Expr.boolish] using hb
              simp only at h2
              obtain ⟨rs, hrs, h3⟩ := (bind_eq_ok _ _ _).1 h2
              exact foldOr_valB (valB_bool _) (mapMV_forall (Q := ValB) (fun u r hr => hsb u r hr hbb) hrs) h3
  | .has a, env, w, hb, h => by simp [Expr.boolish] at hb
  | .dyn a, env, w, hb, h => by
      simp only [Expr.boolish] at hb
      simp only [evalI] at h
      exact boolish_val S P a env w hb h

/-! ### agreement of the two denotations: single steps -/

/-- the compiled denotation agrees with the interpreter's returned value `v`: the same value, or — when `v` is
an error object — a raised exception that `result()` converts -/
def Agree (v : Val) (rC : PyM Val) : Prop := rC = .ok v ∨ (v = .err ∧ ∃ c, rC = .error c ∧ Caught c)
def AgreeL (vs : List Val) (rC : PyM (List Val)) : Prop :=
  rC = .ok vs ∨ (firstErr vs = true ∧ ∃ c, rC = .error c ∧ Caught c)
/-- an interpreter value is an error object or contains none -/
def Top (v : Val) : Prop := v = .err ∨ v.clean = true
def TopL : List Val → Prop
  | [] => True
  | v :: vs => Top v ∧ TopL vs

theorem resultC_of_agree {v : Val} {r : PyM Val} (h : Agree v r) : resultC r = .ok v := by
  rcases h with h | ⟨hv, c, hc, hcc⟩
  · rw [h]; rfl
  · rw [hc, hv]; exact resultC_caught hcc

theorem top_clean {v : Val} (h : Top v) (hv : v.isErr = false) : v.clean = true := by
  rcases h with rfl | h
  · simp [Val.isErr] at hv
  · exact h

theorem topL_clean : ∀ {vs : List Val}, TopL vs → firstErr vs = false → Val.cleanL vs = true
  | [], _, _ => rfl
  | v :: vs, ht, hf => by
      simp only [firstErr, Bool.or_eq_false_iff] at hf
      rw [cleanL_cons]
      exact ⟨top_clean ht.1 hf.1, topL_clean ht.2 hf.2⟩

theorem top_of_clean {v : Val} (h : v.clean = true) : Top v := Or.inr h

theorem isErr_eq {v : Val} (h : v.isErr = true) : v = .err := by
  cases v <;> simp [Val.isErr] at h; rfl

theorem agree_err_of {r : PyM Val} {c : Exc} (h : r = .error c) (hc : Caught c) : Agree .err r :=
  Or.inr ⟨rfl, c, h, hc⟩

theorem strict_err {S : Sem} (P : PrimLaws S) {op : PrimOp} {vs : List Val} {hs : List Exc} {v : Val}
    (ho : strictOp S op = true) (hf : firstErr vs = true) (hI : catchH hs (S.prim op vs) = .ok v) : v = .err := by
  rcases catchH_ok_cases hI with h1 | ⟨h1, _⟩
  · exact P.strict _ _ _ ho hf h1
  · exact h1

theorem prim_same {S : Sem} (P : PrimLaws S) {op : PrimOp} {vs : List Val} {hs : List Exc} {v : Val}
    (hc : strictOp S op = true ∨ Val.cleanL vs = true) (hT : TopL vs)
    (hI : catchH hs (S.prim op vs) = .ok v) : Agree v (S.prim op vs) ∧ Top v := by
  rcases catchH_ok_cases hI with h1 | ⟨h1, c, h2⟩
  · refine ⟨Or.inl h1, ?_⟩
    cases hf : firstErr vs with
    | true =>
      rcases hc with hc | hc
      · exact Or.inl (P.strict _ _ _ hc hf h1)
      · rw [firstErr_of_cleanL hc] at hf; cases hf
    | false => exact P.cleanOut _ _ _ (topL_clean hT hf) h1
  · subst h1
    exact ⟨agree_err_of h2 (P.caught _ _ _ h2), Or.inl rfl⟩

theorem un_step {S : Sem} (P : PrimLaws S) {op : PrimOp} {x v : Val} {rx : PyM Val} {hs : List Exc}
    (ho : strictOp S op = true) (hx : Agree x rx) (tx : Top x)
    (hI : catchH hs (S.prim op [x]) = .ok v) : Agree v (rx >>= fun x' => S.prim op [x']) ∧ Top v := by
  rcases hx with hx | ⟨rfl, c, hc, hcc⟩
  · subst hx
    exact prim_same P (Or.inl ho) ⟨tx, trivial⟩ hI
  · subst hc
    have : v = .err := strict_err P ho (by simp [firstErr, Val.isErr]) hI
    subst this
    exact ⟨agree_err_of rfl hcc, Or.inl rfl⟩

theorem bin_step {S : Sem} (P : PrimLaws S) {op : PrimOp} {x y v : Val} {rx ry : PyM Val} {hs : List Exc}
    (ho : strictOp S op = true) (hx : Agree x rx) (hy : Agree y ry) (tx : Top x) (ty : Top y)
    (hI : catchH hs (S.prim op [x, y]) = .ok v) :
    Agree v (rx >>= fun x' => ry >>= fun y' => S.prim op [x', y']) ∧ Top v := by
  rcases hx with hx | ⟨rfl, c, hc, hcc⟩
  · subst hx
    rcases hy with hy | ⟨rfl, c, hc, hcc⟩
    · subst hy
      exact prim_same P (Or.inl ho) ⟨tx, ty, trivial⟩ hI
    · subst hc
      have : v = .err := strict_err P ho (by simp [firstErr, Val.isErr]) hI
      subst this
      exact ⟨agree_err_of rfl hcc, Or.inl rfl⟩
  · subst hc
    have : v = .err := strict_err P ho (by simp [firstErr, Val.isErr]) hI
    subst this
    exact ⟨agree_err_of rfl hcc, Or.inl rfl⟩

theorem select_agree {v : Val} (f : String) (tv : Top v) : Agree (selectI v f) (selectC v f) ∧ Top (selectI v f) := by
  cases v with
  | map ks vs =>
    simp only [selectI, selectC]
    cases hg : mapGet ks vs f with
    | none => exact ⟨agree_err_of rfl caught_keyError, Or.inl rfl⟩
    | some x =>
      refine ⟨Or.inl rfl, ?_⟩
      rcases tv with h | h
      · cases h
      · simp [Val.clean] at h
        exact Or.inr (mapGet_clean h.2 hg)
  | err => exact ⟨agree_err_of rfl caught_attributeError, Or.inl rfl⟩
  | _ => exact ⟨agree_err_of rfl caught_attributeError, Or.inl rfl⟩

theorem agreeL_cons {v : Val} {vs : List Val} {r : PyM Val} {rs : PyM (List Val)} (h : Agree v r) (hs : AgreeL vs rs) :
    AgreeL (v :: vs) (r >>= fun v' => rs >>= fun vs' => .ok (v' :: vs')) := by
  rcases h with h | ⟨rfl, c, hc, hcc⟩
  · subst h
    rcases hs with hs | ⟨hf, c, hc, hcc⟩
    · subst hs; exact Or.inl rfl
    · subst hc; exact Or.inr ⟨by simp [firstErr, hf], c, rfl, hcc⟩
  · subst hc; exact Or.inr ⟨by simp [firstErr, Val.isErr], c, rfl, hcc⟩

theorem vor_top {x y w : Val} (tx : Top x) (ty : Top y) (h : vor x y = .ok w) : Top w := by
  unfold vor at h
  split at h
  · cases h
  · split at h
    · split at h <;> cases h <;> assumption
    · split at h
      · split at h <;> cases h <;> assumption
      · cases h; exact Or.inr rfl
theorem vand_top {x y w : Val} (tx : Top x) (ty : Top y) (h : vand x y = .ok w) : Top w := by
  unfold vand at h
  split at h
  · cases h
  · split at h
    · split at h <;> cases h <;> assumption
    · split at h
      · split at h <;> cases h <;> assumption
      · cases h; exact Or.inr rfl

/-- `x op y` for the logical operators: both runners apply the same function to the same operand values -/
theorem logical_step {f : Val → Val → PyM Val} (hf : ∀ x y c, f x y = .error c → c = .typeError)
    (ht : ∀ x y w, Top x → Top y → f x y = .ok w → Top w)
    {x y v : Val} (tx : Top x) (ty : Top y) (hI : catchH HI.logical (f x y) = .ok v) : Agree v (f x y) ∧ Top v := by
  rcases catchH_ok_cases hI with h1 | ⟨h1, c, h2⟩
  · exact ⟨Or.inl h1, ht _ _ _ tx ty h1⟩
  · subst h1
    have := hf _ _ _ h2; subst this
    exact ⟨agree_err_of h2 caught_typeError, Or.inl rfl⟩

theorem resultC_total {r : PyM Val} (h : ∀ d, r = .error d → Caught d) : ∃ w, resultC r = .ok w := by
  cases r with
  | ok v => exact ⟨v, rfl⟩
  | error d => exact ⟨.err, resultC_caught (h d rfl)⟩


/-! ### agreement of the two denotations: macros -/

/-- elements of `xs` selected by the truthiness of the corresponding `rs` -/
def selBy : List Val → List Val → List Val
  | r :: rs, x :: xs => if r.truthy then x :: selBy rs xs else selBy rs xs
  | _, _ => []
def countBy : List Val → Nat
  | [] => 0
  | r :: rs => if r.truthy then countBy rs + 1 else countBy rs

theorem filterMV_eq (f : Val → PyM Val) : ∀ xs, filterMV f xs = (mapMV f xs >>= fun rs => .ok (selBy rs xs))
  | [] => rfl
  | x :: xs => by
      simp only [filterMV, mapMV, filterMV_eq f xs]
      cases f x with
      | error c => rfl
      | ok r =>
        cases mapMV f xs with
        | error c => rfl
        | ok rs => rfl

theorem countMV_eq (f : Val → PyM Val) : ∀ xs, countMV f xs = (mapMV f xs >>= fun rs => .ok (countBy rs))
  | [] => rfl
  | x :: xs => by
      simp only [countMV, mapMV, countMV_eq f xs]
      cases f x with
      | error c => rfl
      | ok r =>
        cases mapMV f xs with
        | error c => rfl
        | ok rs => rfl

theorem selBy_clean : ∀ {rs xs : List Val}, Val.cleanL xs = true → Val.cleanL (selBy rs xs) = true
  | [], _, _ => rfl
  | _ :: _, [], _ => rfl
  | r :: rs, x :: xs, h => by
      rw [cleanL_cons] at h
      simp only [selBy]
      split
      · rw [cleanL_cons]; exact ⟨h.1, selBy_clean h.2⟩
      · exact selBy_clean h.2

section macros
variable {fI fC : Val → PyM Val}

/-- bodies of `map`/`filter`/`exists_one`: the interpreter's sub-evaluator raises an error value as CELEvalError -/
theorem plain_bodies
    (H : ∀ u, u.clean = true → ∀ w, fI u = .ok w → Agree w (fC u) ∧ Top w)
    (HN : ∀ u w, u.clean = true → fC u = .ok w → w.clean = true)
    (HE : ∀ u c, fI u = .error c → Caught c) :
    ∀ {elems : List Val}, Val.cleanL elems = true →
      (∀ rs, mapMV (fun u => raiseIfErr (fI u)) elems = .ok rs → mapMV fC elems = .ok rs ∧ Val.cleanL rs = true) ∧
      (mapMV (fun u => raiseIfErr (fI u)) elems = .error .celEval → ∃ d, mapMV fC elems = .error d ∧ Caught d)
  | [], _ => by
      refine ⟨?_, ?_⟩
      · intro rs h; simp [mapMV] at h; subst h; exact ⟨rfl, rfl⟩
      · intro h; simp [mapMV] at h
  | x :: xs, hc => by
      rw [cleanL_cons] at hc
      have ih := plain_bodies H HN HE hc.2
      refine ⟨?_, ?_⟩
      · intro rs h
        simp only [mapMV] at h
        obtain ⟨r, hr, h2⟩ := (bind_eq_ok _ _ _).1 h
        obtain ⟨rs', hrs, h3⟩ := (bind_eq_ok _ _ _).1 h2
        cases h3
        have hr' := raiseIfErr_ok hr
        have hA := H x hc.1 r hr'.1
        have hCx : fC x = .ok r := by
          rcases hA.1 with h4 | ⟨h4, _⟩
          · exact h4
          · exact absurd h4 hr'.2
        have hrc : r.clean = true := by
          rcases hA.2 with h4 | h4
          · exact absurd h4 hr'.2
          · exact h4
        have := ih.1 rs' hrs
        simp only [mapMV, hCx, this.1]
        exact ⟨rfl, by rw [cleanL_cons]; exact ⟨hrc, this.2⟩⟩
      · intro h
        simp only [mapMV] at h
        rcases (bind_eq_error _ _ _).1 h with h1 | ⟨r, hr, h2⟩
        · rcases raiseIfErr_error h1 with h3 | _
          · exact absurd (HE _ _ h3) not_caught_celEval
          · -- the body returned an error value
            unfold raiseIfErr at h1
            split at h1
            · rename_i hv
              have hA := (H x hc.1 .err hv).1
              rcases hA with h4 | ⟨_, d, hd, hdc⟩
              · have := HN x .err hc.1 h4; simp [Val.clean] at this
              · exact ⟨d, by simp only [mapMV, hd]; rfl, hdc⟩
            · exact absurd (HE _ _ h1) not_caught_celEval
        · rcases (bind_eq_error _ _ _).1 h2 with h3 | ⟨rs', _, h4⟩
          · have hr' := raiseIfErr_ok hr
            have hA := H x hc.1 r hr'.1
            have hCx : fC x = .ok r := by
              rcases hA.1 with h4 | ⟨h4, _⟩
              · exact h4
              · exact absurd h4 hr'.2
            obtain ⟨d, hd, hdc⟩ := ih.2 h3
            exact ⟨d, by simp only [mapMV, hCx, hd]; rfl, hdc⟩
          · cases h4

/-- bodies of `all`/`exists`: error values are kept as values on both sides (`build_ss_macro_eval` / `result()`) -/
theorem ss_bodies
    (H : ∀ u, u.clean = true → ∀ w, fI u = .ok w → Agree w (fC u) ∧ Top w)
    (HE : ∀ u c, fI u = .error c → Caught c) :
    ∀ {elems : List Val}, Val.cleanL elems = true →
      ∀ rs, mapMV (fun u => ssBody (fI u)) elems = .ok rs → mapMV (fun u => resultC (fC u)) elems = .ok rs
  | [], _, rs, h => by simp [mapMV] at h; subst h; rfl
  | x :: xs, hc, rs, h => by
      rw [cleanL_cons] at hc
      simp only [mapMV] at h
      obtain ⟨r, hr, h2⟩ := (bind_eq_ok _ _ _).1 h
      obtain ⟨rs', hrs, h3⟩ := (bind_eq_ok _ _ _).1 h2
      cases h3
      have hfx : fI x = .ok r := by
        rcases ssBody_ok hr with h4 | ⟨_, h4⟩
        · exact h4
        · exact absurd (HE _ _ h4) not_caught_celEval
      have := resultC_of_agree (H x hc.1 r hfx).1
      simp only [mapMV, this, ss_bodies H HE hc.2 rs' hrs]
      rfl
end macros

theorem plain_macro_step {X Y : PyM (List Val)} {k : List Val → Val} {v : Val}
    (hok : ∀ rs, X = .ok rs → Y = .ok rs ∧ Val.cleanL rs = true)
    (herr : X = .error .celEval → ∃ d, Y = .error d ∧ Caught d)
    (hI : catchH HI.macroBody (X >>= fun rs => .ok (k rs)) = .ok v) :
    Agree v (Y >>= fun rs => .ok (k rs)) ∧ (v = .err ∨ ∃ rs, Val.cleanL rs = true ∧ v = k rs) := by
  cases hX : X with
  | ok rs =>
    rw [hX] at hI
    have := hok rs hX
    simp [catchH, bind, Except.bind] at hI
    subst hI
    rw [this.1]
    exact ⟨Or.inl rfl, Or.inr ⟨rs, this.2, rfl⟩⟩
  | error c =>
    rw [hX] at hI
    have hc : c = .celEval := by
      cases c <;> simp [catchH, HI.macroBody, bind, Except.bind] at hI
      rfl
    subst hc
    simp [catchH, HI.macroBody, bind, Except.bind] at hI
    subst hI
    obtain ⟨d, hd, hdc⟩ := herr hX
    rw [hd]
    exact ⟨agree_err_of rfl hdc, Or.inl rfl⟩

theorem fold_step {S : Sem} (P : PrimLaws S) {R : Val} (hR : ValB R) : Agree R (S.toBool R) ∧ Top R := by
  rcases hR with rfl | hR
  · refine ⟨?_, Or.inl rfl⟩
    cases h : S.toBool .err with
    | ok w => exact absurd h (P.toBoolErr w)
    | error c => exact agree_err_of rfl (P.toBoolCaught _ _ h)
  · cases R <;> simp [Val.isBool] at hR
    exact ⟨Or.inl (P.toBoolBool _), Or.inr rfl⟩


theorem ok_bind {α β} (a : α) (f : α → PyM β) : ((Except.ok a : PyM α) >>= f) = f a := rfl
theorem error_bind {α β} (c : Exc) (f : α → PyM β) : ((Except.error c : PyM α) >>= f) = Except.error c := rfl


end Cel
