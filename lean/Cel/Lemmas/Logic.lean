/- Helper definitions and lemmas for C02: the three-valued (Kleene) specification. -/
import Cel.Model.Logic
namespace Cel

def O.is3 : O → Bool
  | .t => true | .f => true | .e => true | _ => false

/-- CEL's error-absorbing conjunction on {true,false,error}. -/
def kand (x y : O) : O :=
  if x = .f ∨ y = .f then .f else if x = .t ∧ y = .t then .t else .e
def kor (x y : O) : O :=
  if x = .t ∨ y = .t then .t else if x = .f ∧ y = .f then .f else .e
def knot : O → O
  | .t => .f | .f => .t | _ => .e
def kcond (c x y : O) : O :=
  match c with | .t => x | .f => y | _ => .e
/-- `all` over a list of outcomes: false if some element is false, true if all are true, error otherwise. -/
def kall (l : List O) : O :=
  if .f ∈ l then .f else if ∀ x ∈ l, x = .t then .t else .e
def kexists (l : List O) : O :=
  if .t ∈ l then .t else if ∀ x ∈ l, x = .f then .f else .e

mutual
def kleene : LExpr → O
  | .lit o => o
  | .and a b => kand (kleene a) (kleene b)
  | .or a b => kor (kleene a) (kleene b)
  | .not a => knot (kleene a)
  | .cond c x y => kcond (kleene c) (kleene x) (kleene y)
  | .all xs => kall (kleenes xs)
  | .exists_ xs => kexists (kleenes xs)
def kleenes : List LExpr → List O
  | [] => []
  | x :: xs => kleene x :: kleenes xs
end

mutual
/-- every leaf is true, false or error -/
def b3 : LExpr → Bool
  | .lit o => o.is3
  | .and a b => b3 a && b3 b
  | .or a b => b3 a && b3 b
  | .not a => b3 a
  | .cond c x y => b3 c && b3 x && b3 y
  | .all xs => b3s xs
  | .exists_ xs => b3s xs
def b3s : List LExpr → Bool
  | [] => true
  | x :: xs => b3 x && b3s xs
end

theorem kand_is3 (x y : O) : (kand x y).is3 = true := by
  cases x <;> cases y <;> rfl
theorem kor_is3 (x y : O) : (kor x y).is3 = true := by
  cases x <;> cases y <;> rfl
theorem knot_is3 (x : O) : (knot x).is3 = true := by cases x <;> rfl
theorem kcond_is3 (c x y : O) (hx : x.is3 = true) (hy : y.is3 = true) : (kcond c x y).is3 = true := by
  cases c <;> simp [kcond, hx, hy] <;> rfl
theorem kall_is3 (l : List O) : (kall l).is3 = true := by
  unfold kall; split
  · rfl
  · split <;> rfl
theorem kexists_is3 (l : List O) : (kexists l).is3 = true := by
  unfold kexists; split
  · rfl
  · split <;> rfl

mutual
theorem kleene_is3 : (e : LExpr) → b3 e = true → (kleene e).is3 = true
  | .lit o, h => by simpa [b3, kleene] using h
  | .and a b, _ => by simp [kleene, kand_is3]
  | .or a b, _ => by simp [kleene, kor_is3]
  | .not a, _ => by simp [kleene, knot_is3]
  | .cond c x y, h => by
      simp [b3] at h
      simp only [kleene]
      exact kcond_is3 _ _ _ (kleene_is3 x h.1.2) (kleene_is3 y h.2)
  | .all xs, _ => by simp [kleene, kall_is3]
  | .exists_ xs, _ => by simp [kleene, kexists_is3]
end

/-- the interpreter's `all` fold, started from accumulator `acc ∈ {t,f,e}` -/
theorem allI_fold (l : List O) (acc : O) (hacc : acc.is3 = true) (hl : ∀ x ∈ l, x.is3 = true) :
    l.foldlM (fun acc x => catchTE (land acc x)) acc = .ok (kand acc (kall l)) := by
  induction l generalizing acc with
  | nil => cases acc <;> simp_all [kand, kall, O.is3] <;> rfl
  | cons x xs ih =>
    have hx : x.is3 = true := hl x (by simp)
    have hxs : ∀ y ∈ xs, y.is3 = true := fun y hy => hl y (by simp [hy])
    simp only [List.foldlM_cons]
    have step : catchTE (land acc x) = .ok (kand acc x) := by
      cases acc <;> cases x <;> simp_all [O.is3] <;> rfl
    rw [step]
    show (xs.foldlM _ (kand acc x)) = _
    rw [ih (kand acc x) (kand_is3 _ _) hxs]
    congr 1
    cases acc <;> cases x <;> simp_all [O.is3, kand, kall, List.mem_cons] <;>
      (try split) <;> simp_all

theorem existsI_fold (l : List O) (acc : O) (hacc : acc.is3 = true) (hl : ∀ x ∈ l, x.is3 = true) :
    l.foldlM (fun acc x => catchTE (lor acc x)) acc = .ok (kor acc (kexists l)) := by
  induction l generalizing acc with
  | nil => cases acc <;> simp_all [kor, kexists, O.is3] <;> rfl
  | cons x xs ih =>
    have hx : x.is3 = true := hl x (by simp)
    have hxs : ∀ y ∈ xs, y.is3 = true := fun y hy => hl y (by simp [hy])
    simp only [List.foldlM_cons]
    have step : catchTE (lor acc x) = .ok (kor acc x) := by
      cases acc <;> cases x <;> simp_all [O.is3] <;> rfl
    rw [step]
    show (xs.foldlM _ (kor acc x)) = _
    rw [ih (kor acc x) (kor_is3 _ _) hxs]
    congr 1
    cases acc <;> cases x <;> simp_all [O.is3, kor, kexists, List.mem_cons] <;>
      (try split) <;> simp_all

theorem kand_t (x : O) (h : x.is3 = true) : kand .t x = x := by cases x <;> simp_all [kand, O.is3]
theorem kor_f (x : O) (h : x.is3 = true) : kor .f x = x := by cases x <;> simp_all [kor, O.is3]

theorem kleenes_is3 (xs : List LExpr) (h : b3s xs = true) : ∀ x ∈ kleenes xs, x.is3 = true := by
  induction xs with
  | nil => intro x hx; simp [kleenes] at hx
  | cons y ys ih =>
    intro x hx
    simp [b3s] at h
    simp [kleenes] at hx
    rcases hx with rfl | hx
    · exact kleene_is3 y h.1
    · exact ih h.2 x hx

theorem land3 (x y : O) (hx : x.is3 = true) (hy : y.is3 = true) :
    catchTE (land x y) = .ok (kand x y) := by
  cases x <;> cases y <;> simp_all [O.is3] <;> rfl
theorem lor3 (x y : O) (hx : x.is3 = true) (hy : y.is3 = true) :
    catchTE (lor x y) = .ok (kor x y) := by
  cases x <;> cases y <;> simp_all [O.is3] <;> rfl
theorem lnot3 (x : O) (hx : x.is3 = true) : catchTE (lnot x) = .ok (knot x) := by
  cases x <;> simp_all [O.is3] <;> rfl

/-! ## round 2: every tree, non-boolean leaves included -/

/-! ### pure evaluators: every logical expression evaluates to a VALUE in both runners -/

/-- value of `catchTE r` / `result r` for an `r` that can only raise TypeError -/
def okOr (r : PyM O) : O := match r with | .ok v => v | .error _ => .e

def pAnd (x y : O) : O := okOr (land x y)
def pOr (x y : O) : O := okOr (lor x y)
def pNot (x : O) : O := okOr (lnot x)
def pCond (c x y : O) : O := okOr (lcond c x y)
/-- `BoolType(...)` around the compiled fold, seen through `result()` -/
def coerceC (x : O) : O := okOr (boolTypeOf x)

theorem catchTE_land (x y : O) : catchTE (land x y) = .ok (pAnd x y) := by cases x <;> cases y <;> rfl
theorem catchTE_lor (x y : O) : catchTE (lor x y) = .ok (pOr x y) := by cases x <;> cases y <;> rfl
theorem catchTE_lnot (x : O) : catchTE (lnot x) = .ok (pNot x) := by cases x <;> rfl
theorem catchTE_lcond (c x y : O) : catchTE (lcond c x y) = .ok (pCond c x y) := by
  cases c <;> rfl

mutual
def vI : LExpr → O
  | .lit o => o
  | .and a b => pAnd (vI a) (vI b)
  | .or a b => pOr (vI a) (vI b)
  | .not a => pNot (vI a)
  | .cond c x y => if (vI c).truthy then pCond (vI c) (vI x) .f else pCond (vI c) .f (vI y)
  | .all xs => (vIs xs).foldl pAnd .t
  | .exists_ xs => (vIs xs).foldl pOr .f
def vIs : List LExpr → List O
  | [] => []
  | x :: xs => vI x :: vIs xs
end

mutual
def vC : LExpr → O
  | .lit o => o
  | .and a b => pAnd (vC a) (vC b)
  | .or a b => pOr (vC a) (vC b)
  | .not a => pNot (vC a)
  | .cond c x y => pCond (vC c) (vC x) (vC y)
  | .all xs => coerceC ((vCs xs).foldl pAnd .t)
  | .exists_ xs => coerceC ((vCs xs).foldl pOr .f)
def vCs : List LExpr → List O
  | [] => []
  | x :: xs => vC x :: vCs xs
end

theorem foldlM_land (l : List O) (acc : O) :
    l.foldlM (fun acc x => catchTE (land acc x)) acc = .ok (l.foldl pAnd acc) := by
  induction l generalizing acc with
  | nil => rfl
  | cons x xs ih => rw [List.foldlM_cons, catchTE_land]; exact ih _
theorem foldlM_lor (l : List O) (acc : O) :
    l.foldlM (fun acc x => catchTE (lor acc x)) acc = .ok (l.foldl pOr acc) := by
  induction l generalizing acc with
  | nil => rfl
  | cons x xs ih => rw [List.foldlM_cons, catchTE_lor]; exact ih _

mutual
theorem evI_eq_vI : (e : LExpr) → evI e = .ok (vI e)
  | .lit o => rfl
  | .and a b => by simp [evI, vI, evI_eq_vI a, evI_eq_vI b, bind, Except.bind, catchTE_land]
  | .or a b => by simp [evI, vI, evI_eq_vI a, evI_eq_vI b, bind, Except.bind, catchTE_lor]
  | .not a => by simp [evI, vI, evI_eq_vI a, bind, Except.bind, catchTE_lnot]
  | .cond c x y => by
      simp only [evI, vI, evI_eq_vI c, evI_eq_vI x, evI_eq_vI y, bind, Except.bind]
      split <;> simp [catchTE_lcond]
  | .all xs => by simp [evI, vI, evIs_eq_vIs xs, bind, Except.bind, allI, foldlM_land]
  | .exists_ xs => by simp [evI, vI, evIs_eq_vIs xs, bind, Except.bind, existsI, foldlM_lor]
theorem evIs_eq_vIs : (xs : List LExpr) → evIs xs = .ok (vIs xs)
  | [] => rfl
  | x :: xs => by simp [evIs, vIs, evI_eq_vI x, evIs_eq_vIs xs, bind, Except.bind]
end

/-! compiled runner -/
theorem result_land (x y : O) : result (land x y) = .ok (pAnd x y) := by cases x <;> cases y <;> rfl
theorem result_lor (x y : O) : result (lor x y) = .ok (pOr x y) := by cases x <;> cases y <;> rfl

/-- the denotation of the transpiled code either returns the value `vC e`, or raises TypeError where `vC e` is the error -/
def CInv5 (e : LExpr) : Prop := evC e = .ok (vC e) ∨ (evC e = .error .typeError ∧ vC e = .e)

theorem result_of_CInv5 {e : LExpr} (h : CInv5 e) : result (evC e) = .ok (vC e) := by
  rcases h with h | ⟨h, hk⟩
  · rw [h]; rfl
  · rw [h, hk]; rfl

theorem okOr_cases (r : PyM O) (h : (∃ v, r = .ok v) ∨ r = .error .typeError) :
    r = .ok (okOr r) ∨ (r = .error .typeError ∧ okOr r = .e) := by
  rcases h with ⟨v, rfl⟩ | rfl
  · left; rfl
  · right; exact ⟨rfl, rfl⟩

theorem land_shape (x y : O) : (∃ v, land x y = .ok v) ∨ land x y = .error .typeError := by
  cases x <;> cases y <;> first | (left; exact ⟨_, rfl⟩) | (right; rfl)
theorem lor_shape (x y : O) : (∃ v, lor x y = .ok v) ∨ lor x y = .error .typeError := by
  cases x <;> cases y <;> first | (left; exact ⟨_, rfl⟩) | (right; rfl)
theorem lnot_shape (x : O) : (∃ v, lnot x = .ok v) ∨ lnot x = .error .typeError := by
  cases x <;> first | (left; exact ⟨_, rfl⟩) | (right; rfl)
theorem lcond_shape (c x y : O) : (∃ v, lcond c x y = .ok v) ∨ lcond c x y = .error .typeError := by
  cases c <;> first | (left; exact ⟨_, rfl⟩) | (right; rfl)
theorem boolTypeOf_shape (x : O) : (∃ v, boolTypeOf x = .ok v) ∨ boolTypeOf x = .error .typeError := by
  cases x <;> first | (left; exact ⟨_, rfl⟩) | (right; rfl)

mutual
theorem evC_inv5 : (e : LExpr) → CInv5 e
  | .lit o => by cases o <;> simp [CInv5, evC, vC]
  | .and a b => by
      have ha := result_of_CInv5 (evC_inv5 a); have hb := result_of_CInv5 (evC_inv5 b)
      simp only [CInv5, evC, vC, ha, hb, bind, Except.bind]
      exact okOr_cases _ (land_shape _ _)
  | .or a b => by
      have ha := result_of_CInv5 (evC_inv5 a); have hb := result_of_CInv5 (evC_inv5 b)
      simp only [CInv5, evC, vC, ha, hb, bind, Except.bind]
      exact okOr_cases _ (lor_shape _ _)
  | .not a => by
      rcases evC_inv5 a with ha | ⟨ha, hk⟩
      · simp only [CInv5, evC, vC, ha, bind, Except.bind]
        exact okOr_cases _ (lnot_shape _)
      · have : evC (.not a) = .error .typeError := by simp [evC, ha, bind, Except.bind]
        exact Or.inr ⟨this, by simp only [vC, hk]; rfl⟩
  | .cond c x y => by
      have hc := result_of_CInv5 (evC_inv5 c)
      have hx := result_of_CInv5 (evC_inv5 x)
      have hy := result_of_CInv5 (evC_inv5 y)
      simp only [CInv5, evC, vC, hc, hx, hy, bind, Except.bind]
      exact okOr_cases _ (lcond_shape _ _ _)
  | .all xs => by
      simp only [CInv5, evC, vC, evCs_eq_vCs xs, bind, Except.bind, allC, foldlM_land]
      exact okOr_cases _ (boolTypeOf_shape _)
  | .exists_ xs => by
      simp only [CInv5, evC, vC, evCs_eq_vCs xs, bind, Except.bind, existsC, foldlM_lor]
      exact okOr_cases _ (boolTypeOf_shape _)
theorem evCs_eq_vCs : (xs : List LExpr) → evCs xs = .ok (vCs xs)
  | [] => rfl
  | x :: xs => by
      simp [evCs, vCs, result_of_CInv5 (evC_inv5 x), evCs_eq_vCs xs, bind, Except.bind]
end

/-! agreement with the (partial) specification -/

/-- `v` is what the specification asks for, where it asks for anything -/
def agrees : Option O → O → Bool
  | none, _ => true
  | some o, v => v == o

def agreesL : List (Option O) → List O → Bool
  | [], [] => true
  | s :: ss, v :: vs => agrees s v && agreesL ss vs
  | _, _ => false

theorem agrees_and (sa sb : Option O) (x y : O) (ha : agrees sa x = true) (hb : agrees sb y = true) :
    agrees (specBin .f .t sa sb) (pAnd x y) = true := by
  rcases sa with _ | (_|_|_|_|_) <;> rcases sb with _ | (_|_|_|_|_) <;> cases x <;> cases y <;>
    first | rfl | (exact absurd ha (by decide)) | (exact absurd hb (by decide))
theorem agrees_or (sa sb : Option O) (x y : O) (ha : agrees sa x = true) (hb : agrees sb y = true) :
    agrees (specBin .t .f sa sb) (pOr x y) = true := by
  rcases sa with _ | (_|_|_|_|_) <;> rcases sb with _ | (_|_|_|_|_) <;> cases x <;> cases y <;>
    first | rfl | (exact absurd ha (by decide)) | (exact absurd hb (by decide))
theorem agrees_not (sa : Option O) (x : O) (ha : agrees sa x = true) : agrees (specNot sa) (pNot x) = true := by
  rcases sa with _ | (_|_|_|_|_) <;> cases x <;> first | rfl | (exact absurd ha (by decide))

theorem agrees_condI (sc sx sy : Option O) (c x y : O) (hc : agrees sc c = true) (hx : agrees sx x = true)
    (hy : agrees sy y = true) :
    agrees (specCond sc sx sy) (if c.truthy then pCond c x .f else pCond c .f y) = true := by
  rcases sc with _ | (_|_|_|_|_) <;> cases c <;>
    first | rfl | (exact absurd hc (by decide)) | exact hx | exact hy
theorem agrees_condC (sc sx sy : Option O) (c x y : O) (hc : agrees sc c = true) (hx : agrees sx x = true)
    (hy : agrees sy y = true) : agrees (specCond sc sx sy) (pCond c x y) = true := by
  rcases sc with _ | (_|_|_|_|_) <;> cases c <;>
    first | rfl | (exact absurd hc (by decide)) | exact hx | exact hy

theorem agrees_foldl_and (ss : List (Option O)) (vs : List O) (sacc : Option O) (acc : O)
    (h : agreesL ss vs = true) (ha : agrees sacc acc = true) :
    agrees (ss.foldl (specBin .f .t) sacc) (vs.foldl pAnd acc) = true := by
  induction ss generalizing vs sacc acc with
  | nil => cases vs with
    | nil => exact ha
    | cons v vs => simp [agreesL] at h
  | cons s ss ih => cases vs with
    | nil => simp [agreesL] at h
    | cons v vs =>
      simp [agreesL] at h
      exact ih vs _ _ h.2 (agrees_and _ _ _ _ ha h.1)
theorem agrees_foldl_or (ss : List (Option O)) (vs : List O) (sacc : Option O) (acc : O)
    (h : agreesL ss vs = true) (ha : agrees sacc acc = true) :
    agrees (ss.foldl (specBin .t .f) sacc) (vs.foldl pOr acc) = true := by
  induction ss generalizing vs sacc acc with
  | nil => cases vs with
    | nil => exact ha
    | cons v vs => simp [agreesL] at h
  | cons s ss ih => cases vs with
    | nil => simp [agreesL] at h
    | cons v vs =>
      simp [agreesL] at h
      exact ih vs _ _ h.2 (agrees_or _ _ _ _ ha h.1)

/-- the specification never asks for a non-boolean VALUE out of `all`/`exists` -/
def notNb : Option O → Bool
  | some .vt => false | some .vf => false | _ => true
theorem specBin_notNb_and (a b : Option O) : notNb (specBin .f .t a b) = true := by
  rcases a with _ | (_|_|_|_|_) <;> rcases b with _ | (_|_|_|_|_) <;> rfl
theorem specBin_notNb_or (a b : Option O) : notNb (specBin .t .f a b) = true := by
  rcases a with _ | (_|_|_|_|_) <;> rcases b with _ | (_|_|_|_|_) <;> rfl
theorem foldl_notNb_and (ss : List (Option O)) (acc : Option O) (h : notNb acc = true) :
    notNb (ss.foldl (specBin .f .t) acc) = true := by
  induction ss generalizing acc with
  | nil => exact h
  | cons s ss ih => exact ih _ (specBin_notNb_and _ _)
theorem foldl_notNb_or (ss : List (Option O)) (acc : Option O) (h : notNb acc = true) :
    notNb (ss.foldl (specBin .t .f) acc) = true := by
  induction ss generalizing acc with
  | nil => exact h
  | cons s ss ih => exact ih _ (specBin_notNb_or _ _)
theorem agrees_coerce (s : Option O) (v : O) (hn : notNb s = true) (h : agrees s v = true) :
    agrees s (coerceC v) = true := by
  rcases s with _ | (_|_|_|_|_) <;> cases v <;>
    first | rfl | (exact absurd h (by decide)) | (exact absurd hn (by decide))

mutual
theorem spec_agrees_I : (e : LExpr) → agrees (spec e) (vI e) = true
  | .lit o => by cases o <;> rfl
  | .and a b => by simp only [spec, vI]; exact agrees_and _ _ _ _ (spec_agrees_I a) (spec_agrees_I b)
  | .or a b => by simp only [spec, vI]; exact agrees_or _ _ _ _ (spec_agrees_I a) (spec_agrees_I b)
  | .not a => by simp only [spec, vI]; exact agrees_not _ _ (spec_agrees_I a)
  | .cond c x y => by
      simp only [spec, vI]
      exact agrees_condI _ _ _ _ _ _ (spec_agrees_I c) (spec_agrees_I x) (spec_agrees_I y)
  | .all xs => by simp only [spec, vI]; exact agrees_foldl_and _ _ _ _ (specs_agrees_I xs) rfl
  | .exists_ xs => by simp only [spec, vI]; exact agrees_foldl_or _ _ _ _ (specs_agrees_I xs) rfl
theorem specs_agrees_I : (xs : List LExpr) → agreesL (specs xs) (vIs xs) = true
  | [] => rfl
  | x :: xs => by simp only [specs, vIs, agreesL, spec_agrees_I x, specs_agrees_I xs]; rfl
end

mutual
theorem spec_agrees_C : (e : LExpr) → agrees (spec e) (vC e) = true
  | .lit o => by cases o <;> rfl
  | .and a b => by simp only [spec, vC]; exact agrees_and _ _ _ _ (spec_agrees_C a) (spec_agrees_C b)
  | .or a b => by simp only [spec, vC]; exact agrees_or _ _ _ _ (spec_agrees_C a) (spec_agrees_C b)
  | .not a => by simp only [spec, vC]; exact agrees_not _ _ (spec_agrees_C a)
  | .cond c x y => by
      simp only [spec, vC]
      exact agrees_condC _ _ _ _ _ _ (spec_agrees_C c) (spec_agrees_C x) (spec_agrees_C y)
  | .all xs => by
      simp only [spec, vC]
      exact agrees_coerce _ _ (foldl_notNb_and _ _ rfl) (agrees_foldl_and _ _ _ _ (specs_agrees_C xs) rfl)
  | .exists_ xs => by
      simp only [spec, vC]
      exact agrees_coerce _ _ (foldl_notNb_or _ _ rfl) (agrees_foldl_or _ _ _ _ (specs_agrees_C xs) rfl)
theorem specs_agrees_C : (xs : List LExpr) → agreesL (specs xs) (vCs xs) = true
  | [] => rfl
  | x :: xs => by simp only [specs, vCs, agreesL, spec_agrees_C x, specs_agrees_C xs]; rfl
end

theorem agrees_some {o v : O} (h : agrees (some o) v = true) : v = o := by
  cases o <;> cases v <;> first | rfl | (exact absurd h (by decide))

/-- the specification is DEFINED, with a three-valued answer -/
def defd3 : Option O → Bool
  | some .t => true | some .f => true | some .e => true | _ => false
theorem specBin_defd3_and (a b : Option O) (ha : defd3 a = true) (hb : defd3 b = true) :
    defd3 (specBin .f .t a b) = true := by
  rcases a with _ | (_|_|_|_|_) <;> rcases b with _ | (_|_|_|_|_) <;>
    first | rfl | (exact absurd ha (by decide)) | (exact absurd hb (by decide))
theorem specBin_defd3_or (a b : Option O) (ha : defd3 a = true) (hb : defd3 b = true) :
    defd3 (specBin .t .f a b) = true := by
  rcases a with _ | (_|_|_|_|_) <;> rcases b with _ | (_|_|_|_|_) <;>
    first | rfl | (exact absurd ha (by decide)) | (exact absurd hb (by decide))
theorem specNot_defd3 (a : Option O) (ha : defd3 a = true) : defd3 (specNot a) = true := by
  rcases a with _ | (_|_|_|_|_) <;> first | rfl | (exact absurd ha (by decide))
theorem specCond_defd3 (c x y : Option O) (hc : defd3 c = true) (hx : defd3 x = true) (hy : defd3 y = true) :
    defd3 (specCond c x y) = true := by
  rcases c with _ | (_|_|_|_|_) <;> first | rfl | exact hx | exact hy | (exact absurd hc (by decide))
theorem foldl_defd3_and (ss : List (Option O)) (acc : Option O) (h : defd3 acc = true)
    (hs : ∀ s ∈ ss, defd3 s = true) : defd3 (ss.foldl (specBin .f .t) acc) = true := by
  induction ss generalizing acc with
  | nil => exact h
  | cons s ss ih =>
    exact ih _ (specBin_defd3_and _ _ h (hs s (by simp))) (fun t ht => hs t (by simp [ht]))
theorem foldl_defd3_or (ss : List (Option O)) (acc : Option O) (h : defd3 acc = true)
    (hs : ∀ s ∈ ss, defd3 s = true) : defd3 (ss.foldl (specBin .t .f) acc) = true := by
  induction ss generalizing acc with
  | nil => exact h
  | cons s ss ih =>
    exact ih _ (specBin_defd3_or _ _ h (hs s (by simp))) (fun t ht => hs t (by simp [ht]))

mutual
theorem spec_defd3 : (e : LExpr) → b3 e = true → defd3 (spec e) = true
  | .lit o, h => by cases o <;> simp_all [b3, O.is3, spec, defd3]
  | .and a b, h => by
      simp [b3] at h; simp only [spec]; exact specBin_defd3_and _ _ (spec_defd3 a h.1) (spec_defd3 b h.2)
  | .or a b, h => by
      simp [b3] at h; simp only [spec]; exact specBin_defd3_or _ _ (spec_defd3 a h.1) (spec_defd3 b h.2)
  | .not a, h => by simp [b3] at h; simp only [spec]; exact specNot_defd3 _ (spec_defd3 a h)
  | .cond c x y, h => by
      simp [b3] at h; simp only [spec]
      exact specCond_defd3 _ _ _ (spec_defd3 c h.1.1) (spec_defd3 x h.1.2) (spec_defd3 y h.2)
  | .all xs, h => by
      simp [b3] at h; simp only [spec]; exact foldl_defd3_and _ _ rfl (specs_defd3 xs h)
  | .exists_ xs, h => by
      simp [b3] at h; simp only [spec]; exact foldl_defd3_or _ _ rfl (specs_defd3 xs h)
theorem specs_defd3 : (xs : List LExpr) → b3s xs = true → ∀ s ∈ specs xs, defd3 s = true
  | [], _ => by intro s hs; simp [specs] at hs
  | x :: xs, h => by
      simp [b3s] at h
      intro s hs
      simp [specs] at hs
      rcases hs with rfl | hs
      · exact spec_defd3 x h.1
      · exact specs_defd3 xs h.2 s hs
end

theorem defd3_some {s : Option O} (h : defd3 s = true) : ∃ o, s = some o := by
  rcases s with _ | o
  · exact absurd h (by decide)
  · exact ⟨o, rfl⟩

theorem foldl_specBin_dec_and (ss : List (Option O)) (acc : Option O) (h : acc = some .f ∨ some .f ∈ ss) :
    ss.foldl (specBin .f .t) acc = some .f := by
  induction ss generalizing acc with
  | nil => simpa using h
  | cons s ss ih =>
    apply ih
    rcases h with rfl | h
    · left; simp [specBin]
    · simp at h
      rcases h with rfl | h
      · left; simp [specBin]
      · right; exact h
theorem foldl_specBin_dec_or (ss : List (Option O)) (acc : Option O) (h : acc = some .t ∨ some .t ∈ ss) :
    ss.foldl (specBin .t .f) acc = some .t := by
  induction ss generalizing acc with
  | nil => simpa using h
  | cons s ss ih =>
    apply ih
    rcases h with rfl | h
    · left; simp [specBin]
    · simp at h
      rcases h with rfl | h
      · left; simp [specBin]
      · right; exact h

