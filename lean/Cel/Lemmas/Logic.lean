/- Helper definitions and lemmas for C02: the three-valued (Kleene) specification. -/
import Cel.Model.Logic
namespace Cel

def O.is3 : O → Bool
  | .t => true | .f => true | .e => true | _ => false

/-- CEL's error-absorbing conjunction on {true,false,error}. -/
def kand (x y : O) : O :=
  if x = .f ∨ y = .f then .f else if x = .t ∧ y = .t then .t else .e
def kor (x y : O) : O :=
  if x = .t ∨ y = .t then .t else if x = .f ∧ y = .f then .f else .e
def knot : O → O
  | .t => .f | .f => .t | _ => .e
def kcond (c x y : O) : O :=
  match c with | .t => x | .f => y | _ => .e
/-- `all` over a list of outcomes: false if some element is false, true if all are true, error otherwise. -/
def kall (l : List O) : O :=
  if .f ∈ l then .f else if ∀ x ∈ l, x = .t then .t else .e
def kexists (l : List O) : O :=
  if .t ∈ l then .t else if ∀ x ∈ l, x = .f then .f else .e

mutual
def kleene : LExpr → O
  | .lit o => o
  | .and a b => kand (kleene a) (kleene b)
  | .or a b => kor (kleene a) (kleene b)
  | .not a => knot (kleene a)
  | .cond c x y => kcond (kleene c) (kleene x) (kleene y)
  | .all xs => kall (kleenes xs)
  | .exists_ xs => kexists (kleenes xs)
def kleenes : List LExpr → List O
  | [] => []
  | x :: xs => kleene x :: kleenes xs
end

mutual
/-- every leaf is true, false or error -/
def b3 : LExpr → Bool
  | .lit o => o.is3
  | .and a b => b3 a && b3 b
  | .or a b => b3 a && b3 b
  | .not a => b3 a
  | .cond c x y => b3 c && b3 x && b3 y
  | .all xs => b3s xs
  | .exists_ xs => b3s xs
def b3s : List LExpr → Bool
  | [] => true
  | x :: xs => b3 x && b3s xs
end

theorem kand_is3 (x y : O) : (kand x y).is3 = true := by
  cases x <;> cases y <;> rfl
theorem kor_is3 (x y : O) : (kor x y).is3 = true := by
  cases x <;> cases y <;> rfl
theorem knot_is3 (x : O) : (knot x).is3 = true := by cases x <;> rfl
theorem kcond_is3 (c x y : O) (hx : x.is3 = true) (hy : y.is3 = true) : (kcond c x y).is3 = true := by
  cases c <;> simp [kcond, hx, hy] <;> rfl
theorem kall_is3 (l : List O) : (kall l).is3 = true := by
  unfold kall; split
  · rfl
  · split <;> rfl
theorem kexists_is3 (l : List O) : (kexists l).is3 = true := by
  unfold kexists; split
  · rfl
  · split <;> rfl

mutual
theorem kleene_is3 : (e : LExpr) → b3 e = true → (kleene e).is3 = true
  | .lit o, h => by simpa [b3, kleene] using h
  | .and a b, _ => by simp [kleene, kand_is3]
  | .or a b, _ => by simp [kleene, kor_is3]
  | .not a, _ => by simp [kleene, knot_is3]
  | .cond c x y, h => by
      simp [b3] at h
      simp only [kleene]
      exact kcond_is3 _ _ _ (kleene_is3 x h.1.2) (kleene_is3 y h.2)
  | .all xs, _ => by simp [kleene, kall_is3]
  | .exists_ xs, _ => by simp [kleene, kexists_is3]
end

/-- the interpreter's `all` fold, started from accumulator `acc ∈ {t,f,e}` -/
theorem allI_fold (l : List O) (acc : O) (hacc : acc.is3 = true) (hl : ∀ x ∈ l, x.is3 = true) :
    l.foldlM (fun acc x => catchTE (land acc x)) acc = .ok (kand acc (kall l)) := by
  induction l generalizing acc with
  | nil => cases acc <;> simp_all [kand, kall, O.is3] <;> rfl
  | cons x xs ih =>
    have hx : x.is3 = true := hl x (by simp)
    have hxs : ∀ y ∈ xs, y.is3 = true := fun y hy => hl y (by simp [hy])
    simp only [List.foldlM_cons]
    have step : catchTE (land acc x) = .ok (kand acc x) := by
      cases acc <;> cases x <;> simp_all [O.is3] <;> rfl
    rw [step]
    show (xs.foldlM _ (kand acc x)) = _
    rw [ih (kand acc x) (kand_is3 _ _) hxs]
    congr 1
    cases acc <;> cases x <;> simp_all [O.is3, kand, kall, List.mem_cons] <;>
      (try split) <;> simp_all

theorem existsI_fold (l : List O) (acc : O) (hacc : acc.is3 = true) (hl : ∀ x ∈ l, x.is3 = true) :
    l.foldlM (fun acc x => catchTE (lor acc x)) acc = .ok (kor acc (kexists l)) := by
  induction l generalizing acc with
  | nil => cases acc <;> simp_all [kor, kexists, O.is3] <;> rfl
  | cons x xs ih =>
    have hx : x.is3 = true := hl x (by simp)
    have hxs : ∀ y ∈ xs, y.is3 = true := fun y hy => hl y (by simp [hy])
    simp only [List.foldlM_cons]
    have step : catchTE (lor acc x) = .ok (kor acc x) := by
      cases acc <;> cases x <;> simp_all [O.is3] <;> rfl
    rw [step]
    show (xs.foldlM _ (kor acc x)) = _
    rw [ih (kor acc x) (kor_is3 _ _) hxs]
    congr 1
    cases acc <;> cases x <;> simp_all [O.is3, kor, kexists, List.mem_cons] <;>
      (try split) <;> simp_all

theorem kand_t (x : O) (h : x.is3 = true) : kand .t x = x := by cases x <;> simp_all [kand, O.is3]
theorem kor_f (x : O) (h : x.is3 = true) : kor .f x = x := by cases x <;> simp_all [kor, O.is3]

theorem kleenes_is3 (xs : List LExpr) (h : b3s xs = true) : ∀ x ∈ kleenes xs, x.is3 = true := by
  induction xs with
  | nil => intro x hx; simp [kleenes] at hx
  | cons y ys ih =>
    intro x hx
    simp [b3s] at h
    simp [kleenes] at hx
    rcases hx with rfl | hx
    · exact kleene_is3 y h.1
    · exact ih h.2 x hx

theorem land3 (x y : O) (hx : x.is3 = true) (hy : y.is3 = true) :
    catchTE (land x y) = .ok (kand x y) := by
  cases x <;> cases y <;> simp_all [O.is3] <;> rfl
theorem lor3 (x y : O) (hx : x.is3 = true) (hy : y.is3 = true) :
    catchTE (lor x y) = .ok (kor x y) := by
  cases x <;> cases y <;> simp_all [O.is3] <;> rfl
theorem lnot3 (x : O) (hx : x.is3 = true) : catchTE (lnot x) = .ok (knot x) := by
  cases x <;> simp_all [O.is3] <;> rfl
