/-
  Cel.Model.Runtime — the API state machine of cel-python (C05) : a heap of `NameContainer`
  objects, environments, parsed trees, programs, and the four API operations
  `Environment(...)`, `Environment.compile`, `Environment.program`, `Runner.evaluate`
  (plus the documented parser reset `CELParser.CEL_PARSER = None`).

  mirrors  src/celpy/celparser.py:105-143      (parser cache)
           src/celpy/__init__.py               (Runner.new_activation, InterpretedRunner.evaluate,
                                                CompiledRunner.__init__/evaluate, Environment)
           src/celpy/evaluation.py:573-1344    (Referent, NameContainer, Activation)
           src/celpy/evaluation.py:1448-1530   (Evaluator.__init__/set_activation/evaluate)
           src/celpy/evaluation.py:3047-3105   (Transpiler.__init__/evaluate)

  The heap makes aliasing explicit.  An object identity is `Id = root × path`: a *root* number is
  drawn from a counter for every `NameContainer` that is created as the `identifiers` of an
  `Activation` (fresh or cloned); a nested container is named by the slot (container, key) that
  first points to it — each slot's `container` attribute is assigned at most once, so this is a
  fresh-name scheme, not an assumption about the shape of the heap.  `Referent.clone` is
  parameterised by what the source does (`ClonePolicy`, read from the source by
  `py/verif/translate/gen_c05_c16.py`): `shallow` copies the *reference* to the nested container
  (the defect D3), `deep` clones it.

  Core Lean only.
-/
import Cel.Model.Basic
namespace Cel.Runtime
open Cel

/-! ## configuration read from the source -/

/-- what `Referent.clone` does with `self.container` -/
inductive ClonePolicy | shallow | deep
  deriving DecidableEq, Repr
/-- `CELParser.__init__`: one process-wide parser (tree class of the first request) or one per tree class -/
inductive ParserPolicy | singleton | perClass
  deriving DecidableEq, Repr
/-- the namespace `Transpiler.evaluate` hands to `exec` -/
inductive NamespacePolicy | shared | perCall
  deriving DecidableEq, Repr

structure Config where
  clone : ClonePolicy
  parser : ParserPolicy
  ns : NamespacePolicy
  /-- `resolve_name` treats a `TypeError` of `find_name` ("… not a container") like `NotFound` (D11 fixed) -/
  skipTE : Bool := true
  deriving DecidableEq, Repr

/-- the configuration the property theorems are stated for -/
def Config.fixed : Config := ⟨.deep, .perClass, .perCall, true⟩

/-! ## values, referents, containers, heap -/

abbrev Ann := String

/-- binding values (opaque payloads; a flat map is enough to exercise the "name.name is sugar for
indexing" fallback of `find_name`) -/
inductive Val where
  | int (n : Int) | str (s : String) | bool (b : Bool) | map (m : List (String × Int))
  deriving DecidableEq, Repr, Inhabited

abbrev Id := Nat × List String

/-- `Referent`: annotation, nested container (a reference!), value (`_value_set` = `val.isSome`) -/
structure Ref where
  ann : Option Ann := none
  cont : Option Id := none
  val : Option Val := none
  deriving DecidableEq, Repr, Inhabited

/-- `NameContainer(Dict[str, Referent])`, insertion ordered -/
abbrev NC := List (String × Ref)

def NC.find : NC → String → Option Ref
  | [], _ => none
  | (k', r) :: rest, k => if k' = k then some r else NC.find rest k

/-- `dict.setdefault(k, r)` -/
def NC.setdefault (nc : NC) (k : String) (r : Ref) : NC :=
  match nc.find k with
  | some _ => nc
  | none => nc ++ [(k, r)]

/-- update the referent stored under `k` (attribute assignment on the object in the dict) -/
def NC.modify : NC → String → (Ref → Ref) → NC
  | [], _, _ => []
  | (k', r) :: rest, k, f => if k' = k then (k', f r) :: rest else (k', r) :: NC.modify rest k f

structure Heap where
  cells : List (Id × NC) := []
  next : Nat := 0
  deriving Repr

def cellsGet : List (Id × NC) → Id → Option NC
  | [], _ => none
  | (j, nc) :: rest, i => if j = i then some nc else cellsGet rest i

def Heap.get (h : Heap) (i : Id) : Option NC := cellsGet h.cells i
def Heap.set (h : Heap) (i : Id) (nc : NC) : Heap := { h with cells := (i, nc) :: h.cells }
/-- a fresh root number -/
def Heap.fresh (h : Heap) : Heap × Nat := ({ h with next := h.next + 1 }, h.next)

def getCell (h : Heap) (i : Id) : PyM NC :=
  match h.get i with
  | some nc => .ok nc
  | none => .error .other        -- dangling reference: cannot happen (Lemmas: never on reachable worlds)

/-! ## names -/

def isIdStart (c : Char) : Bool := c == '_' || c.isAlpha
def isIdChar (c : Char) : Bool := c == '_' || c.isAlphanum
def isIdent : List Char → Bool
  | [] => false
  | c :: cs => isIdStart c && cs.all isIdChar

def splitOnDot : List Char → List Char → List (List Char)
  | [], acc => [acc.reverse]
  | c :: cs, acc => if c == '.' then acc.reverse :: splitOnDot cs [] else splitOnDot cs (c :: acc)

/-- `extended_name_path.match(name)` (`^\.?IDENT(?:\.IDENT)*$`, `$` also matches before one trailing
newline) followed by `ident_pat.findall(name)`: the segments, or `none` = `ValueError("Invalid name")` -/
def splitName (s : String) : Option (List String) :=
  let cs := s.toList
  let cs := match cs.reverse with
    | '\n' :: r => r.reverse
    | _ => cs
  let cs := match cs with
    | '.' :: r => r
    | _ => cs
  let segs := splitOnDot cs []
  if segs.all isIdent then some (segs.map String.ofList) else none

/-- `ident_pat.findall(s)` on an arbitrary string (the package name) -/
def findallAux : List Char → Option (List Char) → List String
  | [], none => []
  | [], some acc => [String.ofList acc.reverse]
  | c :: cs, none => if isIdStart c then findallAux cs (some [c]) else findallAux cs none
  | c :: cs, some acc =>
      if isIdChar c then findallAux cs (some (c :: acc))
      else String.ofList acc.reverse :: (if isIdStart c then findallAux cs (some [c]) else findallAux cs none)

def identFindall (s : String) : List String := findallAux s.toList none

/-! ## `load_annotations` / `load_values` (evaluation.py:858-909) -/

/-- one round of the `for name in path:` loop:
`ref = context.setdefault(name, Referent()); if ref.container is None: ref.container = NameContainer(...); context = ref.container` -/
def descend (h : Heap) (ctx : Id) (k : String) : PyM (Heap × Id) :=
  match h.get ctx with
  | none => .error .other
  | some nc =>
    let nc1 := nc.setdefault k {}
    match (nc1.find k).bind (·.cont) with
    | some c => .ok (h.set ctx nc1, c)
    | none =>
      let c : Id := (ctx.1, ctx.2 ++ [k])
      .ok ((h.set ctx (nc1.modify k fun r => { r with cont := some c })).set c [], c)

def descendPath (h : Heap) (ctx : Id) : List String → PyM (Heap × Id)
  | [] => .ok (h, ctx)
  | k :: ks =>
    match descend h ctx k with
    | .error e => .error e
    | .ok (h1, c) => descendPath h1 c ks

/-- the body of `load_annotations` for one `name: annotation` item -/
def loadAnnotation (h : Heap) (root : Id) (name : String) (a : Ann) : PyM Heap :=
  match splitName name with
  | none => .error .valueError
  | some segs =>
    match descendPath h root segs.dropLast with
    | .error e => .error e
    | .ok (h1, ctx) =>
      match h1.get ctx with
      | none => .error .other
      | some nc => .ok (h1.set ctx (nc.setdefault (segs.getLastD "") { ann := some a }))

def loadAnnotations (h : Heap) (root : Id) : List (String × Ann) → PyM Heap
  | [] => .ok h
  | (n, a) :: rest =>
    match loadAnnotation h root n a with
    | .error e => .error e
    | .ok h1 => loadAnnotations h1 root rest

/-- the body of `load_values` for one `name: value` item:
`context.setdefault(final, Referent()); context[final].value = refers_to` -/
def loadValue (h : Heap) (root : Id) (name : String) (v : Val) : PyM Heap :=
  match splitName name with
  | none => .error .valueError
  | some segs =>
    match descendPath h root segs.dropLast with
    | .error e => .error e
    | .ok (h1, ctx) =>
      match h1.get ctx with
      | none => .error .other
      | some nc =>
        let k := segs.getLastD ""
        .ok (h1.set ctx ((nc.setdefault k {}).modify k fun r => { r with val := some v }))

def loadValues (h : Heap) (root : Id) : List (String × Val) → PyM Heap
  | [] => .ok h
  | (n, v) :: rest =>
    match loadValue h root n v with
    | .error e => .error e
    | .ok h1 => loadValues h1 root rest

/-! ## `clone` (evaluation.py:696-701, 1095-1099) -/

/-- `for k, v in self.items(): new[k] = v.clone()` — `rec` is `NameContainer.clone` one level down -/
def cloneRefs (pol : ClonePolicy) (rec : Heap → Id → Id → PyM Heap) (dst : Id) : Heap → NC → PyM (Heap × NC)
  | h, [] => .ok (h, [])
  | h, (k, r) :: rest =>
    match (match pol, r.cont with
           | .deep, some c =>
             let d : Id := (dst.1, dst.2 ++ [k])
             match rec h c d with
             | .error e => (.error e : PyM (Heap × Option Id))
             | .ok h' => .ok (h', some d)
           | _, c => .ok (h, c)) with
    | .error e => .error e
    | .ok (h1, c') =>
      match cloneRefs pol rec dst h1 rest with
      | .error e => .error e
      | .ok (h2, rest') => .ok (h2, (k, { r with cont := c' }) :: rest')

/-- `NameContainer.clone` of the container `src` into the new object `dst`; the fuel stands for the
Python recursion limit (`RecursionError` on absurdly deep names) -/
def cloneInto (pol : ClonePolicy) : Nat → Heap → Id → Id → PyM Heap
  | 0, _, _, _ => .error .recursion
  | f + 1, h, src, dst =>
    match h.get src with
    | none => .error .other
    | some nc =>
      match cloneRefs pol (cloneInto pol f) dst h nc with
      | .error e => .error e
      | .ok (h1, nc') => .ok (h1.set dst nc')

def cloneFuel : Nat := 1000

/-! ## reading: what an evaluation can see of an activation

Both evaluators reach containers only by walking names from the activation's `identifiers`
(`resolve_name` → `find_name`, `member_dot` on a `NameContainer`), so a container *value* is identified
by the path walked to it, and everything an evaluation observes is a function of the *view*
`path ↦ what the container reached by that path holds`. -/

structure RefView where
  ann : Option Ann
  hasCont : Bool
  val : Option Val
  deriving DecidableEq, Repr

def Ref.view (r : Ref) : RefView := ⟨r.ann, r.cont.isSome, r.val⟩
abbrev CellView := List (String × RefView)
def NC.view (nc : NC) : CellView := nc.map fun kr => (kr.1, kr.2.view)
abbrev View := List String → Option CellView

/-- follow `container` references along a path -/
def walk (h : Heap) (i : Id) : List String → Option Id
  | [] => some i
  | k :: ks =>
    match h.get i with
    | none => none
    | some nc =>
      match (nc.find k).bind (·.cont) with
      | none => none
      | some c => walk h c ks

def viewAt (h : Heap) (root : Id) : View := fun q =>
  match walk h root q with
  | none => none
  | some i => (h.get i).map NC.view

def CellView.find : CellView → String → Option RefView
  | [], _ => none
  | (k', r) :: rest, k => if k' = k then some r else CellView.find rest k

/-! ## expressions (the fragment the state machine evaluates) and results -/

inductive Expr where
  | lit (n : Int)
  | ident (x : String)        -- `x`
  | dotIdent (x : String)     -- `.x`
  | dot (e : Expr) (k : String)  -- `e.k`
  | add (a b : Expr)
  deriving DecidableEq, Repr, Inhabited

/-- what an expression can evaluate to -/
inductive RV where
  | v (x : Val)
  | typ (a : Ann)              -- an annotation (a type) without a value
  | cont (q : List String)     -- a `NameContainer` (identified by the path from the activation)
  | pyNone                     -- `Referent()` without annotation, value or container
  deriving DecidableEq, Repr

/-- outcome of `find_name`: `NotFound` (keep searching) is distinguished from a raised exception -/
inductive Found where
  | notFound
  | ref (q : List String) (k : String) (r : RefView)   -- the Referent stored under `k` in the container at `q`
  | synth (x : Val)                                  -- `Referent(MapType)` with `.value = x` built by `dict_find_name`
  | self (q : List String)                           -- empty path: a Referent whose value is the container
  deriving Repr

/-- `dict_find_name(some_dict, path)` for a flat map value -/
def dictFindName (m : List (String × Int)) : List String → PyM Found
  | [] => .ok (.synth (.map m))
  | [k] => match m.find? (·.1 == k) with
           | some (_, n) => .ok (.synth (.int n))
           | none => .ok .notFound
  | k :: _ :: _ => match m.find? (·.1 == k) with
           | some _ => .error .typeError      -- `IntType[...]`
           | none => .ok .notFound

/-- `NameContainer.find_name(path)` on the container at `q` (evaluation.py:953-1015) -/
def findName (vw : View) : List String → List String → PyM Found
  | q, [] => .ok (.self q)
  | q, k :: tail =>
    match vw q with
    | none => .ok .notFound
    | some cell =>
      match cell.find k with
      | none => .ok .notFound
      | some r =>
        if tail.isEmpty then .ok (.ref q k r)
        else
          -- `if sub_context.container:` is truthiness: a container that exists but is empty is falsy
          let truthy := r.hasCont && (match vw (q ++ [k]) with | some (_ :: _) => true | _ => false)
          if truthy then findName vw (q ++ [k]) tail
          else match r.val with
            | some (.map m) => if r.hasCont then .ok .notFound else dictFindName m tail
            | some _ => if r.hasCont then .ok .notFound else .error .typeError
            | none => .error .typeError

/-- `resolve_name(package, name)` with a single container in `parent_iter()`:
try `package + [name]`, then shorter and shorter package prefixes; `KeyError` if nothing matches -/
def resolveLoop (skipTE : Bool) (vw : View) (q : List String) (name : String) : List String → Nat → PyM Found
  | _, 0 => .ok .notFound
  | target, fuel + 1 =>
    match findName vw q (target ++ [name]) with
    | .error e =>
      if skipTE && e == .typeError then
        (if target.isEmpty then .ok .notFound else resolveLoop skipTE vw q name target.dropLast fuel)
      else .error e
    | .ok .notFound => if target.isEmpty then .ok .notFound else resolveLoop skipTE vw q name target.dropLast fuel
    | .ok f => .ok f

def resolveName (skipTE : Bool) (vw : View) (q : List String) (pkg : Option String) (name : String) : PyM Found :=
  let target := match pkg with
    | none => []
    | some p => if p.isEmpty then [] else identFindall p
  match resolveLoop skipTE vw q name target (target.length + 1) with
  | .error e => .error e
  | .ok .notFound => .error .keyError
  | .ok f => .ok f

/-- `Referent.value` (evaluation.py:666-684): container first, then the value if set, else the annotation -/
def Found.value : Found → RV
  | .notFound => .pyNone
  | .ref q k r => if r.hasCont then .cont (q ++ [k]) else match r.val with
      | some x => .v x
      | none => match r.ann with | some a => .typ a | none => .pyNone
  | .synth x => .v x
  | .self q => .cont q

/-- `Activation.__getattr__` (evaluation.py:1315-1342), used by transpiled `activation.x` -/
def getattrValue (vw : View) : Found → PyM RV
  | .ref q k r =>
    match r.val with
    | some _ => .ok (Found.ref q k r).value
    | none =>
      let truthy := r.hasCont && (match vw (q ++ [k]) with | some (_ :: _) => true | _ => false)
      if truthy then .ok (.cont (q ++ [k]))
      else match r.ann with
        | some a => .ok (.typ a)
        | none => .error .other          -- RuntimeError("Corrupt ...")
  | f => .ok f.value

def i64 (z : Int) : Bool := decide (-9223372036854775808 ≤ z) && decide (z < 9223372036854775808)

def addRV : RV → RV → PyM RV
  | .v (.int a), .v (.int b) => if i64 (a + b) then .ok (.v (.int (a + b))) else .error .valueError
  | .v (.str a), .v (.str b) => .ok (.v (.str (a ++ b)))
  | _, _ => .error .typeError

/-- `e.k` on an evaluated member.  Interpreter: `member_dot` (evaluation.py:2207-2289); compiled:
`member.get('k')` = `NameContainer.get` / `MapType.get` / `AttributeError`. -/
def memberDot (skipTE : Bool) (vw : View) : RV → String → PyM RV
  | .cont q, k =>
    match resolveName skipTE vw q none k with     -- I: `k in member; member[k].value`; C: `resolve_name(None, k).value` — the same lookup
    | .error e => .error e
    | .ok f => .ok f.value
  | .v (.map m), k =>
    match m.find? (·.1 == k) with
    | some (_, n) => .ok (.v (.int n))
    | none => .error .keyError
  | _, _ => .error .typeError               -- I: "does not support field selection"; C: AttributeError

inductive Kind | I | C
  deriving DecidableEq, Repr, Inhabited

/-- evaluation of the fragment by either runner.  Any raised exception ends the evaluation (there is
no `||`/`&&`/`?:` in the fragment), and the API reports it as an error. -/
def evalExpr (skipTE : Bool) (kind : Kind) (vw : View) (pkg : Option String) : Expr → PyM RV
  | .lit n => .ok (.v (.int n))
  | .ident x =>
    match resolveName skipTE vw [] pkg x with
    | .error e => .error e
    | .ok f => match kind with
      | .I => .ok f.value               -- `Activation.resolve_variable`
      | .C => getattrValue vw f         -- `Activation.__getattr__`
  | .dotIdent x =>
    match resolveName skipTE vw [] pkg x with  -- both runners: `resolve_variable` (the root-scope flag is ignored)
    | .error e => .error e
    | .ok f => .ok f.value
  | .dot e k =>
    match evalExpr skipTE kind vw pkg e with
    | .error e => .error e
    | .ok m => memberDot skipTE vw m k
  | .add a b =>
    match evalExpr skipTE kind vw pkg a with
    | .error e => .error e
    | .ok x => match evalExpr skipTE kind vw pkg b with
      | .error e => .error e
      | .ok y => addRV x y

/-! ## observations -/

inductive Obs where
  | done                       -- the operation returned normally (no value of interest)
  | parseError
  | noSuch                     -- the operation named a handle that does not exist (harness error)
  | exc (e : Exc)              -- a Python exception other than CELEvalError escaped the API call
  | err                        -- CELEvalError
  | value (s : String)
  deriving DecidableEq, Repr

def Val.render : Val → String
  | .int n => s!"int:{n}"
  | .str s => "string:" ++ s
  | .bool b => "bool:" ++ (if b then "true" else "false")
  | .map m => "map:{" ++ String.intercalate "," (m.map fun kv => kv.1 ++ "=" ++ toString kv.2) ++ "}"

/-- a returned `NameContainer` is rendered by the names it holds -/
def RV.render (vw : View) : RV → String
  | .v x => x.render
  | .typ a => "type:" ++ a
  | .cont q => "nc:[" ++ String.intercalate "," (match vw q with | some cell => cell.map (·.1) | none => []) ++ "]"
  | .pyNone => "null"

/-! ## the world and the API operations -/

structure Env where
  kind : Kind
  decls : List (String × Ann)
  pkg : Option String
  parser : Kind            -- tree class of the lark parser object this environment holds
  deriving Repr

structure Ast where
  cls : Kind               -- `lark.Tree` (I) or `TranspilerTree` (C)
  expr : Expr
  deriving Repr

structure Prog where
  kind : Kind
  decls : List (String × Ann)
  pkg : Option String
  expr : Expr
  base : Id                -- compiled: `tp.base_activation.identifiers`; interpreted: unused
  deriving Repr

structure World where
  singleton : Option Kind := none     -- `CELParser.CEL_PARSER` (its tree class)
  cache : List Kind := []             -- `CELParser.CEL_PARSERS` keys
  heap : Heap := {}
  envs : List Env := []
  asts : List Ast := []
  progs : List Prog := []
  globals : List String := []         -- scratch names left in the globals of `celpy.evaluation`
  deriving Repr

def World.init : World := {}

abbrev Bindings := List (String × Val)

inductive Op where
  | mkEnv (k : Kind) (decls : List (String × Ann)) (pkg : Option String)
  | resetParser                                  -- `CELParser.CEL_PARSER = None`
  | compile (env : Nat) (src : Option Expr)      -- `none`: text that does not parse
  | program (env ast : Nat)
  | evaluate (prog : Nat) (b : Bindings)
  deriving Repr

/-- `Runner.new_activation`: `Activation(annotations=…)` → a new root container, annotations loaded -/
def newActivation (h : Heap) (decls : List (String × Ann)) : PyM (Heap × Id) :=
  let (h1, r) := h.fresh
  let root : Id := (r, [])
  match loadAnnotations (h1.set root []) root decls with
  | .error e => .error e
  | .ok h2 => .ok (h2, root)

/-- `base_activation.clone()` followed by `identifiers.load_values(context)` -/
def cloneAndLoad (cfg : Config) (h : Heap) (base : Id) (b : Bindings) : PyM (Heap × Id) :=
  let (h1, r) := h.fresh
  let root : Id := (r, [])
  match cloneInto cfg.clone cloneFuel h1 base root with
  | .error e => .error e
  | .ok h2 =>
    match loadValues h2 root b with
    | .error e => .error e
    | .ok h3 => .ok (h3, root)

def finish (skipTE : Bool) (kind : Kind) (h : Heap) (act : Id) (pkg : Option String) (e : Expr) : Obs :=
  let vw := viewAt h act
  match evalExpr skipTE kind vw pkg e with
  | .error _ => .err                 -- I: error value raised by `Evaluator.evaluate`; C: `result()` / blanket handler
  | .ok rv => .value (rv.render vw)

/-- escaping exceptions of the activation set-up: `ValueError("Invalid name")`, `RecursionError` -/
def setupExc (e : Exc) : Obs := .exc e

/-- the names a compiled evaluation writes into the namespace it executes in -/
def scratchNames : List String := ["base_activation", "CEL"]

def step (cfg : Config) (w : World) : Op → World × Obs
  | .mkEnv k decls pkg =>
    -- celparser.py:105-121
    let cache0 := match w.singleton with | none => [] | some _ => w.cache
    let (cache1, parser) := match cfg.parser with
      | .perClass => (if cache0.contains k then cache0 else k :: cache0, k)
      | .singleton => match w.singleton with
          | none => ([k], k)
          | some c => (w.cache, c)
    ({ w with singleton := some parser, cache := cache1, envs := w.envs ++ [⟨k, decls, pkg, parser⟩] }, .done)
  | .resetParser => ({ w with singleton := none }, .done)
  | .compile env src =>
    match w.envs[env]? with
    | none => (w, .noSuch)
    | some e =>
      -- perClass: `self.parser.parse(text)`; singleton (before the fix): `CELParser.CEL_PARSER.parse(text)`
      let cls := match cfg.parser with
        | .perClass => some e.parser
        | .singleton => w.singleton
      match cls with
      | none => (w, .exc .typeError)             -- "No grammar loaded"
      | some c => match src with
        | none => (w, .parseError)
        | some x => ({ w with asts := w.asts ++ [⟨c, x⟩] }, .done)
  | .program env ast =>
    match w.envs[env]?, w.asts[ast]? with
    | some e, some a =>
      match e.kind with
      | .I => ({ w with progs := w.progs ++ [⟨.I, e.decls, e.pkg, a.expr, (0, [])⟩] }, .done)
      | .C =>
        -- CompiledRunner.__init__: new_activation first, then transpile (needs TranspilerTree nodes)
        match newActivation w.heap e.decls with
        | .error x => (w, setupExc x)
        | .ok (h1, root) =>
          match a.cls with
          | .I => ({ w with heap := h1 }, .exc .attributeError)
          | .C => ({ w with heap := h1, progs := w.progs ++ [⟨.C, e.decls, e.pkg, a.expr, root⟩] }, .done)
    | _, _ => (w, .noSuch)
  | .evaluate prog b =>
    match w.progs[prog]? with
    | none => (w, .noSuch)
    | some p =>
      match p.kind with
      | .I =>
        -- InterpretedRunner.evaluate: new Activation, new Evaluator, `if context: set_activation(context)`
        match newActivation w.heap p.decls with
        | .error x => (w, setupExc x)
        | .ok (h1, base) =>
          if b.isEmpty then ({ w with heap := h1 }, finish cfg.skipTE .I h1 base p.pkg p.expr)
          else match cloneAndLoad cfg h1 base b with
            | .error x => ({ w with heap := h1 }, setupExc x)
            | .ok (h2, act) => ({ w with heap := h2 }, finish cfg.skipTE .I h2 act p.pkg p.expr)
      | .C =>
        -- Transpiler.evaluate
        let g := match cfg.ns with
          | .shared => scratchNames.foldl (fun g n => if g.contains n then g else g ++ [n]) w.globals
          | .perCall => w.globals
        if b.isEmpty then ({ w with globals := g }, finish cfg.skipTE .C w.heap p.base p.pkg p.expr)
        else match cloneAndLoad cfg w.heap p.base b with
          | .error x => (w, setupExc x)
          | .ok (h2, act) => ({ w with heap := h2, globals := g }, finish cfg.skipTE .C h2 act p.pkg p.expr)

def run (cfg : Config) (w : World) : List Op → World
  | [] => w
  | op :: ops => run cfg (step cfg w op).1 ops

/-- the observations of a whole history -/
def trace (cfg : Config) (w : World) : List Op → List Obs
  | [] => []
  | op :: ops => (step cfg w op).2 :: trace cfg (step cfg w op).1 ops

/-- **ideal**: the same evaluation performed alone, in a fresh world (fresh process) -/
def ideal (cfg : Config) (p : Prog) (b : Bindings) : Obs :=
  let w := run cfg World.init [.mkEnv p.kind p.decls p.pkg, .compile 0 (some p.expr), .program 0 0]
  (step cfg w (.evaluate 0 b)).2

end Cel.Runtime
