/-
  Cel.Model.XlateValue — the value-clause half of the C7N → CEL translator
  (`src/xlate/c7n_to_cel.py`): `q`, `key_to_cel`, `seconds_to_duration`,
  `age_to_duration`, `value_to_cel`, and what the emitted text means to the CEL
  side: the STRING_LIT lexer regex (`cel.lark`), `celstr` literal decoding
  (`evaluation.py`), the duration text grammar of `celtypes.DurationType`, and the
  relations the operator templates denote (`c7nlib` functions, CEL operators).

  Core Lean only.  Text is `List Char` (`Str`); the regenerated tables
  (`Cel.Gen.XlateTables`) are `String` literals converted with `.toList`.
  The boolean structure of a policy (`logical_connector`) is Cel.Model.Xlate (C18).
-/
import Cel.Model.Basic
namespace Cel.XlateValue

abbrev Str := List Char

/-! ## Small text helpers -/

def isDigit (c : Char) : Bool := '0' ≤ c && c ≤ '9'
def isOct (c : Char) : Bool := '0' ≤ c && c ≤ '7'
def isHex (c : Char) : Bool := ('0' ≤ c && c ≤ '9') || ('a' ≤ c && c ≤ 'f') || ('A' ≤ c && c ≤ 'F')
def digitVal (c : Char) : Nat := c.toNat - 48
def hexVal (c : Char) : Nat :=
  if '0' ≤ c && c ≤ '9' then c.toNat - 48
  else if 'a' ≤ c && c ≤ 'f' then c.toNat - 87
  else c.toNat - 55
def digitChar (n : Nat) : Char := Char.ofNat (48 + n)
/-- lower-case hex digit, as Python's `f"{n:02x}"` writes it -/
def hexDigit (n : Nat) : Char := if n < 10 then Char.ofNat (48 + n) else Char.ofNat (87 + n)

/-- Python `str(n)` for a natural number (fuel = an upper bound on the number of digits) -/
def natDigitsFuel : Nat → Nat → Str
  | 0, _ => []
  | f + 1, n => if n < 10 then [digitChar n] else natDigitsFuel f (n / 10) ++ [digitChar (n % 10)]

def natDigits (n : Nat) : Str := natDigitsFuel (n + 1) n

/-- Python `str(i)` for an int -/
def intDigits (i : Int) : Str :=
  if i < 0 then '-' :: natDigits i.natAbs else natDigits i.natAbs

/-- the value of a run of ASCII digits, most significant first -/
def parseNat (cs : Str) : Nat := cs.foldl (fun a c => 10 * a + digitVal c) 0

/-! ## `C7N_Rewriter.q` -/

/-- one character of the text, as `q` writes it between the quotes -/
def escChar (quote : Char) (c : Char) : Str :=
  if c = '\\' then ['\\', '\\']
  else if c = '\n' then ['\\', 'n']
  else if c = '\r' then ['\\', 'r']
  else if c = '\t' then ['\\', 't']
  else if c = quote then ['\\', quote]
  else if c.toNat < 32 || c.toNat = 127 then ['\\', 'x', hexDigit (c.toNat / 16), hexDigit (c.toNat % 16)]
  else [c]

def qBody (quote : Char) (s : Str) : Str := s.flatMap (escChar quote)

/-- `C7N_Rewriter.q(text, quote)` for a string `text` -/
def q (quote : Char) (s : Str) : Str := quote :: (qBody quote s ++ [quote])

/-- `q(text)` with the default quote `"` -/
def qd (s : Str) : Str := q '"' s

/-! ## The CEL side of a string literal: lexer regex and `celstr` -/

/-- `[abfnrtv"'\\]` of the escape alternatives -/
def isSimpleEsc (c : Char) : Bool :=
  c = 'a' || c = 'b' || c = 'f' || c = 'n' || c = 'r' || c = 't' || c = 'v' || c = '"' || c = '\'' || c = '\\'

/-- `CEL_ESCAPES` -/
def simpleEscVal (c : Char) : Char :=
  if c = 'a' then Char.ofNat 7 else if c = 'b' then Char.ofNat 8 else if c = 'f' then Char.ofNat 12
  else if c = 'n' then '\n' else if c = 'r' then '\r' else if c = 't' then '\t'
  else if c = 'v' then Char.ofNat 11 else c

/-- Python `chr(n)` as far as a Lean `Char` can hold it: `none` for a surrogate (Python builds a
lone-surrogate string, Lean has no such `Char`) and for `n > 0x10FFFF` (Python raises ValueError). -/
def chrOf (n : Nat) : Option Char := if n.isValidChar then some (Char.ofNat n) else none

def hexNum (cs : Str) : Nat := cs.foldl (fun a c => 16 * a + hexVal c) 0
def octNum (cs : Str) : Nat := cs.foldl (fun a c => 8 * a + digitVal c) 0

/-- `\\x`, `\\u`, `\\U` followed by exactly `n` hex digits (`r1` = text after the letter):
(expansion, characters after the backslash that belong to the match); otherwise only `.` matches
the backslash. Expansion `none` = `chr` raises or yields a lone surrogate (not representable). -/
def escHexN (n : Nat) (r1 : Str) : Option Char × Nat :=
  if (r1.take n).length = n && (r1.take n).all isHex then (chrOf (hexNum (r1.take n)), n + 1)
  else (some '\\', 0)

/-- `\\\d{3}`: three decimal digits match; `int(text, 8)` raises unless all are octal -/
def escOct (ds : Str) : Option Char × Nat :=
  if (ds.take 3).length = 3 && (ds.take 3).all isDigit then
    (if (ds.take 3).all isOct then chrOf (octNum (ds.take 3)) else none, 3)
  else (some '\\', 0)

/-- the match of `CEL_ESCAPES_PAT` at a backslash followed by `tl` -/
def escBackslash (tl : Str) : Option Char × Nat :=
  match tl with
  | [] => (some '\\', 0)
  | e :: r1 =>
    if isSimpleEsc e then (some (simpleEscVal e), 1)
    else if isDigit e then escOct tl
    else if e = 'x' then escHexN 2 r1
    else if e = 'u' then escHexN 4 r1
    else if e = 'U' then escHexN 8 r1
    else (some '\\', 0)

/-- one match of `CEL_ESCAPES_PAT` whose first character is `c`, the text after it being `tl`:
(expansion, number of characters of `tl` that belong to the match). -/
def escAt (c : Char) (tl : Str) : Option Char × Nat :=
  if c = '\\' then escBackslash tl else (some c, 0)

/-- Expansion of the body of a cooked, short string literal as `celstr` does it:
`CEL_ESCAPES_PAT.finditer` (ordered alternation, `re.DOTALL`) and `expand`. `skip` = characters
still to pass over because they belong to the match just expanded. -/
def decodeGo : Str → Nat → Option Str
  | [], _ => some []
  | _ :: tl, skip + 1 => decodeGo tl skip
  | c :: tl, 0 =>
    match escAt c tl with
    | (some ch, k) => (decodeGo tl k).map (ch :: ·)
    | (none, _) => none

def decodeBody (s : Str) : Option Str := decodeGo s 0

/-- length (after the backslash) of the escape alternative of the STRING_LIT regex, double-quoted
branch, that matches at a backslash followed by `tl`; `none` if only `.` can match the backslash.
(`\\u[0-9a-fA-F]{4-8}`: `{4-8}` is not a quantifier for Python's `re` but literal text.) -/
def lexEscLen (tl : Str) : Option Nat :=
  match tl with
  | [] => none
  | e :: r1 =>
    if isSimpleEsc e then some 1
    else if isDigit e then (if (tl.take 3).length = 3 && (tl.take 3).all isDigit then some 3 else none)
    else if e = 'x' then (if (r1.take 2).length = 2 && (r1.take 2).all isHex then some 3 else none)
    else if e = 'u' then
      (if (r1.take 1).all isHex && (r1.take 6).drop 1 = ['{', '4', '-', '8', '}'] then some 7 else none)
    else none

/-- the STRING_LIT regex of `cel.lark`, double-quoted branch, positioned after the opening quote:
`(?:\\[abfnrtv"'\\]|\\\d{3}|\\x[0-9a-fA-F]{2}|\\u[0-9a-fA-F]{4-8}|.)*?"` as a backtracking matcher —
lazy loop (try to close first), alternatives in order, `.` does not match a line feed.
Returns (body, rest after the closing quote); `skip` = characters that belong to the alternative
just matched. -/
def lexGo : Str → Nat → Option (Str × Str)
  | [], _ => none
  | c :: tl, skip + 1 => (lexGo tl skip).map (fun p => (c :: p.1, p.2))
  | c :: tl, 0 =>
    if c = '"' then some ([], tl)
    else if c = '\n' then none
    else
      let dot := (lexGo tl 0).map (fun p => (c :: p.1, p.2))
      if c = '\\' then
        match lexEscLen tl with
        | some k =>
          (match lexGo tl k with
           | some p => some (c :: p.1, p.2)
           | none => dot)
        | none => dot
      else dot

def lexDq (s : Str) : Option (Str × Str) := lexGo s 0

/-- lexing one double-quoted short string literal at the head of the input: (token text, rest) -/
def lexString : Str → Option (Str × Str)
  | '"' :: tl => (lexDq tl).map (fun p => ('"' :: (p.1 ++ ['"']), p.2))
  | _ => none

/-- `celstr(token)` for a cooked short literal: `text[1:-1]` expanded -/
def celstr (tok : Str) : Option Str := decodeBody (tok.drop 1).dropLast

/-- what a text consisting of exactly one double-quoted literal evaluates to -/
def evalLiteral (text : Str) : Option Str :=
  match lexString text with
  | some (tok, []) => celstr tok
  | _ => none

/-! ## `key_to_cel` -/

def splitOn (sep : Char) : Str → List Str
  | [] => [[]]
  | c :: tl =>
    if c = sep then [] :: splitOn sep tl
    else match splitOn sep tl with
      | [] => [[c]]
      | w :: ws => (c :: w) :: ws

def isWordAscii (c : Char) : Bool :=
  ('a' ≤ c && c ≤ 'z') || ('A' ≤ c && c ≤ 'Z') || ('0' ≤ c && c ≤ '9') || c = '_'

def lit (s : String) : Str := s.toList

/-- `key_to_cel(operation_key, context)` for keys that do not start with a `name(` function
prefix (those are handled by `keyToCelFn`); `ctx` is `"resource"` unless a context is given. -/
def keyToCelPlain (ctx : Str) (k : Str) : Str :=
  if (lit "tag:").isPrefixOf k then
    ctx ++ lit "[\"Tags\"].filter(x, x[\"Key\"] == " ++ qd (k.drop 4) ++ lit ")[0][\"Value\"]"
  else if k.contains '.' then
    (splitOn '.' k).foldl (fun acc n => acc ++ ['['] ++ qd n ++ [']']) ctx
  else ctx ++ ['['] ++ qd k ++ [']']

/-- `length(arg)` keys: `size(ctx["arg"])` -/
def keyToCelFn (ctx : Str) (fn arg : Str) : Str :=
  fn ++ ['('] ++ ctx ++ ['['] ++ qd arg ++ [']', ')']

/-! ## Durations -/

/-- `units` of `seconds_to_duration` -/
def durationUnits : List (Nat × Char) := [(86400, 'd'), (3600, 'h'), (60, 'm'), (1, 's')]

/-- the `while seconds != 0 and units:` loop -/
def durLoop : Nat → List (Nat × Char) → List Str
  | _, [] => []
  | secs, (u, name) :: us =>
    if secs = 0 then []
    else (if secs / u ≠ 0 then [natDigits (secs / u) ++ [name]] else []) ++ durLoop (secs % u) us

/-- the text between the quotes of `seconds_to_duration(n)` -/
def secondsText (n : Nat) : Str :=
  let parts := durLoop n durationUnits
  if parts.isEmpty then ['0', 's'] else parts.flatten

def secondsToDuration (n : Nat) : Str := qd (secondsText n)
/-- `age_to_duration(days)` for a whole number of days -/
def ageToDuration (d : Nat) : Str := secondsToDuration (d * 86400)

inductive DurRes where
  | ok (secs : Nat)     -- a DurationType of that many seconds
  | error               -- the real constructor raises ValueError
  | unmodelled          -- sign, fraction or sub-second unit: outside this model
  deriving DecidableEq, Repr

def durMaxSeconds : Nat := 315576000000

/-- scale of the units this model covers (`DurationType.scale`) -/
def unitScale (c : Char) : Option Nat :=
  if c = 'd' then some 86400 else if c = 'h' then some 3600 else if c = 'm' then some 60
  else if c = 's' then some 1 else none

/-- `DurationType(text)`: groups `[0-9]*unit` summed (`acc` = digits of the current group so far,
`none` before the first digit; `groups` = groups completed; `total` in seconds). -/
def durGo : Str → Option Nat → Nat → Nat → DurRes
  | [], acc, groups, total =>
    if acc.isSome || groups = 0 then .error
    else if total ≤ durMaxSeconds then .ok total else .error
  | c :: tl, acc, groups, total =>
    if isDigit c then durGo tl (some (10 * acc.getD 0 + digitVal c)) groups total
    else if c = '.' || c = '+' || c = '-' || c = 'n' || c = 'u' || c = 'µ' then .unmodelled
    else if c = 'm' && tl.head? = some 's' then .unmodelled
    else match unitScale c with
      | none => .error
      | some k => match acc with
        | none => .error            -- `float('')` raises ValueError
        | some v => durGo tl none (groups + 1) (total + v * k)

def durOf (text : Str) : DurRes := durGo text none 0 0

/-! ## Values, relations, and what an operator template denotes -/

inductive Atom where
  | str (s : Str) | int (i : Int) | bool (b : Bool) | null
  deriving DecidableEq, Repr

inductive Val where
  | atom (a : Atom) | list (xs : List Atom)
  deriving DecidableEq, Repr

inductive Kind where | str | int | bool | null
  deriving DecidableEq, Repr

def Atom.kind : Atom → Kind
  | .str _ => .str | .int _ => .int | .bool _ => .bool | .null => .null

/-- lexicographic order on code points (Python `str.__lt__`, CEL string `<`) -/
def strLt : Str → Str → Bool
  | [], [] => false
  | [], _ :: _ => true
  | _ :: _, [] => false
  | a :: as, b :: bs => if a.toNat < b.toNat then true else if a = b then strLt as bs else false

/-- substring test (Python `x in s`, CEL `s.contains(x)`) -/
def isInfix (x : Str) : Str → Bool
  | [] => x.isEmpty
  | c :: tl => x.isPrefixOf (c :: tl) || isInfix x tl

/-! ### glob (`fnmatch`): `*`, `?`, `[seq]`, `[!seq]`, ordinary characters -/

/-- one piece of a shell-style pattern -/
inductive GItem where
  | star | any | lit (c : Char) | set (neg : Bool) (rs : List (Char × Char))
  deriving DecidableEq, Repr

/-- characters inside a class whose reading depends on the regular-expression dialect fnmatch
translates to (`\`, `^`, `[`, and the set operators `&&`, `~~`, `||`): left outside the model -/
def isClassOdd (c : Char) : Bool := c = '\\' || c = '^' || c = '[' || c = '&' || c = '~' || c = '|'

/-- the members of a class body as ranges (`a` = `a-a`); `first` = at the first character of the body.
`none` where the body has no single agreed reading: an odd character, a reversed range `z-a`, a chained
range `a-c-e`, a `-` that is neither first nor last nor part of a range. -/
def classRanges : Str → Bool → Option (List (Char × Char))
  | [], _ => some []
  | ch :: '-' :: hi :: rest2, _ =>
    if isClassOdd ch || ch = '-' || isClassOdd hi || hi = '-' || hi.toNat < ch.toNat then none
    else if rest2.head? = some '-' then none
    else (classRanges rest2 false).map ((ch, hi) :: ·)
  | ch :: rest, first =>
    if isClassOdd ch then none
    else if ch = '-' && !first && !rest.isEmpty then none
    else (classRanges rest false).map ((ch, ch) :: ·)

/-- index of the first `]` -/
def closeIdx : Str → Option Nat
  | [] => none
  | c :: tl => if c = ']' then some 0 else (closeIdx tl).map (· + 1)

/-- length of the body of a class opened just before `s` (fnmatch: skip an optional `!`, then an optional
`]` that counts as a member, then run to the first `]`); `none` = never closed -/
def classEnd (s : Str) : Option Nat :=
  let j0 := if s.head? = some '!' then 1 else 0
  let j1 := if (s.drop j0).head? = some ']' then j0 + 1 else j0
  (closeIdx (s.drop j1)).map (· + j1)

/-- pattern → pieces; `skip` = characters that belong to the class just read. A `[` that is never
closed is an ordinary character. `none` = a class outside the model. -/
def parseGlobGo : Str → Nat → Option (List GItem)
  | [], _ => some []
  | _ :: tl, skip + 1 => parseGlobGo tl skip
  | c :: tl, 0 =>
    if c = '*' then (parseGlobGo tl 0).map (.star :: ·)
    else if c = '?' then (parseGlobGo tl 0).map (.any :: ·)
    else if c = '[' then
      match classEnd tl with
      | none => (parseGlobGo tl 0).map (.lit '[' :: ·)
      | some j =>
        let body := tl.take j
        let neg := body.head? = some '!'
        let body' := if neg then body.drop 1 else body
        if body'.isEmpty then none
        else match classRanges body' true with
          | none => none
          | some rs => (parseGlobGo tl (j + 1)).map (.set neg rs :: ·)
    else (parseGlobGo tl 0).map (.lit c :: ·)

def parseGlob (pat : Str) : Option (List GItem) := parseGlobGo pat 0

/-- a piece other than `*` against one character (`?` and negated classes match a line feed too) -/
def GItem.matches : GItem → Char → Bool
  | .star, _ => false
  | .any, _ => true
  | .lit a, c => a = c
  | .set neg rs, c => (rs.any fun r => r.1.toNat ≤ c.toNat && c.toNat ≤ r.2.toNat) != neg

/-- the whole text against the pieces -/
def globItems : List GItem → Str → Bool
  | [], t => t.isEmpty
  | .star :: ps, t =>
    -- `*` matches any run: try every split
    (List.range (t.length + 1)).any (fun k => globItems ps (t.drop k))
  | _ :: _, [] => false
  | p :: ps, c :: ts => p.matches c && globItems ps ts

/-- `fnmatch.fnmatchcase(text, pat)`; `none` when the pattern has a class outside the model -/
def glob (text pat : Str) : Option Bool := (parseGlob pat).map (globItems · text)

/-- Python truthiness of a resource value: `present`/`absent` of c7nlib are `bool(v)` / `not bool(v)` -/
def truthy : Val → Bool
  | .atom (.str s) => !s.isEmpty
  | .atom (.int i) => i != 0
  | .atom (.bool b) => b
  | .atom .null => false
  | .list xs => !xs.isEmpty

def homog (k : Kind) (xs : List Atom) : Bool := xs.all (fun a => a.kind = k)

/-- the operator names of the property -/
inductive Op where
  | eq | ne | gt | ge | lt | le | in_ | ni | contains | glob | intersect | difference | present | absent
  deriving DecidableEq, Repr

def Op.ofName (s : String) : Option Op :=
  if s = "eq" || s = "equal" then some .eq
  else if s = "ne" || s = "not-equal" then some .ne
  else if s = "gt" || s = "greater-than" then some .gt
  else if s = "ge" || s = "gte" then some .ge
  else if s = "lt" || s = "less-than" then some .lt
  else if s = "le" || s = "lte" then some .le
  else if s = "in" then some .in_
  else if s = "ni" || s = "not-in" then some .ni
  else if s = "contains" then some .contains
  else if s = "glob" then some .glob
  else if s = "intersect" then some .intersect
  else if s = "difference" then some .difference
  else if s = "__present__" then some .present
  else if s = "__absent__" then some .absent
  else none

/-- the names under which the property lists the operators -/
def opNames : List String :=
  ["eq", "equal", "ne", "not-equal", "gt", "greater-than", "ge", "gte", "lt", "less-than", "le", "lte",
   "in", "ni", "not-in", "contains", "glob", "intersect", "difference", "__present__", "__absent__"]

namespace Spec
/-! The relation an op names, applied directly to the resource value `r` and the policy literal `v`
(Custodian's `OPERATORS[op](r, v)`), on the operand kinds where it has one meaning; `none` elsewhere
(mixed kinds, where Python raises TypeError or compares unequal by type, or the CEL is an error). -/

def ordRel (ltS : Str → Str → Bool) (ltI : Int → Int → Bool) : Val → Val → Option Bool
  | .atom (.str a), .atom (.str b) => some (ltS a b)
  | .atom (.int a), .atom (.int b) => some (ltI a b)
  | _, _ => none

def eqRel : Val → Val → Option Bool
  | .atom a, .atom b => if a.kind = b.kind && a.kind != .null then some (a = b) else none
  | .list xs, .list ys =>
    match xs, ys with
    | [], _ => some (ys.isEmpty)
    | _, [] => some false
    | x :: _, y :: _ => if x.kind = y.kind && homog x.kind xs && homog x.kind ys then some (xs = ys) else none
  | _, _ => none

/-- `x in c` -/
def memRel (x c : Val) : Option Bool :=
  match x, c with
  | .atom (.str a), .atom (.str s) => some (isInfix a s)
  | .atom a, .list xs => if a.kind != .null && homog a.kind xs then some (xs.contains a) else none
  | _, _ => none

def setRel (f : List Atom → List Atom → Bool) : Val → Val → Option Bool
  | .list xs, .list ys =>
    match xs, ys with
    | [], _ => some (f xs ys)
    | _, [] => some (f xs ys)
    | x :: _, y :: _ => if x.kind = y.kind && x.kind != .null && homog x.kind xs && homog x.kind ys then some (f xs ys) else none
  | _, _ => none

def rel : Op → Val → Val → Option Bool
  | .eq, r, v => eqRel r v
  | .ne, r, v => (eqRel r v).map (!·)
  | .lt, r, v => ordRel strLt (fun a b => decide (a < b)) r v
  | .le, r, v => ordRel (fun a b => strLt a b || a = b) (fun a b => decide (a ≤ b)) r v
  | .gt, r, v => ordRel (fun a b => strLt b a) (fun a b => decide (a > b)) r v
  | .ge, r, v => ordRel (fun a b => strLt b a || a = b) (fun a b => decide (a ≥ b)) r v
  | .in_, r, v => memRel r v
  | .ni, r, v => (memRel r v).map (!·)
  | .contains, r, v => memRel v r
  | .glob, r, v => match r, v with
      | .atom (.str t), .atom (.str p) => XlateValue.glob t p
      | _, _ => none
  | .intersect, r, v => setRel (fun xs ys => xs.any (ys.contains ·)) r v
  | .difference, r, v => setRel (fun xs ys => xs.any (fun a => !ys.contains a)) r v
  | .present, r, _ => some (truthy r)
  | .absent, r, _ => some (!truthy r)
end Spec

/-! ### clauses without an op: `value: present | not-null | absent | empty` -/

/-- `type_value_rewrite`: the key of `atomic_op_map` each word is sent to -/
def valuelessOp (word : String) : Option Op :=
  if word = "present" || word = "not-null" then some .present
  else if word = "absent" || word = "empty" then some .absent
  else none

def isNull : Val → Bool
  | .atom .null => true
  | _ => false

namespace Spec
/-- Custodian's `ValueFilter.match` for the four words: `absent` ⇔ the attribute is None, `present` ⇔ it
is not None, `not-null` ⇔ it is truthy, `empty` ⇔ it is falsy -/
def word (w : String) (r : Val) : Option Bool :=
  if w = "present" then some (!isNull r)
  else if w = "absent" then some (isNull r)
  else if w = "not-null" then some (truthy r)
  else if w = "empty" then some (!truthy r)
  else none
end Spec

/-- an attribute that is there but falsy (`""`, `0`, `false`, `[]`): where `present`/`absent` and
`not-null`/`empty` differ (known finding `present_is_truthiness`) -/
def falsyNonNull (r : Val) : Bool := !truthy r && !isNull r

/-! ### templates -/

inductive Hole where | h0 | h1
  deriving DecidableEq, Repr

inductive BinSym where | eq | ne | lt | le | gt | ge
  deriving DecidableEq, Repr

/-- the shapes an `atomic_op_map` template can have -/
inductive Tmpl where
  | bin (s : BinSym) (a b : Hole)                 -- `{a} sym {b}`
  | meth (neg : Bool) (recv : Hole) (name : String) (arg : Hole)   -- `[! ]{recv}.name({arg})`
  | fn (name : String) (a : Hole)                 -- `name({a})`
  deriving DecidableEq, Repr

inductive Tok where
  | hole (h : Hole) | sym (s : String) | ident (s : Str)
  deriving DecidableEq, Repr

def isIdentChar (c : Char) : Bool := isWordAscii c

/-- tokens of a template: `{0}`, `{1}`, identifiers, one- and two-character symbols; blanks skipped.
`none` on anything else. `skip` = characters already consumed by the previous token. -/
def tokGo : Str → Nat → Option (List Tok)
  | [], _ => some []
  | _ :: tl, skip + 1 => tokGo tl skip
  | c :: tl, 0 =>
    if c = ' ' then tokGo tl 0
    else if c = '{' then
      if tl.take 2 = ['0', '}'] then (tokGo tl 2).map (.hole .h0 :: ·)
      else if tl.take 2 = ['1', '}'] then (tokGo tl 2).map (.hole .h1 :: ·)
      else none
    else if c = '=' then
      if tl.head? = some '=' then (tokGo tl 1).map (.sym "==" :: ·) else none
    else if c = '!' then
      if tl.head? = some '=' then (tokGo tl 1).map (.sym "!=" :: ·) else (tokGo tl 0).map (.sym "!" :: ·)
    else if c = '<' then
      if tl.head? = some '=' then (tokGo tl 1).map (.sym "<=" :: ·) else (tokGo tl 0).map (.sym "<" :: ·)
    else if c = '>' then
      if tl.head? = some '=' then (tokGo tl 1).map (.sym ">=" :: ·) else (tokGo tl 0).map (.sym ">" :: ·)
    else if c = '.' then (tokGo tl 0).map (.sym "." :: ·)
    else if c = '(' then (tokGo tl 0).map (.sym "(" :: ·)
    else if c = ')' then (tokGo tl 0).map (.sym ")" :: ·)
    else if isIdentChar c then
      match tokGo tl 0 with
      | some (.ident w :: r) =>
        -- glue to a directly following identifier character
        if (tl.head?.map isIdentChar).getD false then some (.ident (c :: w) :: r)
        else some (.ident [c] :: .ident w :: r)
      | some r => some (.ident [c] :: r)
      | none => none
    else none

def tokenize (s : Str) : Option (List Tok) := tokGo s 0

def binSym (s : String) : Option BinSym :=
  if s = "==" then some .eq else if s = "!=" then some .ne else if s = "<" then some .lt
  else if s = "<=" then some .le else if s = ">" then some .gt else if s = ">=" then some .ge else none

def parseToks : List Tok → Option Tmpl
  | [.hole a, .sym s, .hole b] => (binSym s).map (fun o => .bin o a b)
  | [.hole a, .sym ".", .ident n, .sym "(", .hole b, .sym ")"] => some (.meth false a (String.ofList n) b)
  | [.sym "!", .hole a, .sym ".", .ident n, .sym "(", .hole b, .sym ")"] => some (.meth true a (String.ofList n) b)
  | [.ident n, .sym "(", .hole a, .sym ")"] => some (.fn (String.ofList n) a)
  | _ => none

def parseTemplate (t : Str) : Option Tmpl := (tokenize t).bind parseToks

namespace Cel
/-! what the CEL evaluator (plus `c7nlib.FUNCTIONS`) computes for the operators and functions the
templates use, on the same value domain; `none` = evaluation error or outside the model. -/

def binOp : BinSym → Val → Val → Option Bool
  | .eq, a, b => Spec.eqRel a b
  | .ne, a, b => (Spec.eqRel a b).map (!·)
  | .lt, a, b => Spec.ordRel strLt (fun x y => decide (x < y)) a b
  | .le, a, b => Spec.ordRel (fun x y => strLt x y || x = y) (fun x y => decide (x ≤ y)) a b
  | .gt, a, b => Spec.ordRel (fun x y => strLt y x) (fun x y => decide (x > y)) a b
  | .ge, a, b => Spec.ordRel (fun x y => strLt y x || x = y) (fun x y => decide (x ≥ y)) a b

/-- `recv.name(arg)` -/
def method (name : String) (recv arg : Val) : Option Bool :=
  if name = "contains" then Spec.memRel arg recv              -- `function_contains`: `arg in recv`
  else if name = "glob" then
    match recv, arg with
    | .atom (.str t), .atom (.str p) => glob t p               -- `c7nlib.glob(text, pattern)`
    | _, _ => none
  else if name = "intersect" then Spec.setRel (fun xs ys => xs.any (ys.contains ·)) recv arg
  else if name = "difference" then Spec.setRel (fun xs ys => xs.any (fun a => !ys.contains a)) recv arg
  else none

def func (name : String) (a : Val) : Option Bool :=
  if name = "present" then some (truthy a)
  else if name = "absent" then some (!truthy a)
  else none
end Cel

def Hole.pick (h : Hole) (a0 a1 : Val) : Val := match h with | .h0 => a0 | .h1 => a1

/-- the decision a template denotes once `{0}` and `{1}` are bound -/
def Tmpl.eval : Tmpl → Val → Val → Option Bool
  | .bin s a b, x0, x1 => Cel.binOp s (a.pick x0 x1) (b.pick x0 x1)
  | .meth neg recv n arg, x0, x1 =>
    (Cel.method n (recv.pick x0 x1) (arg.pick x0 x1)).map (fun b => if neg then !b else b)
  | .fn n a, x0, x1 => Cel.func n (a.pick x0 x1)

/-- `{0}` is the resource attribute, `{1}` the policy literal -/
def denoteTemplate (t : Str) (r v : Val) : Option Bool :=
  match parseTemplate t with
  | some tm => tm.eval r v
  | none => none

/-- the template shape the relation of each op calls for (`{0}` = attribute, `{1}` = literal) -/
def expectedTmpl : Op → Tmpl
  | .eq => .bin .eq .h0 .h1 | .ne => .bin .ne .h0 .h1
  | .gt => .bin .gt .h0 .h1 | .ge => .bin .ge .h0 .h1
  | .lt => .bin .lt .h0 .h1 | .le => .bin .le .h0 .h1
  | .in_ => .meth false .h1 "contains" .h0
  | .ni => .meth true .h1 "contains" .h0
  | .contains => .meth false .h0 "contains" .h1
  | .glob => .meth false .h0 "glob" .h1
  | .intersect => .meth false .h0 "intersect" .h1
  | .difference => .meth false .h0 "difference" .h1
  | .present => .fn "present" .h0
  | .absent => .fn "absent" .h0

/-- decidable check of one `atomic_op_map` entry: an op of the property parses to its expected shape -/
def entryOk (p : String × String) : Bool :=
  match Op.ofName p.1 with
  | none => true
  | some o => parseTemplate p.2.toList == some (expectedTmpl o)

/-! ## `value_type` transforms (`type_value_map`) -/

/-- pieces of the two texts a `type_value_map` lambda returns -/
inductive TVPiece where
  | text (s : String) | sentinel | value | now | ageDur
  deriving DecidableEq, Repr

abbrev TVExpr := List TVPiece

/-- the meaning of a transform on one side of the comparison -/
inductive Xf where
  | sentinel | value                -- the literal / the attribute, untouched
  | size | uniqueSize | int | normalize   -- a function of the attribute
  | nowMinusAge | nowPlusAge        -- `now ∓ duration(age_to_duration(sentinel))`
  | timestampValue                  -- `timestamp(attribute)`
  deriving DecidableEq, Repr

/-- recognise the text shapes the property's value types use -/
def xfOf (e : TVExpr) : Option Xf :=
  if e = [.sentinel] then some .sentinel
  else if e = [.value] then some .value
  else if e = [.text "size(", .value, .text ")"] then some .size
  else if e = [.text "unique_size(", .value, .text ")"] then some .uniqueSize
  else if e = [.text "int(", .value, .text ")"] then some .int
  else if e = [.text "normalize(", .value, .text ")"] then some .normalize
  else if e = [.text "timestamp(", .value, .text ")"] then some .timestampValue
  else if e = [.now, .text " - duration(", .ageDur, .text ")"] then some .nowMinusAge
  else if e = [.now, .text " + duration(", .ageDur, .text ")"] then some .nowPlusAge
  else none

/-- render a transform text given the literal text, the key text and the duration text -/
def TVExpr.render (e : TVExpr) (sentinel value now ageDur : Str) : Str :=
  e.flatMap fun
    | .text s => s.toList | .sentinel => sentinel | .value => value | .now => now | .ageDur => ageDur

/-- the functions the transforms call, identified by name on both sides: CEL `size`, `unique_size`,
`int`, `normalize`, `timestamp` (c7nlib / celpy) are taken to be Custodian's `len`, `len(set())`,
`int`, `.strip().lower()`, `parse_date` — that identification is checked by correspondence, not here. -/
structure Prims where
  size : Val → Option Val
  uniqueSize : Val → Option Val
  toInt : Val → Option Val
  normalize : Val → Option Val
  /-- seconds since the epoch -/
  timestamp : Val → Option Int

/-- the length of time `duration(age_to_duration(d))` denotes, through the text actually emitted -/
def ageSeconds : Val → Option Nat
  | .atom (.int d) =>
    if d < 0 then none
    else match evalLiteral (ageToDuration d.toNat) with
      | some text => (match durOf text with | .ok s => some s | _ => none)
      | none => none
  | _ => none

def Xf.apply (P : Prims) (now : Int) (x : Xf) (sentinel value : Val) : Option Val :=
  match x with
  | .sentinel => some sentinel
  | .value => some value
  | .size => P.size value
  | .uniqueSize => P.uniqueSize value
  | .int => P.toInt value
  | .normalize => P.normalize value
  | .nowMinusAge => (ageSeconds sentinel).map (fun s => .atom (.int (now - s)))
  | .nowPlusAge => (ageSeconds sentinel).map (fun s => .atom (.int (now + s)))
  | .timestampValue => (P.timestamp value).map (fun t => .atom (.int t))

/-- what a `type_value_map` entry `(new cel_value, new key)` makes of the two holes:
`{0}` ← new key, `{1}` ← new cel_value (`atomic_op_map[op].format(key, cel_value)`) -/
def denoteOperands (P : Prims) (now : Int) (e : TVExpr × TVExpr) (r v : Val) : Option (Val × Val) :=
  match xfOf e.2, xfOf e.1 with
  | some x0, some x1 =>
    (match x0.apply P now v r, x1.apply P now v r with
     | some a0, some a1 => some (a0, a1)
     | _, _ => none)
  | _, _ => none

namespace Spec
/-- a whole, non-negative day count within the range a CEL duration can hold -/
def daysOf : Val → Option Nat
  | .atom (.int d) => if d < 0 then none else if d.toNat * 86400 ≤ durMaxSeconds then some d.toNat else none
  | _ => none

/-- Custodian's `process_value_type`: the operands `(r', v')` of `op(r', v')` for resource value `r`
and policy value `v` -/
def operands (P : Prims) (now : Int) (vt : String) (r v : Val) : Option (Val × Val) :=
  let days : Option Nat := daysOf v
  if vt = "size" then (P.size r).map (·, v)
  else if vt = "unique_size" then (P.uniqueSize r).map (·, v)
  else if vt = "integer" then (P.toInt r).map (·, v)
  else if vt = "normalize" then (P.normalize r).map (·, v)
  else if vt = "swap" then some (v, r)
  else if vt = "age" then
    match days, P.timestamp r with
    | some d, some t => some (.atom (.int (now - (d * 86400 : Nat))), .atom (.int t))
    | _, _ => none
  else if vt = "expiration" then
    match days, P.timestamp r with
    | some d, some t => some (.atom (.int t), .atom (.int (now + (d * 86400 : Nat))))
    | _, _ => none
  else none
end Spec

/-- for each value type of the property: (meaning of the new cel_value, meaning of the new key)
that Custodian's `process_value_type` calls for -/
def vtShape : String → Option (Xf × Xf)
  | "size" => some (.sentinel, .size)
  | "unique_size" => some (.sentinel, .uniqueSize)
  | "integer" => some (.sentinel, .int)
  | "normalize" => some (.sentinel, .normalize)
  | "swap" => some (.value, .sentinel)
  | "age" => some (.timestampValue, .nowMinusAge)
  | "expiration" => some (.nowPlusAge, .timestampValue)
  | _ => none

/-- the value types of the property -/
def vtNames : List String := ["size", "integer", "normalize", "swap", "unique_size", "age", "expiration"]

/-! ## `value_to_cel` -/

/-- the `value:` of a clause, by kind -/
inductive PV where
  | str (s : Str) | int (i : Int) | bool (b : Bool) | strs (xs : List Str) | ints (xs : List Int)
  /-- a list of arbitrary strings, with the characters of them that are not `str.isprintable` -/
  | strsU (np : List Char) (xs : List Str)
  deriving DecidableEq, Repr

/-- Python `repr(s)` for a string of ASCII characters (what `f"{value}"` writes for the elements
of a list value); non-ASCII needs the Unicode database (`str.isprintable`) — not modelled. -/
def pyReprAscii (s : Str) : Str :=
  let useDq := s.contains '\'' && !s.contains '"'
  let quote := if useDq then '"' else '\''
  let body := s.flatMap fun c =>
    if c = '\\' then ['\\', '\\']
    else if c = quote then ['\\', c]
    else if c = '\n' then ['\\', 'n'] else if c = '\r' then ['\\', 'r'] else if c = '\t' then ['\\', 't']
    else if c.toNat < 32 || c.toNat = 127 then ['\\', 'x', hexDigit (c.toNat / 16), hexDigit (c.toNat % 16)]
    else [c]
  quote :: (body ++ [quote])

/-- `%02x`, `%04x`, `%08x` -/
def hex2 (n : Nat) : Str := [hexDigit (n / 16 % 16), hexDigit (n % 16)]
def hex4 (n : Nat) : Str := [hexDigit (n / 4096 % 16), hexDigit (n / 256 % 16), hexDigit (n / 16 % 16), hexDigit (n % 16)]
def hex8 (n : Nat) : Str :=
  [hexDigit (n / 268435456 % 16), hexDigit (n / 16777216 % 16), hexDigit (n / 1048576 % 16), hexDigit (n / 65536 % 16),
   hexDigit (n / 4096 % 16), hexDigit (n / 256 % 16), hexDigit (n / 16 % 16), hexDigit (n % 16)]

/-- one character as Python's `repr` of a `str` (CPython `unicode_repr`) writes it inside the quotes
`quote`; `np` = the characters for which `str.isprintable` is false — that needs the Unicode database and
is a parameter here (the harness passes the non-printable characters that occur). -/
def pyReprChar (np : List Char) (quote c : Char) : Str :=
  if c = '\\' then ['\\', '\\']
  else if c = quote then ['\\', c]
  else if c = '\n' then ['\\', 'n'] else if c = '\r' then ['\\', 'r'] else if c = '\t' then ['\\', 't']
  else if c.toNat < 32 || c.toNat = 127 then '\\' :: 'x' :: hex2 c.toNat
  else if c.toNat < 127 then [c]
  else if !np.contains c then [c]
  else if c.toNat < 256 then '\\' :: 'x' :: hex2 c.toNat
  else if c.toNat < 65536 then '\\' :: 'u' :: hex4 c.toNat
  else '\\' :: 'U' :: hex8 c.toNat

/-- the quote `repr` chooses: `"` only when the text has a `'` and no `"` -/
def pyReprQuote (s : Str) : Char := if s.contains '\'' && !s.contains '"' then '"' else '\''

/-- Python `repr(s)` for any string: what `f"{value}"` writes for each element of a list value -/
def pyRepr (np : List Char) (s : Str) : Str :=
  pyReprQuote s :: (s.flatMap (pyReprChar np (pyReprQuote s)) ++ [pyReprQuote s])

def joinWith (sep : Str) : List Str → Str
  | [] => []
  | [x] => x
  | x :: xs => x ++ sep ++ joinWith sep xs

/-- `cel_value` before the value_type transform -/
def PV.celText : PV → Str
  | .str s => qd s
  | .int i => intDigits i
  | .bool b => if b then lit "True" else lit "False"
  | .strs xs => ['['] ++ joinWith [',', ' '] (xs.map pyReprAscii) ++ [']']
  | .ints xs => ['['] ++ joinWith [',', ' '] (xs.map intDigits) ++ [']']
  | .strsU np xs => ['['] ++ joinWith [',', ' '] (xs.map (pyRepr np)) ++ [']']

/-- `template.format(a0, a1)` for templates whose only braces are `{0}` and `{1}` -/
def format2 : Str → Str → Str → Str
  | [], _, _ => []
  | '{' :: '0' :: '}' :: r, a0, a1 => a0 ++ format2 r a0 a1
  | '{' :: '1' :: '}' :: r, a0, a1 => a1 ++ format2 r a0 a1
  | c :: r, a0, a1 => c :: format2 r a0 a1

def lookup (tbl : List (String × α)) (k : String) : Option α :=
  (tbl.find? (fun p => p.1 = k)).map (·.2)

inductive Emit where
  | ok (text : Str)
  | valueError
  | keyError
  deriving DecidableEq, Repr

/-- `value_to_cel(key, op, value, value_type)` given the regenerated tables; `dayCount` is the
whole number of days when the value is a non-negative int (needed by `age_to_duration`). -/
def valueToCel (ops : List (String × String)) (tvm : List (String × (TVExpr × TVExpr)))
    (key : Str) (op : String) (v : PV) (vt : Option String) : Emit :=
  let boolish : Option Bool := match v with
    | .bool b => some b
    | .str s => if s = lit "true" then some true else if s = lit "false" then some false else none
    | _ => none
  match boolish with
  | some b =>
    if op = "eq" || op = "equal" then .ok (if b then key else lit "! " ++ key)
    else if op = "ne" || op = "not-equal" then .ok (if b then lit "! " ++ key else key)
    else .valueError
  | none =>
    let valueIsReceiver :=
      if vt = some "swap" then op = "glob" || op = "regex" || op = "contains" || op = "difference" || op = "intersect"
      else op = "in" || op = "ni" || op = "not-in"
    let isStrOrList := match v with | .str _ => true | .strs _ => true | .ints _ => true | .strsU _ _ => true | _ => false
    if valueIsReceiver && !isStrOrList then .valueError
    else
      let celValue := v.celText
      let pair : Option (Str × Str) := match vt with
        | none => some (celValue, key)
        | some t => match lookup tvm t with
          | none => none
          | some (e1, e2) =>
            let age : Str := match v with
              | .int i => ageToDuration i.toNat
              | _ => []
            some (e1.render celValue key (lit "now") age, e2.render celValue key (lit "now") age)
      match pair with
      | none => .keyError
      | some (cv, k) =>
        match lookup ops op with
        | none => .keyError
        | some tmpl => .ok (format2 tmpl.toList k cv)

/-! ## delimiter balance (a necessary condition for a table entry to be CEL) -/

/-- scan with a stack of open delimiters; string literals (either quote, backslash escapes) are skipped -/
def balGo : Str → List Char → Option Char → Bool
  | [], stack, inStr => stack.isEmpty && inStr.isNone
  | c :: tl, stack, some qc =>
    if c = '\\' then (match tl with | _ :: r => balGo r stack (some qc) | [] => false)
    else if c = qc then balGo tl stack none
    else balGo tl stack (some qc)
  | c :: tl, stack, none =>
    if c = '"' || c = '\'' then balGo tl stack (some c)
    else if c = '(' || c = '[' || c = '{' then balGo tl (c :: stack) none
    else if c = ')' then (match stack with | '(' :: s => balGo tl s none | _ => false)
    else if c = ']' then (match stack with | '[' :: s => balGo tl s none | _ => false)
    else if c = '}' then (match stack with | '{' :: s => balGo tl s none | _ => false)
    else balGo tl stack none

def balanced (s : Str) : Bool := balGo s [] none

def allBalanced (t : List (String × Str)) : Bool := t.all (fun p => balanced p.2)

end Cel.XlateValue
