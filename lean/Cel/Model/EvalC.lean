/-
  Cel.Model.EvalC — denotation of the Python program produced by `Phase1Transpiler`/`Phase2Transpiler`
  for a CEL expression: strict Python evaluation in which exceptions are *raised* and become values only
  in `result()`, which the templates place around the operands of `||`, `&&`, `?:`, the argument of
  `has()`, the bodies of `all`/`exists` (inside `macro_all`/`macro_exists`) and the whole program.

  evaluation.py: `result`, `macro_map/filter/exists_one/exists/all`, `Phase1Transpiler.*` templates,
  `Phase2Transpiler.statements`, `Transpiler.evaluate`.
-/
import Cel.Model.EvalI
namespace Cel

/-- exception classes caught by `celpy.evaluation.result()` (subclasses are caught with their base) -/
def resultCaughtC : List Exc :=
  [.valueError, .keyError, .typeError, .zeroDiv, .overflow, .indexError, .nameError, .attributeError]

/-- `celpy.evaluation.result(activation, cel_expr)` -/
def resultC (r : PyM Val) : PyM Val :=
  match r with
  | .ok v => .ok v
  | .error c => if resultCaughtC.contains c then .ok .err else .error c

/-- transpiled `member_dot`: `<left>.get('<name>')` — `MapType.get` raises `KeyError`; an object
without `get` (int, list, `CELEvalError`, …) raises `AttributeError` -/
def selectC (v : Val) (f : String) : PyM Val :=
  match v with
  | .map ks vs => match mapGet ks vs f with
      | some x => .ok x
      | none => .error .keyError
  | _ => .error .attributeError

/-- the driver's `Sem.toBool`: `celpy.celtypes.BoolType(reduce(…))` at the end of `macro_all`/`macro_exists`: a `CELEvalError`
object is not convertible (`TypeError`); a `BoolType` is returned as is; other values are coerced by
Python truthiness of `int(...)` (only reached for non-boolean bodies). -/
def boolTypeOf (v : Val) : PyM Val :=
  match v with
  | .bool b => .ok (.bool b)
  | .err => .error .typeError
  | .int i => .ok (.bool (i != 0))
  | .pybool b => .ok (.bool b)
  | .null => .ok (.bool false)
  | .str _ => .error .other        -- `BoolType("true")`, `int("x")`: string parsing, outside the model
  | .other _ => .error .other
  | _ => .error .typeError

mutual
/-- value of the Python expression `tree.transpiled`, evaluated in activation `env` -/
def evalC (S : Sem) : Expr → Env → PyM Val
  | .lit v, _ => .ok v
  | .badlit, _ => .error .valueError
  | .ident x, env =>
      -- `activation.<x>`: `Activation.__getattr__` → `resolve_name`, falling back to `self.functions[name]` (KeyError)
      match env.lookup x with
      | some v => .ok v
      | none => if S.isFun x then .ok (.fnobj x) else .error .keyError
  | .un op a, env => do
      let v ← evalC S a env
      S.prim (.un op) [v]
  | .bin op a b, env => do
      let x ← evalC S a env
      let y ← evalC S b env
      S.prim (.bin op) [x, y]
  | .idx a i, env => do
      let x ← evalC S a env
      let y ← evalC S i env
      S.prim .index [x, y]
  | .sel a f, env => do
      let v ← evalC S a env
      selectC v f
  | .or a b, env => do
      let x ← resultC (evalC S a env)
      let y ← resultC (evalC S b env)
      vor x y
  | .and a b, env => do
      let x ← resultC (evalC S a env)
      let y ← resultC (evalC S b env)
      vand x y
  | .cond c x y, env => do
      let cv ← resultC (evalC S c env)
      let l ← resultC (evalC S x env)
      let r ← resultC (evalC S y env)
      vcond cv l r
  | .list xs, env => do
      let vs ← evalCs S xs env
      .ok (.list vs)
  | .map kvs, env => do
      let vs ← evalCs S kvs env
      S.prim .mkMap vs
  | .call f args, env => do
      -- bound: `module.function(args)`; unbound: `CELEvalError('unbound function', …)(args)` returns itself
      let vs ← evalCs S args env
      if !S.isFun f then .ok .err else S.prim (.fn f) vs
  | .mcall a f args, env => do
      let o ← evalC S a env
      let vs ← evalCs S args env
      if !S.isFun f then .ok .err else S.prim (.fn f) (o :: vs)
  | .macro k a x body, env => do
      -- `macro_<k>(activation, 'x', ex_n_x, ex_n_l)`; the generator over `cel_gen(activation)`
      let recv ← evalC S a env
      let elems ← S.iter recv
      match k with
      | .map => do
          let rs ← mapMV (fun v => evalC S body (env.bind x v)) elems
          .ok (.list rs)
      | .filter => do
          let rs ← filterMV (fun v => evalC S body (env.bind x v)) elems
          .ok (.list rs)
      | .existsOne => do
          let n ← countMV (fun v => evalC S body (env.bind x v)) elems
          .ok (.bool (n == 1))
      | .all => do
          let rs ← mapMV (fun v => resultC (evalC S body (env.bind x v))) elems
          let r ← foldAnd (.bool true) rs
          S.toBool r
      | .exists_ => do
          let rs ← mapMV (fun v => resultC (evalC S body (env.bind x v))) elems
          let r ← foldOr (.bool false) rs
          S.toBool r
  | .has a, env => do
      -- `not isinstance(celpy.evaluation.result(activation, ex_n_h), CELEvalError)` — a Python bool
      let v ← resultC (evalC S a env)
      .ok (.pybool (!v.isErr))
  | .dyn a, env => evalC S a env
/-- `", ".join(c.transpiled …)`: Python evaluates the elements left to right -/
def evalCs (S : Sem) : List Expr → Env → PyM (List Val)
  | [], _ => .ok []
  | x :: xs, env => do
      let v ← evalC S x env
      let vs ← evalCs S xs env
      .ok (v :: vs)
end

/-- `CEL = result(base_activation, …)`; `Transpiler.evaluate`: an error value is raised, and
`except Exception` turns every escaping exception into `CELEvalError`. -/
def runC (S : Sem) (e : Expr) (env : Env) : PyM Val :=
  match resultC (evalC S e env) with
  | .ok .err => .error .celEval
  | .ok v => .ok v
  | .error _ => .error .celEval

/-- what the API caller can observe -/
inductive Obs where
  | value (v : Val)
  | error
  deriving Repr

def obs : PyM Val → Obs
  | .ok .err => .error
  | .ok v => .value v
  | .error _ => .error

end Cel
