/-
  Cel.Model.C7n — the Cloud Custodian helper functions of `src/celpy/c7nlib.py` (property C17).

  Mirrors, as coded:
    * `intersect`, `difference`, `unique_size`  — `bool(set(l) & set(r))`, `bool(set(l) - set(r))`, `len(set(c))`
      (a Python set of hashable values = a duplicate-free list built by left-to-right insertion);
    * `normalize`                               — `string.lower().strip()` on ASCII (Unicode case mapping and
      the non-ASCII white space of `str.strip` are delegated to CPython, see notes/C17.md);
    * `glob`                                    — `fnmatch.fnmatch(text, pattern)`; on POSIX `os.path.normcase`
      is the identity, so this is `fnmatchcase`: `*`, `?`, `[seq]`, `[!seq]` (with `lo-hi` ranges), literals,
      an unclosed `[` is a literal;
    * `parse_cidr`, `IPv4Network.contains`, `size_parse_cidr` — strict IPv4 networks `(addr, prefixlen)`,
      `supernet_of` by network/broadcast comparison and address containment by masking, as `ipaddress` defines them;
    * `version` / `ComparableVersion`           — `packaging.version.Version` on purely numeric release segments:
      the comparison key is the release tuple with trailing zeros removed, compared as a tuple;
    * `key`, `marked_key`, `arn_split`;
    * `C7NContext.__enter__/__exit__` and the module global `C7N` as a bracket around an evaluation.

  A Python `str` is a list of code points (`List Nat`), like `Cel.Str.Text`.  Core Lean only.
-/
import Cel.Model.Basic
namespace Cel.C7n

abbrev Str := List Nat

def ofString (s : String) : Str := s.toList.map Char.toNat

/-! ## Python sets (of hashable values with a lawful `==`) -/
section PySet
variable {α : Type} [DecidableEq α]

/-- `s.add(x)` -/
def pyInsert (s : List α) (x : α) : List α := if x ∈ s then s else s ++ [x]
/-- `set(xs)`: the elements are added from left to right -/
def pySet (xs : List α) : List α := xs.foldl pyInsert []
/-- `s & t` -/
def pyAnd (s t : List α) : List α := s.filter (fun x => decide (x ∈ t))
/-- `s - t` -/
def pySub (s t : List α) : List α := s.filter (fun x => !decide (x ∈ t))
/-- `bool(s)` of a container -/
def pyBool (s : List α) : Bool := !s.isEmpty
/-- `len(s)` -/
def pyLen (s : List α) : Nat := s.length
/-- `s.isdisjoint(t)` -/
def pyIsDisjoint (s t : List α) : Bool := (pyAnd s t).isEmpty
/-- `s.issubset(t)`, `s <= t` -/
def pyIsSubset (s t : List α) : Bool := (pySub s t).isEmpty

/-- the celtypes wrappers around the native results (which CEL class a result carries is C13's subject) -/
def celBool (b : Bool) : Bool := b
def celInt (n : Nat) : Nat := n
def celStr (s : Str) : Str := s

/-- `c7nlib.intersect`: `BoolType(bool(set(left) & set(right)))` -/
def intersect (left right : List α) : Bool := pyBool (pyAnd (pySet left) (pySet right))
/-- `c7nlib.difference`: `BoolType(bool(set(left) - set(right)))` -/
def difference (left right : List α) : Bool := pyBool (pySub (pySet left) (pySet right))
/-- `c7nlib.unique_size`: `IntType(len(set(collection)))` -/
def uniqueSize (collection : List α) : Nat := pyLen (pySet collection)
end PySet

/-- list elements the property quantifies over: CEL ints and strings (`IntType(1) == StringType("1")`
is never asked by the set, their hashes differ) -/
inductive Elem where
  | int (n : Int)
  | str (s : Str)
  deriving DecidableEq, Repr

/-- CPython: `hash(n) = n mod (2^61 - 1)` (sign kept), so an int hashes to 0 — the hash of the empty string —
exactly when it is a multiple of `2^61 - 1` -/
def intHashZero (n : Int) : Bool := n % (2 ^ 61 - 1) == 0

/-- the one deterministic hash collision between a string and an int: `""` and an int with hash 0.  The set then
asks `IntType.__eq__` to compare an int with a string, which raises TypeError ("no such overload"). -/
def collide (xs : List Elem) : Bool :=
  xs.contains (.str []) && xs.any (fun e => match e with | .int n => intHashZero n | .str _ => false)

/-- the helpers on CEL lists of ints and strings, with the TypeError of the colliding pair -/
def intersectE (l r : List Elem) : PyM Bool :=
  if collide (l ++ r) then .error .typeError else .ok (intersect l r)
def differenceE (l r : List Elem) : PyM Bool :=
  if collide (l ++ r) then .error .typeError else .ok (difference l r)
def uniqueSizeE (c : List Elem) : PyM Nat :=
  if collide c then .error .typeError else .ok (uniqueSize c)

/-! ## `normalize` -/

/-- ASCII code points for which `str.isspace()` holds (what `str.strip()` removes) -/
def isSpace (c : Nat) : Bool := (9 ≤ c && c ≤ 13) || (28 ≤ c && c ≤ 32)
/-- `str.lower()` on one ASCII code point -/
def lowerCp (c : Nat) : Nat := if 65 ≤ c ∧ c ≤ 90 then c + 32 else c
def pyLower (s : Str) : Str := s.map lowerCp
def lstrip (s : Str) : Str := s.dropWhile isSpace
def rstrip (s : Str) : Str := (s.reverse.dropWhile isSpace).reverse
/-- `str.strip()` -/
def pyStrip (s : Str) : Str := rstrip (lstrip s)
/-- `c7nlib.normalize`: `StringType(string.lower().strip())` -/
def normalize (string : Str) : Str := pyStrip (pyLower string)

/-! ## `glob` -/

/-- an element of a bracket expression -/
inductive SetItem where
  | ch (c : Nat)
  | range (lo hi : Nat)
  deriving DecidableEq, Repr

def SetItem.has : SetItem → Nat → Bool
  | .ch c, x => x == c
  | .range lo hi, x => lo ≤ x && x ≤ hi

/-- the members of a bracket body: `c-h` (with a character on both sides) is a range, everything else a literal -/
def setItems : Str → List SetItem
  | [] => []
  | [c] => [.ch c]
  | [c, d] => [.ch c, .ch d]
  | c :: d :: h :: rest =>
    if d = 45 then .range c h :: setItems rest else .ch c :: setItems (d :: h :: rest)

/-- does the bracket body contain a range `lo-hi` with `lo > hi`?  (fnmatch deletes such ranges textually,
which can turn a following `!` into a negation; those patterns are outside the modelled fragment) -/
def hasEmptyRange (its : List SetItem) : Bool :=
  its.any fun | .range lo hi => decide (hi < lo) | .ch _ => false

inductive GItem where
  | star
  | any
  | lit (c : Nat)
  | set (neg : Bool) (items : List SetItem)
  deriving DecidableEq, Repr

def setHas (neg : Bool) (items : List SetItem) (c : Nat) : Bool :=
  if neg then !(items.any (·.has c)) else items.any (·.has c)

/-- text up to the first `]` and the text after it -/
def splitAtClose : Str → Option (Str × Str)
  | [] => none
  | c :: r => if c = 93 then some ([], r) else
      match splitAtClose r with
      | some (b, r') => some (c :: b, r')
      | none => none

/-- the scan fnmatch does after a `[`: an optional `!`, then a `]` that counts as a member, then up to the
closing `]`.  `none`: there is no closing bracket and the `[` is a literal. -/
def scanSet (p : Str) : Option (Bool × Str × Str) :=
  let neg := p.head? == some 33
  let p1 := if neg then p.drop 1 else p
  match p1 with
  | 93 :: r => match splitAtClose r with
      | some (b, r') => some (neg, 93 :: b, r')
      | none => none
  | _ => match splitAtClose p1 with
      | some (b, r') => some (neg, b, r')
      | none => none

theorem splitAtClose_lt {p b r : Str} (h : splitAtClose p = some (b, r)) : r.length < p.length := by
  induction p generalizing b r with
  | nil => simp [splitAtClose] at h
  | cons c t ih =>
    simp only [splitAtClose] at h
    split at h
    · simp at h; simp [h.2]
    · split at h
      · rename_i b' r' h'
        simp at h
        have := ih h'
        simp [← h.2]; omega
      · simp at h

theorem scanSet_lt {p : Str} {neg : Bool} {b r : Str} (h : scanSet p = some (neg, b, r)) :
    r.length < p.length + 1 := by
  unfold scanSet at h
  simp only at h
  have hd : ∀ q : Str, (if (p.head? == some 33) = true then p.drop 1 else p) = q → q.length ≤ p.length := by
    intro q hq; subst hq; split <;> simp
  generalize (if (p.head? == some 33) = true then p.drop 1 else p) = q at h hd
  have hq := hd q rfl
  split at h
  · rename_i r0
    split at h
    · rename_i b' r' h'
      have := splitAtClose_lt h'
      simp at h; simp at hq; rw [← h.2.2]; omega
    · simp at h
  · split at h
    · rename_i b' r' h'
      have := splitAtClose_lt h'
      simp at h; rw [← h.2.2]; omega
    · simp at h

/-- `fnmatch.translate` as a list of items (consecutive `*` need no compression: they denote the same language) -/
def parseGlob : Str → List GItem
  | [] => []
  | c :: p =>
    if c = 42 then .star :: parseGlob p
    else if c = 63 then .any :: parseGlob p
    else if c = 91 then
      match _h : scanSet p with
      | some (neg, body, rest) => .set neg (setItems body) :: parseGlob rest
      | none => .lit 91 :: parseGlob p
    else .lit c :: parseGlob p
termination_by p => p.length
decreasing_by
  all_goals simp_wf
  all_goals first | omega | (have := scanSet_lt _h; omega)

/-- all suffixes of a string, longest first -/
def tails : Str → List Str
  | [] => [[]]
  | c :: s => (c :: s) :: tails s

/-- the matcher: `re.match` of the translated pattern anchored at both ends -/
def matchItems : List GItem → Str → Bool
  | [], s => s.isEmpty
  | .star :: is, s => (tails s).any (matchItems is)
  | .any :: is, s => match s with
      | [] => false
      | _ :: t => matchItems is t
  | .lit a :: is, s => match s with
      | [] => false
      | c :: t => c == a && matchItems is t
  | .set n its :: is, s => match s with
      | [] => false
      | c :: t => setHas n its c && matchItems is t

/-- `fnmatch.fnmatchcase(name, pat)` -/
def fnmatchcase (name pat : Str) : Bool := matchItems (parseGlob pat) name
/-- `posixpath.normcase` -/
def normcase (s : Str) : Str := s
/-- `fnmatch.fnmatch(name, pat)` on POSIX -/
def fnmatch (name pat : Str) : Bool := fnmatchcase (normcase name) (normcase pat)
/-- `c7nlib.glob(text, pattern)` -/
def glob (text pattern : Str) : Bool := fnmatch text pattern

/-- patterns inside the modelled fragment: no bracket expression with an inverted range -/
def globInFragment (pat : Str) : Bool :=
  (parseGlob pat).all fun | .set _ its => !hasEmptyRange its | _ => true

/-! ## CIDR -/

/-- a strict IPv4 network as `ipaddress.IPv4Network(text)` builds it -/
structure Net where
  addr : Nat
  len : Nat
  deriving DecidableEq, Repr

def Net.size (n : Net) : Nat := 2 ^ (32 - n.len)
/-- `int(net.hostmask)` -/
def Net.hostmask (n : Net) : Nat := n.size - 1
/-- `int(net.broadcast_address)` = `network | hostmask`; the host bits of a strict network are zero, so the
bitwise or is the sum -/
def Net.bcast (n : Net) : Nat := n.addr + n.hostmask
/-- well-formed: what the constructor guarantees -/
def Net.WF (n : Net) : Prop := n.len ≤ 32 ∧ n.addr < 2 ^ 32 ∧ n.addr % n.size = 0

/-- `IPv4Network("a.b.c.d/len")` (strict): ValueError — hence `None` from `parse_cidr` — when the prefix length
is out of range, an octet is out of range, or host bits are set -/
def mkNet (addr len : Nat) : Option Net :=
  if len ≤ 32 ∧ addr < 2 ^ 32 ∧ addr % 2 ^ (32 - len) = 0 then some ⟨addr, len⟩ else none

/-- the values `parse_cidr` returns -/
inductive Cidr where
  | none
  | addr4 (ip : Nat)
  | addr6
  | net (n : Net)
  deriving DecidableEq, Repr

/-- `a.supernet_of(b)`: `a.network_address <= b.network_address and a.broadcast_address >= b.broadcast_address` -/
def supernetOf (a b : Net) : Bool := decide (a.addr ≤ b.addr) && decide (b.bcast ≤ a.bcast)
/-- `address in net`: `address._ip & net.netmask._ip == net.network_address._ip`; and-ing with the netmask
clears the `32 - len` low bits -/
def addrIn (ip : Nat) (n : Net) : Bool := ip / n.size * n.size == n.addr

/-- `c7nlib.IPv4Network.contains` (= `__contains__`) -/
def contains (n : Net) : Cidr → Bool
  | .none => false
  | .net x => supernetOf n x
  | .addr4 ip => addrIn ip n
  | .addr6 => false

/-- `parse_cidr(n).contains(parse_cidr(x))` as CEL and Python evaluate it: only a network has `contains` -/
def cidrContains (n x : Cidr) : PyM Bool :=
  match n with
  | .net n => .ok (contains n x)
  | _ => .error .attributeError

/-- `c7nlib.size_parse_cidr` -/
def sizeParseCidr : Cidr → Option Nat
  | .net n => some n.len
  | _ => none

/-- what `size_parse_cidr` asks of the value `parse_cidr` returned: its truth value (only `None` is false: neither
`ipaddress` networks nor addresses define `__bool__`/`__len__`), `is None`, `isinstance(_, IPv4Network)`, `.prefixlen` -/
def cidrTruthy : Cidr → Bool
  | .none => false
  | _ => true
def cidrIsNone : Cidr → Bool
  | .none => true
  | _ => false
def cidrIsNet : Cidr → Bool
  | .net _ => true
  | _ => false
def cidrPrefixlen : Cidr → PyM Nat
  | .net n => .ok n.len
  | _ => .error .attributeError

/-! ## versions -/

/-- `packaging.version._cmpkey`: the release segment without trailing zeros -/
def stripZeros (release : List Nat) : List Nat := (release.reverse.dropWhile (· == 0)).reverse

/-- tuple comparison `<` -/
def lexLt : List Nat → List Nat → Bool
  | [], [] => false
  | [], _ :: _ => true
  | _ :: _, [] => false
  | a :: as, b :: bs => decide (a < b) || (a == b && lexLt as bs)

def vkey (v : List Nat) : List Nat := stripZeros v
def vlt (a b : List Nat) : Bool := lexLt (vkey a) (vkey b)
def veq (a b : List Nat) : Bool := vkey a == vkey b
def vle (a b : List Nat) : Bool := vlt a b || veq a b
def vgt (a b : List Nat) : Bool := vlt b a
def vge (a b : List Nat) : Bool := vle b a
def vne (a b : List Nat) : Bool := !veq a b

/-! ## `key`, `marked_key`, `arn_split` -/

/-- a `{"Key": …, "Value": …}` mapping; either entry may be missing -/
structure Tag (V : Type) where
  key : Option Str
  value : Option V

def tagKeyName : Str := ofString "Key"
def tagValueName : Str := ofString "Value"

/-- `c7nlib.key`: the generator is lazy — items after the first match are never looked at; `MapType.get`
raises `KeyError` for a missing entry -/
def key {V : Type} : List (Tag V) → Str → PyM (Option V)
  | [], _ => .ok none
  | t :: ts, target =>
    match t.key with
    | none => .error .keyError
    | some k =>
      if k = target then
        match t.value with
        | none => .error .keyError
        | some v => .ok (some v)
      else key ts target

/-- a `for` loop over a list with an early `return`, or a lazy generator expression consumed by a single `next()`:
the items are visited from the left, the first one satisfying `pred` yields `res`, none yields `dflt`; an
exception raised by `pred`/`res` propagates, later items are never looked at -/
def pyFirst {α β : Type} (pred : α → PyM Bool) (res : α → PyM β) (dflt : PyM β) : List α → PyM β
  | [] => dflt
  | x :: xs => do
    if (← pred x) then res x else pyFirst pred res dflt xs

/-- `MapType.get(name)` / `mapping[name]` on a tag: KeyError for a missing entry -/
def Tag.get (t : Tag Str) (name : Str) : PyM Str :=
  if name = tagKeyName then (match t.key with | some k => .ok k | none => .error .keyError)
  else if name = tagValueName then (match t.value with | some v => .ok v | none => .error .keyError)
  else .error .keyError

/-- split at the first occurrence of `sep`: `(before, after)` -/
def splitFirst (sep : Nat) : Str → Option (Str × Str)
  | [] => none
  | c :: r => if c = sep then some ([], r) else
      match splitFirst sep r with
      | some (a, b) => some (c :: a, b)
      | none => none

/-- `s.rsplit(sep, 1)` when it yields two parts: split at the last occurrence -/
def splitLast (sep : Nat) (s : Str) : Option (Str × Str) :=
  match splitFirst sep s.reverse with
  | some (a, b) => some (b.reverse, a.reverse)
  | none => none

/-- the text part of `marked_key`: `msg, tgt = value.rsplit(":", 1)`; `action, date = tgt.strip().split("@", 1)`;
a failed unpacking (ValueError) gives `None` -/
def markedSplit (value : Str) : Option (Str × Str × Str) :=
  match splitLast 58 value with
  | none => none
  | some (msg, tgt) =>
    match splitFirst 64 (pyStrip tgt) with
    | none => none
    | some (action, date) => some (msg, action, date)

/-- `c7nlib.marked_key` before the date string is handed to `TimestampType` -/
def markedKey (tags : List (Tag Str)) (target : Str) : PyM (Option (Str × Str × Str)) :=
  match key tags target with
  | .error e => .error e
  | .ok none => .ok none
  | .ok (some v) => .ok (markedSplit v)

/-- `s.split(sep)` -/
def splitAll (sep : Nat) : Str → List Str
  | [] => [[]]
  | c :: r =>
    if c = sep then [] :: splitAll sep r
    else match splitAll sep r with
      | [] => [[c]]
      | x :: xs => (c :: x) :: xs

def arnNames5 : List Str := ["partition", "service", "region", "account-id", "resource-id"].map ofString
def arnNames6 : List Str :=
  ["partition", "service", "region", "account-id", "resource-type", "resource-id"].map ofString
/-- the `field_names` table of `arn_split`, keyed by length -/
def arnFieldNames : List (List Str) := [arnNames5, arnNames6]

/-- `dict(zip(names, fields))[field]` (the names are distinct) -/
def zipLookup : List Str → List Str → Str → Option Str
  | n :: ns, f :: fs, x => if n = x then some f else zipLookup ns fs x
  | _, _, _ => none

/-- `c7nlib.arn_split` -/
def arnSplit (arn field : Str) : PyM Str :=
  match splitAll 58 arn with
  | [] => .error .valueError
  | pfx :: fields =>
    if pfx ≠ ofString "arn" then .error .valueError
    else match arnFieldNames.find? (fun names => names.length == fields.length) with
      | none => .error .keyError
      | some names =>
        match zipLookup names fields field with
        | some v => .ok v
        | none => .error .keyError

/-! ## the filter context -/

/-- `C7NContext.__enter__`: `C7N = self` -/
def ctxEnter (self : Nat) (_c7n : Option Nat) : Option Nat := some self
/-- `C7NContext.__exit__(exc_type, …)`: `C7N = None`, unconditionally; returns `None`, so an exception in the
body propagates -/
def ctxExit (_self : Nat) (_excRaised : Bool) (_c7n : Option Nat) : Option Nat := none
def ctxExitSwallows (_self : Nat) (_excRaised : Bool) : Bool := false

/-- what a program may do as far as the module global `C7N` is concerned -/
inductive Ev where
  /-- a host function reads `celpy.c7nlib.C7N` (and logs `C7N.filter` or `None`) -/
  | obs
  /-- `with C7NContext(filter=f): body` — also `C7N_Interpreted_Runner.evaluate(ctx, filter=f)`, whose body is the evaluation -/
  | ctx (f : Nat) (body : List Ev)
  /-- an exception is raised here (a failing evaluation) -/
  | fail
  /-- `try: body except Exception: pass` — the caller surviving a failed evaluation -/
  | try_ (body : List Ev)

structure St where
  c7n : Option Nat
  log : List (Option Nat)
  deriving DecidableEq, Repr

mutual
/-- run one event; the `Bool` says whether an exception is propagating afterwards -/
def runEv : Ev → St → Bool × St
  | .obs, s => (false, { s with log := s.log ++ [s.c7n] })
  | .fail, s => (true, s)
  | .ctx f body, s =>
    let s1 := { s with c7n := ctxEnter f s.c7n }
    let (raised, s2) := runEvs body s1
    let s3 := { s2 with c7n := ctxExit f raised s2.c7n }
    (raised && !ctxExitSwallows f raised, s3)
  | .try_ body, s =>
    let (_, s1) := runEvs body s
    (false, s1)
/-- statements in sequence: an exception skips the rest -/
def runEvs : List Ev → St → Bool × St
  | [], s => (false, s)
  | e :: es, s =>
    let (raised, s1) := runEv e s
    if raised then (true, s1) else runEvs es s1
end

end Cel.C7n
