/-
  Cel.Model.Str — strings, bytes and numeric literals of cel-python.

  Mirrors (src/celpy/evaluation.py) `CEL_ESCAPES_PAT`, `CEL_ESCAPES`, `celstr()`, `celbytes()`,
  `Evaluator.literal`, `Phase1Transpiler.literal`, and (src/celpy/celtypes.py) the text branches of
  `IntType.__new__` / `UintType.__new__`.  Core Lean only.

  Representation.  A Python `str` is a list of code points `List Nat` (`Text`); Python strings may
  hold lone surrogates, so `Char` would be too small.  A Python `bytes` is a `List Nat` (`Bytes`) whose
  elements the constructors below keep `< 256` (`bytes(iterable)` raises ValueError otherwise).
  `ofString`/`toString?` convert from/to Lean strings.

  API used by other properties (C10, C19):
    `Text`, `Bytes`, `ofString`, `utf8Cp`, `utf8Encode`, `utf8Decode`,
    `celstr`, `celbytes`  (token text ↦ value, as coded),
    `spelled`, `spelledBytes` (the CEL definition of what a literal body denotes),
    `Quote`, `Style`, `wrapStr`, `wrapBytes`, `encodeBody`, `encodeLit`, `encodeBytesLit`,
    `intOfLit`, `uintOfLit` (interpreter), `pyIntLiteral`, `transpiledInt`, `transpiledUint` (compiled runner).
-/
import Cel.Model.Basic
import Cel.Model.Num
namespace Cel.Str

abbrev Text := List Nat
abbrev Bytes := List Nat

def ofString (s : String) : Text := s.toList.map Char.toNat

/-- code points a Python `str` element can be -/
def isCp (c : Nat) : Bool := c < 0x110000
def isSurrogate (c : Nat) : Bool := 0xD800 ≤ c && c ≤ 0xDFFF
/-- Unicode scalar value: what a CEL string may contain -/
def isScalar (c : Nat) : Bool := isCp c && !isSurrogate c

/-! ### UTF-8 (`str.encode('utf-8')`, `bytes.decode('utf-8')`, both strict) -/

/-- UTF-8 of one code point; `UnicodeEncodeError` (a `ValueError`) for surrogates. -/
def utf8Cp (c : Nat) : PyM Bytes :=
  if c < 0x80 then .ok [c]
  else if c < 0x800 then .ok [0xC0 + c / 64, 0x80 + c % 64]
  else if c < 0x10000 then
    (if isSurrogate c then .error .valueError
     else .ok [0xE0 + c / 4096, 0x80 + c / 64 % 64, 0x80 + c % 64])
  else if c < 0x110000 then .ok [0xF0 + c / 262144, 0x80 + c / 4096 % 64, 0x80 + c / 64 % 64, 0x80 + c % 64]
  else .error .valueError

def utf8Encode : Text → PyM Bytes
  | [] => .ok []
  | c :: cs => do
    let b ← utf8Cp c
    let r ← utf8Encode cs
    pure (b ++ r)

def isCont (b : Nat) : Bool := 0x80 ≤ b && b < 0xC0

/-- strict UTF-8 decoder (rejects overlong forms, surrogates, > U+10FFFF, stray bytes):
`UnicodeDecodeError` is a `ValueError`. -/
def utf8Decode : Bytes → PyM Text
  | [] => .ok []
  | b0 :: rest =>
    if b0 < 0x80 then (b0 :: ·) <$> utf8Decode rest
    else if b0 < 0xC2 then .error .valueError
    else if b0 < 0xE0 then
      match rest with
      | b1 :: r =>
        if isCont b1 then (((b0 - 0xC0) * 64 + (b1 - 0x80)) :: ·) <$> utf8Decode r else .error .valueError
      | _ => .error .valueError
    else if b0 < 0xF0 then
      match rest with
      | b1 :: b2 :: r =>
        let c := (b0 - 0xE0) * 4096 + (b1 - 0x80) * 64 + (b2 - 0x80)
        if isCont b1 && isCont b2 && 0x800 ≤ c && !isSurrogate c then (c :: ·) <$> utf8Decode r
        else .error .valueError
      | _ => .error .valueError
    else if b0 < 0xF5 then
      match rest with
      | b1 :: b2 :: b3 :: r =>
        let c := (b0 - 0xF0) * 262144 + (b1 - 0x80) * 4096 + (b2 - 0x80) * 64 + (b3 - 0x80)
        if isCont b1 && isCont b2 && isCont b3 && 0x10000 ≤ c && c < 0x110000 then (c :: ·) <$> utf8Decode r
        else .error .valueError
      | _ => .error .valueError
    else .error .valueError

/-! ### character classes of the patterns -/

/-- `[0-9]` (the pattern says `\d`; non-ASCII decimal digits are outside the model, see notes/C07.md) -/
def isDigit (c : Nat) : Bool := 48 ≤ c && c ≤ 57
/-- `[0-9a-fA-F]` -/
def isHex (c : Nat) : Bool := (48 ≤ c && c ≤ 57) || (97 ≤ c && c ≤ 102) || (65 ≤ c && c ≤ 70)
def isOct (c : Nat) : Bool := 48 ≤ c && c ≤ 55
/-- second character of `\\[abfnrtv"'\\]` -/
def isSimple (c : Nat) : Bool :=
  c = 97 || c = 98 || c = 102 || c = 110 || c = 114 || c = 116 || c = 118 || c = 34 || c = 39 || c = 92

def hexVal (c : Nat) : Nat :=
  if 48 ≤ c && c ≤ 57 then c - 48 else if 97 ≤ c && c ≤ 102 then c - 87 else c - 55

/-- the first `n` elements exist and all satisfy `p` (`X{n}` of a regex) -/
def prefixAll (p : Nat → Bool) : Nat → Text → Bool
  | 0, _ => true
  | _ + 1, [] => false
  | n + 1, c :: cs => p c && prefixAll p n cs

/-- digits → number, most significant first (no validation) -/
def digitsVal (base : Nat) (f : Nat → Nat) (ds : Text) : Nat := ds.foldl (fun acc d => acc * base + f d) 0

/-- Python `int(s, 16)` for the strings that can reach it here (plain digit strings; no sign, `_`, blanks). -/
def pyInt16 (s : Text) : PyM Nat :=
  if s ≠ [] ∧ s.all isHex then .ok (digitsVal 16 hexVal s) else .error .valueError
/-- Python `int(s, 8)` likewise -/
def pyInt8 (s : Text) : PyM Nat :=
  if s ≠ [] ∧ s.all isOct then .ok (digitsVal 8 (· - 48) s) else .error .valueError

/-! ### `CEL_ESCAPES_PAT` and `CEL_ESCAPES` -/

/-- source text of the pattern (as the Python string value), checked against the regenerated copy in
`Cel.Bridge.Str`.  The tokeniser `matchLen` below was written for exactly this text. -/
def celEscapesPatSource : String :=
  "\\\\[abfnrtv\"'\\\\]|\\\\\\d{3}|\\\\x[0-9a-fA-F]{2}|\\\\u[0-9a-fA-F]{4}|\\\\U[0-9a-fA-F]{8}|."

/-- `CEL_ESCAPES` as an association list (key text ↦ value text), sorted by key -/
def celEscapes : List (String × String) :=
  [("\\\"", "\""), ("\\'", "'"), ("\\\\", "\\"), ("\\a", "\x07"), ("\\b", "\x08"), ("\\f", "\x0c"), ("\\n", "\n"),
   ("\\r", "\r"), ("\\t", "\t"), ("\\v", "\x0b")]

/-- `CEL_ESCAPES.get(match, match)` -/
def escapesGet (m : Text) : Text :=
  match celEscapes.find? (fun kv => ofString kv.1 == m) with
  | some kv => ofString kv.2
  | none => m

/-- length of the match of `CEL_ESCAPES_PAT` (ordered alternation, first alternative that matches
wins) at the start of the text; `0` = no match here (empty text, or a newline without DOTALL). -/
def matchLen (dotall : Bool) : Text → Nat
  | [] => 0
  | c :: rest =>
    if c = 92 then
      match rest with
      | [] => 1
      | e :: r =>
        if isSimple e then 2
        else if prefixAll isDigit 3 rest then 4
        else if e = 120 && prefixAll isHex 2 r then 4
        else if e = 117 && prefixAll isHex 4 r then 6
        else if e = 85 && prefixAll isHex 8 r then 10
        else 1
    else if c = 10 && !dotall then 0 else 1

/-- `m.group() for m in CEL_ESCAPES_PAT.finditer(body)`; `fuel ≥ body.length` suffices. -/
def tokensFuel (dotall : Bool) : Nat → Text → List Text
  | 0, _ => []
  | _ + 1, [] => []
  | n + 1, c :: cs =>
    let k := matchLen dotall (c :: cs)
    if k = 0 then tokensFuel dotall n cs
    else (c :: cs).take k :: tokensFuel dotall n ((c :: cs).drop k)

def tokens (dotall : Bool) (body : Text) : List Text := tokensFuel dotall body.length body

/-- `chr(code)` guarded the way `celstr` guards it: `ValueError` above U+10FFFF. -/
def pyChr (v : Nat) : PyM Nat := if v < 0x110000 then .ok v else .error .valueError

/-- `expand` of `celstr` for one match -/
def expandStr (m : Text) : PyM Text :=
  if m.length = 1 then .ok m
  else if m.take 2 = [92, 120] then do let v ← pyInt16 (m.drop 2); let c ← pyChr v; pure [c]
  else if m.take 2 = [92, 117] ∨ m.take 2 = [92, 85] then do let v ← pyInt16 (m.drop 2); let c ← pyChr v; pure [c]
  else if m.take 1 = [92] ∧ m.length = 4 then do let v ← pyInt8 (m.drop 1); let c ← pyChr v; pure [c]
  else .ok (escapesGet m)

/-- `"".join(expand(match_iter))` -/
def expandAllStr : List Text → PyM Text
  | [] => .ok []
  | m :: ms => do
    let a ← expandStr m
    let r ← expandAllStr ms
    pure (a ++ r)

/-- Python slice `xs[a:-b]` for `b > 0` -/
def sliceMid (a b : Nat) (xs : Text) : Text := (xs.take (xs.length - b)).drop a
/-- Python slice `xs[a:b]` -/
def slice (a b : Nat) (xs : Text) : Text := (xs.take b).drop a

def tripleDQ : Text := [34, 34, 34]
def tripleSQ : Text := [39, 39, 39]

/-- `celstr(token)` with the DOTALL flag of the pattern as a parameter -/
def celstrWith (dotall : Bool) (text : Text) : PyM Text :=
  if text.take 1 = [82] ∨ text.take 1 = [114] then
    if slice 1 4 text = tripleDQ ∨ slice 1 4 text = tripleSQ then .ok (sliceMid 4 3 text)
    else .ok (sliceMid 2 1 text)
  else
    if slice 0 3 text = tripleDQ ∨ slice 0 3 text = tripleSQ then expandAllStr (tokens dotall (sliceMid 3 3 text))
    else expandAllStr (tokens dotall (sliceMid 1 1 text))

/-- `celstr(token)` — the pattern is compiled with `re.DOTALL` (bridge: `Cel.Bridge.escapes_pat_dotall`). -/
def celstr (text : Text) : PyM Text := celstrWith true text

/-- `bytes(iterable_of_ints)`: `ValueError` unless every element is in `range(0, 256)` -/
def pyBytes (xs : List Nat) : PyM Bytes := if xs.all (· < 256) then .ok xs else .error .valueError

/-- one step of `expand` of `celbytes`: the ints yielded for one match.
`ord(CEL_ESCAPES.get(match, match))` raises `TypeError` when the result is not one character. -/
def expandBytes (m : Text) : PyM (List Nat) :=
  if m.length = 1 then utf8Encode m
  else if m.take 2 = [92, 120] then do let v ← pyInt16 (m.drop 2); pure [v]
  else if m.take 2 = [92, 117] ∨ m.take 2 = [92, 85] then do let v ← pyInt16 (m.drop 2); pure [v]
  else if m.take 1 = [92] ∧ m.length = 4 then do let v ← pyInt8 (m.drop 1); pure [v]
  else match escapesGet m with
    | [c] => .ok [c]
    | _ => .error .typeError

def expandAllBytes : List Text → PyM (List Nat)
  | [] => .ok []
  | m :: ms => do
    let a ← expandBytes m
    let r ← expandAllBytes ms
    pure (a ++ r)

def lower (c : Nat) : Nat := if 65 ≤ c && c ≤ 90 then c + 32 else c

/-- `celbytes(token)` -/
def celbytesWith (dotall : Bool) (text : Text) : PyM Bytes :=
  if (text.take 2).map lower = [98, 114] then
    if slice 2 5 text = tripleDQ ∨ slice 2 5 text = tripleSQ then utf8Encode (sliceMid 5 3 text)
    else utf8Encode (sliceMid 3 1 text)
  else if (text.take 1).map lower = [98] then
    if slice 1 4 text = tripleDQ ∨ slice 1 4 text = tripleSQ then
      expandAllBytes (tokens dotall (sliceMid 4 3 text)) >>= pyBytes
    else expandAllBytes (tokens dotall (sliceMid 2 1 text)) >>= pyBytes
  else .error .valueError

def celbytes (text : Text) : PyM Bytes := celbytesWith true text

/-! ### the CEL definition: what a literal body spells (reference decoder)

  ESCAPE ::= \ [abfnrtv\"'] | \x HEX HEX | \u HEX×4 | \U HEX×8 | \ [0-3][0-7][0-7]
  (cel-spec langdef; `\?` and `` \` `` are not in the property's list).  Strings: an escape denotes
  a code point (`\u`/`\U`: a Unicode scalar value); bytes: `\x` and octal escapes denote an octet,
  every other character its UTF-8 encoding; `\u`/`\U` are not bytes escapes.  -/

/-- value of the simple escape `\c` -/
def simpleVal (c : Nat) : Nat :=
  if c = 97 then 7 else if c = 98 then 8 else if c = 102 then 12 else if c = 110 then 10
  else if c = 114 then 13 else if c = 116 then 9 else if c = 118 then 11 else c

inductive EscKind | simple | hex | uni | oct
  deriving DecidableEq, Repr

/-- the escape starting right after a backslash: (kind, value, characters consumed after the backslash) -/
def escapeAt : Text → Option (EscKind × Nat × Nat)
  | [] => none
  | c :: r =>
    if isSimple c then some (.simple, simpleVal c, 1)
    else if c = 120 then
      (if prefixAll isHex 2 r then some (.hex, digitsVal 16 hexVal (r.take 2), 3) else none)
    else if c = 117 then
      (if prefixAll isHex 4 r then some (.uni, digitsVal 16 hexVal (r.take 4), 5) else none)
    else if c = 85 then
      (if prefixAll isHex 8 r then some (.uni, digitsVal 16 hexVal (r.take 8), 9) else none)
    else if 48 ≤ c ∧ c ≤ 51 then
      (if prefixAll isOct 2 r then some (.oct, digitsVal 8 (· - 48) (c :: r.take 2), 3) else none)
    else none

/-- what a cooked string body spells; `none` = not a CEL string body (a backslash that does not start
an escape of the list, or a `\u`/`\U` escape that is not a Unicode scalar value) -/
def spelledFuel : Nat → Text → Option Text
  | _, [] => some []
  | 0, _ :: _ => none
  | n + 1, c :: rest =>
    if c = 92 then
      match escapeAt rest with
      | some (k, v, len) =>
        if k = .uni && !isScalar v then none else (v :: ·) <$> spelledFuel n (rest.drop len)
      | none => none
    else (c :: ·) <$> spelledFuel n rest

def spelled (body : Text) : Option Text := spelledFuel body.length body

/-- what a cooked bytes body spells: `\x`, octal and simple escapes are octets, any other character
its UTF-8 encoding; `\u`/`\U` are not bytes escapes -/
def spelledBytesFuel : Nat → Text → Option Bytes
  | _, [] => some []
  | 0, _ :: _ => none
  | n + 1, c :: rest =>
    if c = 92 then
      match escapeAt rest with
      | some (k, v, len) =>
        if k = .uni then none else (v :: ·) <$> spelledBytesFuel n (rest.drop len)
      | none => none
    else
      match utf8Cp c with
      | .ok b => (b ++ ·) <$> spelledBytesFuel n rest
      | .error _ => none

def spelledBytes (body : Text) : Option Bytes := spelledBytesFuel body.length body

/-! ### quoting styles and the reference encoder -/

inductive Quote | sq | dq | tsq | tdq
  deriving DecidableEq, Repr

def Quote.char : Quote → Nat
  | .sq | .tsq => 39
  | .dq | .tdq => 34
def Quote.triple : Quote → Bool
  | .tsq | .tdq => true
  | _ => false
def Quote.text (q : Quote) : Text := if q.triple then [q.char, q.char, q.char] else [q.char]

/-- a quoting style: quote kind, raw or cooked, and the letter case of the `r` / `b` prefixes -/
structure Style where
  quote : Quote
  raw : Bool
  upperR : Bool := false
  upperB : Bool := false
  deriving DecidableEq, Repr

def Style.rPrefix (st : Style) : Text := if st.raw then [if st.upperR then 82 else 114] else []
def Style.bPrefix (st : Style) : Text := [if st.upperB then 66 else 98]

/-- the token text of a string literal with the given body -/
def wrapStr (st : Style) (body : Text) : Text := st.rPrefix ++ st.quote.text ++ body ++ st.quote.text
/-- the token text of a bytes literal with the given body -/
def wrapBytes (st : Style) (body : Text) : Text := st.bPrefix ++ st.rPrefix ++ st.quote.text ++ body ++ st.quote.text

/-- reference encoder for one code point in a cooked body: backslash, the style's quote character,
LF and CR are escaped; everything else stands for itself. -/
def encodeCp (q : Quote) (c : Nat) : Text :=
  if c = 92 then [92, 92]
  else if c = q.char then [92, c]
  else if c = 10 then [92, 110]
  else if c = 13 then [92, 114]
  else [c]

def encodeBody (q : Quote) : Text → Text
  | [] => []
  | c :: cs => encodeCp q c ++ encodeBody q cs

/-- a cooked literal spelling the string `s` -/
def encodeLit (st : Style) (s : Text) : Text := wrapStr { st with raw := false } (encodeBody st.quote s)

def hexDigitChar (d : Nat) : Nat := if d < 10 then 48 + d else 87 + d

/-- reference encoder for one octet in a cooked bytes body: printable ASCII other than backslash and
quotes stands for itself, everything else is `\xHH` -/
def encodeByte (b : Nat) : Text :=
  if 32 ≤ b && b < 127 && b ≠ 92 && b ≠ 34 && b ≠ 39 then [b]
  else [92, 120, hexDigitChar (b / 16), hexDigitChar (b % 16)]

def encodeBytesBody : Bytes → Text
  | [] => []
  | b :: bs => encodeByte b ++ encodeBytesBody bs

def encodeBytesLit (st : Style) (b : Bytes) : Text := wrapBytes { st with raw := false } (encodeBytesBody b)

/-- a raw style can spell `s` verbatim: no quote delimiter inside, no trailing backslash (it would
escape the closing quote for the lexer), no line break in a short literal -/
def rawEncodable (q : Quote) (s : Text) : Bool :=
  !(s.contains q.char) && s.getLast? != some 92 && (q.triple || (!(s.contains 10) && !(s.contains 13)))

/-! ### integer literals -/

/-- CPython's `sys.int_max_str_digits` default: `int(str)` and decimal source literals of more digits fail -/
def maxDigits : Nat := 4300

/-- Python `int(s)` (base 10) on `[+-]?[0-9]+`; anything else is a `ValueError`, and so is a text of
more than 4300 digits. -/
def pyInt10 (s : Text) : PyM Int :=
  let ds := if s.head? = some 45 ∨ s.head? = some 43 then s.drop 1 else s
  if ds ≠ [] ∧ ds.all isDigit ∧ ds.length ≤ maxDigits then
    .ok (if s.head? = some 45 then -(digitsVal 10 (· - 48) ds : Nat) else (digitsVal 10 (· - 48) ds : Nat))
  else .error .valueError

def isHexPrefix (p : Text) : Bool := p = [48, 120] || p = [48, 88]
def isNegHexPrefix (p : Text) : Bool := p = [45, 48, 120] || p = [45, 48, 88]

/-- `IntType(text)` — what the interpreter does with an `INT_LIT` token -/
def intOfLit (s : Text) : PyM Int :=
  if isHexPrefix (s.take 2) then do let v ← pyInt16 (s.drop 2); int64 v
  else if isNegHexPrefix (s.take 3) then do let v ← pyInt16 (s.drop 3); int64 (-(v : Int))
  else pyInt10 s >>= int64

/-- `UintType(text[:-1])` — what the interpreter does with a `UINT_LIT` token (`s` = text without the suffix) -/
def uintOfLit (s : Text) : PyM Int :=
  if isHexPrefix (s.take 2) then do let v ← pyInt16 (s.drop 2); uint64 v
  else pyInt10 s >>= uint64

/-- value of the text as a Python *source* integer literal with optional unary minus (what `exec`
computes for the pasted text): decimal with a leading zero is a `SyntaxError` unless all zeros, and so
is a decimal literal of more than 4300 digits (`sys.int_max_str_digits` applies to source text too). -/
def pyIntLiteral (s : Text) : PyM Int :=
  let ds := if s.head? = some 45 then s.drop 1 else s
  let sign (n : Nat) : Int := if s.head? = some 45 then -(n : Int) else n
  if isHexPrefix (ds.take 2) then
    (match pyInt16 (ds.drop 2) with
     | .ok v => .ok (sign v)
     | .error _ => .error .syntaxError)
  else if ds ≠ [] ∧ ds.all isDigit ∧ (ds.head? ≠ some 48 ∨ ds.all (· = 48)) ∧ ds.length ≤ maxDigits then
    .ok (sign (digitsVal 10 (· - 48) ds))
  else .error .syntaxError

/-- `lstrip("0") or "0"` -/
def dropZeros : Text → Text
  | [] => [48]
  | d :: r => if d = 48 then dropZeros r else d :: r

/-- the transpiler's `python_int_text`: leading zeros of a decimal literal dropped, hexadecimal text unchanged -/
def normIntText (s : Text) : Text :=
  let ds := if s.head? = some 45 then s.drop 1 else s
  if isHexPrefix (ds.take 2) then s
  else (if s.head? = some 45 then [45] else []) ++ dropZeros ds

/-- `Phase1Transpiler.literal` (since /repo 50c913c): the token text is first converted the way the
interpreter does (`IntType(text)` / `UintType(text)`); if that fails the transpiled text is
`literal_error(...)`, raised (ValueError) when the expression is evaluated. Otherwise the compiled runner
evaluates `celpy.celtypes.IntType(<pasted text>)`. -/
def transpiledInt (s : Text) : PyM Int :=
  match intOfLit s with
  | .error c => .error c
  | .ok _ => pyIntLiteral (normIntText s) >>= int64
def transpiledUint (s : Text) : PyM Int :=
  match uintOfLit s with
  | .error c => .error c
  | .ok _ => pyIntLiteral (normIntText s) >>= uint64

/-! ### what a numeric spelling denotes (specification side) -/

/-- positional value of a decimal digit string -/
def decVal (ds : Text) : Nat := digitsVal 10 (· - 48) ds
/-- positional value of a hexadecimal digit string (either letter case) -/
def hexStrVal (ds : Text) : Nat := digitsVal 16 hexVal ds
/-- optional leading `-` -/
def signText (neg : Bool) : Text := if neg then [45] else []
def signed (neg : Bool) (n : Nat) : Int := if neg then -(n : Int) else n

/-- reference printer: the digits of `n` in base `b` (most significant first), at most `fuel` of them -/
def digitsOf (b : Nat) (ch : Nat → Nat) : Nat → Nat → Text
  | 0, _ => []
  | f + 1, n => if n < b then [ch n] else digitsOf b ch f (n / b) ++ [ch (n % b)]
/-- decimal digits of a number below 10^20 (covers int64 and uint64) -/
def decDigits (n : Nat) : Text := digitsOf 10 (48 + ·) 20 n
/-- lower-case hexadecimal digits of a number below 16^16 -/
def hexDigits (n : Nat) : Text := digitsOf 16 hexDigitChar 16 n

/-! ### the lexer's literal terminals (delegated to lark / Python `re`)

The regular expressions lark compiles for the `*_LIT` terminals of cel.lark, as this model and the
theorems of `Cel.Props.C07` read them (`Cel.Bridge.Str` checks them against the regenerated copy):
INT_LIT = `-?0x[0-9a-fA-F]+ | -?[0-9]+` (so a token text is `signText neg ++ [48,120] ++ ds` or
`signText neg ++ ds`), UINT_LIT = INT_LIT `[uU]`, the string terminals = optional `r`/`R`, a quote
(`'`, `"`, triple), a lazily matched body, the same quote; BYTES_LIT = `[bB]` + a string terminal. -/
def litTerminals : List (String × String) := [
  ("BOOL_LIT", "(?:false|true)"),
  ("BYTES_LIT", "(?:[bB](?:[rR]?'''(?:\\\\[abfnrtv\"'\\\\]|\\\\\\d{3}|\\\\x[0-9a-fA-F]{2}|\\\\u[0-9a-fA-F]{4}|\\\\U[0-9a-fA-F]{8}|\r\n|\r|\n|.)*?'''|[rR]?\"\"\"(?:\\\\[abfnrtv\"'\\\\]|\\\\\\d{3}|\\\\x[0-9a-fA-F]{2}|\\\\u[0-9a-fA-F]{4-8}|\r\n|\r|\n|.)*?\"\"\")|[bB](?:[rR]?'(?:\\\\[abfnrtv\"'\\\\]|\\\\\\d{3}|\\\\x[0-9a-fA-F]{2}|\\\\u[0-9a-fA-F]{4}|\\\\U[0-9a-fA-F]{8}|.)*?'|[rR]?\"(?:\\\\[abfnrtv\"'\\\\]|\\\\\\d{3}|\\\\x[0-9a-fA-F]{2}|\\\\u[0-9a-fA-F]{4-8}|.)*?\"))"),
  ("FLOAT_LIT", "(?:-?(?:[0-9])+[eE][+-]?(?:[0-9])+|-?(?:[0-9])+\\.(?:[0-9])*(?:[eE][+-]?(?:[0-9])+)?|-?(?:[0-9])*\\.(?:[0-9])+(?:[eE][+-]?(?:[0-9])+)?)"),
  ("INT_LIT", "(?:-?0x(?:[0-9abcdefABCDEF])+|-?(?:[0-9])+)"),
  ("MLSTRING_LIT", "(?:[rR]?'''(?:\\\\[abfnrtv\"'\\\\]|\\\\\\d{3}|\\\\x[0-9a-fA-F]{2}|\\\\u[0-9a-fA-F]{4}|\\\\U[0-9a-fA-F]{8}|\r\n|\r|\n|.)*?'''|[rR]?\"\"\"(?:\\\\[abfnrtv\"'\\\\]|\\\\\\d{3}|\\\\x[0-9a-fA-F]{2}|\\\\u[0-9a-fA-F]{4-8}|\r\n|\r|\n|.)*?\"\"\")"),
  ("NULL_LIT", "null"),
  ("STRING_LIT", "(?:[rR]?'(?:\\\\[abfnrtv\"'\\\\]|\\\\\\d{3}|\\\\x[0-9a-fA-F]{2}|\\\\u[0-9a-fA-F]{4}|\\\\U[0-9a-fA-F]{8}|.)*?'|[rR]?\"(?:\\\\[abfnrtv\"'\\\\]|\\\\\\d{3}|\\\\x[0-9a-fA-F]{2}|\\\\u[0-9a-fA-F]{4-8}|.)*?\")"),
  ("UINT_LIT", "(?:-?0x(?:[0-9abcdefABCDEF])+|-?(?:[0-9])+)[uU]")]

/-- token types accepted by the grammar rule `literal` (the cases of `Evaluator.literal`) -/
def literalAlternatives : List String :=
  ["BOOL_LIT", "BYTES_LIT", "FLOAT_LIT", "INT_LIT", "MLSTRING_LIT", "NULL_LIT", "STRING_LIT", "UINT_LIT"]

/-- `Evaluator.literal` turns exactly `ValueError` (and subclasses) into an error value;
`Phase1Transpiler.literal` defers exactly the same class to evaluation time (`literal_error`). -/
def literalCaught : List Exc := [.valueError]

/-! ### a body as a sequence of freely chosen spellings (specification side) -/

/-- one element of a cooked string body, spelled in any of the forms the property lists -/
inductive Piece where
  | lit (c : Nat)                       -- the character itself
  | simple (e : Nat)                    -- `\e`
  | hex (h1 h2 : Nat)                   -- `\xHH`
  | u4 (h : Text)                       -- `\uHHHH`
  | u8 (h : Text)                       -- `\UHHHHHHHH`
  | oct (o1 o2 o3 : Nat)                -- `\ooo`

def Piece.render : Piece → Text
  | .lit c => [c]
  | .simple e => [92, e]
  | .hex h1 h2 => [92, 120, h1, h2]
  | .u4 h => 92 :: 117 :: h
  | .u8 h => 92 :: 85 :: h
  | .oct o1 o2 o3 => [92, o1, o2, o3]

def Piece.value : Piece → Nat
  | .lit c => c
  | .simple e => simpleVal e
  | .hex h1 h2 => hexVal h1 * 16 + hexVal h2
  | .u4 h => digitsVal 16 hexVal h
  | .u8 h => digitsVal 16 hexVal h
  | .oct o1 o2 o3 => (o1 - 48) * 64 + (o2 - 48) * 8 + (o3 - 48)

def Piece.valid : Piece → Prop
  | .lit c => c ≠ 92
  | .simple e => isSimple e = true
  | .hex h1 h2 => isHex h1 = true ∧ isHex h2 = true
  | .u4 h => h.length = 4 ∧ h.all isHex = true ∧ isScalar (digitsVal 16 hexVal h) = true
  | .u8 h => h.length = 8 ∧ h.all isHex = true ∧ isScalar (digitsVal 16 hexVal h) = true
  | .oct o1 o2 o3 => 48 ≤ o1 ∧ o1 ≤ 51 ∧ isOct o2 = true ∧ isOct o3 = true

def renderAll : List Piece → Text
  | [] => []
  | p :: ps => p.render ++ renderAll ps


end Cel.Str
